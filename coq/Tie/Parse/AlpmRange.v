(* Tie/Parse/AlpmRange.v — the generated translation of alpm's NewVersionRange
   (Gen/Parse/Alpm.v: parseConstraints = a loop over strings.Fields(s) that skips the word "and",
   parseConstraint = constraintPattern.FindStringSubmatch with matches[1], matches[2], then
   NewVersion on the second capture) never panics and terminates with fuel linear in the length
   of the input.  Ecosystem_NewVersion is newversion_alpm_no_panic (Tie/Parse/Alpm.v): the
   theorem is closed.  NewVersion's loops run over a capture of the constraint pattern, hence
   [submatch_within]. *)
From Coq Require Import ZArith List Bool Lia.
From Verif.Base Require Import Bytes GoNum GoOps Imp ImpFacts ImpErr BytesFacts.
From Verif.Gen.Code Require Alpm.
From Verif.Gen.Parse Require Alpm.
From Verif.Tie.Loops Require Import Common.
From Verif.Eco Require Import RangeCore.
From Verif.Eco.Alpm Require Range.
From Verif.Tie.Parse Require Import Common Scanners RangeCommon RangeTie RangeOptTie.
From Verif.Tie.Parse Require Alpm.
Import ListNotations.
Local Open Scope Z_scope.

Module G := Verif.Gen.Code.Alpm.
Module P := Verif.Gen.Parse.Alpm.
Module V := Verif.Tie.Parse.Alpm.
Module RM := Verif.Eco.Alpm.Range.

Section Range.
  Variable isdigit : Z -> bool.     (* unicode.IsDigit: any function *)
  Variable isletter : Z -> bool.    (* unicode.IsLetter: any function *)
  Variable cfind : bytes -> option (list bytes).   (* constraintPattern.FindStringSubmatch *)
  Hypothesis cfind_shape : submatch_shape cfind P.constraintPattern_groups.
  Hypothesis cfind_within : submatch_within cfind.

  Local Opaque trim_space beq fields to_lower P.Ecosystem_NewVersion.

  (* parseConstraint: matches[1], matches[2] under len(matches) = 3; NewVersion runs over the
     trimmed second capture, which is no longer than the text *)
  Lemma parseConstraint_alpm_no_panic : forall fuel c e,
    Z.of_nat (length c) < 2 ^ 63 -> (length c < fuel)%nat ->
    finished (P.parseConstraint isdigit isletter cfind fuel c e).
  Proof.
    intros fuel c e Hfit Hf. unfold P.parseConstraint.
    destruct (cfind c) as [m|] eqn:F; [|np].
    pose proof (cfind_shape _ _ F) as L. unfold P.constraintPattern_groups in L.
    pose proof (cfind_within _ _ F) as W.
    shape_list L.
    repeat (erewrite idx_known by reflexivity; cbn [bind]). cbv zeta.
    inversion W as [|? ? _ W1]; subst. inversion W1 as [|? ? _ W2]; subst.
    inversion W2 as [|? ? L2 _]; subst.
    match goal with |- context [trim_space ?x] => pose proof (trim_space_length_le x) as TL end.
    apply finished_bind; [|intros; np].
    apply V.newversion_alpm_no_panic; [unfold fits; lia | lia].
  Qed.

  Lemma parseConstraints_alpm_no_panic : forall fuel s e,
    Z.of_nat (length s) + 1 < 2 ^ 63 -> (S (length s) < fuel)%nat ->
    finished (P.parseConstraints isdigit isletter cfind fuel s e).
  Proof.
    intros fuel s e Hfit Hf. unfold P.parseConstraints. cbv zeta.
    pose proof (fields_length_le s) as SL.
    destruct (Z.of_nat (length (fields s)) =? 0); [np|].
    apply (range_loop_finished (fields s)
             (fun k part cs =>
                if beq (to_lower part) $"and" then Done (Next (wrap64 (k + 1), cs))
                else
                bind (P.parseConstraint isdigit isletter cfind fuel part e) (fun r =>
                  match r with
                  | None => Done (Ret None)
                  | Some c => Done (Next (wrap64 (k + 1), cs ++ [c]))
                  end))).
    - intros k part cs _ Hin. apply fields_In_length in Hin.
      destruct (beq _ _); [reflexivity|].
      destruct (parseConstraint_alpm_no_panic fuel part e) as [r ->]; [lia|lia|].
      cbn [bind]. destruct r; [reflexivity | exact I].
    - lia.
    - lia.
    - intros [[k cs]|r]; np.
  Qed.

  (* C06 for alpm's NewVersionRange: no panic, and fuel length s + 2 is enough *)
  Theorem newversionrange_alpm_no_panic : forall fuel e s,
    Z.of_nat (length s) + 1 < 2 ^ 63 -> (S (length s) < fuel)%nat ->
    finished (P.Ecosystem_NewVersionRange isdigit isletter cfind fuel e s).
  Proof.
    intros fuel e s Hfit Hf. unfold P.Ecosystem_NewVersionRange. cbv zeta.
    pose proof (trim_space_length_le s) as TL.
    destruct (beq s []); [np|].
    destruct (beq (trim_space s) []); [np|].
    apply finished_bind; [|intros; np].
    apply parseConstraints_alpm_no_panic; lia.
  Qed.
End Range.
Print Assumptions newversionrange_alpm_no_panic.

(* ---------- the tie to the model (Eco/Alpm/Range.v = RangeCore with RM.cfg) ---------- *)

Section Tie.
  Variable isdigit : Z -> bool.     (* unicode.IsDigit *)
  Variable isletter : Z -> bool.    (* unicode.IsLetter *)
  Variable cfind : bytes -> option (list bytes).   (* constraintPattern.FindStringSubmatch *)
  (* ORACLE AGREEMENT for the constraint pattern ^(>=|<=|>|<|=)?(.+)$, on the texts it is applied
     to (the fields of strings.Fields: no white space) *)
  Hypothesis cfind_agrees : forall t, no_space t = true -> cfind t = ref_cmatch RM.alpm_ops t.
  (* the callee: on ASCII text and with fuel above the length NewVersion computes a function [nv]
     of its text (exactly what Tie/Parse/Alpm.v: tie_parse_alpm_newversion provides, see the
     corollary below) *)
  Variable nv : bytes -> option G.Version.
  Hypothesis newversion_computes : forall fuel e v,
    all_ascii v = true -> fits v -> (length v < fuel)%nat ->
    P.Ecosystem_NewVersion isdigit isletter fuel e v = Done (nv v).

  Local Opaque P.Ecosystem_NewVersion to_lower.

  Definition conc (r : range) : G.VersionRange :=
    G.mk_VersionRange (r_orig r) (conc_cs nv G.mk_constraint (r_cs r)).

  Lemma tie_parse_alpm_parseConstraint : forall fuel c e,
    no_space c = true -> all_ascii c = true -> fits c -> (length c < fuel)%nat ->
    P.parseConstraint isdigit isletter cfind fuel c e = Done (model_pc nv G.mk_constraint RM.cfg c).
  Proof.
    intros fuel c e Hc Ha Hfit Hf.
    change (P.parseConstraint isdigit isletter cfind fuel c e)
      with (pc_body cfind (P.Ecosystem_NewVersion isdigit isletter fuel e) G.mk_constraint c).
    apply pc_body_model; [reflexivity | reflexivity | exact Hc | exact (cfind_agrees c Hc) |].
    intros n.
    pose proof (trim_space_length_le (skipn n c)) as TL.
    pose proof (skipn_length_le n c) as SL.
    apply newversion_computes.
    - apply forallb_trim_space, forallb_skipn. exact Ha.
    - unfold fits in *. lia.
    - lia.
  Qed.

  Lemma tie_parse_alpm_parseConstraints : forall fuel s e,
    all_ascii s = true -> Z.of_nat (length s) + 1 < 2 ^ 63 -> (S (length s) < fuel)%nat ->
    P.parseConstraints isdigit isletter cfind fuel s e =
    Done (match fields s with
          | [] => None
          | _ => option_map (conc_cs nv G.mk_constraint)
                   (parse_constraints G.Version nv RM.cfg (rc_split RM.cfg s))
          end).
  Proof.
    intros fuel s e Ha Hfit Hf. unfold P.parseConstraints. cbv zeta.
    change (rc_split RM.cfg s) with (filter (fun p => negb (beq (to_lower p) $"and")) (fields s)).
    pose proof (fields_length_le s) as SL.
    pose proof (fields_aux_no_space [] s eq_refl) as NS. fold (fields s) in NS.
    rewrite Forall_forall in NS.
    pose proof (fun f => fields_In_forallb is_ascii s f Ha) as AS.
    pose proof (fields_In_length s) as LS.
    destruct (fields s) as [|f0 fs] eqn:EF; [reflexivity|].
    change (Z.of_nat (length (f0 :: fs)) =? 0) with false. cbv iota.
    match goal with |- context [while fuel ?b (0, [])] =>
      change b with (range_body (R := option (list G.constraint)) (f0 :: fs)
             (fun k part cs =>
                if beq (to_lower part) $"and" then Done (Next (wrap64 (k + 1), cs))
                else
                bind (P.parseConstraint isdigit isletter cfind fuel part e) (fun r =>
                  match r with
                  | None => Done (Ret None)
                  | Some c => Done (Next (wrap64 (k + 1), cs ++ [c]))
                  end)))
    end.
    set (g := fun part cs => if beq (to_lower part) $"and" then inr cs
                             else plain_g nv G.mk_constraint RM.cfg part cs).
    rewrite (while_ext _ (range_body (R := option (list G.constraint)) (f0 :: fs)
               (fun k part cs =>
                  match g part cs with
                  | inl r => Done (Ret r)
                  | inr cs' => Done (Next (wrap64 (k + 1), cs'))
                  end))).
    2:{ intros [k cs]. unfold range_body.
        destruct (Z.ltb_spec k (Z.of_nat (length (f0 :: fs)))) as [Lt|Ge]; [|reflexivity].
        destruct (Z.leb_spec 0 k) as [K0|K0].
        - destruct (idx_lt_Done (f0 :: fs) k) as (x & E & N); [lia|].
          rewrite E. cbn [bind]. unfold g, plain_g.
          destruct (beq (to_lower x) _); [reflexivity|].
          apply nth_error_In in N. destruct (NS x N) as [_ Hx].
          pose proof (LS x N) as Lx.
          rewrite (tie_parse_alpm_parseConstraint fuel x e Hx (AS x N)) by (unfold fits; lia).
          cbn [bind]. destruct (model_pc _ _ _ _); reflexivity.
        - rewrite idx_out_of_range by (unfold len; lia). reflexivity. }
    rewrite (range_loop_result _ _ g); [|reflexivity|lia|lia].
    unfold g. rewrite run_skip.
    rewrite (run_plain nv G.mk_constraint RM.cfg eq_refl). cbn [bind app].
    destruct (parse_constraints _ _ _ _) as [l|]; reflexivity.
  Qed.

  (* the generated NewVersionRange computes the model's parse_range, with NewVersion's function
     as the model's bound parser *)
  Theorem tie_parse_alpm_newversionrange : forall fuel e s,
    all_ascii s = true -> Z.of_nat (length s) + 1 < 2 ^ 63 -> (S (length s) < fuel)%nat ->
    P.Ecosystem_NewVersionRange isdigit isletter cfind fuel e s =
    Done (option_map conc (parse_range G.Version nv RM.cfg s)).
  Proof.
    intros fuel e s Ha Hfit Hf. unfold P.Ecosystem_NewVersionRange, parse_range. cbv zeta.
    pose proof (trim_space_length_le s) as TL.
    pose proof (forallb_trim_space is_ascii s Ha) as At.
    destruct s as [|x0 s0]; [reflexivity|].
    change (beq (x0 :: s0) []) with false. cbv iota.
    set (s := x0 :: s0) in *. clearbody s.
    rewrite beq_nil_nonempty. destruct (trim_space s) as [|x t] eqn:E; [reflexivity|].
    cbn [nonempty negb]. pose proof (fields_trim_space_nonempty _ _ _ E) as FN.
    rewrite <- E in TL, At |- *.
    rewrite tie_parse_alpm_parseConstraints by (try exact At; lia). cbn [bind].
    destruct (fields (trim_space s)) as [|f0 fs] eqn:EF; [congruence|].
    destruct (parse_constraints _ _ _ _) as [l|] eqn:PC; [|reflexivity].
    destruct l as [|c l]; reflexivity.
  Qed.
End Tie.
Print Assumptions tie_parse_alpm_newversionrange.

(* with NewVersion's own tie (Tie/Parse/Alpm.v): the bound parser of the model is the MODEL's
   version parser — no hypothesis about NewVersion is left *)
Module M := Verif.Eco.Alpm.Version.

Definition nv_model (v : bytes) : option G.Version :=
  option_map (V.conc v) (M.parse_core (trim_space v)).

Theorem tie_parse_alpm_newversionrange_model :
  forall (isdigit isletter : Z -> bool) (cfind : bytes -> option (list bytes)),
  (forall c, is_ascii c = true -> isdigit (byte_z c) = is_digit c) ->
  (forall c, is_ascii c = true -> isletter (byte_z c) = is_letter c) ->
  (forall t, no_space t = true -> cfind t = ref_cmatch RM.alpm_ops t) ->
  forall fuel e s,
  all_ascii s = true -> Z.of_nat (length s) + 1 < 2 ^ 63 -> (S (length s) < fuel)%nat ->
  P.Ecosystem_NewVersionRange isdigit isletter cfind fuel e s =
  Done (option_map (conc nv_model) (parse_range G.Version nv_model RM.cfg s)).
Proof.
  intros isdigit isletter cfind Hd Hl Hc fuel e s Ha Hfit Hf.
  apply tie_parse_alpm_newversionrange; try assumption.
  intros fuel' e' v Av Fv Lv. apply V.tie_parse_alpm_newversion; assumption.
Qed.
Print Assumptions tie_parse_alpm_newversionrange_model.
