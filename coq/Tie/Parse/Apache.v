(* Tie/Parse/Apache.v — the generated translation of apache's NewVersion (Gen/Parse/Apache.v:
   FindStringSubmatch oracle, matches[1..5], matches[5][1:], strconv.Atoi) never panics, and
   agrees with the model's parser (Eco/Apache/Version.v) when the oracle agrees with the model's
   scanner. *)
From Coq Require Import ZArith List Bool Lia.
From Verif.Base Require Import Bytes GoNum GoOps Imp ImpFacts ImpErr BytesFacts.
From Verif.Eco.Apache Require Version.
From Verif.Gen.Code Require Apache.
From Verif.Gen.Parse Require Apache.
From Verif.Tie Require Apache.
From Verif.Tie.Parse Require Import Common.
Import ListNotations.
Local Open Scope Z_scope.

Module G := Verif.Gen.Code.Apache.
Module P := Verif.Gen.Parse.Apache.
Module M := Verif.Eco.Apache.Version.
Module T := Verif.Tie.Apache.

Section NewVersion.
  (* apacheVersionPattern.FindStringSubmatch: an oracle *)
  Variable find : bytes -> option (list bytes).
  Hypothesis find_shape : submatch_shape find P.apacheVersionPattern_groups.

  Local Opaque atoi trim_space to_lower beq has_prefix.

  (* C06: every matches[k] and the slice matches[5][1:] are inside their bounds *)
  Theorem newversion_apache_no_panic : forall e s, finished (P.Ecosystem_NewVersion find e s).
  Proof.
    intros e s. unfold P.Ecosystem_NewVersion.
    destruct (beq s []) eqn:E0; [np|].
    cbv zeta. destruct (beq (trim_space s) []) eqn:E1; [np|].
    destruct (find (trim_space s)) as [m|] eqn:F; [|np].
    pose proof (find_shape _ _ F) as L. unfold P.apacheVersionPattern_groups in L.
    shape_list L.
    np.
    (* the one slice: matches[5][1:] under the guard len(matches[5]) == 9 *)
    match goal with H : (Z.of_nat (length ?x) =? 9) = true |- _ =>
      apply Z.eqb_eq in H; rewrite (slice_from_Done x 1) by lia end.
    np.
  Qed.
End NewVersion.
Print Assumptions newversion_apache_no_panic.

(* ---------- the tie to the model ---------- *)

(* what apacheVersionPattern ^(\d+)\.(\d+)\.(\d+)(?:-([A-Za-z]+)(\d*|v\d{8})?)?$ returns on the
   trimmed text, re-expressed with the scanners of the model: [whole; major; minor; patch;
   letters; digits] (Go reports a group that did not take part as "").  That the real regexp
   engine agrees with this function is the oracle-agreement hypothesis below; the differential
   correspondence run checks it on every generated input. *)
Definition ref_match (t : bytes) : option (list bytes) :=
  let (d1, r1) := span is_digit t in
  match d1, r1 with
  | _ :: _, c1 :: r1' =>
    if ceqb c1 "."%char then
      let (d2, r2) := span is_digit r1' in
      match d2, r2 with
      | _ :: _, c2 :: r2' =>
        if ceqb c2 "."%char then
          let (d3, r3) := span is_digit r2' in
          match d3, M.parse_tail r3 with
          | _ :: _, Some (l, d) => Some [t; d1; d2; d3; l; d]
          | _, _ => None
          end
        else None
      | _, _ => None
      end
    else None
  | _, _ => None
  end.

(* the Go value for a parsed core *)
Definition conc (s : bytes) (c : M.core) : G.Version :=
  G.mk_Version s (M.major c) (M.minor c) (M.patch c) (M.qualifier c) (M.number c).

Lemma abs_conc s c : T.abs (conc s c) = c.
Proof. destruct c; reflexivity. Qed.

Lemma take_while_forallb p (s : bytes) : forallb p (take_while p s) = true.
Proof. induction s as [|c s IH]; cbn; [reflexivity|]. destruct (p c) eqn:E; cbn; [rewrite E; exact IH | reflexivity]. Qed.

(* strconv.Atoi on a non-empty run of digits is the model's atoi_digits *)
Lemma atoi_digits_run (d : bytes) : d <> [] -> forallb is_digit d = true -> atoi d = M.atoi_digits d.
Proof.
  intros N A. destruct d as [|c r]; [congruence|].
  assert (ND : nonempty_digits (c :: r) = true) by exact A.
  unfold atoi, M.atoi_digits.
  cbn [forallb] in A. apply andb_prop in A as [Dc _].
  assert (ceqb c "-"%char = false /\ ceqb c "+"%char = false) as [E1 E2].
  { unfold is_digit, in_range in Dc. unfold ceqb. apply andb_prop in Dc as [D1 D2].
    apply N.leb_le in D1. split; apply N.eqb_neq; intros X; rewrite X in D1; vm_compute in D1; congruence. }
  rewrite E1, E2. cbv zeta. rewrite ND. cbn [andb]. reflexivity.
Qed.

Lemma atoi_digits_nil : M.atoi_digits [] = None.
Proof. reflexivity. Qed.

(* a run of digits does not start with "v": the date branch of NewVersion is dead code *)
Lemma digits_no_v (d : bytes) : forallb is_digit d = true -> has_prefix $"v" d = false.
Proof.
  destruct d as [|c r]; [reflexivity|]. cbn [forallb has_prefix list_ascii_of_string]. intros A.
  apply andb_prop in A as [Dc _]. unfold is_digit, in_range in Dc. apply andb_prop in Dc as [_ D2].
  apply N.leb_le in D2. replace (ceqb "v"%char c) with false; [reflexivity|].
  symmetry. apply N.eqb_neq. intros X. unfold code in *. rewrite <- X in D2. vm_compute in D2. congruence.
Qed.

Section Tie.
  Variable find : bytes -> option (list bytes).
  (* ORACLE AGREEMENT: the regexp engine computes what the model's scanner computes *)
  Hypothesis find_agrees : forall t, find t = ref_match t.

  Theorem tie_parse_apache_newversion : forall e s,
    P.Ecosystem_NewVersion find e s = Done (option_map (conc s) (M.parse_core (trim_space s))).
  Proof.
    intros e s. unfold P.Ecosystem_NewVersion.
    destruct (beq s []) eqn:E0.
    { apply beq_eq in E0. subst s. reflexivity. }
    cbv zeta. destruct (beq (trim_space s) []) eqn:E1.
    { apply beq_eq in E1. rewrite E1. reflexivity. }
    rewrite find_agrees. set (t := trim_space s). clearbody t.
    unfold ref_match, M.parse_core, span.
    pose proof (take_while_forallb is_digit t) as A1.
    destruct (take_while is_digit t) as [|a1 d1] eqn:D1.
    { (* no major digits: the pattern does not match; the model's atoi_digits [] fails *)
      destruct (drop_while is_digit t) as [|c1 r1]; [reflexivity|].
      destruct (ceqb c1 "."%char); [|reflexivity].
      destruct (drop_while is_digit r1) as [|c2 r2]; [reflexivity|].
      destruct (ceqb c2 "."%char); [|reflexivity].
      destruct (M.parse_tail _) as [[l d]|]; reflexivity. }
    destruct (drop_while is_digit t) as [|c1 r1]; [reflexivity|].
    destruct (ceqb c1 "."%char); [|reflexivity].
    pose proof (take_while_forallb is_digit r1) as A2.
    destruct (take_while is_digit r1) as [|a2 d2] eqn:D2.
    { destruct (drop_while is_digit r1) as [|c2 r2]; [reflexivity|].
      destruct (ceqb c2 "."%char); [|reflexivity].
      destruct (M.parse_tail _) as [[l d]|]; [|reflexivity].
      rewrite atoi_digits_nil. destruct (M.atoi_digits (a1 :: d1)); reflexivity. }
    destruct (drop_while is_digit r1) as [|c2 r2]; [reflexivity|].
    destruct (ceqb c2 "."%char); [|reflexivity].
    pose proof (take_while_forallb is_digit r2) as A3.
    destruct (take_while is_digit r2) as [|a3 d3] eqn:D3.
    { destruct (M.parse_tail _) as [[l d]|]; [|reflexivity].
      rewrite atoi_digits_nil.
      destruct (M.atoi_digits (a1 :: d1)); [|reflexivity]. destruct (M.atoi_digits (a2 :: d2)); reflexivity. }
    set (rest := drop_while is_digit r2). 
    assert (TL : forall l d, M.parse_tail rest = Some (l, d) -> forallb is_digit d = true /\ (l = [] -> d = [])).
    { intros l d. unfold M.parse_tail, span. destruct rest as [|c r]; [intros X; injection X as <- <-; split; reflexivity|].
      destruct (ceqb c "-"%char); [|discriminate].
      destruct (take_while is_letter r) as [|x l']; [discriminate|].
      destruct (drop_while is_digit (drop_while is_letter r)) eqn:Z; [|discriminate].
      intros X. injection X as <- <-. split; [apply take_while_forallb | discriminate]. }
    destruct (M.parse_tail rest) as [[l d]|] eqn:PT; [|reflexivity].
    destruct (TL l d eq_refl) as [Ad Ld]. clear TL.
    Local Opaque atoi to_lower M.atoi_digits.
    repeat (erewrite idx_known by reflexivity; cbn [bind]).
    rewrite !atoi_digits_run by (assumption || discriminate).
    destruct (M.atoi_digits (a1 :: d1)) as [ma|]; [|reflexivity].
    destruct (M.atoi_digits (a2 :: d2)) as [mi|]; [|reflexivity].
    destruct (M.atoi_digits (a3 :: d3)) as [pa|]; [|reflexivity].
    destruct l as [|x l].
    { rewrite (Ld eq_refl). reflexivity. }
    change (negb (beq (x :: l) [])) with true. cbv iota.
    destruct d as [|y d].
    { reflexivity. }
    change (negb (beq (y :: d) [])) with true. cbv iota.
    rewrite (digits_no_v _ Ad). cbn [bind].
    rewrite atoi_digits_run by (assumption || discriminate).
    destruct (M.atoi_digits (y :: d)) as [n|]; reflexivity.
  Qed.
End Tie.
Print Assumptions tie_parse_apache_newversion.
