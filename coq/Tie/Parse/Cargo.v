(* Tie/Parse/Cargo.v — the generated translation of cargo's NewVersion (Gen/Parse/Cargo.v:
   FindStringSubmatch oracle, matches[1..5], strconv.Atoi) never panics, and
   agrees with the model's parser (Eco/Cargo/Version.v) when the oracle(s) agree with the model's
   scanners. *)
From Coq Require Import ZArith List Bool Lia.
From Verif.Base Require Import Bytes GoNum GoOps Imp ImpFacts ImpErr BytesFacts.
From Verif.Gen.Code Require Cargo.
From Verif.Gen.Parse Require Cargo.
From Verif.Tie.Parse Require Import Common.
Import ListNotations.
Local Open Scope Z_scope.

Module P := Verif.Gen.Parse.Cargo.

Local Opaque atoi trim_space beq.

Section NewVersion.
  Variable find : bytes -> option (list bytes).   (* versionPattern.FindStringSubmatch *)
  Hypothesis find_shape : submatch_shape find P.versionPattern_groups.

  (* C06: every matches[k], k = 1..5, is inside len(matches) = 6 *)
  Theorem newversion_cargo_no_panic : forall e s, finished (P.Ecosystem_NewVersion find e s).
  Proof.
    intros e s. unfold P.Ecosystem_NewVersion. cbv zeta.
    destruct (beq (trim_space s) []); [np|].
    destruct (find (trim_space s)) as [m|] eqn:F; [|np].
    pose proof (find_shape _ _ F) as L. unfold P.versionPattern_groups in L.
    shape_list L.
    np.
  Qed.
End NewVersion.
Print Assumptions newversion_cargo_no_panic.

(* ---------- the tie to the model ---------- *)
From Verif.Eco.Cargo Require Version.
From Verif.Tie Require Cargo.
Module G := Verif.Gen.Code.Cargo.
Module M := Verif.Eco.Cargo.Version.
Module T := Verif.Tie.Cargo.

(* what versionPattern ^(\d+)\.(\d+)\.(\d+)(?:-(IDS))?(?:\+(IDS))?$ returns on the trimmed text,
   re-expressed with the scanners of the model: [whole; major; minor; patch; prerelease; build]
   (Go reports a group that did not take part as "").  That the real regexp engine agrees with
   this function is the oracle-agreement hypothesis below; the differential correspondence run
   checks it on every generated input. *)
Definition ref_match (t : bytes) : option (list bytes) :=
  let (ma, r1) := span is_digit t in
  match M.expect_dot r1 with
  | None => None
  | Some r1' =>
      let (mi, r2) := span is_digit r1' in
      match M.expect_dot r2 with
      | None => None
      | Some r2' =>
          let (pa, r3) := span is_digit r2' in
          match M.parse_suffix r3 with
          | None => None
          | Some (pre, bld) =>
              if nonempty_digits ma && nonempty_digits mi && nonempty_digits pa
              then Some [t; ma; mi; pa; pre; bld]
              else None
          end
      end
  end.

(* the Go value for a parsed core *)
Definition conc (s : bytes) (c : M.core) : G.Version :=
  G.mk_Version (M.major c) (M.minor c) (M.patch c) (M.prerelease c) (M.build c) s.

Lemma abs_conc s c : T.abs (conc s c) = c.
Proof. destruct c; reflexivity. Qed.

Section Tie.
  Variable find : bytes -> option (list bytes).
  (* ORACLE AGREEMENT: the regexp engine computes what the model's scanner computes *)
  Hypothesis find_agrees : forall t, find t = ref_match t.

  Theorem tie_parse_cargo_newversion : forall e s,
    P.Ecosystem_NewVersion find e s = Done (option_map (conc s) (M.parse_core (trim_space s))).
  Proof.
    intros e s. unfold P.Ecosystem_NewVersion. cbv zeta.
    destruct (beq (trim_space s) []) eqn:E1.
    { apply beq_eq in E1. rewrite E1. reflexivity. }
    rewrite find_agrees. set (t := trim_space s). clearbody t.
    unfold ref_match, M.parse_core, span.
    destruct (M.expect_dot _) as [r1|]; [|reflexivity].
    destruct (M.expect_dot _) as [r2|]; [|reflexivity].
    destruct (M.parse_suffix _) as [[pre bld]|]; [|reflexivity].
    set (ma := take_while is_digit t). set (mi := take_while is_digit r1).
    set (pa := take_while is_digit r2).
    destruct (nonempty_digits ma && nonempty_digits mi && nonempty_digits pa).
    - repeat (erewrite idx_known by reflexivity; cbn [bind]).
      destruct (atoi ma); [|reflexivity].
      repeat (erewrite idx_known by reflexivity; cbn [bind]).
      destruct (atoi mi); [|reflexivity].
      repeat (erewrite idx_known by reflexivity; cbn [bind]).
      destruct (atoi pa); reflexivity.
    - destruct (atoi ma); [|reflexivity]. destruct (atoi mi); [|reflexivity].
      destruct (atoi pa); reflexivity.
  Qed.
End Tie.
Print Assumptions tie_parse_cargo_newversion.
