(* Tie/Parse/CargoRange.v — the generated translation of cargo's NewVersionRange
   (Gen/Parse/Cargo.v: parseConstraints = a loop over strings.Split(s, ","), parseConstraint with
   the caret / tilde / operator / wildcard branches, normalizePartialVersion, countCoreComponents,
   convertWildcardToStandardConstraint) never panics and terminates with fuel linear in the length
   of the input.  CLOSED over NewVersion: newversion_cargo_no_panic (Tie/Parse/Cargo.v) is used.

   Oracles and what is assumed about them:
   * versionPattern.FindStringSubmatch: [submatch_shape find versionPattern_groups];
   * strings.IndexAny (a library oracle of the generated file): its answer is -1 or an index into
     the text, [-1 <= IndexAny s chars < len s] — the only thing the slices version[:i],
     version[i:] need.

   What is guarded by what:
   * constraintStr[1:] under HasPrefix(constraintStr, "^" / "~");
   * constraintStr[len(op):] under HasPrefix(constraintStr, op);
   * version[:i], version[i:] under i != -1 (range of IndexAny);
   * parts[:3] after the loop `for len(parts) < 3 { parts = append(parts, "0") }`: the loop leaves
     with len(parts) >= 3, after at most 3 iterations.

   Second part: the tie to the model Eco/Cargo/Range.v — [tie_parse_cargo_newversionrange]: under
   the oracle-agreement hypotheses (regexp = ref_match of Tie/Parse/Cargo.v, strings.IndexAny =
   [ref_index_any]) the generated NewVersionRange computes the model's parse_range. *)
From Coq Require Import ZArith List Ascii Bool Lia.
From Verif.Base Require Import Bytes GoNum GoOps Imp ImpFacts ImpErr BytesFacts.
From Verif.Gen.Code Require Cargo.
From Verif.Gen.Loops Require Cargo.
From Verif.Gen.Parse Require Cargo.
From Verif.Tie.Parse Require Import Common RangeCommon.
From Verif.Tie.Parse Require Cargo.
Import ListNotations.
Local Open Scope Z_scope.

Module G := Verif.Gen.Code.Cargo.
Module P := Verif.Gen.Parse.Cargo.
Module L := Verif.Gen.Loops.Cargo.

(* the answer of strings.IndexAny: -1 or a position of the text *)
Definition index_in_range (f : bytes -> bytes -> Z) : Prop :=
  forall s chars, -1 <= f s chars < Z.of_nat (length s).

Section Range.
  Variable indexAny : bytes -> bytes -> Z.                (* strings.IndexAny *)
  Variable find : bytes -> option (list bytes).           (* versionPattern.FindStringSubmatch *)
  Hypothesis indexAny_range : index_in_range indexAny.
  Hypothesis find_shape : submatch_shape find P.versionPattern_groups.

  Let newversion_finished : forall e v, finished (P.Ecosystem_NewVersion find e v) :=
    Verif.Tie.Parse.Cargo.newversion_cargo_no_panic find find_shape.

  Local Opaque trim_space beq split_c has_prefix has_suffix contains_sub trim_suffix join
        P.Ecosystem_NewVersion L.countVersionComponents.

  Ltac nv_step :=
    match goal with
    | |- finished (bind (P.Ecosystem_NewVersion _ _ _) _) =>
        apply finished_bind; [apply newversion_finished | intros ? _]
    | _ => np_step
    end.
  Ltac npv := repeat nv_step.

  (* normalizePartialVersion: at most 3 iterations of the padding loop, then parts[:3] *)
  Lemma normalizePartialVersion_no_panic : forall fuel v,
    (3 < fuel)%nat -> finished (P.normalizePartialVersion indexAny fuel v).
  Proof.
    intros fuel v Hf. unfold P.normalizePartialVersion. cbv zeta.
    pose proof (indexAny_range v $"-+") as IR.
    set (i := indexAny v _) in *. clearbody i.
    apply finished_bind.
    - destruct (Z.eqb_spec i (-1)) as [->|N]; cbn [negb]; [np|].
      rewrite slice_to_in_range by (unfold len; lia). cbn [bind].
      rewrite slice_from_in_range by (unfold len; lia). np.
    - intros [core suffix] _.
      generalize (split_c (chr 46) core). intros parts0.
      match goal with |- finished (bind (while fuel ?b parts0) ?k) =>
        destruct (while_rule_ex b (fun _ => True) (fun parts => (3 - length parts)%nat)
                    (fun parts => (3 <= length parts)%nat) (fun _ => True)) with (fuel := fuel) (s := parts0)
          as (x & E & Q)
      end.
      + intros parts _. unfold step_ok.
        destruct (Z.ltb_spec (Z.of_nat (length parts)) 3) as [Lt|Ge].
        * split; [exact I|]. rewrite app_length. cbn [length]. lia.
        * lia.
      + exact I.
      + lia.
      + rewrite E. cbn [bind]. destruct x as [parts|r]; [|np].
        rewrite slice_to_in_range by (unfold len; lia). np.
  Qed.

  Ltac nvn_step :=
    match goal with
    | |- finished (bind (P.normalizePartialVersion _ _ _) _) =>
        apply finished_bind; [apply normalizePartialVersion_no_panic; lia | intros ? _]
    | _ => nv_step
    end.
  Ltac npn := repeat nvn_step.

  (* countCoreComponents: version[:i] under i != -1 *)
  Lemma countCoreComponents_no_panic : forall v, finished (P.countCoreComponents indexAny v).
  Proof.
    intros v. unfold P.countCoreComponents. cbv zeta.
    pose proof (indexAny_range v $"-+") as IR.
    set (i := indexAny v _) in *. clearbody i.
    destruct (Z.eqb_spec i (-1)) as [->|N]; cbn [negb]; [np|].
    rewrite slice_to_in_range by (unfold len; lia). np.
  Qed.

  Lemma convertWildcard_no_panic : forall fuel c e,
    (3 < fuel)%nat -> finished (P.convertWildcardToStandardConstraint indexAny find fuel c e).
  Proof.
    intros fuel c e Hf. unfold P.convertWildcardToStandardConstraint. cbv zeta. npn.
  Qed.

  (* parseConstraint: caret, tilde, the six operators, wildcard, bare version *)
  Lemma parseConstraint_cargo_no_panic : forall fuel c e,
    (6 < fuel)%nat -> finished (P.parseConstraint indexAny find fuel c e).
  Proof.
    intros fuel c e Hf. unfold P.parseConstraint. cbv zeta.
    destruct (has_prefix $"^" (trim_space c)) eqn:E1.
    { rewrite (slice_from_prefix _ _ E1 : slice_from _ 1 = _). cbn [bind].
      npn. apply finished_bind; [apply countCoreComponents_no_panic | intros; np]. }
    destruct (has_prefix $"~" (trim_space c)) eqn:E2.
    { rewrite (slice_from_prefix _ _ E2 : slice_from _ 1 = _). cbn [bind]. npn. }
    apply (ops_loop_finished [$">="; $"<="; $"!="; $">"; $"<"; $"="] (trim_space c)
             (fun op sl =>
                if beq (trim_space sl) [] then Done (Ret None)
                else bind (P.Ecosystem_NewVersion find e (trim_space sl)) (fun r =>
                     match r with
                     | None => Done (Ret None)
                     | Some version => Done (Ret (Some (G.mk_constraint op version 3)))
                     end))).
    - intros op _ _. destruct (beq _ _); [eauto|].
      destruct (newversion_finished e (trim_space (skipn (length op) (trim_space c)))) as [r ->].
      cbn [bind]. destruct r; eauto.
    - cbn. lia.
    - cbn [length]. lia.
    - intros [k|r]; [|np].
      destruct (contains_sub _ _).
      + apply finished_bind; [apply convertWildcard_no_panic; lia | intros; np].
      + npv.
  Qed.

  (* parseConstraints: one iteration per comma-separated part *)
  Lemma parseConstraints_cargo_no_panic : forall fuel s e,
    Z.of_nat (length s) + 1 < 2 ^ 63 -> (length s + 6 < fuel)%nat ->
    finished (P.parseConstraints indexAny find fuel s e).
  Proof.
    intros fuel s e Hfit Hf. unfold P.parseConstraints. cbv zeta.
    pose proof (split_c_length_le (chr 44) s) as SL.
    apply (parts_loop_finished (split_c (chr 44) s)
             (fun part => P.parseConstraint indexAny find fuel part e)).
    - intros part _. apply parseConstraint_cargo_no_panic. lia.
    - lia.
    - lia.
    - intros [[k cs]|r]; np.
  Qed.

  (* C06 for cargo's NewVersionRange: no panic, and fuel length s + 7 is enough *)
  Theorem newversionrange_cargo_no_panic : forall fuel e s,
    Z.of_nat (length s) + 1 < 2 ^ 63 -> (length s + 6 < fuel)%nat ->
    finished (P.Ecosystem_NewVersionRange indexAny find fuel e s).
  Proof.
    intros fuel e s Hfit Hf. unfold P.Ecosystem_NewVersionRange. cbv zeta.
    pose proof (trim_space_length_le s) as TL.
    destruct (beq (trim_space s) []); [np|].
    apply finished_bind; [|intros; np].
    apply parseConstraints_cargo_no_panic; lia.
  Qed.
End Range.
Print Assumptions newversionrange_cargo_no_panic.

(* ---------- the tie to the model (Eco/Cargo/Range.v) ---------- *)
From Verif.Eco Require Import RangeCore.
From Verif.Eco.Cargo Require Range.
From Verif.Tie.Parse Require Import RangeTie.
Module RM := Verif.Eco.Cargo.Range.

Definition not_suffix_start (c : ascii) : bool := negb (RM.is_suffix_start c).

(* what strings.IndexAny(s, "-+") returns, with the scanner of the model: the length of the
   longest prefix without '-' and '+', or -1 when that is the whole text.  That the library
   function agrees with this is the oracle-agreement hypothesis of the tie. *)
Definition ref_index_any (s : bytes) : Z :=
  let pre := take_while not_suffix_start s in
  if (length pre <? length s)%nat then Z.of_nat (length pre) else -1.

Lemma take_drop_while p (s : bytes) : take_while p s ++ drop_while p s = s.
Proof. induction s as [|c s IH]; cbn; [reflexivity|]. destruct (p c); cbn; [rewrite IH|]; reflexivity. Qed.

Lemma take_while_length_le p (s : bytes) : (length (take_while p s) <= length s)%nat.
Proof. induction s as [|c s IH]; cbn; [lia|]. destruct (p c); cbn; lia. Qed.

Lemma firstn_take_while p (s : bytes) : firstn (length (take_while p s)) s = take_while p s.
Proof.
  rewrite <- (take_drop_while p s) at 2. rewrite firstn_app, Nat.sub_diag, firstn_all. cbn. apply app_nil_r.
Qed.

Lemma skipn_take_while p (s : bytes) : skipn (length (take_while p s)) s = drop_while p s.
Proof.
  rewrite <- (take_drop_while p s) at 2. rewrite skipn_app, Nat.sub_diag, skipn_all. reflexivity.
Qed.

Lemma take_while_all p (s : bytes) :
  length (take_while p s) = length s -> take_while p s = s /\ drop_while p s = [].
Proof.
  intros H. pose proof (take_drop_while p s) as E.
  assert (L : length (drop_while p s) = 0%nat).
  { apply (f_equal (@length ascii)) in E. rewrite app_length in E. lia. }
  apply length_0_inv in L. rewrite L, app_nil_r in E. split; assumption.
Qed.

Lemma contains_sub_c c (s : bytes) : contains_sub [c] s = contains_c c s.
Proof.
  unfold contains_sub, contains_c. induction s as [|x s IH]; [reflexivity|].
  cbn [cut has_prefix existsb]. rewrite andb_true_r.
  destruct (ceqb c x); cbn [orb]; [reflexivity|].
  rewrite <- IH. destruct (cut [c] s) as [[a b]|]; reflexivity.
Qed.

Lemma countVersionComponents_model v :
  L.countVersionComponents v = Z.of_nat (RM.count_components v).
Proof. unfold L.countVersionComponents, RM.count_components. destruct v; reflexivity. Qed.

(* the padding loop `for len(parts) < 3 { parts = append(parts, "0") }` *)
Lemma pad_loop : forall n (parts : list (list ascii)) fuel,
  (3 - length parts = n)%nat -> (n < fuel)%nat ->
  while (R := bytes) fuel (fun parts =>
    if Z.ltb (Z.of_nat (length parts)) 3 then Done (Next (parts ++ [$"0"])) else Done (Break parts)) parts =
  Done (Fell (parts ++ repeat ($"0") n)).
Proof.
  induction n as [|n IH]; intros parts fuel Hn Hf; (destruct fuel as [|fuel]; [lia|]); cbn [while].
  - match goal with |- context [Z.ltb ?a 3] => destruct (Z.ltb_spec a 3) end; [lia|]. cbn [repeat]. rewrite app_nil_r. reflexivity.
  - match goal with |- context [Z.ltb ?a 3] => destruct (Z.ltb_spec a 3) end; [|lia].
    rewrite IH; [|rewrite app_length; cbn [length]; lia | lia].
    rewrite <- app_assoc. reflexivity.
Qed.

Lemma firstn3_pad (parts : list bytes) :
  firstn 3 (parts ++ repeat ($"0") (3 - length parts)) = firstn 3 (parts ++ [$"0"; $"0"; $"0"]).
Proof. destruct parts as [|a [|b [|c r]]]; reflexivity. Qed.

Section Tie.
  Variable indexAny : bytes -> bytes -> Z.
  Variable find : bytes -> option (list bytes).
  Variable nv : G.Ecosystem -> bytes -> option G.Version.     (* NewVersion as a function *)
  (* ORACLE AGREEMENT for the library function *)
  Hypothesis indexAny_agrees : forall s, indexAny s $"-+" = ref_index_any s.
  (* the callee (closed below with tie_parse_cargo_newversion) *)
  Hypothesis newversion_computes : forall e v, P.Ecosystem_NewVersion find e v = Done (nv e v).

  Local Opaque trim_space split_c has_prefix has_suffix contains_sub trim_suffix join
        P.Ecosystem_NewVersion L.countVersionComponents.

  Lemma normalizePartialVersion_model : forall fuel v,
    (3 < fuel)%nat -> P.normalizePartialVersion indexAny fuel v = Done (RM.normalize_partial v).
  Proof.
    intros fuel v Hf. unfold P.normalizePartialVersion, RM.normalize_partial. cbv zeta.
    rewrite indexAny_agrees. unfold ref_index_any. cbv zeta.
    fold not_suffix_start.
    pose proof (take_while_length_le not_suffix_start v) as TL.
    assert (Fin : forall core suffix,
      bind (while (R := bytes) fuel (fun parts =>
              if Z.ltb (Z.of_nat (length parts)) 3 then Done (Next (parts ++ [$"0"])) else Done (Break parts))
              (split_c (chr 46) core))
           (fun lp => match lp with
                      | Fell parts => bind (slice_to parts 3) (fun sl2 => Done (join $"." sl2 ++ suffix))
                      | Returned r => Done r
                      end) =
      Done (join $"." (firstn 3 (split_c (chr 46) core ++ [$"0"; $"0"; $"0"])) ++ suffix)).
    { intros core suffix. rewrite (pad_loop _ _ _ eq_refl) by lia. cbn [bind].
      rewrite slice_to_in_range.
      - cbn [bind]. change (Z.to_nat 3) with 3%nat. rewrite firstn3_pad. reflexivity.
      - unfold len. rewrite app_length, repeat_length. lia. }
    destruct (Nat.ltb_spec (length (take_while not_suffix_start v)) (length v)) as [Lt|Ge].
    - destruct (Z.eqb_spec (Z.of_nat (length (take_while not_suffix_start v))) (-1)) as [E|_]; [lia|].
      cbn [negb]. rewrite slice_to_in_range by (unfold len; lia). cbn [bind].
      rewrite slice_from_in_range by (unfold len; lia). cbn [bind].
      rewrite Nat2Z.id, firstn_take_while, skipn_take_while. apply Fin.
    - rewrite Z.eqb_refl. cbn [negb bind].
      destruct (take_while_all not_suffix_start v) as [-> ->]; [lia|]. apply Fin.
  Qed.

  Lemma countCoreComponents_model : forall v,
    P.countCoreComponents indexAny v = Done (Z.of_nat (RM.count_core_components v)).
  Proof.
    intros v. unfold P.countCoreComponents, RM.count_core_components. cbv zeta.
    rewrite indexAny_agrees. unfold ref_index_any. cbv zeta. fold not_suffix_start.
    pose proof (take_while_length_le not_suffix_start v) as TL.
    destruct (Nat.ltb_spec (length (take_while not_suffix_start v)) (length v)) as [Lt|Ge].
    - destruct (Z.eqb_spec (Z.of_nat (length (take_while not_suffix_start v))) (-1)) as [E|_]; [lia|].
      cbn [negb]. rewrite slice_to_in_range by (unfold len; lia). cbn [bind].
      rewrite Nat2Z.id, firstn_take_while, countVersionComponents_model. reflexivity.
    - rewrite Z.eqb_refl. cbn [negb bind].
      destruct (take_while_all not_suffix_start v) as [-> _]; [lia|].
      rewrite countVersionComponents_model. reflexivity.
  Qed.

  (* ---------- the Go value of a model constraint ---------- *)
  Variable e : G.Ecosystem.
  Definition vok (t : bytes) : bool := match nv e t with Some _ => true | None => false end.

  Definition op_of (k : RM.kind) : bytes :=
    match k with RM.KCmp op => op | RM.KCaret _ => $"^" | RM.KTilde _ => $"~" end.
  Definition prec_of (k : RM.kind) : Z :=
    match k with RM.KCmp _ => 3 | RM.KCaret p => Z.of_nat p | RM.KTilde p => Z.of_nat p end.

  Definition conc1 (c : RM.constraint) : option G.constraint :=
    option_map (fun v => G.mk_constraint (op_of (RM.c_kind c)) v (prec_of (RM.c_kind c)))
               (nv e (RM.c_ver c)).
  Definition conc_cs (cs : list RM.constraint) : list G.constraint :=
    flat_map (fun c => match conc1 c with Some x => [x] | None => [] end) cs.
  Definition conc (r : RM.range) : G.VersionRange :=
    G.mk_VersionRange (conc_cs (RM.r_cs r)) (RM.r_orig r).

  Definition lift (o : option RM.constraint) : option G.constraint :=
    match o with Some c => conc1 c | None => None end.

  Lemma lift_mk k text :
    lift (RM.mk vok k text) =
    option_map (fun v => G.mk_constraint (op_of k) v (prec_of k)) (nv e text).
  Proof. unfold lift, RM.mk, vok, conc1. destruct (nv e text) eqn:E; cbn; [rewrite E|]; reflexivity. Qed.

  Lemma mk_some k text c : RM.mk vok k text = Some c -> exists x, conc1 c = Some x.
  Proof.
    unfold RM.mk, vok, conc1. destruct (nv e text) as [v|] eqn:E; [|discriminate].
    intros H. injection H as <-. cbn. rewrite E. eexists. reflexivity.
  Qed.

  (* a bind over NewVersion followed by wrapping the version *)
  Lemma nv_bind {B} text (f : G.Version -> B) :
    bind (P.Ecosystem_NewVersion find e text) (fun r =>
      match r with None => Done None | Some v => Done (Some (f v)) end) =
    Done (option_map f (nv e text)).
  Proof. rewrite newversion_computes. cbn [bind]. destruct (nv e text); reflexivity. Qed.

  Lemma convertWildcard_model : forall fuel c,
    (3 < fuel)%nat ->
    P.convertWildcardToStandardConstraint indexAny find fuel c e = Done (lift (RM.parse_wildcard vok c)).
  Proof.
    intros fuel c Hf. unfold P.convertWildcardToStandardConstraint, RM.parse_wildcard. cbv zeta.
    destruct (beq c $"*").
    { rewrite lift_mk. rewrite newversion_computes. cbn [bind]. destruct (nv e _); reflexivity. }
    set (base := trim_suffix $"." (trim_suffix $"*" c)).
    change "."%char with (chr 46).
    pose proof (Nat2Z.id (length (split_c (chr 46) base))) as LL.
    destruct (length (split_c (chr 46) base)) as [|[|[|n]]] eqn:E.
    - cbn [Z.of_nat Z.eqb]. reflexivity.
    - cbn [Z.of_nat Z.eqb Pos.of_succ_nat Pos.eqb]. rewrite normalizePartialVersion_model by lia. cbn [bind].
      rewrite lift_mk, newversion_computes. cbn [bind]. destruct (nv e _); reflexivity.
    - replace (Z.of_nat 2 =? 1) with false by reflexivity. replace (Z.of_nat 2 =? 2) with true by reflexivity.
      rewrite normalizePartialVersion_model by lia. cbn [bind].
      rewrite lift_mk, newversion_computes. cbn [bind]. destruct (nv e _); reflexivity.
    - destruct (Z.eqb_spec (Z.of_nat (S (S (S n)))) 1); [lia|].
      destruct (Z.eqb_spec (Z.of_nat (S (S (S n)))) 2); [lia|]. reflexivity.
  Qed.

  Lemma tie_parse_cargo_parseConstraint : forall fuel c,
    (6 < fuel)%nat ->
    P.parseConstraint indexAny find fuel c e = Done (lift (RM.parse_constraint vok c)).
  Proof.
    intros fuel c Hf. unfold P.parseConstraint, RM.parse_constraint, strip_prefix. cbv zeta.
    destruct (has_prefix $"^" (trim_space c)) eqn:E1.
    { rewrite (slice_from_prefix _ _ E1 : slice_from _ 1 = _). cbn [bind].
      rewrite normalizePartialVersion_model by lia. cbn [bind].
      rewrite lift_mk, newversion_computes. cbn [bind].
      destruct (nv e _); [|reflexivity].
      rewrite countCoreComponents_model. reflexivity. }
    destruct (has_prefix $"~" (trim_space c)) eqn:E2.
    { rewrite (slice_from_prefix _ _ E2 : slice_from _ 1 = _). cbn [bind].
      rewrite normalizePartialVersion_model by lia. cbn [bind].
      rewrite lift_mk, newversion_computes. cbn [bind].
      destruct (nv e _); [|reflexivity].
      rewrite countVersionComponents_model. reflexivity. }
    match goal with |- context [while fuel ?b 0] =>
      change b with (ops_body [$">="; $"<="; $"!="; $">"; $"<"; $"="] (trim_space c)
             (fun op sl =>
                if beq (trim_space sl) [] then Done (Ret None)
                else bind (P.Ecosystem_NewVersion find e (trim_space sl)) (fun r =>
                     match r with
                     | None => Done (Ret None)
                     | Some version => Done (Ret (Some (G.mk_constraint op version 3)))
                     end)))
    end.
    rewrite (ops_loop_result _ _ _
               (fun op sl => if beq (trim_space sl) [] then None
                             else option_map (fun v => G.mk_constraint op v 3) (nv e (trim_space sl)))).
    - cbn [bind]. change RM.cargo_ops with [$">="; $"<="; $"!="; $">"; $"<"; $"="].
      destruct (first_prefix _ _) as [[op rest]|].
      + rewrite beq_nil_nonempty. destruct (trim_space rest) as [|x t] eqn:ER; [reflexivity|].
        cbn [nonempty negb]. rewrite lift_mk. reflexivity.
      + rewrite (contains_sub_c "*"%char : forall s, contains_sub $"*" s = _).
        destruct (contains_c _ _).
        * rewrite convertWildcard_model by lia. reflexivity.
        * rewrite lift_mk, newversion_computes. cbn [bind]. destruct (nv e _); reflexivity.
    - intros op. destruct (beq _ _); [reflexivity|].
      rewrite newversion_computes. cbn [bind]. destruct (nv e _); reflexivity.
    - cbn. lia.
    - cbn [length]. lia.
  Qed.

  (* the loop over the parts *)
  Definition parts_g (part : bytes) (cs : list G.constraint)
    : option (list G.constraint) + list G.constraint :=
    let p := trim_space part in
    if beq p [] then inr cs
    else match lift (RM.parse_constraint vok p) with
         | None => inl None
         | Some c => inr (cs ++ [c])
         end.

  Lemma parse_constraint_some p c :
    RM.parse_constraint vok p = Some c -> exists x, conc1 c = Some x.
  Proof.
    unfold RM.parse_constraint, RM.parse_wildcard. cbv zeta.
    repeat match goal with
    | |- context [match ?x with _ => _ end] => destruct x eqn:?
    | |- context [if ?x then _ else _] => destruct x eqn:?
    end; try discriminate; apply mk_some.
  Qed.

  Lemma run_parts_cargo : forall parts acc,
    run parts_g parts acc =
    match RM.parse_constraints vok (filter nonempty (map trim_space parts)) with
    | None => inl None
    | Some l => inr (acc ++ conc_cs l)
    end.
  Proof.
    induction parts as [|part r IH]; intros acc; cbn [run map filter RM.parse_constraints].
    - cbn. rewrite app_nil_r. reflexivity.
    - unfold parts_g at 1. cbv zeta. rewrite beq_nil_nonempty.
      destruct (nonempty (trim_space part)); cbn [negb]; [|apply IH].
      cbn [RM.parse_constraints].
      destruct (RM.parse_constraint vok (trim_space part)) as [c|] eqn:PC; cbn [lift]; [|reflexivity].
      destruct (parse_constraint_some _ _ PC) as [x Ex]. rewrite Ex.
      rewrite IH. destruct (RM.parse_constraints _ _) as [l|]; [|reflexivity].
      f_equal. rewrite <- app_assoc. f_equal. cbn [conc_cs flat_map]. rewrite Ex. reflexivity.
  Qed.

  Lemma parse_constraints_conc_length : forall ps l,
    RM.parse_constraints vok ps = Some l -> length (conc_cs l) = length l.
  Proof.
    induction ps as [|p r IH]; intros l H; cbn [RM.parse_constraints] in H.
    - injection H as <-. reflexivity.
    - destruct (RM.parse_constraint vok p) as [c|] eqn:PC; [|discriminate].
      destruct (RM.parse_constraints vok r) as [l'|]; [|discriminate].
      injection H as <-. destruct (parse_constraint_some _ _ PC) as [x Ex].
      cbn [conc_cs flat_map length]. rewrite Ex. cbn [app length]. f_equal. apply (IH l' eq_refl).
  Qed.

  Lemma tie_parse_cargo_parseConstraints : forall fuel s,
    Z.of_nat (length s) + 1 < 2 ^ 63 -> (length s + 6 < fuel)%nat ->
    P.parseConstraints indexAny find fuel s e =
    Done (match RM.parse_constraints vok (split_comma_trim s) with
          | Some (c :: l) => Some (conc_cs (c :: l))
          | _ => None
          end).
  Proof.
    intros fuel s Hfit Hf. unfold P.parseConstraints. cbv zeta.
    pose proof (split_c_length_le (chr 44) s) as SL.
    match goal with |- context [while fuel ?b (0, [])] =>
      change b with (range_body (R := option (list G.constraint)) (split_c (chr 44) s)
             (fun k part cs =>
                let part := trim_space part in
                if beq part [] then Done (Next (wrap64 (k + 1), cs))
                else bind (P.parseConstraint indexAny find fuel part e) (fun r =>
                  match r with
                  | None => Done (Ret None)
                  | Some c => Done (Next (wrap64 (k + 1), cs ++ [c]))
                  end)))
    end.
    rewrite (range_loop_result _ _ parts_g); [| |lia|lia].
    - rewrite run_parts_cargo. cbn [bind app].
      change (split_comma_trim s) with (filter nonempty (map trim_space (split_c (chr 44) s))).
      destruct (RM.parse_constraints _ _) as [l|] eqn:PC; [|reflexivity].
      apply parse_constraints_conc_length in PC.
      destruct l as [|c l]; [reflexivity|].
      rewrite PC. reflexivity.
    - intros k part cs. unfold parts_g. cbv zeta.
      destruct (beq (trim_space part) []); [reflexivity|].
      rewrite tie_parse_cargo_parseConstraint by lia. cbn [bind].
      destruct (lift _); reflexivity.
  Qed.

  Theorem tie_parse_cargo_newversionrange_nv : forall fuel s,
    Z.of_nat (length s) + 1 < 2 ^ 63 -> (length s + 6 < fuel)%nat ->
    P.Ecosystem_NewVersionRange indexAny find fuel e s =
    Done (option_map conc (RM.parse_range vok s)).
  Proof.
    intros fuel s Hfit Hf. unfold P.Ecosystem_NewVersionRange, RM.parse_range. cbv zeta.
    pose proof (trim_space_length_le s) as TL.
    rewrite beq_nil_nonempty. destruct (trim_space s) as [|x t] eqn:E; [reflexivity|].
    cbn [nonempty negb]. rewrite <- E in TL |- *.
    rewrite tie_parse_cargo_parseConstraints by lia. cbn [bind].
    destruct (RM.parse_constraints _ _) as [[|c l]|]; reflexivity.
  Qed.
End Tie.
Print Assumptions tie_parse_cargo_newversionrange_nv.

(* CLOSED over NewVersion: with the tie of the version parser (Tie/Parse/Cargo.v), under the two
   oracle-agreement hypotheses (the regexp engine computes ref_match, strings.IndexAny computes
   ref_index_any), the generated NewVersionRange computes the model's parse_range, where the
   model's validity oracle is "the model's version parser accepts the text". *)
Module TV := Verif.Tie.Parse.Cargo.

Definition nv_model (e : G.Ecosystem) (s : bytes) : option G.Version :=
  option_map (TV.conc s) (TV.M.parse_core (trim_space s)).

Theorem tie_parse_cargo_newversionrange :
  forall (indexAny : bytes -> bytes -> Z) (find : bytes -> option (list bytes)),
  (forall s, indexAny s $"-+" = ref_index_any s) ->
  (forall t, find t = TV.ref_match t) ->
  forall fuel e s,
  Z.of_nat (length s) + 1 < 2 ^ 63 -> (length s + 6 < fuel)%nat ->
  P.Ecosystem_NewVersionRange indexAny find fuel e s =
  Done (option_map (conc nv_model e) (RM.parse_range (vok nv_model e) s)).
Proof.
  intros indexAny find HI HF fuel e s Hfit Hf.
  apply (tie_parse_cargo_newversionrange_nv indexAny find nv_model HI); [|assumption|assumption].
  intros e' v. apply TV.tie_parse_cargo_newversion. exact HF.
Qed.
Print Assumptions tie_parse_cargo_newversionrange.

(* the two hypotheses about strings.IndexAny are compatible: the reference answer is in range *)
Lemma ref_index_any_in_range : index_in_range (fun s _ => ref_index_any s).
Proof.
  intros s _. unfold ref_index_any. cbv zeta.
  destruct (Nat.ltb_spec (length (take_while not_suffix_start s)) (length s)); lia.
Qed.
