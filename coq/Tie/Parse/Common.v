(* Tie/Parse/Common.v — shared statements and tactics for the theorems about the generated PARSERS
   (Gen/Parse/<Eco>.v).

   A regular expression of the Go code is a Section variable of the generated file (an oracle:
   `re_FindStringSubmatch : bytes -> option (list bytes)`).  What the theorems assume about it:

   [submatch_shape find groups]: a match has 1 + groups entries (Go: len(m) = 1 + NumSubexp();
     [groups] is the GENERATED constant <re>_groups, computed by the translator from the pattern);
   [submatch_within find]: every entry of a match is no longer than the text (they are substrings);
   the meaning of the expression (which texts match, what the groups are) is a separate, explicit
   hypothesis of the tie theorems ([.._agrees]): it is what the correspondence run checks.

   RECIPE for  newversion_<eco>_no_panic  (C06 for a parser: every index is guarded):
   1. Module P := Verif.Gen.Parse.<Eco>.  Open a Section, declare one Variable per oracle that
      [Check P.Ecosystem_NewVersion] shows, with [submatch_shape] as Hypothesis.
   2. State  forall e s, finished (P.Ecosystem_NewVersion oracles e s)  (with a fuel parameter:
      forall fuel, (bound s < fuel)%nat -> ..; bound = a linear function of length s).
   3. unfold the generated function (helpers too: state their own lemma first when they have a loop),
      destruct the oracle's answer with [eqn:], turn the shape hypothesis into a list skeleton with
      [shape_list] (m = [m0; m1; ..]) and run [np]: it computes the indices on the skeleton, splits
      every match / if, and closes the leaves that are [Done _].  What is left are slices (use
      [slice_from_Done] with the guard in the context) and loops ([while_rule_fuel]).
   Pitfall: never [simpl]/[cbn] without a whitelist on a goal that contains [atoi], [trim_space],
   [to_lower]: make them opaque first ([np] does). *)
From Coq Require Import ZArith List Bool Lia.
From Verif.Base Require Import Bytes GoNum Imp ImpFacts ImpErr.
Import ListNotations.
Local Open Scope Z_scope.

Definition submatch_shape (find : bytes -> option (list bytes)) (groups : nat) : Prop :=
  forall s m, find s = Some m -> length m = S groups.

Definition submatch_within (find : bytes -> option (list bytes)) : Prop :=
  forall s m, find s = Some m -> Forall (fun c : bytes => (length c <= length s)%nat) m.

(* a list of known length is a skeleton of that many variables *)
Lemma length_S_inv {A} (l : list A) n : length l = S n -> exists x t, l = x :: t /\ length t = n.
Proof. destruct l as [|x t]; [discriminate|]. intros H. exists x, t. split; [reflexivity | cbn [length] in H; injection H as H; exact H]. Qed.

Lemma length_0_inv {A} (l : list A) : length l = 0%nat -> l = [].
Proof. destruct l; [reflexivity | discriminate]. Qed.

Ltac shape_list H :=
  repeat match type of H with
  | length ?l = S _ =>
      let x := fresh "m" in let t := fresh "t" in let E := fresh "E" in
      destruct (length_S_inv _ _ H) as (x & t & E & H'); subst l; clear H; rename H' into H
  end;
  match type of H with
  | length ?l = 0%nat => apply length_0_inv in H; subst l
  end.

(* an index into a skeleton computes *)
Lemma idx_known {A} (s : list A) (i : Z) (a : A) :
  (0 <=? i) = true -> nth_error s (Z.to_nat i) = Some a -> idx s i = Done a.
Proof.
  intros H0 H. unfold idx, len. rewrite H0, H.
  assert (L : (Z.to_nat i < length s)%nat) by (apply nth_error_Some; congruence).
  apply Z.leb_le in H0.
  replace (i <? Z.of_nat (length s)) with true by (symmetry; apply Z.ltb_lt; lia).
  reflexivity.
Qed.

Ltac np_idx :=
  match goal with
  | |- context [idx ?l ?i] => erewrite (idx_known l i) by reflexivity
  end.

Ltac np_leaf :=
  match goal with
  | |- finished (Done _) => apply finished_Done
  end.

Ltac np_step :=
  match goal with
  | |- finished (Done _) => apply finished_Done
  | |- finished (match ?x with Some _ => _ | None => _ end) => destruct x eqn:?
  | |- finished (if ?c then _ else _) => destruct c eqn:?
  | |- finished (bind (if ?c then _ else _) _) => destruct c eqn:?
  | |- finished (bind (Done _) _) => cbn [bind]
  | |- finished (bind (bind _ _) _) => rewrite bind_assoc
  | |- finished (bind (idx _ _) _) => np_idx
  | |- finished (let _ := _ in _) => cbv zeta
  | |- finished _ => progress cbv beta zeta
  end.

Ltac np := repeat np_step.

(* ---------- loops ---------- *)

(* a loop followed by its continuation finishes when every iteration from a state satisfying the
   invariant is fine (no panic, measure decreases) and the continuation finishes *)
Lemma finished_while_bind {St R B : Type} (fuel : nat) (body : St -> res (step St R)) (s : St)
      (k : exit St R -> res B) (Inv : St -> Prop) (m : St -> nat) :
  (forall s, Inv s -> step_ok body Inv m (fun _ => True) (fun _ => True) s) ->
  Inv s -> (m s < fuel)%nat -> (forall x, finished (k x)) ->
  finished (bind (while fuel body s) k).
Proof.
  intros Hb Hi Hf Hk.
  destruct (while_rule_ex body Inv m (fun _ => True) (fun _ => True) Hb fuel s Hi Hf) as (x & E & _).
  rewrite E. cbn [bind]. apply Hk.
Qed.

Lemma wrap64_succ_lt (i n : Z) : 0 <= i < n -> n < 2 ^ 63 -> wrap64 (i + 1) = i + 1.
Proof.
  intros H1 H2. unfold wrap64, two64, two63.
  change (Z.of_N 18446744073709551616) with (2 ^ 64).
  change (Z.of_N 9223372036854775808) with (2 ^ 63).
  rewrite Z.mod_small by lia. destruct (Z.ltb_spec (i + 1) (2 ^ 63)); lia.
Qed.

(* ---------- lengths (fuel bounds are linear in the length of the input) ---------- *)

Lemma drop_while_length_le p (s : bytes) : (length (drop_while p s) <= length s)%nat.
Proof. induction s as [|c s IH]; cbn; [lia|]. destruct (p c); cbn; lia. Qed.

Lemma trim_space_length_le (s : bytes) : (length (trim_space s) <= length s)%nat.
Proof.
  unfold trim_space, trim_right, trim_left. rewrite rev_length.
  etransitivity; [apply drop_while_length_le|]. rewrite rev_length. apply drop_while_length_le.
Qed.

Lemma split_c_length_le c (s : bytes) : (length (split_c c s) <= S (length s))%nat.
Proof.
  induction s as [|x s IH]; cbn [split_c length]; [lia|].
  destruct (ceqb c x); cbn [length]; [lia|].
  destruct (split_c c s) as [|f fs]; cbn [length] in *; lia.
Qed.
