(* Tie/Parse/ComposerRange.v — the generated translation of composer's NewVersionRange
   (Gen/Parse/Composer.v: parseRangeGroups = a loop over strings.Split(s, "||"), parseRange,
   parseHyphenRange with parts[0], parts[1] under len(parts) == 2,
   parseSpaceSeparatedConstraints = a loop over strings.Fields) never panics and terminates with
   fuel linear in the length of the input; so do the translated desugaring helpers
   parseCaretConstraint (strings.SplitN(version, "-", 2)[0]: SplitN never returns an empty slice)
   and parseWildcardConstraint (parts[0] at cursor 1, parts[0] and parts[1] at cursor 2: the
   cursor is below len(parts)).  parseTildeConstraint is translated as a pure function (nothing
   to prove).

   Ecosystem_NewVersion (assignment to a field) and parseSingleConstraint (a nil pointer as a
   value) are OUTSIDE the translated fragment: Section variables of the generated file, pure
   functions that cannot panic in the model; so the theorems have no hypothesis about them.

   Second part: the tie to the model Eco/Composer/Range.v — [tie_parse_composer_newversionrange]:
   with the model's validity oracle read as "NewVersion accepts the text", given that the
   untranslated parseSingleConstraint returns what the model's parse_single describes
   ([single_agrees], for a reading [cc] of model constraints as Go values that maps the two
   comparators of a hyphen range to the constraints parseHyphenRange builds), the generated
   NewVersionRange computes the model's parse_range (groups, hyphen ranges, comma = space). *)
From Coq Require Import ZArith List Ascii Bool Lia.
From Verif.Base Require Import Bytes GoNum GoOps Imp ImpFacts ImpErr BytesFacts.
From Verif.Gen.Code Require Composer.
From Verif.Gen.Parse Require Composer.
From Verif.Tie.Parse Require Import Common RangeCommon ListCursor.
From Verif.Tie.Parse Require NpmRange.
Import ListNotations.
Local Open Scope Z_scope.

Module G := Verif.Gen.Code.Composer.
Module P := Verif.Gen.Parse.Composer.

Section Range.
  Variable single : bytes -> option (list G.constraint).          (* parseSingleConstraint *)
  Variable NV : G.Ecosystem -> bytes -> option G.Version.          (* Ecosystem.NewVersion *)

  Local Opaque trim_space beq fields split_sub split_c has_prefix has_suffix contains_sub replace_c
        atoi dec_z.

  (* parseHyphenRange: parts[0], parts[1] under len(parts) == 2 *)
  Lemma parseHyphenRange_composer_no_panic : forall s, finished (P.parseHyphenRange NV s).
  Proof.
    intros s. unfold P.parseHyphenRange. cbv zeta.
    destruct (has_suffix _ s); [np|].
    generalize (split_sub ($" - ") s); intros parts.
    destruct (Z.of_nat (length parts) =? 2) eqn:L; cbn [negb]; [|np].
    apply Z.eqb_eq in L. assert (L' : length parts = 2%nat) by lia. clear L.
    shape_list L'.
    repeat (erewrite idx_known by reflexivity; cbn [bind]). np.
  Qed.

  (* parseSpaceSeparatedConstraints: one iteration per field *)
  Lemma parseSpaceSeparatedConstraints_composer_no_panic : forall fuel s,
    Z.of_nat (length s) + 1 < 2 ^ 63 -> (S (length s) < fuel)%nat ->
    finished (P.parseSpaceSeparatedConstraints single fuel s).
  Proof.
    intros fuel s Hfit Hf. unfold P.parseSpaceSeparatedConstraints. cbv zeta.
    pose proof (fields_length_le (replace_c (chr 44) (chr 32) s)) as SL.
    rewrite replace_c_length in SL.
    apply (range_loop_finished (fields (replace_c (chr 44) (chr 32) s))
             (fun k part cs =>
                match single part with
                | None => Done (Ret None)
                | Some pcs => Done (Next (wrap64 (k + 1), cs ++ pcs))
                end)).
    - intros k part cs _ _. destruct (single part); [reflexivity | exact I].
    - lia.
    - lia.
    - intros [[k cs]|r]; np.
  Qed.

  Lemma parseRange_composer_no_panic : forall fuel s,
    Z.of_nat (length s) + 1 < 2 ^ 63 -> (S (length s) < fuel)%nat ->
    finished (P.parseRange single NV fuel s).
  Proof.
    intros fuel s Hfit Hf. unfold P.parseRange. cbv zeta.
    pose proof (trim_space_length_le s) as TL.
    destruct (contains_sub _ (trim_space s)).
    - apply finished_bind; [apply parseHyphenRange_composer_no_panic | intros; np].
    - destruct (orb _ _); [|np].
      apply finished_bind; [|intros; np].
      apply parseSpaceSeparatedConstraints_composer_no_panic; lia.
  Qed.

  (* parseRangeGroups: one iteration per "||"-separated group *)
  Lemma parseRangeGroups_composer_no_panic : forall fuel s,
    Z.of_nat (length s) + 2 < 2 ^ 63 -> (length s + 2 < fuel)%nat ->
    finished (P.parseRangeGroups single NV fuel s).
  Proof.
    intros fuel s Hfit Hf. unfold P.parseRangeGroups.
    destruct (contains_sub $"||" s).
    - cbv zeta. pose proof (NpmRange.split_sub_length_le $"||" s) as SL.
      apply (range_loop_finished (split_sub $"||" s)
               (fun k part gs =>
                  bind (P.parseRange single NV fuel (trim_space part)) (fun r =>
                    match r with
                    | None => Done (Ret None)
                    | Some cs => Done (Next (wrap64 (k + 1), gs ++ [cs]))
                    end))).
      + intros k part gs _ Hin. apply NpmRange.split_sub_In_length in Hin.
        pose proof (trim_space_length_le part) as TL.
        destruct (parseRange_composer_no_panic fuel (trim_space part)) as [r ->]; [lia | lia |].
        cbn [bind]. destruct r; [reflexivity | exact I].
      + lia.
      + lia.
      + intros [[k gs]|r]; np.
    - apply finished_bind; [|intros; np]. apply parseRange_composer_no_panic; lia.
  Qed.

  (* C06 for composer's NewVersionRange: no panic, and fuel length s + 3 is enough *)
  Theorem newversionrange_composer_no_panic : forall fuel e s,
    Z.of_nat (length s) + 2 < 2 ^ 63 -> (length s + 2 < fuel)%nat ->
    finished (P.Ecosystem_NewVersionRange single NV fuel e s).
  Proof.
    intros fuel e s Hfit Hf. unfold P.Ecosystem_NewVersionRange. cbv zeta.
    pose proof (trim_space_length_le s) as TL.
    destruct (beq (trim_space s) []); [np|].
    apply finished_bind; [|intros; np].
    apply parseRangeGroups_composer_no_panic; lia.
  Qed.

  (* ---------- the desugaring helpers (called by the untranslated parseSingleConstraint) ---------- *)

  (* parseCaretConstraint: strings.SplitN(version, "-", 2)[0] *)
  Theorem parseCaretConstraint_composer_no_panic : forall v, finished (P.parseCaretConstraint NV v).
  Proof.
    intros v. unfold P.parseCaretConstraint. cbv zeta.
    assert (S0 : exists a, idx (splitn2_c (chr 45) v) 0 = Done a).
    { unfold splitn2_c. destruct (split2_c (chr 45) v) as [a [b|]]; eexists; reflexivity. }
    destruct S0 as [a Ea]. rewrite Ea.
    np.
  Qed.

  (* parseWildcardConstraint: parts[0] at cursor 1, parts[0] and parts[1] at cursor 2 *)
  Theorem parseWildcardConstraint_composer_no_panic : forall fuel s,
    Z.of_nat (length s) + 1 < 2 ^ 63 -> (S (length s) < fuel)%nat ->
    finished (P.parseWildcardConstraint NV fuel s).
  Proof.
    intros fuel s Hfit Hf. unfold P.parseWildcardConstraint. cbv zeta.
    pose proof (split_c_length_le (chr 46) s) as SL.
    apply (finished_cursor_bind fuel (split_c (chr 46) s)); [lia | lia | | intros [k|r]; np].
    intros i part Hi Hc. cbv beta.
    destruct (orb _ _); [|reflexivity].
    destruct (Z.eqb_spec i 1) as [->|N1].
    - destruct (idx_lt_Done (split_c (chr 46) s) 0) as (a & Ea & _); [lia|]. rewrite !Ea. cbn [bind].
      destruct (atoi a); cbn [bind]; [|exact I].
      destruct (NV _ _); [|exact I]. destruct (NV _ _); exact I.
    - destruct (Z.eqb_spec i 2) as [->|N2]; [|exact I].
      destruct (idx_lt_Done (split_c (chr 46) s) 0) as (a & Ea & _); [lia|]. rewrite !Ea. cbn [bind].
      destruct (atoi a); cbn [bind]; [|exact I].
      destruct (idx_lt_Done (split_c (chr 46) s) 1) as (b & Eb & _); [lia|]. rewrite !Eb. cbn [bind].
      destruct (atoi b); cbn [bind]; [|exact I].
      destruct (NV _ _); [|exact I]. destruct (NV _ _); exact I.
  Qed.
End Range.
Print Assumptions newversionrange_composer_no_panic.
Print Assumptions parseCaretConstraint_composer_no_panic.
Print Assumptions parseWildcardConstraint_composer_no_panic.

(* ---------- the tie to the model (Eco/Composer/Range.v) ---------- *)
From Verif.Eco Require Import RangeCore.
From Verif.Eco.Composer Require Range.
From Verif.Tie.Parse Require Import RangeTie RangeInv.
Module RM := Verif.Eco.Composer.Range.

Lemma contains_sub_c c (s : bytes) : contains_sub [c] s = contains_c c s.
Proof.
  unfold contains_sub, contains_c. induction s as [|x s IH]; [reflexivity|].
  cbn [cut has_prefix existsb]. rewrite andb_true_r.
  destruct (ceqb c x); cbn [orb]; [reflexivity|].
  rewrite <- IH. destruct (cut [c] s) as [[a b]|]; reflexivity.
Qed.

Section Tie.
  Variable single : bytes -> option (list G.constraint).          (* parseSingleConstraint *)
  Variable NV : G.Ecosystem -> bytes -> option G.Version.          (* Ecosystem.NewVersion *)
  Variable cc : RM.con -> G.constraint.                            (* the Go value of a model constraint *)

  (* the model's validity oracle: NewVersion accepts the text *)
  Definition vok (t : bytes) : bool :=
    match NV G.mk_Ecosystem t with Some _ => true | None => false end.

  (* AGREEMENT for the untranslated callee, and what [cc] is on the two comparators that the
     translated parseHyphenRange builds itself *)
  Hypothesis single_agrees : forall c, single c = option_map (map cc) (RM.parse_single vok c).
  Hypothesis cc_ge : forall t v, NV G.mk_Ecosystem t = Some v ->
    cc (RM.KCmp CGe t) = G.mk_constraint $">=" v ([] : bytes).
  Hypothesis cc_le : forall t v, NV G.mk_Ecosystem t = Some v ->
    cc (RM.KCmp CLe t) = G.mk_constraint $"<=" v ([] : bytes).

  Definition conc (r : RM.range) : G.VersionRange :=
    G.mk_VersionRange (map (map cc) (RM.r_groups r)) (RM.r_orig r).

  Local Opaque trim_space fields split_sub split_c has_prefix has_suffix contains_sub replace_c.

  Lemma tie_parse_composer_parseHyphenRange : forall s,
    P.parseHyphenRange NV s = Done (option_map (map cc) (RM.parse_hyphen vok s)).
  Proof.
    intros s. unfold P.parseHyphenRange, RM.parse_hyphen. cbv zeta.
    destruct (has_suffix _ s); [reflexivity|].
    destruct (split_sub ($" - ") s) as [|a [|b [|c r]]].
    - reflexivity.
    - reflexivity.
    - change (Z.of_nat (length [a; b]) =? 2) with true. cbn [negb].
      repeat (erewrite idx_known by reflexivity; cbn [bind]).
      rewrite !beq_nil_nonempty.
      destruct (trim_space a) as [|xa ta] eqn:Ea; [reflexivity|].
      destruct (trim_space b) as [|xb tb] eqn:Eb; [reflexivity|].
      cbn [nonempty negb orb]. unfold vok.
      destruct (NV G.mk_Ecosystem (xa :: ta)) as [va|] eqn:Na; [|reflexivity].
      destruct (NV G.mk_Ecosystem (xb :: tb)) as [vb|] eqn:Nb; [|reflexivity].
      cbn [andb option_map map]. rewrite (cc_ge _ _ Na), (cc_le _ _ Nb). reflexivity.
    - cbn [length].
      destruct (Z.eqb_spec (Z.of_nat (S (S (S (length r))))) 2) as [E2|_]; [lia|]. reflexivity.
  Qed.

  Definition space_g (part : bytes) (cs : list G.constraint) : option (list G.constraint) + list G.constraint :=
    match RM.parse_single vok part with
    | None => inl None
    | Some l => inr (cs ++ map cc l)
    end.

  Lemma run_space : forall parts acc,
    run space_g parts acc =
    match RM.parse_parts vok parts with
    | None => inl None
    | Some l => inr (acc ++ map cc l)
    end.
  Proof.
    induction parts as [|part r IH]; intros acc; cbn [run RM.parse_parts].
    - cbn. rewrite app_nil_r. reflexivity.
    - unfold space_g at 1.
      destruct (RM.parse_single vok part) as [l|]; [|reflexivity].
      rewrite IH. destruct (RM.parse_parts _ _) as [l'|]; [|reflexivity].
      rewrite map_app, <- app_assoc. reflexivity.
  Qed.

  Lemma tie_parse_composer_space : forall fuel s,
    Z.of_nat (length s) + 1 < 2 ^ 63 -> (S (length s) < fuel)%nat ->
    P.parseSpaceSeparatedConstraints single fuel s = Done (option_map (map cc) (RM.parse_space vok s)).
  Proof.
    intros fuel s Hfit Hf. unfold P.parseSpaceSeparatedConstraints, RM.parse_space. cbv zeta.
    change ","%char with (chr 44). change " "%char with (chr 32).
    pose proof (fields_length_le (replace_c (chr 44) (chr 32) s)) as SL.
    rewrite replace_c_length in SL.
    match goal with |- context [while fuel ?b (0, [])] =>
      change b with (range_body (R := option (list G.constraint)) (fields (replace_c (chr 44) (chr 32) s))
             (fun k part cs =>
                match single part with
                | None => Done (Ret None)
                | Some pcs => Done (Next (wrap64 (k + 1), cs ++ pcs))
                end))
    end.
    rewrite (range_loop_result _ _ space_g); [| |lia|lia].
    - rewrite run_space. cbn [bind app].
      destruct (RM.parse_parts _ _) as [l|]; reflexivity.
    - intros k part cs. unfold space_g.
      rewrite single_agrees. destruct (RM.parse_single vok _); reflexivity.
  Qed.

  Lemma tie_parse_composer_parseRange : forall fuel s,
    Z.of_nat (length s) + 1 < 2 ^ 63 -> (S (length s) < fuel)%nat ->
    P.parseRange single NV fuel s = Done (option_map (map cc) (RM.parse_one vok s)).
  Proof.
    intros fuel s Hfit Hf. unfold P.parseRange, RM.parse_one. cbv zeta.
    pose proof (trim_space_length_le s) as TL.
    rewrite (contains_sub_c " "%char : forall s, contains_sub ($" ") s = _).
    rewrite (contains_sub_c ","%char : forall s, contains_sub $"," s = _).
    destruct (contains_sub _ (trim_space s)).
    - rewrite tie_parse_composer_parseHyphenRange. reflexivity.
    - destruct (orb _ _).
      + rewrite tie_parse_composer_space by lia. reflexivity.
      + rewrite single_agrees. reflexivity.
  Qed.

  Definition group_g (part : bytes) (gs : list (list G.constraint))
    : option (list (list G.constraint)) + list (list G.constraint) :=
    match RM.parse_one vok (trim_space part) with
    | None => inl None
    | Some g => inr (gs ++ [map cc g])
    end.

  Lemma run_group : forall parts acc,
    run group_g parts acc =
    match RM.parse_all vok parts with
    | None => inl None
    | Some gs => inr (acc ++ map (map cc) gs)
    end.
  Proof.
    induction parts as [|part r IH]; intros acc; cbn [run RM.parse_all].
    - cbn. rewrite app_nil_r. reflexivity.
    - unfold group_g at 1.
      destruct (RM.parse_one vok (trim_space part)) as [g|]; [|reflexivity].
      rewrite IH. destruct (RM.parse_all _ _) as [gs|]; [|reflexivity].
      rewrite <- app_assoc. reflexivity.
  Qed.

  Lemma tie_parse_composer_parseRangeGroups : forall fuel s,
    Z.of_nat (length s) + 2 < 2 ^ 63 -> (length s + 2 < fuel)%nat ->
    P.parseRangeGroups single NV fuel s = Done (option_map (map (map cc)) (RM.parse_groups vok s)).
  Proof.
    intros fuel s Hfit Hf. unfold P.parseRangeGroups, RM.parse_groups.
    destruct (contains_sub $"||" s).
    - cbv zeta. pose proof (NpmRange.split_sub_length_le $"||" s) as SL.
      match goal with |- context [while fuel ?b (0, [])] =>
        change b with (range_body (R := option (list (list G.constraint))) (split_sub $"||" s)
               (fun k part gs =>
                  bind (P.parseRange single NV fuel (trim_space part)) (fun r =>
                    match r with
                    | None => Done (Ret None)
                    | Some cs => Done (Next (wrap64 (k + 1), gs ++ [cs]))
                    end)))
      end.
      rewrite (range_loop_result_in _ _ group_g); [| |lia|lia].
      + rewrite run_group. cbn [bind app].
        destruct (RM.parse_all _ _) as [gs|]; reflexivity.
      + intros k part gs Hin. apply NpmRange.split_sub_In_length in Hin.
        pose proof (trim_space_length_le part) as TL.
        rewrite tie_parse_composer_parseRange by lia. cbn [bind]. unfold group_g.
        destruct (RM.parse_one vok (trim_space part)); reflexivity.
    - rewrite tie_parse_composer_parseRange by lia. cbn [bind].
      destruct (RM.parse_one vok s); reflexivity.
  Qed.

  (* the generated NewVersionRange computes the model's parse_range *)
  Theorem tie_parse_composer_newversionrange : forall fuel e s,
    Z.of_nat (length s) + 2 < 2 ^ 63 -> (length s + 2 < fuel)%nat ->
    P.Ecosystem_NewVersionRange single NV fuel e s = Done (option_map conc (RM.parse_range vok s)).
  Proof.
    intros fuel e s Hfit Hf. unfold P.Ecosystem_NewVersionRange, RM.parse_range. cbv zeta.
    pose proof (trim_space_length_le s) as TL.
    rewrite beq_nil_nonempty. destruct (trim_space s) as [|x t] eqn:E; [reflexivity|].
    cbn [nonempty negb]. rewrite <- E in *.
    rewrite tie_parse_composer_parseRangeGroups by lia. cbn [bind].
    destruct (RM.parse_groups vok (trim_space s)); reflexivity.
  Qed.
End Tie.
Print Assumptions tie_parse_composer_newversionrange.
