(* Tie/Parse/Conan.v — the generated translation of conan's NewVersion (Gen/Parse/Conan.v:
   FindStringSubmatch oracle with matches[1..3], a loop over strings.Split(matches[1], "."),
   validateIdentifiers: a loop over strings.Split(.., ".") with part[0] behind len(part) > 1,
   three MatchString oracles) never panics and terminates with fuel linear in the length of the
   input. *)
From Coq Require Import ZArith List Bool Lia.
From Verif.Base Require Import Bytes GoNum GoOps Imp ImpFacts ImpErr BytesFacts.
From Verif.Eco Require Import VLayer.
From Verif.Eco.Conan Require Version.
From Verif.Gen.Code Require Conan.
From Verif.Gen.Parse Require Conan.
From Verif.Tie Require Conan.
From Verif.Tie.Parse Require Import Common ListCursor.
Import ListNotations.
Local Open Scope Z_scope.

Module G := Verif.Gen.Code.Conan.
Module P := Verif.Gen.Parse.Conan.
Module M := Verif.Eco.Conan.Version.
Module T := Verif.Tie.Conan.

Lemma to_lower_length (s : bytes) : length (to_lower s) = length s.
Proof. unfold to_lower. apply map_length. Qed.

Local Opaque atoi trim_space to_lower beq split_c.

Section NewVersion.
  Variable find : bytes -> option (list bytes).       (* versionPattern.FindStringSubmatch *)
  Variable partok : bytes -> bool.                    (* versionPartPattern.MatchString: any function *)
  Variable preok : bytes -> bool.                     (* prereleasePartPattern.MatchString: any function *)
  Variable numeric : bytes -> bool.                   (* numericPattern.MatchString: any function *)
  Hypothesis find_shape : submatch_shape find P.versionPattern_groups.
  Hypothesis find_within : submatch_within find.

  (* validateIdentifiers: one iteration per identifier; part[0] is read under len(part) > 1 *)
  Lemma validateIdentifiers_no_panic : forall fuel ids what,
    Z.of_nat (length ids) + 1 < 2 ^ 63 -> (S (length ids) < fuel)%nat ->
    finished (P.validateIdentifiers preok numeric fuel ids what).
  Proof.
    intros fuel ids what F Hf. unfold P.validateIdentifiers. cbv zeta.
    pose proof (split_c_length_le (chr 46) ids) as SL.
    apply (finished_cursor_bind fuel (split_c (chr 46) ids)); [lia | lia | | intros [k|r]; np].
    intros i part Hi Hc. cbv beta.
    destruct (beq part []); [exact I|].
    destruct (negb (preok part)); [exact I|].
    destruct (numeric part); cbn [andb bind]; [|reflexivity].
    destruct (Z.ltb_spec 1 (Z.of_nat (length part))) as [G1|G1]; cbn [bind]; [|reflexivity].
    destruct (idx0_length part) as [c ->]; [lia|]. cbn [bind].
    destruct (ceqb c (chr 48)); [exact I | reflexivity].
  Qed.

  (* C06 for conan's NewVersion: no panic, and fuel length s + 2 is enough *)
  Theorem newversion_conan_no_panic : forall e s fuel,
    Z.of_nat (length s) + 1 < 2 ^ 63 -> (S (length s) < fuel)%nat ->
    finished (P.Ecosystem_NewVersion find partok preok numeric fuel e s).
  Proof.
    intros e s fuel F Hf. unfold P.Ecosystem_NewVersion. cbv zeta.
    pose proof (trim_space_length_le (to_lower s)) as TL. rewrite to_lower_length in TL.
    set (t := trim_space (to_lower s)) in *.
    destruct (beq t []); [np|].
    destruct (find t) as [m|] eqn:E; [|np].
    pose proof (find_shape _ _ E) as L. unfold P.versionPattern_groups in L.
    pose proof (find_within _ _ E) as W.
    shape_list L.
    repeat match goal with H : Forall _ (_ :: _) |- _ => inversion H; clear H; subst end.
    assert (V : forall c what, (length c <= length t)%nat ->
              finished (P.validateIdentifiers preok numeric fuel c what)).
    { intros c what Hc. apply validateIdentifiers_no_panic; lia. }
    repeat (erewrite idx_known by reflexivity; cbn [bind]).
    (* the loop over the parts of the main version *)
    match goal with |- context [split_c (chr 46) ?x] =>
      pose proof (split_c_length_le (chr 46) x) as SL end.
    apply (finished_cursor_bind fuel (split_c (chr 46) m)); [lia | lia | |].
    - intros i part Hi Hc. cbv beta.
      destruct (beq part []); [exact I|].
      destruct (negb (partok part)); [exact I | reflexivity].
    - intros [k|r]; [|np].
      repeat (erewrite idx_known by reflexivity; cbn [bind]).
      match goal with |- context [negb (beq ?p [])] => destruct (negb (beq p [])) end.
      + apply finished_bind; [apply V; assumption|]. intros [u|] _; [|np].
        match goal with |- context [negb (beq ?p [])] => destruct (negb (beq p [])) end; [|np].
        apply finished_bind; [apply V; assumption|]. intros [u'|] _; np.
      + match goal with |- context [negb (beq ?p [])] => destruct (negb (beq p [])) end; [|np].
        apply finished_bind; [apply V; assumption|]. intros [u'|] _; np.
  Qed.
End NewVersion.
Print Assumptions newversion_conan_no_panic.

(* ---------- the tie to the model ---------- *)

(* IDS = [0-9a-z\-]+(?:\.[0-9a-z\-]+)* against a whole text *)
Definition ids_shape (x : bytes) : bool :=
  forallb (M.nonempty_all M.is_ident_c) (split_c "."%char x).

(* what versionPattern ^(MAIN)(?:-(IDS))?(?:\+(IDS))?$ returns on the lower-cased trimmed text,
   re-expressed with the scanners of the model (the main group contains neither '-' nor '+', the
   pre-release group no '+'): [whole; main; prerelease; build] (Go reports a group that did not
   take part as "").  That the real regexp engine agrees with this function is the
   oracle-agreement hypothesis below. *)
Definition ref_match (t : bytes) : option (list bytes) :=
  let main := take_while (fun c => negb (M.is_pm c)) t in
  let rest := drop_while (fun c => negb (M.is_pm c)) t in
  if M.main_ok (split_c "."%char main) then
    match rest with
    | [] => Some [t; main; []; []]
    | c :: rest' =>
        if ceqb c "-"%char then
          let pre := take_while (fun c => negb (M.is_plus c)) rest' in
          let rest2 := drop_while (fun c => negb (M.is_plus c)) rest' in
          if ids_shape pre then
            match rest2 with
            | [] => Some [t; main; pre; []]
            | _ :: build => if ids_shape build then Some [t; main; pre; build] else None
            end
          else None
        else if ids_shape rest' then Some [t; main; []; rest'] else None
    end
  else None.

(* ref_match was compared with the real regexp.FindStringSubmatch of the Go pattern on 10864 texts
   (exhaustive short strings over the separators, mutated seeds; scratch/refcheck/gen.go): no
   disagreement. *)

(* lower-casing commutes with trimming *)
Lemma to_lower_c_space c : is_space (to_lower_c c) = is_space c.
Proof.
  destruct c as [b0 b1 b2 b3 b4 b5 b6 b7].
  destruct b0, b1, b2, b3, b4, b5, b6, b7; vm_compute; reflexivity.
Qed.

Lemma to_lower_drop_while s :
  to_lower (drop_while is_space s) = drop_while is_space (to_lower s).
Proof.
  Local Transparent to_lower.
  induction s as [|c s IH]; [reflexivity|]. cbn [to_lower map drop_while]. rewrite to_lower_c_space.
  destruct (is_space c); [exact IH|reflexivity].
  Local Opaque to_lower.
Qed.

Lemma to_lower_rev s : to_lower (rev s) = rev (to_lower s).
Proof. Local Transparent to_lower. unfold to_lower. apply map_rev. Local Opaque to_lower. Qed.

Lemma to_lower_trim s : to_lower (trim_space s) = trim_space (to_lower s).
Proof.
  Local Transparent trim_space.
  unfold trim_space, trim_right, trim_left.
  rewrite to_lower_rev, to_lower_drop_while, to_lower_rev, to_lower_drop_while. reflexivity.
  Local Opaque trim_space.
Qed.

Lemma take_while_length_le p (s : bytes) : (length (take_while p s) <= length s)%nat.
Proof. induction s as [|c s IH]; cbn; [lia|]. destruct (p c); cbn; lia. Qed.

Lemma idents_ok_shape x : M.idents_ok (split_c "."%char x) = true -> ids_shape x = true.
Proof.
  unfold M.idents_ok, ids_shape. generalize (split_c "."%char x). intros l.
  induction l as [|p l IH]; [reflexivity|]. cbn [forallb]. intros H.
  apply andb_prop in H as [H1 H2]. unfold M.ident_ok in H1. apply andb_prop in H1 as [H1 _].
  rewrite H1, (IH H2). reflexivity.
Qed.

Lemma ids_shape_nonempty x : ids_shape x = true -> exists c r, x = c :: r.
Proof. destruct x as [|c r]; [discriminate | eauto]. Qed.

Lemma ltb_nat_Z n : (1 <? Z.of_nat n) = (1 <? n)%nat.
Proof. destruct (Z.ltb_spec 1 (Z.of_nat n)), (Nat.ltb_spec 1 n); try reflexivity; lia. Qed.

Section Tie.
  Variable find : bytes -> option (list bytes).
  Variable partok : bytes -> bool.
  Variable preok : bytes -> bool.
  Variable numeric : bytes -> bool.
  (* ORACLE AGREEMENT: the regexp engine computes what the model's scanners compute *)
  Hypothesis find_agrees : forall t, find t = ref_match t.
  Hypothesis partok_agrees : forall p, partok p = M.nonempty_all M.is_part_c p.
  Hypothesis preok_agrees : forall p, preok p = M.nonempty_all M.is_ident_c p.
  Hypothesis numeric_agrees : forall p, numeric p = nonempty_digits p.

  (* validateIdentifiers is idents_ok of the split text *)
  Lemma validateIdentifiers_model : forall fuel ids what,
    Z.of_nat (length ids) + 1 < 2 ^ 63 -> (S (length ids) < fuel)%nat ->
    P.validateIdentifiers preok numeric fuel ids what
    = Done (if M.idents_ok (split_c "."%char ids) then Some tt else None).
  Proof.
    intros fuel ids what F Hf. unfold P.validateIdentifiers, M.idents_ok. cbv zeta.
    pose proof (split_c_length_le (chr 46) ids) as SL.
    change (split_c "." ids) with (split_c (chr 46) ids).
    set (xs := split_c (chr 46) ids) in *.
    match goal with |- bind (while fuel ?b 0) _ = _ =>
      assert (W : while fuel b 0 = Done (if forallb M.ident_ok xs then Fell (Z.of_nat (length xs)) else Returned None)) end.
    { apply (cursor_forall fuel xs); [lia | lia |].
      intros i part Hi Hc. cbv beta. unfold M.ident_ok.
      destruct part as [|c r]; [rewrite beq_nil_nil; reflexivity|].
      rewrite beq_cons_nil, preok_agrees.
      destruct (M.nonempty_all M.is_ident_c (c :: r)); cbn [negb andb]; [|reflexivity].
      rewrite numeric_agrees, ltb_nat_Z.
      destruct (nonempty_digits (c :: r) && (1 <? length (c :: r))%nat); cbn [andb bind negb]; [|reflexivity].
      rewrite idx0_cons. cbn [bind]. change (chr 48) with "0"%char.
      destruct (ceqb c "0"); reflexivity. }
    rewrite W. cbn [bind]. destruct (forallb M.ident_ok xs); reflexivity.
  Qed.

  (* NewVersion once the pattern has matched *)
  Lemma newversion_matched : forall e s fuel main pre build,
    Z.of_nat (length s) + 1 < 2 ^ 63 -> (S (length s) < fuel)%nat ->
    beq (trim_space (to_lower s)) [] = false ->
    find (trim_space (to_lower s)) = Some [trim_space (to_lower s); main; pre; build] ->
    M.main_ok (split_c "."%char main) = true ->
    (length main <= length s)%nat -> (length pre <= length s)%nat -> (length build <= length s)%nat ->
    P.Ecosystem_NewVersion find partok preok numeric fuel e s
    = Done (if (beq pre [] || M.idents_ok (split_c "."%char pre))
               && (beq build [] || M.idents_ok (split_c "."%char build))
            then Some (G.mk_Version (split_c "."%char main) pre build s) else None).
  Proof.
    intros e s fuel main pre build F Hf NE Fd MO Lm Lp Lb.
    unfold P.Ecosystem_NewVersion. cbv zeta. rewrite NE, Fd.
    repeat (erewrite idx_known by reflexivity; cbn [bind]).
    pose proof (split_c_length_le (chr 46) main) as SL.
    change (split_c "." main) with (split_c (chr 46) main) in *.
    set (xs := split_c (chr 46) main) in *.
    match goal with |- bind (while fuel ?b 0) _ = _ =>
      assert (W : while fuel b 0 = Done (if forallb (M.nonempty_all M.is_part_c) xs
                                         then Fell (Z.of_nat (length xs)) else Returned None)) end.
    { apply (cursor_forall fuel xs); [lia | lia |].
      intros i part Hi Hc. cbv beta.
      destruct part as [|c r]; [rewrite beq_nil_nil; reflexivity|].
      rewrite beq_cons_nil, partok_agrees.
      destruct (M.nonempty_all M.is_part_c (c :: r)); reflexivity. }
    rewrite W. unfold M.main_ok in MO. rewrite MO. cbn [bind].
    repeat (erewrite idx_known by reflexivity; cbn [bind]).
    assert (V : forall x what, (length x <= length s)%nat ->
              P.validateIdentifiers preok numeric fuel x what
              = Done (if M.idents_ok (split_c "."%char x) then Some tt else None)).
    { intros x what Hx. apply validateIdentifiers_model; lia. }
    destruct (beq pre []); cbn [negb orb].
    - destruct (beq build []); cbn [negb orb andb]; [reflexivity|].
      rewrite V by exact Lb. cbn [bind]. destruct (M.idents_ok _); reflexivity.
    - rewrite V by exact Lp. cbn [bind]. destruct (M.idents_ok (split_c "." pre)); cbn [andb]; [|reflexivity].
      destruct (beq build []); cbn [negb orb]; [reflexivity|].
      rewrite V by exact Lb. cbn [bind]. destruct (M.idents_ok _); reflexivity.
  Qed.

  Lemma newversion_unmatched : forall e s fuel,
    beq (trim_space (to_lower s)) [] = false ->
    find (trim_space (to_lower s)) = None ->
    P.Ecosystem_NewVersion find partok preok numeric fuel e s = Done None.
  Proof.
    intros e s fuel NE Fd. unfold P.Ecosystem_NewVersion. cbv zeta. rewrite NE, Fd. reflexivity.
  Qed.

  (* the parsed value, seen through the abstraction of Tie/Conan.v, is the model's parse *)
  Theorem tie_parse_conan_newversion : forall e s fuel,
    Z.of_nat (length s) + 1 < 2 ^ 63 -> (S (length s) < fuel)%nat ->
    exists r, P.Ecosystem_NewVersion find partok preok numeric fuel e s = Done r /\
              option_map T.abs_ver r = M.parse s.
  Proof.
    intros e s fuel F Hf.
    unfold M.parse, VLayer.parse, M.parse_core, M.raw_orig. rewrite to_lower_trim.
    pose proof (trim_space_length_le (to_lower s)) as TL. rewrite to_lower_length in TL.
    destruct (beq (trim_space (to_lower s)) []) eqn:NE.
    { unfold P.Ecosystem_NewVersion. cbv zeta. rewrite NE. apply beq_eq in NE. rewrite NE.
      eexists. split; reflexivity. }
    pose proof (newversion_matched e s fuel) as NM. specialize (fun m p b => NM m p b F Hf NE).
    pose proof (newversion_unmatched e s fuel NE) as NU.
    pose proof (find_agrees (trim_space (to_lower s))) as FA.
    set (t := trim_space (to_lower s)) in *. clearbody t.
    unfold ref_match in FA. unfold M.parse_lower.
    pose proof (take_while_length_le (fun c => negb (M.is_pm c)) t) as L1.
    pose proof (drop_while_length_le (fun c => negb (M.is_pm c)) t) as L2.
    set (main := take_while (fun c => negb (M.is_pm c)) t) in *.
    set (rest := drop_while (fun c => negb (M.is_pm c)) t) in *.
    destruct (M.main_ok (split_c "." main)) eqn:MO.
    2:{ rewrite (NU FA). eexists. split; reflexivity. }
    destruct rest as [|c rest'].
    { rewrite (NM _ _ _ FA MO) by (cbn [length]; lia). rewrite beq_nil_nil. cbn [orb andb].
      eexists. split; reflexivity. }
    cbn [length] in L2.
    destruct (ceqb c "-").
    - pose proof (take_while_length_le (fun c => negb (M.is_plus c)) rest') as L3.
      pose proof (drop_while_length_le (fun c => negb (M.is_plus c)) rest') as L4.
      set (pre := take_while (fun c => negb (M.is_plus c)) rest') in *.
      set (rest2 := drop_while (fun c => negb (M.is_plus c)) rest') in *.
      destruct (ids_shape pre) eqn:SP.
      2:{ rewrite (NU FA).
          destruct (M.idents_ok (split_c "." pre)) eqn:IO; [apply idents_ok_shape in IO; congruence|].
          eexists. split; reflexivity. }
      destruct (ids_shape_nonempty _ SP) as (x & r & Epre).
      destruct rest2 as [|d build].
      + rewrite (NM _ _ _ FA MO) by (cbn [length]; lia).
        rewrite beq_nil_nil, Epre, beq_cons_nil, <- Epre. cbn [orb]. rewrite andb_true_r.
        destruct (M.idents_ok (split_c "." pre)); eexists; (split; [reflexivity|]); [|reflexivity].
        cbn [option_map]. unfold T.abs_ver, T.abs, T.opt_pre. cbn. rewrite Epre, beq_cons_nil. reflexivity.
      + cbn [length] in L4.
        destruct (ids_shape build) eqn:SB.
        2:{ rewrite (NU FA).
            destruct (M.idents_ok (split_c "." build)) eqn:IO; [apply idents_ok_shape in IO; congruence|].
            destruct (M.idents_ok (split_c "." pre)); eexists; split; reflexivity. }
        destruct (ids_shape_nonempty _ SB) as (y & r' & Eb).
        rewrite (NM _ _ _ FA MO) by lia.
        rewrite Epre, beq_cons_nil, <- Epre, Eb, beq_cons_nil, <- Eb. cbn [orb].
        destruct (M.idents_ok (split_c "." pre)); cbn [andb]; [|eexists; split; reflexivity].
        destruct (M.idents_ok (split_c "." build)); eexists; (split; [reflexivity|]); [|reflexivity].
        cbn [option_map]. unfold T.abs_ver, T.abs, T.opt_pre. cbn. rewrite Epre, beq_cons_nil. reflexivity.
    - destruct (ids_shape rest') eqn:SB.
      2:{ rewrite (NU FA).
          destruct (M.idents_ok (split_c "." rest')) eqn:IO; [apply idents_ok_shape in IO; congruence|].
          eexists. split; reflexivity. }
      destruct (ids_shape_nonempty _ SB) as (y & r' & Eb).
      rewrite (NM _ _ _ FA MO) by (cbn [length]; lia).
      rewrite beq_nil_nil, Eb, beq_cons_nil, <- Eb. cbn [orb andb].
      destruct (M.idents_ok (split_c "." rest')); eexists; (split; [reflexivity|]); reflexivity.
  Qed.
End Tie.
Print Assumptions tie_parse_conan_newversion.
