(* Tie/Parse/ConanRange.v — the generated translation of conan's NewVersionRange
   (Gen/Parse/Conan.v) never panics and terminates with fuel linear in the length of the input.
   CLOSED over NewVersion: newversion_conan_no_panic (Tie/Parse/Conan.v) is used.

   Oracles and what is assumed about them: constraintPattern.FindStringSubmatch and
   versionPattern.FindStringSubmatch have the shape of their group counts (2 and 3) and return
   substrings ([submatch_within]); the three MatchString oracles are arbitrary.

   What is guarded by what:
   * rebuildConstraintsFromParts (Gen/Loops/Conan.v): parts[i] under i < len(parts), parts[i+1]
     under i+1 < len(parts); the cursor moves by one or two and stays <= len(parts);
   * findConstraints: spaceParts[0] under len(spaceParts) == 2;
   * parseConstraint: matches[1], matches[2] with len(matches) = 3.
   Fuel: the loop over the constraint texts of a "||" group runs over the RESULT of
   splitConstraints, so its length has to be bounded: every text found is no longer than the
   group (two neighbouring fields joined by one space fit into the text they come from,
   [fields_neighbours]) and there are at most length + 1 of them (the pieces of strings.Split and
   their number add up to length + 1, [split_c_total]).  Hence fuel length s + 3 for everything.

   Second part: the tie to the model Eco/Conan/Range.v — [tie_parse_conan_newversionrange]: under
   the oracle-agreement hypothesis for constraintPattern ([ref_cmatch], built from the model's
   try_ops / match_tail) and given that NewVersion computes a function [nv] of its text with fuel
   above length + 1 (what Tie/Parse/Conan.v provides up to the abstraction of the version), the
   generated NewVersionRange computes the model's parse_range: rebuildConstraintsFromParts is the
   structural [rebuild], findConstraints / splitConstraints are find_constraints /
   split_constraints, the two nested loops are parse_constraints / parse_groups. *)
From Coq Require Import ZArith List Ascii Bool Lia.
From Verif.Base Require Import Bytes GoNum GoOps Imp ImpFacts ImpErr BytesFacts.
From Verif.Gen.Code Require Conan.
From Verif.Gen.Loops Require Conan.
From Verif.Gen.Parse Require Conan.
From Verif.Tie.Parse Require Import Common RangeCommon RangeInv.
From Verif.Tie.Parse Require Conan NpmRange.
Import ListNotations.
Local Open Scope Z_scope.

Module G := Verif.Gen.Code.Conan.
Module L := Verif.Gen.Loops.Conan.
Module P := Verif.Gen.Parse.Conan.

Local Opaque trim_space to_lower beq split_c split_sub fields G.isOperator.

Definition short (B : nat) (c : bytes) : Prop := (length c <= B)%nat.

(* rebuildConstraintsFromParts: the cursor moves by one or by two; parts[i+1] is read under
   i+1 < len(parts) *)
Lemma rebuild_no_panic (B : nat) fuel (parts : list bytes) :
  Z.of_nat (length parts) + 2 < 2 ^ 63 -> (length parts < fuel)%nat ->
  (forall i a, nth_error parts i = Some a -> (length a <= B)%nat) ->
  (forall i a b, nth_error parts i = Some a -> nth_error parts (S i) = Some b ->
                 (length a + 1 + length b <= B)%nat) ->
  exists r, L.rebuildConstraintsFromParts fuel parts = Done r /\
            Forall (short B) r /\ (length r <= length parts)%nat.
Proof.
  intros Hfit Hf H1 H2. unfold L.rebuildConstraintsFromParts. cbv zeta.
  match goal with |- context [while fuel ?b ?s0] =>
    destruct (while_rule_ex b
                (fun st => 0 <= snd st <= Z.of_nat (length parts) /\ Forall (short B) (fst st) /\
                           (Z.of_nat (length (fst st)) <= snd st))
                (fun st => Z.to_nat (Z.of_nat (length parts) - snd st))
                (fun st => Forall (short B) (fst st) /\ (length (fst st) <= length parts)%nat)
                (fun _ => False)) with (fuel := fuel) (s := s0) as (x & E & Q)
  end.
  - intros [result i] (Hi & HF & HL). cbn [fst snd] in *. unfold step_ok.
    destruct (Z.ltb_spec i (Z.of_nat (length parts))) as [Lt|Ge]; [|cbn [fst snd]; split; [exact HF | lia]].
    destruct (idx_lt_Done parts i) as (a & Ea & Na); [lia|]. rewrite Ea. cbn [bind].
    rewrite (wrap64_small (i + 1)) by lia.
    destruct (G.isOperator a) eqn:Op; cbn [andb negb].
    + destruct (Z.ltb_spec (i + 1) (Z.of_nat (length parts))) as [Lt1|Ge1].
      * destruct (idx_lt_Done parts (i + 1)) as (b & Eb & Nb); [lia|]. rewrite Eb. cbn [bind].
        rewrite (wrap64_small (i + 2)) by lia. cbn [fst snd].
        split; [|lia]. split; [lia|]. split.
        -- apply Forall_app. split; [exact HF|]. constructor; [|constructor].
           unfold short. rewrite !app_length. cbn [length].
           replace (Z.to_nat (i + 1)) with (S (Z.to_nat i)) in Nb by lia.
           specialize (H2 _ _ _ Na Nb). change (length ($" ")) with 1%nat. lia.
        -- rewrite app_length. cbn [length]. lia.
      * cbn [bind fst snd]. split; [|lia]. split; [lia|]. split; [exact HF | lia].
    + cbn [bind fst snd]. split; [|lia]. split; [lia|]. split.
      * apply Forall_app. split; [exact HF|]. constructor; [|constructor]. exact (H1 _ _ Na).
      * rewrite app_length. cbn [length]. lia.
  - cbn [fst snd]. split; [lia|]. split; [constructor | cbn; lia].
  - cbn [snd]. lia.
  - rewrite E. cbn [bind]. destruct x as [[result i]|r]; [|contradiction].
    cbn [fst] in Q. eexists. split; [reflexivity | exact Q].
Qed.

(* findConstraints: spaceParts[0] under len(spaceParts) == 2; every constraint text found is no
   longer than s, and there are at most length s + 1 of them *)
Lemma findConstraints_no_panic fuel (s : bytes) :
  Z.of_nat (length s) + 3 < 2 ^ 63 -> (S (length s) < fuel)%nat ->
  exists r, P.findConstraints fuel s = Done r /\
            Forall (short (length s)) r /\ (length r <= S (length s))%nat.
Proof.
  intros Hfit Hf. unfold P.findConstraints. cbv zeta.
  pose proof (fields_length_le s) as FL.
  pose proof (trim_space_length_le s) as TL.
  assert (One : exists r, Done (A := list bytes) ([] ++ [trim_space s]) = Done r /\
                Forall (short (length s)) r /\ (length r <= S (length s))%nat).
  { eexists. split; [reflexivity|]. cbn [app length]. split; [|lia]. constructor; [exact TL | constructor]. }
  assert (Re : exists r, L.rebuildConstraintsFromParts fuel (fields s) = Done r /\
               Forall (short (length s)) r /\ (length r <= S (length s))%nat).
  { destruct (rebuild_no_panic (length s) fuel (fields s)) as (r & E & F & N).
    - lia.
    - lia.
    - intros i a Ha. apply fields_In_length. eapply nth_error_In. exact Ha.
    - intros i a b Ha Hb. exact (fields_neighbours s i a b Ha Hb).
    - exists r. split; [exact E|]. split; [exact F | lia]. }
  destruct (Z.ltb_spec 1 (Z.of_nat (length (fields s)))) as [G1|G1].
  - destruct Re as (r & E & F & N).
    destruct (Z.eqb_spec (Z.of_nat (length (fields s))) 2) as [E2|N2].
    + destruct (idx_lt_Done (fields s) 0) as (a & Ea & _); [lia|]. rewrite Ea. cbn [bind].
      destruct (G.isOperator a); cbn [bind].
      * exact One.
      * rewrite E. cbn [bind]. exists r. auto.
    + cbn [bind]. rewrite E. cbn [bind]. exists r. auto.
  - cbn [bind]. exact One.
Qed.

(* splitConstraints: one iteration per comma-separated part; the texts found are no longer than
   s and there are at most length s + 1 of them *)
Lemma splitConstraints_no_panic fuel (s : bytes) :
  Z.of_nat (length s) + 3 < 2 ^ 63 -> (S (length s) < fuel)%nat ->
  exists r, P.splitConstraints fuel s = Done r /\
            Forall (short (length s)) r /\ (length r <= S (length s))%nat.
Proof.
  intros Hfit Hf. unfold P.splitConstraints. cbv zeta.
  pose proof (split_c_length_le (chr 44) s) as SL.
  pose proof (split_c_total (chr 44) s) as ST.
  destruct (range_loop_inv (R := list bytes) (split_c (chr 44) s)
              (fun k part result =>
                 if beq (trim_space part) [] then Done (Next (wrap64 (k + 1), result))
                 else bind (P.findConstraints fuel (trim_space part)) (fun constraints =>
                        Done (Next (wrap64 (k + 1), result ++ constraints))))
              (fun pre result => Forall (short (length s)) result /\ (length result <= total pre)%nat)
              (fun _ => False)) with (fuel := fuel) (acc := ([] : list bytes)) as (x & E & Q).
  - intros pre part suf result Exs [HF HL].
    assert (Hin : In part (split_c (chr 44) s)) by (rewrite Exs; apply in_or_app; right; left; reflexivity).
    apply split_c_In_length in Hin.
    pose proof (trim_space_length_le part) as TL.
    rewrite total_app. cbn [total].
    destruct (beq (trim_space part) []).
    + split; [reflexivity|]. split; [exact HF | lia].
    + destruct (findConstraints_no_panic fuel (trim_space part)) as (r & Er & Fr & Nr); [lia | lia |].
      rewrite Er. cbn [bind]. split; [reflexivity|]. split.
      * apply Forall_app. split; [exact HF|].
        eapply Forall_impl; [|exact Fr]. unfold short. intros c Hc. lia.
      * rewrite app_length. lia.
  - lia.
  - lia.
  - split; [constructor | cbn; lia].
  - match goal with |- context [while (R := ?R0) fuel ?b ?s0] =>
      match type of E with ?lhs = _ => change (while (R := R0) fuel b s0) with lhs end
    end.
    rewrite E. cbn [bind]. destruct x as [[k result]|r]; [|contradiction].
    exists result. split; [reflexivity|]. destruct Q as [HF HL]. split; [exact HF | lia].
Qed.

Section Range.
  Variable cfind : bytes -> option (list bytes).      (* constraintPattern.FindStringSubmatch *)
  Variable find : bytes -> option (list bytes).       (* versionPattern.FindStringSubmatch *)
  Variable partok : bytes -> bool.                    (* versionPartPattern.MatchString: any function *)
  Variable preok : bytes -> bool.                     (* prereleasePartPattern.MatchString: any function *)
  Variable numeric : bytes -> bool.                   (* numericPattern.MatchString: any function *)
  Hypothesis cfind_shape : submatch_shape cfind P.constraintPattern_groups.
  Hypothesis cfind_within : submatch_within cfind.
  Hypothesis find_shape : submatch_shape find P.versionPattern_groups.
  Hypothesis find_within : submatch_within find.

  Let newversion_finished : forall e v fuel,
      Z.of_nat (length v) + 1 < 2 ^ 63 -> (S (length v) < fuel)%nat ->
      finished (P.Ecosystem_NewVersion find partok preok numeric fuel e v) :=
    Verif.Tie.Parse.Conan.newversion_conan_no_panic find partok preok numeric find_shape find_within.

  Local Opaque P.Ecosystem_NewVersion.

  (* parseConstraint: matches[1], matches[2] of a pattern with two groups; the version text is a
     substring of the constraint text *)
  Lemma parseConstraint_conan_no_panic : forall fuel c e,
    Z.of_nat (length c) + 1 < 2 ^ 63 -> (S (length c) < fuel)%nat ->
    finished (P.parseConstraint cfind find partok preok numeric fuel c e).
  Proof.
    intros fuel c e Hfit Hf. unfold P.parseConstraint.
    destruct (cfind c) as [m|] eqn:E; [|np].
    pose proof (cfind_shape _ _ E) as SH. unfold P.constraintPattern_groups in SH.
    pose proof (cfind_within _ _ E) as W.
    shape_list SH.
    repeat match goal with H : Forall _ (_ :: _) |- _ => inversion H; clear H; subst end.
    repeat (erewrite idx_known by reflexivity; cbn [bind]). cbv zeta.
    apply finished_bind; [apply newversion_finished; lia | intros; np].
  Qed.

  (* the loop over the constraint texts of one "||" group *)
  Lemma and_loop_no_panic (B : nat) fuel e (andParts : list bytes) :
    Z.of_nat B + 1 < 2 ^ 63 -> (S B < fuel)%nat ->
    Forall (short B) andParts -> (length andParts <= S B)%nat ->
    exists x, while (R := option G.VersionRange) fuel (range_body andParts
                (fun k_ andPart andConstraints =>
                   if beq (trim_space andPart) [] then Done (Next (wrap64 (k_ + 1), andConstraints))
                   else bind (P.parseConstraint cfind find partok preok numeric fuel (trim_space andPart) e)
                          (fun r1 => match r1 with
                                     | None => Done (Ret None)
                                     | Some constraint_ =>
                                         Done (Next (wrap64 (k_ + 1), andConstraints ++ [constraint_]))
                                     end))) (0, ([] : list G.constraint)) = Done x.
  Proof.
    intros Hfit Hf HF HN.
    match goal with |- exists x, while fuel (range_body _ ?H) _ = _ =>
      destruct (range_loop_inv andParts H (fun _ _ => True) (fun _ => True))
        with (fuel := fuel) (acc := ([] : list G.constraint)) as (x & E & _)
    end.
    - intros pre part suf acc Exs _.
      assert (Hin : In part andParts) by (rewrite Exs; apply in_or_app; right; left; reflexivity).
      pose proof (proj1 (Forall_forall _ _) HF _ Hin) as Sh. unfold short in Sh.
      pose proof (trim_space_length_le part) as TL.
      destruct (beq (trim_space part) []); [split; [reflexivity | exact I]|].
      destruct (parseConstraint_conan_no_panic fuel (trim_space part) e) as [r ->]; [lia | lia |].
      cbn [bind]. destruct r; [split; [reflexivity | exact I] | exact I].
    - lia.
    - lia.
    - exact I.
    - exists x. exact E.
  Qed.

  (* C06 for conan's NewVersionRange: no panic, and fuel length s + 3 is enough *)
  Theorem newversionrange_conan_no_panic : forall fuel e s,
    Z.of_nat (length s) + 3 < 2 ^ 63 -> (length s + 2 < fuel)%nat ->
    finished (P.Ecosystem_NewVersionRange cfind find partok preok numeric fuel e s).
  Proof.
    intros fuel e s Hfit Hf. unfold P.Ecosystem_NewVersionRange. cbv zeta.
    pose proof (trim_space_length_le (to_lower s)) as TL.
    rewrite Verif.Tie.Parse.Conan.to_lower_length in TL.
    set (t := trim_space (to_lower s)) in *. clearbody t.
    destruct (beq t []); [np|].
    pose proof (NpmRange.split_sub_length_le $"||" t) as SL.
    apply (range_loop_finished (split_sub $"||" t)
             (fun k orPart orGroups =>
                if beq (trim_space orPart) [] then Done (Next (wrap64 (k + 1), orGroups))
                else
                  bind (P.splitConstraints fuel (trim_space orPart)) (fun andParts =>
                  bind (while (R := option G.VersionRange) fuel (range_body andParts
                    (fun k_ andPart andConstraints =>
                       if beq (trim_space andPart) [] then Done (Next (wrap64 (k_ + 1), andConstraints))
                       else bind (P.parseConstraint cfind find partok preok numeric fuel (trim_space andPart) e)
                              (fun r1 => match r1 with
                                         | None => Done (Ret None)
                                         | Some constraint_ =>
                                             Done (Next (wrap64 (k_ + 1), andConstraints ++ [constraint_]))
                                         end))) (0, ([] : list G.constraint)))
                    (fun lp => match lp with
                               | Fell (k_, andConstraints) =>
                                   Done (Next (wrap64 (k + 1),
                                               if Z.ltb 0 (Z.of_nat (length andConstraints))
                                               then orGroups ++ [andConstraints] else orGroups))
                               | Returned r2 => Done (Ret r2)
                               end)))).
    - intros k orPart orGroups _ Hin.
      apply NpmRange.split_sub_In_length in Hin.
      pose proof (trim_space_length_le orPart) as TO.
      destruct (beq (trim_space orPart) []); [reflexivity|].
      destruct (splitConstraints_no_panic fuel (trim_space orPart)) as (andParts & E & HF & HN); [lia | lia |].
      rewrite E. cbn [bind].
      destruct (and_loop_no_panic (length (trim_space orPart)) fuel e andParts) as [x Ex];
        [lia | lia | exact HF | exact HN |].
      rewrite Ex. cbn [bind]. destruct x as [[k_ ac]|r]; [reflexivity | exact I].
    - lia.
    - lia.
    - intros [[k gs]|r]; np.
  Qed.
End Range.
Print Assumptions newversionrange_conan_no_panic.

(* ---------- the tie to the model (Eco/Conan/Range.v) ---------- *)
From Verif.Eco Require Import RangeCore.
From Verif.Eco.Conan Require Range.
From Verif.Tie.Parse Require Import RangeTie.
Module RM := Verif.Eco.Conan.Range.

Local Transparent G.isOperator.
Lemma isOperator_model s : G.isOperator s = RM.is_operator s.
Proof.
  unfold G.isOperator, RM.is_operator, mem.
  change RM.conan_ops with [$">="; $">"; $"<="; $"<"; $"~"; $"^"; $"!="; $"="].
  cbn [existsb]. rewrite orb_false_r.
  repeat match goal with |- context [beq s ?x] => destruct (beq s x) end; reflexivity.
Qed.
Local Opaque G.isOperator.

(* rebuildConstraintsFromParts computes the model's structural [rebuild] *)
Lemma rebuild_result (parts : list bytes) (Hfit : Z.of_nat (length parts) + 2 < 2 ^ 63) :
  forall n suf pre result fuel,
  (length suf <= n)%nat -> parts = pre ++ suf -> (length suf < fuel)%nat ->
  exists i', while (R := list bytes) fuel (fun '(result, i) =>
      if Z.ltb i (Z.of_nat (length parts)) then
        bind (idx parts i) (fun e =>
        if andb (G.isOperator e) (Z.ltb (wrap64 (i + 1)) (Z.of_nat (length parts))) then
          bind (idx parts i) (fun e1 =>
          bind (idx parts (wrap64 (i + 1))) (fun e2 =>
          Done (Next (result ++ [(e1 ++ ($" ")) ++ e2], wrap64 (i + 2)))))
        else
          bind (idx parts i) (fun e3 =>
          bind (if negb (G.isOperator e3) then
                  bind (idx parts i) (fun e4 => Done (wrap64 (i + 1), result ++ [e4]))
                else Done (wrap64 (i + 1), result))
               (fun '(i, result) => Done (Next (result, i)))))
      else Done (Break (result, i))) (result, Z.of_nat (length pre)) =
    Done (Fell (result ++ RM.rebuild suf, i')).
Proof.
  induction n as [|n IH]; intros suf pre result fuel Hn E Hf.
  - destruct suf; [|cbn in Hn; lia]. destruct fuel as [|fuel]; [lia|]. cbn [while].
    rewrite app_nil_r in E. subst pre. rewrite Z.ltb_irrefl. cbn [RM.rebuild]. rewrite app_nil_r. eexists. reflexivity.
  - destruct suf as [|p rest].
    { destruct fuel as [|fuel]; [cbn in Hf; lia|]. cbn [while].
      rewrite app_nil_r in E. subst pre. rewrite Z.ltb_irrefl. cbn [RM.rebuild]. rewrite app_nil_r. eexists. reflexivity. }
    destruct fuel as [|fuel]; [cbn in Hf; lia|]. cbn [while].
    assert (L : length parts = (length pre + S (length rest))%nat) by (rewrite E, app_length; reflexivity).
    destruct (Z.ltb_spec (Z.of_nat (length pre)) (Z.of_nat (length parts))) as [_|Ge]; [|lia].
    assert (IX : idx parts (Z.of_nat (length pre)) = Done p) by (rewrite E; apply idx_app_mid).
    rewrite !IX. cbn [bind].
    rewrite (wrap64_small (Z.of_nat (length pre) + 1)) by lia.
    cbn [RM.rebuild]. rewrite <- isOperator_model.
    destruct (G.isOperator p) eqn:Op; cbn [andb negb].
    + destruct rest as [|q rest'].
      * cbn [length] in L.
        destruct (Z.ltb_spec (Z.of_nat (length pre) + 1) (Z.of_nat (length parts))) as [Lt|_]; [lia|].
        cbn [bind].
        replace (Z.of_nat (length pre) + 1) with (Z.of_nat (length (pre ++ [p])))
          by (rewrite app_length; cbn [length]; lia).
        destruct (IH [] (pre ++ [p]) result fuel) as [i' Ei]; [cbn; lia | rewrite <- app_assoc; exact E | cbn [length] in *; lia |].
        rewrite Ei. cbn [RM.rebuild]. eexists. reflexivity.
      * cbn [length] in L, Hn, Hf.
        destruct (Z.ltb_spec (Z.of_nat (length pre) + 1) (Z.of_nat (length parts))) as [_|Ge1]; [|lia].
        cbn [bind].
        assert (IX2 : idx parts (Z.of_nat (length pre) + 1) = Done q).
        { replace (Z.of_nat (length pre) + 1) with (Z.of_nat (length (pre ++ [p])))
            by (rewrite app_length; cbn [length]; lia).
          rewrite E. replace (pre ++ p :: q :: rest') with ((pre ++ [p]) ++ q :: rest')
            by (rewrite <- app_assoc; reflexivity).
          apply idx_app_mid. }
        rewrite IX2. cbn [bind].
        rewrite (wrap64_small (Z.of_nat (length pre) + 2)) by lia.
        replace (Z.of_nat (length pre) + 2) with (Z.of_nat (length (pre ++ [p; q])))
          by (rewrite app_length; cbn [length]; lia).
        destruct (IH rest' (pre ++ [p; q]) (result ++ [(p ++ $" ") ++ q]) fuel) as [i' Ei];
          [lia | rewrite <- app_assoc; exact E | lia |].
        rewrite Ei. rewrite <- !app_assoc. eexists. reflexivity.
    + cbn [bind].
      replace (Z.of_nat (length pre) + 1) with (Z.of_nat (length (pre ++ [p])))
        by (rewrite app_length; cbn [length]; lia).
      destruct (IH rest (pre ++ [p]) (result ++ [p]) fuel) as [i' Ei];
        [cbn [length] in Hn; lia | rewrite <- app_assoc; exact E | cbn [length] in Hf; lia |].
      rewrite Ei. rewrite <- app_assoc. eexists. reflexivity.
Qed.

Lemma rebuild_model fuel (parts : list bytes) :
  Z.of_nat (length parts) + 2 < 2 ^ 63 -> (length parts < fuel)%nat ->
  L.rebuildConstraintsFromParts fuel parts = Done (RM.rebuild parts).
Proof.
  intros Hfit Hf. unfold L.rebuildConstraintsFromParts. cbv zeta.
  destruct (rebuild_result parts Hfit (length parts) parts [] [] fuel) as [i' E]; [lia | reflexivity | lia |].
  cbn [length Z.of_nat] in E.
  match goal with |- bind ?w _ = _ => match type of E with ?lhs = _ => change w with lhs end end.
  rewrite E. reflexivity.
Qed.

Lemma findConstraints_model fuel (s : bytes) :
  Z.of_nat (length s) + 3 < 2 ^ 63 -> (S (length s) < fuel)%nat -> trim_space s = s ->
  P.findConstraints fuel s = Done (RM.find_constraints s).
Proof.
  intros Hfit Hf Tr. unfold P.findConstraints, RM.find_constraints. cbv zeta. rewrite Tr.
  pose proof (fields_length_le s) as FL.
  pose proof (rebuild_model fuel (fields s)) as RB.
  destruct (fields s) as [|a [|b [|c r]]] eqn:EF.
  - reflexivity.
  - reflexivity.
  - cbn [length] in *. change (Z.of_nat 2) with 2. cbn [Z.ltb Z.eqb Z.compare Pos.compare Pos.compare_cont Pos.eqb].
    change (idx [a; b] 0) with (Done a). cbn [bind]. rewrite isOperator_model.
    destruct (RM.is_operator a); cbn [bind]; [reflexivity|].
    rewrite RB by lia. reflexivity.
  - cbn [length] in *.
    destruct (Z.ltb_spec 1 (Z.of_nat (S (S (S (length r)))))) as [_|G1]; [|lia].
    destruct (Z.eqb_spec (Z.of_nat (S (S (S (length r))))) 2) as [E2|_]; [lia|].
    cbn [bind]. rewrite RB by lia. reflexivity.
Qed.

Definition split_g (part : bytes) (acc : list bytes) : list bytes + list bytes :=
  inr (acc ++ match trim_space part with [] => [] | _ => RM.find_constraints (trim_space part) end).

Lemma run_split : forall parts acc,
  run split_g parts acc =
  inr (acc ++ flat_map (fun part => let part := trim_space part in
                                    match part with [] => [] | _ => RM.find_constraints part end) parts).
Proof.
  induction parts as [|p r IH]; intros acc; cbn [run flat_map].
  - rewrite app_nil_r. reflexivity.
  - unfold split_g at 1. rewrite IH. cbv zeta. rewrite <- app_assoc. reflexivity.
Qed.

Lemma splitConstraints_model fuel (s : bytes) :
  Z.of_nat (length s) + 3 < 2 ^ 63 -> (S (length s) < fuel)%nat ->
  P.splitConstraints fuel s = Done (RM.split_constraints s).
Proof.
  intros Hfit Hf. unfold P.splitConstraints, RM.split_constraints. cbv zeta.
  pose proof (split_c_length_le (chr 44) s) as SL.
  match goal with |- context [while fuel ?b (0, [])] =>
    change b with (range_body (R := list bytes) (split_c (chr 44) s)
           (fun k part result =>
              if beq (trim_space part) [] then Done (Next (wrap64 (k + 1), result))
              else bind (P.findConstraints fuel (trim_space part)) (fun constraints =>
                     Done (Next (wrap64 (k + 1), result ++ constraints)))))
  end.
  rewrite (range_loop_result_in _ _ split_g); [| |lia|lia].
  - rewrite run_split. cbn [bind app]. reflexivity.
  - intros k part result Hin. apply split_c_In_length in Hin.
    pose proof (trim_space_length_le part) as TL.
    unfold split_g. rewrite beq_nil_nonempty.
    destruct (trim_space part) as [|x t] eqn:ET; cbn [nonempty negb]; [rewrite app_nil_r; reflexivity|].
    rewrite <- ET in *. rewrite findConstraints_model; [reflexivity | lia | lia | apply trim_space_idem].
Qed.

(* what constraintPattern ^\s*(>=|>|<=|<|~|\^|!=|=)?\s*(\S+)\s*$ returns, re-expressed with the
   scanners of the model (Eco/Conan/Range.v: try_ops, match_tail): [whole; operator; version],
   the operator group "" when it did not take part.  That the real regexp engine agrees with this
   function is the oracle-agreement hypothesis of the tie. *)
Definition ref_cmatch (c : bytes) : option (list bytes) :=
  let c1 := drop_while RM.re_space c in
  match RM.try_ops RM.conan_ops c1 with
  | Some (op, v) => Some [c; op; v]
  | None => match RM.match_tail c1 with
            | Some v => Some [c; []; v]
            | None => None
            end
  end.

Lemma match_tail_length s v : RM.match_tail s = Some v -> (length v <= length s)%nat.
Proof.
  unfold RM.match_tail. cbv zeta.
  pose proof (Verif.Tie.Parse.Conan.take_while_length_le (fun c => negb (RM.re_space c)) (drop_while RM.re_space s)) as L1.
  pose proof (drop_while_length_le RM.re_space s) as L2.
  destruct (take_while _ _) as [|x t] eqn:E; [discriminate|].
  destruct (forallb _ _); [|discriminate]. intros H. injection H as <-. lia.
Qed.

Lemma try_ops_spec ops s op v :
  RM.try_ops ops s = Some (op, v) -> In op ops /\ (length v <= length s)%nat.
Proof.
  induction ops as [|o r IH]; cbn [RM.try_ops]; [discriminate|].
  destruct (has_prefix o s).
  - destruct (RM.match_tail (skipn (length o) s)) as [v'|] eqn:MT.
    + intros H. injection H as <- <-. split; [left; reflexivity|].
      apply match_tail_length in MT. pose proof (skipn_length_le (length o) s). lia.
    + intros H. destruct (IH H). split; [right|]; assumption.
  - intros H. destruct (IH H). split; [right|]; assumption.
Qed.

Lemma conan_op_nonempty op : In op RM.conan_ops -> beq op [] = false.
Proof.
  change RM.conan_ops with [$">="; $">"; $"<="; $"<"; $"~"; $"^"; $"!="; $"="].
  cbn [In]. intros H. repeat (destruct H as [<-|H]; [reflexivity|]). destruct H.
Qed.

Section Tie.
  Variable cfind : bytes -> option (list bytes).
  Variable find : bytes -> option (list bytes).
  Variable partok preok numeric : bytes -> bool.
  Variable nv : G.Ecosystem -> bytes -> option G.Version.      (* NewVersion as a function *)
  (* ORACLE AGREEMENT for constraintPattern *)
  Hypothesis cfind_agrees : forall c, cfind c = ref_cmatch c.
  (* the callee: with enough fuel NewVersion computes a function of its text *)
  Hypothesis newversion_computes : forall fuel e v,
    Z.of_nat (length v) + 1 < 2 ^ 63 -> (S (length v) < fuel)%nat ->
    P.Ecosystem_NewVersion find partok preok numeric fuel e v = Done (nv e v).

  Variable e : G.Ecosystem.
  Local Opaque P.Ecosystem_NewVersion.

  Definition vok (t : bytes) : bool := match nv e t with Some _ => true | None => false end.
  Definition conc1 (c : RM.constraint) : option G.constraint :=
    option_map (G.mk_constraint (fst c)) (nv e (snd c)).
  Definition conc_cs (cs : list RM.constraint) : list G.constraint :=
    flat_map (fun c => match conc1 c with Some x => [x] | None => [] end) cs.
  Definition conc (r : RM.range) : G.VersionRange :=
    G.mk_VersionRange (map conc_cs (RM.r_groups r)) (RM.r_orig r).
  Definition lift (o : option RM.constraint) : option G.constraint :=
    match o with Some c => conc1 c | None => None end.

  Lemma parse_constraint_some c x : RM.parse_constraint vok c = Some x -> exists y, conc1 x = Some y.
  Proof.
    unfold RM.parse_constraint, vok, conc1. destruct (RM.match_constraint c) as [[op v]|]; [|discriminate].
    destruct (nv e v) as [w|] eqn:E; [|discriminate]. intros H. injection H as <-.
    cbn [fst snd]. rewrite E. eexists. reflexivity.
  Qed.

  Lemma parseConstraint_model : forall fuel c,
    Z.of_nat (length c) + 1 < 2 ^ 63 -> (S (length c) < fuel)%nat ->
    P.parseConstraint cfind find partok preok numeric fuel c e = Done (lift (RM.parse_constraint vok c)).
  Proof.
    intros fuel c Hfit Hf. unfold P.parseConstraint. rewrite cfind_agrees.
    unfold ref_cmatch, RM.parse_constraint, RM.match_constraint. cbv zeta.
    pose proof (drop_while_length_le RM.re_space c) as DL.
    destruct (RM.try_ops RM.conan_ops (drop_while RM.re_space c)) as [[op v]|] eqn:T.
    - apply try_ops_spec in T as [Hin Lv]. apply conan_op_nonempty in Hin.
      repeat (erewrite idx_known by reflexivity; cbn [bind]). cbv zeta. rewrite Hin.
      rewrite newversion_computes by lia. cbn [bind]. unfold vok, lift, conc1.
      destruct (nv e v) eqn:E; cbn [fst snd option_map]; [rewrite E|]; reflexivity.
    - destruct (RM.match_tail (drop_while RM.re_space c)) as [v|] eqn:MT; [|reflexivity].
      apply match_tail_length in MT.
      repeat (erewrite idx_known by reflexivity; cbn [bind]). cbv zeta.
      change (beq [] []) with true. cbv iota.
      rewrite newversion_computes by lia. cbn [bind]. unfold vok, lift, conc1.
      destruct (nv e v) eqn:E; cbn [fst snd option_map]; [rewrite E|]; reflexivity.
  Qed.

  (* the loop over the constraint texts of one "||" group *)
  Definition and_g (andPart : bytes) (acc : list G.constraint)
    : option G.VersionRange + list G.constraint :=
    match trim_space andPart with
    | [] => inr acc
    | c' => match lift (RM.parse_constraint vok c') with
            | None => inl None
            | Some x => inr (acc ++ [x])
            end
    end.

  Lemma run_and : forall l acc,
    run and_g l acc =
    match RM.parse_constraints vok l with
    | None => inl None
    | Some xs => inr (acc ++ conc_cs xs)
    end.
  Proof.
    induction l as [|c r IH]; intros acc; cbn [run RM.parse_constraints].
    - cbn. rewrite app_nil_r. reflexivity.
    - unfold and_g at 1. destruct (trim_space c) as [|x t]; [apply IH|].
      destruct (RM.parse_constraint vok (x :: t)) as [y|] eqn:PC; cbn [lift]; [|reflexivity].
      destruct (parse_constraint_some _ _ PC) as [z Ez]. rewrite Ez.
      rewrite IH. destruct (RM.parse_constraints vok r) as [xs|]; [|reflexivity].
      f_equal. rewrite <- app_assoc. f_equal. cbn [conc_cs flat_map]. rewrite Ez. reflexivity.
  Qed.

  Lemma parse_constraints_conc_length : forall l xs,
    RM.parse_constraints vok l = Some xs -> length (conc_cs xs) = length xs.
  Proof.
    induction l as [|c r IH]; intros xs H; cbn [RM.parse_constraints] in H.
    - injection H as <-. reflexivity.
    - destruct (trim_space c) as [|x t]; [apply IH; exact H|].
      destruct (RM.parse_constraint vok (x :: t)) as [y|] eqn:PC; [|discriminate].
      destruct (RM.parse_constraints vok r) as [xs'|]; [|discriminate].
      injection H as <-. destruct (parse_constraint_some _ _ PC) as [z Ez].
      cbn [conc_cs flat_map length]. rewrite Ez. cbn [app length]. f_equal. apply (IH xs' eq_refl).
  Qed.

  Lemma and_loop_model (B : nat) fuel (andParts : list bytes) :
    Z.of_nat B + 1 < 2 ^ 63 -> (S B < fuel)%nat ->
    Forall (short B) andParts -> (length andParts <= S B)%nat ->
    while (R := option G.VersionRange) fuel (range_body andParts
      (fun k_ andPart andConstraints =>
         if beq (trim_space andPart) [] then Done (Next (wrap64 (k_ + 1), andConstraints))
         else bind (P.parseConstraint cfind find partok preok numeric fuel (trim_space andPart) e)
                (fun r1 => match r1 with
                           | None => Done (Ret None)
                           | Some constraint_ =>
                               Done (Next (wrap64 (k_ + 1), andConstraints ++ [constraint_]))
                           end))) (0, ([] : list G.constraint)) =
    Done (match run and_g andParts [] with
          | inl r => Returned r
          | inr acc => Fell (Z.of_nat (length andParts), acc)
          end).
  Proof.
    intros Hfit Hf HF HN.
    apply (range_loop_result_in andParts _ and_g); [|lia|lia].
    intros k part acc Hin.
    pose proof (proj1 (Forall_forall _ _) HF _ Hin) as Sh. unfold short in Sh.
    pose proof (trim_space_length_le part) as TL.
    unfold and_g. rewrite beq_nil_nonempty.
    destruct (trim_space part) as [|x t] eqn:ET; cbn [nonempty negb]; [reflexivity|].
    rewrite parseConstraint_model by lia. cbn [bind].
    destruct (lift _); reflexivity.
  Qed.

  (* the loop over the "||" groups *)
  Definition or_g (orPart : bytes) (groups : list (list G.constraint))
    : option G.VersionRange + list (list G.constraint) :=
    match trim_space orPart with
    | [] => inr groups
    | o' => match RM.parse_constraints vok (RM.split_constraints o') with
            | None => inl None
            | Some g => inr (match g with [] => groups | _ => groups ++ [conc_cs g] end)
            end
    end.

  Lemma run_or : forall ors acc,
    run or_g ors acc =
    match RM.parse_groups vok ors with
    | None => inl None
    | Some gs => inr (acc ++ map conc_cs gs)
    end.
  Proof.
    induction ors as [|o r IH]; intros acc; cbn [run RM.parse_groups].
    - cbn. rewrite app_nil_r. reflexivity.
    - unfold or_g at 1. destruct (trim_space o) as [|x t]; [apply IH|].
      destruct (RM.parse_constraints vok (RM.split_constraints (x :: t))) as [g|]; [|reflexivity].
      rewrite IH. destruct (RM.parse_groups vok r) as [gs|]; [|reflexivity].
      destruct g; [reflexivity|]. rewrite <- app_assoc. reflexivity.
  Qed.

  Theorem tie_parse_conan_newversionrange : forall fuel s,
    Z.of_nat (length s) + 3 < 2 ^ 63 -> (length s + 2 < fuel)%nat ->
    P.Ecosystem_NewVersionRange cfind find partok preok numeric fuel e s =
    Done (option_map conc (RM.parse_range vok s)).
  Proof.
    intros fuel s Hfit Hf. unfold P.Ecosystem_NewVersionRange, RM.parse_range. cbv zeta.
    pose proof (trim_space_length_le (to_lower s)) as TL.
    rewrite Verif.Tie.Parse.Conan.to_lower_length in TL.
    set (t := trim_space (to_lower s)) in *. clearbody t.
    rewrite beq_nil_nonempty. destruct t as [|x0 t0] eqn:Et; [reflexivity|].
    cbn [nonempty negb]. rewrite <- Et in *. clear Et x0 t0.
    pose proof (NpmRange.split_sub_length_le $"||" t) as SL.
    match goal with |- context [while fuel ?b (0, [])] =>
      change b with (range_body (R := option G.VersionRange) (split_sub $"||" t)
             (fun k orPart orGroups =>
                if beq (trim_space orPart) [] then Done (Next (wrap64 (k + 1), orGroups))
                else
                  bind (P.splitConstraints fuel (trim_space orPart)) (fun andParts =>
                  bind (while (R := option G.VersionRange) fuel (range_body andParts
                    (fun k_ andPart andConstraints =>
                       if beq (trim_space andPart) [] then Done (Next (wrap64 (k_ + 1), andConstraints))
                       else bind (P.parseConstraint cfind find partok preok numeric fuel (trim_space andPart) e)
                              (fun r1 => match r1 with
                                         | None => Done (Ret None)
                                         | Some constraint_ =>
                                             Done (Next (wrap64 (k_ + 1), andConstraints ++ [constraint_]))
                                         end))) (0, ([] : list G.constraint)))
                    (fun lp => match lp with
                               | Fell (k_, andConstraints) =>
                                   Done (Next (wrap64 (k + 1),
                                               if Z.ltb 0 (Z.of_nat (length andConstraints))
                                               then orGroups ++ [andConstraints] else orGroups))
                               | Returned r2 => Done (Ret r2)
                               end))))
    end.
    rewrite (range_loop_result_in _ _ or_g); [| |lia|lia].
    - rewrite run_or. cbn [bind app].
      destruct (RM.parse_groups vok (split_sub $"||" t)) as [[|g gs]|]; reflexivity.
    - intros k orPart groups Hin. apply NpmRange.split_sub_In_length in Hin.
      pose proof (trim_space_length_le orPart) as TO.
      unfold or_g. rewrite beq_nil_nonempty.
      destruct (trim_space orPart) as [|x r] eqn:EO; cbn [nonempty negb]; [reflexivity|].
      rewrite <- EO in *.
      destruct (splitConstraints_no_panic fuel (trim_space orPart)) as (andParts & E & HF & HN); [lia | lia |].
      rewrite splitConstraints_model in E by lia. injection E as <-.
      rewrite splitConstraints_model by lia. cbn [bind].
      rewrite (and_loop_model (length (trim_space orPart))) by (try assumption; lia).
      rewrite run_and. cbn [app].
      destruct (RM.parse_constraints vok (RM.split_constraints (trim_space orPart))) as [g|] eqn:PC; cbn [bind]; [|reflexivity].
      apply parse_constraints_conc_length in PC.
      destruct g as [|c g]; [reflexivity|].
      rewrite PC. reflexivity.
  Qed.
End Tie.
Print Assumptions tie_parse_conan_newversionrange.
