(* Tie/Parse/CranRange.v — the generated translation of cran's NewVersionRange (Gen/Parse/Cran.v:
   parseConstraints = a loop over strings.Split(s, ","), parseConstraint = a loop over the six
   operators with the slice constraintStr[len(op):] guarded by strings.HasPrefix) never panics and
   terminates with fuel linear in the length of the input.  Ecosystem_NewVersion is outside the
   translated fragment (builtin make): it is a Section variable of the generated file, a pure
   function that cannot panic in the model. *)
From Coq Require Import ZArith List Bool Lia.
From Verif.Base Require Import Bytes GoNum GoOps Imp ImpFacts ImpErr BytesFacts.
From Verif.Gen.Code Require Cran.
From Verif.Gen.Parse Require Cran.
From Verif.Eco Require Import RangeCore.
From Verif.Eco.Cran Require Range.
From Verif.Tie.Parse Require Import Common RangeCommon RangeTie.
Import ListNotations.
Local Open Scope Z_scope.

Module G := Verif.Gen.Code.Cran.
Module P := Verif.Gen.Parse.Cran.
Module RM := Verif.Eco.Cran.Range.

Section Range.
  Variable NV : G.Ecosystem -> bytes -> option G.Version.   (* Ecosystem.NewVersion *)

  Local Opaque trim_space beq split_c has_prefix.

  (* parseConstraint: 6 operators, one iteration each *)
  Lemma parseConstraint_cran_no_panic : forall fuel c e,
    (6 < fuel)%nat -> finished (P.parseConstraint NV fuel c e).
  Proof.
    intros fuel c e Hf. unfold P.parseConstraint. cbv zeta.
    apply (ops_loop_finished [$">="; $"<="; $"!="; $">"; $"<"; $"="] (trim_space c)
             (fun op sl =>
                if beq (trim_space sl) [] then Done (Ret None)
                else match NV e (trim_space sl) with
                     | None => Done (Ret None)
                     | Some version => Done (Ret (Some (G.mk_constraint op version)))
                     end)).
    - intros op _ _. destruct (beq _ _); [eauto|]. destruct (NV e _); eauto.
    - cbn. lia.
    - cbn [length]. lia.
    - intros [k|r]; np.
  Qed.

  (* parseConstraints: one iteration per comma-separated part *)
  Lemma parseConstraints_cran_no_panic : forall fuel s e,
    Z.of_nat (length s) + 1 < 2 ^ 63 -> (length s + 6 < fuel)%nat ->
    finished (P.parseConstraints NV fuel s e).
  Proof.
    intros fuel s e Hfit Hf. unfold P.parseConstraints. cbv zeta.
    pose proof (split_c_length_le (chr 44) s) as SL.
    apply (parts_loop_finished (split_c (chr 44) s)
             (fun part => P.parseConstraint NV fuel part e)).
    - intros part _. apply parseConstraint_cran_no_panic. lia.
    - lia.
    - lia.
    - intros [[k cs]|r]; np.
  Qed.

  (* C06 for cran's NewVersionRange: no panic, fuel length s + 7 is enough *)
  Theorem newversionrange_cran_no_panic : forall fuel e s,
    Z.of_nat (length s) + 1 < 2 ^ 63 -> (length s + 6 < fuel)%nat ->
    finished (P.Ecosystem_NewVersionRange NV fuel e s).
  Proof.
    intros fuel e s Hfit Hf. unfold P.Ecosystem_NewVersionRange. cbv zeta.
    pose proof (trim_space_length_le s) as TL.
    destruct (beq (trim_space s) []); [np|].
    apply finished_bind; [|intros; np].
    apply parseConstraints_cran_no_panic; lia.
  Qed.
End Range.
Print Assumptions newversionrange_cran_no_panic.

(* ---------- the tie to the model (Eco/Cran/Range.v = RangeCore with RM.cfg) ---------- *)

Section Tie.
  Variable NV : G.Ecosystem -> bytes -> option G.Version.   (* Ecosystem.NewVersion *)

  (* the Go value of a parsed model range: every bound text parsed by NewVersion *)
  Definition conc (e : G.Ecosystem) (r : range) : G.VersionRange :=
    G.mk_VersionRange (conc_cs (NV e) G.mk_constraint (r_cs r)) (r_orig r).

  Lemma tie_parse_cran_parseConstraint : forall fuel c e,
    (6 < fuel)%nat ->
    P.parseConstraint NV fuel c e = Done (model_pc (NV e) G.mk_constraint RM.cfg c).
  Proof.
    intros fuel c e Hf. unfold P.parseConstraint. cbv zeta.
    rewrite model_pc_prefix_err by reflexivity.
    match goal with |- context [while fuel ?b 0] =>
      change b with (ops_body [$">="; $"<="; $"!="; $">"; $"<"; $"="] (trim_space c)
             (fun op sl =>
                if beq (trim_space sl) [] then Done (Ret None)
                else match NV e (trim_space sl) with
                     | None => Done (Ret None)
                     | Some version => Done (Ret (Some (G.mk_constraint op version)))
                     end))
    end.
    rewrite (ops_loop_result _ _ _
               (fun op sl => if beq (trim_space sl) [] then None
                             else option_map (G.mk_constraint op) (NV e (trim_space sl)))).
    - cbn [bind]. change (rc_ops RM.cfg) with [$">="; $"<="; $"!="; $">"; $"<"; $"="].
      destruct (first_prefix _ _) as [[op rest]|]; [reflexivity|].
      destruct (NV e (trim_space c)); reflexivity.
    - intros op. destruct (beq _ _); [reflexivity|]. destruct (NV e _); reflexivity.
    - cbn. lia.
    - cbn [length]. lia.
  Qed.

  Lemma tie_parse_cran_parseConstraints : forall fuel s e,
    Z.of_nat (length s) + 1 < 2 ^ 63 -> (length s + 6 < fuel)%nat ->
    P.parseConstraints NV fuel s e =
    Done (match parse_constraints G.Version (NV e) RM.cfg (rc_split RM.cfg s) with
          | Some (c :: l) => Some (conc_cs (NV e) G.mk_constraint (c :: l))
          | _ => None
          end).
  Proof.
    intros fuel s e Hfit Hf. unfold P.parseConstraints. cbv zeta.
    pose proof (split_c_length_le (chr 44) s) as SL.
    match goal with |- context [while fuel ?b (0, [])] =>
      change b with (range_body (R := option (list G.constraint)) (split_c (chr 44) s)
             (fun k part cs =>
                let part := trim_space part in
                if beq part [] then Done (Next (wrap64 (k + 1), cs))
                else bind (P.parseConstraint NV fuel part e) (fun r =>
                  match r with
                  | None => Done (Ret None)
                  | Some c => Done (Next (wrap64 (k + 1), cs ++ [c]))
                  end)))
    end.
    rewrite (range_loop_result _ _ (parts_g (NV e) G.mk_constraint RM.cfg)); [| |lia|lia].
    - rewrite (run_parts (NV e) G.mk_constraint RM.cfg eq_refl). cbn [bind app].
      change (rc_split RM.cfg s) with (filter nonempty (map trim_space (split_c (chr 44) s))).
      destruct (parse_constraints _ _ _ _) as [l|] eqn:PC; [|reflexivity].
      apply (parse_constraints_conc_length (NV e) G.mk_constraint RM.cfg eq_refl) in PC.
      destruct l as [|c l]; [reflexivity|].
      rewrite PC. reflexivity.
    - intros k part cs. unfold parts_g. cbv zeta.
      destruct (beq (trim_space part) []); [reflexivity|].
      rewrite tie_parse_cran_parseConstraint by lia. cbn [bind].
      destruct (model_pc _ _ _ _); reflexivity.
  Qed.

  (* the generated NewVersionRange computes the model's parse_range, with NewVersion as the
     model's bound parser *)
  Theorem tie_parse_cran_newversionrange : forall fuel e s,
    Z.of_nat (length s) + 1 < 2 ^ 63 -> (length s + 6 < fuel)%nat ->
    P.Ecosystem_NewVersionRange NV fuel e s =
    Done (option_map (conc e) (parse_range G.Version (NV e) RM.cfg s)).
  Proof.
    intros fuel e s Hfit Hf. unfold P.Ecosystem_NewVersionRange, parse_range. cbv zeta.
    pose proof (trim_space_length_le s) as TL.
    rewrite beq_nil_nonempty. destruct (trim_space s) as [|x t] eqn:E; [reflexivity|].
    cbn [nonempty negb]. rewrite <- E in TL |- *.
    rewrite tie_parse_cran_parseConstraints by lia. cbn [bind].
    destruct (parse_constraints _ _ _ _) as [[|c l]|]; reflexivity.
  Qed.
End Tie.
Print Assumptions tie_parse_cran_newversionrange.
