(* Tie/Parse/Debian.v — the generated translation of debian's NewVersion (Gen/Parse/Debian.v:
   FindStringSubmatch oracle with matches[1..3], upstream[0] behind the guard upstream != "",
   validateVersionString: a loop over the runes of a capture, unicode.IsDigit / IsLetter as
   oracles) never panics and terminates with fuel linear in the length of the input. *)
From Coq Require Import ZArith List Bool Lia.
From Verif.Base Require Import Bytes GoNum GoOps Imp ImpFacts ImpErr BytesFacts.
From Verif.Eco.Debian Require Version.
From Verif.Gen.Code Require Debian.
From Verif.Gen.Parse Require Debian.
From Verif.Tie Require Debian.
From Verif.Tie.Parse Require Import Common ListCursor.
Import ListNotations.
Local Open Scope Z_scope.

Module G := Verif.Gen.Code.Debian.
Module P := Verif.Gen.Parse.Debian.
Module M := Verif.Eco.Debian.Version.
Module T := Verif.Tie.Debian.

Local Opaque atoi trim_space beq is_digit.

Section NewVersion.
  Variable isdigit : Z -> bool.                       (* unicode.IsDigit: any function *)
  Variable isletter : Z -> bool.                      (* unicode.IsLetter: any function *)
  Variable find : bytes -> option (list bytes).       (* versionPattern.FindStringSubmatch *)
  Hypothesis find_shape : submatch_shape find P.versionPattern_groups.
  Hypothesis find_within : submatch_within find.

  (* validateVersionString: one iteration per byte of s; s[k] is read under k < len(s) *)
  Lemma validateVersionString_no_panic : forall fuel s part,
    Z.of_nat (length s) < 2 ^ 63 -> (length s < fuel)%nat ->
    finished (P.validateVersionString isdigit isletter fuel s part).
  Proof.
    intros fuel s part F Hf. unfold P.validateVersionString. cbv zeta.
    match goal with |- finished (bind (while _ ?b _) _) => set (body := b) end.
    apply (finished_while_bind fuel body 0 _ (fun k => 0 <= k <= Z.of_nat (length s))
             (fun k => Z.to_nat (Z.of_nat (length s) - k))).
    - intros k Hk. unfold step_ok, body.
      destruct (Z.ltb_spec k (Z.of_nat (length s))) as [Lt|Ge]; [|exact I].
      rewrite (idx_in_range s k (chr 0)) by (unfold len; lia). cbn [bind].
      destruct (negb _); [exact I|].
      rewrite (wrap64_succ_lt k (Z.of_nat (length s))) by lia. split; lia.
    - lia.
    - lia.
    - intros [k|r]; np.
  Qed.

  (* a non-empty string has a byte 0 *)
  Lemma idx0_nonempty (u : bytes) : beq u [] = false -> exists c, idx u 0 = Done c.
  Proof.
    intros E. destruct u as [|c r].
    - rewrite beq_refl in E. discriminate.
    - exists c. reflexivity.
  Qed.

  (* C06 for debian's NewVersion: no panic, and fuel length s + 1 is enough *)
  Theorem newversion_debian_no_panic : forall e s fuel,
    Z.of_nat (length s) < 2 ^ 63 -> (length s < fuel)%nat ->
    finished (P.Ecosystem_NewVersion isdigit isletter find fuel e s).
  Proof.
    intros e s fuel F Hf. unfold P.Ecosystem_NewVersion. cbv zeta.
    pose proof (trim_space_length_le s) as TL.
    destruct (beq (trim_space s) []); [np|].
    destruct (find (trim_space s)) as [m|] eqn:E; [|np].
    pose proof (find_shape _ _ E) as L. unfold P.versionPattern_groups in L.
    pose proof (find_within _ _ E) as W.
    shape_list L.
    repeat match goal with H : Forall _ (_ :: _) |- _ => inversion H; clear H; subst end.
    assert (V : forall c part, (length c <= length (trim_space s))%nat ->
              finished (P.validateVersionString isdigit isletter fuel c part)).
    { intros c part Hc. apply validateVersionString_no_panic; lia. }
    repeat (erewrite idx_known by reflexivity; cbn [bind]).
    destruct (negb (beq m [])).
    - destruct (atoi m) as [ep|]; [|np].
      destruct (beq m1 []) eqn:U; [np|].
      destruct (idx0_nonempty _ U) as [c ->]. cbn [bind].
      destruct (negb (is_digit c)); [np|].
      apply finished_bind; [apply V; assumption|]. intros [u|] _; [|np].
      destruct (negb (beq m2 [])); [|np].
      apply finished_bind; [apply V; assumption|]. intros [u'|] _; np.
    - destruct (beq m1 []) eqn:U; [np|].
      destruct (idx0_nonempty _ U) as [c ->]. cbn [bind].
      destruct (negb (is_digit c)); [np|].
      apply finished_bind; [apply V; assumption|]. intros [u|] _; [|np].
      destruct (negb (beq m2 [])); [|np].
      apply finished_bind; [apply V; assumption|]. intros [u'|] _; np.
  Qed.
End NewVersion.
Print Assumptions newversion_debian_no_panic.

(* ---------- the tie to the model ---------- *)

(* what versionPattern ^(?:(\d+):)?(.+?)(?:-([^-]+))?$ returns on the trimmed text, re-expressed
   with the model's scanner: [whole; epoch; upstream; revision] (Go reports a group that did not
   take part as "").  That the real regexp engine agrees with this function is the
   oracle-agreement hypothesis below; the differential correspondence run checks it. *)
Definition ref_match (t : bytes) : option (list bytes) :=
  match M.match_version t with
  | Some (e, u, rv) => Some [t; e; u; rv]
  | None => None
  end.

(* ref_match was compared with the real regexp.FindStringSubmatch of the Go pattern on 10355 texts
   (exhaustive short strings over the separators, mutated seeds; scratch/refcheck/gen.go): no
   disagreement. *)

(* the Go value for a parsed core *)
Definition conc (s : bytes) (c : M.core) : G.Version :=
  G.mk_Version (M.epoch c) (M.upstream c) (M.revision c) s.

Lemma abs_conc s c : T.abs (conc s c) = c.
Proof. destruct c; reflexivity. Qed.

(* lengths of what the model's scanner returns (for the fuel) *)
Lemma split_ur_length (r u rv : bytes) :
  M.split_ur r = Some (u, rv) -> (length u <= length r)%nat /\ (length rv <= length r)%nat.
Proof.
  unfold M.split_ur. destruct r as [|c r]; [discriminate|].
  destruct (any_b M.is_nl (c :: r)).
  - destruct (cut_last_c _ _) as [[a b]|] eqn:E; [|discriminate].
    apply cut_last_c_length in E.
    destruct a; [discriminate|]. destruct b; [discriminate|].
    destruct (any_b _ _); [discriminate|]. intros X; injection X as <- <-. lia.
  - destruct (cut_last_c _ _) as [[a b]|] eqn:E.
    + apply cut_last_c_length in E.
      destruct a; [intros X; injection X as <- <-; cbn [length]; lia|].
      destruct b; intros X; injection X as <- <-; cbn [length] in *; lia.
    + intros X; injection X as <- <-. cbn [length]. lia.
Qed.

Lemma match_version_length (t e u rv : bytes) :
  M.match_version t = Some (e, u, rv) -> (length u <= length t)%nat /\ (length rv <= length t)%nat.
Proof.
  unfold M.match_version, span.
  pose proof (drop_while_length_le is_digit t) as DL.
  assert (X : forall o : option (bytes * bytes * bytes),
            (forall e u rv, o = Some (e, u, rv) -> (length u <= length t)%nat /\ (length rv <= length t)%nat) ->
            match o with
            | Some m => Some m
            | None => match M.split_ur t with Some (u, rv) => Some ([], u, rv) | None => None end
            end = Some (e, u, rv) -> (length u <= length t)%nat /\ (length rv <= length t)%nat).
  { intros [[[e' u'] rv']|] Ho.
    - intros Y; injection Y as -> -> ->. exact (Ho _ _ _ eq_refl).
    - destruct (M.split_ur t) as [[u' rv']|] eqn:E; [|discriminate].
      intros Y; injection Y as <- <- <-. exact (split_ur_length _ _ _ E). }
  apply X. clear X. intros e' u' rv'.
  destruct (take_while is_digit t); [discriminate|].
  destruct (drop_while is_digit t) as [|c rest]; [discriminate|].
  destruct (ceqb c ":"); [|discriminate].
  destruct (M.split_ur rest) as [[u2 rv2]|] eqn:E; [|discriminate].
  intros Y; injection Y as <- <- <-. apply split_ur_length in E. cbn [length] in DL. lia.
Qed.

Section Tie.
  Variable isdigit : Z -> bool.
  Variable isletter : Z -> bool.
  Variable find : bytes -> option (list bytes).
  (* ORACLE AGREEMENT: the regexp engine computes what the model's scanner computes, and
     unicode.IsDigit / unicode.IsLetter on a byte are the ASCII classes of the model *)
  Hypothesis find_agrees : forall t, find t = ref_match t.
  Hypothesis isdigit_agrees : forall c, isdigit (byte_z c) = is_digit c.
  Hypothesis isletter_agrees : forall c, isletter (byte_z c) = is_letter c.

  Lemma isValidVersionChar_model c : P.isValidVersionChar isdigit isletter (byte_z c) = M.valid_char c.
  Proof.
    unfold P.isValidVersionChar, M.valid_char. rewrite isdigit_agrees, isletter_agrees.
    change 46 with (Z.of_N 46). change 43 with (Z.of_N 43). change 45 with (Z.of_N 45).
    change 126 with (Z.of_N 126). rewrite !zeqb_code. reflexivity.
  Qed.

  (* validateVersionString is forallb valid_char *)
  Lemma validateVersionString_model : forall fuel s part,
    Z.of_nat (length s) < 2 ^ 63 -> (length s < fuel)%nat ->
    P.validateVersionString isdigit isletter fuel s part
    = Done (if forallb M.valid_char s then Some tt else None).
  Proof.
    intros fuel s part F Hf. unfold P.validateVersionString. cbv zeta.
    match goal with |- bind (while fuel ?b 0) _ = _ =>
      assert (W : while fuel b 0 = Done (if forallb M.valid_char s then Fell (Z.of_nat (length s)) else Returned None)) end.
    { apply (cursor_forall fuel s); [exact F | exact Hf |].
      intros i c Hi Hc. cbv beta. rewrite isValidVersionChar_model.
      destruct (M.valid_char c); reflexivity. }
    rewrite W. cbn [bind]. destruct (forallb M.valid_char s); reflexivity.
  Qed.

  Theorem tie_parse_debian_newversion : forall e s fuel,
    Z.of_nat (length s) < 2 ^ 63 -> (length s < fuel)%nat ->
    P.Ecosystem_NewVersion isdigit isletter find fuel e s
    = Done (option_map (conc s) (M.parse_core (trim_space s))).
  Proof.
    intros e s fuel F Hf. unfold P.Ecosystem_NewVersion. cbv zeta.
    pose proof (trim_space_length_le s) as TL.
    set (t := trim_space s) in *. clearbody t.
    destruct t as [|c0 t'].
    { rewrite beq_nil_nil. reflexivity. }
    rewrite beq_cons_nil. rewrite find_agrees. unfold ref_match, M.parse_core.
    set (t := c0 :: t') in *.
    destruct (M.match_version t) as [[[ep u] rv]|] eqn:MV; [|reflexivity].
    destruct (match_version_length _ _ _ _ MV) as [Lu Lrv].
    repeat (erewrite idx_known by reflexivity; cbn [bind]).
    assert (V : forall x part, (length x <= length t)%nat ->
              P.validateVersionString isdigit isletter fuel x part
              = Done (if forallb M.valid_char x then Some tt else None)).
    { intros x part Hx. apply validateVersionString_model; lia. }
    assert (Tail : forall epoch,
      (if beq u [] then Done None else
       bind (idx u 0) (fun c => if negb (is_digit c) then Done None else
         bind (P.validateVersionString isdigit isletter fuel u (list_ascii_of_string "upstream version"))
           (fun r => match r with
                     | None => Done None
                     | Some _ =>
                       if negb (beq rv []) then
                         bind (P.validateVersionString isdigit isletter fuel rv (list_ascii_of_string "debian revision"))
                           (fun r1 => match r1 with
                                      | None => Done None
                                      | Some _ => Done (Some (G.mk_Version epoch u rv s))
                                      end)
                       else Done (Some (G.mk_Version epoch u rv s))
                     end)))
      = Done (option_map (conc s)
                match u with
                | [] => None
                | c :: _ => if is_digit c && forallb M.valid_char u && forallb M.valid_char rv
                            then Some {| M.epoch := epoch; M.upstream := u; M.revision := rv |} else None
                end)).
    { intros epoch. destruct u as [|c u'].
      { rewrite beq_nil_nil. reflexivity. }
      rewrite beq_cons_nil, idx0_cons. cbn [bind].
      destruct (is_digit c); cbn [negb andb]; [|reflexivity].
      rewrite V by exact Lu. cbn [bind].
      destruct (forallb M.valid_char (c :: u')); cbn [andb]; [|reflexivity].
      destruct rv as [|d rv'].
      { rewrite beq_nil_nil. reflexivity. }
      rewrite beq_cons_nil. cbn [negb]. rewrite V by exact Lrv. cbn [bind].
      destruct (forallb M.valid_char (d :: rv')); reflexivity. }
    destruct ep as [|x ep'].
    - rewrite beq_nil_nil. cbn [negb]. apply Tail.
    - rewrite beq_cons_nil. cbn [negb].
      destruct (atoi (x :: ep')) as [epoch|]; [|reflexivity]. apply Tail.
  Qed.
End Tie.
Print Assumptions tie_parse_debian_newversion.
