(* Tie/Parse/DebianRangeClosed.v — the closed corollaries for debian's NewVersionRange: the
   hypothesis "the callee Ecosystem_NewVersion finishes / computes" of Tie/Parse/DebianRange.v is
   discharged with the theorems of Tie/Parse/Debian.v (newversion_debian_no_panic,
   tie_parse_debian_newversion), whose fuel bound is nvb n = n (fuel above the length of the
   text).  A constraint's version text is no longer than the range text (proved inside
   DebianRange.v through nvb_mono), so fuel above length s + 8 is enough for the whole parser. *)
From Coq Require Import ZArith List Bool Lia.
From Verif.Base Require Import Bytes GoNum GoOps Imp ImpFacts ImpErr BytesFacts.
From Verif.Gen.Code Require Debian.
From Verif.Gen.Parse Require Debian.
From Verif.Eco Require Import RangeCore.
From Verif.Eco.Debian Require Version Range.
From Verif.Tie.Parse Require Import Common.
From Verif.Tie.Parse Require Debian DebianRange.
Import ListNotations.
Local Open Scope Z_scope.

Module G := Verif.Gen.Code.Debian.
Module P := Verif.Gen.Parse.Debian.
Module M := Verif.Eco.Debian.Version.
Module RM := Verif.Eco.Debian.Range.
Module V := Verif.Tie.Parse.Debian.
Module R := Verif.Tie.Parse.DebianRange.

(* C06 for debian's NewVersionRange, closed: under the regexp-shape hypotheses only, no panic and
   fuel length s + 9 is enough *)
Theorem newversionrange_debian_no_panic_closed :
  forall (isDigit isLetter : Z -> bool) (find : bytes -> option (list bytes)),
  submatch_shape find P.versionPattern_groups -> submatch_within find ->
  forall fuel e s,
  Z.of_nat (length s) + 1 < 2 ^ 63 -> (length s + 8 < fuel)%nat ->
  finished (P.Ecosystem_NewVersionRange isDigit isLetter find fuel e s).
Proof.
  intros isDigit isLetter find Sh Wi fuel e s Hfit Hf.
  apply (R.newversionrange_debian_no_panic isDigit isLetter find (fun n => n)).
  - intros a b L. exact L.
  - intros fuel' e' v F L. apply V.newversion_debian_no_panic; [exact Sh | exact Wi | lia | exact L].
  - exact Hfit.
  - exact Hf.
  - lia.
Qed.
Print Assumptions newversionrange_debian_no_panic_closed.

(* ---------- the tie, closed ---------- *)

(* what NewVersion computes (Tie/Parse/Debian.v): the model's version parser on the trimmed text,
   the original text kept *)
Definition nv (e : G.Ecosystem) (v : bytes) : option G.Version :=
  option_map (V.conc v) (M.parse_core (trim_space v)).

(* the generated NewVersionRange computes the model's parse_range with the model's version parser
   as bound parser, under the oracle-agreement hypotheses only *)
Theorem tie_parse_debian_newversionrange_closed :
  forall (isDigit isLetter : Z -> bool) (find : bytes -> option (list bytes)),
  (forall t, find t = V.ref_match t) ->
  (forall c, isDigit (byte_z c) = is_digit c) ->
  (forall c, isLetter (byte_z c) = is_letter c) ->
  forall fuel e s,
  Z.of_nat (length s) + 1 < 2 ^ 63 -> (length s + 8 < fuel)%nat ->
  P.Ecosystem_NewVersionRange isDigit isLetter find fuel e s =
  Done (option_map (R.conc nv e) (parse_range G.Version (nv e) RM.cfg s)).
Proof.
  intros isDigit isLetter find Fa Da La fuel e s Hfit Hf.
  apply (R.tie_parse_debian_newversionrange isDigit isLetter find nv (fun n => n)).
  - intros a b L. exact L.
  - intros fuel' e' v F L. unfold nv.
    apply V.tie_parse_debian_newversion; [exact Fa | exact Da | exact La | lia | exact L].
  - exact Hfit.
  - exact Hf.
  - lia.
Qed.
Print Assumptions tie_parse_debian_newversionrange_closed.
