(* Tie/Parse/Gem.v — the generated translation of gem's NewVersion (Gen/Parse/Gem.v: a
   MatchString oracle, canonicalizeVersion (outside the fragment: a Section variable), then the
   hand tokenizer parseSegments — two strings.Index splits with their slices, a loop over the
   dot-separated parts of the main part calling containsLetter (a loop over the bytes), two
   loops over the parts of the pre-release and build texts, and removeTrailingZeros of
   Gen/Loops/Gem.v) never panics and terminates with fuel linear in the length of the input.

   The two functions whose RESULT is iterated over are oracles; the only thing assumed about them
   is a bound on the length of what they return (true of the Go functions: canonicalizeVersion
   inserts at most one dot between two neighbouring bytes, ReplaceAll(s, "-", ".pre.") makes five
   bytes out of one).  Without such a bound no fuel that is a function of the input length can be
   enough; a panic is impossible whatever they return.

   Second part (the tie): when the three oracles agree with the model's functions
   (ReplaceAll(s, "-", ".pre.") = dash_to_pre, canonicalizeVersion = canonicalize,
   versionPattern.MatchString("v" + v) = pattern v), NewVersion computes, through the abstraction
   abs_ver of Tie/Gem.v, exactly the model's parse (Eco/Gem/Version.v). *)
From Coq Require Import ZArith List Ascii Bool Lia.
From Verif.Base Require Import Bytes GoNum GoOps Imp ImpFacts ImpErr BytesFacts.
From Verif.Eco Require Import VLayer.
From Verif.Eco.Gem Require Import FieldsFunc.
From Verif.Eco.Gem Require Version.
From Verif.Tie Require Gem.
From Verif.Gen.Code Require Gem.
From Verif.Gen.Loops Require Gem.
From Verif.Gen.Parse Require Gem.
From Verif.Tie.Loops Require Gem.
From Verif.Tie.Loops Require Import Common.
From Verif.Tie.Parse Require Import Common Scanners.
Import ListNotations.
Local Open Scope Z_scope.

Module G := Verif.Gen.Code.Gem.
Module L := Verif.Gen.Loops.Gem.
Module P := Verif.Gen.Parse.Gem.
Module TL := Verif.Tie.Loops.Gem.
Module M := Verif.Eco.Gem.Version.
Module T := Verif.Tie.Gem.

Local Opaque atoi trim_space beq wrap64 to_lower.

(* containsLetter: `for _, r := range s`, one iteration per byte *)
Lemma containsLetter_no_panic : forall fuel s,
  fits s -> (length s < fuel)%nat -> finished (P.containsLetter fuel s).
Proof.
  intros fuel s F Hf. unfold P.containsLetter. cbv zeta.
  apply (finished_while_bind fuel _ 0 _ (fun k => 0 <= k <= Z.of_nat (length s))
           (up_to (Z.of_nat (length s)))).
  - intros k Hk. unfold step_ok, up_to.
    destruct (Z.ltb_spec k (Z.of_nat (length s))) as [Lt|Ge]; [|exact I].
    rewrite (idx_in_range s k "000"%char) by (unfold len; lia). cbn [bind].
    destruct (_ || _); [exact I|].
    rewrite (wrap64_succ k (Z.of_nat (length s))) by (unfold fits in F; lia). split; lia.
  - lia.
  - unfold up_to. lia.
  - intros [k|r]; np.
Qed.

(* ---------- the two strings.Index splits ---------- *)

(* if i := strings.Index(c, sep); i != -1 { b = c[i+1:]; m = c[:i] }  (b = "", m = c otherwise) *)
Definition split_idx (sep c : bytes) : res (bytes * bytes) :=
  (if negb (go_index sep c =? -1) then
     bind (slice_from c (wrap64 (go_index sep c + 1))) (fun b =>
     bind (slice_to c (go_index sep c)) (fun m => Done (b, m)))
   else Done ([], c)).

Lemma split_idx_spec (sep c : bytes) : length sep = 1%nat -> fits c ->
  exists b m, split_idx sep c = Done (b, m) /\ (length b + length m <= length c)%nat.
Proof.
  intros Ls F. unfold split_idx.
  destruct (go_index_bounds sep c) as [E|[B1 B2]].
  - rewrite E. change (negb (-1 =? -1)) with false. cbv iota.
    exists [], c. split; [reflexivity | cbn [length]; lia].
  - rewrite Ls in B2. destruct (negb _).
    + rewrite wrap64_id by (unfold fits in F; lia).
      rewrite slice_from_Done by lia. cbn [bind]. rewrite slice_to_Done by lia. cbn [bind].
      eexists _, _. split; [reflexivity|]. rewrite skipn_length, firstn_length. lia.
    + exists [], c. split; [reflexivity | cbn [length]; lia].
Qed.

Lemma split_idx_spec' (sep c : bytes) : length sep = 1%nat -> fits c ->
  exists a, split_idx sep c = Done a /\ (length (fst a) + length (snd a) <= length c)%nat.
Proof.
  intros Ls F. destruct (split_idx_spec sep c Ls F) as (b & m & E & L).
  exists (b, m). split; [exact E | exact L].
Qed.

(* ---------- the loops that append one segment per non-empty part ---------- *)

Definition app_body {R : Type} (xs : list bytes) : Z * list G.segment -> res (step (Z * list G.segment) R) :=
  fun '(k, segments) =>
    if Z.ltb k (Z.of_nat (length xs)) then
      bind (idx xs k) (fun part =>
      let segments :=
        if negb (beq part []) then segments ++ [P.createSegment part] else segments in
      let k := wrap64 (k + 1) in
      Done (Next (k, segments)))
    else
      Done (Break (k, segments)).

Lemma app_loop_spec {R : Type} fuel (body : Z * list G.segment -> res (step (Z * list G.segment) R))
      (xs : list bytes) (segs0 : list G.segment) :
  (forall st, body st = app_body xs st) -> fits xs -> (length xs < fuel)%nat ->
  exists x, while fuel body (0, segs0) = Done x /\
            (length (snd (fell x (0%Z, segs0))) <= length segs0 + length xs)%nat.
Proof.
  intros Eb F Hf. rewrite (while_ext _ _ Eb).
  destruct (while_rule_ex (app_body (R := R) xs)
              (fun st => 0 <= fst st <= Z.of_nat (length xs) /\
                         Z.of_nat (length (snd st)) <= Z.of_nat (length segs0) + fst st)
              (fun st => up_to (Z.of_nat (length xs)) (fst st))
              (fun st => (length (snd st) <= length segs0 + length xs)%nat)
              (fun _ => False)) with (fuel := fuel) (s := (0, segs0)) as (x & E & Q).
  - intros [k sg] [Hk Hs]. cbn [fst snd] in Hk, Hs. unfold step_ok, app_body, up_to.
    destruct (Z.ltb_spec k (Z.of_nat (length xs))) as [Lt|Ge]; [|cbn [snd]; lia].
    rewrite (idx_in_range xs k []) by (unfold len; lia). cbn [bind]. cbv zeta.
    rewrite (wrap64_succ k (Z.of_nat (length xs))) by (unfold fits in F; lia).
    cbn [fst snd]. split; [split; [lia|] | lia].
    destruct (negb _); [rewrite app_length; cbn [length]|]; lia.
  - cbn [fst snd]. lia.
  - unfold up_to. cbn [fst]. lia.
  - exists x. split; [exact E|]. destruct x as [[k sg]|r]; [exact Q | contradiction].
Qed.

Section NoPanic.
  Variable replaceAll : bytes -> bytes -> bytes -> bytes.   (* strings.ReplaceAll *)
  Variable canon : bytes -> bytes.                          (* canonicalizeVersion *)
  Variable matchString : bytes -> bool.                     (* versionPattern.MatchString *)
  (* ReplaceAll(s, "-", ".pre.") is at most five times as long as s *)
  Hypothesis replaceAll_length : forall s, (length (replaceAll s $"-" $".pre.") <= 5 * length s)%nat.

  (* parseSegments: fuel 5 * len + 5 *)
  Lemma parseSegments_no_panic : forall fuel c,
    Z.of_nat (5 * length c + 5) < 2 ^ 63 -> (5 * length c + 4 < fuel)%nat ->
    finished (P.parseSegments replaceAll fuel c).
  Proof.
    intros fuel c F Hf. unfold P.parseSegments. cbv zeta.
    (* build / main *)
    apply finished_bind_ex with (Q := fun a : bytes * bytes => (length (fst a) + length (snd a) <= length c)%nat).
    { apply (split_idx_spec' $"+" c); [reflexivity | unfold fits; lia]. }
    intros [build main1] L1. cbn [fst snd] in L1.
    (* prerelease / main *)
    apply finished_bind_ex with (Q := fun a : bytes * bytes => (length (fst a) + length (snd a) <= length main1)%nat).
    { apply (split_idx_spec' $"-" main1); [reflexivity | unfold fits; lia]. }
    intros [pre main] L2. cbn [fst snd] in L2.
    (* the loop over the parts of the main part *)
    pose proof (split_c_length_le (chr 46) main) as Lp.
    set (parts := split_c (chr 46) main) in *.
    assert (Hparts : forall k, (length (nth k parts []) <= length main)%nat)
      by (intros k; apply nth_split_c_length).
    clearbody parts.
    apply (finished_while_bind_post fuel _ (0, []) _
             (fun st => 0 <= fst st <= Z.of_nat (length parts) /\
                        Z.of_nat (length (snd st)) <= fst st)
             (fun st => up_to (Z.of_nat (length parts)) (fst st))
             (fun st => (length (snd st) <= length parts)%nat) (fun _ => True)).
    - intros [k sg] [Hk Hs]. cbn [fst snd] in Hk, Hs. unfold step_ok, up_to.
      destruct (Z.ltb_spec k (Z.of_nat (length parts))) as [Lt|Ge]; [|cbn [snd]; lia].
      rewrite (idx_in_range parts k []) by (unfold len; lia). cbn [bind].
      assert (W : wrap64 (k + 1) = k + 1) by (apply wrap64_id; lia). rewrite W.
      destruct (beq _ []); [cbn [fst snd]; lia|].
      specialize (Hparts (Z.to_nat k)).
      destruct (containsLetter_no_panic fuel (nth (Z.to_nat k) parts [])) as [b Eb];
        [unfold fits; lia | lia |].
      rewrite Eb. cbn [bind].
      destruct b; cbn [fst snd]; rewrite app_length; cbn [length]; lia.
    - cbn [fst snd length]. lia.
    - unfold up_to. cbn [fst]. lia.
    - intros [[k sg]|r] Q; [|np]. cbn [snd] in Q. clear Hparts.
      (* the pre-release parts *)
      apply finished_bind_ex with
        (Q := fun a : list G.segment => (length a <= length sg + 5 * length pre + 2)%nat).
      { destruct (negb (beq pre [])); [|exists sg; split; [reflexivity | lia]].
        pose proof (split_c_length_le (chr 46) (replaceAll pre $"-" $".pre.")) as Lx.
        pose proof (replaceAll_length pre) as Lr.
        set (xs := split_c (chr 46) (replaceAll pre $"-" $".pre.")) in *. clearbody xs.
        match goal with |- context [while fuel ?b ?s0] =>
          destruct (app_loop_spec fuel b xs (sg ++ [P.createSegment $"pre"])) as (x & E & Lx')
        end.
        - intros [k' sg']. reflexivity.
        - unfold fits. lia.
        - lia.
        - rewrite E. cbn [bind].
          destruct (fell x _) as [k' sg'] eqn:Ef. cbn [snd] in Lx'.
          exists sg'. split; [reflexivity|]. rewrite app_length in Lx'. cbn [length] in Lx'. lia. }
      intros sg1 Q1.
      (* the build parts *)
      apply finished_bind_ex with
        (Q := fun a : list G.segment => (length a <= length sg1 + length build + 1)%nat).
      { destruct (negb (beq build [])); [|exists sg1; split; [reflexivity | lia]].
        pose proof (split_c_length_le (chr 46) build) as Lx.
        set (xs := split_c (chr 46) build) in *. clearbody xs.
        match goal with |- context [while fuel ?b ?s0] =>
          destruct (app_loop_spec fuel b xs sg1) as (x & E & Lx')
        end.
        - intros [k' sg']. reflexivity.
        - unfold fits. lia.
        - lia.
        - rewrite E. cbn [bind].
          destruct (fell x _) as [k' sg'] eqn:Ef. cbn [snd] in Lx'.
          exists sg'. split; [reflexivity|]. lia. }
      intros sg2 Q2.
      rewrite TL.tie_loops_gem_removeTrailingZeros_exact by (unfold fits; lia).
      np.
  Qed.

  (* canonicalizeVersion at most doubles the length *)
  Hypothesis canon_length : forall s, (length (canon s) <= 2 * length s)%nat.

  (* C06 for gem's NewVersion: no panic, and fuel 10 * length s + 5 is enough *)
  Theorem newversion_gem_no_panic : forall e s fuel,
    Z.of_nat (10 * length s + 5) < 2 ^ 63 -> (10 * length s + 4 < fuel)%nat ->
    finished (P.Ecosystem_NewVersion replaceAll canon matchString fuel e s).
  Proof.
    intros e s fuel F Hf. unfold P.Ecosystem_NewVersion. cbv zeta.
    pose proof (trim_space_length_le s) as L1.
    pose proof (trim_prefix_length_le $"v" (trim_space s)) as L2.
    set (v := trim_prefix $"v" (trim_space s)) in *. clearbody v.
    pose proof (canon_length v) as L3.
    destruct (beq v []); [np|].
    destruct (negb _); [np|].
    apply finished_bind; [|intros; np].
    apply parseSegments_no_panic; lia.
  Qed.
End NoPanic.
Print Assumptions newversion_gem_no_panic.

(* ====================================================================================== *)
(* the tie to the model                                                                    *)
(* ====================================================================================== *)

(* the pair the two slices at strings.Index make: (after, before), or ("", c) *)
Definition cutp (sep c : bytes) : bytes * bytes :=
  match cut sep c with Some (a, b) => (b, a) | None => ([], c) end.

Lemma split_idx_cut (sep c : bytes) : length sep = 1%nat -> fits c -> split_idx sep c = Done (cutp sep c).
Proof.
  intros Ls F. unfold split_idx, cutp, go_index, index_sub.
  destruct (cut sep c) as [[a b]|] eqn:C; [|reflexivity].
  destruct (cut_length _ _ _ _ C) as [L _]. destruct (cut_firstn_skipn _ _ _ _ C) as [E1 E2].
  rewrite Ls in *.
  destruct (Z.eqb_spec (Z.of_nat (length a)) (-1)) as [X|_]; [lia|]. cbn [negb].
  rewrite wrap64_id by (unfold fits in F; lia). rewrite slice_from_Done by lia. cbn [bind].
  rewrite slice_to_Done by lia. cbn [bind].
  rewrite Nat2Z.id, E1. replace (Z.to_nat (Z.of_nat (length a) + 1)) with (length a + 1)%nat by lia.
  rewrite E2. reflexivity.
Qed.

Lemma cutp_length (sep c : bytes) : (length (fst (cutp sep c)) + length (snd (cutp sep c)) <= length c)%nat.
Proof.
  unfold cutp. destruct (cut sep c) as [[a b]|] eqn:C; [|cbn; lia].
  destruct (cut_length _ _ _ _ C) as [L _]. destruct (cut_firstn_skipn _ _ _ _ C) as [_ E2].
  cbn [fst snd]. rewrite <- E2, skipn_length. lia.
Qed.

(* the segments the loops build, as records *)
Definition g_dot_parts (s : bytes) : list G.segment :=
  map P.createSegment (filter nonempty_b (split_c (chr 46) s)).

Definition g_pre_part (pre : bytes) : list G.segment :=
  match pre with [] => [] | _ => P.createSegment $"pre" :: g_dot_parts (M.dash_to_pre pre) end.

Definition g_segments (c : bytes) : list G.segment :=
  let '(build, main0) := cutp $"+" c in
  let '(pre, main) := cutp $"-" main0 in
  g_dot_parts main ++ g_pre_part pre ++ g_dot_parts build.

Lemma abs_createSegment p : T.abs_seg (P.createSegment p) = M.create_segment p.
Proof. unfold T.abs_seg, P.createSegment, M.create_segment. destruct (atoi p); reflexivity. Qed.

Lemma abs_dot_parts s : map T.abs_seg (g_dot_parts s) = M.dot_parts s.
Proof.
  unfold g_dot_parts, M.dot_parts. rewrite map_map. apply map_ext. intros p. apply abs_createSegment.
Qed.

Lemma abs_pre_str : T.abs_seg (P.createSegment $"pre") = M.SStr $"pre".
Proof. rewrite abs_createSegment. vm_compute. reflexivity. Qed.

Lemma abs_segments c : map T.abs_seg (TL.g_rtz (g_segments c)) = M.parse_segments c.
Proof.
  rewrite TL.abs_rtz. unfold g_segments, M.parse_segments, cutp.
  destruct (cut $"+" c) as [[main0 build]|]; (destruct (cut $"-" _) as [[main pre]|]);
    rewrite !map_app, !abs_dot_parts; unfold g_pre_part;
    try (destruct pre; [reflexivity|]; cbn [map]; rewrite abs_pre_str, abs_dot_parts; reflexivity);
    reflexivity.
Qed.

Lemma dash_to_pre_length s : (length (M.dash_to_pre s) <= 5 * length s)%nat.
Proof.
  unfold M.dash_to_pre. induction s as [|c s IH]; [cbn; lia|]. cbn [flat_map].
  rewrite app_length. destruct (ceqb c "-"%char); cbn [length list_ascii_of_string] in *; lia.
Qed.

Lemma g_dot_parts_length s : (length (g_dot_parts s) <= S (length s))%nat.
Proof.
  unfold g_dot_parts. rewrite map_length. etransitivity; [apply filter_length_le'|]. apply split_c_length_le.
Qed.

(* the exact result of an append loop *)
Lemma app_loop_exact {R : Type} fuel (body : Z * list G.segment -> res (step (Z * list G.segment) R))
      (xs : list bytes) (segs0 : list G.segment) :
  (forall st, body st = app_body xs st) -> fits xs -> (length xs < fuel)%nat ->
  while fuel body (0, segs0) =
  Done (Fell (Z.of_nat (length xs), segs0 ++ map P.createSegment (filter nonempty_b xs))).
Proof.
  intros Eb F Hf. rewrite (while_ext _ _ Eb).
  destruct (while_rule_ex (app_body (R := R) xs)
              (fun st => 0 <= fst st <= Z.of_nat (length xs) /\
                         snd st = segs0 ++ map P.createSegment (filter nonempty_b (firstn (Z.to_nat (fst st)) xs)))
              (fun st => up_to (Z.of_nat (length xs)) (fst st))
              (fun st => st = (Z.of_nat (length xs), segs0 ++ map P.createSegment (filter nonempty_b xs)))
              (fun _ => False)) with (fuel := fuel) (s := (0, segs0)) as (x & E & Q).
  - intros [k sg] [Hk Hs]. cbn [fst snd] in Hk, Hs. unfold step_ok, app_body, up_to.
    destruct (Z.ltb_spec k (Z.of_nat (length xs))) as [Lt|Ge].
    + rewrite (idx_in_range xs k []) by (unfold len; lia). cbn [bind]. cbv zeta.
      rewrite (wrap64_succ k (Z.of_nat (length xs))) by (unfold fits in F; lia).
      cbn [fst snd]. split; [split; [lia|] | lia].
      rewrite Z_to_nat_succ by lia. rewrite (firstn_succ_nth xs _ []) by lia.
      rewrite filter_app, map_app, app_assoc, <- Hs. cbn [filter].
      destruct (nth (Z.to_nat k) xs []) as [|c0 p0]; [cbn; rewrite app_nil_r; reflexivity | reflexivity].
    + rewrite firstn_all2 in Hs by lia. rewrite Hs. f_equal. lia.
  - cbn [fst snd firstn filter map]. rewrite app_nil_r. split; [lia | reflexivity].
  - unfold up_to. cbn [fst]. lia.
  - rewrite E. destruct x as [st|r]; [|contradiction]. rewrite Q. reflexivity.
Qed.


(* ---------- the model's canonicalize at most doubles the length ---------- *)

Lemma add_dots_aux_length prev s : (length (M.add_dots_aux prev s) <= 2 * length s)%nat.
Proof.
  revert prev. induction s as [|r s IH]; intros prev; [cbn; lia|].
  cbn [M.add_dots_aux]. rewrite app_length. specialize (IH r).
  destruct (_ && _); cbn [length] in *; lia.
Qed.

Lemma add_dots_length s : s <> [] -> (S (length (M.add_dots s)) <= 2 * length s)%nat.
Proof.
  destruct s as [|c s]; [congruence|]. intros _. cbn [M.add_dots length].
  pose proof (add_dots_aux_length c s). lia.
Qed.

Lemma add_dots_length_le s : (length (M.add_dots s) <= 2 * length s)%nat.
Proof. destruct s as [|c s]; [cbn; lia|]. pose proof (add_dots_length (c :: s) ltac:(discriminate)). cbn [length] in *. lia. Qed.

Lemma fields_func_aux_spec p cur s :
  Forall (fun f : bytes => f <> []) (fields_func_aux p cur s) /\
  (length (concat (fields_func_aux p cur s)) <= length cur + length s)%nat.
Proof.
  revert cur. induction s as [|c s IH]; intros cur.
  - cbn [fields_func_aux]. destruct cur as [|x cur].
    + split; [constructor | cbn; lia].
    + split.
      * constructor; [|constructor]. intros E. apply (f_equal (@length ascii)) in E.
        rewrite rev_length in E. discriminate.
      * cbn [concat]. rewrite app_nil_r, rev_length. lia.
  - cbn [fields_func_aux]. destruct (p c).
    + destruct cur as [|x cur].
      * destruct (IH []) as [A B]. split; [exact A | cbn [length] in *; lia].
      * destruct (IH []) as [A B]. split.
        -- constructor; [|exact A]. intros E. apply (f_equal (@length ascii)) in E.
           rewrite rev_length in E. discriminate.
        -- cbn [concat]. rewrite app_length, rev_length. cbn [length] in *. lia.
    + destruct (IH (c :: cur)) as [A B]. split; [exact A | cbn [length] in *; lia].
Qed.

Lemma canonicalize_length v : (length (M.canonicalize v) <= 2 * length v)%nat.
Proof.
  unfold M.canonicalize, fields_func.
  destruct (fields_func_aux_spec M.is_sep [] v) as [NE SL].
  destruct (fields_func_aux M.is_sep [] v) as [|main rest]; [lia|].
  cbn [concat] in SL. rewrite app_length in *. cbn [length] in SL.
  pose proof (add_dots_length_le main) as Lm.
  inversion NE as [|? ? _ NEr]; subst. clear NE.
  assert (Lr : (length (flat_map (fun p => (if contains_sub ("-"%char :: p) v then "-"%char else "+"%char)
                                            :: M.add_dots p) rest) <= 2 * length (concat rest))%nat).
  { clear SL Lm. induction rest as [|p rest IH]; [cbn; lia|].
    inversion NEr as [|? ? Hp Hr]; subst. cbn [flat_map concat]. rewrite !app_length. cbn [length].
    specialize (IH Hr). pose proof (add_dots_length p Hp). lia. }
  lia.
Qed.

Section Tie.
  Variable replaceAll : bytes -> bytes -> bytes -> bytes.   (* strings.ReplaceAll *)
  Variable canon : bytes -> bytes.                          (* canonicalizeVersion *)
  Variable matchString : bytes -> bool.                     (* versionPattern.MatchString *)
  (* ORACLE AGREEMENT *)
  Hypothesis replaceAll_agrees : forall s, replaceAll s $"-" $".pre." = M.dash_to_pre s.
  Hypothesis canon_agrees : forall v, canon v = M.canonicalize v.
  Hypothesis matchString_agrees : forall v, matchString ($"v" ++ v) = M.pattern v.

  Theorem tie_parse_gem_parseSegments : forall fuel c,
    Z.of_nat (5 * length c + 5) < 2 ^ 63 -> (5 * length c + 4 < fuel)%nat ->
    P.parseSegments replaceAll fuel c = Done (Some (TL.g_rtz (g_segments c))).
  Proof.
    intros fuel c F Hf. unfold P.parseSegments, g_segments. cbv zeta.
    pose proof (cutp_length $"+" c) as L1.
    eapply bind_eq; [apply (split_idx_cut $"+" c); [reflexivity | unfold fits; lia]|].
    destruct (cutp $"+" c) as [build main0]. cbn [fst snd] in L1.
    pose proof (cutp_length $"-" main0) as L2.
    eapply bind_eq; [apply (split_idx_cut $"-" main0); [reflexivity | unfold fits; lia]|].
    destruct (cutp $"-" main0) as [pre main]. cbn [fst snd] in L2.
    (* the loop over the parts of the main part *)
    pose proof (split_c_length_le (chr 46) main) as Lp.
    pose proof (g_dot_parts_length main) as Lm. unfold g_dot_parts in Lm |- *.
    assert (Hparts : forall k, (length (nth k (split_c (chr 46) main) []) <= length main)%nat)
      by (intros k; apply nth_split_c_length).
    set (parts := split_c (chr 46) main) in *. clearbody parts.
    match goal with |- bind (while fuel ?b ?s0) _ = _ =>
      rewrite (app_loop_exact fuel b parts [])
    end.
    2:{ intros [k sg]. unfold app_body.
        destruct (Z.ltb_spec k (Z.of_nat (length parts))) as [Lt|Ge]; [|reflexivity].
        destruct (Z.leb_spec 0 k) as [K0|K0].
        - rewrite (idx_in_range parts k []) by (unfold len; lia). cbn [bind].
          destruct (beq (nth (Z.to_nat k) parts []) []); [reflexivity|]. cbn [negb].
          specialize (Hparts (Z.to_nat k)).
          destruct (containsLetter_no_panic fuel (nth (Z.to_nat k) parts [])) as [b Eb];
            [unfold fits; lia | lia |].
          rewrite Eb. cbn [bind]. destruct b; reflexivity.
        - rewrite idx_out_of_range by lia. reflexivity. }
    2:{ unfold fits. lia. }
    2:{ lia. }
    cbn [bind app]. clear Hparts.
    set (sg := map P.createSegment (filter nonempty_b parts)) in *. clearbody sg. clear Lp parts.
    (* the pre-release parts *)
    pose proof (dash_to_pre_length pre) as Ld.
    eapply bind_eq with (a := sg ++ g_pre_part pre).
    { destruct pre as [|p0 pr]; [cbn [g_pre_part]; rewrite app_nil_r; reflexivity|].
      change (negb (beq (p0 :: pr) [])) with true. cbv iota.
      rewrite replaceAll_agrees.
      pose proof (split_c_length_le (chr 46) (M.dash_to_pre (p0 :: pr))) as Lx.
      unfold g_pre_part, g_dot_parts.
      set (xs := split_c (chr 46) (M.dash_to_pre (p0 :: pr))) in *. clearbody xs.
      match goal with |- bind (while fuel ?b ?s0) _ = _ =>
        rewrite (app_loop_exact fuel b xs (sg ++ [P.createSegment $"pre"]));
          [| intros [k' sg']; reflexivity | unfold fits; lia | lia]
      end.
      cbn [bind fell]. rewrite <- app_assoc. reflexivity. }
    pose proof (g_dot_parts_length (M.dash_to_pre pre)) as Lpre.
    assert (Lpp : (length (g_pre_part pre) <= 5 * length pre + 2)%nat).
    { unfold g_pre_part. destruct pre; [cbn; lia|]. cbn [length]. cbn [length] in Ld. lia. }
    clear Lpre.
    (* the build parts *)
    eapply bind_eq with (a := (sg ++ g_pre_part pre) ++ g_dot_parts build).
    { destruct build as [|b0 br].
      - change (negb (beq [] [])) with false. cbv iota. cbn. rewrite app_nil_r. reflexivity.
      - change (negb (beq (b0 :: br) [])) with true. cbv iota.
        pose proof (split_c_length_le (chr 46) (b0 :: br)) as Lx. unfold g_dot_parts.
        set (xs := split_c (chr 46) (b0 :: br)) in *. clearbody xs.
        match goal with |- bind (while fuel ?b ?s0) _ = _ =>
          rewrite (app_loop_exact fuel b xs (sg ++ g_pre_part pre));
            [| intros [k' sg']; reflexivity | unfold fits; lia | lia]
        end.
        cbn [bind fell]. reflexivity. }
    pose proof (g_dot_parts_length build) as Lb.
    rewrite TL.tie_loops_gem_removeTrailingZeros_exact.
    - cbn [bind]. rewrite <- app_assoc. reflexivity.
    - unfold fits. rewrite !app_length. lia.
    - rewrite !app_length. lia.
  Qed.

  Theorem tie_parse_gem_newversion : forall e s fuel,
    Z.of_nat (10 * length s + 5) < 2 ^ 63 -> (10 * length s + 4 < fuel)%nat ->
    rmap (option_map T.abs_ver) (P.Ecosystem_NewVersion replaceAll canon matchString fuel e s) =
    Done (M.parse s).
  Proof.
    intros e s fuel F Hf. unfold P.Ecosystem_NewVersion, M.parse, VLayer.parse, M.parse_core, M.raw_orig.
    cbv zeta.
    pose proof (trim_space_length_le s) as L1.
    pose proof (trim_prefix_length_le $"v" (trim_space s)) as L2.
    set (v := trim_prefix $"v" (trim_space s)) in *. clearbody v.
    destruct v as [|v0 vr]; [reflexivity|].
    change (beq (v0 :: vr) []) with false. cbv iota.
    rewrite matchString_agrees. destruct (M.pattern (v0 :: vr)); [|reflexivity]. cbn [negb].
    rewrite canon_agrees.
    pose proof (canonicalize_length (v0 :: vr)) as L3.
    rewrite tie_parse_gem_parseSegments by lia.
    unfold rmap. cbn [bind option_map]. unfold T.abs_ver, T.abs. cbn [G.Version_segments G.Version_original].
    rewrite abs_segments. reflexivity.
  Qed.
End Tie.
Print Assumptions tie_parse_gem_parseSegments.
Print Assumptions tie_parse_gem_newversion.
