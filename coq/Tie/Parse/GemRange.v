(* Tie/Parse/GemRange.v — the generated translation of gem's NewVersionRange (Gen/Parse/Gem.v:
   parseConstraints = a loop over strings.Split(s, ","), parseConstraint = the pessimistic prefix
   "~>" with the slice constraintStr[2:] guarded by strings.HasPrefix, then a loop over the six
   operators with the slice constraintStr[len(op):] guarded by strings.HasPrefix) never panics and
   terminates with fuel linear in the length of the input.  The bound texts are kept as strings
   (gem validates them lazily, in Contains): NewVersion is not called, no oracle occurs. *)
From Coq Require Import ZArith List Ascii Bool Lia.
From Verif.Base Require Import Bytes GoNum GoOps Imp ImpFacts ImpErr BytesFacts.
From Verif.Gen.Code Require Gem.
From Verif.Gen.Parse Require Gem.
From Verif.Eco Require Import RangeCore Iface.
From Verif.Eco.Gem Require Range.
From Verif.Tie.Parse Require Import Common RangeCommon RangeTie.
Import ListNotations.
Local Open Scope Z_scope.

Module G := Verif.Gen.Code.Gem.
Module P := Verif.Gen.Parse.Gem.
Module RM := Verif.Eco.Gem.Range.

Section Range.
  Local Opaque trim_space beq split_c has_prefix.

  (* parseConstraint: "~>", then 6 operators, one iteration each *)
  Lemma parseConstraint_gem_no_panic : forall fuel c,
    (6 < fuel)%nat -> finished (P.parseConstraint fuel c).
  Proof.
    intros fuel c Hf. unfold P.parseConstraint. cbv zeta.
    destruct (has_prefix $"~>" (trim_space c)) eqn:E1.
    { rewrite (slice_from_prefix _ _ E1 : slice_from _ 2 = _). cbn [bind]. np. }
    apply (ops_loop_finished [$">="; $"<="; $"!="; $">"; $"<"; $"="] (trim_space c)
             (fun op sl =>
                if beq (trim_space sl) [] then Done (Ret None)
                else Done (Ret (Some (G.mk_constraint op (trim_space sl)))))).
    - intros op _ _. destruct (beq _ _); eauto.
    - cbn. lia.
    - cbn [length]. lia.
    - intros [k|r]; np.
  Qed.

  (* parseConstraints: one iteration per comma-separated part *)
  Lemma parseConstraints_gem_no_panic : forall fuel s,
    Z.of_nat (length s) + 1 < 2 ^ 63 -> (length s + 6 < fuel)%nat ->
    finished (P.parseConstraints fuel s).
  Proof.
    intros fuel s Hfit Hf. unfold P.parseConstraints. cbv zeta.
    pose proof (split_c_length_le (chr 44) s) as SL.
    apply (parts_loop_finished (split_c (chr 44) s) (fun part => P.parseConstraint fuel part)).
    - intros part _. apply parseConstraint_gem_no_panic. lia.
    - lia.
    - lia.
    - intros [[k cs]|r]; np.
  Qed.

  (* C06 for gem's NewVersionRange: no panic, and fuel length s + 7 is enough *)
  Theorem newversionrange_gem_no_panic : forall fuel e s,
    Z.of_nat (length s) + 1 < 2 ^ 63 -> (length s + 6 < fuel)%nat ->
    finished (P.Ecosystem_NewVersionRange fuel e s).
  Proof.
    intros fuel e s Hfit Hf. unfold P.Ecosystem_NewVersionRange. cbv zeta.
    pose proof (trim_space_length_le s) as TL.
    destruct (beq (trim_space s) []); [np|].
    apply finished_bind; [|intros; np].
    apply parseConstraints_gem_no_panic; lia.
  Qed.
End Range.
Print Assumptions newversionrange_gem_no_panic.

(* ---------- the tie to the model (Eco/Gem/Range.v = RangeCore with RM.cfg, bounds kept as
   texts: rc_eager = false) ---------- *)

(* the Go value of a model constraint (operator text, bound text) *)
Definition conc_c (c : constraint) : G.constraint := G.mk_constraint (fst c) (snd c).

Definition conc (r : range) : G.VersionRange := G.mk_VersionRange (map conc_c (r_cs r)) (r_orig r).

Definition gem_six : list bytes := [$">="; $"<="; $"!="; $">"; $"<"; $"="].

Section Tie.
  Variable V : Type.
  Variable vparse : bytes -> option V.     (* never consulted: gem does not validate bounds here *)

  Definition model_pc (part : bytes) : option G.constraint :=
    option_map conc_c (parse_constraint RM.cfg part).

  Lemma tie_parse_gem_parseConstraint : forall fuel c,
    (6 < fuel)%nat -> P.parseConstraint fuel c = Done (model_pc c).
  Proof.
    intros fuel c Hf. unfold P.parseConstraint, model_pc, parse_constraint. cbv zeta.
    change (rc_style RM.cfg) with HasPrefixErr. cbv iota.
    change (rc_ops RM.cfg) with ($"~>" :: gem_six). cbn [first_prefix].
    destruct (has_prefix $"~>" (trim_space c)) eqn:E1.
    { rewrite (slice_from_prefix _ _ E1 : slice_from _ 2 = _). cbn [bind].
      rewrite beq_nil_nonempty.
      destruct (trim_space (skipn (length $"~>") (trim_space c))); reflexivity. }
    match goal with |- context [while fuel ?b 0] =>
      change b with (ops_body gem_six (trim_space c)
             (fun op sl =>
                if beq (trim_space sl) [] then Done (Ret None)
                else Done (Ret (Some (G.mk_constraint op (trim_space sl))))))
    end.
    rewrite (ops_loop_result _ _ _
               (fun op sl => if beq (trim_space sl) [] then None
                             else Some (G.mk_constraint op (trim_space sl)))).
    - cbn [bind].
      destruct (first_prefix _ _) as [[op rest]|]; [|reflexivity].
      rewrite beq_nil_nonempty. destruct (trim_space rest); reflexivity.
    - intros op. destruct (beq _ _); reflexivity.
    - cbn. lia.
    - cbn [length gem_six]. lia.
  Qed.

  (* the body of the loop over the parts: trim, skip the empty ones, parse, append *)
  Definition parts_g (part : bytes) (cs : list G.constraint)
    : option (list G.constraint) + list G.constraint :=
    let p := trim_space part in
    if beq p [] then inr cs
    else match model_pc p with
         | None => inl None
         | Some c => inr (cs ++ [c])
         end.

  Lemma run_parts_lazy : forall parts acc,
    run parts_g parts acc =
    match parse_constraints V vparse RM.cfg (filter nonempty (map trim_space parts)) with
    | None => inl None
    | Some l => inr (acc ++ map conc_c l)
    end.
  Proof.
    induction parts as [|part r IH]; intros acc; cbn [run map filter parse_constraints].
    - cbn. rewrite app_nil_r. reflexivity.
    - unfold parts_g at 1. cbv zeta. rewrite beq_nil_nonempty.
      destruct (nonempty (trim_space part)); cbn [negb]; [|apply IH].
      cbn [parse_constraints]. unfold model_pc.
      destruct (parse_constraint RM.cfg (trim_space part)) as [c|]; cbn [option_map]; [|reflexivity].
      change (bound_ok V vparse RM.cfg c) with true. cbv iota.
      rewrite IH. destruct (parse_constraints _ _ _ _) as [l|]; [|reflexivity].
      f_equal. rewrite <- app_assoc. reflexivity.
  Qed.

  Lemma tie_parse_gem_parseConstraints : forall fuel s,
    Z.of_nat (length s) + 1 < 2 ^ 63 -> (length s + 6 < fuel)%nat ->
    P.parseConstraints fuel s =
    Done (match parse_constraints V vparse RM.cfg (rc_split RM.cfg s) with
          | Some (c :: l) => Some (map conc_c (c :: l))
          | _ => None
          end).
  Proof.
    intros fuel s Hfit Hf. unfold P.parseConstraints. cbv zeta.
    pose proof (split_c_length_le (chr 44) s) as SL.
    match goal with |- context [while fuel ?b (0, [])] =>
      change b with (range_body (R := option (list G.constraint)) (split_c (chr 44) s)
             (fun k part cs =>
                let part := trim_space part in
                if beq part [] then Done (Next (wrap64 (k + 1), cs))
                else bind (P.parseConstraint fuel part) (fun r =>
                  match r with
                  | None => Done (Ret None)
                  | Some c => Done (Next (wrap64 (k + 1), cs ++ [c]))
                  end)))
    end.
    rewrite (range_loop_result _ _ parts_g); [| |lia|lia].
    - rewrite run_parts_lazy. cbn [bind app].
      change (rc_split RM.cfg s) with (filter nonempty (map trim_space (split_c (chr 44) s))).
      destruct (parse_constraints _ _ _ _) as [[|c l]|]; reflexivity.
    - intros k part cs. unfold parts_g. cbv zeta.
      destruct (beq (trim_space part) []); [reflexivity|].
      rewrite tie_parse_gem_parseConstraint by lia. cbn [bind].
      destruct (model_pc _); reflexivity.
  Qed.

  (* the generated NewVersionRange computes the model's parse_range *)
  Lemma tie_parse_gem_newversionrange_core : forall fuel e s,
    Z.of_nat (length s) + 1 < 2 ^ 63 -> (length s + 6 < fuel)%nat ->
    P.Ecosystem_NewVersionRange fuel e s =
    Done (option_map conc (parse_range V vparse RM.cfg s)).
  Proof.
    intros fuel e s Hfit Hf. unfold P.Ecosystem_NewVersionRange, parse_range. cbv zeta.
    pose proof (trim_space_length_le s) as TL.
    rewrite beq_nil_nonempty. destruct (trim_space s) as [|x t] eqn:E; [reflexivity|].
    cbn [nonempty negb]. rewrite <- E in TL |- *.
    rewrite tie_parse_gem_parseConstraints by lia. cbn [bind].
    destruct (parse_constraints _ _ _ _) as [[|c l]|]; reflexivity.
  Qed.
End Tie.

(* with the model's own instantiation (Eco/Gem/Range.v: parse_range vok) *)
Theorem tie_parse_gem_newversionrange : forall (vok : bytes -> bool) fuel e s,
  Z.of_nat (length s) + 1 < 2 ^ 63 -> (length s + 6 < fuel)%nat ->
  P.Ecosystem_NewVersionRange fuel e s = Done (option_map conc (RM.parse_range vok s)).
Proof. intros vok fuel e s Hfit Hf. apply tie_parse_gem_newversionrange_core; assumption. Qed.
Print Assumptions tie_parse_gem_newversionrange.
