(* Tie/Parse/Gentoo.v — the generated translation of gentoo's NewVersion (Gen/Parse/Gentoo.v:
   FindStringSubmatch oracle, matches[1..5], a loop over strings.Split(matches[1], ".") with
   strconv.Atoi on every component) never panics and terminates with fuel linear in the length of
   the input; it agrees with the model's parser (Eco/Gentoo/Version.v) when the oracle agrees with
   the model's scanners (the loop is then the model's atoi_all, and a constant fuel is enough). *)
From Coq Require Import ZArith List Bool Lia.
From Verif.Base Require Import Bytes GoNum GoOps Imp ImpFacts ImpErr BytesFacts.
From Verif.Eco.Gentoo Require Version.
From Verif.Gen.Code Require Gentoo.
From Verif.Gen.Parse Require Gentoo.
From Verif.Tie Require Gentoo.
From Verif.Tie.Parse Require Import Common Scan.
Import ListNotations.
Local Open Scope Z_scope.

Module G := Verif.Gen.Code.Gentoo.
Module P := Verif.Gen.Parse.Gentoo.
Module M := Verif.Eco.Gentoo.Version.
Module T := Verif.Tie.Gentoo.

Local Opaque atoi trim_space beq split_c.

Section NewVersion.
  Variable find : bytes -> option (list bytes).   (* versionPattern.FindStringSubmatch *)
  Hypothesis find_shape : submatch_shape find P.versionPattern_groups.
  Hypothesis find_within : submatch_within find.

  (* C06 for gentoo's NewVersion: every matches[k], k = 1..5, is inside len(matches) = 6; the loop
     over the components of matches[1] takes one iteration per component plus one: fuel
     length s + 2 is enough *)
  Theorem newversion_gentoo_no_panic : forall e s fuel,
    Z.of_nat (length s) + 1 < 2 ^ 63 -> (S (length s) < fuel)%nat ->
    finished (P.Ecosystem_NewVersion find fuel e s).
  Proof.
    intros e s fuel F Hf. unfold P.Ecosystem_NewVersion. cbv zeta.
    pose proof (trim_space_length_le s) as TL.
    destruct (find (trim_space s)) as [m|] eqn:E; [|np].
    pose proof (find_within _ _ E) as W.
    pose proof (find_shape _ _ E) as L. unfold P.versionPattern_groups in L.
    shape_list L.
    repeat match goal with H : Forall _ (_ :: _) |- _ => inversion H; clear H; subst end.
    np_idx. cbn [bind]. cbv beta zeta.
    match goal with |- context [split_c (chr 46) ?x] =>
      pose proof (split_c_length_le (chr 46) x) as SL; set (xs := split_c (chr 46) x) in * end.
    match goal with |- finished (bind (while _ ?b _) _) => set (body := b) end.
    apply (finished_while_bind fuel body (0, []) _
             (fun st => 0 <= fst st <= Z.of_nat (length xs))
             (fun st => Z.to_nat (Z.of_nat (length xs) - fst st))).
    + intros [k ns] Hk. cbn [fst] in Hk. unfold step_ok, body.
      destruct (Z.ltb_spec k (Z.of_nat (length xs))) as [Lt|Ge]; [|exact I].
      rewrite (idx_in_range xs k []) by (unfold len; lia). cbn [bind].
      destruct (atoi (nth _ _ _)); [|exact I].
      cbv zeta. rewrite (wrap64_succ_lt k (Z.of_nat (length xs))) by lia. cbn [fst]. split; lia.
    + cbn [fst]. lia.
    + cbn [fst]. lia.
    + intros [[k ns]|r]; np.
  Qed.
End NewVersion.
Print Assumptions newversion_gentoo_no_panic.

(* ---------- the tie to the model ---------- *)

(* what versionPattern ^(\d+(?:\.\d+){0,10})([a-zA-Z])?(?:_(alpha|beta|pre|rc|p)(\d* ))?(?:-r(\d+))?$
   returns on the trimmed text, re-expressed with the scanners of the model:
   [whole; numbers; letter; suffix; suffix number; revision] (Go reports a group that did not take
   part as "").  That the real regexp engine agrees with this function is the oracle-agreement
   hypothesis below; the differential correspondence run checks it on every generated input. *)
Definition ref_match (t : bytes) : option (list bytes) :=
  match t with
  | [] => None
  | c :: _ =>
      if is_digit c then
        let (nums, r1) := M.scan_numbers t [] in
        if (length nums <=? M.max_components)%nat then
          let (lt, r2) := M.scan_letter r1 in
          match M.scan_suffix r2 with
          | None => None
          | Some (sf, sn, r3) =>
              match M.scan_revision r3 with
              | None => None
              | Some rv => Some [t; join $"." nums; lt; sf; sn; rv]
              end
          end
        else None
      else None
  end.

(* the Go value for a parsed core *)
Definition conc (s : bytes) (c : M.core) : G.Version :=
  G.mk_Version (M.numbers c) (M.letter c) (M.suffix c) (M.suffixNum c) (M.revision c) s.

Lemma abs_conc s c : T.abs (conc s c) = c.
Proof. destruct c; reflexivity. Qed.

(* the digit runs scan_numbers returns are non-empty runs of digits *)
Definition ne_digits (d : bytes) : Prop := d <> [] /\ forallb is_digit d = true.

Definition starts_digit (s : bytes) : bool :=
  match s with c :: _ => is_digit c | [] => false end.

Lemma ne_digits_rev cur : cur <> [] -> forallb is_digit cur = true -> ne_digits (rev cur).
Proof.
  intros N A. split.
  - intros X. apply (f_equal (@length _)) in X. rewrite rev_length in X.
    destruct cur; [congruence | discriminate].
  - apply forallb_forall. intros x Hx. apply in_rev in Hx.
    rewrite forallb_forall in A. apply A. exact Hx.
Qed.

Lemma scan_numbers_ne : forall s cur,
  forallb is_digit cur = true -> (cur <> [] \/ starts_digit s = true) ->
  Forall ne_digits (fst (M.scan_numbers s cur)) /\ fst (M.scan_numbers s cur) <> [].
Proof.
  induction s as [|c s IH]; intros cur A H.
  - cbn [M.scan_numbers fst]. destruct H as [H|H]; [|discriminate].
    split; [|discriminate]. constructor; [apply ne_digits_rev; assumption | constructor].
  - cbn [M.scan_numbers]. destruct (is_digit c) eqn:Dc.
    + apply IH; [cbn [forallb]; rewrite Dc; exact A | left; discriminate].
    + assert (N : cur <> []).
      { destruct H as [H|H]; [exact H|]. cbn [starts_digit] in H. congruence. }
      destruct (ceqb c "."%char && match s with d :: _ => is_digit d | [] => false end) eqn:C.
      * apply andb_prop in C as [_ C].
        destruct (IH [] eq_refl (or_intror C)) as [I1 I2].
        destruct (M.scan_numbers s []) as [l r]. cbn [fst] in *.
        split; [|discriminate]. constructor; [apply ne_digits_rev; assumption | exact I1].
      * cbn [fst]. split; [|discriminate].
        constructor; [apply ne_digits_rev; assumption | constructor].
Qed.

Lemma atoi_digits_run d : ne_digits d -> atoi d = M.atoi_digits d.
Proof. intros [N A]. exact (atoi_run d N A). Qed.

Lemma scan_suffix_digits s sf sn r : M.scan_suffix s = Some (sf, sn, r) -> forallb is_digit sn = true.
Proof.
  unfold M.scan_suffix. destruct s as [|c s'].
  - intros X. injection X as <- <- <-. reflexivity.
  - destruct (ceqb c "_"%char).
    + destruct (RangeCore.first_prefix M.suffix_alts s') as [[name r']|]; [|discriminate].
      intros X. injection X as <- <- <-. apply take_while_forallb.
    + intros X. injection X as <- <- <-. reflexivity.
Qed.

Lemma scan_revision_digits s rv : M.scan_revision s = Some rv -> forallb is_digit rv = true.
Proof.
  unfold M.scan_revision. destruct s as [|c1 [|c2 ds]]; try discriminate.
  - intros X. injection X as <-. reflexivity.
  - destruct (_ && _) eqn:C; [|discriminate]. intros X. injection X as <-.
    apply andb_prop in C as [_ C]. unfold nonempty_digits in C. destruct ds; [discriminate | exact C].
Qed.

(* the loop over strings.Split(matches[1], "."): exactly the model's atoi_all *)
Definition loop_body (xs : list bytes) : Z * list Z -> res (step (Z * list Z) (option G.Version)) :=
  fun '(k, numbers) =>
    if Z.ltb k (Z.of_nat (length xs)) then
      bind (idx xs k) (fun numStr =>
        match atoi numStr with
        | None => Done (Ret None)
        | Some num => Done (Next (wrap64 (k + 1), numbers ++ [num]))
        end)
    else Done (Break (k, numbers)).

Lemma loop_atoi_all (xs : list bytes) : Z.of_nat (length xs) < 2 ^ 63 ->
  forall rest pre acc fuel, xs = pre ++ rest -> Forall ne_digits rest -> (length rest < fuel)%nat ->
  while fuel (loop_body xs) (Z.of_nat (length pre), acc) =
  Done (match M.atoi_all rest with
        | Some zs => Fell (Z.of_nat (length xs), acc ++ zs)
        | None => Returned None
        end).
Proof.
  intros Fx. induction rest as [|d rest IH]; intros pre acc fuel E NE Hf.
  - destruct fuel as [|fuel]; [lia|]. rewrite app_nil_r in E. subst pre.
    cbn [while loop_body M.atoi_all]. rewrite Z.ltb_irrefl, app_nil_r. reflexivity.
  - destruct fuel as [|fuel]; [cbn [length] in Hf; lia|].
    inversion NE as [|? ? Nd NE']; subst.
    assert (L : Z.of_nat (length pre) < Z.of_nat (length (pre ++ d :: rest))).
    { rewrite app_length. cbn [length]. lia. }
    cbn [while loop_body].
    replace (Z.of_nat (length pre) <? Z.of_nat (length (pre ++ d :: rest))) with true
      by (symmetry; apply Z.ltb_lt; exact L).
    rewrite (idx_known (pre ++ d :: rest) (Z.of_nat (length pre)) d).
    2:{ apply Z.leb_le. lia. }
    2:{ rewrite Nat2Z.id, nth_error_app2, Nat.sub_diag by lia. reflexivity. }
    cbn [bind M.atoi_all]. rewrite (atoi_digits_run d Nd).
    destruct (M.atoi_digits d) as [z|]; [|reflexivity].
    rewrite (wrap64_succ_lt _ _ (conj (Nat2Z.is_nonneg _) L) Fx).
    replace (Z.of_nat (length pre) + 1) with (Z.of_nat (length (pre ++ [d])))
      by (rewrite app_length; cbn [length]; lia).
    rewrite (IH (pre ++ [d]) (acc ++ [z]) fuel).
    + destruct (M.atoi_all rest) as [zs|]; [|reflexivity]. rewrite <- app_assoc. reflexivity.
    + rewrite <- app_assoc. reflexivity.
    + exact NE'.
    + cbn [length] in Hf. lia.
Qed.

Section Tie.
  Variable find : bytes -> option (list bytes).
  (* ORACLE AGREEMENT: the regexp engine computes what the model's scanners compute *)
  Hypothesis find_agrees : forall t, find t = ref_match t.

  Local Transparent beq.
  Local Opaque M.scan_numbers M.scan_letter M.scan_suffix M.scan_revision M.atoi_digits M.atoi_all.

  (* the pattern allows at most 11 components, so under oracle agreement a constant fuel is enough *)
  Theorem tie_parse_gentoo_newversion : forall e s fuel,
    (M.max_components < fuel)%nat ->
    P.Ecosystem_NewVersion find fuel e s = Done (option_map (conc s) (M.parse_core (trim_space s))).
  Proof.
    intros e s fuel Hf. unfold P.Ecosystem_NewVersion. cbv zeta.
    rewrite find_agrees. unfold conc. set (t := trim_space s). clearbody t.
    unfold ref_match, M.parse_core.
    destruct t as [|c t']; [reflexivity|].
    destruct (is_digit c) eqn:Dc; [|reflexivity].
    destruct (scan_numbers_ne (c :: t') [] eq_refl (or_intror Dc)) as [NE NN].
    destruct (M.scan_numbers (c :: t') []) as [nums r1]. cbn [fst] in NE, NN.
    unfold M.parse_rest.
    destruct (length nums <=? M.max_components)%nat eqn:LE; [|reflexivity].
    apply Nat.leb_le in LE. unfold M.max_components in *.
    destruct (M.scan_letter r1) as [lt r2].
    destruct (M.scan_suffix r2) as [[[sf sn] r3]|] eqn:SS; [|reflexivity].
    destruct (M.scan_revision r3) as [rv|] eqn:SR; [|reflexivity].
    pose proof (scan_suffix_digits _ _ _ _ SS) as Asn.
    pose proof (scan_revision_digits _ _ SR) as Arv.
    erewrite idx_known by reflexivity. cbn [bind].
    destruct nums as [|d ds]; [congruence|].
    change (chr 46) with "."%char. change ($".") with ["."%char].
    rewrite (split_c_join "."%char d ds).
    2:{ eapply Forall_impl; [|exact NE]. intros x [_ Hx]. apply digits_no_dot. exact Hx. }
    match goal with |- bind (while fuel ?b ?st) _ = _ =>
      change b with (loop_body (d :: ds)); change st with (Z.of_nat (length (@nil bytes)), @nil Z) end.
    assert (Fx : Z.of_nat (length (d :: ds)) < 2 ^ 63) by lia.
    assert (Hl : (length (d :: ds) < fuel)%nat) by lia.
    rewrite (loop_atoi_all (d :: ds) Fx (d :: ds) [] [] fuel eq_refl NE Hl).
    cbn [bind app].
    destruct (M.atoi_all (d :: ds)) as [ns|]; [|reflexivity].
    repeat (erewrite idx_known by reflexivity; cbn [bind]).
    unfold M.atoi_opt.
    destruct sn as [|x sn].
    - change (negb (beq [] [])) with false. cbv iota.
      repeat (erewrite idx_known by reflexivity; cbn [bind]).
      destruct rv as [|y rv]; [reflexivity|].
      change (negb (beq (y :: rv) [])) with true. cbv iota.
      rewrite atoi_digits_run by (split; [discriminate | exact Arv]).
      destruct (M.atoi_digits (y :: rv)); reflexivity.
    - change (negb (beq (x :: sn) [])) with true. cbv iota.
      rewrite atoi_digits_run by (split; [discriminate | exact Asn]).
      destruct (M.atoi_digits (x :: sn)); [|reflexivity].
      repeat (erewrite idx_known by reflexivity; cbn [bind]).
      destruct rv as [|y rv]; [reflexivity|].
      change (negb (beq (y :: rv) [])) with true. cbv iota.
      rewrite atoi_digits_run by (split; [discriminate | exact Arv]).
      destruct (M.atoi_digits (y :: rv)); reflexivity.
  Qed.
End Tie.
Print Assumptions tie_parse_gentoo_newversion.
