(* Tie/Parse/GentooRange.v — the generated translation of gentoo's NewVersionRange
   (Gen/Parse/Gentoo.v: parseRange = a loop over strings.Fields(strings.ReplaceAll(s, ",", " ")),
   parseSingleConstraint = a loop over the six operators with the slice c[len(op):] guarded by
   strings.HasPrefix) never panics and terminates with fuel linear in the length of the input,
   GIVEN that Ecosystem_NewVersion (a definition of the same generated file, proved separately:
   newversion_gentoo_no_panic) finishes on every text with fuel above [nvb (length text)]. *)
From Coq Require Import ZArith List Bool Lia.
From Verif.Base Require Import Bytes GoNum GoOps Imp ImpFacts ImpErr BytesFacts.
From Verif.Gen.Code Require Gentoo.
From Verif.Gen.Parse Require Gentoo.
From Verif.Eco Require Import RangeCore.
From Verif.Eco.Gentoo Require Range.
From Verif.Tie.Parse Require Import Common RangeCommon RangeTie.
Import ListNotations.
Local Open Scope Z_scope.

Module G := Verif.Gen.Code.Gentoo.
Module P := Verif.Gen.Parse.Gentoo.
Module RM := Verif.Eco.Gentoo.Range.

Section Range.
  Variable find : bytes -> option (list bytes).           (* versionPattern.FindStringSubmatch *)

  Variable nvb : nat -> nat.
  Hypothesis nvb_mono : forall a b, (a <= b)%nat -> (nvb a <= nvb b)%nat.
  Hypothesis newversion_finished : forall fuel e v,
    Z.of_nat (length v) + 1 < 2 ^ 63 -> (nvb (length v) < fuel)%nat ->
    finished (P.Ecosystem_NewVersion find fuel e v).

  Local Opaque trim_space beq fields replace_c has_prefix P.Ecosystem_NewVersion.

  Lemma parseSingleConstraint_gentoo_no_panic : forall fuel e c,
    Z.of_nat (length c) + 1 < 2 ^ 63 -> (6 < fuel)%nat -> (nvb (length c) < fuel)%nat ->
    finished (P.parseSingleConstraint find fuel e c).
  Proof.
    intros fuel e c Hfit Hf Hn. unfold P.parseSingleConstraint. cbv zeta.
    pose proof (trim_space_length_le c) as TL.
    apply (ops_loop_finished [$">="; $"<="; $"!="; $">"; $"<"; $"="] (trim_space c)
             (fun op sl =>
                if beq (trim_space sl) [] then Done (Ret None)
                else bind (P.Ecosystem_NewVersion find fuel e (trim_space sl)) (fun r =>
                     match r with
                     | None => Done (Ret None)
                     | Some version => Done (Ret (Some [G.mk_constraint op version]))
                     end))).
    - intros op _ _. destruct (beq _ _); [eauto|].
      set (v := trim_space _).
      assert (LV : (length v <= length c)%nat).
      { subst v. etransitivity; [apply trim_space_length_le|].
        etransitivity; [apply skipn_length_le|]. exact TL. }
      destruct (newversion_finished fuel e v) as [r ->].
      + lia.
      + pose proof (nvb_mono _ _ LV). lia.
      + cbn [bind]. destruct r; eauto.
    - cbn. lia.
    - cbn [length]. lia.
    - intros [k|r]; [|np].
      apply finished_bind; [|intros; np].
      apply newversion_finished; [lia|]. pose proof (nvb_mono _ _ TL). lia.
  Qed.

  Lemma parseRange_gentoo_no_panic : forall fuel e s,
    Z.of_nat (length s) + 1 < 2 ^ 63 -> (length s + 6 < fuel)%nat -> (nvb (length s) < fuel)%nat ->
    finished (P.parseRange find fuel e s).
  Proof.
    intros fuel e s Hfit Hf Hn. unfold P.parseRange. cbv zeta.
    pose proof (trim_space_length_le s) as TL.
    set (s' := replace_c (chr 44) (chr 32) (trim_space s)).
    assert (LS : length s' = length (trim_space s)) by apply replace_c_length.
    pose proof (fields_length_le s') as SL.
    assert (SC : forall part, (length part <= length s)%nat ->
                 finished (P.parseSingleConstraint find fuel e part)).
    { intros part L. apply parseSingleConstraint_gentoo_no_panic; try lia.
      pose proof (nvb_mono _ _ L). lia. }
    destruct (Z.of_nat (length (fields s')) <=? 1).
    - apply finished_bind; [|intros; np]. apply SC. exact TL.
    - apply (range_loop_finished (fields s')
               (fun k part cs =>
                  bind (P.parseSingleConstraint find fuel e part) (fun r1 =>
                    match r1 with
                    | None => Done (Ret None)
                    | Some pcs => Done (Next (wrap64 (k + 1), cs ++ pcs))
                    end))).
      + intros k part cs _ Hin. apply fields_In_length in Hin.
        destruct (SC part) as [r ->]; [lia|]. cbn [bind]. destruct r; [reflexivity | exact I].
      + lia.
      + lia.
      + intros [[k cs]|r]; np.
  Qed.

  (* C06 for gentoo's NewVersionRange: no panic; fuel above length s + 6 and above the callee's
     bound at length s is enough *)
  Theorem newversionrange_gentoo_no_panic : forall fuel e s,
    Z.of_nat (length s) + 1 < 2 ^ 63 -> (length s + 6 < fuel)%nat -> (nvb (length s) < fuel)%nat ->
    finished (P.Ecosystem_NewVersionRange find fuel e s).
  Proof.
    intros fuel e s Hfit Hf Hn. unfold P.Ecosystem_NewVersionRange. cbv zeta.
    pose proof (trim_space_length_le s) as TL.
    destruct (beq (trim_space s) []); [np|].
    apply finished_bind; [|intros; np].
    apply parseRange_gentoo_no_panic; try lia.
    pose proof (nvb_mono _ _ TL). lia.
  Qed.
End Range.
Print Assumptions newversionrange_gentoo_no_panic.

(* ---------- the tie to the model (Eco/Gentoo/Range.v = RangeCore with RM.cfg) ---------- *)

Section Tie.
  Variable find : bytes -> option (list bytes).

  (* the callee: with enough fuel NewVersion computes a function [nv] of its text *)
  Variable nv : G.Ecosystem -> bytes -> option G.Version.
  Variable nvb : nat -> nat.
  Hypothesis nvb_mono : forall a b, (a <= b)%nat -> (nvb a <= nvb b)%nat.
  Hypothesis newversion_computes : forall fuel e v,
    Z.of_nat (length v) + 1 < 2 ^ 63 -> (nvb (length v) < fuel)%nat ->
    P.Ecosystem_NewVersion find fuel e v = Done (nv e v).

  Local Opaque P.Ecosystem_NewVersion.

  Definition conc (e : G.Ecosystem) (r : range) : G.VersionRange :=
    G.mk_VersionRange (conc_cs (nv e) G.mk_constraint (r_cs r)) (r_orig r).

  Lemma tie_parse_gentoo_parseSingleConstraint : forall fuel e c,
    Z.of_nat (length c) + 1 < 2 ^ 63 -> (6 < fuel)%nat -> (nvb (length c) < fuel)%nat ->
    P.parseSingleConstraint find fuel e c =
    Done (option_map (fun x => [x]) (model_pc (nv e) G.mk_constraint RM.cfg c)).
  Proof.
    intros fuel e c Hfit Hf Hn. unfold P.parseSingleConstraint. cbv zeta.
    pose proof (trim_space_length_le c) as TL.
    rewrite model_pc_prefix_err by reflexivity.
    match goal with |- context [while fuel ?b 0] =>
      change b with (ops_body [$">="; $"<="; $"!="; $">"; $"<"; $"="] (trim_space c)
             (fun op sl =>
                if beq (trim_space sl) [] then Done (Ret None)
                else bind (P.Ecosystem_NewVersion find fuel e (trim_space sl)) (fun r =>
                     match r with
                     | None => Done (Ret None)
                     | Some version => Done (Ret (Some [G.mk_constraint op version]))
                     end)))
    end.
    rewrite (ops_loop_result _ _ _
               (fun op sl => if beq (trim_space sl) [] then None
                             else option_map (fun x => [x]) (option_map (G.mk_constraint op) (nv e (trim_space sl))))).
    - cbn [bind]. change (rc_ops RM.cfg) with [$">="; $"<="; $"!="; $">"; $"<"; $"="].
      destruct (first_prefix _ _) as [[op rest]|].
      + destruct (beq _ _); reflexivity.
      + rewrite newversion_computes; [|lia|pose proof (nvb_mono _ _ TL); lia].
        cbn [bind]. destruct (nv e (trim_space c)); reflexivity.
    - intros op. destruct (beq _ _); [reflexivity|].
      set (v := trim_space _).
      assert (LV : (length v <= length c)%nat).
      { subst v. etransitivity; [apply trim_space_length_le|].
        etransitivity; [apply skipn_length_le|]. exact TL. }
      rewrite newversion_computes; [|lia|pose proof (nvb_mono _ _ LV); lia].
      cbn [bind]. destruct (nv e v); reflexivity.
    - cbn. lia.
    - cbn [length]. lia.
  Qed.

  (* parseRange on a trimmed text *)
  Lemma tie_parse_gentoo_parseRange : forall fuel e t,
    trim_space t = t ->
    Z.of_nat (length t) + 1 < 2 ^ 63 -> (length t + 6 < fuel)%nat -> (nvb (length t) < fuel)%nat ->
    P.parseRange find fuel e t =
    Done (option_map (conc_cs (nv e) G.mk_constraint)
            (parse_constraints G.Version (nv e) RM.cfg (rc_split RM.cfg t))).
  Proof.
    intros fuel e t Ht Hfit Hf Hn. unfold P.parseRange. cbv zeta. rewrite Ht.
    change (rc_split RM.cfg t) with (split_comma_space t). unfold split_comma_space.
    set (s' := replace_c (chr 44) (chr 32) t).
    change (replace_c _ _ t) with s'.
    assert (LS : length s' = length t) by apply replace_c_length.
    pose proof (fields_length_le s') as SL.
    assert (SC : forall part, (length part <= length t)%nat ->
              P.parseSingleConstraint find fuel e part =
              Done (option_map (fun x => [x]) (model_pc (nv e) G.mk_constraint RM.cfg part))).
    { intros part L. apply tie_parse_gentoo_parseSingleConstraint; try lia.
      pose proof (nvb_mono _ _ L). lia. }
    destruct (Z.leb_spec (Z.of_nat (length (fields s'))) 1) as [Le|Gt];
      destruct (Nat.leb_spec (length (fields s')) 1) as [Le'|Gt']; try lia.
    - rewrite SC by lia. cbn [bind parse_constraints]. unfold model_pc.
      destruct (parse_constraint RM.cfg t) as [c|]; [|reflexivity].
      unfold bound_ok, conc1. change (rc_eager RM.cfg) with true. cbv iota.
      destruct (nv e (snd c)) as [v|] eqn:E; [|reflexivity].
      cbn [option_map conc_cs flat_map]. unfold conc1. rewrite E. reflexivity.
    - match goal with |- context [while fuel ?b (0, [])] =>
        change b with (range_body (R := option (list G.constraint)) (fields s')
               (fun k part cs =>
                  bind (P.parseSingleConstraint find fuel e part) (fun r1 =>
                    match r1 with
                    | None => Done (Ret None)
                    | Some pcs => Done (Next (wrap64 (k + 1), cs ++ pcs))
                    end)))
      end.
      rewrite (while_ext _ (range_body (R := option (list G.constraint)) (fields s')
                 (fun k part cs =>
                    match plain_g (nv e) G.mk_constraint RM.cfg part cs with
                    | inl r => Done (Ret r)
                    | inr cs' => Done (Next (wrap64 (k + 1), cs'))
                    end))).
      2:{ intros [k cs]. unfold range_body.
          destruct (Z.ltb_spec k (Z.of_nat (length (fields s')))) as [Lt|Ge]; [|reflexivity].
          destruct (Z.leb_spec 0 k) as [K0|K0].
          - destruct (idx_lt_Done (fields s') k) as (x & E & N); [lia|].
            rewrite E. cbn [bind]. unfold plain_g.
            apply nth_error_In, fields_In_length in N.
            rewrite SC by lia. cbn [bind].
            destruct (model_pc _ _ _ _); reflexivity.
          - rewrite idx_out_of_range by (unfold len; lia). reflexivity. }
      rewrite (range_loop_result _ _ (plain_g (nv e) G.mk_constraint RM.cfg)); [|reflexivity|lia|lia].
      rewrite (run_plain (nv e) G.mk_constraint RM.cfg eq_refl). cbn [bind app].
      destruct (parse_constraints _ _ _ _) as [l|]; reflexivity.
  Qed.

  (* the generated NewVersionRange computes the model's parse_range, with NewVersion's function
     as the model's bound parser *)
  Theorem tie_parse_gentoo_newversionrange : forall fuel e s,
    Z.of_nat (length s) + 1 < 2 ^ 63 -> (length s + 6 < fuel)%nat -> (nvb (length s) < fuel)%nat ->
    P.Ecosystem_NewVersionRange find fuel e s =
    Done (option_map (conc e) (parse_range G.Version (nv e) RM.cfg s)).
  Proof.
    intros fuel e s Hfit Hf Hn. unfold P.Ecosystem_NewVersionRange, parse_range. cbv zeta.
    pose proof (trim_space_length_le s) as TL.
    pose proof (trim_space_idem s) as TI.
    rewrite beq_nil_nonempty. destruct (trim_space s) as [|x t] eqn:E; [reflexivity|].
    cbn [nonempty negb]. rewrite <- E in TL, TI |- *.
    rewrite tie_parse_gentoo_parseRange; [|exact TI|lia|lia|pose proof (nvb_mono _ _ TL); lia].
    cbn [bind].
    destruct (parse_constraints _ _ _ _) as [l|] eqn:PC; [|reflexivity].
    cbn [option_map]. change (rc_trimmed_orig RM.cfg) with true. cbv iota.
    destruct l as [|c l]; [|reflexivity].
    (* the list of parts is never empty *)
    exfalso. apply parse_constraints_length in PC. cbn [length] in PC.
    change (rc_split RM.cfg (trim_space s)) with (split_comma_space (trim_space s)) in PC.
    unfold split_comma_space in PC.
    destruct (Nat.leb_spec (length (fields (replace_c ","%char " "%char (trim_space s)))) 1) as [L|L];
      [discriminate | lia].
  Qed.
End Tie.
Print Assumptions tie_parse_gentoo_newversionrange.
