(* Tie/Parse/GentooRangeClosed.v — the closed corollaries for gentoo's NewVersionRange: the
   hypothesis "the callee Ecosystem_NewVersion finishes / computes" of Tie/Parse/GentooRange.v is
   discharged with the theorems of Tie/Parse/Gentoo.v:
   * newversion_gentoo_no_panic, fuel bound nvb n = n + 1 (one iteration per component of the
     version text plus one), so fuel above length s + 6 covers the whole range parser;
   * tie_parse_gentoo_newversion, constant fuel bound nvb n = max_components = 11 (under oracle
     agreement the pattern allows at most 11 components), so fuel above length s + 11 is enough. *)
From Coq Require Import ZArith List Bool Lia.
From Verif.Base Require Import Bytes GoNum GoOps Imp ImpFacts ImpErr BytesFacts.
From Verif.Gen.Code Require Gentoo.
From Verif.Gen.Parse Require Gentoo.
From Verif.Eco Require Import RangeCore.
From Verif.Eco.Gentoo Require Version Range.
From Verif.Tie.Parse Require Import Common.
From Verif.Tie.Parse Require Gentoo GentooRange.
Import ListNotations.
Local Open Scope Z_scope.

Module G := Verif.Gen.Code.Gentoo.
Module P := Verif.Gen.Parse.Gentoo.
Module M := Verif.Eco.Gentoo.Version.
Module RM := Verif.Eco.Gentoo.Range.
Module V := Verif.Tie.Parse.Gentoo.
Module R := Verif.Tie.Parse.GentooRange.

(* C06 for gentoo's NewVersionRange, closed: under the regexp-shape hypotheses only, no panic and
   fuel length s + 7 is enough *)
Theorem newversionrange_gentoo_no_panic_closed :
  forall (find : bytes -> option (list bytes)),
  submatch_shape find P.versionPattern_groups -> submatch_within find ->
  forall fuel e s,
  Z.of_nat (length s) + 1 < 2 ^ 63 -> (length s + 6 < fuel)%nat ->
  finished (P.Ecosystem_NewVersionRange find fuel e s).
Proof.
  intros find Sh Wi fuel e s Hfit Hf.
  apply (R.newversionrange_gentoo_no_panic find S).
  - intros a b L. lia.
  - intros fuel' e' v F L.
    apply V.newversion_gentoo_no_panic; [exact Sh | exact Wi | exact F | exact L].
  - exact Hfit.
  - exact Hf.
  - lia.
Qed.
Print Assumptions newversionrange_gentoo_no_panic_closed.

(* ---------- the tie, closed ---------- *)

(* what NewVersion computes (Tie/Parse/Gentoo.v): the model's version parser on the trimmed text,
   the original text kept *)
Definition nv (e : G.Ecosystem) (v : bytes) : option G.Version :=
  option_map (V.conc v) (M.parse_core (trim_space v)).

(* the generated NewVersionRange computes the model's parse_range with the model's version parser
   as bound parser, under the oracle-agreement hypothesis only *)
Theorem tie_parse_gentoo_newversionrange_closed :
  forall (find : bytes -> option (list bytes)),
  (forall t, find t = V.ref_match t) ->
  forall fuel e s,
  Z.of_nat (length s) + 1 < 2 ^ 63 -> (length s + 11 < fuel)%nat ->
  P.Ecosystem_NewVersionRange find fuel e s =
  Done (option_map (R.conc nv e) (parse_range G.Version (nv e) RM.cfg s)).
Proof.
  intros find Fa fuel e s Hfit Hf.
  apply (R.tie_parse_gentoo_newversionrange find nv (fun _ => M.max_components)).
  - intros a b L. lia.
  - intros fuel' e' v F L. unfold nv.
    apply V.tie_parse_gentoo_newversion; [exact Fa | exact L].
  - exact Hfit.
  - lia.
  - unfold M.max_components. lia.
Qed.
Print Assumptions tie_parse_gentoo_newversionrange_closed.
