(* Tie/Parse/Github.v — the generated translation of github's NewVersion (Gen/Parse/Github.v: two
   FindStringSubmatch oracles; parseDateBasedVersion with matches[1..4], parseSemanticVersion with
   matches[1..6], strconv.Atoi) never panics, and
   agrees with the model's parser (Eco/Github/Version.v) when the oracle(s) agree with the model's
   scanners. *)
From Coq Require Import ZArith List Bool Lia.
From Verif.Base Require Import Bytes GoNum GoOps Imp ImpFacts ImpErr BytesFacts.
From Verif.Eco.Github Require Version.
From Verif.Gen.Code Require Github.
From Verif.Gen.Parse Require Github.
From Verif.Tie Require Github.
From Verif.Tie.Parse Require Import Common.
Import ListNotations.
Local Open Scope Z_scope.

Module G := Verif.Gen.Code.Github.
Module P := Verif.Gen.Parse.Github.
Module M := Verif.Eco.Github.Version.
Module T := Verif.Tie.Github.

Local Opaque atoi atoi_sat trim_space to_lower beq.

(* parseSemanticVersion: matches[1..6] under len(matches) = 7 *)
Lemma parseSemanticVersion_no_panic : forall orig m,
  length m = S P.githubVersionPattern_groups -> finished (P.parseSemanticVersion orig m).
Proof.
  intros orig m L. unfold P.githubVersionPattern_groups in L. shape_list L.
  unfold P.parseSemanticVersion. np.
Qed.

(* parseDateBasedVersion: matches[1..4] under len(matches) = 5 *)
Lemma parseDateBasedVersion_no_panic : forall orig m,
  length m = S P.githubDatePattern_groups -> finished (P.parseDateBasedVersion orig m).
Proof.
  intros orig m L. unfold P.githubDatePattern_groups in L. shape_list L.
  unfold P.parseDateBasedVersion. np.
Qed.

Section NewVersion.
  Variable find : bytes -> option (list bytes).    (* githubVersionPattern.FindStringSubmatch *)
  Variable findd : bytes -> option (list bytes).   (* githubDatePattern.FindStringSubmatch *)
  Hypothesis find_shape : submatch_shape find P.githubVersionPattern_groups.
  Hypothesis findd_shape : submatch_shape findd P.githubDatePattern_groups.

  Theorem newversion_github_no_panic : forall e s, finished (P.Ecosystem_NewVersion find findd e s).
  Proof.
    intros e s. unfold P.Ecosystem_NewVersion.
    destruct (beq s []); [np|]. cbv zeta.
    destruct (beq (trim_space s) []); [np|].
    destruct (findd (trim_space s)) as [m|] eqn:E.
    - apply finished_bind; [|intros; np].
      apply parseDateBasedVersion_no_panic. exact (findd_shape _ _ E).
    - destruct (find (trim_space s)) as [m|] eqn:E2; [|np].
      apply finished_bind; [|intros; np].
      apply parseSemanticVersion_no_panic. exact (find_shape _ _ E2).
  Qed.
End NewVersion.
Print Assumptions newversion_github_no_panic.

(* ---------- the tie to the model ---------- *)

(* what the two regular expressions return on the trimmed text, re-expressed with the scanners of
   the model (Go reports a group that did not take part as ""):
   githubDatePattern ^(v)?(\d{4})\.(\d{1,2})\.(\d{1,2})$ : [whole; prefix; year; month; day];
   githubVersionPattern ^(v|release-|rel-)?(\d+)\.(\d+)\.(\d+)(?:[-.]([A-Za-z]+)\.?(\d* ))?$ :
   [whole; prefix; major; minor; patch; qualifier; number].  That the real regexp engine agrees
   with these functions is the oracle-agreement hypothesis below; the differential correspondence
   run checks it on every generated input. *)
Definition ref_match_date (t : bytes) : option (list bytes) :=
  match M.match_date t with
  | Some (p, y, m, d) => Some [t; p; y; m; d]
  | None => None
  end.

Definition ref_match_semantic (t : bytes) : option (list bytes) :=
  match M.match_semantic t with
  | Some (p, a, b, c, q, n) => Some [t; p; a; b; c; q; n]
  | None => None
  end.

(* the Go value for a parsed core: original is the TRIMMED input *)
Definition conc (s : bytes) (c : M.core) : G.Version :=
  G.mk_Version (trim_space s) (M.c_prefix c) (M.c_major c) (M.c_minor c) (M.c_patch c)
               (M.c_qual c) (M.c_num c) (M.c_date c).

Lemma abs_conc s c : T.abs (conc s c) = c.
Proof. destruct c; reflexivity. Qed.

Lemma parse_core_nonempty t : t <> [] ->
  M.parse_core t =
  match M.match_date t with
  | Some (p, y, m, d) => M.parse_date p y m d
  | None =>
      match M.match_semantic t with
      | Some (p, a, b, c, q, n) => M.parse_semantic p a b c q n
      | None => None
      end
  end.
Proof. destruct t; [congruence | reflexivity]. Qed.

Section Tie.
  Variable find : bytes -> option (list bytes).    (* githubVersionPattern.FindStringSubmatch *)
  Variable findd : bytes -> option (list bytes).   (* githubDatePattern.FindStringSubmatch *)
  (* ORACLE AGREEMENT: the regexp engine computes what the model's scanners compute *)
  Hypothesis find_agrees : forall t, find t = ref_match_semantic t.
  Hypothesis findd_agrees : forall t, findd t = ref_match_date t.

  Local Transparent beq.
  Local Opaque M.match_date M.match_semantic.

  Theorem tie_parse_github_newversion : forall e s,
    P.Ecosystem_NewVersion find findd e s = Done (option_map (conc s) (M.parse_core (trim_space s))).
  Proof.
    intros e s. unfold P.Ecosystem_NewVersion.
    destruct (beq s []) eqn:E0.
    { apply beq_eq in E0. subst s. reflexivity. }
    cbv zeta. destruct (beq (trim_space s) []) eqn:E1.
    { apply beq_eq in E1. rewrite E1. reflexivity. }
    assert (NE : trim_space s <> []).
    { intros X. rewrite X in E1. discriminate. }
    rewrite (parse_core_nonempty _ NE), findd_agrees, find_agrees.
    unfold ref_match_date, ref_match_semantic, conc.
    set (t := trim_space s). clearbody t.
    destruct (M.match_date t) as [[[[p y] m] d]|].
    - unfold P.parseDateBasedVersion, M.parse_date.
      repeat (erewrite idx_known by reflexivity; cbn [bind]). cbv zeta.
      destruct (_ || _); [reflexivity|]. destruct (_ || _); reflexivity.
    - destruct (M.match_semantic t) as [[[[[[p a] b] c] q] n]|]; [|reflexivity].
      unfold P.parseSemanticVersion, M.parse_semantic.
      repeat (erewrite idx_known by reflexivity; cbn [bind]).
      destruct (atoi a); [|reflexivity].
      repeat (erewrite idx_known by reflexivity; cbn [bind]).
      destruct (atoi b); [|reflexivity].
      repeat (erewrite idx_known by reflexivity; cbn [bind]).
      destruct (atoi c); [|reflexivity].
      repeat (erewrite idx_known by reflexivity; cbn [bind]). cbv zeta.
      destruct q as [|cq q]; [reflexivity|].
      change (negb (beq (cq :: q) [])) with true. cbv iota.
      repeat (erewrite idx_known by reflexivity; cbn [bind]).
      destruct n as [|cn n]; [reflexivity|].
      change (negb (beq (cn :: n) [])) with true. cbv iota.
      repeat (erewrite idx_known by reflexivity; cbn [bind]).
      destruct (atoi (cn :: n)); reflexivity.
  Qed.
End Tie.
Print Assumptions tie_parse_github_newversion.
