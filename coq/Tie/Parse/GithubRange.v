(* Tie/Parse/GithubRange.v — the generated translation of github's NewVersionRange
   (Gen/Parse/Github.v: parseConstraints = a loop over strings.Fields(s), parseConstraint =
   constraintPattern.FindStringSubmatch with matches[1], matches[2], then NewVersion on the second
   capture) never panics and terminates with fuel linear in the length of the input.
   Ecosystem_NewVersion is newversion_github_no_panic (Tie/Parse/Github.v): the theorem is closed. *)
From Coq Require Import ZArith List Bool Lia.
From Verif.Base Require Import Bytes GoNum GoOps Imp ImpFacts ImpErr BytesFacts.
From Verif.Gen.Code Require Github.
From Verif.Gen.Parse Require Github.
From Verif.Eco Require Import RangeCore.
From Verif.Eco.Github Require Range.
From Verif.Tie.Parse Require Import Common RangeCommon RangeTie RangeOptTie.
From Verif.Tie.Parse Require Github.
Import ListNotations.
Local Open Scope Z_scope.

Module G := Verif.Gen.Code.Github.
Module P := Verif.Gen.Parse.Github.
Module V := Verif.Tie.Parse.Github.
Module RM := Verif.Eco.Github.Range.

Section Range.
  Variable cfind : bytes -> option (list bytes).   (* constraintPattern.FindStringSubmatch *)
  Variable find : bytes -> option (list bytes).    (* githubVersionPattern.FindStringSubmatch *)
  Variable findd : bytes -> option (list bytes).   (* githubDatePattern.FindStringSubmatch *)
  Hypothesis cfind_shape : submatch_shape cfind P.constraintPattern_groups.
  Hypothesis find_shape : submatch_shape find P.githubVersionPattern_groups.
  Hypothesis findd_shape : submatch_shape findd P.githubDatePattern_groups.

  Local Opaque trim_space beq fields P.Ecosystem_NewVersion.

  (* parseConstraint: matches[1], matches[2] under len(matches) = 3 *)
  Lemma parseConstraint_github_no_panic : forall c e,
    finished (P.parseConstraint cfind find findd c e).
  Proof.
    intros c e. unfold P.parseConstraint.
    destruct (cfind c) as [m|] eqn:F; [|np].
    pose proof (cfind_shape _ _ F) as L. unfold P.constraintPattern_groups in L.
    shape_list L.
    repeat (erewrite idx_known by reflexivity; cbn [bind]). cbv zeta.
    apply finished_bind; [|intros; np].
    apply V.newversion_github_no_panic; assumption.
  Qed.

  Lemma parseConstraints_github_no_panic : forall fuel s,
    Z.of_nat (length s) + 1 < 2 ^ 63 -> (S (length s) < fuel)%nat ->
    finished (P.parseConstraints cfind find findd fuel s).
  Proof.
    intros fuel s Hfit Hf. unfold P.parseConstraints. cbv zeta.
    pose proof (fields_length_le s) as SL.
    destruct (Z.of_nat (length (fields s)) =? 0); [np|].
    apply (range_loop_finished (fields s)
             (fun k part cs =>
                bind (P.parseConstraint cfind find findd part G.mk_Ecosystem) (fun r =>
                  match r with
                  | None => Done (Ret None)
                  | Some c => Done (Next (wrap64 (k + 1), cs ++ [c]))
                  end))).
    - intros k part cs _ _.
      destruct (parseConstraint_github_no_panic part G.mk_Ecosystem) as [r ->].
      cbn [bind]. destruct r; [reflexivity | exact I].
    - lia.
    - lia.
    - intros [[k cs]|r]; np.
  Qed.

  (* C06 for github's NewVersionRange: no panic, and fuel length s + 2 is enough *)
  Theorem newversionrange_github_no_panic : forall fuel e s,
    Z.of_nat (length s) + 1 < 2 ^ 63 -> (S (length s) < fuel)%nat ->
    finished (P.Ecosystem_NewVersionRange cfind find findd fuel e s).
  Proof.
    intros fuel e s Hfit Hf. unfold P.Ecosystem_NewVersionRange. cbv zeta.
    pose proof (trim_space_length_le s) as TL.
    destruct (beq s []); [np|].
    destruct (beq (trim_space s) []); [np|].
    apply finished_bind; [|intros; np].
    apply parseConstraints_github_no_panic; lia.
  Qed.
End Range.
Print Assumptions newversionrange_github_no_panic.

(* ---------- the tie to the model (Eco/Github/Range.v = RangeCore with RM.cfg) ---------- *)

Section Tie.
  Variable cfind : bytes -> option (list bytes).   (* constraintPattern.FindStringSubmatch *)
  Variable find : bytes -> option (list bytes).    (* githubVersionPattern.FindStringSubmatch *)
  Variable findd : bytes -> option (list bytes).   (* githubDatePattern.FindStringSubmatch *)
  (* ORACLE AGREEMENT for the constraint pattern ^(>=|<=|>|<|=)?(.+)$, on the texts it is applied
     to (the fields of strings.Fields: no white space) *)
  Hypothesis cfind_agrees : forall t, no_space t = true -> cfind t = ref_cmatch RM.github_ops t.
  (* the callee: NewVersion computes a function [nv] of its text (Tie/Parse/Github.v:
     tie_parse_github_newversion gives it under the agreement hypotheses for the version patterns) *)
  Variable nv : bytes -> option G.Version.
  Hypothesis newversion_computes : forall e v, P.Ecosystem_NewVersion find findd e v = Done (nv v).

  Local Opaque P.Ecosystem_NewVersion.

  Definition conc (r : range) : G.VersionRange :=
    G.mk_VersionRange (r_orig r) (conc_cs nv G.mk_constraint (r_cs r)).

  Lemma tie_parse_github_parseConstraint : forall c e,
    no_space c = true ->
    P.parseConstraint cfind find findd c e = Done (model_pc nv G.mk_constraint RM.cfg c).
  Proof.
    intros c e Hc.
    change (P.parseConstraint cfind find findd c e)
      with (pc_body cfind (P.Ecosystem_NewVersion find findd e) G.mk_constraint c).
    apply pc_body_model; [reflexivity | reflexivity | exact Hc | exact (cfind_agrees c Hc) |].
    intros n. apply newversion_computes.
  Qed.

  Lemma tie_parse_github_parseConstraints : forall fuel s ,
    Z.of_nat (length s) + 1 < 2 ^ 63 -> (S (length s) < fuel)%nat ->
    P.parseConstraints cfind find findd fuel s  =
    Done (match fields s with
          | [] => None
          | _ => option_map (conc_cs nv G.mk_constraint) (parse_constraints G.Version nv RM.cfg (fields s))
          end).
  Proof.
    intros fuel s  Hfit Hf. unfold P.parseConstraints. cbv zeta.
    pose proof (fields_length_le s) as SL.
    pose proof (fields_aux_no_space [] s eq_refl) as NS. fold (fields s) in NS.
    rewrite Forall_forall in NS.
    destruct (fields s) as [|f0 fs] eqn:EF; [reflexivity|].
    change (Z.of_nat (length (f0 :: fs)) =? 0) with false. cbv iota.
    match goal with |- context [while fuel ?b (0, [])] =>
      change b with (range_body (R := option (list G.constraint)) (f0 :: fs)
             (fun k part cs =>
                bind (P.parseConstraint cfind find findd part G.mk_Ecosystem) (fun r =>
                  match r with
                  | None => Done (Ret None)
                  | Some c => Done (Next (wrap64 (k + 1), cs ++ [c]))
                  end)))
    end.
    rewrite (while_ext _ (range_body (R := option (list G.constraint)) (f0 :: fs)
               (fun k part cs =>
                  match plain_g nv G.mk_constraint RM.cfg part cs with
                  | inl r => Done (Ret r)
                  | inr cs' => Done (Next (wrap64 (k + 1), cs'))
                  end))).
    2:{ intros [k cs]. unfold range_body.
        destruct (Z.ltb_spec k (Z.of_nat (length (f0 :: fs)))) as [Lt|Ge]; [|reflexivity].
        destruct (Z.leb_spec 0 k) as [K0|K0].
        - destruct (idx_lt_Done (f0 :: fs) k) as (x & E & N); [lia|].
          rewrite E. cbn [bind]. unfold plain_g.
          apply nth_error_In in N. destruct (NS x N) as [_ Hx].
          rewrite (tie_parse_github_parseConstraint x G.mk_Ecosystem Hx). cbn [bind].
          destruct (model_pc _ _ _ _); reflexivity.
        - rewrite idx_out_of_range by (unfold len; lia). reflexivity. }
    rewrite (range_loop_result _ _ (plain_g nv G.mk_constraint RM.cfg)); [|reflexivity|lia|lia].
    rewrite (run_plain nv G.mk_constraint RM.cfg eq_refl). cbn [bind app].
    destruct (parse_constraints _ _ _ _) as [l|]; reflexivity.
  Qed.

  (* the generated NewVersionRange computes the model's parse_range, with NewVersion's function
     as the model's bound parser *)
  Theorem tie_parse_github_newversionrange : forall fuel e s,
    Z.of_nat (length s) + 1 < 2 ^ 63 -> (S (length s) < fuel)%nat ->
    P.Ecosystem_NewVersionRange cfind find findd fuel e s =
    Done (option_map conc (parse_range G.Version nv RM.cfg s)).
  Proof.
    intros fuel e s Hfit Hf. unfold P.Ecosystem_NewVersionRange, parse_range. cbv zeta.
    pose proof (trim_space_length_le s) as TL.
    destruct s as [|x0 s0]; [reflexivity|].
    change (beq (x0 :: s0) []) with false. cbv iota.
    set (s := x0 :: s0) in *. clearbody s.
    rewrite beq_nil_nonempty. destruct (trim_space s) as [|x t] eqn:E; [reflexivity|].
    cbn [nonempty negb]. rewrite <- E in TL |- *.
    rewrite tie_parse_github_parseConstraints by lia. cbn [bind].
    change (rc_split RM.cfg (trim_space s)) with (fields (trim_space s)).
    destruct (fields (trim_space s)) as [|f0 fs] eqn:EF; [reflexivity|].
    destruct (parse_constraints _ _ _ _) as [l|] eqn:PC; [|reflexivity].
    apply parse_constraints_length in PC.
    destruct l as [|c l]; [discriminate|]. reflexivity.
  Qed.
End Tie.
Print Assumptions tie_parse_github_newversionrange.

(* with NewVersion's own tie (Tie/Parse/Github.v): the bound parser of the model is the MODEL's
   version parser — no hypothesis about NewVersion is left *)
Module M := Verif.Eco.Github.Version.

Definition nv_model (v : bytes) : option G.Version :=
  option_map (V.conc v) (M.parse_core (trim_space v)).

Theorem tie_parse_github_newversionrange_model :
  forall (cfind find findd : bytes -> option (list bytes)),
  (forall t, no_space t = true -> cfind t = ref_cmatch RM.github_ops t) ->
  (forall t, find t = V.ref_match_semantic t) ->
  (forall t, findd t = V.ref_match_date t) ->
  forall fuel e s,
  Z.of_nat (length s) + 1 < 2 ^ 63 -> (S (length s) < fuel)%nat ->
  P.Ecosystem_NewVersionRange cfind find findd fuel e s =
  Done (option_map (conc nv_model) (parse_range G.Version nv_model RM.cfg s)).
Proof.
  intros cfind find findd Hc Hs Hd fuel e s Hfit Hf.
  apply tie_parse_github_newversionrange; try assumption.
  intros e' v. apply V.tie_parse_github_newversion; assumption.
Qed.
Print Assumptions tie_parse_github_newversionrange_model.
