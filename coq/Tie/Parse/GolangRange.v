(* Tie/Parse/GolangRange.v — the generated translation of golang's NewVersionRange
   (Gen/Parse/Golang.v: parseGoRange = a loop over strings.Fields(s) when the text contains a
   space, parseSingleGoConstraint = a loop over the six operators with the slice c[len(op):]
   guarded by strings.HasPrefix) never panics and terminates with fuel linear in the length of the
   input.  The range parser of golang does NOT call NewVersion (the bound is kept as text; it is
   parsed in Contains), so the theorem is closed: no hypothesis about NewVersion. *)
From Coq Require Import ZArith List Bool Lia.
From Verif.Base Require Import Bytes GoNum GoOps Imp ImpFacts ImpErr BytesFacts.
From Verif.Gen.Code Require Golang.
From Verif.Gen.Parse Require Golang.
From Verif.Eco Require Import RangeCore.
From Verif.Eco.Golang Require Range.
From Verif.Tie.Parse Require Import Common RangeCommon RangeTie RangeLazyTie.
Import ListNotations.
Local Open Scope Z_scope.

Module G := Verif.Gen.Code.Golang.
Module P := Verif.Gen.Parse.Golang.
Module RM := Verif.Eco.Golang.Range.

Section Range.
  Local Opaque trim_space beq fields has_prefix contains_sub.

  (* parseSingleGoConstraint: 6 operators, one iteration each *)
  Lemma parseSingleGoConstraint_golang_no_panic : forall fuel c,
    (6 < fuel)%nat -> finished (P.parseSingleGoConstraint fuel c).
  Proof.
    intros fuel c Hf. unfold P.parseSingleGoConstraint. cbv zeta.
    apply (ops_loop_finished [$">="; $"<="; $"!="; $">"; $"<"; $"="] (trim_space c)
             (fun op sl => Done (Ret (Some [G.mk_constraint op (trim_space sl)])))).
    - intros op _ _. eauto.
    - cbn. lia.
    - cbn [length]. lia.
    - intros [k|r]; np.
  Qed.

  (* parseGoRange: one iteration per field *)
  Lemma parseGoRange_golang_no_panic : forall fuel s,
    Z.of_nat (length s) + 1 < 2 ^ 63 -> (length s + 6 < fuel)%nat ->
    finished (P.parseGoRange fuel s).
  Proof.
    intros fuel s Hfit Hf. unfold P.parseGoRange. cbv zeta.
    pose proof (fields_length_le s) as SL.
    destruct (contains_sub _ s).
    - apply (range_loop_finished (fields s)
               (fun k part cs =>
                  bind (P.parseSingleGoConstraint fuel part) (fun r =>
                    match r with
                    | None => Done (Ret None)
                    | Some pcs => Done (Next (wrap64 (k + 1), cs ++ pcs))
                    end))).
      + intros k part cs _ _.
        destruct (parseSingleGoConstraint_golang_no_panic fuel part) as [r ->]; [lia|].
        cbn [bind]. destruct r; [reflexivity | exact I].
      + lia.
      + lia.
      + intros [[k cs]|r]; np.
    - apply finished_bind; [|intros; np].
      apply parseSingleGoConstraint_golang_no_panic. lia.
  Qed.

  (* C06 for golang's NewVersionRange: no panic, fuel length s + 7 is enough *)
  Theorem newversionrange_golang_no_panic : forall fuel e s,
    Z.of_nat (length s) + 1 < 2 ^ 63 -> (length s + 6 < fuel)%nat ->
    finished (P.Ecosystem_NewVersionRange fuel e s).
  Proof.
    intros fuel e s Hfit Hf. unfold P.Ecosystem_NewVersionRange. cbv zeta.
    pose proof (trim_space_length_le s) as TL.
    destruct (beq (trim_space s) []); [np|].
    apply finished_bind; [|intros; np].
    apply parseGoRange_golang_no_panic; lia.
  Qed.
End Range.
Print Assumptions newversionrange_golang_no_panic.

(* ---------- the tie to the model (Eco/Golang/Range.v = RangeCore with RM.cfg) ---------- *)

Section Tie.
  (* the model is parametric in the version type and parser (they matter in Contains only) *)
  Variable MV : Type.
  Variable vparse : bytes -> option MV.

  Local Opaque fields.

  (* the Go value of a parsed model range: operator and bound text of every constraint *)
  Definition conc (r : range) : G.VersionRange :=
    G.mk_VersionRange (map (mkc G.mk_constraint) (r_cs r)) (r_orig r).

  Lemma tie_parse_golang_parseSingleGoConstraint : forall fuel c,
    (6 < fuel)%nat ->
    P.parseSingleGoConstraint fuel c =
    Done (option_map (fun x => [x]) (lazy_pc G.mk_constraint RM.cfg c)).
  Proof.
    intros fuel c Hf. unfold P.parseSingleGoConstraint. cbv zeta.
    unfold lazy_pc, parse_constraint. change (rc_style RM.cfg) with HasPrefixAny. cbv iota zeta.
    match goal with |- context [while fuel ?b 0] =>
      change b with (ops_body [$">="; $"<="; $"!="; $">"; $"<"; $"="] (trim_space c)
             (fun op sl => Done (Ret (Some [G.mk_constraint op (trim_space sl)]))))
    end.
    rewrite (ops_loop_result _ _ _ (fun op sl => Some [G.mk_constraint op (trim_space sl)])).
    - cbn [bind]. change (rc_ops RM.cfg) with [$">="; $"<="; $"!="; $">"; $"<"; $"="].
      destruct (first_prefix _ _) as [[op rest]|]; reflexivity.
    - intros op. reflexivity.
    - cbn. lia.
    - cbn [length]. lia.
  Qed.

  Lemma tie_parse_golang_parseGoRange : forall fuel s,
    Z.of_nat (length s) + 1 < 2 ^ 63 -> (length s + 6 < fuel)%nat ->
    P.parseGoRange fuel s =
    Done (option_map (map (mkc G.mk_constraint))
            (parse_constraints MV vparse RM.cfg (rc_split RM.cfg s))).
  Proof.
    intros fuel s Hfit Hf. unfold P.parseGoRange. cbv zeta.
    pose proof (fields_length_le s) as SL.
    change (rc_split RM.cfg s) with (split_golang s). unfold split_golang.
    change ($" ") with [" "%char]. rewrite contains_sub_single.
    destruct (contains_c " "%char s).
    - match goal with |- context [while fuel ?b (0, [])] =>
        change b with (range_body (R := option (list G.constraint)) (fields s)
               (fun k part cs =>
                  bind (P.parseSingleGoConstraint fuel part) (fun r =>
                    match r with
                    | None => Done (Ret None)
                    | Some pcs => Done (Next (wrap64 (k + 1), cs ++ pcs))
                    end)))
      end.
      rewrite (range_loop_result _ _ (lazy_plain_g G.mk_constraint RM.cfg)); [| |lia|lia].
      + rewrite (run_lazy_plain MV vparse G.mk_constraint RM.cfg eq_refl). cbn [bind app].
        destruct (parse_constraints _ _ _ _) as [l|]; reflexivity.
      + intros k part cs. unfold lazy_plain_g.
        rewrite tie_parse_golang_parseSingleGoConstraint by lia. cbn [bind].
        destruct (lazy_pc _ _ _); reflexivity.
    - rewrite tie_parse_golang_parseSingleGoConstraint by lia. cbn [bind parse_constraints].
      unfold lazy_pc. destruct (parse_constraint RM.cfg s) as [c|]; reflexivity.
  Qed.

  (* the generated NewVersionRange computes the model's parse_range *)
  Theorem tie_parse_golang_newversionrange : forall fuel e s,
    Z.of_nat (length s) + 1 < 2 ^ 63 -> (length s + 6 < fuel)%nat ->
    P.Ecosystem_NewVersionRange fuel e s =
    Done (option_map conc (parse_range MV vparse RM.cfg s)).
  Proof.
    intros fuel e s Hfit Hf. unfold P.Ecosystem_NewVersionRange, parse_range. cbv zeta.
    pose proof (trim_space_length_le s) as TL.
    rewrite beq_nil_nonempty. destruct (trim_space s) as [|x t] eqn:E; [reflexivity|].
    cbn [nonempty negb]. rewrite <- E in TL |- *.
    rewrite tie_parse_golang_parseGoRange by lia. cbn [bind].
    destruct (parse_constraints _ _ _ _) as [[|c l]|]; reflexivity.
  Qed.
End Tie.
Print Assumptions tie_parse_golang_newversionrange.
