(* Tie/Parse/Hex.v — the generated translation of hex's NewVersion (Gen/Parse/Hex.v: two
   FindStringSubmatch oracles, parseSemanticVersion with matches[1..5] and a loop over the
   pre-release identifiers, parsePartialVersion with matches[1..2]) never panics and terminates
   with fuel linear in the length of the input. *)
From Coq Require Import ZArith List Bool Lia.
From Verif.Base Require Import Bytes GoNum GoOps Imp ImpFacts ImpErr BytesFacts.
From Verif.Gen.Code Require Hex.
From Verif.Gen.Parse Require Hex.
From Verif.Tie.Parse Require Import Common.
Import ListNotations.
Local Open Scope Z_scope.

Module G := Verif.Gen.Code.Hex.
Module P := Verif.Gen.Parse.Hex.

Local Opaque atoi trim_space beq split_c.

(* parsePartialVersion: matches[1], matches[2] under len(matches) = 3 *)
Lemma parsePartialVersion_no_panic : forall orig m,
  length m = S P.hexPartialVersionPattern_groups -> finished (P.parsePartialVersion orig m).
Proof.
  intros orig m L. unfold P.hexPartialVersionPattern_groups in L. shape_list L.
  unfold P.parsePartialVersion. np.
Qed.

(* parseSemanticVersion: matches[1..5] under len(matches) = 6 (the guard len(matches) > 5 of the
   source is then true); the loop over strings.Split(matches[4], ".") takes one iteration per
   identifier *)
Lemma parseSemanticVersion_no_panic : forall fuel orig m,
  length m = S P.hexVersionPattern_groups ->
  Forall (fun c : bytes => Z.of_nat (length c) + 1 < 2 ^ 63 /\ (S (length c) < fuel)%nat) m ->
  finished (P.parseSemanticVersion fuel orig m).
Proof.
  intros fuel orig m L B. unfold P.hexVersionPattern_groups in L. shape_list L.
  repeat match goal with H : Forall _ (_ :: _) |- _ => inversion H; clear H; subst end.
  unfold P.parseSemanticVersion. np.
  (* the one goal np leaves: pre-release present, the loop *)
  match goal with |- finished (bind (while _ ?b _) _) => set (body := b) end.
    match goal with |- context [split_c (chr 46) ?x] =>
      pose proof (split_c_length_le (chr 46) x) as SL; set (xs := split_c (chr 46) x) in * end.
    apply (finished_while_bind fuel body 0 _ (fun k => 0 <= k <= Z.of_nat (length xs))
             (fun k => Z.to_nat (Z.of_nat (length xs) - k))).
    + intros k Hk. unfold step_ok, body.
      destruct (Z.ltb_spec k (Z.of_nat (length xs))) as [Lt|Ge]; [|exact I].
      rewrite (idx_in_range xs k []) by (unfold len; lia). cbn [bind].
      destruct (beq (nth _ _ _) []); [exact I|].
      cbv zeta. rewrite (wrap64_succ_lt k (Z.of_nat (length xs))) by lia. split; lia.
    + lia.
    + lia.
    + intros [k|r]; np.
Qed.

Section NewVersion.
  Variable find : bytes -> option (list bytes).      (* hexVersionPattern.FindStringSubmatch *)
  Variable findp : bytes -> option (list bytes).     (* hexPartialVersionPattern.FindStringSubmatch *)
  Hypothesis find_shape : submatch_shape find P.hexVersionPattern_groups.
  Hypothesis findp_shape : submatch_shape findp P.hexPartialVersionPattern_groups.
  Hypothesis find_within : submatch_within find.

  (* C06 for hex's NewVersion: no panic, and fuel length s + 2 is enough *)
  Theorem newversion_hex_no_panic : forall e s fuel,
    Z.of_nat (length s) + 1 < 2 ^ 63 -> (S (length s) < fuel)%nat ->
    finished (P.Ecosystem_NewVersion find findp fuel e s).
  Proof.
    intros e s fuel F Hf. unfold P.Ecosystem_NewVersion.
    pose proof (trim_space_length_le s) as TL.
    destruct (beq s []); [np|]. cbv zeta.
    destruct (beq (trim_space s) []); [np|].
    destruct (find (trim_space s)) as [m|] eqn:E.
    - apply finished_bind; [|intros; np].
      apply parseSemanticVersion_no_panic; [exact (find_shape _ _ E)|].
      pose proof (find_within _ _ E) as W. eapply Forall_impl; [|exact W].
      cbv beta. intros c Hc. split; lia.
    - cbv zeta. destruct (findp (trim_space s)) as [m|] eqn:E2; [|np].
      apply finished_bind; [|intros; np].
      apply parsePartialVersion_no_panic. exact (findp_shape _ _ E2).
  Qed.
End NewVersion.
Print Assumptions newversion_hex_no_panic.
