(* Tie/Parse/HexRange.v — the generated translation of hex's NewVersionRange
   (Gen/Parse/Hex.v: parseConstraints = a loop over strings.Fields(s) that skips the word "and"
   and expands `~>` into two constraints, parseConstraint = constraintPattern.FindStringSubmatch
   with matches[1], matches[2], then NewVersion on the second capture) never panics and
   terminates with fuel linear in the length of the input.  Ecosystem_NewVersion is
   newversion_hex_no_panic (Tie/Parse/Hex.v): the theorem is closed.  NewVersion's loop runs over
   a capture of the version pattern applied to a capture of the constraint pattern, hence
   [submatch_within] for both. *)
From Coq Require Import ZArith List Bool Lia.
From Verif.Base Require Import Bytes GoNum GoOps Imp ImpFacts ImpErr BytesFacts.
From Verif.Gen.Code Require Hex.
From Verif.Gen.Parse Require Hex.
From Verif.Eco Require Import RangeCore.
From Verif.Eco.Hex Require Version Range.
From Verif.Tie.Parse Require Import Common RangeCommon RangeTie RangeOptTie.
From Verif.Tie.Parse Require Hex.
Import ListNotations.
Local Open Scope Z_scope.

Module G := Verif.Gen.Code.Hex.
Module P := Verif.Gen.Parse.Hex.
Module V := Verif.Tie.Parse.Hex.
Module M := Verif.Eco.Hex.Version.
Module RM := Verif.Eco.Hex.Range.

Section Range.
  Variable cfind : bytes -> option (list bytes).   (* constraintPattern.FindStringSubmatch *)
  Variable find : bytes -> option (list bytes).    (* hexVersionPattern.FindStringSubmatch *)
  Variable findp : bytes -> option (list bytes).   (* hexPartialVersionPattern.FindStringSubmatch *)
  Hypothesis cfind_shape : submatch_shape cfind P.constraintPattern_groups.
  Hypothesis find_shape : submatch_shape find P.hexVersionPattern_groups.
  Hypothesis findp_shape : submatch_shape findp P.hexPartialVersionPattern_groups.
  Hypothesis cfind_within : submatch_within cfind.
  Hypothesis find_within : submatch_within find.

  Local Opaque trim_space beq fields to_lower P.Ecosystem_NewVersion P.expandPessimisticConstraint.

  (* parseConstraint: matches[1], matches[2] under len(matches) = 3; NewVersion runs over the
     trimmed second capture, which is no longer than the text *)
  Lemma parseConstraint_hex_no_panic : forall fuel c e,
    Z.of_nat (length c) + 1 < 2 ^ 63 -> (S (length c) < fuel)%nat ->
    finished (P.parseConstraint cfind find findp fuel c e).
  Proof.
    intros fuel c e Hfit Hf. unfold P.parseConstraint.
    destruct (cfind c) as [m|] eqn:F; [|np].
    pose proof (cfind_shape _ _ F) as L. unfold P.constraintPattern_groups in L.
    pose proof (cfind_within _ _ F) as W.
    shape_list L.
    repeat (erewrite idx_known by reflexivity; cbn [bind]). cbv zeta.
    inversion W as [|? ? _ W1]; subst. inversion W1 as [|? ? _ W2]; subst.
    inversion W2 as [|? ? L2 _]; subst.
    match goal with |- context [trim_space ?x] => pose proof (trim_space_length_le x) as TL end.
    apply finished_bind; [|intros; np].
    apply V.newversion_hex_no_panic; try assumption; lia.
  Qed.

  Lemma parseConstraints_hex_no_panic : forall fuel s e,
    Z.of_nat (length s) + 1 < 2 ^ 63 -> (S (length s) < fuel)%nat ->
    finished (P.parseConstraints cfind find findp fuel s e).
  Proof.
    intros fuel s e Hfit Hf. unfold P.parseConstraints. cbv zeta.
    pose proof (fields_length_le s) as SL.
    destruct (Z.of_nat (length (fields s)) =? 0); [np|].
    apply (range_loop_finished (fields s)
             (fun k part cs =>
                if beq (to_lower part) $"and" then Done (Next (wrap64 (k + 1), cs))
                else
                bind (P.parseConstraint cfind find findp fuel part e) (fun r =>
                  match r with
                  | None => Done (Ret None)
                  | Some c =>
                      Done (Next (wrap64 (k + 1),
                                  if beq (G.constraint_operator c) $"~>"
                                  then cs ++ P.expandPessimisticConstraint c
                                  else cs ++ [c]))
                  end))).
    - intros k part cs _ Hin. apply fields_In_length in Hin.
      destruct (beq (to_lower part) _); [reflexivity|].
      destruct (parseConstraint_hex_no_panic fuel part e) as [r ->]; [lia|lia|].
      cbn [bind]. destruct r; [reflexivity | exact I].
    - lia.
    - lia.
    - intros [[k cs]|r]; np.
  Qed.

  (* C06 for hex's NewVersionRange: no panic, and fuel length s + 2 is enough *)
  Theorem newversionrange_hex_no_panic : forall fuel e s,
    Z.of_nat (length s) + 1 < 2 ^ 63 -> (S (length s) < fuel)%nat ->
    finished (P.Ecosystem_NewVersionRange cfind find findp fuel e s).
  Proof.
    intros fuel e s Hfit Hf. unfold P.Ecosystem_NewVersionRange. cbv zeta.
    pose proof (trim_space_length_le s) as TL.
    destruct (beq s []); [np|].
    destruct (beq (trim_space s) []); [np|].
    apply finished_bind; [|intros; np].
    apply parseConstraints_hex_no_panic; lia.
  Qed.
End Range.
Print Assumptions newversionrange_hex_no_panic.

(* ---------- the tie to the model (Eco/Hex/Range.v, a custom model: `~>` is expanded) ---------- *)

(* RangeCore's reading of the constraint pattern ^(>=|<=|>|<|=|~>)?(.+)$ (a vehicle for
   RangeOptTie.pc_body_model; only rc_ops and rc_style matter) *)
Definition cfgH : range_cfg := {|
  rc_split := split_fields; rc_empty_ok := true; rc_ops := RM.hex_ops; rc_style := RegexpOpt;
  rc_sem := sem5; rc_eager := true; rc_trimmed_orig := false |}.

Section Tie.
  Variable cfind : bytes -> option (list bytes).   (* constraintPattern.FindStringSubmatch *)
  Variable find : bytes -> option (list bytes).    (* hexVersionPattern.FindStringSubmatch *)
  Variable findp : bytes -> option (list bytes).   (* hexPartialVersionPattern.FindStringSubmatch *)
  (* ORACLE AGREEMENT for the constraint pattern, on the texts it is applied to *)
  Hypothesis cfind_agrees : forall t, no_space t = true -> cfind t = ref_cmatch RM.hex_ops t.
  (* the callee: with enough fuel NewVersion computes a function [nv] of its text, and what
     expandPessimisticConstraint reads of the result (original, major, minor) is what the model's
     version parser computes *)
  Variable nv : bytes -> option G.Version.
  Hypothesis newversion_computes : forall fuel e v,
    Z.of_nat (length v) + 1 < 2 ^ 63 -> (S (length v) < fuel)%nat ->
    P.Ecosystem_NewVersion find findp fuel e v = Done (nv v).
  Hypothesis nv_core : forall t v, nv t = Some v ->
    exists c, M.parse_core (trim_space t) = Some c /\
              G.Version_major v = M.major c /\ G.Version_minor v = M.minor c /\
              G.Version_original v = trim_space t.

  Local Opaque P.Ecosystem_NewVersion to_lower.

  (* the model's validity oracle *)
  Definition vok (t : bytes) : bool := match nv t with Some _ => true | None => false end.

  (* the Go value of a model bound / constraint list / range *)
  Definition conc_b (b : RM.bound) : option G.Version :=
    match b with
    | RM.BText t => nv t
    | RM.BSynth ma mi => Some (G.mk_Version (RM.synth_text ma mi) ma mi 0 [] [])
    end.
  Definition conc_cs (cs : list RM.constraint) : list G.constraint :=
    flat_map (fun c => match conc_b (snd c) with
                       | Some v => [G.mk_constraint (fst c) v]
                       | None => []
                       end) cs.
  Definition conc (r : RM.range) : G.VersionRange :=
    G.mk_VersionRange (RM.r_orig r) (conc_cs (RM.r_cs r)).

  (* what parseConstraints appends for one parsed constraint *)
  Definition expand1 (c : G.constraint) : list G.constraint :=
    if beq (G.constraint_operator c) $"~>" then P.expandPessimisticConstraint c else [c].

  Lemma tie_parse_hex_parseConstraint : forall fuel c e,
    no_space c = true -> Z.of_nat (length c) + 1 < 2 ^ 63 -> (S (length c) < fuel)%nat ->
    P.parseConstraint cfind find findp fuel c e = Done (model_pc nv G.mk_constraint cfgH c).
  Proof.
    intros fuel c e Hc Hfit Hf.
    change (P.parseConstraint cfind find findp fuel c e)
      with (pc_body cfind (P.Ecosystem_NewVersion find findp fuel e) G.mk_constraint c).
    apply pc_body_model; [reflexivity | reflexivity | exact Hc | exact (cfind_agrees c Hc) |].
    intros n.
    pose proof (trim_space_length_le (skipn n c)) as TL.
    pose proof (skipn_length_le n c) as SL.
    apply newversion_computes; lia.
  Qed.

  (* RangeCore's constraint followed by the expansion = the model's parse_constraint *)
  Lemma expand_model_pc : forall c,
    no_space c = true ->
    option_map expand1 (model_pc nv G.mk_constraint cfgH c) =
    option_map conc_cs (RM.parse_constraint vok c).
  Proof.
    intros c Hc. unfold model_pc, parse_constraint, RM.parse_constraint.
    change (rc_style cfgH) with RegexpOpt. change (rc_ops cfgH) with RM.hex_ops. cbv iota zeta.
    rewrite (trim_space_no_space c Hc).
    destruct c as [|x c]; [reflexivity|].
    assert (Main : forall op rest,
      option_map expand1 (conc1 nv G.mk_constraint (op, trim_space rest)) =
      option_map conc_cs
        (let t := trim_space rest in
         if vok t then
           if beq op $"~>" then
             match M.parse_core (trim_space t) with
             | Some c0 => let '(ma, mi) := RM.pess_upper (trim_space t) c0 in
                          Some [($">=", RM.BText t); ($"<", RM.BSynth ma mi)]
             | None => None
             end
           else Some [(op, RM.BText t)]
         else None)).
    { intros op rest. cbv zeta. unfold conc1, vok. cbn [fst snd].
      set (t := trim_space rest).
      destruct (nv t) as [v|] eqn:Ev; [|reflexivity].
      cbn [option_map]. unfold expand1. cbn [G.constraint_operator].
      destruct (beq op $"~>").
      - destruct (nv_core t v Ev) as (c0 & Ec & Ema & Emi & Eo). rewrite Ec.
        unfold P.expandPessimisticConstraint, RM.pess_upper. cbv zeta.
        cbn [G.constraint_version]. rewrite Eo, Ema, Emi.
        assert (Ecnt : (Z.of_nat (count_c (chr 46) (trim_space t)) =? 1) =
                       (count_c "."%char (trim_space t) =? 1)%nat).
        { destruct (Nat.eqb_spec (count_c "."%char (trim_space t)) 1) as [E1|E1].
          - change (chr 46) with "."%char. rewrite E1. reflexivity.
          - apply Z.eqb_neq. change (chr 46) with "."%char. lia. }
        rewrite Ecnt.
        destruct (count_c "."%char (trim_space t) =? 1)%nat;
          [destruct (M.minor c0 =? 0)|];
          cbn [option_map conc_cs flat_map conc_b fst snd app]; rewrite Ev; reflexivity.
      - cbn [option_map conc_cs flat_map conc_b fst snd app]. rewrite Ev. reflexivity. }
    destruct (first_prefix_ne RM.hex_ops (x :: c)) as [[op rest]|].
    - apply Main.
    - exact (Main $"=" (x :: c)).
  Qed.

  (* the body of the loop over the parts *)
  Definition hex_g (part : bytes) (cs : list G.constraint) : option (list G.constraint) + list G.constraint :=
    if beq (to_lower part) $"and" then inr cs
    else match model_pc nv G.mk_constraint cfgH part with
         | None => inl None
         | Some c => inr (cs ++ expand1 c)
         end.

  Lemma conc_cs_app a b : conc_cs (a ++ b) = conc_cs a ++ conc_cs b.
  Proof. apply flat_map_app. Qed.

  Lemma run_hex : forall parts acc,
    Forall (fun f => no_space f = true) parts ->
    run hex_g parts acc =
    match RM.parse_constraints vok parts with
    | None => inl None
    | Some l => inr (acc ++ conc_cs l)
    end.
  Proof.
    induction parts as [|part r IH]; intros acc NS; cbn [run RM.parse_constraints].
    - cbn. rewrite app_nil_r. reflexivity.
    - inversion NS as [|? ? Hp Hr]; subst. unfold hex_g at 1.
      destruct (beq (to_lower part) $"and"); [apply IH; exact Hr|].
      pose proof (expand_model_pc part Hp) as EM.
      destruct (model_pc nv G.mk_constraint cfgH part) as [c|];
        destruct (RM.parse_constraint vok part) as [l1|]; cbn [option_map] in EM; try discriminate;
        [|reflexivity].
      injection EM as EM. rewrite IH by exact Hr.
      destruct (RM.parse_constraints vok r) as [l2|]; [|reflexivity].
      rewrite conc_cs_app, EM, app_assoc. reflexivity.
  Qed.

  Lemma tie_parse_hex_parseConstraints : forall fuel s e,
    Z.of_nat (length s) + 1 < 2 ^ 63 -> (S (length s) < fuel)%nat ->
    P.parseConstraints cfind find findp fuel s e =
    Done (match fields s with
          | [] => None
          | _ => option_map conc_cs (RM.parse_constraints vok (fields s))
          end).
  Proof.
    intros fuel s e Hfit Hf. unfold P.parseConstraints. cbv zeta.
    pose proof (fields_length_le s) as SL.
    pose proof (fields_aux_no_space [] s eq_refl) as NS. fold (fields s) in NS.
    pose proof (fields_In_length s) as LS.
    destruct (fields s) as [|f0 fs] eqn:EF; [reflexivity|].
    change (Z.of_nat (length (f0 :: fs)) =? 0) with false. cbv iota.
    match goal with |- context [while fuel ?b (0, [])] =>
      change b with (range_body (R := option (list G.constraint)) (f0 :: fs)
             (fun k part cs =>
                if beq (to_lower part) $"and" then Done (Next (wrap64 (k + 1), cs))
                else
                bind (P.parseConstraint cfind find findp fuel part e) (fun r =>
                  match r with
                  | None => Done (Ret None)
                  | Some c =>
                      Done (Next (wrap64 (k + 1),
                                  if beq (G.constraint_operator c) $"~>"
                                  then cs ++ P.expandPessimisticConstraint c
                                  else cs ++ [c]))
                  end)))
    end.
    rewrite (while_ext _ (range_body (R := option (list G.constraint)) (f0 :: fs)
               (fun k part cs =>
                  match hex_g part cs with
                  | inl r => Done (Ret r)
                  | inr cs' => Done (Next (wrap64 (k + 1), cs'))
                  end))).
    2:{ intros [k cs]. unfold range_body.
        destruct (Z.ltb_spec k (Z.of_nat (length (f0 :: fs)))) as [Lt|Ge]; [|reflexivity].
        destruct (Z.leb_spec 0 k) as [K0|K0].
        - destruct (idx_lt_Done (f0 :: fs) k) as (x & E & N); [lia|].
          rewrite E. cbn [bind]. unfold hex_g.
          destruct (beq (to_lower x) _); [reflexivity|].
          apply nth_error_In in N. rewrite Forall_forall in NS. destruct (NS x N) as [_ Hx].
          pose proof (LS x N) as Lx.
          rewrite (tie_parse_hex_parseConstraint fuel x e Hx) by lia.
          cbn [bind]. destruct (model_pc _ _ _ _) as [c0|]; [|reflexivity].
          unfold expand1. destruct (beq (G.constraint_operator c0) _); reflexivity.
        - rewrite idx_out_of_range by (unfold len; lia). reflexivity. }
    rewrite (range_loop_result _ _ hex_g); [|reflexivity|lia|lia].
    rewrite run_hex by (eapply Forall_impl; [|exact NS]; cbv beta; intros a [_ Ha]; exact Ha).
    cbn [bind app].
    destruct (RM.parse_constraints vok (f0 :: fs)) as [l|]; reflexivity.
  Qed.

  (* the generated NewVersionRange computes the model's parse_range, with NewVersion's
     acceptance as the model's validity oracle *)
  Theorem tie_parse_hex_newversionrange : forall fuel e s,
    Z.of_nat (length s) + 1 < 2 ^ 63 -> (S (length s) < fuel)%nat ->
    P.Ecosystem_NewVersionRange cfind find findp fuel e s =
    Done (option_map conc (RM.parse_range vok s)).
  Proof.
    intros fuel e s Hfit Hf. unfold P.Ecosystem_NewVersionRange, RM.parse_range. cbv zeta.
    pose proof (trim_space_length_le s) as TL.
    destruct s as [|x0 s0]; [reflexivity|].
    change (beq (x0 :: s0) []) with false. cbv iota.
    set (s := x0 :: s0) in *. clearbody s.
    rewrite beq_nil_nonempty. destruct (trim_space s) as [|x t] eqn:E; [reflexivity|].
    cbn [nonempty negb]. pose proof (fields_trim_space_nonempty _ _ _ E) as FN.
    rewrite <- E in TL |- *.
    rewrite tie_parse_hex_parseConstraints by lia. cbn [bind].
    destruct (fields (trim_space s)) as [|f0 fs] eqn:EF; [congruence|].
    destruct (RM.parse_constraints vok (f0 :: fs)) as [l|]; reflexivity.
  Qed.
End Tie.
Print Assumptions tie_parse_hex_newversionrange.
