(* Tie/Parse/ListCursor.v — the loop shape `for _, x := range xs { .. }` of the generated parsers
   (Gen/Parse/<Eco>.v) when the loop state is the cursor alone:

     while fuel (fun k => if k <? len xs then x <- idx xs k ;; f k x else Done (Break k)) 0

   finishes with fuel above the length of xs when every iteration, given the element under the
   cursor, finishes and either leaves the loop or moves the cursor to wrap64 (k + 1).
   [cursor_forall] gives the exact result of a validating loop (every element accepted, or the
   first rejection returns); the last section has the byte-string facts the ties need (cut,
   cut_last_c, the two slices around a separator).  Used by Tie/Parse/{Debian,Rpm,Semver,Conan}.v. *)
From Coq Require Import ZArith List Bool Lia.
From Verif.Base Require Import Bytes GoNum Imp ImpFacts ImpErr BytesFacts.
From Verif.Tie.Parse Require Import Common.
Import ListNotations.
Local Open Scope Z_scope.

(* what one iteration at cursor i may do *)
Definition iter_ok {R : Type} (i : Z) (r : res (step Z R)) : Prop :=
  match r with
  | Done (Next j) => j = wrap64 (i + 1)
  | Done (Break _) => True
  | Done (Ret _) => True
  | Panic => False
  | OutOfFuel => False
  end.

Lemma iter_ok_Next {R} i : @iter_ok R i (Done (Next (wrap64 (i + 1)))).
Proof. reflexivity. Qed.
Lemma iter_ok_Ret {R} i (r : R) : @iter_ok R i (Done (Ret r)).
Proof. exact I. Qed.
Lemma iter_ok_Break {R} i j : @iter_ok R i (Done (Break j)).
Proof. exact I. Qed.

Lemma finished_cursor_bind {A R B : Type} (fuel : nat) (xs : list A)
      (f : Z -> A -> res (step Z R)) (k : exit Z R -> res B) :
  Z.of_nat (length xs) < 2 ^ 63 ->
  (length xs < fuel)%nat ->
  (forall i x, 0 <= i < Z.of_nat (length xs) -> nth_error xs (Z.to_nat i) = Some x -> iter_ok i (f i x)) ->
  (forall x, finished (k x)) ->
  finished (bind (while fuel (fun i => if Z.ltb i (Z.of_nat (length xs))
                                       then bind (idx xs i) (f i)
                                       else Done (Break i)) 0) k).
Proof.
  intros F Hf Hb Hk.
  apply (finished_while_bind fuel _ 0 _ (fun i => 0 <= i <= Z.of_nat (length xs))
           (fun i => Z.to_nat (Z.of_nat (length xs) - i))).
  - intros i Hi. unfold step_ok.
    destruct (Z.ltb_spec i (Z.of_nat (length xs))) as [Lt|Ge]; [|exact I].
    destruct (idx_lt_Done xs i) as (x & E & N); [lia|]. rewrite E. cbn [bind].
    specialize (Hb i x (conj (proj1 Hi) Lt) N). unfold iter_ok in Hb.
    destruct (f i x) as [[j|j|r]| |]; try exact I; try contradiction.
    subst j. rewrite (wrap64_succ_lt i (Z.of_nat (length xs))) by lia. split; lia.
  - lia.
  - lia.
  - exact Hk.
Qed.

(* a non-empty string has a byte 0 *)
Lemma idx0_cons {A} (c : A) (r : list A) : idx (c :: r) 0 = Done c.
Proof. reflexivity. Qed.

Lemma idx0_length {A} (u : list A) : 0 < Z.of_nat (length u) -> exists c, idx u 0 = Done c.
Proof. destruct u as [|c r]; cbn [length]; [lia|]. intros _. exists c. reflexivity. Qed.

(* ---------- the exact result of a validating loop ---------- *)

(* every iteration either accepts the element under the cursor and moves on, or returns r0:
   the loop falls through (with the cursor at the end) iff every element is accepted *)
Lemma cursor_forall_from {A R : Type} (xs : list A) (f : Z -> A -> res (step Z R))
      (test : A -> bool) (r0 : R) :
  Z.of_nat (length xs) < 2 ^ 63 ->
  (forall i x, 0 <= i < Z.of_nat (length xs) -> nth_error xs (Z.to_nat i) = Some x ->
     f i x = if test x then Done (Next (wrap64 (i + 1))) else Done (Ret r0)) ->
  forall rest fuel k, (k <= length xs)%nat -> skipn k xs = rest -> (length rest < fuel)%nat ->
  while fuel (fun i => if Z.ltb i (Z.of_nat (length xs)) then bind (idx xs i) (f i) else Done (Break i))
        (Z.of_nat k)
  = Done (if forallb test rest then Fell (Z.of_nat (length xs)) else Returned r0).
Proof.
  intros F Hf. induction rest as [|x rest IH]; intros fuel k Kle E L.
  - destruct fuel as [|fuel]; [cbn in L; lia|]. cbn [while forallb].
    apply skipn_nil_len in E.
    destruct (Z.ltb_spec (Z.of_nat k) (Z.of_nat (length xs))) as [Lt|Ge]; [lia|].
    assert (K : k = length xs) by lia.
    subst k. reflexivity.
  - destruct fuel as [|fuel]; [cbn in L; lia|]. cbn [while forallb].
    pose proof (skipn_cons_len _ _ _ _ E) as Lk.
    destruct (Z.ltb_spec (Z.of_nat k) (Z.of_nat (length xs))) as [Lt|Ge]; [|lia].
    rewrite (idx_skipn xs (Z.of_nat k) x rest) by (try lia; rewrite Nat2Z.id; exact E).
    cbn [bind].
    rewrite (Hf (Z.of_nat k) x) by (try lia; rewrite Nat2Z.id;
      rewrite <- (firstn_skipn k xs) at 1; rewrite nth_error_app2 by (rewrite firstn_length; lia);
      rewrite firstn_length, Nat.min_l by lia; rewrite Nat.sub_diag, E; reflexivity).
    destruct (test x); cbn [andb]; [|reflexivity].
    rewrite (wrap64_succ_lt (Z.of_nat k) (Z.of_nat (length xs))) by lia.
    replace (Z.of_nat k + 1) with (Z.of_nat (S k)) by lia.
    apply IH; [lia | exact (skipn_cons_next _ _ _ _ E) | cbn [length] in L; lia].
Qed.

Lemma cursor_forall {A R : Type} (fuel : nat) (xs : list A) (f : Z -> A -> res (step Z R))
      (test : A -> bool) (r0 : R) :
  Z.of_nat (length xs) < 2 ^ 63 ->
  (length xs < fuel)%nat ->
  (forall i x, 0 <= i < Z.of_nat (length xs) -> nth_error xs (Z.to_nat i) = Some x ->
     f i x = if test x then Done (Next (wrap64 (i + 1))) else Done (Ret r0)) ->
  while fuel (fun i => if Z.ltb i (Z.of_nat (length xs)) then bind (idx xs i) (f i) else Done (Break i)) 0
  = Done (if forallb test xs then Fell (Z.of_nat (length xs)) else Returned r0).
Proof.
  intros F L Hf. apply (cursor_forall_from xs f test r0 F Hf xs fuel 0%nat); [lia | reflexivity | exact L].
Qed.

(* ---------- byte-string facts used by the ties ---------- *)

Lemma beq_cons_nil c (r : bytes) : beq (c :: r) [] = false.
Proof. destruct (beq (c :: r) []) eqn:E; [apply beq_eq in E; discriminate | reflexivity]. Qed.

Lemma beq_nil_nil : beq [] [] = true.
Proof. apply beq_refl. Qed.

Lemma cut_length sep (s a b : bytes) : cut sep s = Some (a, b) -> (length a + length b <= length s)%nat.
Proof.
  revert a b. induction s as [|c s IH]; intros a b; cbn [cut].
  - destruct (has_prefix sep []); [|discriminate].
    intros X; injection X as <- <-. rewrite skipn_length. cbn [length]. lia.
  - destruct (has_prefix sep (c :: s)).
    + intros X; injection X as <- <-. rewrite skipn_length. cbn [length]. lia.
    + destruct (cut sep s) as [[a' b']|]; [|discriminate].
      intros X; injection X as <- <-. specialize (IH _ _ eq_refl). cbn [length]. lia.
Qed.

Lemma cut_last_c_length c (s a b : bytes) :
  cut_last_c c s = Some (a, b) -> (length a + length b <= length s)%nat.
Proof.
  unfold cut_last_c. destruct (cut [c] (rev s)) as [[x y]|] eqn:E; [|discriminate].
  intros X; injection X as <- <-. apply cut_length in E. rewrite !rev_length in *. lia.
Qed.

Lemma zeqb_code (c : ascii) (n : N) : (byte_z c =? Z.of_N n) = (code c =? n)%N.
Proof.
  unfold byte_z. destruct (N.eqb_spec (code c) n) as [->|Ne]; [apply Z.eqb_refl|].
  apply Z.eqb_neq. intros X. apply N2Z.inj in X. contradiction.
Qed.


Lemma has_prefix_split p (s : bytes) : has_prefix p s = true -> s = p ++ skipn (length p) s.
Proof.
  revert s. induction p as [|x p IH]; intros s H; [reflexivity|].
  destruct s as [|y s]; [discriminate|]. cbn [has_prefix] in H. apply andb_prop in H as [H1 H2].
  apply ceqb_eq in H1. subst y. cbn [length skipn app]. f_equal. apply IH. exact H2.
Qed.

Lemma cut_app sep (s a b : bytes) : cut sep s = Some (a, b) -> s = a ++ sep ++ b.
Proof.
  revert a b. induction s as [|c s IH]; intros a b; cbn [cut].
  - destruct (has_prefix sep []) eqn:E; [|discriminate].
    intros X; injection X as <- <-. exact (has_prefix_split _ _ E).
  - destruct (has_prefix sep (c :: s)) eqn:E.
    + intros X; injection X as <- <-. exact (has_prefix_split _ _ E).
    + destruct (cut sep s) as [[a' b']|]; [|discriminate].
      intros X; injection X as <- <-. rewrite (IH _ _ eq_refl) at 1. reflexivity.
Qed.

Lemma cut_last_c_app c (s a b : bytes) : cut_last_c c s = Some (a, b) -> s = a ++ c :: b.
Proof.
  unfold cut_last_c. destruct (cut [c] (rev s)) as [[x y]|] eqn:E; [|discriminate].
  intros X; injection X as <- <-. apply cut_app in E.
  rewrite <- (rev_involutive s), E. rewrite !rev_app_distr. cbn [rev app].
  rewrite <- app_assoc. reflexivity.
Qed.

(* the two slices around a separator *)
Lemma slice_to_app {A} (a b : list A) : slice_to (a ++ b) (Z.of_nat (length a)) = Done a.
Proof.
  rewrite slice_to_in_range by (unfold len; rewrite app_length; lia).
  rewrite Nat2Z.id, firstn_app, firstn_all, Nat.sub_diag. cbn [firstn]. rewrite app_nil_r. reflexivity.
Qed.

Lemma slice_from_app {A} (a b : list A) : slice_from (a ++ b) (Z.of_nat (length a)) = Done b.
Proof.
  rewrite slice_from_Done by (rewrite app_length; lia).
  rewrite Nat2Z.id, skipn_app, skipn_all, Nat.sub_diag. reflexivity.
Qed.
