(* Tie/Parse/Mattermost.v — the generated translation of mattermost's NewVersion
   (Gen/Parse/Mattermost.v: FindStringSubmatch oracle, parseSemanticVersion with matches[1..6])
   never panics.  (Third pilot instead of cran: cran's NewVersion uses make, element assignment
   and math/big, which are outside the fragment; see tools/gen/LOOPS.md.) *)
From Coq Require Import ZArith List Bool Lia.
From Verif.Base Require Import Bytes GoNum GoOps Imp ImpFacts ImpErr.
From Verif.Gen.Code Require Mattermost.
From Verif.Gen.Parse Require Mattermost.
From Verif.Tie.Parse Require Import Common.
Import ListNotations.
Local Open Scope Z_scope.

Module P := Verif.Gen.Parse.Mattermost.

Local Opaque atoi trim_space to_lower beq.

Lemma parseSemanticVersion_no_panic : forall orig m,
  length m = S P.mattermostVersionPattern_groups -> finished (P.parseSemanticVersion orig m).
Proof.
  intros orig m L. unfold P.mattermostVersionPattern_groups in L. shape_list L.
  unfold P.parseSemanticVersion. np.
Qed.

Section NewVersion.
  Variable find : bytes -> option (list bytes).   (* mattermostVersionPattern.FindStringSubmatch *)
  Hypothesis find_shape : submatch_shape find P.mattermostVersionPattern_groups.

  Theorem newversion_mattermost_no_panic : forall e s, finished (P.Ecosystem_NewVersion find e s).
  Proof.
    intros e s. unfold P.Ecosystem_NewVersion.
    destruct (beq s []); [np|]. cbv zeta.
    destruct (beq (trim_space s) []); [np|].
    destruct (find (trim_space s)) as [m|] eqn:E; [|np].
    apply finished_bind; [|intros; np].
    apply parseSemanticVersion_no_panic. exact (find_shape _ _ E).
  Qed.
End NewVersion.
Print Assumptions newversion_mattermost_no_panic.
