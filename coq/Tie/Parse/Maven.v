(* Tie/Parse/Maven.v — the generated translation of maven's NewVersion (Gen/Parse/Maven.v:
   isValidMavenVersion = a loop over the runes of the trimmed text looking for a digit, then a
   loop over the nine known qualifiers; parseVersionString is outside the fragment: a Section
   variable, called once, no index on its result) never panics and terminates with fuel linear in
   the length of the input.  unicode.IsDigit and parseVersionString are oracles about which
   NOTHING is assumed there.  Second part: on ASCII input, and when unicode.IsDigit agrees with
   is_digit on ASCII bytes, isValidMavenVersion is the model's [valid] and NewVersion accepts
   exactly the texts the model's parse_core accepts (the elements are whatever the oracle
   parseVersionString returns on the trimmed text). *)
From Coq Require Import ZArith List Ascii Bool Lia.
From Verif.Base Require Import Bytes GoNum GoOps Imp ImpFacts ImpErr BytesFacts.
From Verif.Eco.Maven Require Version.
From Verif.Gen.Code Require Maven.
From Verif.Gen.Parse Require Maven.
From Verif.Tie.Loops Require Import Common.
From Verif.Tie.Parse Require Import Common Scanners.
Import ListNotations.
Local Open Scope Z_scope.

Module G := Verif.Gen.Code.Maven.
Module P := Verif.Gen.Parse.Maven.
Module M := Verif.Eco.Maven.Version.

Local Opaque trim_space beq wrap64 to_lower contains_sub.

Section NoPanic.
  Variable isdigit : Z -> bool.                          (* unicode.IsDigit: any function *)
  Variable parseVersionString : bytes -> list G.element. (* outside the fragment: any function *)

  (* isValidMavenVersion: the first loop takes one iteration per byte, the second at most nine *)
  Lemma isValidMavenVersion_no_panic : forall fuel s,
    fits s -> (length s < fuel)%nat -> (9 < fuel)%nat ->
    finished (P.isValidMavenVersion isdigit fuel s).
  Proof.
    intros fuel s F Hf H9. unfold P.isValidMavenVersion. cbv zeta.
    apply (finished_while_bind fuel _ (0, false) _ (fun st => 0 <= fst st <= Z.of_nat (length s))
             (fun st => up_to (Z.of_nat (length s)) (fst st))).
    - intros [k h] Hk. cbn [fst] in Hk. unfold step_ok, up_to.
      destruct (Z.ltb_spec k (Z.of_nat (length s))) as [Lt|Ge]; [|exact I].
      rewrite (idx_in_range s k "000"%char) by (unfold len; lia). cbn [bind].
      destruct (isdigit _); [exact I|].
      rewrite (wrap64_succ k (Z.of_nat (length s))) by (unfold fits in F; lia).
      cbn [fst]. split; lia.
    - cbn [fst]. lia.
    - unfold up_to. cbn [fst]. lia.
    - intros [[k h]|r]; [|np].
      match goal with |- context [while fuel _ (0, false)] => idtac end.
      set (qs := [$"alpha"; $"beta"; $"milestone"; $"rc"; $"snapshot"; $"ga"; $"final"; $"release"; $"sp"]).
      assert (Lq : Z.of_nat (length qs) = 9) by reflexivity.
      rewrite Lq.
      apply (finished_while_bind fuel _ (0, false) _ (fun st => 0 <= fst st <= 9)
               (fun st => up_to 9 (fst st))).
      + intros [j h'] Hj. cbn [fst] in Hj. unfold step_ok, up_to.
        destruct (Z.ltb_spec j 9) as [Lt|Ge]; [|exact I].
        rewrite (idx_in_range qs j []) by (unfold len; lia). cbn [bind].
        destruct (contains_sub _ _); [exact I|].
        rewrite (wrap64_succ j 9) by lia. cbn [fst]. split; lia.
      + cbn [fst]. lia.
      + unfold up_to. cbn [fst]. lia.
      + intros [[j h']|r]; np.
  Qed.

  (* C06 for maven's NewVersion: no panic, and fuel length s + 10 is enough *)
  Theorem newversion_maven_no_panic : forall e s fuel,
    fits s -> (length s + 9 < fuel)%nat ->
    finished (P.Ecosystem_NewVersion isdigit parseVersionString fuel e s).
  Proof.
    intros e s fuel F Hf. unfold P.Ecosystem_NewVersion.
    destruct (beq s []); [np|]. cbv zeta.
    destruct (beq (trim_space s) []); [np|].
    pose proof (trim_space_length_le s) as TL.
    apply finished_bind; [|intros; np].
    apply isValidMavenVersion_no_panic; [unfold fits in *; lia | lia | lia].
  Qed.
End NoPanic.
Print Assumptions newversion_maven_no_panic.

(* ====================================================================================== *)
(* the tie to the model                                                                    *)
(* ====================================================================================== *)

Section Tie.
  Variable isdigit : Z -> bool.                          (* unicode.IsDigit *)
  Variable parseVersionString : bytes -> list G.element. (* outside the fragment *)
  (* ORACLE AGREEMENT, on ASCII bytes only *)
  Hypothesis isdigit_agrees : forall c, is_ascii c = true -> isdigit (byte_z c) = is_digit c.

  Theorem tie_parse_maven_isValidMavenVersion : forall fuel t,
    all_ascii t = true -> fits t -> (length t < fuel)%nat -> (9 < fuel)%nat ->
    P.isValidMavenVersion isdigit fuel t = Done (M.valid t).
  Proof.
    intros fuel t A F Hf H9. unfold P.isValidMavenVersion. cbv zeta.
    match goal with |- bind (while fuel ?b _) _ = _ =>
      destruct (existsb_loop fuel b t "000"%char (fun c => isdigit (byte_z c))) as [k1 E1];
        [intros k h; reflexivity | exact F | exact Hf |]
    end.
    rewrite E1. cbn [bind]. clear E1.
    match goal with |- bind (while fuel ?b _) _ = _ =>
      destruct (existsb_loop fuel b M.knownQualifiers [] (fun q => contains_sub q (to_lower t))) as [k2 E2];
        [intros k h; reflexivity | unfold fits; cbn; lia | cbn; lia |]
    end.
    rewrite E2. cbn [bind]. clear E2.
    rewrite (existsb_agree is_ascii (fun c => isdigit (byte_z c)) is_digit t isdigit_agrees A).
    unfold M.valid, M.single_letter. cbv zeta. f_equal.
    set (a := existsb is_digit t). set (b := existsb _ M.knownQualifiers).
    set (sl := beq t $"a" || beq t $"b" || beq t $"m").
    destruct sl eqn:SL.
    - assert (L1 : (Z.of_nat (length t) =? 1) = true).
      { subst sl. apply orb_prop in SL as [SL|SL]; [apply orb_prop in SL as [SL|SL]|];
          apply beq_eq in SL; subst t; reflexivity. }
      rewrite L1. destruct a, b; reflexivity.
    - rewrite andb_false_r. destruct a, b; reflexivity.
  Qed.

  Theorem tie_parse_maven_newversion : forall e s fuel,
    all_ascii s = true -> fits s -> (length s + 9 < fuel)%nat ->
    P.Ecosystem_NewVersion isdigit parseVersionString fuel e s =
    Done (match M.parse_core (trim_space s) with
          | Some _ => Some (G.mk_Version s (parseVersionString (trim_space s)))
          | None => None
          end).
  Proof.
    intros e s fuel A F Hf. unfold P.Ecosystem_NewVersion.
    destruct (beq s []) eqn:B0.
    { apply beq_eq in B0. subst s. reflexivity. }
    cbv zeta.
    pose proof (trim_space_length_le s) as TL.
    pose proof (forallb_trim_space is_ascii s A) as At.
    set (t := trim_space s) in *. clearbody t.
    destruct (beq t []) eqn:B1.
    { apply beq_eq in B1. subst t. reflexivity. }
    rewrite tie_parse_maven_isValidMavenVersion; [| exact At | unfold fits in *; lia | lia | lia].
    cbn [bind]. unfold M.parse_core.
    destruct t as [|c t']; [rewrite beq_refl in B1; discriminate|].
    destruct (M.valid (c :: t')); reflexivity.
  Qed.
End Tie.
Print Assumptions tie_parse_maven_isValidMavenVersion.
Print Assumptions tie_parse_maven_newversion.
