(* Tie/Parse/MavenRange.v — maven's NewVersionRange (Gen/Parse/Maven.v) is translated as a PURE
   function (result type option VersionRange, not res): two emptiness tests, strings.TrimSpace and
   the call of parseVersionRange.  It has no index, no slice and no loop, so nothing in it can
   panic or run out of fuel.  Its only callee parseVersionRange is OUTSIDE the translated fragment
   (regexp.MustCompile inside the function body, range.go:64) and is a Section variable of the
   generated file; no other function of maven's range.go is translated.
   [newversionrange_maven_no_panic] records this: the computation that returns the pure value is
   finished — true by the typing of the translation, no content beyond it.  The bracket parser
   itself (parseVersionRange) is NOT covered. *)
From Coq Require Import ZArith List Bool.
From Verif.Base Require Import Bytes GoNum GoOps Imp ImpErr.
From Verif.Gen.Code Require Maven.
From Verif.Gen.Parse Require Maven.
From Verif.Eco.Maven Require Range.
Import ListNotations.

Module G := Verif.Gen.Code.Maven.
Module P := Verif.Gen.Parse.Maven.
Module RM := Verif.Eco.Maven.Range.

Section Range.
  Variable parseVersionRange : bytes -> G.Ecosystem -> option (list G.constraint).

  Theorem newversionrange_maven_no_panic : forall e s,
    finished (Done (P.Ecosystem_NewVersionRange parseVersionRange e s)).
  Proof. intros e s. apply finished_Done. Qed.
End Range.
Print Assumptions newversionrange_maven_no_panic.

(* ---------- the tie to the model (Eco/Maven/Range.v) ---------- *)

Section Tie.
  Variable vok : bytes -> bool.
  Variable parseVersionRange : bytes -> G.Ecosystem -> option (list G.constraint).
  Variable cc : RM.constraint -> G.constraint.       (* the Go value of a model constraint *)
  (* AGREEMENT for the untranslated bracket parser *)
  Hypothesis parseVersionRange_agrees : forall t e,
    parseVersionRange t e = option_map (map cc) (RM.parseVersionRange vok t).

  Definition conc (r : RM.range) : G.VersionRange :=
    G.mk_VersionRange (RM.r_orig r) (map cc (RM.r_cs r)).

  (* NewVersionRange (a pure function of the translation): the two emptiness tests, the trimming
     and the untrimmed original are the model's parse_range *)
  Theorem tie_parse_maven_newversionrange : forall e s,
    P.Ecosystem_NewVersionRange parseVersionRange e s = option_map conc (RM.parse_range vok s).
  Proof.
    intros e s. unfold P.Ecosystem_NewVersionRange, RM.parse_range. cbv zeta.
    destruct s as [|c s']; [reflexivity|].
    change (beq (c :: s') []) with false. cbv iota.
    destruct (trim_space (c :: s')) as [|x t] eqn:E; [reflexivity|].
    change (beq (x :: t) []) with false. cbv iota.
    rewrite parseVersionRange_agrees.
    destruct (RM.parseVersionRange vok (x :: t)); reflexivity.
  Qed.
End Tie.
Print Assumptions tie_parse_maven_newversionrange.
