(* Tie/Parse/Npm.v — the generated translation of npm's NewVersion (Gen/Parse/Npm.v:
   TrimPrefix "v" / "=", FindStringSubmatch oracle, matches[1..5], strconv.Atoi) never panics, and
   agrees with the model's parser (Eco/Npm/Version.v) when the oracle(s) agree with the model's
   scanners. *)
From Coq Require Import ZArith List Bool Lia.
From Verif.Base Require Import Bytes GoNum GoOps Imp ImpFacts ImpErr BytesFacts.
From Verif.Eco.Npm Require Version.
From Verif.Gen.Code Require Npm.
From Verif.Gen.Parse Require Npm.
From Verif.Tie Require Npm.
From Verif.Tie.Parse Require Import Common Scan.
Import ListNotations.
Local Open Scope Z_scope.

Module G := Verif.Gen.Code.Npm.
Module P := Verif.Gen.Parse.Npm.
Module M := Verif.Eco.Npm.Version.
Module T := Verif.Tie.Npm.

Local Opaque atoi trim_space trim_prefix beq.

Section NewVersion.
  Variable find : bytes -> option (list bytes).   (* versionPattern.FindStringSubmatch *)
  Hypothesis find_shape : submatch_shape find P.versionPattern_groups.

  (* C06: every matches[k], k = 1..5, is inside len(matches) = 6 *)
  Theorem newversion_npm_no_panic : forall e s, finished (P.Ecosystem_NewVersion find e s).
  Proof.
    intros e s. unfold P.Ecosystem_NewVersion. cbv zeta.
    match goal with |- context [find ?t] => destruct (find t) as [m|] eqn:F; [|np] end.
    pose proof (find_shape _ _ F) as L. unfold P.versionPattern_groups in L.
    shape_list L.
    np.
  Qed.
End NewVersion.
Print Assumptions newversion_npm_no_panic.

(* ---------- the tie to the model ---------- *)

(* what versionPattern ^v?(\d+)\.(\d+)\.(\d+)(?:-(IDS))?(?:\+(IDS))?$ returns on the text left by
   TrimSpace / TrimPrefix "v" / TrimPrefix "=", re-expressed with the scanners of the model:
   [whole; major; minor; patch; prerelease; build] (Go reports a group that did not take part as
   "").  That the real regexp engine agrees with this function is the oracle-agreement hypothesis
   below; the differential correspondence run checks it on every generated input. *)
Definition ref_match (u : bytes) : option (list bytes) :=
  match M.num_dot (trim_prefix $"v" u) with
  | Some (ma, r1) =>
      match M.num_dot r1 with
      | Some (mi, r2) =>
          match take_while is_digit r2 with
          | [] => None
          | pa =>
              match M.parse_tail (drop_while is_digit r2) with
              | Some (pre, b) => Some [u; ma; mi; pa; pre; b]
              | None => None
              end
          end
      | None => None
      end
  | None => None
  end.

(* the Go value for a parsed core: original is the TRIMMED input *)
Definition conc (s : bytes) (c : M.core) : G.Version :=
  G.mk_Version (M.major c) (M.minor c) (M.patch c) (M.prerelease c) (M.build c) (trim_space s).

Lemma abs_conc s c : T.abs (conc s c) = c.
Proof. destruct c; reflexivity. Qed.

Lemma num_dot_some s d r : M.num_dot s = Some (d, r) -> d <> [] /\ forallb is_digit d = true.
Proof.
  unfold M.num_dot. pose proof (take_while_forallb is_digit s) as A.
  destruct (take_while is_digit s) as [|x d']; [discriminate|].
  destruct (drop_while is_digit s) as [|c r']; [discriminate|].
  destruct (ceqb c "."%char); [|discriminate].
  intros X. injection X as <- <-. split; [discriminate | exact A].
Qed.

Lemma atoi_digits_run d : d <> [] -> forallb is_digit d = true -> atoi d = M.atoi_digits d.
Proof. exact (atoi_run d). Qed.

Section Tie.
  Variable find : bytes -> option (list bytes).
  (* ORACLE AGREEMENT: the regexp engine computes what the model's scanner computes *)
  Hypothesis find_agrees : forall t, find t = ref_match t.

  Local Opaque M.atoi_digits M.num_dot M.parse_tail.

  Theorem tie_parse_npm_newversion : forall e s,
    P.Ecosystem_NewVersion find e s = Done (option_map (conc s) (M.parse_core (trim_space s))).
  Proof.
    intros e s. unfold P.Ecosystem_NewVersion. cbv zeta.
    rewrite find_agrees. unfold ref_match, M.parse_core. cbv zeta.
    set (u := trim_prefix $"=" (trim_prefix $"v" (trim_space s))). clearbody u.
    destruct (M.num_dot (trim_prefix $"v" u)) as [[ma r1]|] eqn:N1; [|reflexivity].
    destruct (M.num_dot r1) as [[mi r2]|] eqn:N2; [|reflexivity].
    pose proof (take_while_forallb is_digit r2) as A3.
    destruct (take_while is_digit r2) as [|a3 d3] eqn:D3; [reflexivity|].
    destruct (M.parse_tail _) as [[pre b]|]; [|reflexivity].
    destruct (num_dot_some _ _ _ N1) as [NE1 A1]. destruct (num_dot_some _ _ _ N2) as [NE2 A2].
    repeat (erewrite idx_known by reflexivity; cbn [bind]).
    rewrite (atoi_digits_run ma NE1 A1).
    destruct (M.atoi_digits ma) as [x|]; [|reflexivity].
    repeat (erewrite idx_known by reflexivity; cbn [bind]).
    rewrite (atoi_digits_run mi NE2 A2).
    destruct (M.atoi_digits mi) as [y|]; [|reflexivity].
    repeat (erewrite idx_known by reflexivity; cbn [bind]).
    rewrite (atoi_digits_run (a3 :: d3)) by (assumption || discriminate).
    destruct (M.atoi_digits (a3 :: d3)) as [z|]; reflexivity.
  Qed.
End Tie.
Print Assumptions tie_parse_npm_newversion.
