(* Tie/Parse/NpmRange.v — the generated translation of npm's NewVersionRange (Gen/Parse/Npm.v:
   parseRangeGroups = a loop over strings.Split(s, "||"), parseRange, parseHyphenRange with
   parts[0], parts[1] under len(parts) == 2, parseSpaceSeparatedConstraints = a loop over
   strings.Fields(s)) never panics and terminates with fuel linear in the length of the input,
   GIVEN that Ecosystem_NewVersion (a definition of the same generated file without loops, proved
   separately: newversion_npm_no_panic) finishes on every text.  parseSingleConstraint is outside
   the translated fragment (slices.ContainsFunc): a Section variable of the generated file, a pure
   function that cannot panic in the model. *)
From Coq Require Import ZArith List Ascii Bool Lia.
From Verif.Base Require Import Bytes GoNum GoOps Imp ImpFacts ImpErr BytesFacts.
From Verif.Gen.Code Require Npm.
From Verif.Gen.Parse Require Npm.
From Verif.Tie.Parse Require Import Common RangeCommon.
Import ListNotations.
Local Open Scope Z_scope.

Module G := Verif.Gen.Code.Npm.
Module P := Verif.Gen.Parse.Npm.

(* ---------- lengths of strings.Split(s, sep) for a multi-byte separator ---------- *)

Lemma cut_length (sep s a b : bytes) :
  cut sep s = Some (a, b) -> (length a + length b <= length s)%nat.
Proof.
  revert a b. induction s as [|c s IH]; intros a b H; cbn [cut] in H.
  - destruct (has_prefix sep []); [|discriminate].
    injection H as <- <-. rewrite skipn_nil. cbn. lia.
  - destruct (has_prefix sep (c :: s)).
    + injection H as <- <-. pose proof (skipn_length_le (length sep) (c :: s)). cbn [length] in *. lia.
    + destruct (cut sep s) as [[a' b']|]; [|discriminate].
      injection H as <- <-. specialize (IH _ _ eq_refl). cbn [length]. lia.
Qed.

Lemma split_sub_fuel_length_le fuel (sep s : bytes) :
  (length (split_sub_fuel fuel sep s) <= S fuel)%nat.
Proof.
  revert s. induction fuel as [|k IH]; intros s; cbn [split_sub_fuel]; [cbn; lia|].
  destruct (cut sep s) as [[a b]|]; cbn [length]; [|lia]. specialize (IH b). lia.
Qed.

Lemma split_sub_length_le (sep s : bytes) : (length (split_sub sep s) <= length s + 2)%nat.
Proof. unfold split_sub. pose proof (split_sub_fuel_length_le (S (length s)) sep s). lia. Qed.

Lemma split_sub_fuel_In_length fuel (sep s f : bytes) :
  In f (split_sub_fuel fuel sep s) -> (length f <= length s)%nat.
Proof.
  revert s. induction fuel as [|k IH]; intros s H; cbn [split_sub_fuel] in H.
  - destruct H as [<-|[]]. lia.
  - destruct (cut sep s) as [[a b]|] eqn:E.
    + apply cut_length in E. destruct H as [<-|H]; [lia|]. apply IH in H. lia.
    + destruct H as [<-|[]]. lia.
Qed.

Lemma split_sub_In_length (sep s f : bytes) : In f (split_sub sep s) -> (length f <= length s)%nat.
Proof. apply split_sub_fuel_In_length. Qed.

Lemma trim_prefix_length_le (p s : bytes) : (length (trim_prefix p s) <= length s)%nat.
Proof. unfold trim_prefix. destruct (has_prefix p s); [apply skipn_length_le | lia]. Qed.

Lemma trim_suffix_length_le (p s : bytes) : (length (trim_suffix p s) <= length s)%nat.
Proof. unfold trim_suffix. destruct (has_suffix p s); [apply firstn_length_le' | lia]. Qed.

Section Range.
  Variable single : bytes -> option (list G.constraint).  (* parseSingleConstraint *)
  Variable find : bytes -> option (list bytes).           (* versionPattern.FindStringSubmatch *)

  Hypothesis newversion_finished : forall e v, finished (P.Ecosystem_NewVersion find e v).

  Local Opaque trim_space beq fields split_sub has_prefix has_suffix contains_sub trim_prefix trim_suffix
        P.Ecosystem_NewVersion.

  Ltac nv_step :=
    match goal with
    | |- finished (bind (P.Ecosystem_NewVersion _ _ _) _) =>
        apply finished_bind; [apply newversion_finished | intros ? _]
    | _ => np_step
    end.
  Ltac npv := repeat nv_step.

  (* parseHyphenRange: parts[0], parts[1] under len(parts) == 2 *)
  Lemma parseHyphenRange_no_panic : forall s, finished (P.parseHyphenRange find s).
  Proof.
    intros s. unfold P.parseHyphenRange. cbv zeta.
    generalize (split_sub ($" - ") s); intros parts.
    destruct (Z.of_nat (length parts) =? 2) eqn:L; cbn [negb]; [|npv].
    apply Z.eqb_eq in L. assert (L' : length parts = 2%nat) by lia. clear L.
    shape_list L'.
    repeat (erewrite idx_known by reflexivity; cbn [bind]). npv.
  Qed.

  (* parseSpaceSeparatedConstraints: one iteration per field *)
  Lemma parseSpaceSeparatedConstraints_no_panic : forall fuel s,
    Z.of_nat (length s) + 1 < 2 ^ 63 -> (S (length s) < fuel)%nat ->
    finished (P.parseSpaceSeparatedConstraints single fuel s).
  Proof.
    intros fuel s Hfit Hf. unfold P.parseSpaceSeparatedConstraints. cbv zeta.
    pose proof (fields_length_le s) as SL.
    apply (range_loop_finished (fields s)
             (fun k part cs =>
                match single part with
                | None => Done (Ret None)
                | Some pcs => Done (Next (wrap64 (k + 1), cs ++ pcs))
                end)).
    - intros k part cs _ _. destruct (single part); [reflexivity | exact I].
    - lia.
    - lia.
    - intros [[k cs]|r]; np.
  Qed.

  Lemma parseRange_npm_no_panic : forall fuel s,
    Z.of_nat (length s) + 1 < 2 ^ 63 -> (S (length s) < fuel)%nat ->
    finished (P.parseRange single find fuel s).
  Proof.
    intros fuel s Hfit Hf. unfold P.parseRange. cbv zeta.
    set (s' := trim_suffix _ _).
    assert (L : (length s' <= length s)%nat).
    { subst s'. etransitivity; [apply trim_suffix_length_le|].
      etransitivity; [apply trim_prefix_length_le|]. apply trim_space_length_le. }
    clearbody s'.
    match goal with |- finished (if ?c then _ else _) => destruct c end.
    - apply finished_bind; [apply parseHyphenRange_no_panic | intros; np].
    - match goal with |- finished (if ?c then _ else _) => destruct c end; [|np].
      apply finished_bind; [|intros; np].
      apply parseSpaceSeparatedConstraints_no_panic; lia.
  Qed.

  (* parseRangeGroups: one iteration per "||"-separated group *)
  Lemma parseRangeGroups_no_panic : forall fuel s,
    Z.of_nat (length s) + 2 < 2 ^ 63 -> (length s + 2 < fuel)%nat ->
    finished (P.parseRangeGroups single find fuel s).
  Proof.
    intros fuel s Hfit Hf. unfold P.parseRangeGroups.
    destruct (contains_sub $"||" s).
    - cbv zeta. pose proof (split_sub_length_le $"||" s) as SL.
      apply (range_loop_finished (split_sub $"||" s)
               (fun k part gs =>
                  bind (P.parseRange single find fuel (trim_space part)) (fun r =>
                    match r with
                    | None => Done (Ret None)
                    | Some cs => Done (Next (wrap64 (k + 1), gs ++ [cs]))
                    end))).
      + intros k part gs _ Hin. apply split_sub_In_length in Hin.
        pose proof (trim_space_length_le part) as TL.
        destruct (parseRange_npm_no_panic fuel (trim_space part)) as [r ->]; [lia | lia |].
        cbn [bind]. destruct r; [reflexivity | exact I].
      + lia.
      + lia.
      + intros [[k gs]|r]; np.
    - apply finished_bind; [|intros; np]. apply parseRange_npm_no_panic; lia.
  Qed.

  (* C06 for npm's NewVersionRange: no panic, and fuel length s + 3 is enough *)
  Theorem newversionrange_npm_no_panic : forall fuel e s,
    Z.of_nat (length s) + 2 < 2 ^ 63 -> (length s + 2 < fuel)%nat ->
    finished (P.Ecosystem_NewVersionRange single find fuel e s).
  Proof.
    intros fuel e s Hfit Hf. unfold P.Ecosystem_NewVersionRange. cbv zeta.
    pose proof (trim_space_length_le s) as TL.
    destruct (beq (trim_space s) []); [np|].
    apply finished_bind; [|intros; np].
    apply parseRangeGroups_no_panic; lia.
  Qed.
End Range.
Print Assumptions newversionrange_npm_no_panic.
