(* Tie/Parse/NpmRangeClosed.v — the closed corollary for npm's NewVersionRange: the hypothesis
   "the callee Ecosystem_NewVersion finishes on every text" of Tie/Parse/NpmRange.v is discharged
   with newversion_npm_no_panic (Tie/Parse/Npm.v; NewVersion has no loop, so no fuel).
   parseSingleConstraint stays a Section variable of the generated file (outside the translated
   fragment: slices.ContainsFunc), i.e. any pure function. *)
From Coq Require Import ZArith List Bool Lia.
From Verif.Base Require Import Bytes GoNum GoOps Imp ImpFacts ImpErr BytesFacts.
From Verif.Gen.Code Require Npm.
From Verif.Gen.Parse Require Npm.
From Verif.Tie.Parse Require Import Common.
From Verif.Tie.Parse Require Npm NpmRange.
Import ListNotations.
Local Open Scope Z_scope.

Module G := Verif.Gen.Code.Npm.
Module P := Verif.Gen.Parse.Npm.
Module V := Verif.Tie.Parse.Npm.
Module R := Verif.Tie.Parse.NpmRange.

(* C06 for npm's NewVersionRange, closed: under the regexp-shape hypothesis only, no panic and
   fuel length s + 3 is enough *)
Theorem newversionrange_npm_no_panic_closed :
  forall (single : bytes -> option (list G.constraint)) (find : bytes -> option (list bytes)),
  submatch_shape find P.versionPattern_groups ->
  forall fuel e s,
  Z.of_nat (length s) + 2 < 2 ^ 63 -> (length s + 2 < fuel)%nat ->
  finished (P.Ecosystem_NewVersionRange single find fuel e s).
Proof.
  intros single find Sh fuel e s Hfit Hf.
  apply (R.newversionrange_npm_no_panic single find).
  - intros e' v. apply V.newversion_npm_no_panic. exact Sh.
  - exact Hfit.
  - exact Hf.
Qed.
Print Assumptions newversionrange_npm_no_panic_closed.
