(* Tie/Parse/Nuget.v — the generated translation of nuget's NewVersion (Gen/Parse/Nuget.v:
   TrimPrefix "v", FindStringSubmatch oracle, matches[1..6] with the optional minor / patch /
   revision groups, strconv.Atoi) never panics, and
   agrees with the model's parser (Eco/Nuget/Version.v) when the oracle(s) agree with the model's
   scanners. *)
From Coq Require Import ZArith List Bool Lia.
From Verif.Base Require Import Bytes GoNum GoOps Imp ImpFacts ImpErr BytesFacts.
From Verif.Eco.Nuget Require Version.
From Verif.Gen.Code Require Nuget.
From Verif.Gen.Parse Require Nuget.
From Verif.Tie Require Nuget.
From Verif.Tie.Parse Require Import Common Scan.
Import ListNotations.
Local Open Scope Z_scope.

Module G := Verif.Gen.Code.Nuget.
Module P := Verif.Gen.Parse.Nuget.
Module M := Verif.Eco.Nuget.Version.
Module T := Verif.Tie.Nuget.

Local Opaque atoi trim_space trim_prefix beq.

Section NewVersion.
  Variable find : bytes -> option (list bytes).   (* versionPattern.FindStringSubmatch *)
  Hypothesis find_shape : submatch_shape find P.versionPattern_groups.

  (* C06: every matches[k], k = 1..6, is inside len(matches) = 7 *)
  Theorem newversion_nuget_no_panic : forall e s, finished (P.Ecosystem_NewVersion find e s).
  Proof.
    intros e s. unfold P.Ecosystem_NewVersion. cbv zeta.
    match goal with |- context [find ?t] => destruct (find t) as [m|] eqn:F; [|np] end.
    pose proof (find_shape _ _ F) as L. unfold P.versionPattern_groups in L.
    shape_list L.
    np.
  Qed.
End NewVersion.
Print Assumptions newversion_nuget_no_panic.

(* ---------- the tie to the model ---------- *)

(* what versionPattern ^v?(\d+)(?:\.(\d+))?(?:\.(\d+))?(?:\.(\d+))?(?:-(IDS))?(?:\+(IDS))?$ returns on
   the text left by TrimSpace / TrimPrefix "v", re-expressed with the scanners of the model:
   [whole; major; minor; patch; revision; prerelease; build] (Go reports a group that did not take
   part as "").  That the real regexp engine agrees with this function is the oracle-agreement
   hypothesis below; the differential correspondence run checks it on every generated input. *)
Definition ref_match (u : bytes) : option (list bytes) :=
  let t2 := trim_prefix $"v" u in
  let (d1, r1) := span is_digit t2 in
  match d1 with
  | [] => None
  | _ =>
      let (ds, r2) := M.num_groups 3 r1 in
      match M.parse_tail r2 with
      | None => None
      | Some (pre, bld) => Some [u; d1; nth 0 ds []; nth 1 ds []; nth 2 ds []; pre; bld]
      end
  end.

(* the Go value for a parsed core: original is the TRIMMED input *)
Definition conc (s : bytes) (c : M.core) : G.Version :=
  G.mk_Version (M.major c) (M.minor c) (M.patch c) (M.revision c) (M.prerelease c) (M.build c)
               (trim_space s).

Lemma abs_conc s c : T.abs (conc s c) = c.
Proof. destruct c; reflexivity. Qed.

(* the optional groups that took part are non-empty *)
Lemma num_groups_nonempty n r : Forall (fun d : bytes => d <> []) (fst (M.num_groups n r)).
Proof.
  revert r. induction n as [|n IH]; intros r; cbn [M.num_groups]; [constructor|].
  destruct r as [|c r']; [constructor|].
  destruct (ceqb c "."%char); [|constructor].
  destruct (take_while is_digit r') as [|x d] eqn:D; [constructor|].
  specialize (IH (drop_while is_digit r')).
  destruct (M.num_groups n (drop_while is_digit r')) as [ds rest]. cbn [fst] in *.
  constructor; [discriminate | exact IH].
Qed.

Section Tie.
  Variable find : bytes -> option (list bytes).
  (* ORACLE AGREEMENT: the regexp engine computes what the model's scanner computes *)
  Hypothesis find_agrees : forall t, find t = ref_match t.

  Local Transparent beq.
  Local Opaque M.num_groups M.parse_tail.

  Ltac tie_step :=
    first
      [ erewrite idx_known by reflexivity; cbn [bind]
      | match goal with
        | |- context [beq (?c :: ?x) []] => change (beq (c :: x) []) with false; cbn [negb]
        | |- context [beq [] []] => change (beq [] []) with true; cbn [negb]
        | |- context [match atoi ?x with _ => _ end] => destruct (atoi x); [|reflexivity]
        end ].

  Theorem tie_parse_nuget_newversion : forall e s,
    P.Ecosystem_NewVersion find e s = Done (option_map (conc s) (M.parse_core (trim_space s))).
  Proof.
    intros e s. unfold P.Ecosystem_NewVersion. cbv zeta.
    rewrite find_agrees. unfold ref_match, M.parse_core, span. cbv zeta.
    set (u := trim_prefix $"v" (trim_space s)). clearbody u.
    set (t2 := trim_prefix $"v" u). clearbody t2.
    destruct (take_while is_digit t2) as [|a1 d1] eqn:D1; [reflexivity|].
    pose proof (num_groups_nonempty 3 (drop_while is_digit t2)) as NE.
    destruct (M.num_groups 3 (drop_while is_digit t2)) as [ds r2]. cbn [fst] in NE.
    destruct (M.parse_tail r2) as [[pre bld]|]; [|reflexivity].
    unfold M.nth_num, M.num_of.
    destruct ds as [|x1 ds]; [|inversion NE as [|? ? N1 NE1]; subst; destruct x1 as [|c1 x1]; [congruence|];
      destruct ds as [|x2 ds]; [|inversion NE1 as [|? ? N2 NE2]; subst; destruct x2 as [|c2 x2]; [congruence|];
        destruct ds as [|x3 ds]; [|inversion NE2 as [|? ? N3 NE3]; subst; destruct x3 as [|c3 x3]; [congruence|]]]];
      cbn [nth nth_error]; repeat tie_step; reflexivity.
  Qed.
End Tie.
Print Assumptions tie_parse_nuget_newversion.
