(* Tie/Parse/NugetRange.v — the generated translation of nuget's NewVersionRange
   (Gen/Parse/Nuget.v) never panics and terminates with fuel linear in the length of the input,
   GIVEN that Ecosystem_NewVersion (a definition of the same generated file without loops, proved
   separately: newversion_nuget_no_panic) finishes on every text.

   What is guarded by what:
   * rangeStr[1:len(rangeStr)-1] in parseRange / parseInclusiveRange / parseExclusiveRange /
     parseMixedRange needs len >= 2: every call site is under HasPrefix(s, "[" or "(") &&
     HasSuffix(s, "]" or ")") — two different bytes, so the text has at least two;
   * parts[0], parts[1] after strings.Split(content, ","): under len(parts) == 2;
   * c[len(op):] in parseSingleConstraint: under HasPrefix(c, op). *)
From Coq Require Import ZArith List Ascii Bool Lia.
From Verif.Base Require Import Bytes GoNum GoOps Imp ImpFacts ImpErr BytesFacts.
From Verif.Gen.Code Require Nuget.
From Verif.Gen.Parse Require Nuget.
From Verif.Tie.Parse Require Import Common RangeCommon.
Import ListNotations.
Local Open Scope Z_scope.

Module G := Verif.Gen.Code.Nuget.
Module P := Verif.Gen.Parse.Nuget.

(* a text that starts with one byte and ends with a different one has two bytes *)
Lemma bracket_length (a b : ascii) (s : bytes) :
  has_prefix [a] s = true -> has_suffix [b] s = true -> a <> b -> (2 <= length s)%nat.
Proof.
  intros Hp Hs N. destruct s as [|x [|y t]]; cbn [length]; try lia.
  - discriminate.
  - unfold has_suffix in Hs. cbn in Hp, Hs.
    rewrite andb_true_r in Hp, Hs. apply ceqb_eq in Hp, Hs. congruence.
Qed.

(* s[1:len(s)-1] *)
Lemma slice_inner (s : bytes) :
  (2 <= length s)%nat -> Z.of_nat (length s) < 2 ^ 63 ->
  exists c, slice s 1 (wrap64 (Z.of_nat (length s) - 1)) = Done c /\ (length c <= length s)%nat.
Proof.
  intros H2 Hfit.
  assert (W : wrap64 (Z.of_nat (length s) - 1) = Z.of_nat (length s) - 1).
  { replace (Z.of_nat (length s) - 1) with ((Z.of_nat (length s) - 2) + 1) by lia.
    apply (wrap64_succ_lt _ (Z.of_nat (length s))); lia. }
  rewrite W. rewrite slice_in_range by (unfold len; lia).
  eexists. split; [reflexivity|].
  etransitivity; [apply firstn_length_le'|]. apply skipn_length_le.
Qed.

Section Range.
  Variable find : bytes -> option (list bytes).           (* versionPattern.FindStringSubmatch *)

  Hypothesis newversion_finished : forall e v, finished (P.Ecosystem_NewVersion find e v).

  Local Opaque trim_space beq split_c has_prefix has_suffix contains_sub P.Ecosystem_NewVersion.

  Ltac nv_step :=
    match goal with
    | |- finished (bind (P.Ecosystem_NewVersion _ _ _) _) =>
        apply finished_bind; [apply newversion_finished | intros ? _]
    | _ => np_step
    end.
  Ltac npv := repeat nv_step.

  (* the common head of the three bracket parsers *)
  Ltac bracket_head H2 Hfit :=
    let c := fresh "c" in let E := fresh "E" in let L := fresh "L" in
    destruct (slice_inner _ H2 Hfit) as (c & E & _); rewrite E; cbn [bind]; cbv zeta;
    generalize (split_c (chr 44) c); intros parts;
    destruct (Z.of_nat (length parts) =? 2) eqn:L; cbn [negb]; [|npv];
    apply Z.eqb_eq in L;
    assert (L' : length parts = 2%nat) by lia; clear L;
    shape_list L';
    repeat (erewrite idx_known by reflexivity; cbn [bind]); cbv zeta.

  Lemma parseInclusiveRange_no_panic : forall e s,
    (2 <= length s)%nat -> Z.of_nat (length s) < 2 ^ 63 -> finished (P.parseInclusiveRange find e s).
  Proof.
    intros e s H2 Hfit. unfold P.parseInclusiveRange. bracket_head H2 Hfit. npv.
  Qed.

  Lemma parseMixedRange_no_panic : forall e s,
    (2 <= length s)%nat -> Z.of_nat (length s) < 2 ^ 63 -> finished (P.parseMixedRange find e s).
  Proof.
    intros e s H2 Hfit. unfold P.parseMixedRange. bracket_head H2 Hfit. npv.
  Qed.

  Lemma parseExclusiveRange_no_panic : forall e s,
    (2 <= length s)%nat -> Z.of_nat (length s) < 2 ^ 63 -> finished (P.parseExclusiveRange find e s).
  Proof.
    intros e s H2 Hfit. unfold P.parseExclusiveRange. bracket_head H2 Hfit.
    destruct (negb _).
    - apply finished_bind; [|intros; np]. apply parseMixedRange_no_panic; assumption.
    - npv.
  Qed.

  (* parseSingleConstraint: 6 operators *)
  Lemma parseSingleConstraint_nuget_no_panic : forall fuel e c,
    (6 < fuel)%nat -> finished (P.parseSingleConstraint find fuel e c).
  Proof.
    intros fuel e c Hf. unfold P.parseSingleConstraint. cbv zeta.
    apply (ops_loop_finished [$">="; $"<="; $"!="; $">"; $"<"; $"="] (trim_space c)
             (fun op sl =>
                bind (P.Ecosystem_NewVersion find e (trim_space sl)) (fun r =>
                  match r with
                  | None => Done (Ret None)
                  | Some version => Done (Ret (Some [G.mk_constraint op version]))
                  end))).
    - intros op _ _. destruct (newversion_finished e (trim_space (skipn (length op) (trim_space c)))) as [r ->].
      cbn [bind]. destruct r; eauto.
    - cbn. lia.
    - cbn [length]. lia.
    - intros [k|r]; npv.
  Qed.

  Lemma parseCommaSeparatedConstraints_no_panic : forall fuel e s,
    Z.of_nat (length s) + 1 < 2 ^ 63 -> (length s + 6 < fuel)%nat ->
    finished (P.parseCommaSeparatedConstraints find fuel e s).
  Proof.
    intros fuel e s Hfit Hf. unfold P.parseCommaSeparatedConstraints.
    match goal with |- finished (if ?c then _ else _) => destruct c end; [np|]. cbv zeta.
    pose proof (split_c_length_le (chr 44) s) as SL.
    apply (range_loop_finished (split_c (chr 44) s)
             (fun k part cs =>
                if beq (trim_space part) [] then Done (Next (wrap64 (k + 1), cs))
                else bind (P.parseSingleConstraint find fuel e (trim_space part)) (fun r =>
                  match r with
                  | None => Done (Ret None)
                  | Some pcs => Done (Next (wrap64 (k + 1), cs ++ pcs))
                  end))).
    - intros k part cs _ _. destruct (beq _ _); [reflexivity|].
      destruct (parseSingleConstraint_nuget_no_panic fuel e (trim_space part)) as [r ->]; [lia|].
      cbn [bind]. destruct r; [reflexivity | exact I].
    - lia.
    - lia.
    - intros [[k cs]|r]; np.
  Qed.

  Lemma parseRange_nuget_no_panic : forall fuel e s,
    Z.of_nat (length s) + 1 < 2 ^ 63 -> (length s + 6 < fuel)%nat ->
    finished (P.parseRange find fuel e s).
  Proof.
    intros fuel e s0 Hfit0 Hf0. unfold P.parseRange. cbv zeta.
    pose proof (trim_space_length_le s0) as TL.
    set (s := trim_space s0) in *.
    assert (Hfit : Z.of_nat (length s) + 1 < 2 ^ 63) by lia.
    assert (Hf : (length s + 6 < fuel)%nat) by lia.
    clearbody s. clear TL Hfit0 Hf0 s0.
    assert (B1 : has_prefix $"[" s = true -> has_suffix $"]" s = true -> (2 <= length s)%nat)
      by (intros; eapply bracket_length; eauto; discriminate).
    assert (B2 : has_prefix $"[" s = true -> has_suffix $")" s = true -> (2 <= length s)%nat)
      by (intros; eapply bracket_length; eauto; discriminate).
    assert (B3 : has_prefix $"(" s = true -> has_suffix $"]" s = true -> (2 <= length s)%nat)
      by (intros; eapply bracket_length; eauto; discriminate).
    assert (B4 : has_prefix $"(" s = true -> has_suffix $")" s = true -> (2 <= length s)%nat)
      by (intros; eapply bracket_length; eauto; discriminate).
    assert (CS : finished (P.parseCommaSeparatedConstraints find fuel e s))
      by (apply parseCommaSeparatedConstraints_no_panic; assumption).
    destruct (has_prefix $"[" s), (has_prefix $"(" s), (has_suffix $"]" s), (has_suffix $")" s);
      cbn [andb orb negb];
      try specialize (B1 eq_refl eq_refl); try specialize (B2 eq_refl eq_refl);
      try specialize (B3 eq_refl eq_refl); try specialize (B4 eq_refl eq_refl);
      repeat match goal with
      | |- finished (bind (P.parseCommaSeparatedConstraints _ _ _ _) _) =>
          apply finished_bind; [exact CS | intros ? _]
      | |- finished (bind (P.parseInclusiveRange _ _ _) _) =>
          apply finished_bind; [apply parseInclusiveRange_no_panic; lia | intros ? _]
      | |- finished (bind (P.parseExclusiveRange _ _ _) _) =>
          apply finished_bind; [apply parseExclusiveRange_no_panic; lia | intros ? _]
      | |- finished (bind (P.parseMixedRange _ _ _) _) =>
          apply finished_bind; [apply parseMixedRange_no_panic; lia | intros ? _]
      | |- finished (bind (slice _ 1 _) _) =>
          let c := fresh "c" in let E := fresh "E" in
          destruct (slice_inner s) as (c & E & _); [lia | lia | rewrite E; cbn [bind]]
      | _ => nv_step
      end.
  Qed.

  (* C06 for nuget's NewVersionRange: no panic, and fuel length s + 7 is enough *)
  Theorem newversionrange_nuget_no_panic : forall fuel e s,
    Z.of_nat (length s) + 1 < 2 ^ 63 -> (length s + 6 < fuel)%nat ->
    finished (P.Ecosystem_NewVersionRange find fuel e s).
  Proof.
    intros fuel e s Hfit Hf. unfold P.Ecosystem_NewVersionRange. cbv zeta.
    pose proof (trim_space_length_le s) as TL.
    destruct (beq (trim_space s) []); [np|].
    apply finished_bind; [|intros; np].
    apply parseRange_nuget_no_panic; lia.
  Qed.
End Range.
Print Assumptions newversionrange_nuget_no_panic.
