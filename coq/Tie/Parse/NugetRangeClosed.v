(* Tie/Parse/NugetRangeClosed.v — the closed corollary for nuget's NewVersionRange: the hypothesis
   "the callee Ecosystem_NewVersion finishes on every text" of Tie/Parse/NugetRange.v is discharged
   with newversion_nuget_no_panic (Tie/Parse/Nuget.v; NewVersion has no loop, so no fuel). *)
From Coq Require Import ZArith List Bool Lia.
From Verif.Base Require Import Bytes GoNum GoOps Imp ImpFacts ImpErr BytesFacts.
From Verif.Gen.Code Require Nuget.
From Verif.Gen.Parse Require Nuget.
From Verif.Tie.Parse Require Import Common.
From Verif.Tie.Parse Require Nuget NugetRange.
Import ListNotations.
Local Open Scope Z_scope.

Module G := Verif.Gen.Code.Nuget.
Module P := Verif.Gen.Parse.Nuget.
Module V := Verif.Tie.Parse.Nuget.
Module R := Verif.Tie.Parse.NugetRange.

(* C06 for nuget's NewVersionRange, closed: under the regexp-shape hypothesis only, no panic and
   fuel length s + 7 is enough *)
Theorem newversionrange_nuget_no_panic_closed :
  forall (find : bytes -> option (list bytes)),
  submatch_shape find P.versionPattern_groups ->
  forall fuel e s,
  Z.of_nat (length s) + 1 < 2 ^ 63 -> (length s + 6 < fuel)%nat ->
  finished (P.Ecosystem_NewVersionRange find fuel e s).
Proof.
  intros find Sh fuel e s Hfit Hf.
  apply (R.newversionrange_nuget_no_panic find).
  - intros e' v. apply V.newversion_nuget_no_panic. exact Sh.
  - exact Hfit.
  - exact Hf.
Qed.
Print Assumptions newversionrange_nuget_no_panic_closed.
