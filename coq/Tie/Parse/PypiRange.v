(* Tie/Parse/PypiRange.v — the translated part of pypi's range parser (Gen/Parse/Pypi.v).

   * Ecosystem_NewVersionRange is translated as a PURE function (result type option VersionRange,
     not res): it has no index, no slice and no loop of its own, so there is nothing that can
     panic or run out of fuel in it; its callee parseSpecifier is OUTSIDE the translated fragment
     (call cycle parseSpecifier -> parseSpecifier) and is a Section variable, as are
     parseCompatibleRelease and parseWildcardConstraint (builtin make) and Ecosystem_NewVersion
     (assignment to a field).  [newversionrange_pypi_no_panic] records this: the computation that
     returns the pure value is finished — true by the typing of the translation, no content
     beyond it.
   * parseSingleConstraint IS translated with a loop and a slice (it is called by the skipped
     parseSpecifier): a loop over the eight operators with con[len(op):] guarded by
     strings.HasPrefix.  [parseSingleConstraint_pypi_no_panic]: no panic, fuel 9 is enough. *)
From Coq Require Import ZArith List Ascii Bool Lia.
From Verif.Base Require Import Bytes GoNum GoOps Imp ImpFacts ImpErr BytesFacts.
From Verif.Gen.Code Require Pypi.
From Verif.Gen.Parse Require Pypi.
From Verif.Eco Require Import RangeCore.
From Verif.Eco.Pypi Require Range.
From Verif.Tie.Parse Require Import Common RangeCommon RangeTie.
Import ListNotations.
Local Open Scope Z_scope.

Module G := Verif.Gen.Code.Pypi.
Module P := Verif.Gen.Parse.Pypi.
Module RM := Verif.Eco.Pypi.Range.

Section Range.
  Variable parseSpecifier : bytes -> option (list G.constraint).
  Variable compat : bytes -> option (list G.constraint).           (* parseCompatibleRelease *)
  Variable wildcard : bytes -> bytes -> option (list G.constraint). (* parseWildcardConstraint *)

  Local Opaque trim_space beq has_prefix has_suffix.

  (* parseSingleConstraint: 8 operators, one iteration each *)
  Theorem parseSingleConstraint_pypi_no_panic : forall fuel c,
    (8 < fuel)%nat -> finished (P.parseSingleConstraint compat wildcard fuel c).
  Proof.
    intros fuel c Hf. unfold P.parseSingleConstraint. cbv zeta.
    apply (ops_loop_finished [$"==="; $"~="; $"=="; $"!="; $"<="; $">="; $"<"; $">"] (trim_space c)
             (fun op sl =>
                if beq (trim_space sl) [] then Done (Ret None)
                else if beq op $"~=" then Done (Ret (compat (trim_space sl)))
                else if andb (orb (beq op $"==") (beq op $"!=")) (has_suffix $".*" (trim_space sl))
                then Done (Ret (wildcard op (trim_space sl)))
                else Done (Ret (Some [G.mk_constraint op (trim_space sl) ([] : bytes)])))).
    - intros op _ _. destruct (beq (trim_space _) []); [eauto|].
      destruct (beq op _); [eauto|]. destruct (andb _ _); eauto.
    - cbn. lia.
    - cbn [length]. lia.
    - intros [k|r]; np.
  Qed.

  (* NewVersionRange is a pure function of the translation: nothing in it can panic *)
  Theorem newversionrange_pypi_no_panic : forall e s,
    finished (Done (P.Ecosystem_NewVersionRange parseSpecifier e s)).
  Proof. intros e s. apply finished_Done. Qed.
End Range.
Print Assumptions parseSingleConstraint_pypi_no_panic.
Print Assumptions newversionrange_pypi_no_panic.

(* ---------- the ties to the model (Eco/Pypi/Range.v) ---------- *)

(* the Go value of a model constraint: the same three texts *)
Definition conc_c (c : RM.constraint) : G.constraint :=
  G.mk_constraint (RM.c_op c) (RM.c_ver c) (RM.c_upper c).
Definition conc (r : RM.range) : G.VersionRange :=
  G.mk_VersionRange (map conc_c (RM.r_cs r)) (RM.r_orig r).

Section Tie.
  Variable vok : bytes -> bool.
  Variable parseSpecifier : bytes -> option (list G.constraint).
  Variable compat : bytes -> option (list G.constraint).           (* parseCompatibleRelease *)
  Variable wildcard : bytes -> bytes -> option (list G.constraint). (* parseWildcardConstraint *)

  Local Opaque trim_space has_prefix has_suffix.

  (* parseSingleConstraint computes the model's parse_single, GIVEN that the two untranslated
     desugaring functions return what the model's parse_compatible / parse_wildcard describe *)
  Hypothesis compat_agrees : forall v, compat v = option_map (map conc_c) (RM.parse_compatible vok v).
  Hypothesis wildcard_agrees : forall op v,
    wildcard op v = option_map (map conc_c) (RM.parse_wildcard vok op v).

  Theorem tie_parse_pypi_parseSingleConstraint : forall fuel c,
    (8 < fuel)%nat ->
    P.parseSingleConstraint compat wildcard fuel c =
    Done (option_map (map conc_c) (RM.parse_single vok c)).
  Proof.
    intros fuel c Hf. unfold P.parseSingleConstraint, RM.parse_single. cbv zeta.
    match goal with |- context [while fuel ?b 0] =>
      change b with (ops_body [$"==="; $"~="; $"=="; $"!="; $"<="; $">="; $"<"; $">"] (trim_space c)
             (fun op sl =>
                if beq (trim_space sl) [] then Done (Ret None)
                else if beq op $"~=" then Done (Ret (compat (trim_space sl)))
                else if andb (orb (beq op $"==") (beq op $"!=")) (has_suffix $".*" (trim_space sl))
                then Done (Ret (wildcard op (trim_space sl)))
                else Done (Ret (Some [G.mk_constraint op (trim_space sl) ([] : bytes)]))))
    end.
    rewrite (ops_loop_result _ _ _
               (fun op sl =>
                  if beq (trim_space sl) [] then None
                  else if beq op $"~=" then compat (trim_space sl)
                  else if andb (orb (beq op $"==") (beq op $"!=")) (has_suffix $".*" (trim_space sl))
                  then wildcard op (trim_space sl)
                  else Some [G.mk_constraint op (trim_space sl) ([] : bytes)])).
    - cbn [bind]. change RM.pypi_ops with [$"==="; $"~="; $"=="; $"!="; $"<="; $">="; $"<"; $">"].
      destruct (first_prefix _ _) as [[op rest]|]; [|reflexivity].
      rewrite beq_nil_nonempty. destruct (trim_space rest) as [|x t] eqn:ER; [reflexivity|].
      cbn [nonempty negb]. destruct (beq op $"~="); [apply f_equal, compat_agrees|].
      destruct (andb _ _); [apply f_equal, wildcard_agrees | reflexivity].
    - intros op. destruct (beq (trim_space _) []); [reflexivity|].
      destruct (beq op _); [reflexivity|]. destruct (andb _ _); reflexivity.
    - cbn. lia.
    - cbn [length]. lia.
  Qed.

  (* NewVersionRange (a pure function of the translation) computes the model's parse_range, GIVEN
     that the untranslated parseSpecifier returns what the model's parse_specifier describes *)
  Hypothesis parseSpecifier_agrees : forall t,
    parseSpecifier t = option_map (map conc_c) (RM.parse_specifier vok t).

  Theorem tie_parse_pypi_newversionrange : forall e s,
    P.Ecosystem_NewVersionRange parseSpecifier e s = option_map conc (RM.parse_range vok s).
  Proof.
    intros e s. unfold P.Ecosystem_NewVersionRange, RM.parse_range. cbv zeta.
    rewrite beq_nil_nonempty. destruct (trim_space s) as [|x t] eqn:E; [reflexivity|].
    cbn [nonempty negb]. rewrite parseSpecifier_agrees.
    destruct (RM.parse_specifier vok (x :: t)); reflexivity.
  Qed.
End Tie.
Print Assumptions tie_parse_pypi_parseSingleConstraint.
Print Assumptions tie_parse_pypi_newversionrange.
