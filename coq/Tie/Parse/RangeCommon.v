(* Tie/Parse/RangeCommon.v — lemmas shared by the no-panic theorems about the generated RANGE
   parsers (Tie/Parse/<Eco>Range.v):

   * lengths: a prefix is no longer than the text, every piece of split_c / fields is no longer
     than the text, the number of pieces is at most length + 1;
   * [ops_loop_finished]: the loop `for _, op := range operators { if strings.HasPrefix(s, op)
     { .. s[len(op):] ..; return } }` — the slice is guarded by HasPrefix;
   * [parts_loop_finished]: the loop `for _, part := range parts { part = TrimSpace(part);
     if part == "" { continue }; c, err := parse(part); if err != nil { return }; cs = append(cs, c) }`;
   * [range_loop_finished]: any `for k, x := range xs` loop whose body either leaves or goes on
     with k+1 (the state is a cursor and an accumulator). *)
From Coq Require Import ZArith List Ascii Bool Lia.
From Verif.Base Require Import Bytes GoNum Imp ImpFacts ImpErr.
From Verif.Tie.Parse Require Import Common.
Import ListNotations.
Local Open Scope Z_scope.

(* ---------- lengths ---------- *)

Lemma has_prefix_length (p s : bytes) : has_prefix p s = true -> (length p <= length s)%nat.
Proof.
  revert s. induction p as [|x p IH]; intros [|y s] H; cbn [has_prefix length] in *; try lia; try discriminate.
  apply andb_prop in H as [_ H]. apply IH in H. lia.
Qed.

Lemma has_suffix_length (p s : bytes) : has_suffix p s = true -> (length p <= length s)%nat.
Proof. unfold has_suffix. intros H. apply has_prefix_length in H. rewrite !rev_length in H. exact H. Qed.

Lemma split_c_In_length c (s f : bytes) : In f (split_c c s) -> (length f <= length s)%nat.
Proof.
  revert f. induction s as [|x s IH]; intros f H; cbn [split_c] in H.
  - destruct H as [<-|[]]. cbn. lia.
  - destruct (ceqb c x).
    + destruct H as [<-|H]; cbn [length]; [lia|]. apply IH in H. lia.
    + destruct (split_c c s) as [|g gs] eqn:E.
      * destruct H as [<-|[]]. cbn [length]. lia.
      * destruct H as [<-|H]; cbn [length].
        -- specialize (IH g (or_introl eq_refl)). lia.
        -- specialize (IH f (or_intror H)). lia.
Qed.

Lemma fields_aux_In_length cur (s f : bytes) :
  In f (fields_aux cur s) -> (length f <= length cur + length s)%nat.
Proof.
  revert cur f. induction s as [|x s IH]; intros cur f H; cbn [fields_aux] in H.
  - destruct cur; [destruct H|]. destruct H as [<-|[]]. rewrite rev_length. lia.
  - cbn [length]. destruct (is_space x).
    + destruct cur as [|y cur].
      * apply IH in H. cbn [length] in *. lia.
      * destruct H as [<-|H]; [rewrite rev_length; lia|]. apply IH in H. cbn [length] in *. lia.
    + apply IH in H. cbn [length] in H. lia.
Qed.

Lemma fields_In_length (s f : bytes) : In f (fields s) -> (length f <= length s)%nat.
Proof. intros H. apply fields_aux_In_length in H. cbn [length] in H. lia. Qed.

Lemma fields_aux_length_le cur (s : bytes) : (length (fields_aux cur s) <= S (length s))%nat.
Proof.
  revert cur. induction s as [|x s IH]; intros cur; cbn [fields_aux length].
  - destruct cur; cbn; lia.
  - destruct (is_space x).
    + destruct cur; cbn [length]; specialize (IH []); lia.
    + specialize (IH (x :: cur)). lia.
Qed.

Lemma fields_length_le (s : bytes) : (length (fields s) <= S (length s))%nat.
Proof. apply fields_aux_length_le. Qed.

Lemma replace_c_length a b (s : bytes) : length (replace_c a b s) = length s.
Proof. apply map_length. Qed.

Lemma skipn_length_le {A} n (s : list A) : (length (skipn n s) <= length s)%nat.
Proof. rewrite skipn_length. lia. Qed.

Lemma firstn_length_le' {A} n (s : list A) : (length (firstn n s) <= length s)%nat.
Proof. rewrite firstn_length. lia. Qed.

(* the guarded slice s[len(op):] *)
Lemma slice_from_prefix (op s : bytes) :
  has_prefix op s = true -> slice_from s (Z.of_nat (length op)) = Done (skipn (length op) s).
Proof.
  intros H. apply has_prefix_length in H.
  rewrite slice_from_Done by lia. rewrite Nat2Z.id. reflexivity.
Qed.

(* s[:len(s)-len(suf)] under HasSuffix *)
Lemma slice_to_suffix (suf s : bytes) :
  has_suffix suf s = true ->
  slice_to s (Z.of_nat (length s) - Z.of_nat (length suf)) =
  Done (firstn (length s - length suf) s).
Proof.
  intros H. apply has_suffix_length in H.
  rewrite slice_to_in_range by (unfold len; lia). f_equal. f_equal. lia.
Qed.

Lemma finished_inv {A} (r : res A) : finished r -> exists a, r = Done a.
Proof. exact (fun H => H). Qed.

(* ---------- for k, x := range xs ---------- *)

Section RangeLoop.
  Context {A Acc R : Type}.
  Variable xs : list A.
  (* what the body does with the element under the cursor *)
  Variable H : Z -> A -> Acc -> res (step (Z * Acc) R).

  Definition range_body : Z * Acc -> res (step (Z * Acc) R) :=
    fun '(k, acc) =>
      if Z.ltb k (Z.of_nat (length xs)) then bind (idx xs k) (fun x => H k x acc)
      else Done (Break (k, acc)).

  Hypothesis H_ok : forall k x acc, 0 <= k < Z.of_nat (length xs) -> In x xs ->
    match H k x acc with
    | Done (Next (k', _)) => k' = wrap64 (k + 1)
    | Done _ => True
    | _ => False
    end.

  Lemma range_loop_step (Hfit : Z.of_nat (length xs) < 2 ^ 63) :
    forall st, 0 <= fst st <= Z.of_nat (length xs) ->
    step_ok range_body (fun st => 0 <= fst st <= Z.of_nat (length xs))
            (fun st => Z.to_nat (Z.of_nat (length xs) - fst st)) (fun _ => True) (fun _ => True) st.
  Proof.
    intros [k acc] Hk. cbn [fst] in Hk. unfold step_ok, range_body.
    destruct (Z.ltb_spec k (Z.of_nat (length xs))) as [Lt|Ge]; [|exact I].
    destruct (idx_lt_Done xs k) as (x & E & N); [lia|]. rewrite E. cbn [bind].
    pose proof (H_ok k x acc (conj (proj1 Hk) Lt) (nth_error_In _ _ N)) as B.
    destruct (H k x acc) as [[[k' acc']|?|?]| |]; try exact B; try exact I.
    subst k'. cbn [fst]. rewrite (wrap64_succ_lt k (Z.of_nat (length xs))) by lia. lia.
  Qed.

  Lemma range_loop_finished {B} (fuel : nat) (acc : Acc) (k : exit (Z * Acc) R -> res B) :
    Z.of_nat (length xs) < 2 ^ 63 -> (length xs < fuel)%nat ->
    (forall x, finished (k x)) ->
    finished (bind (while fuel range_body (0, acc)) k).
  Proof.
    intros Hfit Hf Hk.
    apply (finished_while_bind fuel range_body (0, acc) k
             (fun st => 0 <= fst st <= Z.of_nat (length xs))
             (fun st => Z.to_nat (Z.of_nat (length xs) - fst st))).
    - apply range_loop_step. exact Hfit.
    - cbn [fst]. lia.
    - cbn [fst]. lia.
    - exact Hk.
  Qed.
End RangeLoop.

(* the same with the cursor as the whole state *)
Section RangeLoop0.
  Context {A R : Type}.
  Variable xs : list A.
  Variable H : Z -> A -> res (step Z R).

  Definition range_body0 : Z -> res (step Z R) :=
    fun k =>
      if Z.ltb k (Z.of_nat (length xs)) then bind (idx xs k) (fun x => H k x)
      else Done (Break k).

  Hypothesis H_ok : forall k x, 0 <= k < Z.of_nat (length xs) -> In x xs ->
    match H k x with
    | Done (Next k') => k' = wrap64 (k + 1)
    | Done _ => True
    | _ => False
    end.

  Lemma range_loop0_finished {B} (fuel : nat) (k : exit Z R -> res B) :
    Z.of_nat (length xs) < 2 ^ 63 -> (length xs < fuel)%nat ->
    (forall x, finished (k x)) ->
    finished (bind (while fuel range_body0 0) k).
  Proof.
    intros Hfit Hf Hk.
    apply (finished_while_bind fuel range_body0 0 k
             (fun st => 0 <= st <= Z.of_nat (length xs))
             (fun st => Z.to_nat (Z.of_nat (length xs) - st))).
    - intros st Hst. unfold step_ok, range_body0.
      destruct (Z.ltb_spec st (Z.of_nat (length xs))) as [Lt|Ge]; [|exact I].
      destruct (idx_lt_Done xs st) as (x & E & N); [lia|]. rewrite E. cbn [bind].
      pose proof (H_ok st x (conj (proj1 Hst) Lt) (nth_error_In _ _ N)) as B0.
      destruct (H st x) as [[k'|?|?]| |]; try exact B0; try exact I.
      subst k'. rewrite (wrap64_succ_lt st (Z.of_nat (length xs))) by lia. lia.
    - lia.
    - lia.
    - exact Hk.
  Qed.
End RangeLoop0.

(* ---------- the operator loop ---------- *)

Section OpsLoop.
  Context {R : Type}.
  Variable ops : list bytes.
  Variable s : bytes.
  (* what happens with the operator and the rest of the text once the prefix test succeeds *)
  Variable K : bytes -> bytes -> res (step Z R).

  Definition ops_body : Z -> res (step Z R) :=
    fun k =>
      if Z.ltb k (Z.of_nat (length ops)) then
        bind (idx ops k) (fun op =>
          if has_prefix op s then
            bind (slice_from s (Z.of_nat (length op))) (fun sl => K op sl)
          else Done (Next (wrap64 (k + 1))))
      else Done (Break k).

  Hypothesis K_ok : forall op, In op ops -> has_prefix op s = true ->
    exists r, K op (skipn (length op) s) = Done (Ret r).

  Lemma ops_loop_finished {B} (fuel : nat) (k : exit Z R -> res B) :
    Z.of_nat (length ops) < 2 ^ 63 -> (length ops < fuel)%nat ->
    (forall x, finished (k x)) ->
    finished (bind (while fuel ops_body 0) k).
  Proof.
    intros Hfit Hf Hk.
    apply (range_loop0_finished ops
             (fun k op => if has_prefix op s then
                            bind (slice_from s (Z.of_nat (length op))) (fun sl => K op sl)
                          else Done (Next (wrap64 (k + 1)))) ); try assumption.
    intros j op Hj Hin. destruct (has_prefix op s) eqn:E; [|reflexivity].
    rewrite (slice_from_prefix _ _ E). cbn [bind].
    destruct (K_ok op Hin E) as [r ->]. exact I.
  Qed.
End OpsLoop.

(* ---------- the loop over the parts of a range ---------- *)

Section PartsLoop.
  Context {C R' : Type}.
  Variable xs : list bytes.
  Variable F : bytes -> res (option C).     (* the constraint parser, on the trimmed part *)

  Definition parts_body : Z * list C -> res (step (Z * list C) (option R')) :=
    fun '(k, cs) =>
      if Z.ltb k (Z.of_nat (length xs)) then
        bind (idx xs k) (fun part =>
          let part := trim_space part in
          if beq part [] then Done (Next (wrap64 (k + 1), cs))
          else bind (F part) (fun r =>
            match r with
            | None => Done (Ret None)
            | Some c => Done (Next (wrap64 (k + 1), cs ++ [c]))
            end))
      else Done (Break (k, cs)).

  Hypothesis F_ok : forall part, In part xs -> finished (F (trim_space part)).

  Lemma parts_loop_finished {B} (fuel : nat) (k : exit (Z * list C) (option R') -> res B) :
    Z.of_nat (length xs) < 2 ^ 63 -> (length xs < fuel)%nat ->
    (forall x, finished (k x)) ->
    finished (bind (while fuel parts_body (0, [])) k).
  Proof.
    intros Hfit Hf Hk.
    apply (range_loop_finished xs
             (fun k part cs =>
                let part := trim_space part in
                if beq part [] then Done (Next (wrap64 (k + 1), cs))
                else bind (F part) (fun r =>
                  match r with
                  | None => Done (Ret None)
                  | Some c => Done (Next (wrap64 (k + 1), cs ++ [c]))
                  end))); try assumption.
    intros j part cs Hj Hin. cbv zeta.
    destruct (beq (trim_space part) []); [reflexivity|].
    destruct (F_ok part Hin) as [r ->]. cbn [bind]. destruct r; [reflexivity | exact I].
  Qed.
End PartsLoop.
