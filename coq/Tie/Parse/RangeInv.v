(* Tie/Parse/RangeInv.v — further lemmas for the no-panic theorems about the generated RANGE
   parsers (on top of RangeCommon.v):

   * [range_loop_inv]: a `for k, x := range xs` loop with an invariant on the accumulator that may
     mention the prefix of xs processed so far, and a postcondition on the returned value; the
     result is given as an equation `while .. = Done x` (for loops nested in a loop body);
   * sums of lengths: the pieces of strings.Split(s, c) and their number add up to length s + 1,
     two neighbouring fields of strings.Fields(s) and the space between them fit into s;
   * [wrap64_small]. *)
From Coq Require Import ZArith List Ascii Bool Lia.
From Verif.Base Require Import Bytes GoNum Imp ImpFacts ImpErr.
From Verif.Tie.Parse Require Import Common RangeCommon RangeTie.
Import ListNotations.
Local Open Scope Z_scope.

Lemma wrap64_small (x : Z) : 0 <= x < 2 ^ 63 -> wrap64 x = x.
Proof.
  intros H. unfold wrap64, two64, two63.
  change (Z.of_N 18446744073709551616) with (2 ^ 64).
  change (Z.of_N 9223372036854775808) with (2 ^ 63).
  rewrite Z.mod_small by lia. destruct (Z.ltb_spec x (2 ^ 63)); lia.
Qed.

(* ---------- for k, x := range xs, with an invariant ---------- *)

Section RangeLoopInv.
  Context {A Acc R : Type}.
  Variable xs : list A.
  Variable H : Z -> A -> Acc -> res (step (Z * Acc) R).
  Variable I : list A -> Acc -> Prop.     (* the elements processed so far, the accumulator *)
  Variable Qr : R -> Prop.

  Hypothesis H_ok : forall pre x suf acc, xs = pre ++ x :: suf -> I pre acc ->
    match H (Z.of_nat (length pre)) x acc with
    | Done (Next (k', acc')) => k' = wrap64 (Z.of_nat (length pre) + 1) /\ I (pre ++ [x]) acc'
    | Done (Break _) => False
    | Done (Ret r) => Qr r
    | _ => False
    end.

  Lemma range_loop_inv_aux (Hfit : Z.of_nat (length xs) < 2 ^ 63) :
    forall suf pre fuel acc, xs = pre ++ suf -> I pre acc -> (length suf < fuel)%nat ->
    exists x, while fuel (range_body xs H) (Z.of_nat (length pre), acc) = Done x /\
              match x with Fell (_, acc') => I xs acc' | Returned r => Qr r end.
  Proof.
    induction suf as [|x t IH]; intros pre fuel acc E Hi Hf; (destruct fuel as [|fuel]; [cbn in Hf; lia|]);
      cbn [while]; unfold range_body at 1.
    - rewrite app_nil_r in E. subst pre. rewrite Z.ltb_irrefl.
      eexists. split; [reflexivity|]. exact Hi.
    - assert (L : length xs = (length pre + S (length t))%nat) by (rewrite E, app_length; reflexivity).
      destruct (Z.ltb_spec (Z.of_nat (length pre)) (Z.of_nat (length xs))) as [_|Ge]; [|lia].
      assert (IX : idx xs (Z.of_nat (length pre)) = Done x) by (rewrite E; apply idx_app_mid).
      rewrite IX. cbn [bind].
      pose proof (H_ok pre x t acc E Hi) as B.
      destruct (H (Z.of_nat (length pre)) x acc) as [[[k' acc']|?|r]| |]; try contradiction.
      + destruct B as [-> Hi'].
        rewrite (wrap64_succ_lt _ (Z.of_nat (length xs))) by lia.
        replace (Z.of_nat (length pre) + 1) with (Z.of_nat (length (pre ++ [x])))
          by (rewrite app_length; cbn [length]; lia).
        apply IH; [rewrite <- app_assoc; exact E | exact Hi' | cbn [length] in Hf; lia].
      + eexists. split; [reflexivity|]. exact B.
  Qed.

  Lemma range_loop_inv fuel acc :
    Z.of_nat (length xs) < 2 ^ 63 -> (length xs < fuel)%nat -> I [] acc ->
    exists x, while fuel (range_body xs H) (0, acc) = Done x /\
              match x with Fell (_, acc') => I xs acc' | Returned r => Qr r end.
  Proof. intros Hfit Hf Hi. exact (range_loop_inv_aux Hfit xs [] fuel acc eq_refl Hi Hf). Qed.
End RangeLoopInv.

(* ---------- sums of lengths ---------- *)

(* the bytes of the pieces plus one separator (or the end) each *)
Fixpoint total (l : list bytes) : nat :=
  match l with
  | [] => 0
  | p :: r => S (length p) + total r
  end.

Lemma total_app l1 l2 : total (l1 ++ l2) = (total l1 + total l2)%nat.
Proof. induction l1 as [|p r IH]; cbn [total app]; [reflexivity | rewrite IH; lia]. Qed.

Lemma split_c_total c (s : bytes) : (total (split_c c s) <= S (length s))%nat.
Proof.
  induction s as [|x s IH]; cbn [split_c total length]; [lia|].
  destruct (ceqb c x); cbn [total length]; [lia|].
  destruct (split_c c s) as [|f fs]; cbn [total length] in *; lia.
Qed.

Lemma fields_aux_total cur (s : bytes) :
  (total (fields_aux cur s) <= length cur + length s + 1)%nat.
Proof.
  revert cur. induction s as [|x s IH]; intros cur; cbn [fields_aux length].
  - destruct cur; cbn [total length]; [lia|]. rewrite rev_length. cbn [length]. lia.
  - destruct (is_space x).
    + destruct cur as [|y cur].
      * specialize (IH []). cbn [length] in IH. lia.
      * cbn [total]. rewrite rev_length. specialize (IH []). cbn [length] in *. lia.
    + specialize (IH (x :: cur)). cbn [length] in IH. lia.
Qed.

Lemma fields_total (s : bytes) : (total (fields s) <= S (length s))%nat.
Proof. pose proof (fields_aux_total [] s) as H. cbn [length] in H. unfold fields. lia. Qed.

Lemma total_nth (l : list bytes) i a :
  nth_error l i = Some a -> (S (length a) <= total l)%nat.
Proof.
  revert i. induction l as [|p r IH]; intros [|i] H; cbn [nth_error] in H; try discriminate; cbn [total].
  - injection H as <-. lia.
  - apply IH in H. lia.
Qed.

Lemma total_nth2 (l : list bytes) i a b :
  nth_error l i = Some a -> nth_error l (S i) = Some b ->
  (S (length a) + S (length b) <= total l)%nat.
Proof.
  revert i. induction l as [|p r IH]; intros [|i] Ha Hb; cbn [nth_error] in Ha, Hb; try discriminate; cbn [total].
  - injection Ha as <-. apply (total_nth r 0) in Hb. lia.
  - specialize (IH i Ha Hb). lia.
Qed.

(* two neighbouring fields, joined by one space, are no longer than the text *)
Lemma fields_neighbours (s : bytes) i a b :
  nth_error (fields s) i = Some a -> nth_error (fields s) (S i) = Some b ->
  (length a + 1 + length b <= length s)%nat.
Proof.
  intros Ha Hb. pose proof (total_nth2 _ _ _ _ Ha Hb). pose proof (fields_total s). lia.
Qed.

(* ---------- the result of a range loop whose body is known on the ELEMENTS of the list only
   (a callee inside the body may need fuel that depends on the element) ---------- *)

Section LoopResultIn.
  Context {A Acc R : Type}.
  Variable xs : list A.
  Variable H : Z -> A -> Acc -> res (step (Z * Acc) R).
  Variable g : A -> Acc -> R + Acc.
  Hypothesis H_spec : forall k x acc, In x xs ->
    H k x acc = match g x acc with inl r => Done (Ret r) | inr acc' => Done (Next (wrap64 (k + 1), acc')) end.

  Lemma range_loop_result_in_aux (Hfit : Z.of_nat (length xs) < 2 ^ 63) :
    forall suf pre fuel acc, xs = pre ++ suf -> (length suf < fuel)%nat ->
    while fuel (range_body xs H) (Z.of_nat (length pre), acc) =
    Done (match run g suf acc with inl r => Returned r | inr acc' => Fell (Z.of_nat (length xs), acc') end).
  Proof.
    induction suf as [|x t IH]; intros pre fuel acc E Hf; (destruct fuel as [|fuel]; [cbn in Hf; lia|]);
      cbn [while run]; unfold range_body at 1.
    - rewrite app_nil_r in E. subst pre. rewrite Z.ltb_irrefl. reflexivity.
    - assert (L : length xs = (length pre + S (length t))%nat) by (rewrite E, app_length; reflexivity).
      destruct (Z.ltb_spec (Z.of_nat (length pre)) (Z.of_nat (length xs))) as [_|Ge]; [|lia].
      assert (IX : idx xs (Z.of_nat (length pre)) = Done x) by (rewrite E; apply idx_app_mid).
      rewrite IX. cbn [bind]. rewrite H_spec by (rewrite E; apply in_or_app; right; left; reflexivity).
      destruct (g x acc) as [r|acc']; [reflexivity|].
      rewrite (wrap64_succ_lt _ (Z.of_nat (length xs))) by lia.
      replace (Z.of_nat (length pre) + 1) with (Z.of_nat (length (pre ++ [x])))
        by (rewrite app_length; cbn [length]; lia).
      apply IH; [rewrite <- app_assoc; exact E | cbn [length] in Hf; lia].
  Qed.

  Lemma range_loop_result_in fuel acc :
    Z.of_nat (length xs) < 2 ^ 63 -> (length xs < fuel)%nat ->
    while fuel (range_body xs H) (0, acc) =
    Done (match run g xs acc with inl r => Returned r | inr acc' => Fell (Z.of_nat (length xs), acc') end).
  Proof. intros Hfit Hf. exact (range_loop_result_in_aux Hfit xs [] fuel acc eq_refl Hf). Qed.
End LoopResultIn.
