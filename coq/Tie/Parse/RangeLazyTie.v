(* Tie/Parse/RangeLazyTie.v — the model side (Eco/RangeCore.v) for the ties of the range parsers
   that keep the bound as TEXT and parse it only in Contains (rc_eager = false: alpine, golang);
   the eager counterpart is RangeTie.v's ModelSide.  Also: strings.Contains(s, " ") is
   [contains_c " "]. *)
From Coq Require Import ZArith List Ascii Bool Lia.
From Verif.Base Require Import Bytes GoNum Imp ImpFacts ImpErr BytesFacts.
From Verif.Eco Require Import RangeCore.
From Verif.Tie.Parse Require Import Common RangeCommon RangeTie.
Import ListNotations.
Local Open Scope Z_scope.

Section ModelSideLazy.
  Context {GC : Type}.
  Variable V : Type.
  Variable vparse : bytes -> option V.
  Variable mk : bytes -> bytes -> GC.         (* the generated constraint record: operator, bound text *)
  Variable cfg : range_cfg.
  Hypothesis lazy : rc_eager cfg = false.

  Definition mkc (c : constraint) : GC := mk (fst c) (snd c).
  Definition lazy_pc (part : bytes) : option GC := option_map mkc (parse_constraint cfg part).

  Definition lazy_plain_g (part : bytes) (cs : list GC) : option (list GC) + list GC :=
    match lazy_pc part with
    | None => inl None
    | Some c => inr (cs ++ [c])
    end.

  Lemma run_lazy_plain : forall parts acc,
    run lazy_plain_g parts acc =
    match parse_constraints V vparse cfg parts with
    | None => inl None
    | Some l => inr (acc ++ map mkc l)
    end.
  Proof.
    induction parts as [|part r IH]; intros acc; cbn [run parse_constraints].
    - cbn. rewrite app_nil_r. reflexivity.
    - unfold lazy_plain_g at 1. unfold lazy_pc.
      destruct (parse_constraint cfg part) as [c|]; [|reflexivity].
      unfold bound_ok. rewrite lazy. cbn [option_map].
      rewrite IH. destruct (parse_constraints _ _ _ _) as [l|]; [|reflexivity].
      rewrite <- app_assoc. reflexivity.
  Qed.

  (* the loop that trims every part and skips the empty ones *)
  Definition lazy_parts_g (part : bytes) (cs : list GC) : option (list GC) + list GC :=
    let p := trim_space part in
    if beq p [] then inr cs else lazy_plain_g p cs.

  Lemma run_lazy_parts : forall parts acc,
    run lazy_parts_g parts acc =
    match parse_constraints V vparse cfg (filter nonempty (map trim_space parts)) with
    | None => inl None
    | Some l => inr (acc ++ map mkc l)
    end.
  Proof.
    intros parts acc. rewrite <- run_lazy_plain. revert acc.
    induction parts as [|part r IH]; intros acc; cbn [run map filter]; [reflexivity|].
    unfold lazy_parts_g at 1. cbv zeta. rewrite beq_nil_nonempty.
    destruct (nonempty (trim_space part)); cbn [negb run]; [|apply IH].
    destruct (lazy_plain_g _ _); [reflexivity | apply IH].
  Qed.
End ModelSideLazy.

(* strings.Contains(s, "c") for a single byte *)
Lemma contains_sub_single (c : ascii) (s : bytes) : contains_sub [c] s = contains_c c s.
Proof.
  unfold contains_sub, contains_c.
  induction s as [|x s IH]; [reflexivity|].
  cbn [cut has_prefix existsb]. destruct (ceqb c x); cbn [andb orb]; [reflexivity|].
  destruct (cut [c] s) as [[a b]|]; exact IH.
Qed.
