(* Tie/Parse/RangeOptTie.v — shared by the ties of the range parsers whose parseConstraint is
   `m := constraintPattern.FindStringSubmatch(c); op, v := m[1], TrimSpace(m[2]); if op == "" { op = "=" };
   NewVersion(v)` with constraintPattern = ^(op1|op2|..)?(.+)$ (alpm, github, mattermost, hex;
   apache's own copy is in ApacheRange.v):

   * [ref_cmatch ops]: what that pattern returns on a text without white space;
   * [pc_body]: the shape of the generated parseConstraint, and [pc_body_model]: under the
     oracle-agreement hypothesis it computes RangeTie's [model_pc] (RangeCore's RegexpOpt style);
   * [run_skip]: a loop that skips some elements is the loop over the filtered list;
   * [fields_In_forallb]: a field of an all-p text is all-p. *)
From Coq Require Import ZArith List Ascii Bool Lia.
From Verif.Base Require Import Bytes GoNum Imp ImpFacts ImpErr BytesFacts.
From Verif.Eco Require Import RangeCore.
From Verif.Tie.Parse Require Import Common RangeCommon RangeTie.
Import ListNotations.
Local Open Scope Z_scope.

(* ^(op1|op2|..)?(.+)$ on a text without white space: [whole; operator; rest], the first
   alternative that leaves a non-empty rest, or no operator (Go reports "") and the whole text *)
Definition ref_cmatch (ops : list bytes) (t : bytes) : option (list bytes) :=
  match t with
  | [] => None
  | _ => match first_prefix_ne ops t with
         | Some (op, rest) => Some [t; op; rest]
         | None => Some [t; []; t]
         end
  end.

Lemma first_prefix_ne_In ops t op rest : first_prefix_ne ops t = Some (op, rest) -> In op ops.
Proof.
  induction ops as [|o r IH]; cbn [first_prefix_ne]; [discriminate|].
  destruct (has_prefix o t).
  - destruct (skipn (length o) t); [intros H; right; exact (IH H)|].
    intros H. injection H as <- _. left. reflexivity.
  - intros H. right. exact (IH H).
Qed.

Lemma first_prefix_ne_rest ops t op rest :
  first_prefix_ne ops t = Some (op, rest) -> rest = skipn (length op) t.
Proof.
  induction ops as [|o r IH]; cbn [first_prefix_ne]; [discriminate|].
  destruct (has_prefix o t); [|exact IH].
  destruct (skipn (length o) t) eqn:E; [exact IH|].
  intros H. injection H as <- <-. symmetry. exact E.
Qed.

Lemma ops_nonempty_In (ops : list bytes) op :
  forallb nonempty ops = true -> In op ops -> beq op [] = false.
Proof.
  intros H Hin. rewrite forallb_forall in H. specialize (H op Hin). destruct op; [discriminate | reflexivity].
Qed.

Section PcBody.
  Context {GV GC : Type}.
  Variable cfind : bytes -> option (list bytes).
  Variable NVr : bytes -> res (option GV).       (* NewVersion at the fuel / ecosystem in question *)
  Variable mk : bytes -> GV -> GC.

  Definition pc_body (c : bytes) : res (option GC) :=
    match cfind c with
    | None => Done None
    | Some matches =>
      bind (idx matches 1) (fun operator =>
      bind (idx matches 2) (fun e1 =>
      bind (NVr (trim_space e1)) (fun r =>
        match r with
        | None => Done None
        | Some version => Done (Some (mk (if beq operator [] then $"=" else operator) version))
        end)))
    end.

  Variable nv : bytes -> option GV.
  Variable cfg : range_cfg.
  Hypothesis style : rc_style cfg = RegexpOpt.
  Hypothesis ops_ne : forallb nonempty (rc_ops cfg) = true.

  Lemma pc_body_model c :
    no_space c = true ->
    cfind c = ref_cmatch (rc_ops cfg) c ->
    (forall n, NVr (trim_space (skipn n c)) = Done (nv (trim_space (skipn n c)))) ->
    pc_body c = Done (model_pc nv mk cfg c).
  Proof.
    intros Hc Hfind HNV. unfold pc_body. rewrite Hfind.
    unfold ref_cmatch, model_pc, parse_constraint. rewrite style. cbv iota zeta.
    rewrite (trim_space_no_space c Hc).
    destruct c as [|x c]; [reflexivity|].
    destruct (first_prefix_ne (rc_ops cfg) (x :: c)) as [[op rest]|] eqn:F.
    - repeat (erewrite idx_known by reflexivity; cbn [bind]).
      pose proof (first_prefix_ne_rest _ _ _ _ F) as ->.
      rewrite HNV. cbn [bind]. unfold conc1. cbn [fst snd].
      rewrite (ops_nonempty_In _ _ ops_ne (first_prefix_ne_In _ _ _ _ F)).
      destruct (nv _); reflexivity.
    - repeat (erewrite idx_known by reflexivity; cbn [bind]).
      pose proof (HNV 0%nat) as H0. cbn [skipn] in H0. rewrite H0. cbn [bind]. unfold conc1. cbn [fst snd].
      change (beq [] []) with true. cbv iota.
      destruct (nv _); reflexivity.
  Qed.
End PcBody.

(* a loop that skips the elements satisfying [p] *)
Section RunSkip.
  Context {A Acc R : Type}.
  Variable p : A -> bool.
  Variable g : A -> Acc -> R + Acc.

  Lemma run_skip : forall xs acc,
    run (fun x acc => if p x then inr acc else g x acc) xs acc =
    run g (filter (fun x => negb (p x)) xs) acc.
  Proof.
    induction xs as [|x t IH]; intros acc; cbn [run filter]; [reflexivity|].
    destruct (p x); cbn [negb run]; [apply IH|].
    destruct (g x acc); [reflexivity | apply IH].
  Qed.
End RunSkip.

(* every field of an all-p text is all-p *)
Lemma fields_aux_In_forallb (p : ascii -> bool) cur s f :
  forallb p cur = true -> forallb p s = true -> In f (fields_aux cur s) -> forallb p f = true.
Proof.
  revert cur f. induction s as [|x s IH]; intros cur f Hc Hs H; cbn [fields_aux] in H.
  - destruct cur; [destruct H|]. destruct H as [<-|[]]. rewrite forallb_rev. exact Hc.
  - cbn [forallb] in Hs. apply andb_prop in Hs as [Hx Hs]. destruct (is_space x).
    + destruct cur as [|y cur].
      * exact (IH [] f eq_refl Hs H).
      * destruct H as [<-|H]; [rewrite forallb_rev; exact Hc|]. exact (IH [] f eq_refl Hs H).
    + apply (IH (x :: cur) f); [cbn [forallb]; rewrite Hx, Hc; reflexivity | exact Hs | exact H].
Qed.

Lemma fields_In_forallb (p : ascii -> bool) s f :
  forallb p s = true -> In f (fields s) -> forallb p f = true.
Proof. intros Hs H. exact (fields_aux_In_forallb p [] s f eq_refl Hs H). Qed.

(* a non-empty trimmed text has at least one field *)
Lemma trim_space_hd_nonspace s x t : trim_space s = x :: t -> is_space x = false.
Proof.
  unfold trim_space. destruct (trim_left s) as [|a r] eqn:E; [discriminate|].
  pose proof (trim_left_nonspace_hd _ _ _ E) as Ha.
  rewrite trim_right_cons_nonspace by exact Ha. intros H. injection H as <- _. exact Ha.
Qed.

Lemma fields_aux_cur_nonempty cur s : cur <> [] -> fields_aux cur s <> [].
Proof.
  revert cur. induction s as [|c s IH]; intros cur Hc; cbn [fields_aux].
  - destruct cur; [congruence | discriminate].
  - destruct (is_space c).
    + destruct cur; [congruence | discriminate].
    + apply IH. discriminate.
Qed.

Lemma fields_hd_nonspace x t : is_space x = false -> fields (x :: t) <> [].
Proof.
  intros H. unfold fields. cbn [fields_aux]. rewrite H. apply fields_aux_cur_nonempty. discriminate.
Qed.

Lemma fields_trim_space_nonempty s x t : trim_space s = x :: t -> fields (trim_space s) <> [].
Proof. intros E. rewrite E. apply fields_hd_nonspace. exact (trim_space_hd_nonspace _ _ _ E). Qed.
