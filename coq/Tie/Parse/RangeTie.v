(* Tie/Parse/RangeTie.v — the RESULT of the loops of the generated range parsers, as functions of
   the list they run over (for the ties of Tie/Parse/<Eco>Range.v to the models of Eco/RangeCore.v):

   * [range_loop0_result]: `for _, x := range xs { if r, ok := g(x); ok { return r } }` is
     [first_some g xs];
   * [range_loop_result]: `for _, x := range xs { acc = .. or return }` is the fold [run g xs acc];
   * [ops_loop_result]: the operator loop is RangeCore's [first_prefix]. *)
From Coq Require Import ZArith List Ascii Bool Lia.
From Verif.Base Require Import Bytes GoNum Imp ImpFacts ImpErr BytesFacts.
From Verif.Eco Require Import RangeCore.
From Verif.Tie.Parse Require Import Common RangeCommon.
Import ListNotations.
Local Open Scope Z_scope.

Lemma idx_app_mid {A} (pre suf : list A) x : idx (pre ++ x :: suf) (Z.of_nat (length pre)) = Done x.
Proof.
  apply idx_Done. split.
  - unfold len. rewrite app_length. cbn [length]. lia.
  - rewrite Nat2Z.id. rewrite nth_error_app2 by lia. rewrite Nat.sub_diag. reflexivity.
Qed.

Section Loop0Result.
  Context {A R : Type}.
  Variable xs : list A.
  Variable H : Z -> A -> res (step Z R).
  Variable g : A -> option R.
  Hypothesis H_spec : forall k x,
    H k x = match g x with Some r => Done (Ret r) | None => Done (Next (wrap64 (k + 1))) end.

  Fixpoint first_some (l : list A) : option R :=
    match l with
    | [] => None
    | x :: t => match g x with Some r => Some r | None => first_some t end
    end.

  Lemma range_loop0_result_aux (Hfit : Z.of_nat (length xs) < 2 ^ 63) :
    forall suf pre fuel, xs = pre ++ suf -> (length suf < fuel)%nat ->
    while fuel (range_body0 xs H) (Z.of_nat (length pre)) =
    Done (match first_some suf with Some r => Returned r | None => Fell (Z.of_nat (length xs)) end).
  Proof.
    induction suf as [|x t IH]; intros pre fuel E Hf; (destruct fuel as [|fuel]; [cbn in Hf; lia|]);
      cbn [while first_some]; unfold range_body0 at 1.
    - rewrite app_nil_r in E. subst pre. rewrite Z.ltb_irrefl. reflexivity.
    - assert (L : length xs = (length pre + S (length t))%nat) by (rewrite E, app_length; reflexivity).
      destruct (Z.ltb_spec (Z.of_nat (length pre)) (Z.of_nat (length xs))) as [_|Ge]; [|lia].
      rewrite E at 1. rewrite idx_app_mid. cbn [bind]. rewrite H_spec.
      destruct (g x) as [r|]; [reflexivity|].
      rewrite (wrap64_succ_lt _ (Z.of_nat (length xs))) by lia.
      replace (Z.of_nat (length pre) + 1) with (Z.of_nat (length (pre ++ [x])))
        by (rewrite app_length; cbn [length]; lia).
      apply IH; [rewrite <- app_assoc; exact E | cbn [length] in Hf; lia].
  Qed.

  Lemma range_loop0_result fuel :
    Z.of_nat (length xs) < 2 ^ 63 -> (length xs < fuel)%nat ->
    while fuel (range_body0 xs H) 0 =
    Done (match first_some xs with Some r => Returned r | None => Fell (Z.of_nat (length xs)) end).
  Proof. intros Hfit Hf. exact (range_loop0_result_aux Hfit xs [] fuel eq_refl Hf). Qed.
End Loop0Result.

Section LoopResult.
  Context {A Acc R : Type}.
  Variable xs : list A.
  Variable H : Z -> A -> Acc -> res (step (Z * Acc) R).
  Variable g : A -> Acc -> R + Acc.
  Hypothesis H_spec : forall k x acc,
    H k x acc = match g x acc with inl r => Done (Ret r) | inr acc' => Done (Next (wrap64 (k + 1), acc')) end.

  Fixpoint run (l : list A) (acc : Acc) : R + Acc :=
    match l with
    | [] => inr acc
    | x :: t => match g x acc with inl r => inl r | inr acc' => run t acc' end
    end.

  Lemma range_loop_result_aux (Hfit : Z.of_nat (length xs) < 2 ^ 63) :
    forall suf pre fuel acc, xs = pre ++ suf -> (length suf < fuel)%nat ->
    while fuel (range_body xs H) (Z.of_nat (length pre), acc) =
    Done (match run suf acc with inl r => Returned r | inr acc' => Fell (Z.of_nat (length xs), acc') end).
  Proof.
    induction suf as [|x t IH]; intros pre fuel acc E Hf; (destruct fuel as [|fuel]; [cbn in Hf; lia|]);
      cbn [while run]; unfold range_body at 1.
    - rewrite app_nil_r in E. subst pre. rewrite Z.ltb_irrefl. reflexivity.
    - assert (L : length xs = (length pre + S (length t))%nat) by (rewrite E, app_length; reflexivity).
      destruct (Z.ltb_spec (Z.of_nat (length pre)) (Z.of_nat (length xs))) as [_|Ge]; [|lia].
      rewrite E at 1. rewrite idx_app_mid. cbn [bind]. rewrite H_spec.
      destruct (g x acc) as [r|acc']; [reflexivity|].
      rewrite (wrap64_succ_lt _ (Z.of_nat (length xs))) by lia.
      replace (Z.of_nat (length pre) + 1) with (Z.of_nat (length (pre ++ [x])))
        by (rewrite app_length; cbn [length]; lia).
      apply IH; [rewrite <- app_assoc; exact E | cbn [length] in Hf; lia].
  Qed.

  Lemma range_loop_result fuel acc :
    Z.of_nat (length xs) < 2 ^ 63 -> (length xs < fuel)%nat ->
    while fuel (range_body xs H) (0, acc) =
    Done (match run xs acc with inl r => Returned r | inr acc' => Fell (Z.of_nat (length xs), acc') end).
  Proof. intros Hfit Hf. exact (range_loop_result_aux Hfit xs [] fuel acc eq_refl Hf). Qed.
End LoopResult.

(* the operator loop computes first_prefix *)
Section OpsResult.
  Context {R : Type}.
  Variable ops : list bytes.
  Variable s : bytes.
  Variable K : bytes -> bytes -> res (step Z R).
  Variable K' : bytes -> bytes -> R.
  Hypothesis K_spec : forall op, K op (skipn (length op) s) = Done (Ret (K' op (skipn (length op) s))).

  Lemma ops_loop_result fuel :
    Z.of_nat (length ops) < 2 ^ 63 -> (length ops < fuel)%nat ->
    while fuel (ops_body ops s K) 0 =
    Done (match first_prefix ops s with
          | Some (op, rest) => Returned (K' op rest)
          | None => Fell (Z.of_nat (length ops))
          end).
  Proof.
    intros Hfit Hf.
    change (ops_body ops s K) with
      (range_body0 ops (fun k op => if has_prefix op s then
                            bind (slice_from s (Z.of_nat (length op))) (fun sl => K op sl)
                          else Done (Next (wrap64 (k + 1))))).
    rewrite (range_loop0_result ops _
               (fun op => if has_prefix op s then Some (K' op (skipn (length op) s)) else None)).
    - f_equal. clear Hfit Hf. generalize (Z.of_nat (length ops)). intros n.
      induction ops as [|op r IH]; cbn [first_some first_prefix]; [reflexivity|].
      destruct (has_prefix op s); [reflexivity | exact IH].
    - intros k op. destruct (has_prefix op s) eqn:E; [|reflexivity].
      rewrite (slice_from_prefix _ _ E). cbn [bind]. apply K_spec.
    - exact Hfit.
    - exact Hf.
  Qed.
End OpsResult.

(* ---------- the model side (Eco/RangeCore.v, eager parsers) ---------- *)

Definition nonempty (p : bytes) : bool := match p with [] => false | _ => true end.

Lemma beq_nil_nonempty (p : bytes) : beq p [] = negb (nonempty p).
Proof. destruct p; reflexivity. Qed.

Section ModelSide.
  Context {GV GC : Type}.
  Variable nv : bytes -> option GV.          (* NewVersion as a function of the bound text *)
  Variable mk : bytes -> GV -> GC.           (* the generated constraint record *)
  Variable cfg : range_cfg.
  Hypothesis eager : rc_eager cfg = true.

  (* the Go value of a model constraint (operator text, bound text) *)
  Definition conc1 (c : constraint) : option GC := option_map (mk (fst c)) (nv (snd c)).
  Definition conc_cs (cs : list constraint) : list GC :=
    flat_map (fun c => match conc1 c with Some x => [x] | None => [] end) cs.

  (* parse one constraint text and its bound *)
  Definition model_pc (part : bytes) : option GC :=
    match parse_constraint cfg part with
    | None => None
    | Some c => conc1 c
    end.

  Lemma model_pc_prefix_err part :
    rc_style cfg = HasPrefixErr ->
    model_pc part =
    match first_prefix (rc_ops cfg) (trim_space part) with
    | Some (op, rest) =>
        if beq (trim_space rest) [] then None else option_map (mk op) (nv (trim_space rest))
    | None => option_map (mk $"=") (nv (trim_space part))
    end.
  Proof.
    intros St. unfold model_pc, parse_constraint. rewrite St.
    destruct (first_prefix _ _) as [[op rest]|]; [|reflexivity].
    cbv zeta. destruct (trim_space rest); reflexivity.
  Qed.

  (* the body of the loop over the parts: trim, skip the empty ones, parse, append *)
  Definition parts_g (part : bytes) (cs : list GC) : option (list GC) + list GC :=
    let p := trim_space part in
    if beq p [] then inr cs
    else match model_pc p with
         | None => inl None
         | Some c => inr (cs ++ [c])
         end.

  Lemma run_parts : forall parts acc,
    run parts_g parts acc =
    match parse_constraints GV nv cfg (filter nonempty (map trim_space parts)) with
    | None => inl None
    | Some l => inr (acc ++ conc_cs l)
    end.
  Proof.
    induction parts as [|part r IH]; intros acc; cbn [run map filter parse_constraints].
    - cbn. rewrite app_nil_r. reflexivity.
    - unfold parts_g at 1. cbv zeta. rewrite beq_nil_nonempty.
      destruct (nonempty (trim_space part)); cbn [negb]; [|apply IH].
      cbn [parse_constraints]. unfold model_pc.
      destruct (parse_constraint cfg (trim_space part)) as [c|]; [|reflexivity].
      unfold bound_ok, conc1. rewrite eager.
      destruct (nv (snd c)) as [v|] eqn:E; cbn [option_map]; [|reflexivity].
      rewrite IH. destruct (parse_constraints _ _ _ _) as [l|]; [|reflexivity].
      f_equal. rewrite <- app_assoc. f_equal. cbn [conc_cs flat_map]. unfold conc1. rewrite E. reflexivity.
  Qed.

  Lemma parse_constraints_conc_length : forall ps l,
    parse_constraints GV nv cfg ps = Some l -> length (conc_cs l) = length l.
  Proof.
    induction ps as [|p r IH]; intros l H; cbn [parse_constraints] in H.
    - injection H as <-. reflexivity.
    - destruct (parse_constraint cfg p) as [c|]; [|discriminate].
      destruct (bound_ok GV nv cfg c) eqn:B; [|discriminate].
      destruct (parse_constraints GV nv cfg r) as [l'|]; [|discriminate].
      injection H as <-. cbn [conc_cs flat_map length]. rewrite app_length.
      fold (conc_cs l'). rewrite (IH l' eq_refl).
      unfold bound_ok in B. rewrite eager in B. unfold conc1.
      destruct (nv (snd c)); [reflexivity | discriminate].
  Qed.
End ModelSide.

(* ---------- strings.Fields: every field is non-empty and has no space ---------- *)

Definition no_space (f : bytes) : bool := forallb (fun c => negb (is_space c)) f.

Lemma trim_right_no_space f : no_space f = true -> trim_right f = f.
Proof.
  induction f as [|c t IH]; intros H; [reflexivity|].
  cbn [no_space forallb] in H. apply andb_prop in H as [Hc Ht]. apply negb_true_iff in Hc.
  rewrite BytesFacts.trim_right_cons_nonspace by exact Hc. rewrite (IH Ht). reflexivity.
Qed.

Lemma trim_space_no_space f : no_space f = true -> trim_space f = f.
Proof.
  intros H. unfold trim_space. destruct f as [|c t]; [reflexivity|].
  pose proof H as H'. cbn [no_space forallb] in H'. apply andb_prop in H' as [Hc _]. apply negb_true_iff in Hc.
  rewrite BytesFacts.trim_left_of_nonspace by exact Hc. apply trim_right_no_space. exact H.
Qed.

Lemma fields_aux_no_space cur s :
  no_space cur = true ->
  Forall (fun f => nonempty f = true /\ no_space f = true) (fields_aux cur s).
Proof.
  revert cur. induction s as [|c s IH]; intros cur Hc; cbn [fields_aux].
  - destruct cur as [|y cur]; [constructor|]. constructor; [|constructor]. split.
    + destruct (rev (y :: cur)) eqn:E; [|reflexivity].
      apply (f_equal (@length ascii)) in E. rewrite rev_length in E. discriminate.
    + unfold no_space in *. rewrite BytesFacts.forallb_rev. exact Hc.
  - destruct (is_space c) eqn:Sp.
    + destruct cur as [|y cur]; [apply IH; reflexivity|]. constructor; [|apply IH; reflexivity]. split.
      * destruct (rev (y :: cur)) eqn:E; [|reflexivity].
        apply (f_equal (@length ascii)) in E. rewrite rev_length in E. discriminate.
      * unfold no_space in *. rewrite BytesFacts.forallb_rev. exact Hc.
    + apply IH. cbn [no_space forallb]. rewrite Sp. exact Hc.
Qed.

(* trimming and dropping the empty parts does nothing to the result of strings.Fields *)
Lemma fields_trim_filter s : filter nonempty (map trim_space (fields s)) = fields s.
Proof.
  pose proof (fields_aux_no_space [] s eq_refl) as F. fold (fields s) in F.
  induction F as [|f l [Hn Hs] _ IH]; [reflexivity|].
  cbn [map filter]. rewrite (trim_space_no_space f Hs), Hn, IH. reflexivity.
Qed.

(* the loop over the parts without trimming (gentoo, apache: the parts are fields) *)
Section ModelSidePlain.
  Context {GV GC : Type}.
  Variable nv : bytes -> option GV.
  Variable mk : bytes -> GV -> GC.
  Variable cfg : range_cfg.
  Hypothesis eager : rc_eager cfg = true.

  Definition plain_g (part : bytes) (cs : list GC) : option (list GC) + list GC :=
    match model_pc nv mk cfg part with
    | None => inl None
    | Some c => inr (cs ++ [c])
    end.

  Lemma run_plain : forall parts acc,
    run plain_g parts acc =
    match parse_constraints GV nv cfg parts with
    | None => inl None
    | Some l => inr (acc ++ conc_cs nv mk l)
    end.
  Proof.
    induction parts as [|part r IH]; intros acc; cbn [run parse_constraints].
    - cbn. rewrite app_nil_r. reflexivity.
    - unfold plain_g at 1. unfold model_pc.
      destruct (parse_constraint cfg part) as [c|]; [|reflexivity].
      unfold bound_ok, conc1. rewrite eager.
      destruct (nv (snd c)) as [v|] eqn:E; cbn [option_map]; [|reflexivity].
      rewrite IH. destruct (parse_constraints _ _ _ _) as [l|]; [|reflexivity].
      f_equal. rewrite <- app_assoc. f_equal. cbn [conc_cs flat_map]. unfold conc1. rewrite E. reflexivity.
  Qed.

  Lemma parse_constraints_length : forall ps l,
    parse_constraints GV nv cfg ps = Some l -> length l = length ps.
  Proof.
    induction ps as [|p r IH]; intros l H; cbn [parse_constraints] in H.
    - injection H as <-. reflexivity.
    - destruct (parse_constraint cfg p) as [c|]; [|discriminate].
      destruct (bound_ok GV nv cfg c); [|discriminate].
      destruct (parse_constraints GV nv cfg r) as [l'|]; [|discriminate].
      injection H as <-. cbn [length]. rewrite (IH l' eq_refl). reflexivity.
  Qed.
End ModelSidePlain.
