(* Tie/Parse/Rpm.v — the generated translation of rpm's NewVersion (Gen/Parse/Rpm.v:
   FindStringSubmatch oracle with matches[1..2], the two slices vr[:lastHyphen] and
   vr[lastHyphen+1:] around strings.LastIndex (an oracle), validateRPMVersionString: a loop over
   the runes of a part) never panics and terminates with fuel linear in the length of the input. *)
From Coq Require Import ZArith List Bool Lia.
From Verif.Base Require Import Bytes GoNum GoOps Imp ImpFacts ImpErr BytesFacts.
From Verif.Eco.Rpm Require Version.
From Verif.Gen.Code Require Rpm.
From Verif.Gen.Parse Require Rpm.
From Verif.Tie Require Rpm.
From Verif.Tie.Parse Require Import Common ListCursor.
Import ListNotations.
Local Open Scope Z_scope.

Module G := Verif.Gen.Code.Rpm.
Module P := Verif.Gen.Parse.Rpm.
Module M := Verif.Eco.Rpm.Version.
Module T := Verif.Tie.Rpm.

Local Opaque atoi trim_space beq.

(* what is assumed about the oracle strings.LastIndex(s, sub): -1, or the position of an
   occurrence of sub inside s *)
Definition lastindex_within (li : bytes -> bytes -> Z) : Prop :=
  forall s sub, li s sub = -1 \/
                (0 <= li s sub /\ li s sub + Z.of_nat (length sub) <= Z.of_nat (length s)).

Section NewVersion.
  Variable lastindex : bytes -> bytes -> Z.           (* strings.LastIndex *)
  Variable isdigit : Z -> bool.                       (* unicode.IsDigit: any function *)
  Variable isletter : Z -> bool.                      (* unicode.IsLetter: any function *)
  Variable find : bytes -> option (list bytes).       (* versionPattern.FindStringSubmatch *)
  Hypothesis find_shape : submatch_shape find P.versionPattern_groups.
  Hypothesis find_within : submatch_within find.
  Hypothesis lastindex_ok : lastindex_within lastindex.

  (* validateRPMVersionString: one iteration per byte of s; s[k] is read under k < len(s) *)
  Lemma validateRPMVersionString_no_panic : forall fuel s part,
    Z.of_nat (length s) < 2 ^ 63 -> (length s < fuel)%nat ->
    finished (P.validateRPMVersionString isdigit isletter fuel s part).
  Proof.
    intros fuel s part F Hf. unfold P.validateRPMVersionString. cbv zeta.
    apply (finished_cursor_bind fuel s); [exact F | exact Hf | | intros [k|r]; np].
    intros i c Hi Hc. cbv beta. destruct (negb _); [exact I | reflexivity].
  Qed.

  (* C06 for rpm's NewVersion: no panic, and fuel length s + 1 is enough *)
  Theorem newversion_rpm_no_panic : forall e s fuel,
    Z.of_nat (length s) < 2 ^ 63 -> (length s < fuel)%nat ->
    finished (P.Ecosystem_NewVersion lastindex isdigit isletter find fuel e s).
  Proof.
    intros e s fuel F Hf. unfold P.Ecosystem_NewVersion. cbv zeta.
    pose proof (trim_space_length_le s) as TL.
    destruct (beq (trim_space s) []); [np|].
    destruct (find (trim_space s)) as [m|] eqn:E; [|np].
    pose proof (find_shape _ _ E) as L. unfold P.versionPattern_groups in L.
    pose proof (find_within _ _ E) as W.
    shape_list L. rename m into ep, m1 into vr.
    repeat match goal with H : Forall _ (_ :: _) |- _ => inversion H; clear H; subst end.
    assert (V : forall c part, (length c <= length vr)%nat ->
              finished (P.validateRPMVersionString isdigit isletter fuel c part)).
    { intros c part Hc. apply validateRPMVersionString_no_panic; lia. }
    repeat (erewrite idx_known by reflexivity; cbn [bind]).
    (* the two slices *)
    set (lh := lastindex vr _).
    assert (S : exists vp rp, (length vp <= length vr)%nat /\ (length rp <= length vr)%nat /\
              (if negb (lh =? -1)
               then bind (slice_to vr lh) (fun vp => bind (slice_from vr (wrap64 (lh + 1))) (fun rp => Done (vp, rp)))
               else Done (vr, [])) = Done (vp, rp)).
    { destruct (Z.eqb_spec lh (-1)) as [Eq|Ne]; cbn [negb].
      - exists vr, []. cbn [length]. repeat split; lia.
      - destruct (lastindex_ok vr (list_ascii_of_string "-")) as [X|[X1 X2]]; [contradiction|].
        fold lh in X1, X2. cbn [length list_ascii_of_string] in X2.
        rewrite slice_to_in_range by (unfold len; lia). cbn [bind].
        rewrite (wrap64_succ_lt lh (Z.of_nat (length vr))) by lia.
        rewrite slice_from_Done by lia. cbn [bind].
        eexists _, _. split; [|split; [|reflexivity]].
        + rewrite firstn_length. lia.
        + rewrite skipn_length. lia. }
    destruct S as (vp & rp & Lv & Lr & ->). cbn [bind].
    destruct (negb (beq ep [])).
    - destruct (atoi ep) as [epoch|]; [|np].
      destruct (epoch <? 0); [np|].
      destruct (beq vp []); [np|].
      apply finished_bind; [apply V; assumption|]. intros [u|] _; [|np].
      destruct (negb (beq rp [])); [|np].
      apply finished_bind; [apply V; assumption|]. intros [u'|] _; np.
    - destruct (beq vp []); [np|].
      apply finished_bind; [apply V; assumption|]. intros [u|] _; [|np].
      destruct (negb (beq rp [])); [|np].
      apply finished_bind; [apply V; assumption|]. intros [u'|] _; np.
  Qed.
End NewVersion.
Print Assumptions newversion_rpm_no_panic.

(* ---------- the tie to the model ---------- *)

Definition is_nl (c : ascii) : bool := (code c =? 10)%N.

(* what versionPattern ^(?:(\d+):)?(.+)$ returns on the trimmed text, re-expressed with the
   model's scanner: [whole; epoch; version-release]; "." does not match a newline and "$" only
   matches at the end of the text, so a text with a newline does not match at all (the model
   rejects such a text through the character validation instead: [parse_core_nl]).  That the real
   regexp engine agrees with this function is the oracle-agreement hypothesis below. *)
Definition ref_match (t : bytes) : option (list bytes) :=
  match t with
  | [] => None
  | _ :: _ =>
      if any_b is_nl t then None
      else let (e, vr) := M.split_epoch t in Some [t; e; vr]
  end.

(* strings.LastIndex(s, "-") *)
Definition ref_lastindex (s : bytes) : Z :=
  match cut_last_c "-"%char s with
  | Some (a, _) => Z.of_nat (length a)
  | None => -1
  end.

(* ref_match was compared with the real regexp.FindStringSubmatch of the Go pattern on 4827 texts
   (exhaustive short strings over the separators, mutated seeds; scratch/refcheck/gen.go): no
   disagreement. *)

(* the Go value for a parsed core *)
Definition conc (s : bytes) (c : M.core) : G.Version :=
  G.mk_Version (M.epoch c) (M.version c) (M.release c) s.

Lemma abs_conc s c : T.abs (conc s c) = c.
Proof. destruct c; reflexivity. Qed.

Lemma take_while_forallb p (s : bytes) : forallb p (take_while p s) = true.
Proof. induction s as [|c s IH]; cbn; [reflexivity|]. destruct (p c) eqn:E; cbn; [rewrite E; exact IH | reflexivity]. Qed.

Lemma take_drop_while p (s : bytes) : s = take_while p s ++ drop_while p s.
Proof. induction s as [|c s IH]; [reflexivity|]. cbn. destruct (p c); [cbn; f_equal; exact IH | reflexivity]. Qed.

(* split_epoch cuts the text: the second part is a suffix *)
Lemma split_epoch_suffix (t e vr : bytes) : M.split_epoch t = (e, vr) -> exists pre, t = pre ++ vr.
Proof.
  unfold M.split_epoch, span. pose proof (take_drop_while is_digit t) as TD.
  destruct (take_while is_digit t) as [|d ds].
  { intros X; injection X as <- <-. exists []. reflexivity. }
  destruct (drop_while is_digit t) as [|c [|x vr']].
  - intros X; injection X as <- <-. exists []. reflexivity.
  - intros X; injection X as <- <-. exists []. reflexivity.
  - destruct (ceqb c ":").
    + intros X; injection X as <- <-. exists ((d :: ds) ++ [c]). rewrite <- app_assoc. exact TD.
    + intros X; injection X as <- <-. exists []. reflexivity.
Qed.

Lemma valid_char_nl c : is_nl c = true -> M.valid_char c = false.
Proof.
  unfold is_nl. intros H. apply N.eqb_eq in H.
  assert (E : c = chr 10) by (apply code_inj; rewrite H; reflexivity).
  subst c. reflexivity.
Qed.

Lemma valid_str_nl (s : bytes) : any_b is_nl s = true -> M.valid_str s = false.
Proof.
  unfold any_b, M.valid_str. induction s as [|c s IH]; cbn [existsb forallb]; [discriminate|].
  intros H. apply orb_prop in H as [H|H].
  - rewrite (valid_char_nl _ H). reflexivity.
  - rewrite (IH H). apply andb_false_r.
Qed.

(* the model rejects a text with a newline (the regular expression does not match it) *)
Lemma parse_core_nl (t : bytes) : any_b is_nl t = true -> M.parse_core t = None.
Proof.
  intros NL. unfold M.parse_core. destruct t as [|c0 t']; [reflexivity|].
  set (t := c0 :: t') in *.
  destruct (M.split_epoch t) as [e vr] eqn:SE.
  destruct (split_epoch_suffix _ _ _ SE) as [pre Et].
  assert (NLvr : any_b is_nl vr = true).
  { (* the prefix cut off is digits and a colon *)
    revert SE. unfold M.split_epoch, span.
    pose proof (take_drop_while is_digit t) as TD.
    assert (ND : forall ds, forallb is_digit ds = true -> any_b is_nl ds = false).
    { induction ds as [|d ds IH]; [reflexivity|]. cbn [forallb any_b existsb]. intros H.
      apply andb_prop in H as [H1 H2]. unfold any_b in IH. rewrite (IH H2), orb_false_r.
      unfold is_nl. unfold is_digit, in_range in H1. apply andb_prop in H1 as [H1 _].
      apply N.leb_le in H1. apply N.eqb_neq. lia. }
    pose proof (take_while_forallb is_digit t) as A.
    destruct (take_while is_digit t) as [|d ds].
    { intros X; injection X as <- <-. exact NL. }
    destruct (drop_while is_digit t) as [|c [|x vr']].
    - intros X; injection X as <- <-. exact NL.
    - intros X; injection X as <- <-. exact NL.
    - destruct (ceqb c ":") eqn:Ec.
      + intros X; injection X as <- <-.
        rewrite TD in NL. unfold any_b in *. rewrite existsb_app in NL.
        rewrite (ND _ A) in NL. cbn [orb] in NL. cbn [existsb] in NL.
        apply ceqb_eq in Ec. subst c. exact NL.
      + intros X; injection X as <- <-. exact NL. }
  destruct (cut_last_c "-" vr) as [[a b]|] eqn:CL.
  - apply cut_last_c_app in CL. rewrite CL in NLvr. unfold any_b in NLvr.
    rewrite existsb_app in NLvr. cbn [existsb] in NLvr.
    change (is_nl "-") with false in NLvr. cbn [orb] in NLvr.
    destruct (match e with [] => Some 0 | _ :: _ => atoi e end) as [ep|]; [|reflexivity].
    destruct (ep <? 0); [reflexivity|]. destruct a as [|x a']; [reflexivity|].
    apply orb_prop in NLvr as [H|H]; rewrite (valid_str_nl _ H); [reflexivity | rewrite andb_false_r; reflexivity].
  - destruct (match e with [] => Some 0 | _ :: _ => atoi e end) as [ep|]; [|reflexivity].
    destruct (ep <? 0); [reflexivity|]. destruct vr as [|x vr']; [reflexivity|].
    rewrite (valid_str_nl _ NLvr). reflexivity.
Qed.

Lemma split_epoch_length (t e vr : bytes) : M.split_epoch t = (e, vr) -> (length vr <= length t)%nat.
Proof.
  intros SE. destruct (split_epoch_suffix _ _ _ SE) as [pre ->]. rewrite app_length. lia.
Qed.

Section Tie.
  Variable lastindex : bytes -> bytes -> Z.
  Variable isdigit : Z -> bool.
  Variable isletter : Z -> bool.
  Variable find : bytes -> option (list bytes).
  (* ORACLE AGREEMENT: the regexp engine and strings.LastIndex compute what the model's scanners
     compute, and unicode.IsDigit / unicode.IsLetter on a byte are the ASCII classes of the model *)
  Hypothesis find_agrees : forall t, find t = ref_match t.
  Hypothesis lastindex_agrees : forall s, lastindex s (list_ascii_of_string "-") = ref_lastindex s.
  Hypothesis isdigit_agrees : forall c, isdigit (byte_z c) = is_digit c.
  Hypothesis isletter_agrees : forall c, isletter (byte_z c) = is_letter c.

  Lemma isValidRPMVersionChar_model c : P.isValidRPMVersionChar isdigit isletter (byte_z c) = M.valid_char c.
  Proof.
    unfold P.isValidRPMVersionChar, M.valid_char. rewrite isdigit_agrees, isletter_agrees.
    change 46 with (Z.of_N 46). change 43 with (Z.of_N 43). change 45 with (Z.of_N 45).
    change 126 with (Z.of_N 126). change 94 with (Z.of_N 94). change 95 with (Z.of_N 95).
    rewrite !zeqb_code. cbn [existsb list_ascii_of_string]. unfold ceqb.
    change (code ".") with 46%N. change (code "+") with 43%N. change (code "-") with 45%N.
    change (code "~") with 126%N. change (code "^") with 94%N. change (code "_") with 95%N.
    rewrite orb_false_r, !orb_assoc. reflexivity.
  Qed.

  (* validateRPMVersionString is valid_str *)
  Lemma validateRPMVersionString_model : forall fuel s part,
    Z.of_nat (length s) < 2 ^ 63 -> (length s < fuel)%nat ->
    P.validateRPMVersionString isdigit isletter fuel s part
    = Done (if M.valid_str s then Some tt else None).
  Proof.
    intros fuel s part F Hf. unfold P.validateRPMVersionString, M.valid_str. cbv zeta.
    match goal with |- bind (while fuel ?b 0) _ = _ =>
      assert (W : while fuel b 0 = Done (if forallb M.valid_char s then Fell (Z.of_nat (length s)) else Returned None)) end.
    { apply (cursor_forall fuel s); [exact F | exact Hf |].
      intros i c Hi Hc. cbv beta. rewrite isValidRPMVersionChar_model.
      destruct (M.valid_char c); reflexivity. }
    rewrite W. cbn [bind]. destruct (forallb M.valid_char s); reflexivity.
  Qed.

  Theorem tie_parse_rpm_newversion : forall e s fuel,
    Z.of_nat (length s) < 2 ^ 63 -> (length s < fuel)%nat ->
    P.Ecosystem_NewVersion lastindex isdigit isletter find fuel e s
    = Done (option_map (conc s) (M.parse_core (trim_space s))).
  Proof.
    intros e s fuel F Hf. unfold P.Ecosystem_NewVersion. cbv zeta.
    pose proof (trim_space_length_le s) as TL.
    set (t := trim_space s) in *. clearbody t.
    destruct t as [|c0 t'].
    { rewrite beq_nil_nil. reflexivity. }
    rewrite beq_cons_nil. rewrite find_agrees. unfold ref_match.
    set (t := c0 :: t') in *.
    destruct (any_b is_nl t) eqn:NL.
    { rewrite (parse_core_nl _ NL). reflexivity. }
    unfold M.parse_core. fold t.
    destruct (M.split_epoch t) as [ep vr] eqn:SE.
    pose proof (split_epoch_length _ _ _ SE) as Lvr.
    repeat (erewrite idx_known by reflexivity; cbn [bind]).
    rewrite lastindex_agrees. unfold ref_lastindex.
    assert (V : forall x part, (length x <= length vr)%nat ->
              P.validateRPMVersionString isdigit isletter fuel x part
              = Done (if M.valid_str x then Some tt else None)).
    { intros x part Hx. apply validateRPMVersionString_model; lia. }
    (* the two slices are the two parts of the model *)
    set (lh := match cut_last_c "-" vr with Some (a, _) => Z.of_nat (length a) | None => -1 end).
    assert (S : exists vp rp,
              (match cut_last_c "-" vr with Some (a, b) => (a, b) | None => (vr, []) end) = (vp, rp) /\
              (length vp <= length vr)%nat /\ (length rp <= length vr)%nat /\
              (if negb (lh =? -1)
               then bind (slice_to vr lh) (fun vp => bind (slice_from vr (wrap64 (lh + 1))) (fun rp => Done (vp, rp)))
               else Done (vr, [])) = Done (vp, rp)).
    { subst lh. destruct (cut_last_c "-" vr) as [[a b]|] eqn:CL.
      - exists a, b. pose proof (cut_last_c_length _ _ _ _ CL) as LL.
        apply cut_last_c_app in CL.
        split; [reflexivity|]. split; [lia|]. split; [lia|].
        replace (Z.of_nat (length a) =? -1) with false by (symmetry; apply Z.eqb_neq; lia).
        cbn [negb].
        assert (La : (length a < length vr)%nat).
        { rewrite CL, app_length. cbn [length]. lia. }
        rewrite (wrap64_succ_lt (Z.of_nat (length a)) (Z.of_nat (length vr))) by lia.
        rewrite CL at 1. rewrite slice_to_app. cbn [bind].
        replace (Z.of_nat (length a) + 1) with (Z.of_nat (length (a ++ ["-"%char])))
          by (rewrite app_length; cbn [length]; lia).
        replace vr with ((a ++ ["-"%char]) ++ b) by (rewrite CL, <- app_assoc; reflexivity).
        rewrite slice_from_app. reflexivity.
      - exists vr, []. cbn [length]. repeat split; lia. }
    destruct S as (vp & rp & -> & Lvp & Lrp & ->). cbn [bind].
    assert (Tail : forall epoch,
      (if beq vp [] then Done None else
       bind (P.validateRPMVersionString isdigit isletter fuel vp (list_ascii_of_string "version"))
         (fun r => match r with
                   | None => Done None
                   | Some _ =>
                     if negb (beq rp []) then
                       bind (P.validateRPMVersionString isdigit isletter fuel rp (list_ascii_of_string "release"))
                         (fun r1 => match r1 with
                                    | None => Done None
                                    | Some _ => Done (Some (G.mk_Version epoch vp rp s))
                                    end)
                     else Done (Some (G.mk_Version epoch vp rp s))
                   end))
      = Done (option_map (conc s)
                match vp with
                | [] => None
                | _ :: _ => if M.valid_str vp && M.valid_str rp
                            then Some {| M.epoch := epoch; M.version := vp; M.release := rp |} else None
                end)).
    { intros epoch. destruct vp as [|c vp'].
      { rewrite beq_nil_nil. reflexivity. }
      rewrite beq_cons_nil. rewrite V by exact Lvp. cbn [bind].
      destruct (M.valid_str (c :: vp')); cbn [andb]; [|reflexivity].
      destruct rp as [|d rp'].
      { rewrite beq_nil_nil. reflexivity. }
      rewrite beq_cons_nil. cbn [negb]. rewrite V by exact Lrp. cbn [bind].
      destruct (M.valid_str (d :: rp')); reflexivity. }
    destruct ep as [|x ep'].
    - rewrite beq_nil_nil. cbn [negb]. change (0 <? 0) with false. cbv iota. apply Tail.
    - rewrite beq_cons_nil. cbn [negb].
      destruct (atoi (x :: ep')) as [epoch|]; [|reflexivity].
      destruct (epoch <? 0); [reflexivity|]. apply Tail.
  Qed.
End Tie.
Print Assumptions tie_parse_rpm_newversion.
