(* Tie/Parse/RpmRange.v — the generated translation of rpm's NewVersionRange (Gen/Parse/Rpm.v:
   parseRPMConstraints = a loop over strings.Fields(strings.ReplaceAll(s, ",", " ")),
   parseRPMConstraint = a loop over the six operators with the slice constraintStr[len(op):]
   guarded by strings.HasPrefix) never panics and terminates with fuel linear in the length of the
   input, GIVEN that Ecosystem_NewVersion (a definition of the same generated file, proved
   separately: newversion_rpm_no_panic) finishes on every text with fuel above [nvb (length text)]. *)
From Coq Require Import ZArith List Bool Lia.
From Verif.Base Require Import Bytes GoNum GoOps Imp ImpFacts ImpErr BytesFacts.
From Verif.Gen.Code Require Rpm.
From Verif.Gen.Parse Require Rpm.
From Verif.Eco Require Import RangeCore.
From Verif.Eco.Rpm Require Range.
From Verif.Tie.Parse Require Import Common RangeCommon RangeTie.
Import ListNotations.
Local Open Scope Z_scope.

Module G := Verif.Gen.Code.Rpm.
Module P := Verif.Gen.Parse.Rpm.
Module RM := Verif.Eco.Rpm.Range.

Section Range.
  Variable lastIndex : bytes -> bytes -> Z.               (* strings.LastIndex *)
  Variable isDigit isLetter : Z -> bool.                  (* unicode.IsDigit, unicode.IsLetter *)
  Variable find : bytes -> option (list bytes).           (* versionPattern.FindStringSubmatch *)

  Variable nvb : nat -> nat.
  Hypothesis nvb_mono : forall a b, (a <= b)%nat -> (nvb a <= nvb b)%nat.
  Hypothesis newversion_finished : forall fuel e v,
    Z.of_nat (length v) + 1 < 2 ^ 63 -> (nvb (length v) < fuel)%nat ->
    finished (P.Ecosystem_NewVersion lastIndex isDigit isLetter find fuel e v).

  Local Opaque trim_space beq fields replace_c has_prefix P.Ecosystem_NewVersion.

  Lemma parseRPMConstraint_no_panic : forall fuel e c,
    Z.of_nat (length c) + 1 < 2 ^ 63 -> (6 < fuel)%nat -> (nvb (length c) < fuel)%nat ->
    finished (P.parseRPMConstraint lastIndex isDigit isLetter find fuel e c).
  Proof.
    intros fuel e c Hfit Hf Hn. unfold P.parseRPMConstraint. cbv zeta.
    pose proof (trim_space_length_le c) as TL.
    apply (ops_loop_finished [$">="; $"<="; $"!="; $">"; $"<"; $"="] (trim_space c)
             (fun op sl =>
                if beq (trim_space sl) [] then Done (Ret None)
                else bind (P.Ecosystem_NewVersion lastIndex isDigit isLetter find fuel e (trim_space sl)) (fun r =>
                     match r with
                     | None => Done (Ret None)
                     | Some version => Done (Ret (Some (G.mk_constraint op version)))
                     end))).
    - intros op _ _. destruct (beq _ _); [eauto|].
      set (v := trim_space _).
      assert (LV : (length v <= length c)%nat).
      { subst v. etransitivity; [apply trim_space_length_le|].
        etransitivity; [apply skipn_length_le|]. exact TL. }
      destruct (newversion_finished fuel e v) as [r ->].
      + lia.
      + pose proof (nvb_mono _ _ LV). lia.
      + cbn [bind]. destruct r; eauto.
    - cbn. lia.
    - cbn [length]. lia.
    - intros [k|r]; [|np].
      apply finished_bind; [|intros; np].
      apply newversion_finished; [lia|]. pose proof (nvb_mono _ _ TL). lia.
  Qed.

  Lemma parseRPMConstraints_no_panic : forall fuel e s,
    Z.of_nat (length s) + 1 < 2 ^ 63 -> (length s + 6 < fuel)%nat -> (nvb (length s) < fuel)%nat ->
    finished (P.parseRPMConstraints lastIndex isDigit isLetter find fuel e s).
  Proof.
    intros fuel e s Hfit Hf Hn. unfold P.parseRPMConstraints. cbv zeta.
    set (s' := replace_c (chr 44) (chr 32) s).
    assert (LS : length s' = length s) by apply replace_c_length.
    pose proof (fields_length_le s') as SL.
    apply (parts_loop_finished (fields s')
             (fun part => P.parseRPMConstraint lastIndex isDigit isLetter find fuel e part)).
    - intros part Hin. apply fields_In_length in Hin.
      pose proof (trim_space_length_le part) as TL.
      apply parseRPMConstraint_no_panic; try lia.
      assert (L : (length (trim_space part) <= length s)%nat) by lia.
      pose proof (nvb_mono _ _ L). lia.
    - lia.
    - lia.
    - intros [[k cs]|r]; np.
  Qed.

  (* C06 for rpm's NewVersionRange: no panic; fuel above length s + 6 and above the callee's
     bound at length s is enough *)
  Theorem newversionrange_rpm_no_panic : forall fuel e s,
    Z.of_nat (length s) + 1 < 2 ^ 63 -> (length s + 6 < fuel)%nat -> (nvb (length s) < fuel)%nat ->
    finished (P.Ecosystem_NewVersionRange lastIndex isDigit isLetter find fuel e s).
  Proof.
    intros fuel e s Hfit Hf Hn. unfold P.Ecosystem_NewVersionRange. cbv zeta.
    pose proof (trim_space_length_le s) as TL.
    destruct (beq (trim_space s) []); [np|].
    apply finished_bind; [|intros; np].
    apply parseRPMConstraints_no_panic; try lia.
    pose proof (nvb_mono _ _ TL). lia.
  Qed.
End Range.
Print Assumptions newversionrange_rpm_no_panic.

(* ---------- the tie to the model (Eco/Rpm/Range.v = RangeCore with RM.cfg) ---------- *)

Section Tie.
  Variable lastIndex : bytes -> bytes -> Z.
  Variable isDigit isLetter : Z -> bool.
  Variable find : bytes -> option (list bytes).

  (* the callee: with enough fuel NewVersion computes a function [nv] of its text *)
  Variable nv : G.Ecosystem -> bytes -> option G.Version.
  Variable nvb : nat -> nat.
  Hypothesis nvb_mono : forall a b, (a <= b)%nat -> (nvb a <= nvb b)%nat.
  Hypothesis newversion_computes : forall fuel e v,
    Z.of_nat (length v) + 1 < 2 ^ 63 -> (nvb (length v) < fuel)%nat ->
    P.Ecosystem_NewVersion lastIndex isDigit isLetter find fuel e v = Done (nv e v).

  Local Opaque P.Ecosystem_NewVersion.
  Notation pc := (P.parseRPMConstraint lastIndex isDigit isLetter find).

  Definition conc (e : G.Ecosystem) (r : range) : G.VersionRange :=
    G.mk_VersionRange (conc_cs (nv e) G.mk_constraint (r_cs r)) (r_orig r).

  Lemma tie_parse_rpm_parseConstraint : forall fuel e c,
    Z.of_nat (length c) + 1 < 2 ^ 63 -> (6 < fuel)%nat -> (nvb (length c) < fuel)%nat ->
    pc fuel e c = Done (model_pc (nv e) G.mk_constraint RM.cfg c).
  Proof.
    intros fuel e c Hfit Hf Hn. unfold P.parseRPMConstraint. cbv zeta.
    pose proof (trim_space_length_le c) as TL.
    rewrite model_pc_prefix_err by reflexivity.
    match goal with |- context [while fuel ?b 0] =>
      change b with (ops_body [$">="; $"<="; $"!="; $">"; $"<"; $"="] (trim_space c)
             (fun op sl =>
                if beq (trim_space sl) [] then Done (Ret None)
                else bind (P.Ecosystem_NewVersion lastIndex isDigit isLetter find fuel e (trim_space sl)) (fun r =>
                     match r with
                     | None => Done (Ret None)
                     | Some version => Done (Ret (Some (G.mk_constraint op version)))
                     end)))
    end.
    rewrite (ops_loop_result _ _ _
               (fun op sl => if beq (trim_space sl) [] then None
                             else option_map (G.mk_constraint op) (nv e (trim_space sl)))).
    - cbn [bind]. change (rc_ops RM.cfg) with [$">="; $"<="; $"!="; $">"; $"<"; $"="].
      destruct (first_prefix _ _) as [[op rest]|]; [reflexivity|].
      rewrite newversion_computes; [|lia|pose proof (nvb_mono _ _ TL); lia].
      cbn [bind]. destruct (nv e (trim_space c)); reflexivity.
    - intros op. destruct (beq _ _); [reflexivity|].
      set (v := trim_space _).
      assert (LV : (length v <= length c)%nat).
      { subst v. etransitivity; [apply trim_space_length_le|].
        etransitivity; [apply skipn_length_le|]. exact TL. }
      rewrite newversion_computes; [|lia|pose proof (nvb_mono _ _ LV); lia].
      cbn [bind]. destruct (nv e v); reflexivity.
    - cbn. lia.
    - cbn [length]. lia.
  Qed.

  Lemma tie_parse_rpm_parseConstraints : forall fuel e s,
    Z.of_nat (length s) + 1 < 2 ^ 63 -> (length s + 6 < fuel)%nat -> (nvb (length s) < fuel)%nat ->
    P.parseRPMConstraints lastIndex isDigit isLetter find fuel e s =
    Done (match parse_constraints G.Version (nv e) RM.cfg (rc_split RM.cfg s) with
          | Some (c :: l) => Some (conc_cs (nv e) G.mk_constraint (c :: l))
          | _ => None
          end).
  Proof.
    intros fuel e s Hfit Hf Hn. unfold P.parseRPMConstraints. cbv zeta.
    change (rc_split RM.cfg s) with (fields (replace_c (chr 44) (chr 32) s)).
    set (s' := replace_c (chr 44) (chr 32) s).
    assert (LS : length s' = length s) by apply replace_c_length.
    pose proof (fields_length_le s') as SL.
    match goal with |- context [while fuel ?b (0, [])] =>
      change b with (range_body (R := option (list G.constraint)) (fields s')
             (fun k part cs =>
                let part := trim_space part in
                if beq part [] then Done (Next (wrap64 (k + 1), cs))
                else bind (pc fuel e part) (fun r =>
                  match r with
                  | None => Done (Ret None)
                  | Some c => Done (Next (wrap64 (k + 1), cs ++ [c]))
                  end)))
    end.
    assert (PC : forall part, In part (fields s') ->
              pc fuel e (trim_space part) = Done (model_pc (nv e) G.mk_constraint RM.cfg (trim_space part))).
    { intros part Hin. apply fields_In_length in Hin.
      pose proof (trim_space_length_le part) as TL.
      apply tie_parse_rpm_parseConstraint; try lia.
      assert (L : (length (trim_space part) <= length s)%nat) by lia.
      pose proof (nvb_mono _ _ L). lia. }
    rewrite (while_ext _ (range_body (R := option (list G.constraint)) (fields s')
               (fun k part cs =>
                  match parts_g (nv e) G.mk_constraint RM.cfg part cs with
                  | inl r => Done (Ret r)
                  | inr cs' => Done (Next (wrap64 (k + 1), cs'))
                  end))).
    2:{ intros [k cs]. unfold range_body.
        destruct (Z.ltb_spec k (Z.of_nat (length (fields s')))) as [Lt|Ge]; [|reflexivity].
        destruct (Z.leb_spec 0 k) as [K0|K0].
        - destruct (idx_lt_Done (fields s') k) as (x & E & N); [lia|].
          rewrite E. cbn [bind]. unfold parts_g. cbv zeta.
          destruct (beq (trim_space x) []); [reflexivity|].
          rewrite (PC x (nth_error_In _ _ N)). cbn [bind].
          destruct (model_pc _ _ _ _); reflexivity.
        - rewrite idx_out_of_range by (unfold len; lia). reflexivity. }
    rewrite (range_loop_result _ _ (parts_g (nv e) G.mk_constraint RM.cfg)); [|reflexivity|lia|lia].
    rewrite (run_parts (nv e) G.mk_constraint RM.cfg eq_refl). cbn [bind app].
    rewrite fields_trim_filter.
    destruct (parse_constraints _ _ _ _) as [l|] eqn:E; [|reflexivity].
    apply (parse_constraints_conc_length (nv e) G.mk_constraint RM.cfg eq_refl) in E.
    destruct l as [|c l]; [reflexivity|].
    rewrite E. reflexivity.
  Qed.

  (* the generated NewVersionRange computes the model's parse_range, with NewVersion's function
     as the model's bound parser *)
  Theorem tie_parse_rpm_newversionrange : forall fuel e s,
    Z.of_nat (length s) + 1 < 2 ^ 63 -> (length s + 6 < fuel)%nat -> (nvb (length s) < fuel)%nat ->
    P.Ecosystem_NewVersionRange lastIndex isDigit isLetter find fuel e s =
    Done (option_map (conc e) (parse_range G.Version (nv e) RM.cfg s)).
  Proof.
    intros fuel e s Hfit Hf Hn. unfold P.Ecosystem_NewVersionRange, parse_range. cbv zeta.
    pose proof (trim_space_length_le s) as TL.
    rewrite beq_nil_nonempty. destruct (trim_space s) as [|x t] eqn:E; [reflexivity|].
    cbn [nonempty negb]. rewrite <- E in TL |- *.
    rewrite tie_parse_rpm_parseConstraints; [|lia|lia|pose proof (nvb_mono _ _ TL); lia].
    cbn [bind].
    destruct (parse_constraints _ _ _ _) as [[|c l]|]; reflexivity.
  Qed.
End Tie.
Print Assumptions tie_parse_rpm_newversionrange.
