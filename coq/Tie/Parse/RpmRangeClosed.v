(* Tie/Parse/RpmRangeClosed.v — the closed corollaries for rpm's NewVersionRange: the hypothesis
   "the callee Ecosystem_NewVersion finishes / computes" of Tie/Parse/RpmRange.v is discharged
   with the theorems of Tie/Parse/Rpm.v (newversion_rpm_no_panic, tie_parse_rpm_newversion), whose
   fuel bound is nvb n = n (fuel above the length of the text).  A constraint's version text is no
   longer than the range text (proved inside RpmRange.v through nvb_mono), so fuel above
   length s + 6 is enough for the whole parser. *)
From Coq Require Import ZArith List Bool Lia.
From Verif.Base Require Import Bytes GoNum GoOps Imp ImpFacts ImpErr BytesFacts.
From Verif.Gen.Code Require Rpm.
From Verif.Gen.Parse Require Rpm.
From Verif.Eco Require Import RangeCore.
From Verif.Eco.Rpm Require Version Range.
From Verif.Tie.Parse Require Import Common.
From Verif.Tie.Parse Require Rpm RpmRange.
Import ListNotations.
Local Open Scope Z_scope.

Module G := Verif.Gen.Code.Rpm.
Module P := Verif.Gen.Parse.Rpm.
Module M := Verif.Eco.Rpm.Version.
Module RM := Verif.Eco.Rpm.Range.
Module V := Verif.Tie.Parse.Rpm.
Module R := Verif.Tie.Parse.RpmRange.

(* C06 for rpm's NewVersionRange, closed: under the shape hypotheses on the oracles only
   (FindStringSubmatch, strings.LastIndex), no panic and fuel length s + 7 is enough *)
Theorem newversionrange_rpm_no_panic_closed :
  forall (lastIndex : bytes -> bytes -> Z) (isDigit isLetter : Z -> bool)
         (find : bytes -> option (list bytes)),
  submatch_shape find P.versionPattern_groups -> submatch_within find ->
  V.lastindex_within lastIndex ->
  forall fuel e s,
  Z.of_nat (length s) + 1 < 2 ^ 63 -> (length s + 6 < fuel)%nat ->
  finished (P.Ecosystem_NewVersionRange lastIndex isDigit isLetter find fuel e s).
Proof.
  intros lastIndex isDigit isLetter find Sh Wi Li fuel e s Hfit Hf.
  apply (R.newversionrange_rpm_no_panic lastIndex isDigit isLetter find (fun n => n)).
  - intros a b L. exact L.
  - intros fuel' e' v F L.
    apply V.newversion_rpm_no_panic; [exact Sh | exact Wi | exact Li | lia | exact L].
  - exact Hfit.
  - exact Hf.
  - lia.
Qed.
Print Assumptions newversionrange_rpm_no_panic_closed.

(* ---------- the tie, closed ---------- *)

(* what NewVersion computes (Tie/Parse/Rpm.v): the model's version parser on the trimmed text,
   the original text kept *)
Definition nv (e : G.Ecosystem) (v : bytes) : option G.Version :=
  option_map (V.conc v) (M.parse_core (trim_space v)).

(* the generated NewVersionRange computes the model's parse_range with the model's version parser
   as bound parser, under the oracle-agreement hypotheses only *)
Theorem tie_parse_rpm_newversionrange_closed :
  forall (lastIndex : bytes -> bytes -> Z) (isDigit isLetter : Z -> bool)
         (find : bytes -> option (list bytes)),
  (forall t, find t = V.ref_match t) ->
  (forall s, lastIndex s (list_ascii_of_string "-") = V.ref_lastindex s) ->
  (forall c, isDigit (byte_z c) = is_digit c) ->
  (forall c, isLetter (byte_z c) = is_letter c) ->
  forall fuel e s,
  Z.of_nat (length s) + 1 < 2 ^ 63 -> (length s + 6 < fuel)%nat ->
  P.Ecosystem_NewVersionRange lastIndex isDigit isLetter find fuel e s =
  Done (option_map (R.conc nv e) (parse_range G.Version (nv e) RM.cfg s)).
Proof.
  intros lastIndex isDigit isLetter find Fa LIa Da La fuel e s Hfit Hf.
  apply (R.tie_parse_rpm_newversionrange lastIndex isDigit isLetter find nv (fun n => n)).
  - intros a b L. exact L.
  - intros fuel' e' v F L. unfold nv.
    apply V.tie_parse_rpm_newversion; [exact Fa | exact LIa | exact Da | exact La | lia | exact L].
  - exact Hfit.
  - exact Hf.
  - lia.
Qed.
Print Assumptions tie_parse_rpm_newversionrange_closed.
