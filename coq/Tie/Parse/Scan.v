(* Tie/Parse/Scan.v — small facts shared by the ties of the generated parsers to the models:
   runs of digits (take_while is_digit) and strconv.Atoi on them. *)
From Coq Require Import ZArith NArith List Bool Lia.
From Verif.Base Require Import Bytes GoNum BytesFacts.
Import ListNotations.

Lemma take_while_forallb p (s : bytes) : forallb p (take_while p s) = true.
Proof. induction s as [|c s IH]; cbn; [reflexivity|]. destruct (p c) eqn:E; cbn; [rewrite E; exact IH | reflexivity]. Qed.

(* a digit is neither of the signs *)
Lemma digit_not_sign c : is_digit c = true -> ceqb c "-"%char = false /\ ceqb c "+"%char = false.
Proof.
  intros Dc. unfold is_digit, in_range in Dc. unfold ceqb. apply andb_prop in Dc as [D1 D2].
  apply N.leb_le in D1. split; apply N.eqb_neq; intros X; rewrite X in D1; vm_compute in D1; congruence.
Qed.

(* strconv.Atoi on a non-empty run of digits: only the range error is possible *)
Lemma atoi_run (d : bytes) : d <> [] -> forallb is_digit d = true ->
  atoi d = (let n := digits_val d in if (n <? two63)%N then Some (Z.of_N n) else None).
Proof.
  intros N A. destruct d as [|c r]; [congruence|].
  assert (ND : nonempty_digits (c :: r) = true) by exact A.
  unfold atoi.
  cbn [forallb] in A. apply andb_prop in A as [Dc _].
  destruct (digit_not_sign c Dc) as [E1 E2].
  rewrite E1, E2. cbv zeta. rewrite ND. reflexivity.
Qed.

Lemma atoi_take_while (s : bytes) : take_while is_digit s <> [] ->
  atoi (take_while is_digit s) =
  (let n := digits_val (take_while is_digit s) in if (n <? two63)%N then Some (Z.of_N n) else None).
Proof. intros N. apply atoi_run; [exact N | apply take_while_forallb]. Qed.

Lemma nonempty_digits_take_while (s : bytes) :
  nonempty_digits (take_while is_digit s) = negb (beq (take_while is_digit s) []).
Proof.
  pose proof (take_while_forallb is_digit s) as A. unfold nonempty_digits.
  destruct (take_while is_digit s); [reflexivity | exact A].
Qed.

(* ---------- strings.Split on a joined list of separator-free pieces ---------- *)

Definition no_sep (sep : ascii) (d : bytes) : bool := forallb (fun c => negb (ceqb sep c)) d.

Lemma split_c_no_sep sep d : no_sep sep d = true -> split_c sep d = [d].
Proof.
  induction d as [|c d IH]; intros H; [reflexivity|].
  cbn [no_sep forallb] in H. apply andb_prop in H as [Hc Hd].
  cbn [split_c]. destruct (ceqb sep c); [discriminate|].
  rewrite (IH Hd). reflexivity.
Qed.

Lemma split_c_no_sep_app sep d rest : no_sep sep d = true ->
  split_c sep (d ++ sep :: rest) = d :: split_c sep rest.
Proof.
  induction d as [|c d IH]; intros H.
  - cbn [app split_c]. rewrite ceqb_refl. reflexivity.
  - cbn [no_sep forallb] in H. apply andb_prop in H as [Hc Hd].
    cbn [app split_c]. destruct (ceqb sep c); [discriminate|].
    rewrite (IH Hd). reflexivity.
Qed.

Lemma split_c_join sep (d : bytes) (ds : list bytes) :
  Forall (fun x => no_sep sep x = true) (d :: ds) -> split_c sep (join [sep] (d :: ds)) = d :: ds.
Proof.
  revert d. induction ds as [|d' ds IH]; intros d H.
  - inversion H; subst. cbn [join]. apply split_c_no_sep. assumption.
  - inversion H as [|? ? Hd H']; subst.
    change (join [sep] (d :: d' :: ds)) with (d ++ [sep] ++ join [sep] (d' :: ds)).
    cbn [app]. rewrite split_c_no_sep_app by exact Hd. rewrite (IH d' H'). reflexivity.
Qed.

Lemma digits_no_dot (d : bytes) : forallb is_digit d = true -> no_sep "."%char d = true.
Proof.
  induction d as [|c d IH]; intros H; [reflexivity|].
  cbn [forallb] in H. apply andb_prop in H as [Hc Hd].
  change (no_sep "."%char (c :: d)) with (negb (ceqb "."%char c) && no_sep "."%char d).
  rewrite (IH Hd), andb_true_r.
  unfold is_digit, in_range in Hc. apply andb_prop in Hc as [D1 _]. apply N.leb_le in D1.
  apply negb_true_iff. apply N.eqb_neq. intros X. unfold code in *. rewrite <- X in D1.
  vm_compute in D1. congruence.
Qed.
