(* Tie/Parse/Scanners.v — reusable facts for the no-panic theorems about the hand-written
   scanners among the generated parsers (Gen/Parse/Alpm.v, Gem.v, Maven.v): the bounds of
   strings.Index (go_index), slices at such an index, the length of the pieces, and the shape
   "cursor k runs from 0 to len(xs)" of a translated `for _, x := range xs` loop. *)
From Coq Require Import ZArith List Ascii Bool Lia.
From Verif.Base Require Import Bytes GoNum Imp ImpFacts ImpErr.
From Verif.Tie.Loops Require Import Common.
From Verif.Tie.Parse Require Import Common.
Import ListNotations.
Local Open Scope Z_scope.

(* ---------- strings.Index ---------- *)

Lemma has_prefix_length (p s : bytes) : has_prefix p s = true -> (length p <= length s)%nat.
Proof.
  revert s. induction p as [|x p IH]; intros [|y s] H; cbn [has_prefix length] in *; try lia; try discriminate.
  apply andb_prop in H as [_ H]. apply IH in H. lia.
Qed.

Lemma cut_length (sep s a b : bytes) :
  cut sep s = Some (a, b) -> (length a + length sep <= length s)%nat /\ s = a ++ firstn (length sep) (skipn (length a) s) ++ b.
Proof.
  revert a b. induction s as [|c s IH]; intros a b H.
  - cbn [cut] in H. destruct (has_prefix sep []) eqn:E; [|discriminate].
    injection H as <- <-. apply has_prefix_length in E. cbn [length] in *.
    destruct sep; cbn [length] in E; [|lia]. split; [cbn; lia | reflexivity].
  - cbn [cut] in H. destruct (has_prefix sep (c :: s)) eqn:E.
    + injection H as <- <-. apply has_prefix_length in E. split; [cbn [length] in *; lia|].
      cbn [app length skipn]. symmetry. apply firstn_skipn.
    + destruct (cut sep s) as [[a' b']|] eqn:C; [|discriminate]. injection H as <- <-.
      destruct (IH a' b' eq_refl) as [L Es]. split; [cbn [length]; lia|].
      cbn [length skipn app]. f_equal. exact Es.
Qed.

(* strings.Index(s, sub) is -1 or a position at which sub fits *)
Lemma go_index_bounds (sub s : bytes) :
  go_index sub s = -1 \/ (0 <= go_index sub s /\ go_index sub s + Z.of_nat (length sub) <= Z.of_nat (length s)).
Proof.
  unfold go_index, index_sub. destruct (cut sub s) as [[a b]|] eqn:C; [right | left; reflexivity].
  apply cut_length in C as [L _]. lia.
Qed.

(* ---------- slices inside their bounds ---------- *)

Lemma slice_to_Done {A} (s : list A) (hi : Z) :
  0 <= hi <= Z.of_nat (length s) -> slice_to s hi = Done (firstn (Z.to_nat hi) s).
Proof. intros H. apply slice_to_in_range. unfold len. exact H. Qed.

Lemma finished_slice_to {A} (s : list A) (hi : Z) :
  0 <= hi <= Z.of_nat (length s) -> finished (slice_to s hi).
Proof. intros H. rewrite slice_to_Done by exact H. apply finished_Done. Qed.

Lemma finished_slice_from {A} (s : list A) (lo : Z) :
  0 <= lo <= Z.of_nat (length s) -> finished (slice_from s lo).
Proof. intros H. rewrite slice_from_Done by exact H. apply finished_Done. Qed.

(* ---------- wrap64 on cursors ---------- *)

Lemma wrap64_id z : - 2 ^ 63 <= z < 2 ^ 63 -> wrap64 z = z.
Proof. apply wrap64_small. Qed.

(* ---------- a loop whose result is used by a continuation ---------- *)

(* like [finished_while_bind], but the continuation only has to finish on the exits that
   satisfy the postconditions *)
Lemma finished_while_bind_post {St R B : Type} (fuel : nat) (body : St -> res (step St R)) (s : St)
      (k : exit St R -> res B) (Inv : St -> Prop) (m : St -> nat) (Qb : St -> Prop) (Qr : R -> Prop) :
  (forall s, Inv s -> step_ok body Inv m Qb Qr s) ->
  Inv s -> (m s < fuel)%nat ->
  (forall x, match x with Fell s' => Qb s' | Returned r => Qr r end -> finished (k x)) ->
  finished (bind (while fuel body s) k).
Proof.
  intros Hb Hi Hf Hk.
  destruct (while_rule_ex body Inv m Qb Qr Hb fuel s Hi Hf) as (x & E & Q).
  rewrite E. cbn [bind]. apply Hk. exact Q.
Qed.

(* the measure of a cursor that runs up to n *)
Definition up_to (n k : Z) : nat := Z.to_nat (n - k).

(* ---------- lengths of pieces ---------- *)

Lemma split_c_In_length c (s x : bytes) : In x (split_c c s) -> (length x <= length s)%nat.
Proof.
  revert x. induction s as [|y s IH]; intros x H; cbn [split_c] in H.
  - destruct H as [<-|[]]. cbn; lia.
  - destruct (ceqb c y).
    + destruct H as [<-|H]; [cbn; lia|]. apply IH in H. cbn [length]; lia.
    + destruct (split_c c s) as [|f fs] eqn:E.
      * destruct H as [<-|[]]. cbn [length]. lia.
      * destruct H as [<-|H].
        -- cbn [length]. specialize (IH f (or_introl eq_refl)). lia.
        -- specialize (IH x (or_intror H)). cbn [length]. lia.
Qed.

Lemma nth_split_c_length c (s : bytes) n : (length (nth n (split_c c s) []) <= length s)%nat.
Proof.
  destruct (Nat.lt_ge_cases n (length (split_c c s))) as [L|L].
  - apply split_c_In_length with c. apply nth_In. exact L.
  - rewrite nth_overflow by exact L. cbn; lia.
Qed.

Lemma trim_prefix_length_le p (s : bytes) : (length (trim_prefix p s) <= length s)%nat.
Proof. unfold trim_prefix. destruct (has_prefix p s); [rewrite skipn_length|]; lia. Qed.

(* a computation with a known postcondition followed by a continuation *)
Lemma finished_bind_ex {A B} (r : res A) (k : A -> res B) (Q : A -> Prop) :
  (exists a, r = Done a /\ Q a) -> (forall a, Q a -> finished (k a)) -> finished (bind r k).
Proof. intros (a & E & Qa) H. rewrite E. cbn [bind]. apply H. exact Qa. Qed.

(* ====================================================================================== *)
(* facts for the ties to the models                                                        *)
(* ====================================================================================== *)

(* the two pieces of a cut are a prefix and a suffix of the text *)
Lemma cut_firstn_skipn (sep s a b : bytes) :
  cut sep s = Some (a, b) -> firstn (length a) s = a /\ skipn (length a + length sep) s = b.
Proof.
  revert a b. induction s as [|c s IH]; intros a b H.
  - cbn [cut] in H. destruct (has_prefix sep []); [|discriminate]. injection H as <- <-.
    split; reflexivity.
  - cbn [cut] in H. destruct (has_prefix sep (c :: s)).
    + injection H as <- <-. split; reflexivity.
    + destruct (cut sep s) as [[a' b']|] eqn:C; [|discriminate]. injection H as <- <-.
      destruct (IH a' b' eq_refl) as [E1 E2]. cbn [length firstn skipn Nat.add].
      rewrite E1, E2. split; reflexivity.
Qed.

Lemma firstn_succ_nth {A} (s : list A) (k : nat) (d : A) :
  (k < length s)%nat -> firstn (S k) s = firstn k s ++ [nth k s d].
Proof.
  revert s. induction k as [|k IH]; intros [|x s] L; cbn [length] in L; try lia.
  - reflexivity.
  - change (x :: firstn (S k) s = x :: (firstn k s ++ [nth k s d])).
    rewrite (IH s) by lia. reflexivity.
Qed.

Lemma forallb_firstn {A} (p : A -> bool) (s : list A) n : forallb p s = true -> forallb p (firstn n s) = true.
Proof.
  revert s. induction n as [|n IH]; intros [|x s] H; cbn [firstn forallb] in *; try reflexivity.
  apply andb_prop in H as [H1 H2]. rewrite H1, (IH s H2). reflexivity.
Qed.

Lemma forallb_skipn {A} (p : A -> bool) (s : list A) n : forallb p s = true -> forallb p (skipn n s) = true.
Proof.
  revert s. induction n as [|n IH]; intros [|x s] H; cbn [skipn forallb] in *; try reflexivity; try exact H.
  apply andb_prop in H as [H1 H2]. apply IH. exact H2.
Qed.

Lemma forallb_drop_while (p q : ascii -> bool) (s : bytes) : forallb p s = true -> forallb p (drop_while q s) = true.
Proof.
  induction s as [|x s IH]; intros H; cbn [drop_while]; [reflexivity|].
  destruct (q x); [|exact H]. cbn [forallb] in H. apply andb_prop in H as [_ H]. apply IH. exact H.
Qed.

Lemma forallb_rev' {A} (p : A -> bool) (l : list A) : forallb p (rev l) = forallb p l.
Proof.
  induction l as [|x l IH]; [reflexivity|]. cbn [rev forallb].
  rewrite forallb_app, IH. cbn [forallb]. rewrite andb_true_r. apply andb_comm.
Qed.

Lemma forallb_trim_space (p : ascii -> bool) (s : bytes) : forallb p s = true -> forallb p (trim_space s) = true.
Proof.
  intros H. unfold trim_space, trim_right, trim_left.
  rewrite forallb_rev'. apply forallb_drop_while. rewrite forallb_rev'. apply forallb_drop_while. exact H.
Qed.

Lemma forallb_nth_false {A} (p : A -> bool) (s : list A) (k : nat) (d : A) :
  (k < length s)%nat -> p (nth k s d) = false -> forallb p s = false.
Proof.
  revert s. induction k as [|k IH]; intros [|x s] L H; cbn [length] in L; try lia; cbn [nth forallb] in *.
  - rewrite H. reflexivity.
  - rewrite (IH s) by (lia || exact H). apply andb_false_r.
Qed.

(* a translated `for _, c := range s { if !t(c) { return r0 } }`: it falls through exactly
   when every byte passes the test *)
Lemma forallb_loop {R : Type} (fuel : nat) (body : Z -> res (step Z R)) (s : bytes)
      (t : ascii -> bool) (r0 : R) :
  (forall k, body k =
     if Z.ltb k (Z.of_nat (length s)) then
       bind (idx s k) (fun c => if negb (t c) then Done (Ret r0) else Done (Next (wrap64 (k + 1))))
     else Done (Break k)) ->
  fits s -> (length s < fuel)%nat ->
  while fuel body 0 = Done (if forallb t s then Fell (Z.of_nat (length s)) else Returned r0).
Proof.
  intros Eb F Hf.
  destruct (while_rule_ex body
              (fun k => 0 <= k <= Z.of_nat (length s) /\ forallb t (firstn (Z.to_nat k) s) = true)
              (up_to (Z.of_nat (length s)))
              (fun k => k = Z.of_nat (length s) /\ forallb t s = true)
              (fun r => r = r0 /\ forallb t s = false)) with (fuel := fuel) (s := 0) as (x & E & Q).
  - intros k [Hk Hp]. unfold step_ok, up_to. rewrite Eb.
    destruct (Z.ltb_spec k (Z.of_nat (length s))) as [Lt|Ge].
    + rewrite (idx_in_range s k "000"%char) by (unfold len; lia). cbn [bind].
      destruct (t (nth (Z.to_nat k) s "000"%char)) eqn:T; cbn [negb].
      * rewrite (wrap64_succ k (Z.of_nat (length s))) by (unfold fits in F; lia).
        split; [split; [lia|] | lia].
        rewrite Z_to_nat_succ by lia. rewrite (firstn_succ_nth s _ "000"%char) by lia.
        rewrite forallb_app, Hp. cbn [forallb]. rewrite T. reflexivity.
      * split; [reflexivity|]. apply (forallb_nth_false t s (Z.to_nat k) "000"%char); [lia | exact T].
    + split; [lia|]. rewrite firstn_all2 in Hp by lia. exact Hp.
  - split; [lia | reflexivity].
  - unfold up_to. lia.
  - rewrite E. destruct x as [k|r].
    + destruct Q as [-> ->]. reflexivity.
    + destruct Q as [-> ->]. reflexivity.
Qed.

(* comparing the rune of an ASCII-range byte with a constant *)
Lemma byte_z_eqb (c d : ascii) : Z.eqb (byte_z c) (Z.of_N (code d)) = ceqb c d.
Proof.
  unfold byte_z, ceqb. destruct (N.eqb_spec (code c) (code d)) as [E|E].
  - rewrite E. apply Z.eqb_refl.
  - apply Z.eqb_neq. lia.
Qed.

Lemma existsb_nth_true {A} (p : A -> bool) (s : list A) (k : nat) (d : A) :
  (k < length s)%nat -> p (nth k s d) = true -> existsb p s = true.
Proof.
  intros L H. apply existsb_exists. exists (nth k s d). split; [apply nth_In; exact L | exact H].
Qed.

(* a translated `for _, c := range xs { if t(c) { found = true; break } }`: the flag after the
   loop is existsb t xs *)
Lemma existsb_loop {A R : Type} (fuel : nat) (body : Z * bool -> res (step (Z * bool) R))
      (xs : list A) (d : A) (t : A -> bool) :
  (forall k h, body (k, h) =
     if Z.ltb k (Z.of_nat (length xs)) then
       bind (idx xs k) (fun c => if t c then Done (Break (k, true))
                                 else Done (Next (wrap64 (k + 1), h)))
     else Done (Break (k, h))) ->
  fits xs -> (length xs < fuel)%nat ->
  exists k', while fuel body (0, false) = Done (Fell (k', existsb t xs)).
Proof.
  intros Eb F Hf.
  destruct (while_rule_ex body
              (fun st => 0 <= fst st <= Z.of_nat (length xs) /\ snd st = false /\
                         existsb t (firstn (Z.to_nat (fst st)) xs) = false)
              (fun st => up_to (Z.of_nat (length xs)) (fst st))
              (fun st => snd st = existsb t xs)
              (fun _ => False)) with (fuel := fuel) (s := (0, false)) as (x & E & Q).
  - intros [k h] (Hk & Hh & Hp). cbn [fst snd] in Hk, Hh, Hp. subst h.
    unfold step_ok, up_to. rewrite Eb.
    destruct (Z.ltb_spec k (Z.of_nat (length xs))) as [Lt|Ge].
    + rewrite (idx_in_range xs k d) by (unfold len; lia). cbn [bind].
      destruct (t (nth (Z.to_nat k) xs d)) eqn:T.
      * cbn [snd]. symmetry. apply (existsb_nth_true t xs (Z.to_nat k) d); [lia | exact T].
      * rewrite (wrap64_succ k (Z.of_nat (length xs))) by (unfold fits in F; lia).
        cbn [fst snd]. split; [split; [lia|split; [reflexivity|]] | lia].
        rewrite Z_to_nat_succ by lia. rewrite (firstn_succ_nth xs _ d) by lia.
        rewrite existsb_app, Hp. cbn [existsb]. rewrite T. reflexivity.
    + cbn [snd]. rewrite firstn_all2 in Hp by lia. symmetry. exact Hp.
  - cbn [fst snd]. split; [lia|]. split; reflexivity.
  - unfold up_to. cbn [fst]. lia.
  - destruct x as [[k' h]|r]; [|contradiction]. cbn [snd] in Q. subst h. exists k'. exact E.
Qed.

Lemma existsb_agree {A} (d p q : A -> bool) (s : list A) :
  (forall c, d c = true -> p c = q c) -> forallb d s = true -> existsb p s = existsb q s.
Proof.
  intros H. induction s as [|x s IH]; intros D; [reflexivity|]. cbn [forallb existsb] in *.
  apply andb_prop in D as [D1 D2]. rewrite (H x D1), (IH D2). reflexivity.
Qed.

Lemma bind_eq {A B} (r : res A) (a : A) (k : A -> res B) (x : res B) :
  r = Done a -> k a = x -> bind r k = x.
Proof. intros -> <-. reflexivity. Qed.

Lemma forallb_agree {A} (d p q : A -> bool) (s : list A) :
  (forall c, d c = true -> p c = q c) -> forallb d s = true -> forallb p s = forallb q s.
Proof.
  intros H. induction s as [|x s IH]; intros D; [reflexivity|]. cbn [forallb] in *.
  apply andb_prop in D as [D1 D2]. rewrite (H x D1), (IH D2). reflexivity.
Qed.

Lemma filter_length_le' {A} (p : A -> bool) (l : list A) : (length (filter p l) <= length l)%nat.
Proof. induction l as [|x l IH]; cbn [filter length]; [lia|]. destruct (p x); cbn [length]; lia. Qed.
