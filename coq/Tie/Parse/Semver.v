(* Tie/Parse/Semver.v — the generated translation of semver's NewVersion (Gen/Parse/Semver.v:
   FindStringSubmatch oracle with matches[1..5], matches[k][0] behind the guard
   len(matches[k]) > 1, validatePrerelease / validateBuildMetadata: loops over
   strings.Split(.., "."), part[0] behind len(part) > 1, two MatchString oracles) never panics and
   terminates with fuel linear in the length of the input. *)
From Coq Require Import ZArith List Bool Lia.
From Verif.Base Require Import Bytes GoNum GoOps Imp ImpFacts ImpErr BytesFacts.
From Verif.Eco.Semver Require Version.
From Verif.Gen.Code Require Semver.
From Verif.Gen.Parse Require Semver.
From Verif.Tie Require Semver.
From Verif.Tie.Parse Require Import Common ListCursor.
Import ListNotations.
Local Open Scope Z_scope.

Module G := Verif.Gen.Code.Semver.
Module P := Verif.Gen.Parse.Semver.
Module M := Verif.Eco.Semver.Version.
Module T := Verif.Tie.Semver.

Local Opaque atoi trim_space beq split_c.

(* x[0] under the guard len(x) > 1 *)
Ltac guarded_idx0 :=
  match goal with
  | |- context [if 1 <? Z.of_nat (length ?x) then _ else _] =>
      let H := fresh "G" in
      destruct (Z.ltb_spec 1 (Z.of_nat (length x))) as [H|H];
      [ let c := fresh "c" in let Ec := fresh "Ec" in
        destruct (idx0_length x) as [c Ec]; [lia|]; rewrite Ec; clear Ec; cbn [bind] | cbn [bind] ]
  end.

Section NewVersion.
  Variable find : bytes -> option (list bytes).       (* versionPattern.FindStringSubmatch *)
  Variable validchars : bytes -> bool.                (* validCharsPattern.MatchString: any function *)
  Variable numeric : bytes -> bool.                   (* numericPattern.MatchString: any function *)
  Hypothesis find_shape : submatch_shape find P.versionPattern_groups.
  Hypothesis find_within : submatch_within find.

  (* validatePrerelease: one iteration per identifier; part[0] is read under len(part) > 1 *)
  Lemma validatePrerelease_no_panic : forall fuel pre,
    Z.of_nat (length pre) + 1 < 2 ^ 63 -> (S (length pre) < fuel)%nat ->
    finished (P.validatePrerelease validchars numeric fuel pre).
  Proof.
    intros fuel pre F Hf. unfold P.validatePrerelease. cbv zeta.
    pose proof (split_c_length_le (chr 46) pre) as SL.
    apply (finished_cursor_bind fuel (split_c (chr 46) pre)); [lia | lia | | intros [k|r]; np].
    intros i part Hi Hc. cbv beta.
    destruct (beq part []); [exact I|].
    destruct (negb (validchars part)); [exact I|].
    destruct (numeric part); [|reflexivity].
    guarded_idx0; [|reflexivity].
    destruct (ceqb c (chr 48)); [exact I | reflexivity].
  Qed.

  Lemma validateBuildMetadata_no_panic : forall fuel b,
    Z.of_nat (length b) + 1 < 2 ^ 63 -> (S (length b) < fuel)%nat ->
    finished (P.validateBuildMetadata validchars fuel b).
  Proof.
    intros fuel b F Hf. unfold P.validateBuildMetadata. cbv zeta.
    pose proof (split_c_length_le (chr 46) b) as SL.
    apply (finished_cursor_bind fuel (split_c (chr 46) b)); [lia | lia | | intros [k|r]; np].
    intros i part Hi Hc. cbv beta.
    destruct (beq part []); [exact I|].
    destruct (negb (validchars part)); [exact I | reflexivity].
  Qed.

  (* C06 for semver's NewVersion: no panic, and fuel length s + 2 is enough *)
  Theorem newversion_semver_no_panic : forall e s fuel,
    Z.of_nat (length s) + 1 < 2 ^ 63 -> (S (length s) < fuel)%nat ->
    finished (P.Ecosystem_NewVersion find validchars numeric fuel e s).
  Proof.
    intros e s fuel F Hf. unfold P.Ecosystem_NewVersion. cbv zeta.
    pose proof (trim_space_length_le s) as TL.
    destruct (beq (trim_space s) []); [np|].
    destruct (find (trim_space s)) as [m|] eqn:E; [|np].
    pose proof (find_shape _ _ E) as L. unfold P.versionPattern_groups in L.
    pose proof (find_within _ _ E) as W.
    shape_list L.
    repeat match goal with H : Forall _ (_ :: _) |- _ => inversion H; clear H; subst end.
    assert (VP : forall c, (length c <= length (trim_space s))%nat ->
              finished (P.validatePrerelease validchars numeric fuel c)).
    { intros c Hc. apply validatePrerelease_no_panic; lia. }
    assert (VB : forall c, (length c <= length (trim_space s))%nat ->
              finished (P.validateBuildMetadata validchars fuel c)).
    { intros c Hc. apply validateBuildMetadata_no_panic; lia. }
    repeat (erewrite idx_known by reflexivity; cbn [bind]).
    destruct (atoi _) as [major|]; [|np].
    repeat (erewrite idx_known by reflexivity; cbn [bind]).
    guarded_idx0; [destruct (ceqb _ _); [np|] |];
    (repeat (erewrite idx_known by reflexivity; cbn [bind]);
     destruct (atoi _) as [minor|]; [|np];
     repeat (erewrite idx_known by reflexivity; cbn [bind]);
     guarded_idx0; [destruct (ceqb _ _); [np|] |];
     (repeat (erewrite idx_known by reflexivity; cbn [bind]);
      destruct (atoi _) as [patch|]; [|np];
      repeat (erewrite idx_known by reflexivity; cbn [bind]);
      guarded_idx0; [destruct (ceqb _ _); [np|] |];
      (repeat (erewrite idx_known by reflexivity; cbn [bind]);
       match goal with |- context [negb (beq ?p [])] => destruct (negb (beq p [])) end;
       [ apply finished_bind; [apply VP; assumption|]; intros [u|] _; [|np];
         match goal with |- context [negb (beq ?p [])] => destruct (negb (beq p [])) end; [|np];
         apply finished_bind; [apply VB; assumption|]; intros [u'|] _; np
       | match goal with |- context [negb (beq ?p [])] => destruct (negb (beq p [])) end; [|np];
         apply finished_bind; [apply VB; assumption|]; intros [u'|] _; np ]))).
  Qed.
End NewVersion.
Print Assumptions newversion_semver_no_panic.

(* ---------- the tie to the model ---------- *)

(* an optional group: Go reports a group that did not take part as "" *)
Definition grp (o : option bytes) : bytes := match o with Some p => p | None => [] end.
Definition opt_dotted (o : option bytes) : bool :=
  match o with None => true | Some p => M.dotted_idents p end.

(* what versionPattern ^(\d+)\.(\d+)\.(\d+)(?:-(IDS))?(?:\+(IDS))?$ returns on the trimmed text,
   re-expressed with the scanners of the model (the plus sign occurs in no character class, so
   group 5 follows the first plus sign; the numbers contain no hyphen, so group 4 follows the
   first hyphen of the rest): [whole; major; minor; patch; prerelease; build].  That the real
   regexp engine agrees with this function is the oracle-agreement hypothesis below. *)
Definition ref_match (t : bytes) : option (list bytes) :=
  let '(main, bld) := split2_c "+"%char t in
  let '(nums, pre) := split2_c "-"%char main in
  match split_c "."%char nums with
  | [a; b; c] =>
      if nonempty_digits a && nonempty_digits b && nonempty_digits c && opt_dotted pre && opt_dotted bld
      then Some [t; a; b; c; grp pre; grp bld]
      else None
  | _ => None
  end.

(* ref_match was compared with the real regexp.FindStringSubmatch of the Go pattern on 2220 texts
   (exhaustive short strings over the separators, mutated seeds; scratch/refcheck/gen.go): no
   disagreement. *)

(* the Go value for a parsed core *)
Definition conc (s : bytes) (c : M.core) : G.Version :=
  G.mk_Version (M.major c) (M.minor c) (M.patch c) (M.prerelease c) (M.build c) s.

Lemma abs_conc s c : T.abs (conc s c) = c.
Proof. destruct c; reflexivity. Qed.

(* strconv.Atoi on a non-empty run of digits *)
Lemma atoi_nd (d : bytes) : nonempty_digits d = true ->
  atoi d = if (digits_val d <? two63)%N then Some (Z.of_N (digits_val d)) else None.
Proof.
  Local Transparent atoi.
  intros ND. destruct d as [|c r]; [discriminate|]. unfold atoi.
  assert (Dc : is_digit c = true) by (cbn in ND; apply andb_prop in ND as [H _]; exact H).
  assert (ceqb c "-"%char = false /\ ceqb c "+"%char = false) as [E1 E2].
  { unfold is_digit, in_range in Dc. unfold ceqb. apply andb_prop in Dc as [D1 D2].
    apply N.leb_le in D1. split; apply N.eqb_neq; intros X; rewrite X in D1; vm_compute in D1; congruence. }
  rewrite E1, E2. cbv zeta. rewrite ND. reflexivity.
  Local Opaque atoi.
Qed.

(* len(x) > 1 && x[0] == '0' *)
Lemma lz_model (a : bytes) :
  (if 1 <? Z.of_nat (length a) then bind (idx a 0) (fun c => Done (ceqb c (chr 48))) else Done false)
  = Done (M.leading_zero a).
Proof.
  destruct a as [|c [|d r]]; [reflexivity | reflexivity |].
  replace (1 <? Z.of_nat (length (c :: d :: r))) with true
    by (symmetry; apply Z.ltb_lt; cbn [length]; lia).
  reflexivity.
Qed.

Lemma split2_c_length c (s a : bytes) ob : split2_c c s = (a, ob) ->
  (length a <= length s)%nat /\ (forall b, ob = Some b -> (length b <= length s)%nat).
Proof.
  unfold split2_c. destruct (cut [c] s) as [[x y]|] eqn:E.
  - apply cut_length in E. intros X; injection X as <- <-. split; [lia|].
    intros b Hb; injection Hb as <-. lia.
  - intros X; injection X as <- <-. split; [lia | discriminate].
Qed.

Lemma dotted_nonempty p : M.dotted_idents p = true -> p <> [].
Proof. intros H ->. discriminate. Qed.

Section Tie.
  Variable find : bytes -> option (list bytes).
  Variable validchars : bytes -> bool.
  Variable numeric : bytes -> bool.
  (* ORACLE AGREEMENT: the regexp engine computes what the model's scanners compute *)
  Hypothesis find_agrees : forall t, find t = ref_match t.
  Hypothesis validchars_agrees : forall p, validchars p = M.valid_chars p.
  Hypothesis numeric_agrees : forall p, numeric p = M.is_numeric p.

  Lemma validatePrerelease_model : forall fuel pre,
    Z.of_nat (length pre) + 1 < 2 ^ 63 -> (S (length pre) < fuel)%nat ->
    P.validatePrerelease validchars numeric fuel pre
    = Done (if M.validate_prerelease pre then Some tt else None).
  Proof.
    intros fuel pre F Hf. unfold P.validatePrerelease, M.validate_prerelease. cbv zeta.
    pose proof (split_c_length_le (chr 46) pre) as SL.
    set (xs := split_c (chr 46) pre) in *.
    match goal with |- bind (while fuel ?b 0) _ = _ =>
      assert (W : while fuel b 0 = Done (if forallb M.pre_part_ok xs then Fell (Z.of_nat (length xs)) else Returned None)) end.
    { apply (cursor_forall fuel xs); [lia | lia |].
      intros i part Hi Hc. cbv beta. unfold M.pre_part_ok.
      destruct part as [|c r]; [rewrite beq_nil_nil; reflexivity|].
      rewrite beq_cons_nil, validchars_agrees.
      destruct (M.valid_chars (c :: r)); cbn [negb andb]; [|reflexivity].
      rewrite numeric_agrees. destruct (M.is_numeric (c :: r)); cbn [andb]; [|reflexivity].
      rewrite lz_model. cbn [bind]. destruct (M.leading_zero (c :: r)); reflexivity. }
    rewrite W. cbn [bind]. change (split_c "." pre) with xs.
    destruct (forallb M.pre_part_ok xs); reflexivity.
  Qed.

  Lemma validateBuildMetadata_model : forall fuel b,
    Z.of_nat (length b) + 1 < 2 ^ 63 -> (S (length b) < fuel)%nat ->
    P.validateBuildMetadata validchars fuel b
    = Done (if M.validate_build b then Some tt else None).
  Proof.
    intros fuel b F Hf. unfold P.validateBuildMetadata, M.validate_build. cbv zeta.
    pose proof (split_c_length_le (chr 46) b) as SL.
    set (xs := split_c (chr 46) b) in *.
    match goal with |- bind (while fuel ?b 0) _ = _ =>
      assert (W : while fuel b 0 = Done (if forallb M.valid_chars xs then Fell (Z.of_nat (length xs)) else Returned None)) end.
    { apply (cursor_forall fuel xs); [lia | lia |].
      intros i part Hi Hc. cbv beta.
      destruct part as [|c r]; [rewrite beq_nil_nil; reflexivity|].
      rewrite beq_cons_nil, validchars_agrees.
      destruct (M.valid_chars (c :: r)); reflexivity. }
    rewrite W. cbn [bind]. change (split_c "." b) with xs.
    destruct (forallb M.valid_chars xs); reflexivity.
  Qed.

  Theorem tie_parse_semver_newversion : forall e s fuel,
    Z.of_nat (length s) + 1 < 2 ^ 63 -> (S (length s) < fuel)%nat ->
    P.Ecosystem_NewVersion find validchars numeric fuel e s
    = Done (option_map (conc s) (M.parse_core (trim_space s))).
  Proof.
    intros e s fuel F Hf. unfold P.Ecosystem_NewVersion. cbv zeta.
    pose proof (trim_space_length_le s) as TL.
    set (t := trim_space s) in *. clearbody t.
    destruct (beq t []) eqn:E0.
    { apply beq_eq in E0. subst t. reflexivity. }
    rewrite find_agrees. unfold ref_match, M.parse_core.
    destruct (split2_c "+" t) as [main bld] eqn:S1.
    destruct (split2_c "-" main) as [nums pre] eqn:S2.
    destruct (split2_c_length _ _ _ _ S1) as [Lmain Lbld].
    destruct (split2_c_length _ _ _ _ S2) as [_ Lpre].
    destruct (split_c "." nums) as [|a [|b [|c [|? ?]]]]; try reflexivity.
    assert (PN : forall x, nonempty_digits x = false -> M.parse_num x = None).
    { intros x Hx. unfold M.parse_num. rewrite Hx. reflexivity. }
    destruct (nonempty_digits a) eqn:Da; cbn [andb];
      [|rewrite (PN a Da); reflexivity].
    destruct (nonempty_digits b) eqn:Db; cbn [andb];
      [|rewrite (PN b Db); destruct (M.parse_num a); reflexivity].
    destruct (nonempty_digits c) eqn:Dc; cbn [andb];
      [|rewrite (PN c Dc); destruct (M.parse_num a); [destruct (M.parse_num b)|]; reflexivity].
    clear PN.
    destruct (opt_dotted pre) eqn:Dp; cbn [andb].
    2:{ destruct pre as [p|]; [|discriminate]. cbn [opt_dotted] in Dp. rewrite Dp.
        cbn [andb]. rewrite andb_false_r.
        destruct (M.parse_num a); [destruct (M.parse_num b); [destruct (M.parse_num c)|]|]; reflexivity. }
    destruct (opt_dotted bld) eqn:Dbl.
    2:{ destruct bld as [bb|]; [|discriminate]. cbn [opt_dotted] in Dbl. rewrite Dbl.
        cbn [andb].
        destruct (M.parse_num a); [destruct (M.parse_num b); [destruct (M.parse_num c)|]|]; reflexivity. }
    (* the pattern matches *)
    repeat (erewrite idx_known by reflexivity; cbn [bind]).
    unfold M.parse_num. rewrite Da, Db, Dc. cbn [andb].
    rewrite (atoi_nd a Da). destruct (digits_val a <? two63)%N; cbn [andb]; [|reflexivity].
    repeat (erewrite idx_known by reflexivity; cbn [bind]).
    rewrite lz_model. cbn [bind]. destruct (M.leading_zero a); cbn [negb]; [reflexivity|].
    repeat (erewrite idx_known by reflexivity; cbn [bind]).
    rewrite (atoi_nd b Db). destruct (digits_val b <? two63)%N; cbn [andb]; [|reflexivity].
    repeat (erewrite idx_known by reflexivity; cbn [bind]).
    rewrite lz_model. cbn [bind]. destruct (M.leading_zero b); cbn [negb]; [reflexivity|].
    repeat (erewrite idx_known by reflexivity; cbn [bind]).
    rewrite (atoi_nd c Dc). destruct (digits_val c <? two63)%N; cbn [andb]; [|reflexivity].
    repeat (erewrite idx_known by reflexivity; cbn [bind]).
    rewrite lz_model. cbn [bind]. destruct (M.leading_zero c); cbn [negb]; [reflexivity|].
    repeat (erewrite idx_known by reflexivity; cbn [bind]).
    assert (VB : forall bb, bld = Some bb ->
              P.validateBuildMetadata validchars fuel bb = Done (if M.validate_build bb then Some tt else None)).
    { intros bb Hb. specialize (Lbld _ Hb). apply validateBuildMetadata_model; lia. }
    assert (NEb : forall bb, bld = Some bb -> exists x r, bb = x :: r).
    { intros bb ->. cbn [opt_dotted] in Dbl. apply dotted_nonempty in Dbl.
      destruct bb as [|x r]; [congruence | eauto]. }
    destruct pre as [p|]; cbn [grp].
    - cbn [opt_dotted] in Dp. pose proof (dotted_nonempty _ Dp) as NE.
      destruct p as [|x r]; [congruence|]. rewrite beq_cons_nil. cbn [negb].
      rewrite validatePrerelease_model by (specialize (Lpre _ eq_refl); lia). cbn [bind].
      rewrite Dp. cbn [andb].
      destruct (M.validate_prerelease (x :: r)); [|rewrite andb_false_r; reflexivity].
      rewrite andb_true_r.
      destruct bld as [bb|]; cbn [grp].
      + destruct (NEb _ eq_refl) as (y & r' & ->). rewrite beq_cons_nil. cbn [negb].
        rewrite (VB _ eq_refl). cbn [bind]. cbn [opt_dotted] in Dbl. rewrite Dbl. cbn [andb].
        destruct (M.validate_build (y :: r')); reflexivity.
      + rewrite beq_nil_nil. reflexivity.
    - rewrite beq_nil_nil. cbn [negb]. rewrite andb_true_r.
      destruct bld as [bb|]; cbn [grp].
      + destruct (NEb _ eq_refl) as (y & r' & ->). rewrite beq_cons_nil. cbn [negb].
        rewrite (VB _ eq_refl). cbn [bind]. cbn [opt_dotted] in Dbl. rewrite Dbl. cbn [andb].
        destruct (M.validate_build (y :: r')); reflexivity.
      + rewrite beq_nil_nil. reflexivity.
  Qed.
End Tie.
Print Assumptions tie_parse_semver_newversion.
