(* Tie/Parse/SemverRange.v — the generated translation of semver's NewVersionRange
   (Gen/Parse/Semver.v: parseRange, parseCommaSeparatedConstraints = a loop over
   strings.Split(s, ","), parseSpaceSeparatedConstraints = a loop over strings.Fields(s)) never
   panics and terminates with fuel linear in the length of the input.  parseSingleConstraint is
   outside the translated fragment (a nil pointer as a value): a Section variable of the generated
   file, a pure function that cannot panic in the model; Ecosystem_NewVersion is only called from
   there, so the theorem has no hypothesis about it and no regular expression occurs.

   Second part: the tie to the model Eco/Semver/Range.v — [tie_parse_semver_newversionrange]:
   given that the untranslated parseSingleConstraint returns the one constraint the model's
   parse_single describes (hypothesis [single_agrees], for an arbitrary reading [cc] of model
   constraints as Go values), the generated NewVersionRange computes the model's parse_range
   (the choice of the splitter, the skipping of empty comma parts, "no valid constraints"). *)
From Coq Require Import ZArith List Ascii Bool Lia.
From Verif.Base Require Import Bytes GoNum GoOps Imp ImpFacts ImpErr BytesFacts.
From Verif.Gen.Code Require Semver.
From Verif.Gen.Parse Require Semver.
From Verif.Eco Require Import RangeCore.
From Verif.Eco.Semver Require Range.
From Verif.Tie.Parse Require Import Common RangeCommon RangeTie.
Import ListNotations.
Local Open Scope Z_scope.

Module G := Verif.Gen.Code.Semver.
Module P := Verif.Gen.Parse.Semver.
Module RM := Verif.Eco.Semver.Range.

Section Range.
  Variable single : bytes -> option (list G.constraint).  (* parseSingleConstraint *)

  Local Opaque trim_space beq fields split_c contains_sub.

  (* parseCommaSeparatedConstraints: one iteration per comma-separated part *)
  Lemma parseCommaSeparatedConstraints_semver_no_panic : forall fuel s,
    Z.of_nat (length s) + 1 < 2 ^ 63 -> (S (length s) < fuel)%nat ->
    finished (P.parseCommaSeparatedConstraints single fuel s).
  Proof.
    intros fuel s Hfit Hf. unfold P.parseCommaSeparatedConstraints. cbv zeta.
    pose proof (split_c_length_le (chr 44) s) as SL.
    apply (range_loop_finished (split_c (chr 44) s)
             (fun k part cs =>
                if beq (trim_space part) [] then Done (Next (wrap64 (k + 1), cs))
                else match single (trim_space part) with
                     | None => Done (Ret None)
                     | Some pcs => Done (Next (wrap64 (k + 1), cs ++ pcs))
                     end)).
    - intros k part cs _ _. destruct (beq _ _); [reflexivity|].
      destruct (single _); [reflexivity | exact I].
    - lia.
    - lia.
    - intros [[k cs]|r]; np.
  Qed.

  (* parseSpaceSeparatedConstraints: one iteration per field *)
  Lemma parseSpaceSeparatedConstraints_semver_no_panic : forall fuel s,
    Z.of_nat (length s) + 1 < 2 ^ 63 -> (S (length s) < fuel)%nat ->
    finished (P.parseSpaceSeparatedConstraints single fuel s).
  Proof.
    intros fuel s Hfit Hf. unfold P.parseSpaceSeparatedConstraints. cbv zeta.
    pose proof (fields_length_le s) as SL.
    apply (range_loop_finished (fields s)
             (fun k part cs =>
                match single part with
                | None => Done (Ret None)
                | Some pcs => Done (Next (wrap64 (k + 1), cs ++ pcs))
                end)).
    - intros k part cs _ _. destruct (single part); [reflexivity | exact I].
    - lia.
    - lia.
    - intros [[k cs]|r]; np.
  Qed.

  Lemma parseRange_semver_no_panic : forall fuel s,
    Z.of_nat (length s) + 1 < 2 ^ 63 -> (S (length s) < fuel)%nat ->
    finished (P.parseRange single fuel s).
  Proof.
    intros fuel s Hfit Hf. unfold P.parseRange.
    destruct (contains_sub _ s).
    - apply finished_bind; [|intros; np].
      apply parseCommaSeparatedConstraints_semver_no_panic; assumption.
    - destruct (contains_sub _ s); [|np].
      apply finished_bind; [|intros; np].
      apply parseSpaceSeparatedConstraints_semver_no_panic; assumption.
  Qed.

  (* C06 for semver's NewVersionRange: no panic, and fuel length s + 2 is enough *)
  Theorem newversionrange_semver_no_panic : forall fuel e s,
    Z.of_nat (length s) + 1 < 2 ^ 63 -> (S (length s) < fuel)%nat ->
    finished (P.Ecosystem_NewVersionRange single fuel e s).
  Proof.
    intros fuel e s Hfit Hf. unfold P.Ecosystem_NewVersionRange. cbv zeta.
    pose proof (trim_space_length_le s) as TL.
    destruct (beq (trim_space s) []); [np|].
    apply finished_bind; [|intros; np].
    apply parseRange_semver_no_panic; lia.
  Qed.
End Range.
Print Assumptions newversionrange_semver_no_panic.

(* ---------- the tie to the model (Eco/Semver/Range.v) ---------- *)

Lemma contains_sub_c c (s : bytes) : contains_sub [c] s = contains_c c s.
Proof.
  unfold contains_sub, contains_c. induction s as [|x s IH]; [reflexivity|].
  cbn [cut has_prefix existsb]. rewrite andb_true_r.
  destruct (ceqb c x); cbn [orb]; [reflexivity|].
  rewrite <- IH. destruct (cut [c] s) as [[a b]|]; reflexivity.
Qed.

(* a trimmed non-empty text has at least one field *)
Lemma fields_aux_nonempty cur (s : bytes) : cur <> [] -> fields_aux cur s <> [].
Proof.
  revert cur. induction s as [|x s IH]; intros cur Hc; cbn [fields_aux].
  - destruct cur; [contradiction | discriminate].
  - destruct (is_space x).
    + destruct cur; [contradiction | discriminate].
    + apply IH. discriminate.
Qed.

Lemma fields_trimmed_nonempty (s : bytes) : trim_space s <> [] -> fields (trim_space s) <> [].
Proof.
  unfold trim_space. intros H.
  destruct (trim_left s) as [|c l] eqn:E; [exact (fun _ => H eq_refl)|].
  pose proof (trim_left_nonspace_hd _ _ _ E) as Hc.
  rewrite trim_right_cons_nonspace by exact Hc.
  unfold fields. cbn [fields_aux]. rewrite Hc. apply fields_aux_nonempty. discriminate.
Qed.

Section Tie.
  Variable single : bytes -> option (list G.constraint).  (* parseSingleConstraint *)
  Variable vok : bytes -> bool.                            (* the model's validity oracle *)
  Variable cc : RM.constr -> G.constraint.                (* the Go value of a model constraint *)
  (* AGREEMENT for the untranslated callee: parseSingleConstraint returns the one constraint the
     model's parse_single describes *)
  Hypothesis single_agrees : forall c,
    single c = option_map (fun k => [cc k]) (RM.parse_single vok c).

  Definition conc (r : RM.range) : G.VersionRange :=
    G.mk_VersionRange (map cc (RM.r_cs r)) (RM.r_orig r).

  Definition comma_g (part : bytes) (cs : list G.constraint) : option (list G.constraint) + list G.constraint :=
    let p := trim_space part in
    if beq p [] then inr cs
    else match RM.parse_single vok p with
         | None => inl None
         | Some k => inr (cs ++ [cc k])
         end.

  Lemma run_comma : forall parts acc,
    run comma_g parts acc =
    match RM.parse_all vok (filter nonempty (map trim_space parts)) with
    | None => inl None
    | Some l => inr (acc ++ map cc l)
    end.
  Proof.
    induction parts as [|part r IH]; intros acc; cbn [run map filter RM.parse_all].
    - cbn. rewrite app_nil_r. reflexivity.
    - unfold comma_g at 1. cbv zeta. rewrite beq_nil_nonempty.
      destruct (nonempty (trim_space part)); cbn [negb]; [|apply IH].
      cbn [RM.parse_all].
      destruct (RM.parse_single vok (trim_space part)) as [k|]; [|reflexivity].
      rewrite IH. destruct (RM.parse_all _ _) as [l|]; [|reflexivity].
      rewrite <- app_assoc. reflexivity.
  Qed.

  Definition space_g (part : bytes) (cs : list G.constraint) : option (list G.constraint) + list G.constraint :=
    match RM.parse_single vok part with
    | None => inl None
    | Some k => inr (cs ++ [cc k])
    end.

  Lemma run_space : forall parts acc,
    run space_g parts acc =
    match RM.parse_all vok parts with
    | None => inl None
    | Some l => inr (acc ++ map cc l)
    end.
  Proof.
    induction parts as [|part r IH]; intros acc; cbn [run RM.parse_all].
    - cbn. rewrite app_nil_r. reflexivity.
    - unfold space_g at 1.
      destruct (RM.parse_single vok part) as [k|]; [|reflexivity].
      rewrite IH. destruct (RM.parse_all _ _) as [l|]; [|reflexivity].
      rewrite <- app_assoc. reflexivity.
  Qed.

  Local Opaque trim_space fields split_c.

  Lemma tie_parse_semver_comma : forall fuel s,
    Z.of_nat (length s) + 1 < 2 ^ 63 -> (S (length s) < fuel)%nat ->
    P.parseCommaSeparatedConstraints single fuel s =
    Done (match RM.parse_all vok (split_comma_trim s) with
          | Some (c :: l) => Some (map cc (c :: l))
          | _ => None
          end).
  Proof.
    intros fuel s Hfit Hf. unfold P.parseCommaSeparatedConstraints. cbv zeta.
    pose proof (split_c_length_le (chr 44) s) as SL.
    match goal with |- context [while fuel ?b (0, [])] =>
      change b with (range_body (R := option (list G.constraint)) (split_c (chr 44) s)
             (fun k part cs =>
                if beq (trim_space part) [] then Done (Next (wrap64 (k + 1), cs))
                else match single (trim_space part) with
                     | None => Done (Ret None)
                     | Some pcs => Done (Next (wrap64 (k + 1), cs ++ pcs))
                     end))
    end.
    rewrite (range_loop_result _ _ comma_g); [| |lia|lia].
    - rewrite run_comma. cbn [bind app].
      change (split_comma_trim s) with (filter nonempty (map trim_space (split_c (chr 44) s))).
      destruct (RM.parse_all _ _) as [[|c l]|]; reflexivity.
    - intros k part cs. unfold comma_g. cbv zeta.
      destruct (beq (trim_space part) []); [reflexivity|].
      rewrite single_agrees. destruct (RM.parse_single vok _); reflexivity.
  Qed.

  Lemma tie_parse_semver_space : forall fuel s,
    Z.of_nat (length s) + 1 < 2 ^ 63 -> (S (length s) < fuel)%nat ->
    P.parseSpaceSeparatedConstraints single fuel s =
    Done (option_map (map cc) (RM.parse_all vok (fields s))).
  Proof.
    intros fuel s Hfit Hf. unfold P.parseSpaceSeparatedConstraints. cbv zeta.
    pose proof (fields_length_le s) as SL.
    match goal with |- context [while fuel ?b (0, [])] =>
      change b with (range_body (R := option (list G.constraint)) (fields s)
             (fun k part cs =>
                match single part with
                | None => Done (Ret None)
                | Some pcs => Done (Next (wrap64 (k + 1), cs ++ pcs))
                end))
    end.
    rewrite (range_loop_result _ _ space_g); [| |lia|lia].
    - rewrite run_space. cbn [bind app].
      destruct (RM.parse_all _ _) as [l|]; reflexivity.
    - intros k part cs. unfold space_g.
      rewrite single_agrees. destruct (RM.parse_single vok _); reflexivity.
  Qed.

  (* the generated NewVersionRange computes the model's parse_range *)
  Theorem tie_parse_semver_newversionrange : forall fuel e s,
    Z.of_nat (length s) + 1 < 2 ^ 63 -> (S (length s) < fuel)%nat ->
    P.Ecosystem_NewVersionRange single fuel e s = Done (option_map conc (RM.parse_range vok s)).
  Proof.
    intros fuel e s Hfit Hf. unfold P.Ecosystem_NewVersionRange, RM.parse_range, P.parseRange. cbv zeta.
    pose proof (trim_space_length_le s) as TL.
    pose proof (fields_trimmed_nonempty s) as FN.
    rewrite beq_nil_nonempty. destruct (trim_space s) as [|x t] eqn:E; [reflexivity|].
    cbn [nonempty negb]. assert (NE : trim_space s <> []) by (rewrite E; discriminate).
    rewrite <- E in *. clear E x t. specialize (FN NE).
    unfold RM.split_range.
    rewrite (contains_sub_c ","%char : forall s, contains_sub $"," s = _).
    rewrite (contains_sub_c " "%char : forall s, contains_sub ($" ") s = _).
    destruct (contains_c ","%char (trim_space s)).
    - rewrite tie_parse_semver_comma by lia. cbn [bind].
      destruct (RM.parse_all _ _) as [[|c l]|]; reflexivity.
    - destruct (contains_c " "%char (trim_space s)).
      + rewrite tie_parse_semver_space by lia. cbn [bind].
        destruct (RM.parse_all vok (fields (trim_space s))) as [[|c l]|] eqn:PA; try reflexivity.
        exfalso. destruct (fields (trim_space s)) as [|f fs] eqn:EF.
        * apply FN. reflexivity.
        * cbn [RM.parse_all] in PA. destruct (RM.parse_single vok f); [|discriminate].
          destruct (RM.parse_all vok fs); discriminate.
      + cbn [bind RM.parse_all]. rewrite single_agrees.
        destruct (RM.parse_single vok (trim_space s)); reflexivity.
  Qed.
End Tie.
Print Assumptions tie_parse_semver_newversionrange.
