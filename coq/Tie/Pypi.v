(* Tie/Pypi.v — the generated translation of pkg/ecosystem/pypi (Gen/Code/Pypi.v) against the
   model (Eco/Pypi), version level.  compareReleaseVersions (index loop over the padded release
   lists) is outside the translated fragment: Version.Compare is tied generically in it.

   Representation: the Go struct marks "no pre-release" by prerelease == "" and "no post / dev
   release" by the sentinel -1; the model uses [option].  [abs] maps the sentinels to [None], and
   every helper is tied at [opt_num] / [opt_pre] of its int / string arguments, with no
   well-formedness hypothesis (the Go helpers test the sentinel themselves). *)
From Coq Require Import ZArith List Bool Lia.
From Verif.Base Require Import Bytes GoNum GoOps Ord.
From Verif.Eco Require Import VLayer.
From Verif.Eco.Pypi Require Version.
From Verif.Gen.Code Require Pypi.
From Verif.Tie Require Import Tactics.
Import ListNotations.

Module G := Verif.Gen.Code.Pypi.
Module M := Verif.Eco.Pypi.Version.

(* -1 = absent *)
Definition opt_num (z : Z) : option Z := if Z.eqb z (-1) then None else Some z.
(* "" = absent *)
Definition opt_pre (p : bytes) (n : Z) : option (bytes * Z) := if beq p [] then None else Some (p, n).

Definition abs (v : G.Version) : M.core :=
  {| M.c_epoch := G.Version_epoch v; M.c_release := G.Version_release v;
     M.c_pre := opt_pre (G.Version_prerelease v) (G.Version_preNumber v);
     M.c_post := opt_num (G.Version_postrelease v);
     M.c_dev := opt_num (G.Version_dev v);
     M.c_local := G.Version_local v |}.

(* the version value of the model: the core and the text String() returns *)
Definition abs_ver (v : G.Version) : M.ver :=
  {| v_core := abs v; v_orig := G.Version_original v |}.

Theorem tie_pypi_compareInt : forall a b, G.compareInt a b = Z_of_cmp (Z.compare a b).
Proof. tie_solve. Qed.
Print Assumptions tie_pypi_compareInt.

Theorem tie_pypi_Version_String : forall v, G.Version_String v = M.show (abs_ver v).
Proof. tie_solve. Qed.
Print Assumptions tie_pypi_Version_String.

(* the switch on strings.ToLower(preType) is the generated table of the model *)
Theorem tie_pypi_normalizePrereleaseType : forall p, G.normalizePrereleaseType p = M.pre_type p.
Proof. tie_solve. Qed.
Print Assumptions tie_pypi_normalizePrereleaseType.

Theorem tie_pypi_comparePrereleases : forall ap an bp bn,
  G.comparePrereleases ap an bp bn = Z_of_cmp (M.pre_cmp (opt_pre ap an) (opt_pre bp bn)).
Proof. tie_solve. Qed.
Print Assumptions tie_pypi_comparePrereleases.

Theorem tie_pypi_comparePostReleases : forall a b,
  G.comparePostReleases a b = Z_of_cmp (opt_first Z.compare (opt_num a) (opt_num b)).
Proof. tie_solve. Qed.
Print Assumptions tie_pypi_comparePostReleases.

Theorem tie_pypi_compareDevReleases : forall a b,
  G.compareDevReleases a b = Z_of_cmp (opt_last Z.compare (opt_num a) (opt_num b)).
Proof. tie_solve. Qed.
Print Assumptions tie_pypi_compareDevReleases.

(* the padded release comparison stays folded: it is the specification of the Section
   variable compareReleaseVersions *)
Local Opaque lex_pad.

Section Compare.
  Variable compareReleaseVersions : list Z -> list Z -> Z.
  Hypothesis compareReleaseVersions_model : forall p q,
    compareReleaseVersions p q = Z_of_cmp (lex_pad 0%Z Z.compare p q).

  Theorem tie_pypi_Version_Compare : forall a b,
    G.Version_Compare compareReleaseVersions a b = Z_of_cmp (M.cmp_core (abs a) (abs b)).
  Proof. tie_solve_with compareReleaseVersions_model. Qed.
End Compare.
Print Assumptions tie_pypi_Version_Compare.
