(* Tie/PypiRange.v — the generated translation of pkg/ecosystem/pypi (Gen/Code/Pypi.v) against the
   model (Eco/Pypi/Range.v), range level.  constraint.matches calls NewVersion (a result pair) and
   is outside the translated fragment: Contains is tied generically in it. *)
From Coq Require Import ZArith List Bool Lia.
From Verif.Base Require Import Bytes GoNum GoOps Ord.
From Verif.Eco Require Import RangeCore.
From Verif.Eco.Pypi Require Version Range.
From Verif.Gen.Code Require Pypi.
From Verif.Tie Require Import Tactics.
From Verif.Tie Require Pypi.
Import ListNotations.

Module G := Verif.Gen.Code.Pypi.
Module M := Verif.Eco.Pypi.Version.
Module R := Verif.Eco.Pypi.Range.
Module T := Verif.Tie.Pypi.

(* the constraint and range records, field by field *)
Definition abs_c (c : G.constraint) : R.constraint :=
  R.mkc (G.constraint_operator c) (G.constraint_version c) (G.constraint_upper c).
Definition abs_r (r : G.VersionRange) : R.range :=
  {| R.r_cs := map abs_c (G.VersionRange_constraints r); R.r_orig := G.VersionRange_original r |}.

Theorem tie_pypi_VersionRange_String : forall r, G.VersionRange_String r = R.show (abs_r r).
Proof. tie_solve. Qed.
Print Assumptions tie_pypi_VersionRange_String.

(* Contains: the conjunction of constraint.matches over the constraints.  The model's [matches]
   works on the text the probed version was parsed from and on the oracles vok / vcmp for
   NewVersion / Compare; [txt] is that text. *)
Section Contains.
  Variable vok : bytes -> bool.
  Variable vcmp : bytes -> bytes -> comparison.
  Variable txt : G.Version -> bytes.
  Variable constraint_matches : G.constraint -> G.Version -> bool.
  Hypothesis constraint_matches_model : forall c v,
    constraint_matches c v = R.matches vok vcmp (txt v) (abs_c c).

  Theorem tie_pypi_VersionRange_Contains : forall r v,
    G.VersionRange_Contains constraint_matches r v = R.contains vok vcmp (abs_r r) (txt v).
  Proof.
    intros r v. unfold G.VersionRange_Contains, R.contains, abs_r. cbn [R.r_cs].
    apply forallb_map_eq. intros c. apply constraint_matches_model.
  Qed.
End Contains.
Print Assumptions tie_pypi_VersionRange_Contains.
