(* Tie/Rpm.v — the generated translation of pkg/ecosystem/rpm (Gen/Code/Rpm.v) against the
   model (Eco/Rpm).  compareRPMVersionString (rpmvercmp loop) is outside the
   translated fragment: Compare and the range switch are tied generically in it. *)
From Coq Require Import ZArith List Bool Lia.
From Verif.Base Require Import Bytes GoNum GoOps Ord.
From Verif.Eco Require Import RangeCore.
From Verif.Eco.Rpm Require Version Range.
From Verif.Gen.Code Require Rpm.
From Verif.Tie Require Import Tactics.
Import ListNotations.

Module G := Verif.Gen.Code.Rpm.
Module M := Verif.Eco.Rpm.Version.

Definition abs (v : G.Version) : M.core :=
  {| M.epoch := G.Version_epoch v; M.version := G.Version_version v; M.release := G.Version_release v |}.

Theorem tie_rpm_string : forall v, G.Version_String v = G.Version_original v.
Proof. tie_solve. Qed.
Print Assumptions tie_rpm_string.

(* the model of the Section variable stays folded *)
Local Opaque M.str_cmp.

Section Compare.
  Variable compareRPMVersionString : bytes -> bytes -> Z.
  Hypothesis compareRPMVersionString_model : forall p q, compareRPMVersionString p q = Z_of_cmp (M.str_cmp p q).

  Theorem tie_rpm_compare : forall a b,
    G.Version_Compare compareRPMVersionString a b = Z_of_cmp (M.cmp_core (abs a) (abs b)).
  Proof. tie_solve_with compareRPMVersionString_model. Qed.

  (* range: the operator switch, for any Compare (it stays folded) *)
  Local Opaque G.Version_Compare.
  Theorem tie_rpm_satisfiesRPMConstraint : forall c v,
    G.satisfiesRPMConstraint compareRPMVersionString v c =
    sat (rc_sem Range.cfg (G.constraint_operator c)) (cmp_of_Z (G.Version_Compare compareRPMVersionString v (G.constraint_version c))).
  Proof. tie_solve. Qed.

  Corollary tie_rpm_satisfiesRPMConstraint_model : forall c v,
    G.satisfiesRPMConstraint compareRPMVersionString v c =
    sat (rc_sem Range.cfg (G.constraint_operator c)) (M.cmp_core (abs v) (abs (G.constraint_version c))).
  Proof. intros. rewrite tie_rpm_satisfiesRPMConstraint, tie_rpm_compare, cmp_of_Z_of_cmp. reflexivity. Qed.

  Theorem tie_rpm_contains : forall r v,
    G.VersionRange_Contains compareRPMVersionString r v =
    forallb (fun c => sat (rc_sem Range.cfg (G.constraint_operator c)) (M.cmp_core (abs v) (abs (G.constraint_version c))))
            (G.VersionRange_constraints r).
  Proof.
    intros. unfold G.VersionRange_Contains. apply forallb_ext_in. intros c _. apply tie_rpm_satisfiesRPMConstraint_model.
  Qed.
End Compare.
Print Assumptions tie_rpm_compare.
Print Assumptions tie_rpm_satisfiesRPMConstraint.
Print Assumptions tie_rpm_satisfiesRPMConstraint_model.
Print Assumptions tie_rpm_contains.
