(* Tie/Rpm.v — VERSION level: the generated translation of pkg/ecosystem/rpm
   (Gen/Code/Rpm.v) against the model (Eco/Rpm/Version).  compareRPMVersionString (loop) is outside the
   translated fragment: Compare is tied generically in it.  The range-level ties are in
   Tie/RpmRange.v (which depends on this file, never the other way round). *)
From Coq Require Import ZArith List Bool Lia.
From Verif.Base Require Import Bytes GoNum GoOps Ord.
From Verif.Eco.Rpm Require Version.
From Verif.Gen.Code Require Rpm.
From Verif.Tie Require Import Tactics.
Import ListNotations.

Module G := Verif.Gen.Code.Rpm.
Module M := Verif.Eco.Rpm.Version.

Definition abs (v : G.Version) : M.core :=
  {| M.epoch := G.Version_epoch v; M.version := G.Version_version v; M.release := G.Version_release v |}.

Theorem tie_rpm_string : forall v, G.Version_String v = G.Version_original v.
Proof. tie_solve. Qed.
Print Assumptions tie_rpm_string.

(* the model of the Section variable stays folded *)
Local Opaque M.str_cmp.

Section Compare.
  Variable compareRPMVersionString : bytes -> bytes -> Z.
  Hypothesis compareRPMVersionString_model : forall p q, compareRPMVersionString p q = Z_of_cmp (M.str_cmp p q).

  Theorem tie_rpm_compare : forall a b,
    G.Version_Compare compareRPMVersionString a b = Z_of_cmp (M.cmp_core (abs a) (abs b)).
  Proof. tie_solve_with compareRPMVersionString_model. Qed.
End Compare.
Print Assumptions tie_rpm_compare.
