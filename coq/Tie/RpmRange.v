(* Tie/RpmRange.v — RANGE level: the generated translation of pkg/ecosystem/rpm
   (Gen/Code/Rpm.v) against the range model of Eco/Rpm.  The operator switch and Contains are tied
   generically in compareRPMVersionString (outside the translated fragment).  Reuses [abs] and
   tie_rpm_compare of Tie/Rpm.v. *)
From Coq Require Import ZArith List Bool Lia.
From Verif.Base Require Import Bytes GoNum GoOps Ord.
From Verif.Eco Require Import RangeCore.
From Verif.Eco.Rpm Require Version Range.
From Verif.Gen.Code Require Rpm.
From Verif.Tie Require Import Tactics.
From Verif.Tie Require Import Rpm.
Import ListNotations.

(* the model of the Section variable stays folded *)
Local Opaque M.str_cmp.

Section Compare.
  Variable compareRPMVersionString : bytes -> bytes -> Z.
  Hypothesis compareRPMVersionString_model : forall p q, compareRPMVersionString p q = Z_of_cmp (M.str_cmp p q).

  (* range: the operator switch, for any Compare (it stays folded) *)
  Local Opaque G.Version_Compare.
  Theorem tie_rpm_satisfiesRPMConstraint : forall c v,
    G.satisfiesRPMConstraint compareRPMVersionString v c =
    sat (rc_sem Range.cfg (G.constraint_operator c)) (cmp_of_Z (G.Version_Compare compareRPMVersionString v (G.constraint_version c))).
  Proof. tie_solve. Qed.

  Corollary tie_rpm_satisfiesRPMConstraint_model : forall c v,
    G.satisfiesRPMConstraint compareRPMVersionString v c =
    sat (rc_sem Range.cfg (G.constraint_operator c)) (M.cmp_core (abs v) (abs (G.constraint_version c))).
  Proof. intros. rewrite tie_rpm_satisfiesRPMConstraint, (tie_rpm_compare _ compareRPMVersionString_model), cmp_of_Z_of_cmp. reflexivity. Qed.

  Theorem tie_rpm_contains : forall r v,
    G.VersionRange_Contains compareRPMVersionString r v =
    forallb (fun c => sat (rc_sem Range.cfg (G.constraint_operator c)) (M.cmp_core (abs v) (abs (G.constraint_version c))))
            (G.VersionRange_constraints r).
  Proof.
    intros. unfold G.VersionRange_Contains. apply forallb_ext_in. intros c _. apply tie_rpm_satisfiesRPMConstraint_model.
  Qed.
End Compare.
Print Assumptions tie_rpm_satisfiesRPMConstraint.
Print Assumptions tie_rpm_satisfiesRPMConstraint_model.
Print Assumptions tie_rpm_contains.
