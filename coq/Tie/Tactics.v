(* Tie/Tactics.v — shared definitions and SEMANTIC automation for the tie theorems
   (Tie/<Eco>.v): a function of Gen/Code/<Eco>.v (the translation of the Go source that
   tools/gen regenerates on every run) is proved equal to the hand-written model.

   The proofs must not follow the syntax of the generated term (it changes with every
   behaviour-preserving refactoring of the Go code).  [tie_solve] therefore only
     1. destructs every record in the context,
     2. unfolds BOTH sides completely (cbv with a fixed list of library functions kept folded;
        model functions that must stay folded are made [Opaque] by the tie file),
     3. repeatedly finds the scrutinee at the head of either side (the test that decides which
        way the Go code and the model go next), case-splits on it with the matching
        specification lemma (Z.eqb_spec, Z.ltb_spec, Z.compare_spec, beq_eq ...), simplifies, and
        discards impossible cases with lia / discriminate / congruence,
     4. closes the leaves with reflexivity / lia / congruence.
   A semantic change of the Go code (< for <=, swapped ranks, a forgotten field) leaves a leaf
   such as 1 = -1 and the tie file no longer compiles. *)
From Coq Require Import ZArith List Bool Lia ZifyBool Ascii String.
From Verif.Base Require Import Bytes GoNum GoOps Ord BytesFacts.
From Verif.Eco Require Import RangeCore.
Import ListNotations.

(* Go's -1 / 0 / 1 for a comparison, and back (sign of an int result) *)
Definition Z_of_cmp (c : comparison) : Z := z_sign c.
Definition cmp_of_Z (z : Z) : comparison := Z.compare z 0.

Lemma cmp_of_Z_of_cmp c : cmp_of_Z (Z_of_cmp c) = c.
Proof. destruct c; reflexivity. Qed.

(* every int-returning Go comparison is only looked at through its sign *)
Lemma Z_of_cmp_inj c d : Z_of_cmp c = Z_of_cmp d -> c = d.
Proof. destruct c, d; cbv; congruence. Qed.

(* ---- facts used by the case splits ---- *)
Lemma beq_false_iff a b : beq a b = false <-> a <> b.
Proof.
  split.
  - intros H E. apply beq_eq in E. congruence.
  - intros H. destruct (beq a b) eqn:E; [apply beq_eq in E; contradiction | reflexivity].
Qed.

Lemma beq_sym a b : beq a b = beq b a.
Proof.
  destruct (beq a b) eqn:E; symmetry.
  - apply beq_eq in E. subst. apply beq_refl.
  - apply beq_false_iff. apply beq_false_iff in E. congruence.
Qed.

Lemma bytes_cmp_refl a : bytes_cmp a a = Eq.
Proof. apply bytes_cmp_eq. reflexivity. Qed.

Lemma bytes_cmp_anti a b : bytes_cmp b a = CompOpp (bytes_cmp a b).
Proof. apply (tp_anti TP_bytes_cmp). Qed.

Lemma length_zero_iff_nil {A} (l : list A) : Z.of_nat (length l) = 0%Z <-> l = [].
Proof. destruct l; cbn [length]; split; intros H; try reflexivity; try discriminate; lia. Qed.

(* ---- step 1: records ---- *)
Ltac tie_records :=
  repeat match goal with
  | x : ?T |- _ =>
      lazymatch type of T with
      | Prop => fail
      | _ => idtac
      end;
      lazymatch T with
      | Z => fail | N => fail | nat => fail | bool => fail | comparison => fail
      | ascii => fail | list _ => fail | option _ => fail | prod _ _ => fail
      | _ => is_ind T; destruct x
      end
  end.

(* ---- step 2: unfolding ---- *)
Ltac tie_cbv :=
  cbv -[Nat.eqb Nat.leb Nat.ltb N.eqb N.leb N.ltb N.compare Z.compare Z.eqb Z.ltb Z.leb Z.add Z.sub Z.mul Z.opp Z.min Z.max Z.of_nat length
        beq bytes_cmp wrap64 has_prefix has_suffix contains_sub trim_prefix trim_suffix
        to_lower to_upper trim_space dec_z forallb existsb app].
Ltac tie_cbv_in H :=
  cbv -[Nat.eqb Nat.leb Nat.ltb N.eqb N.leb N.ltb N.compare Z.compare Z.eqb Z.ltb Z.leb Z.add Z.sub Z.mul Z.opp Z.min Z.max Z.of_nat length
        beq bytes_cmp wrap64 has_prefix has_suffix contains_sub trim_prefix trim_suffix
        to_lower to_upper trim_space dec_z forallb existsb app] in H.

(* ---- step 3: case splits ---- *)
(* contradictory context? *)
(* lia must not see the boolean / string facts of the context: with ZifyBool loaded it would
   case-split on every one of them *)
Ltac tie_clear_nonarith :=
  repeat match goal with
  | H : @eq ?T _ _ |- _ => lazymatch T with Z => fail | nat => fail | N => fail | _ => clear H end
  | H : not (@eq ?T _ _) |- _ => lazymatch T with Z => fail | nat => fail | N => fail | _ => clear H end
  end.
Ltac tie_lia := tie_clear_nonarith; lia.

Ltac tie_absurd :=
  solve [ exfalso;
          first
          [ tie_lia
          | match goal with
            | H : ?a <> ?a |- _ => apply H; reflexivity
            | H : _ = _ |- _ => discriminate H
            | H : beq ?a ?a = false |- _ => rewrite beq_refl in H; discriminate H
            | H : bytes_cmp ?a ?a = Lt |- _ => rewrite bytes_cmp_refl in H; discriminate H
            | H : bytes_cmp ?a ?a = Gt |- _ => rewrite bytes_cmp_refl in H; discriminate H
            | H1 : beq ?a ?b = false, H2 : ?a = ?b |- _ => apply beq_false_iff in H1; contradiction
            | H1 : beq ?a ?b = false, H2 : ?b = ?a |- _ => apply beq_false_iff in H1; symmetry in H2; contradiction
            end ] ].

(* a hypothesis beq a b = false / true between closed strings that is false *)
Ltac tie_is_listlit a := lazymatch a with [] => idtac | _ :: _ => idtac end.
Ltac tie_is_zlit a := lazymatch a with Z0 => idtac | Zpos _ => idtac | Zneg _ => idtac end.
Ltac tie_absurd_closed :=
  solve [ exfalso;
          match goal with
          | H : beq ?a ?b = ?v |- _ =>
              tie_is_listlit a; tie_is_listlit b;
              let r := eval cbv in (beq a b) in
              lazymatch r with
              | true => lazymatch v with false => cbv in H; discriminate H end
              | false => lazymatch v with true => cbv in H; discriminate H end
              end
          end ].

Ltac tie_simpl := cbv beta iota zeta.

(* is the boolean / comparison term closed enough to be computed? *)
Ltac tie_compute_atom c :=
  let r := eval cbv in c in
  lazymatch r with
  | true => change c with true
  | false => change c with false
  | Eq => change c with Eq
  | Lt => change c with Lt
  | Gt => change c with Gt
  end.

(* extension point: a tie file may handle further stuck scrutinees with
   Ltac tie_hook c ::= ... *)
Ltac tie_hook c := fail.

Ltac tie_beq a b :=
  first
  [ tie_is_listlit a; tie_is_listlit b; tie_compute_atom (beq a b)
  | let E := fresh "E" in
    destruct (beq a b) eqn:E;
    [ apply beq_eq in E; first [ discriminate E | subst; try tie_absurd | idtac ]
    | try tie_absurd ] ].

Ltac tie_bytes_cmp a b :=
  first
  [ tie_is_listlit a; tie_is_listlit b; tie_compute_atom (bytes_cmp a b)
  | let E := fresh "E" in
    destruct (bytes_cmp a b) eqn:E;
    [ apply bytes_cmp_eq in E; first [ discriminate E | subst; try tie_absurd | idtac ]
    | pose proof (bytes_cmp_anti a b) as ?E'; rewrite E in *; try tie_absurd
    | pose proof (bytes_cmp_anti a b) as ?E'; rewrite E in *; try tie_absurd ] ].

(* split on a stuck scrutinee *)
Ltac tie_atom c :=
  lazymatch c with
  | Z.eqb ?a ?b => first [ tie_is_zlit a; tie_is_zlit b; tie_compute_atom c | destruct (Z.eqb_spec a b); try tie_absurd ]
  | Z.ltb ?a ?b => first [ tie_is_zlit a; tie_is_zlit b; tie_compute_atom c | destruct (Z.ltb_spec a b); try tie_absurd ]
  | Z.leb ?a ?b => first [ tie_is_zlit a; tie_is_zlit b; tie_compute_atom c | destruct (Z.leb_spec a b); try tie_absurd ]
  | Z.compare ?a ?b => first [ tie_is_zlit a; tie_is_zlit b; tie_compute_atom c | destruct (Z.compare_spec a b); try tie_absurd ]
  | beq ?a ?b => tie_beq a b
  | bytes_cmp ?a ?b => tie_bytes_cmp a b
  | Nat.eqb ?a ?b => destruct (Nat.eqb_spec a b); try tie_absurd
  | Nat.leb ?a ?b => destruct (Nat.leb_spec a b); try tie_absurd
  | Nat.ltb ?a ?b => destruct (Nat.ltb_spec a b); try tie_absurd
  | N.eqb ?a ?b => destruct (N.eqb_spec a b); try tie_absurd
  | N.leb ?a ?b => destruct (N.leb_spec a b); try tie_absurd
  | N.ltb ?a ?b => destruct (N.ltb_spec a b); try tie_absurd
  | N.compare ?a ?b => destruct (N.compare_spec a b); try tie_absurd
  | _ => first [ is_var c; destruct c; cbn [length] in *; try tie_absurd_closed; try tie_absurd
               | tie_hook c
               | let E := fresh "E" in destruct c eqn:E; try tie_absurd ]
  end.

(* the innermost scrutinee that decides the head of t; fails when t is not a match *)
Ltac tie_scrut t :=
  lazymatch t with
  | if ?c then _ else _ => first [ tie_scrut c | tie_inner c ]
  | match ?c with Eq => _ | Lt => _ | Gt => _ end => first [ tie_scrut c | tie_inner c ]
  | match ?c with Some _ => _ | None => _ end => first [ tie_scrut c | tie_inner c ]
  | match ?c with [] => _ | _ :: _ => _ end => first [ tie_scrut c | tie_inner c ]
  | match ?c with (_, _) => _ end => first [ tie_scrut c | tie_inner c ]
  | match ?c with Z0 => _ | Zpos _ => _ | Zneg _ => _ end => first [ tie_scrut c | tie_inner c ]
  | match ?c with O => _ | S _ => _ end => first [ tie_scrut c | tie_inner c ]
  | match ?c with CEq => _ | CNe => _ | CLt => _ | CLe => _ | CGt => _ | CGe => _ | CNever => _ end =>
      first [ tie_scrut c | tie_inner c ]
  end
(* a stuck scrutinee may contain a match in an argument (a Go "x := 0; if c { x = 1 }"
   becomes an if-expression used as an operand): decide that one first *)
with tie_inner c :=
  lazymatch c with
  | context [if ?d then _ else _] => first [ tie_scrut d | tie_inner d ]
  | context [match ?d with Eq => _ | Lt => _ | Gt => _ end] => first [ tie_scrut d | tie_inner d ]
  | context [match ?d with Some _ => _ | None => _ end] => first [ tie_scrut d | tie_inner d ]
  | context [match ?d with [] => _ | _ :: _ => _ end] => first [ tie_scrut d | tie_inner d ]
  | _ => tie_atom c
  end.

Ltac tie_step :=
  lazymatch goal with
  | |- ?l = ?r =>
      first [ tie_scrut l | tie_scrut r
            | lazymatch l with
              | context [if ?d then _ else _] => first [ tie_scrut d | tie_inner d ]
              | context [match ?d with Eq => _ | Lt => _ | Gt => _ end] => first [ tie_scrut d | tie_inner d ]
              | context [match ?d with Some _ => _ | None => _ end] => first [ tie_scrut d | tie_inner d ]
              | context [match ?d with [] => _ | _ :: _ => _ end] => first [ tie_scrut d | tie_inner d ]
              end
            | lazymatch r with
              | context [if ?d then _ else _] => first [ tie_scrut d | tie_inner d ]
              | context [match ?d with Eq => _ | Lt => _ | Gt => _ end] => first [ tie_scrut d | tie_inner d ]
              | context [match ?d with Some _ => _ | None => _ end] => first [ tie_scrut d | tie_inner d ]
              | context [match ?d with [] => _ | _ :: _ => _ end] => first [ tie_scrut d | tie_inner d ]
              end ]
  end.

(* ---- step 4: leaves ---- *)
Ltac tie_leaf :=
  first [ reflexivity
        | tie_absurd
        | tie_absurd_closed
        | tie_lia
        | congruence
        | f_equal; first [ reflexivity | tie_lia | congruence ] ].

Ltac tie_same := lazymatch goal with |- ?l = ?r => constr_eq l r; reflexivity end.
Ltac tie_split :=
  repeat (tie_simpl; first [ tie_same | tie_step ]);
  tie_simpl.

(* the whole thing.  [tie_solve] fails (it never leaves goals) when the two sides differ. *)
Ltac tie_solve :=
  intros; tie_records; tie_cbv; tie_split; tie_leaf.

(* the same after rewriting with the hypotheses that tie the Section variables of the generated
   code (callees outside the fragment) to their model *)
Ltac tie_solve_with H :=
  intros; tie_records; tie_cbv; rewrite ?H; tie_cbv; tie_split; tie_leaf.
Ltac tie_solve_with2 H1 H2 :=
  intros; tie_records; tie_cbv; rewrite ?H1, ?H2; tie_cbv; tie_split; tie_leaf.

(* for debugging a failing tie: stop at the leaves that do not close *)
Ltac tie_debug :=
  intros; tie_records; tie_cbv; tie_split; try tie_leaf.

(* ---- lists: the for-range patterns ---- *)
Lemma forallb_ext_in {A} (f g : A -> bool) l :
  (forall x, In x l -> f x = g x) -> forallb f l = forallb g l.
Proof.
  induction l as [|a l IH]; intros H; cbn [forallb]; [reflexivity|].
  rewrite (H a (or_introl eq_refl)), IH; [reflexivity|].
  intros x Hx. apply H. right. exact Hx.
Qed.

Lemma forallb_map_eq {A B} (f : A -> bool) (g : B -> bool) (h : A -> B) l :
  (forall x, f x = g (h x)) -> forallb f l = forallb g (map h l).
Proof. intros H. induction l as [|a l IH]; cbn [forallb map]; [reflexivity|]. rewrite H, IH. reflexivity. Qed.

Lemma existsb_map_eq {A B} (f : A -> bool) (g : B -> bool) (h : A -> B) l :
  (forall x, f x = g (h x)) -> existsb f l = existsb g (map h l).
Proof. intros H. induction l as [|a l IH]; cbn [existsb map]; [reflexivity|]. rewrite H, IH. reflexivity. Qed.
