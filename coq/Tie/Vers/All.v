(* Tie/Vers/All.v — the ties of the generated functions of pkg/spec/vers (Gen/Code/SpecVers.v,
   Gen/Parse/SpecVers.v) to the model Vers/Model.v:
   Valid        valid, scheme
   Constraints  parseConstraint, parseConstraints (and parseConstraints after the model's normalize)
   Code         shouldMergeConstraints, ensureVPrefix
   Printers     the eleven intervalTo<Scheme>Ranges, against native_text and the generated style table
   Pypi         containsPrereleaseMarkers, constraintsIncludePrerelease
   Texts        the printers on the intervals of group (normalize ..): the texts of contains_generic *)
From Verif.Tie.Vers Require Common Valid Constraints Code Printers Pypi Texts.
From Verif.Tie.Vers Require CoreAlternating CoreGroup.
From Verif.Tie.Vers Require CoreGroupTie CoreToRanges CoreDispatch.
From Verif.Tie.Vers Require CoreNormalize CoreGroupLen CoreContains.
From Verif.Tie.Vers Require CoreContainsClosed CoreContainsOn CoreContainsOn2.
