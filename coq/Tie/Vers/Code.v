(* Tie/Vers/Code.v — the two loop-free functions of pkg/spec/vers (Gen/Code/SpecVers.v):
   [shouldMergeConstraints] is the [merge] test of the model's [heuristic], and [ensureVPrefix]
   is the model's [ensure_v] (Vers/Model.v).  Both are total functions (no fuel, no panic).

   Representation: Go compares `len(..)` as int; the model compares the lengths as nat. *)
From Coq Require Import ZArith List Ascii Bool Lia.
From Verif.Base Require Import Bytes GoNum GoOps BytesFacts.
From Verif.Vers Require Model.
From Verif.Gen.Code Require SpecVers.
Import ListNotations.
Local Open Scope Z_scope.

Module G := Verif.Gen.Code.SpecVers.
Module M := Verif.Vers.Model.

(* the condition under which [heuristic] merges to one interval *)
Definition merge_m (nl nu : nat) : bool :=
  ((nl =? 1) && (nu =? 1))%nat || ((1 <? nl) && (nu =? 1))%nat || ((nl =? 1) && (1 <? nu))%nat.

Theorem shouldMergeConstraints_tie (ls us : list G.constraint) :
  G.shouldMergeConstraints ls us = merge_m (length ls) (length us).
Proof.
  unfold G.shouldMergeConstraints, merge_m.
  set (nl := length ls). set (nu := length us).
  destruct (Z.eqb_spec (Z.of_nat nl) 1), (Z.eqb_spec (Z.of_nat nu) 1),
    (Z.ltb_spec 1 (Z.of_nat nl)), (Z.ltb_spec 1 (Z.of_nat nu)),
    (Z.eqb_spec (Z.of_nat nl) (Z.of_nat nu)),
    (Nat.eqb_spec nl 1), (Nat.eqb_spec nu 1), (Nat.ltb_spec 1 nl), (Nat.ltb_spec 1 nu);
    cbn [andb orb]; try reflexivity; lia.
Qed.
Print Assumptions shouldMergeConstraints_tie.

(* the model's heuristic, with the generated test in the place of its [merge] *)
Theorem heuristic_uses_shouldMerge (conc : M.vcons -> G.constraint) (lowers uppers : list M.vcons) :
  M.heuristic lowers uppers =
  if G.shouldMergeConstraints (map conc lowers) (map conc uppers) then
    match M.last_opt lowers, hd_error uppers with
    | Some l, Some u => [M.iv_both l u]
    | Some l, None => [M.iv_lower l]
    | None, Some u => [M.iv_upper u]
    | None, None => []
    end
  else if ((length lowers =? length uppers) && (1 <? length lowers))%nat then M.zip_both lowers uppers
  else map M.iv_lower lowers ++ map M.iv_upper uppers.
Proof.
  rewrite shouldMergeConstraints_tie, !map_length. reflexivity.
Qed.
Print Assumptions heuristic_uses_shouldMerge.

Theorem ensureVPrefix_tie (v : bytes) : G.ensureVPrefix v = M.ensure_v v.
Proof.
  unfold G.ensureVPrefix, M.ensure_v. destruct v as [|c v]; [reflexivity|].
  cbn [beq]. destruct (has_prefix $"v" (c :: v)); reflexivity.
Qed.
Print Assumptions ensureVPrefix_tie.
