(* Tie/Vers/Common.v — shared by the ties of the generated VERS functions (Gen/Parse/SpecVers.v,
   Gen/Code/SpecVers.v) to the model Vers/Model.v.

   [fold_loop]: a generated `for _, x := range xs { .. }` loop — a [while] whose state carries the
   cursor ([key]) — computes the fold [run g xs]: [g x st] is what one iteration does with the
   element under the cursor ([inl r]: `return r`, [inr st']: go on).  Fuel above [length xs] is
   enough.  The theorems of this directory use it for every loop of the package. *)
From Coq Require Import ZArith List Ascii Bool Lia.
From Verif.Base Require Import Bytes GoNum Imp ImpFacts ImpErr BytesFacts.
From Verif.Tie.Loops Require Import Common.
Import ListNotations.
Local Open Scope Z_scope.

Section FoldLoop.
  Context {A St R : Type}.
  Variable xs : list A.
  Variable body : St -> res (step St R).
  Variable key : St -> Z.
  Variable g : A -> St -> R + St.

  Hypothesis body_in : forall st x,
    0 <= key st < Z.of_nat (length xs) -> nth_error xs (Z.to_nat (key st)) = Some x ->
    body st = match g x st with inl r => Done (Ret r) | inr st' => Done (Next st') end.
  Hypothesis body_out : forall st, key st = Z.of_nat (length xs) -> body st = Done (Break st).
  Hypothesis g_key : forall x st st',
    0 <= key st < Z.of_nat (length xs) -> g x st = inr st' -> key st' = key st + 1.

  Fixpoint run (l : list A) (st : St) : R + St :=
    match l with
    | [] => inr st
    | x :: t => match g x st with inl r => inl r | inr st' => run t st' end
    end.

  Lemma fold_loop_aux : forall suf pre fuel st,
    xs = pre ++ suf -> key st = Z.of_nat (length pre) -> (length suf < fuel)%nat ->
    while fuel body st =
    Done (match run suf st with inl r => Returned r | inr st' => Fell st' end).
  Proof.
    induction suf as [|x t IH]; intros pre fuel st E K Hf;
      (destruct fuel as [|fuel]; [cbn in Hf; lia|]); cbn [while run].
    - rewrite app_nil_r in E. subst pre. rewrite (body_out st K). reflexivity.
    - assert (L : length xs = (length pre + S (length t))%nat) by (rewrite E, app_length; reflexivity).
      assert (B : 0 <= key st < Z.of_nat (length xs)) by lia.
      assert (N : nth_error xs (Z.to_nat (key st)) = Some x).
      { rewrite K, Nat2Z.id, E. rewrite nth_error_app2 by lia. rewrite Nat.sub_diag. reflexivity. }
      rewrite (body_in st x B N).
      destruct (g x st) as [r|st'] eqn:G; [reflexivity|].
      apply (IH (pre ++ [x])).
      + rewrite <- app_assoc. exact E.
      + rewrite (g_key x st st' B G), K, app_length. cbn [length]. lia.
      + cbn [length] in Hf. lia.
  Qed.

  Lemma fold_loop fuel st :
    key st = 0 -> (length xs < fuel)%nat ->
    while fuel body st =
    Done (match run xs st with inl r => Returned r | inr st' => Fell st' end).
  Proof. intros K Hf. exact (fold_loop_aux xs [] fuel st eq_refl K Hf). Qed.
End FoldLoop.

(* the element under a cursor inside the bounds *)
Lemma idx_nth_error {A} (s : list A) i a :
  0 <= i < Z.of_nat (length s) -> nth_error s (Z.to_nat i) = Some a -> idx s i = Done a.
Proof. intros H N. apply idx_Done. split; [exact H | exact N]. Qed.

(* ---------- lengths ---------- *)

Lemma cut1_length c (s a b : bytes) :
  cut [c] s = Some (a, b) -> length s = (length a + 1 + length b)%nat.
Proof.
  revert a b. induction s as [|x s IH]; intros a b H.
  - cbn in H. discriminate.
  - cbn [cut has_prefix] in H. destruct (ceqb c x && true).
    + injection H as <- <-. cbn [length skipn]. lia.
    + destruct (cut [c] s) as [[a' b']|]; [|discriminate].
      injection H as <- <-. specialize (IH a' b' eq_refl). cbn [length]. lia.
Qed.

Lemma has_prefix_len (p s : bytes) : has_prefix p s = true -> (length p <= length s)%nat.
Proof.
  revert s. induction p as [|x p IH]; intros [|y s] H; cbn [has_prefix length] in *; try lia; try discriminate.
  apply andb_prop in H as [_ H]. apply IH in H. lia.
Qed.

Lemma split_c_len_le c (s : bytes) : (length (split_c c s) <= S (length s))%nat.
Proof.
  induction s as [|x s IH]; cbn [split_c length]; [lia|].
  destruct (ceqb c x); cbn [length]; [lia|].
  destruct (split_c c s) as [|f fs]; cbn [length] in *; lia.
Qed.
