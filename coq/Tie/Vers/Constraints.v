(* Tie/Vers/Constraints.v — the generated [parseConstraint] and [parseConstraints] of pkg/spec/vers
   (Gen/Parse/SpecVers.v) never panic, terminate with fuel above the number of texts, and compute
   the model's constraint splitter [strip_vop vers_ops] (Vers/Model.v).

   Representation: a Go `constraint{operator, version}` is the model's pair (vop, version text);
   [conc_cons] prints the operator back ([op_text]).  A Go error is [None].  The model has no
   separate parseConstraint: inside [normalize_collect] the text is already free of white space,
   where the TrimSpace of the Go code is the identity ([parse_constraint_nospace]); the general
   statement keeps the TrimSpace ([parse_constraint_m]).  [parseConstraints_normalize]: on the
   texts of a list that the model's [normalize] produced, parseConstraints returns that list
   (and an error exactly when it is empty) — the step of the model's [contains_generic]. *)
From Coq Require Import ZArith NArith List Ascii Bool Lia Permutation.
From Verif.Base Require Import Bytes GoNum GoOps Imp ImpFacts ImpErr BytesFacts.
From Verif.Vers Require Model FactsStr FactsSort.
From Verif.Gen.Code Require SpecVers.
From Verif.Gen.Parse Require SpecVers.
From Verif.Tie.Loops Require Import Common.
From Verif.Tie.Parse Require Import Common.
From Verif.Tie.Vers Require Import Common.
Import ListNotations.
Local Open Scope Z_scope.

Module G := Verif.Gen.Code.SpecVers.
Module P := Verif.Gen.Parse.SpecVers.
Module M := Verif.Vers.Model.

(* the Go value of a model constraint *)
Definition conc_cons (x : M.vcons) : G.constraint := G.mk_constraint (M.op_text (fst x)) (snd x).

(* parseConstraint, with the model's splitter *)
Definition parse_constraint_m (c : bytes) : option M.vcons :=
  match M.strip_vop M.vers_ops c with
  | Some (o, v) => match trim_space v with [] => None | t => Some (o, t) end
  | None => None
  end.

Lemma ceqb_sym a b : ceqb a b = ceqb b a.
Proof. unfold ceqb. apply N.eqb_sym. Qed.

Ltac cs_var :=
  match goal with
  | |- context [ceqb ?x ?a] =>
      is_var a; let E := fresh "E" in destruct (ceqb x a) eqn:E; [apply ceqb_eq in E; subst a|]
  end.
Ltac cs_closed :=
  match goal with
  | |- context [ceqb ?x ?y] =>
      tryif is_var y then fail else
      (let v := eval vm_compute in (ceqb x y) in change (ceqb x y) with v)
  end.
Ltac cs := repeat (first [cs_closed | cs_var]).

Theorem parseConstraint_tie (c : bytes) :
  P.parseConstraint c = Done (option_map conc_cons (parse_constraint_m c)).
Proof.
  unfold P.parseConstraint, parse_constraint_m, M.vers_ops.
  Local Opaque trim_space.
  destruct c as [|a [|b r]].
  - reflexivity.
  - cbn [length Z.of_nat Z.leb Z.compare Pos.of_succ_nat Pos.succ Pos.compare Pos.compare_cont].
    rewrite slice_to_in_range by (unfold len; cbn [length]; lia).
    rewrite slice_from_Done by (cbn [length]; lia).
    change (Z.to_nat 1) with 1%nat. cbn [firstn skipn bind].
    cbn [M.strip_vop has_prefix list_ascii_of_string beq length skipn].
    rewrite !(ceqb_sym a).
    cs; cbn [andb orb]; reflexivity.
  - assert (L2 : Z.leb 2 (Z.of_nat (length (a :: b :: r))) = true)
      by (apply Z.leb_le; cbn [length]; lia).
    assert (L1 : Z.leb 1 (Z.of_nat (length (a :: b :: r))) = true)
      by (apply Z.leb_le; cbn [length]; lia).
    rewrite L2, L1.
    rewrite !slice_to_in_range by (unfold len; cbn [length]; lia).
    rewrite !slice_from_Done by (cbn [length]; lia).
    change (Z.to_nat 1) with 1%nat. change (Z.to_nat 2) with 2%nat. cbn [firstn skipn bind].
    cbn [M.strip_vop has_prefix list_ascii_of_string beq length skipn].
    rewrite !(ceqb_sym a), !(ceqb_sym b).
    cs; cbn [andb orb];
      try (match goal with |- context [trim_space ?x] => destruct (trim_space x) end); reflexivity.
Qed.
Print Assumptions parseConstraint_tie.

Corollary parseConstraint_finished (c : bytes) : finished (P.parseConstraint c).
Proof. rewrite parseConstraint_tie. apply finished_Done. Qed.
Print Assumptions parseConstraint_finished.

(* ---------- parseConstraints ---------- *)

(* trim, skip the empty texts, split each one, fail on the first that does not split *)
Fixpoint parse_constraints_m (cs : list bytes) : option (list M.vcons) :=
  match cs with
  | [] => Some []
  | c :: r =>
      match trim_space c with
      | [] => parse_constraints_m r
      | t => match parse_constraint_m t with
             | None => None
             | Some x => option_map (cons x) (parse_constraints_m r)
             end
      end
  end.

(* len(result) == 0 is an error *)
Definition nonempty_result (o : option (list M.vcons)) : option (list G.constraint) :=
  match o with
  | Some (x :: l) => Some (map conc_cons (x :: l))
  | _ => None
  end.

Definition g_pcs (c : bytes) (st : Z * list G.constraint)
  : option (list G.constraint) + (Z * list G.constraint) :=
  let '(k, result) := st in
  if beq (trim_space c) [] then inr (wrap64 (k + 1), result)
  else match parse_constraint_m (trim_space c) with
       | None => inl None
       | Some x => inr (wrap64 (k + 1), result ++ [conc_cons x])
       end.

Lemma run_pcs l : forall k acc,
  match run g_pcs l (k, acc) with
  | inl r => r = None /\ parse_constraints_m l = None
  | inr (_, res) => exists l', parse_constraints_m l = Some l' /\ res = acc ++ map conc_cons l'
  end.
Proof.
  induction l as [|c l IH]; intros k acc; cbn [run parse_constraints_m].
  - exists []. split; [reflexivity | rewrite app_nil_r; reflexivity].
  - unfold g_pcs at 1. destruct (trim_space c) as [|t0 t] eqn:T; cbn [beq].
    + apply IH.
    + destruct (parse_constraint_m (t0 :: t)) as [x|]; [|split; reflexivity].
      specialize (IH (wrap64 (k + 1)) (acc ++ [conc_cons x])).
      destruct (run g_pcs l (wrap64 (k + 1), acc ++ [conc_cons x])) as [r|[k' res]].
      * destruct IH as [-> ->]. split; reflexivity.
      * destruct IH as (l' & -> & ->). exists (x :: l'). split; [reflexivity|].
        rewrite <- app_assoc. reflexivity.
Qed.

Theorem parseConstraints_tie (cs : list bytes) (fuel : nat) :
  fits cs -> (length cs < fuel)%nat ->
  P.parseConstraints fuel cs = Done (nonempty_result (parse_constraints_m cs)).
Proof.
  intros Hfit Hf. unfold P.parseConstraints. cbv zeta.
  match goal with |- context [while fuel ?b ?s0] =>
    rewrite (fold_loop cs b (fun st => fst st) g_pcs) end.
  2:{ intros [k res] c B N. cbn [fst] in B, N.
      destruct (Z.ltb_spec k (Z.of_nat (length cs))) as [_|X]; [|lia].
      rewrite (idx_nth_error _ _ _ B N). cbn [bind]. unfold g_pcs.
      destruct (beq (trim_space c) []); [reflexivity|].
      rewrite parseConstraint_tie. cbn [bind].
      destruct (parse_constraint_m (trim_space c)); reflexivity. }
  2:{ intros [k res] K. cbn [fst] in K. rewrite K, Z.ltb_irrefl. reflexivity. }
  2:{ intros c [k res] [k' res'] B G. cbn [fst] in *. unfold g_pcs in G.
      assert (W : wrap64 (k + 1) = k + 1) by (apply (wrap64_succ k (Z.of_nat (length cs))); [lia | exact Hfit]).
      destruct (beq (trim_space c) []); [injection G as <- _; exact W|].
      destruct (parse_constraint_m (trim_space c)); [|discriminate].
      injection G as <- _. exact W. }
  2:{ reflexivity. }
  2:{ exact Hf. }
  pose proof (run_pcs cs 0 []) as R.
  destruct (run g_pcs cs (0, [])) as [r|[k res]]; cbn [bind].
  - destruct R as [-> ->]. reflexivity.
  - destruct R as (l' & -> & ->). cbn [app]. destruct l' as [|x l']; reflexivity.
Qed.
Print Assumptions parseConstraints_tie.

Corollary parseConstraints_finished (cs : list bytes) (fuel : nat) :
  fits cs -> (length cs < fuel)%nat -> finished (P.parseConstraints fuel cs).
Proof. intros Hfit Hf. rewrite (parseConstraints_tie cs fuel Hfit Hf). apply finished_Done. Qed.
Print Assumptions parseConstraints_finished.

(* ---------- the step of the model: parseConstraints after normalize ---------- *)

(* the text Go's normalizeConstraints hands on for a model constraint: operator ++ version *)
Definition cons_text (x : M.vcons) : bytes := M.op_text (fst x) ++ snd x.

Definition nospace (s : bytes) : bool := forallb (fun c => negb (is_space c)) s.

(* what the model's normalize guarantees about each constraint it returns *)
Definition wf_cons (x : M.vcons) : Prop :=
  snd x <> [] /\ nospace (snd x) = true /\ M.strip_vop M.vers_ops (cons_text x) = Some x.

Lemma space_nospace_nil p : forallb is_space p = true -> nospace p = true -> p = [].
Proof.
  destruct p as [|c p]; [reflexivity|]. cbn [forallb nospace]. intros A B.
  apply andb_prop in A as [A _]. apply andb_prop in B as [B _]. rewrite A in B. discriminate.
Qed.

Lemma trim_space_nospace s : nospace s = true -> trim_space s = s.
Proof.
  intros H. destruct (FactsStr.trim_space_decomp s) as (p & q & Hp & Hq & E).
  unfold nospace in H. rewrite E in H. rewrite !forallb_app in H.
  apply andb_prop in H as [H1 H2]. apply andb_prop in H2 as [_ H2].
  rewrite (space_nospace_nil p Hp H1), (space_nospace_nil q Hq H2) in E.
  cbn [app] in E. rewrite app_nil_r in E. symmetry. exact E.
Qed.

Lemma nospace_strip_spaces s : nospace (strip_spaces s) = true.
Proof.
  unfold nospace, strip_spaces. induction s as [|c s IH]; cbn [filter forallb]; [reflexivity|].
  destruct (negb (is_space c)) eqn:E; [cbn [forallb]; rewrite E; exact IH | exact IH].
Qed.

Lemma strip_vop_text c o v : M.strip_vop M.vers_ops c = Some (o, v) -> c = M.op_text o ++ v.
Proof.
  unfold M.vers_ops. cbn [M.strip_vop].
  repeat match goal with
  | |- (if has_prefix ?t c then _ else _) = _ -> _ =>
      let E := fresh "E" in destruct (has_prefix t c) eqn:E;
      [intros X; injection X as <- <-; exact (FactsStr.has_prefix_true _ _ E)|]
  end.
  discriminate.
Qed.

Lemma pcm_wf x : wf_cons x ->
  trim_space (cons_text x) = cons_text x /\ cons_text x <> [] /\ parse_constraint_m (cons_text x) = Some x.
Proof.
  intros (Hne & Hns & Hs). destruct x as [o v]. cbn [fst snd] in *.
  assert (Hns' : nospace (cons_text (o, v)) = true).
  { unfold cons_text, nospace. cbn [fst snd]. rewrite forallb_app. fold (nospace v). rewrite Hns.
    destruct o; reflexivity. }
  split; [apply trim_space_nospace; exact Hns'|]. split.
  - unfold cons_text. cbn [fst snd]. destruct o; discriminate.
  - unfold parse_constraint_m. rewrite Hs. rewrite (trim_space_nospace v Hns).
    destruct v; [congruence | reflexivity].
Qed.

Lemma parse_constraints_m_wf l : Forall wf_cons l -> parse_constraints_m (map cons_text l) = Some l.
Proof.
  induction 1 as [|x l Hx Hl IH]; cbn [map parse_constraints_m]; [reflexivity|].
  destruct (pcm_wf x Hx) as (T & N & Pc). rewrite T.
  destruct (cons_text x) as [|t0 t] eqn:C; [congruence|].
  rewrite Pc, IH. reflexivity.
Qed.

Lemma normalize_collect_wf S : forall cs seen l,
  M.normalize_collect S seen cs = Some l -> Forall wf_cons l.
Proof.
  induction cs as [|c0 r IH]; intros seen l H; cbn [M.normalize_collect] in H.
  - injection H as <-. constructor.
  - cbv zeta in H. pose proof (nospace_strip_spaces c0) as NS.
    destruct (strip_spaces c0) as [|a c] eqn:C; [exact (IH _ _ H)|].
    destruct (beq (a :: c) $"*"); [discriminate|].
    destruct (M.strip_vop M.vers_ops (a :: c)) as [[o v]|] eqn:SV; [|discriminate].
    destruct v as [|v0 v]; [discriminate|].
    destruct (mem (a :: c) seen); [exact (IH _ _ H)|].
    destruct (M.s_vok S (v0 :: v)); [|discriminate].
    match type of H with match ?t with _ => _ end = _ => destruct t as [l'|] eqn:R end; [|discriminate].
    injection H as <-. constructor; [|exact (IH _ _ R)].
    pose proof (strip_vop_text _ _ _ SV) as T.
    split; [discriminate|]. cbn [fst snd]. split.
    + unfold nospace in *. rewrite T, forallb_app in NS. apply andb_prop in NS as [_ NS]. exact NS.
    + unfold cons_text. cbn [fst snd]. rewrite <- T. exact SV.
Qed.

Lemma normalize_wf S cs l : M.normalize S cs = Some l -> Forall wf_cons l.
Proof.
  unfold M.normalize. destruct (M.normalize_collect S [] cs) as [l0|] eqn:N; [|discriminate].
  intros H. injection H as <-.
  apply (FactsSort.Forall_perm _ wf_cons l0).
  - symmetry. apply FactsSort.isort_perm.
  - exact (normalize_collect_wf S cs [] l0 N).
Qed.

(* contains[V,VR]: `constraints, err = normalizeConstraints(e, constraints)` then
   `parseConstraints(constraints)`: on the texts of the model's normalized list, the generated
   parseConstraints returns exactly that list, and fails exactly when it is empty (the model's
   "no valid constraints found" arm of contains_generic). *)
Theorem parseConstraints_normalize S (cs : list bytes) (l : list M.vcons) (fuel : nat) :
  M.normalize S cs = Some l -> fits l -> (length l < fuel)%nat ->
  P.parseConstraints fuel (map cons_text l) =
  Done (match l with [] => None | _ => Some (map conc_cons l) end).
Proof.
  intros N Hfit Hf.
  rewrite parseConstraints_tie by (unfold fits in *; rewrite map_length; assumption).
  rewrite (parse_constraints_m_wf l (normalize_wf S cs l N)). destruct l; reflexivity.
Qed.
Print Assumptions parseConstraints_normalize.
