(* Tie/Vers/CoreAlternating.v — pilot for the fourth translation pass (tools/gen/core.go,
   Gen/Parse/SpecVersCore.v): vers.alternatingIntervals, the function that walks the version-sorted
   constraints with the nil-able pointer `pendingLower *constraint`.

   In the translation the pointer is an [option constraint] and every `pendingLower.version` is the
   checked operation [deref] ([Panic] on [None]).  The theorem says that the function never panics --
   no index out of range and NO NIL DEREFERENCE -- and terminates with fuel above the number of
   constraints (linear).  Recipe for the other functions of Gen/Parse/*Core.v: see the end. *)
From Coq Require Import ZArith List Bool Lia.
From Verif.Base Require Import Bytes GoNum Imp ImpFacts ImpErr ImpCore.
From Verif.Gen.Code Require Import SpecVers.
From Verif.Gen.Parse Require SpecVersCore.
From Verif.Tie.Loops Require Import Common.
From Verif.Tie.Parse Require Import Common.
Import ListNotations.
Local Open Scope Z_scope.

Module G := Verif.Gen.Parse.SpecVersCore.

(* one step of every proof below: the goal is a chain of [if]s and [bind]s over known values *)
Ltac core_leaf n :=
  cbn [bind deref is_some is_none step_ok];
  first
    [ exact I
    | apply finished_Done
    | split; [rewrite (wrap64_succ_lt _ n) by lia; lia
             | rewrite (wrap64_succ_lt _ n) by lia; lia ] ].

Ltac core_split :=
  match goal with
  | |- context [if is_some ?p then _ else _] => destruct p; cbn [is_some deref bind]; cbv iota
  | |- context [if ?c then _ else _] =>
      lazymatch c with true => fail | false => fail | _ => idtac end; destruct c; cbv iota
  end.

Theorem alternatingIntervals_no_panic (cs : list constraint) (fuel : nat) :
  fits cs -> (length cs < fuel)%nat -> finished (G.alternatingIntervals fuel cs).
Proof.
  intros F L. unfold fits in F. unfold G.alternatingIntervals.
  match goal with
  | |- finished (bind (while ?f ?b ?s) ?k) =>
      apply (finished_while_bind f b s k
               (fun st => let '(i, _, _, _, _) := st in 0 <= i <= Z.of_nat (length cs))
               (fun st => let '(i, _, _, _, _) := st in Z.to_nat (Z.of_nat (length cs) - i)))
  end.
  - intros [[[[i sb] pwl] pl] ivs] Hi. unfold step_ok.
    destruct (Z.ltb_spec i (Z.of_nat (length cs))) as [Lt|Ge]; [|exact I].
    destruct (idx_lt_Done cs i) as (x & E & _); [lia|]. rewrite E. cbn [bind].
    repeat core_split; core_leaf (Z.of_nat (length cs)).
  - lia.
  - lia.
  - intros [[[[[i sb] pwl] pl] ivs]|r]; [|apply finished_Done].
    destruct pl; cbn [bind deref is_some]; apply finished_Done.
Qed.

(* the same as an existence statement, and the total function *)
Corollary alternatingIntervals_total (cs : list constraint) :
  fits cs -> exists r, G.alternatingIntervals (S (length cs)) cs = Done r.
Proof. intros F. apply alternatingIntervals_no_panic; [exact F | lia]. Qed.

Print Assumptions alternatingIntervals_no_panic.

(* Recipe (no panic + linear fuel for a function of Gen/Parse/<Pkg>Core.v):
   1. state [fits xs -> (length xs < fuel)%nat -> finished (G.f fuel xs)] (for several loops: the
      maximum of the lengths they range over; one fuel serves every loop);
   2. [unfold G.f]; for every [lp <- while ..] apply [finished_while_bind] with the invariant
      "0 <= cursor <= length" on the loop state (a tuple: destructure it with [let '(..) := st]) and
      the measure "length - cursor"; the element read is [idx_lt_Done];
   3. [repeat core_split; core_leaf n] closes the iteration: a nil-able pointer is destructed where
      it is tested ([if is_some p]), after which [deref (Some _)] computes; a [deref] that is not
      guarded by a test of the same variable leaves the goal [False] -- that is a possible nil
      dereference, and the invariant must say why the pointer is [Some] there;
   4. the continuation after the loop: destruct the exit and the pointers, [finished_Done]. *)
