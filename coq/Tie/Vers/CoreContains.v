(* Tie/Vers/CoreContains.v -- the generic vers.toRanges and vers.contains (Gen/Parse/SpecVersCore.v,
   Section Core) against Vers/Model.contains_generic.

   [toRanges_eq]: after parseConstraints and groupConstraintsIntoIntervals the loops of toRanges
   compute [ranges_go ivs] (the switch on e.Name() is [lookup E_Name printers]; every printer
   returns at most one text: [printers_len]).  [contains_eq]: the two loops of contains compute
   [final_go] (exclusions first, then the union of the ranges).
   [toRanges_no_panic], [contains_no_panic]: no index out of range, no nil dereference and
   termination with fuel above [length cs + 6], for EVERY bundle (only: [sort_by] preserves the
   length); uses CoreGroupLen.v (the intervals are no more than the constraints).
   [contains_tie]: under the agreement of the bundle with the layer record S ([Hstrip], [Hvok],
   [Hcmp], [Hrange]), [sort_spec], a total preorder on accepted texts, pairwise non-equivalent
   constraint versions, and [group_tie_hyp] -- THE HYPOTHESIS that groupConstraintsIntoIntervals
   returns the Go values of the model's [group] on the normalized constraints of this input (its
   tie is the subject of CoreGroup.v) --
     contains fuel cs version = Done (res_of_vres (contains_generic S (lookup E_Name style_table) cs version)).
   Constraints that are the star are covered (both sides fail). *)
From Coq Require Import ZArith List Ascii Bool Lia Permutation Sorted.
From Verif.Base Require Import Bytes GoNum GoOps Imp ImpFacts ImpErr ImpCore BytesFacts Ord.
From Verif.Vers Require Model FactsStr FactsSort FactsC16 FactsC17.
From Verif.Gen Require VersDispatch.
From Verif.Gen.Code Require SpecVers.
From Verif.Gen.Parse Require SpecVers SpecVersCore.
From Verif.Tie Require Import Tactics.
From Verif.Tie.Loops Require Import Common.
From Verif.Tie.Parse Require Import Common.
From Verif.Tie.Vers Require Import Common Constraints Printers Texts CoreAlternating CoreGroup CoreGroupLen CoreNormalize.
Import ListNotations.
Local Open Scope Z_scope.

Module C := Verif.Gen.Parse.SpecVersCore.
Module G := Verif.Gen.Code.SpecVers.
Module P := Verif.Gen.Parse.SpecVers.
Module M := Verif.Vers.Model.
Module D := Verif.Gen.VersDispatch.

(* ---------- the printers return at most one text ---------- *)

Lemma printers_len eco pr i : In (eco, pr) printers -> (length (pr i) <= 1)%nat.
Proof.
  intros H. cbn [printers In] in H. destruct i as [lo li up ui ex exc].
  repeat (destruct H as [H|H]; [injection H as <- <-|]); try contradiction;
    match goal with |- (length (?f _) <= 1)%nat => unfold f end;
    cbn [G.interval_lower G.interval_lowerInclusive G.interval_upper G.interval_upperInclusive
         G.interval_exact G.interval_exclude];
    repeat match goal with |- context [if ?b then _ else _] =>
      lazymatch b with context [if _ then _ else _] => fail | _ => destruct b end end;
    cbn [length]; lia.
Qed.

Lemma printers_len' pr i : In pr (map snd printers) -> (length (pr i) <= 1)%nat.
Proof.
  intros H. apply in_map_iff in H. destruct H as ([eco pr'] & E & H). cbn [snd] in E. subst pr'.
  exact (printers_len eco pr i H).
Qed.

Ltac in_printers := cbn [map snd printers In]; repeat (first [left; reflexivity | right]).

Lemma lookup_In {A} k (t : list (bytes * A)) v : lookup k t = Some v -> In (k, v) t.
Proof.
  induction t as [|[k' v'] t IH]; cbn [lookup]; [discriminate|].
  destruct (beq k k') eqn:B.
  - intros H. injection H as <-. apply beq_eq in B. subst. left. reflexivity.
  - intros H. right. apply IH. exact H.
Qed.

(* ---------- toRanges ---------- *)

Section ToRanges.
  Variable VR : Type.
  Variable E_Name : bytes.
  Variable E_NewVersionRange : bytes -> option VR.

  Notation toRanges := (C.toRanges VR E_Name E_NewVersionRange).

  (* `for _, rangeStr := range rangeStrs` *)
  Definition g_inner (rangeStr : bytes) (st : Z * list VR) : option (list VR) + (Z * list VR) :=
    let '(k_, ranges) := st in
    if beq rangeStr [] then inr (wrap64 (k_ + 1), ranges)
    else match E_NewVersionRange rangeStr with
         | None => inl None
         | Some r => inr (wrap64 (k_ + 1), ranges ++ [r])
         end.

  Local Open Scope imp_scope.
  Definition inner_body2 (strs : list bytes) : Z * list VR -> res (step (Z * list VR) (option (list VR))) :=
    fun '(k_, ranges) =>
      if Z.ltb k_ (Z.of_nat (length strs)) then
        rangeStr <- idx strs k_ ;;
        if beq rangeStr [] then
          let k_ := wrap64 (k_ + 1) in
          Done (Next (k_, ranges))
        else
          match E_NewVersionRange rangeStr with
          | None =>
            Done (Ret None)
          | Some r_ =>
            let ranges := ranges ++ [r_] in
            let k_ := wrap64 (k_ + 1) in
            Done (Next (k_, ranges))
          end
      else
        Done (Break (k_, ranges)).
  Local Close Scope imp_scope.

  Lemma inner2_eq (strs : list bytes) (ranges : list VR) (fuel : nat) :
    fits strs -> (length strs < fuel)%nat ->
    while fuel (inner_body2 strs) (0, ranges) =
    Done (match run g_inner strs (0, ranges) with inl r => Returned r | inr st' => Fell st' end).
  Proof.
    intros F L.
    apply (fold_loop strs (inner_body2 strs) (fun st : Z * list VR => fst st) g_inner).
    - intros [k acc] x B N. cbn [fst] in B, N. unfold inner_body2.
      destruct (Z.ltb_spec k (Z.of_nat (length strs))) as [_|X]; [|lia].
      rewrite (idx_nth_error _ _ _ B N). cbn [bind]. unfold g_inner.
      destruct (beq x []); [reflexivity|]. destruct (E_NewVersionRange x); reflexivity.
    - intros [k acc] K. cbn [fst] in K. unfold inner_body2. rewrite K, Z.ltb_irrefl. reflexivity.
    - intros x [k acc] [k' acc'] B G0. cbn [fst] in *. unfold g_inner in G0.
      assert (W : wrap64 (k + 1) = k + 1) by (apply (wrap64_succ k (Z.of_nat (length strs))); [lia | exact F]).
      destruct (beq x []); [injection G0 as <- _; exact W|].
      destruct (E_NewVersionRange x); [|discriminate]. injection G0 as <- _. exact W.
    - reflexivity.
    - exact L.
  Qed.

  (* `for _, interval := range intervals`: the switch on e.Name() picks the printer *)
  Definition g_outer (iv : G.interval) (st : Z * list VR) : option (list VR) + (Z * list VR) :=
    let '(k, ranges) := st in
    match lookup E_Name printers with
    | None => inl None
    | Some pr =>
        match run g_inner (pr iv) (0, ranges) with
        | inl r => inl r
        | inr (_, ranges') => inr (wrap64 (k + 1), ranges')
        end
    end.

  Definition ranges_go (ivs : list G.interval) : option (list VR) :=
    match run g_outer ivs (0, []) with
    | inl r => r
    | inr (_, ranges) => Some ranges
    end.

  Theorem toRanges_eq (cs : list bytes) (vcs : list G.constraint) (ivs : list G.interval) (fuel : nat) :
    P.parseConstraints fuel cs = Done (Some vcs) ->
    C.groupConstraintsIntoIntervals fuel vcs = Done (Some ivs) ->
    fits ivs -> (length ivs < fuel)%nat -> (1 < fuel)%nat ->
    toRanges fuel cs = Done (ranges_go ivs).
  Proof.
    intros EP EG F L L1. unfold C.toRanges. rewrite EP. cbn [bind]. rewrite EG. cbn [bind]. cbv zeta.
    match goal with |- context [while fuel ?b ?s0] =>
      rewrite (fold_loop ivs b (fun st : Z * list VR => fst st) g_outer) end.
    2:{ intros [k acc] iv B N. cbn [fst] in B, N.
        destruct (Z.ltb_spec k (Z.of_nat (length ivs))) as [_|X]; [|lia].
        rewrite (idx_nth_error _ _ _ B N). cbn [bind]. unfold g_outer, printers. cbn [lookup].
        Ltac branch_tac E_Name fuel acc iv :=
          match goal with |- context [while fuel ?b2 (0, acc)] =>
                match b2 with context [idx (?pr iv)] =>
                  change (while fuel b2 (0, acc)) with (while fuel (inner_body2 (pr iv)) (0, acc));
                  rewrite (inner2_eq (pr iv) acc fuel);
                  [ cbn [bind]; destruct (run g_inner (pr iv) (0, acc)) as [r|[k2 acc2]]; reflexivity
                  | unfold fits; assert (length (pr iv) <= 1)%nat by (apply printers_len'; in_printers); lia
                  | assert (length (pr iv) <= 1)%nat by (apply printers_len'; in_printers); lia ]
                end end.
        repeat match goal with
        | |- (if beq E_Name ?n then _ else _) = _ =>
            destruct (beq E_Name n) eqn:?; [branch_tac E_Name fuel acc iv|]
        end.
        reflexivity. }
    2:{ intros [k acc] K. cbn [fst] in K. rewrite K, Z.ltb_irrefl. reflexivity. }
    2:{ intros iv [k acc] [k' acc'] B G0. cbn [fst] in *. unfold g_outer in G0.
        assert (W : wrap64 (k + 1) = k + 1) by (apply (wrap64_succ k (Z.of_nat (length ivs))); [lia | exact F]).
        destruct (lookup E_Name printers) as [pr|]; [|discriminate].
        destruct (run g_inner (pr iv) (0, acc)) as [r|[k2 acc2]]; [discriminate|].
        injection G0 as <- _. exact W. }
    2:{ reflexivity. }
    2:{ exact L. }
    unfold ranges_go. destruct (run g_outer ivs (0, [])) as [r|[k acc]]; reflexivity.
  Qed.
End ToRanges.
Print Assumptions toRanges_eq.

Lemma toRanges_parse_None VR E_Name E_NewVersionRange (cs : list bytes) (fuel : nat) :
  P.parseConstraints fuel cs = Done None ->
  C.toRanges VR E_Name E_NewVersionRange fuel cs = Done None.
Proof. intros EP. unfold C.toRanges. rewrite EP. reflexivity. Qed.

(* ---------- contains: the two loops after toRanges ---------- *)

Section Contains.
  Variable V VR : Type.
  Variable V_zero : V.
  Variable E_Name : bytes.
  Variable E_NewVersion : bytes -> option V.
  Variable E_NewVersionRange : bytes -> option VR.
  Variable VR_Contains : VR -> V -> bool.
  Variable V_Compare : V -> V -> Z.
  Variable sort_by : forall A : Type, (A -> A -> Z) -> list A -> list A.
  Variable strings_Map : (Z -> Z) -> bytes -> bytes.
  Variable unicode_IsSpace : Z -> bool.

  Notation contains :=
    (C.contains V VR V_zero E_Name E_NewVersion E_NewVersionRange VR_Contains V_Compare sort_by
                strings_Map unicode_IsSpace).
  Notation normalizeConstraints :=
    (C.normalizeConstraints V V_zero E_NewVersion V_Compare sort_by strings_Map unicode_IsSpace).
  Notation toRanges := (C.toRanges VR E_Name E_NewVersionRange).

  (* `for _, constraint := range versConstraints`: the exclusions *)
  Definition g_ex (v : V) (c : G.constraint) (k : Z) : option bool + Z :=
    if beq (G.constraint_operator c) $"!=" then
      match E_NewVersion (G.constraint_version c) with
      | None => inl None
      | Some ex => if Z.eqb (V_Compare v ex) 0 then inl (Some false) else inr (wrap64 (k + 1))
      end
    else inr (wrap64 (k + 1)).

  (* `for _, r := range ranges` *)
  Definition g_rg (v : V) (r : VR) (k : Z) : option bool + Z :=
    if VR_Contains r v then inl (Some true) else inr (wrap64 (k + 1)).

  Definition final_go (v : V) (vcs : list G.constraint) (ranges : list VR) : option bool :=
    match run (g_ex v) vcs 0 with
    | inl r => r
    | inr _ =>
        match ranges with
        | [] => Some true
        | _ => match run (g_rg v) ranges 0 with
               | inl r => r
               | inr _ => Some false
               end
        end
    end.

  Theorem contains_eq (cs l : list bytes) (version : bytes) (v : V) (vcs : list G.constraint)
          (ranges : list VR) (fuel : nat) :
    E_NewVersion version = Some v ->
    normalizeConstraints fuel cs = Done (Some l) ->
    toRanges fuel l = Done (Some ranges) ->
    P.parseConstraints fuel l = Done (Some vcs) ->
    fits vcs -> (length vcs < fuel)%nat -> fits ranges -> (length ranges < fuel)%nat ->
    contains fuel cs version = Done (final_go v vcs ranges).
  Proof.
    intros EV EN ER EP Fv Lv Fr Lr. unfold C.contains. rewrite EV, EN. cbn [bind]. rewrite ER. cbn [bind].
    rewrite EP. cbn [bind]. cbv zeta.
    match goal with |- context [while fuel ?b ?s0] =>
      rewrite (fold_loop vcs b (fun k : Z => k) (g_ex v)) end.
    2:{ intros k c B N.
        destruct (Z.ltb_spec k (Z.of_nat (length vcs))) as [_|X]; [|lia].
        rewrite (idx_nth_error _ _ _ B N). cbn [bind]. unfold g_ex.
        destruct (beq (G.constraint_operator c) $"!="); [|reflexivity].
        destruct (E_NewVersion (G.constraint_version c)); [|reflexivity].
        destruct (Z.eqb _ 0); reflexivity. }
    2:{ intros k K. rewrite K, Z.ltb_irrefl. reflexivity. }
    2:{ intros c k k' B G0. unfold g_ex in G0.
        assert (W : wrap64 (k + 1) = k + 1) by (apply (wrap64_succ k (Z.of_nat (length vcs))); [lia | exact Fv]).
        destruct (beq (G.constraint_operator c) $"!="); [|injection G0 as <-; exact W].
        destruct (E_NewVersion (G.constraint_version c)); [|discriminate].
        destruct (Z.eqb _ 0); [discriminate|]. injection G0 as <-. exact W. }
    2:{ reflexivity. }
    2:{ exact Lv. }
    unfold final_go. destruct (run (g_ex v) vcs 0) as [r|k]; cbn [bind]; [reflexivity|].
    destruct ranges as [|r0 ranges]; [reflexivity|].
    match goal with |- context [Z.eqb ?a 0] => replace (Z.eqb a 0) with false
      by (symmetry; apply Z.eqb_neq; cbn [length]; lia) end.
    set (rs := r0 :: ranges) in *.
    match goal with |- context [while fuel ?b ?s0] =>
      rewrite (fold_loop rs b (fun k : Z => k) (g_rg v)) end.
    2:{ intros j r B N.
        destruct (Z.ltb_spec j (Z.of_nat (length rs))) as [_|X]; [|lia].
        rewrite (idx_nth_error _ _ _ B N). cbn [bind]. unfold g_rg.
        destruct (VR_Contains r v); reflexivity. }
    2:{ intros j K. rewrite K, Z.ltb_irrefl. reflexivity. }
    2:{ intros r j j' B G0. unfold g_rg in G0.
        destruct (VR_Contains r v); [discriminate|]. injection G0 as <-.
        apply (wrap64_succ j (Z.of_nat (length rs))); [lia | exact Fr]. }
    2:{ reflexivity. }
    2:{ exact Lr. }
    destruct (run (g_rg v) rs 0) as [r|j]; reflexivity.
  Qed.

  Lemma contains_version_None cs version fuel :
    E_NewVersion version = None -> contains fuel cs version = Done None.
  Proof. intros E. unfold C.contains. rewrite E. reflexivity. Qed.

  Lemma contains_normalize_None cs version v fuel :
    E_NewVersion version = Some v -> normalizeConstraints fuel cs = Done None ->
    contains fuel cs version = Done None.
  Proof. intros E EN. unfold C.contains. rewrite E, EN. reflexivity. Qed.

  Lemma contains_toRanges_None cs l version v fuel :
    E_NewVersion version = Some v -> normalizeConstraints fuel cs = Done (Some l) ->
    toRanges fuel l = Done None ->
    contains fuel cs version = Done None.
  Proof. intros E EN ER. unfold C.contains. rewrite E, EN. cbn [bind]. rewrite ER. reflexivity. Qed.
End Contains.
Print Assumptions contains_eq.

(* ---------- facts about the model used by the tie ---------- *)

Lemma filter_counts (cs : list M.vcons) :
  let exacts := filter (fun c => match fst c with M.OEq => true | _ => false end) cs in
  let bounds := filter (fun c => M.is_lower_op (fst c) || M.is_upper_op (fst c)) cs in
  let lowers := filter (fun c => M.is_lower_op (fst c)) cs in
  let uppers := filter (fun c => M.is_upper_op (fst c)) cs in
  (length exacts + length bounds <= length cs)%nat /\ length bounds = (length lowers + length uppers)%nat.
Proof.
  cbv zeta. induction cs as [|[o v] cs IH]; [cbn; lia|].
  cbn [filter fst]. destruct o; cbn [M.is_lower_op M.is_upper_op orb length]; lia.
Qed.

Lemma alternating_len : forall bs pending prev l,
  M.alternating pending prev bs = Some l ->
  (length l <= length bs + match pending with Some _ => 1 | None => 0 end)%nat.
Proof.
  induction bs as [|c r IH]; intros pending prev l H; cbn [M.alternating] in H.
  - injection H as <-. destruct pending; cbn [length]; lia.
  - cbv zeta in H.
    assert (LOW : forall l, M.alternating (Some c) (Some (M.is_lower_op (fst c))) r = Some l ->
                            (length l <= length r + 1)%nat).
    { intros l0 H0. apply IH in H0. exact H0. }
    assert (UP : forall l0 (f : M.interval),
              match M.alternating None (Some (M.is_lower_op (fst c))) r with
              | Some l1 => Some (f :: l1) | None => None end = Some l0 -> (length l0 <= length r + 1)%nat).
    { intros l0 f H0.
      destruct (M.alternating None (Some (M.is_lower_op (fst c))) r) as [l1|] eqn:A; [|discriminate].
      injection H0 as <-. apply IH in A. cbn [length]. lia. }
    cbn [length].
    destruct prev as [p|].
    + destruct (Bool.eqb p (M.is_lower_op (fst c))); [discriminate|].
      destruct (M.is_lower_op (fst c)); [apply LOW in H | apply UP in H]; lia.
    + destruct (M.is_lower_op (fst c)); [apply LOW in H | apply UP in H]; lia.
Qed.

Lemma zip_both_len : forall ls us, (length (M.zip_both ls us) <= length ls)%nat.
Proof. induction ls as [|l ls IH]; intros [|u us]; cbn [M.zip_both length]; try lia. specialize (IH us). lia. Qed.

Lemma heuristic_len ls us : (length (M.heuristic ls us) <= length ls + length us)%nat.
Proof.
  unfold M.heuristic. cbv zeta.
  destruct (_ || _ || _)%bool eqn:Mg.
  - assert (1 <= length ls + length us)%nat.
    { destruct (Nat.eqb_spec (length ls) 1), (Nat.eqb_spec (length us) 1), (Nat.ltb_spec 1 (length ls)),
        (Nat.ltb_spec 1 (length us)); cbn [andb orb] in Mg; try discriminate; lia. }
    destruct (M.last_opt ls), (hd_error us); cbn [length]; lia.
  - destruct ((length ls =? length us) && (1 <? length ls))%nat.
    + pose proof (zip_both_len ls us). lia.
    + rewrite app_length, !map_length. lia.
Qed.

Lemma group_len (cs : list M.vcons) : (length (M.group cs) <= length cs)%nat.
Proof.
  unfold M.group. cbv zeta. destruct (filter_counts cs) as [H1 H2]. cbv zeta in H1, H2.
  rewrite app_length, map_length.
  set (bounds := filter (fun c => M.is_lower_op (fst c) || M.is_upper_op (fst c)) cs) in *.
  destruct bounds as [|b bs] eqn:EB; [exact H1|].
  destruct (M.alternating None None (b :: bs)) as [l|] eqn:A.
  - apply alternating_len in A. unfold M.vcons in *. lia.
  - pose proof (heuristic_len (filter (fun c => M.is_lower_op (fst c)) cs) (filter (fun c => M.is_upper_op (fst c)) cs)).
    unfold M.vcons in *. lia.
Qed.

Lemma native_text_nonempty st i t : M.native_text st i = Some t -> t <> [].
Proof.
  unfold M.native_text. destruct (M.i_exact i) as [e|].
  - intros H. injection H as <-. destruct st; discriminate.
  - destruct st; destruct (M.i_lower i) as [[a ia]|], (M.i_upper i) as [[b ib]|]; intros H; try discriminate;
      injection H as <-; try (destruct ia); try (destruct ib); discriminate.
Qed.

Lemma filter_some_nonempty st ivs : Forall (fun t => t <> []) (M.filter_some (map (M.native_text st) ivs)).
Proof.
  induction ivs as [|i ivs IH]; cbn [map M.filter_some]; [constructor|].
  destruct (M.native_text st i) as [t|] eqn:E; [|exact IH].
  constructor; [exact (native_text_nonempty st i t E)|exact IH].
Qed.

Lemma nc_len S : forall cs seen l, M.normalize_collect S seen cs = Some l -> (length l <= length cs)%nat.
Proof.
  induction cs as [|c0 r IH]; intros seen l H.
  - cbn in H. injection H as <-. cbn. lia.
  - cbn [length]. destruct (FactsC16.blank_dec c0) as [E0|E0].
    + rewrite (FactsC16.nc_cons_blank _ _ _ _ E0) in H. apply IH in H. lia.
    + rewrite (FactsC16.nc_cons_nonblank _ _ _ _ E0) in H. cbv zeta in H.
      destruct (beq _ $"*"); [discriminate|].
      destruct (M.strip_vop M.vers_ops _) as [[o v]|]; [|discriminate].
      destruct v as [|y v']; [discriminate|].
      destruct (mem _ seen); [apply IH in H; lia|].
      destruct (M.s_vok S _); [|discriminate].
      destruct (M.normalize_collect S _ r) as [l2|] eqn:R; [|discriminate].
      injection H as <-. apply IH in R. cbn [length]. lia.
Qed.

Lemma normalize_len S cs l : M.normalize S cs = Some l -> (length l <= length cs)%nat.
Proof.
  unfold M.normalize. destruct (M.normalize_collect S [] cs) as [l0|] eqn:N; [|discriminate].
  intros H. injection H as <-. rewrite (Permutation_length (FactsSort.isort_perm _ _ l0)).
  exact (nc_len S cs [] l0 N).
Qed.

Lemma normalize_ok S cs l : M.normalize S cs = Some l -> Forall (fun c => M.s_vok S (snd c) = true) l.
Proof.
  unfold M.normalize. destruct (M.normalize_collect S [] cs) as [l0|] eqn:N; [|discriminate].
  intros H. injection H as <-.
  destruct (FactsC16.nc_some_spec S cs [] l0 N) as (_ & _ & F).
  apply (FactsSort.Forall_perm _ _ l0); [symmetry; apply FactsSort.isort_perm | exact F].
Qed.

(* a star among the texts: parseConstraints fails *)
Lemma pcm_star_None l : In ($"*") l -> parse_constraints_m l = None.
Proof.
  induction l as [|c l IH]; intros H; [destruct H|]. cbn [parse_constraints_m].
  destruct H as [->|H].
  - reflexivity.
  - rewrite (IH H). destruct (trim_space c); [reflexivity|].
    destruct (parse_constraint_m _); reflexivity.
Qed.

(* ---------- the tie to Vers/Model.contains_generic ---------- *)

Definition res_of_vres (r : M.vres) : option bool :=
  match r with M.VTrue => Some true | M.VFalse => Some false | M.VErr => None end.

Section ContainsTie.
  Variable V VR : Type.
  Variable V_zero : V.
  Variable E_Name : bytes.
  Variable E_NewVersion : bytes -> option V.
  Variable E_NewVersionRange : bytes -> option VR.
  Variable VR_Contains : VR -> V -> bool.
  Variable V_Compare : V -> V -> Z.
  Variable sort_by : forall A : Type, (A -> A -> Z) -> list A -> list A.
  Variable strings_Map : (Z -> Z) -> bytes -> bytes.
  Variable unicode_IsSpace : Z -> bool.
  Variable S : M.scheme_ops.

  Notation contains :=
    (C.contains V VR V_zero E_Name E_NewVersion E_NewVersionRange VR_Contains V_Compare sort_by
                strings_Map unicode_IsSpace).
  Notation normalizeConstraints :=
    (C.normalizeConstraints V V_zero E_NewVersion V_Compare sort_by strings_Map unicode_IsSpace).
  Notation toRanges := (C.toRanges VR E_Name E_NewVersionRange).
  Notation normalize_go' := (normalize_go V V_zero E_NewVersion V_Compare sort_by strings_Map unicode_IsSpace).
  Notation g_inner' := (g_inner VR E_NewVersionRange).
  Notation g_outer' := (g_outer VR E_Name E_NewVersionRange).
  Notation ranges_go' := (ranges_go VR E_Name E_NewVersionRange).
  Notation g_ex' := (g_ex V E_NewVersion V_Compare).
  Notation g_rg' := (g_rg V VR VR_Contains).
  Notation final_go' := (final_go V VR E_NewVersion VR_Contains V_Compare).

  (* the bundle agrees with the model's layer record *)
  Hypothesis Hstrip : forall c, despace strings_Map unicode_IsSpace c = strip_spaces c.
  Hypothesis Hvok : forall s, E_NewVersion s = None <-> M.s_vok S s = false.
  Hypothesis Hcmp : forall a b va vb, E_NewVersion a = Some va -> E_NewVersion b = Some vb ->
    V_Compare va vb = Z_of_cmp (M.s_vcmp S a b).
  Hypothesis Hrange : forall t v ver, E_NewVersion v = Some ver ->
    M.s_rcontains S t v = option_map (fun r => VR_Contains r ver) (E_NewVersionRange t).
  Hypothesis Hsort : sort_spec sort_by.
  Hypothesis T : TotalPreorderOn (FactsC16.vok_text S) (M.s_vcmp S).

  Lemma normalize_go_len' cs l : normalize_go' cs = Some l -> (length l <= length cs)%nat.
  Proof.
    apply (normalize_go_len V V_zero E_NewVersion V_Compare sort_by strings_Map unicode_IsSpace
             (sort_spec_length sort_by Hsort)).
  Qed.

  (* parsing all the native texts *)
  Fixpoint parse_all (ts : list bytes) : option (list VR) :=
    match ts with
    | [] => Some []
    | t :: r => match E_NewVersionRange t with
                | None => None
                | Some x => option_map (cons x) (parse_all r)
                end
    end.

  Lemma run_inner_spec strs : Forall (fun t => t <> []) strs -> forall k acc,
    match run g_inner' strs (k, acc) with
    | inl r => r = None /\ parse_all strs = None
    | inr (_, acc') => exists rs, parse_all strs = Some rs /\ acc' = acc ++ rs
    end.
  Proof.
    induction 1 as [|t strs Ht Hs IH]; intros k acc; cbn [run parse_all].
    - exists []. split; [reflexivity|rewrite app_nil_r; reflexivity].
    - unfold g_inner at 1. replace (beq t []) with false by (symmetry; apply beq_false_iff; exact Ht).
      destruct (E_NewVersionRange t) as [x|]; [|split; reflexivity].
      specialize (IH (wrap64 (k + 1)) (acc ++ [x])).
      destruct (run g_inner' strs (wrap64 (k + 1), acc ++ [x])) as [r|[k' acc']].
      + destruct IH as [-> ->]. split; reflexivity.
      + destruct IH as (rs & -> & ->). exists (x :: rs). split; [reflexivity|]. rewrite <- app_assoc. reflexivity.
  Qed.

  Lemma parse_all_app a b :
    parse_all (a ++ b) = match parse_all a with
                         | None => None
                         | Some ra => option_map (app ra) (parse_all b)
                         end.
  Proof.
    induction a as [|t a IH]; cbn [app parse_all].
    - destruct (parse_all b); reflexivity.
    - destruct (E_NewVersionRange t) as [x|]; [|reflexivity]. rewrite IH.
      destruct (parse_all a) as [ra|]; [|reflexivity]. destruct (parse_all b); reflexivity.
  Qed.

  Lemma run_outer_spec pr ivs : lookup E_Name printers = Some pr ->
    Forall (fun t => t <> []) (flat_map pr ivs) -> forall k acc,
    match run g_outer' ivs (k, acc) with
    | inl r => r = None /\ parse_all (flat_map pr ivs) = None
    | inr (_, acc') => exists rs, parse_all (flat_map pr ivs) = Some rs /\ acc' = acc ++ rs
    end.
  Proof.
    intros LP. induction ivs as [|iv ivs IH]; intros NE k acc; cbn [run flat_map].
    - exists []. split; [reflexivity|rewrite app_nil_r; reflexivity].
    - cbn [flat_map] in NE. apply Forall_app in NE. destruct NE as [NE1 NE2].
      unfold g_outer at 1. rewrite LP. rewrite parse_all_app.
      pose proof (run_inner_spec (pr iv) NE1 0 acc) as RI.
      destruct (run g_inner' (pr iv) (0, acc)) as [r|[k1 acc1]].
      + destruct RI as [-> ->]. split; reflexivity.
      + destruct RI as (rs1 & -> & ->).
        specialize (IH NE2 (wrap64 (k + 1)) (acc ++ rs1)).
        destruct (run g_outer' ivs (wrap64 (k + 1), acc ++ rs1)) as [r|[k2 acc2]].
        * destruct IH as [-> ->]. split; reflexivity.
        * destruct IH as (rs2 & -> & ->). exists (rs1 ++ rs2). split; [reflexivity|]. rewrite app_assoc. reflexivity.
  Qed.

  Lemma run_outer_noprinter ivs k acc : lookup E_Name printers = None ->
    run g_outer' ivs (k, acc) = match ivs with [] => inr (k, acc) | _ => inl None end.
  Proof. intros LP. destruct ivs as [|iv ivs]; cbn [run]; [reflexivity|]. unfold g_outer. rewrite LP. reflexivity. Qed.

  (* the model's union of the ranges *)
  Lemma any_range_spec v ver texts : E_NewVersion v = Some ver ->
    match parse_all texts with
    | None => M.any_range S texts v = M.VErr
    | Some rs => length rs = length texts /\
                 M.any_range S texts v = if existsb (fun r => VR_Contains r ver) rs then M.VTrue else M.VFalse
    end.
  Proof.
    intros EV. induction texts as [|t texts IH]; cbn [parse_all M.any_range].
    - split; reflexivity.
    - rewrite (Hrange t v ver EV). destruct (E_NewVersionRange t) as [x|]; cbn [option_map]; [|reflexivity].
      destruct (parse_all texts) as [rs|]; cbn [option_map].
      + destruct IH as [IL IH]. split; [cbn [length]; lia|]. cbn [existsb]. rewrite IH.
        destruct (VR_Contains x ver); cbn [orb]; [|reflexivity].
        destruct (existsb _ rs); reflexivity.
      + rewrite IH. destruct (VR_Contains x ver); reflexivity.
  Qed.

  Definition excluded_m (v : bytes) (c : M.vcons) : bool :=
    match fst c with
    | M.ONe => match M.s_vcmp S v (snd c) with Eq => true | _ => false end
    | _ => false
    end.

  Lemma run_ex_spec v ver ncs : E_NewVersion v = Some ver ->
    Forall (fun c => M.s_vok S (snd c) = true) ncs -> forall k,
    match run (g_ex' ver) (map conc_cons ncs) k with
    | inl r => r = Some false /\ existsb (excluded_m v) ncs = true
    | inr _ => existsb (excluded_m v) ncs = false
    end.
  Proof.
    intros EV. induction 1 as [|c ncs Hc Hn IH]; intros k; cbn [map run existsb]; [reflexivity|].
    destruct c as [o x]. cbn [fst snd] in *.
    unfold g_ex at 1. cbn [conc_cons G.constraint_operator G.constraint_version fst snd].
    destruct (beq (M.op_text o) $"!=") eqn:B.
    - assert (o = M.ONe) by (destruct o; try discriminate; reflexivity). subst o.
      change (excluded_m v (M.ONe, x)) with (match M.s_vcmp S v x with Eq => true | _ => false end).
      destruct (E_NewVersion x) as [ex|] eqn:EX; [|apply Hvok in EX; congruence].
      rewrite (Hcmp v x ver ex EV EX).
      destruct (M.s_vcmp S v x); cbn [Z_of_cmp z_sign Z.eqb orb].
      + split; reflexivity.
      + apply IH.
      + apply IH.
    - replace (excluded_m v (o, x)) with false by (destruct o; try reflexivity; discriminate).
      cbn [orb]. apply IH.
  Qed.

  Lemma run_rg_spec ver rs : forall k,
    match run (g_rg' ver) rs k with
    | inl r => r = Some true /\ existsb (fun r => VR_Contains r ver) rs = true
    | inr _ => existsb (fun r => VR_Contains r ver) rs = false
    end.
  Proof.
    induction rs as [|r rs IH]; intros k; cbn [run existsb]; [reflexivity|].
    unfold g_rg at 1. destruct (VR_Contains r ver); cbn [orb]; [split; reflexivity|apply IH].
  Qed.

  Lemma lookup_printers_style :
    match lookup E_Name printers, lookup E_Name D.style_table with
    | Some pr, Some st => In (E_Name, pr) printers
    | None, None => True
    | _, _ => False
    end.
  Proof.
    unfold printers, D.style_table. cbn [lookup].
    repeat match goal with |- context [if beq E_Name ?n then _ else _] =>
      let B := fresh "B" in destruct (beq E_Name n) eqn:B;
      [apply beq_eq in B; rewrite B; in_printers|] end.
    exact I.
  Qed.

  (* THE HYPOTHESIS ABOUT groupConstraintsIntoIntervals (its tie to the model's [group] is the
     subject of Tie/Vers/CoreGroup.v, which so far proves no_panic only): on the Go values of the
     constraints that the model's normalize returns for this input, with this fuel, it returns the Go
     values of the model's intervals. *)
  Definition group_tie_hyp (cs : list bytes) (fuel : nat) : Prop :=
    forall ncs, M.normalize S cs = Some ncs -> ncs <> [] ->
      C.groupConstraintsIntoIntervals fuel (map conc_cons ncs) = Done (Some (map conc_iv (M.group ncs))).

  Ltac fold_excl version ncs :=
    repeat match goal with |- context [@existsb ?A ?f ncs] =>
      lazymatch f with excluded_m version => fail | _ => idtac end;
      change (@existsb A f ncs) with (existsb (excluded_m version) ncs) end.

  Theorem contains_tie (cs : list bytes) (version : bytes) (fuel : nat) :
    fits cs -> (length cs + 6 < fuel)%nat ->
    FactsC16.pairwise_nonequiv S cs ->
    group_tie_hyp cs fuel ->
    contains fuel cs version =
    Done (res_of_vres (M.contains_generic S (lookup E_Name D.style_table) cs version)).
  Proof.
    intros F L PW HG. unfold M.contains_generic.
    destruct (E_NewVersion version) as [ver|] eqn:EV.
    2:{ rewrite contains_version_None by exact EV. apply Hvok in EV. rewrite EV. reflexivity. }
    assert (OKv : M.s_vok S version = true).
    { destruct (M.s_vok S version) eqn:OK; [reflexivity|]. apply Hvok in OK. congruence. }
    rewrite OKv. cbn [negb].
    pose proof (sort_spec_length sort_by Hsort) as SL.
    assert (EN : normalizeConstraints fuel cs = Done (normalize_go' cs)).
    { apply normalizeConstraints_eq; [exact SL|exact F|lia|lia]. }
    destruct (existsb (fun c => beq (strip_spaces c) $"*") cs) eqn:ST.
    - (* a star among the constraints: both sides fail *)
      apply existsb_exists in ST. destruct ST as (c & Hc & Bc). apply beq_eq in Bc.
      assert (NM : M.normalize S cs = None).
      { apply (FactsC17.normalize_fail S c cs Hc). rewrite Bc. reflexivity. }
      rewrite NM. cbn [res_of_vres].
      destruct (normalize_go_star V V_zero E_NewVersion V_Compare sort_by strings_Map unicode_IsSpace
                  Hstrip (fun A c0 l => proj1 (Hsort A c0 l)) cs c Hc Bc) as [E|(l & E & IN)]; rewrite E in EN.
      + apply (contains_normalize_None _ _ _ _ _ _ _ _ _ _ _ cs version ver fuel EV EN).
      + pose proof (normalize_go_len' cs l E) as LL.
        apply (contains_toRanges_None _ _ _ _ _ _ _ _ _ _ _ cs l version ver fuel EV EN).
        apply toRanges_parse_None.
        rewrite parseConstraints_tie by (unfold fits in *; lia).
        rewrite (pcm_star_None l IN). reflexivity.
    - (* no star *)
      assert (NS : no_star cs).
      { intros c Hc E. assert (X : existsb (fun c => beq (strip_spaces c) $"*") cs = true).
        { apply existsb_exists. exists c. split; [exact Hc|]. rewrite E. reflexivity. }
        congruence. }
      rewrite (normalize_go_tie V V_zero E_NewVersion V_Compare sort_by strings_Map unicode_IsSpace S
                 Hstrip Hvok Hcmp Hsort T cs NS PW) in EN.
      destruct (M.normalize S cs) as [ncs|] eqn:NM; cbn [option_map] in EN.
      2:{ apply (contains_normalize_None _ _ _ _ _ _ _ _ _ _ _ cs version ver fuel EV EN). }
      pose proof (normalize_len S cs ncs NM) as LN.
      assert (EP : P.parseConstraints fuel (map cons_text ncs) =
                   Done (match ncs with [] => None | _ => Some (map conc_cons ncs) end)).
      { apply (parseConstraints_normalize S cs ncs fuel NM); unfold fits in *; lia. }
      destruct ncs as [|c0 ncs'] eqn:ENCS.
      { apply (contains_toRanges_None _ _ _ _ _ _ _ _ _ _ _ cs _ version ver fuel EV EN).
        apply toRanges_parse_None. exact EP. }
      rewrite <- ENCS in *. assert (NE : ncs <> []) by (rewrite ENCS; discriminate).
      replace (match ncs with [] => M.VErr | _ :: _ => _ end) with
        (let ivs := M.group ncs in
         match lookup E_Name D.style_table, ivs with
         | None, _ :: _ => M.VErr
         | _, _ =>
           let texts := match lookup E_Name D.style_table with
                        | Some st' => M.filter_some (map (M.native_text st') ivs)
                        | None => [] end in
           match M.any_range S texts version with
           | M.VErr => M.VErr
           | in_any => if existsb (excluded_m version) ncs then M.VFalse
                       else match texts with [] => M.VTrue | _ => in_any end
           end
         end) by (rewrite ENCS; reflexivity).
      assert (EP' : P.parseConstraints fuel (map cons_text ncs) = Done (Some (map conc_cons ncs))).
      { rewrite EP, ENCS. reflexivity. }
      clear EP. pose proof (HG ncs NM NE) as EG.
      pose proof (group_len ncs) as LG.
      assert (ER : toRanges fuel (map cons_text ncs) = Done (ranges_go' (map conc_iv (M.group ncs)))).
      { apply (toRanges_eq VR E_Name E_NewVersionRange _ _ _ fuel EP' EG); unfold fits in *; rewrite ?map_length; lia. }
      cbv zeta. set (ivs := M.group ncs) in *.
      pose proof (run_ex_spec version ver ncs EV (normalize_ok S cs ncs NM) 0) as EX.
      pose proof lookup_printers_style as LPS.
      unfold ranges_go in ER.
      destruct (lookup E_Name printers) as [pr|] eqn:LP; destruct (lookup E_Name D.style_table) as [st|] eqn:LS;
        try contradiction.
      + (* a supported ecosystem *)
        pose proof (printers_texts_normalize S cs ncs E_Name pr st NM LPS LS) as PT. fold ivs in PT.
        set (texts := M.filter_some (map (M.native_text st) ivs)) in *.
        assert (NEt : Forall (fun t => t <> []) (flat_map pr (map conc_iv ivs))).
        { rewrite PT. apply filter_some_nonempty. }
        pose proof (run_outer_spec pr (map conc_iv ivs) LP NEt 0 []) as RO. rewrite PT in RO.
        pose proof (any_range_spec version ver texts EV) as AR.
        assert (LT : (length texts <= length ivs)%nat).
        { unfold texts. clear. induction ivs as [|i l IH]; cbn [map M.filter_some length]; [lia|].
          destruct (M.native_text st i); cbn [length]; lia. }
        destruct (run g_outer' (map conc_iv ivs) (0, [])) as [r|[k rs]].
        * destruct RO as [-> RO]. rewrite RO in AR. rewrite AR.
          replace (match ivs with [] => M.VErr | _ :: _ => M.VErr end) with M.VErr by (destruct ivs; reflexivity).
          apply (contains_toRanges_None _ _ _ _ _ _ _ _ _ _ _ cs _ version ver fuel EV EN ER).
        * destruct RO as (rs' & RO & ->). cbn [app] in ER. rewrite RO in AR. destruct AR as [LR AR].
          rewrite (contains_eq V VR V_zero E_Name E_NewVersion E_NewVersionRange VR_Contains V_Compare sort_by
                     strings_Map unicode_IsSpace cs _ version ver _ rs' fuel EV EN ER EP')
            by (unfold fits in *; rewrite ?map_length; lia).
          f_equal. unfold final_go.
          replace (match ivs with [] => _ | _ :: _ => _ end) with
            (match M.any_range S texts version with
             | M.VErr => M.VErr
             | in_any => if existsb (excluded_m version) ncs then M.VFalse
                         else match texts with [] => M.VTrue | _ => in_any end
             end) by (destruct ivs; reflexivity).
          rewrite AR.
          pose proof (run_rg_spec ver rs' 0) as RG.
          destruct (run (g_ex' ver) (map conc_cons ncs) 0) as [r|k'].
          -- destruct EX as [-> EX]. fold_excl version ncs. rewrite EX. destruct (existsb _ rs'); reflexivity.
          -- fold_excl version ncs. rewrite EX.
             destruct rs' as [|r0 rs'], texts as [|t0 texts']; try (cbn [length] in LR; lia).
             ++ reflexivity.
             ++ destruct (run (g_rg' ver) (r0 :: rs') 0) as [r|k''].
                ** destruct RG as [-> RG]. rewrite RG. reflexivity.
                ** rewrite RG. reflexivity.
      + (* an ecosystem without a printer *)
        rewrite (run_outer_noprinter (map conc_iv ivs) 0 [] LP) in ER.
        destruct ivs as [|i0 ivs'] eqn:EI; cbn [map] in ER.
        * cbn [M.any_range].
          rewrite (contains_eq V VR V_zero E_Name E_NewVersion E_NewVersionRange VR_Contains V_Compare sort_by
                     strings_Map unicode_IsSpace cs _ version ver _ [] fuel EV EN ER EP')
            by (unfold fits in *; rewrite ?map_length; cbn [length]; lia).
          f_equal. unfold final_go.
          destruct (run (g_ex' ver) (map conc_cons ncs) 0) as [r|k'].
          -- destruct EX as [-> EX]. fold_excl version ncs. rewrite EX. reflexivity.
          -- fold_excl version ncs. rewrite EX. reflexivity.
        * apply (contains_toRanges_None _ _ _ _ _ _ _ _ _ _ _ cs _ version ver fuel EV EN ER).
  Qed.
End ContainsTie.
Print Assumptions contains_tie.

(* ---------- no panic, without any assumption about the ecosystem ---------- *)

Lemma parse_constraints_m_len cs l : parse_constraints_m cs = Some l -> (length l <= length cs)%nat.
Proof.
  revert l. induction cs as [|c cs IH]; intros l H; cbn [parse_constraints_m] in H.
  - injection H as <-. cbn. lia.
  - cbn [length]. destruct (trim_space c) as [|t0 t].
    + apply IH in H. lia.
    + destruct (parse_constraint_m (t0 :: t)); [|discriminate].
      destruct (parse_constraints_m cs) as [l'|]; [|discriminate]. cbn [option_map] in H.
      injection H as <-. specialize (IH l' eq_refl). cbn [length]. lia.
Qed.

Lemma parseConstraints_len cs fuel vcs : fits cs -> (length cs < fuel)%nat ->
  P.parseConstraints fuel cs = Done (Some vcs) -> (length vcs <= length cs)%nat.
Proof.
  intros F L. rewrite (parseConstraints_tie cs fuel F L).
  destruct (parse_constraints_m cs) as [[|x l]|] eqn:E; cbn [nonempty_result]; intros H; try discriminate.
  injection H as <-. change (length (map conc_cons (x :: l)) <= length cs)%nat.
  rewrite map_length. exact (parse_constraints_m_len cs _ E).
Qed.

Section NoPanic.
  Variable V VR : Type.
  Variable V_zero : V.
  Variable E_Name : bytes.
  Variable E_NewVersion : bytes -> option V.
  Variable E_NewVersionRange : bytes -> option VR.
  Variable VR_Contains : VR -> V -> bool.
  Variable V_Compare : V -> V -> Z.
  Variable sort_by : forall A : Type, (A -> A -> Z) -> list A -> list A.
  Variable strings_Map : (Z -> Z) -> bytes -> bytes.
  Variable unicode_IsSpace : Z -> bool.

  Notation contains :=
    (C.contains V VR V_zero E_Name E_NewVersion E_NewVersionRange VR_Contains V_Compare sort_by
                strings_Map unicode_IsSpace).
  Notation normalizeConstraints :=
    (C.normalizeConstraints V V_zero E_NewVersion V_Compare sort_by strings_Map unicode_IsSpace).
  Notation toRanges := (C.toRanges VR E_Name E_NewVersionRange).
  Notation g_inner' := (g_inner VR E_NewVersionRange).
  Notation g_outer' := (g_outer VR E_Name E_NewVersionRange).

  Lemma run_inner_len strs : forall k acc k' acc',
    run g_inner' strs (k, acc) = inr (k', acc') -> (length acc' <= length acc + length strs)%nat.
  Proof.
    induction strs as [|t strs IH]; intros k acc k' acc' H; cbn [run] in H.
    - injection H as _ <-. cbn [length]. lia.
    - unfold g_inner at 1 in H. cbn [length].
      destruct (beq t []); [apply IH in H; lia|].
      destruct (E_NewVersionRange t); [|discriminate]. apply IH in H. rewrite app_length in H. cbn [length] in H. lia.
  Qed.

  Lemma run_outer_len ivs : forall k acc k' acc',
    run g_outer' ivs (k, acc) = inr (k', acc') -> (length acc' <= length acc + length ivs)%nat.
  Proof.
    induction ivs as [|iv ivs IH]; intros k acc k' acc' H; cbn [run] in H.
    - injection H as _ <-. cbn [length]. lia.
    - unfold g_outer at 1 in H. cbn [length].
      destruct (lookup E_Name printers) as [pr|] eqn:LP; [|discriminate].
      destruct (run g_inner' (pr iv) (0, acc)) as [r|[k1 acc1]] eqn:RI; [discriminate|].
      apply run_inner_len in RI. apply IH in H.
      pose proof (printers_len E_Name pr iv (lookup_In _ _ _ LP)). lia.
  Qed.

  Theorem toRanges_no_panic (cs : list bytes) (fuel : nat) :
    fits cs -> (length cs + 1 < fuel)%nat ->
    ensures (fun r => forall rs, r = Some rs -> (length rs <= length cs)%nat) (toRanges fuel cs).
  Proof.
    intros F L.
    destruct (parseConstraints_finished cs fuel F ltac:(lia)) as ([vcs|] & EP).
    2:{ rewrite (toRanges_parse_None _ _ _ cs fuel EP). apply ensures_Done. intros rs E; discriminate E. }
    pose proof (parseConstraints_len cs fuel vcs F ltac:(lia) EP) as LV.
    assert (Fv : fits vcs) by (unfold fits in *; lia).
    destruct (groupConstraintsIntoIntervals_len vcs fuel Fv ltac:(lia)) as ([ivs|] & EG & LI).
    2:{ unfold C.toRanges. rewrite EP. cbn [bind]. rewrite EG. cbn [bind]. apply ensures_Done. intros rs E; discriminate E. }
    specialize (LI ivs eq_refl).
    rewrite (toRanges_eq VR E_Name E_NewVersionRange cs vcs ivs fuel EP EG) by (unfold fits in *; lia).
    apply ensures_Done. intros rs E. unfold ranges_go in E.
    destruct (run g_outer' ivs (0, [])) as [r|[k acc]] eqn:RO; [subst r|].
    - (* an error inside the loop: the result is None *)
      exfalso. clear -RO. revert RO. generalize (0, ([] : list VR)). induction ivs as [|iv ivs IH]; intros st RO; cbn [run] in RO.
      + discriminate.
      + destruct (g_outer' iv st) as [r|st'] eqn:G0.
        * injection RO as ->. destruct st as [k acc]. unfold g_outer in G0.
          destruct (lookup E_Name printers) as [pr|]; [|discriminate].
          destruct (run g_inner' (pr iv) (0, acc)) as [r|[k1 acc1]] eqn:RI; [|discriminate].
          injection G0 as ->. clear -RI. revert RI. generalize (0, acc). induction (pr iv) as [|t strs IH]; intros st RI; cbn [run] in RI.
          -- discriminate.
          -- destruct (g_inner' t st) as [r|st'] eqn:G1; [|exact (IH _ RI)].
             injection RI as ->. destruct st as [k2 acc2]. unfold g_inner in G1.
             destruct (beq t []); [discriminate|]. destruct (E_NewVersionRange t); discriminate.
        * exact (IH _ RO).
    - injection E as <-. apply run_outer_len in RO. cbn [length] in RO. lia.
  Qed.

  Hypothesis sort_by_length : forall A (c : A -> A -> Z) l, length (sort_by A c l) = length l.

  (* contains never panics -- no index out of range, no nil dereference -- and terminates with fuel
     above len(constraints) + 6, whatever the ecosystem's methods do *)
  Theorem contains_no_panic (cs : list bytes) (version : bytes) (fuel : nat) :
    fits cs -> (length cs + 6 < fuel)%nat -> finished (contains fuel cs version).
  Proof.
    intros F L.
    destruct (E_NewVersion version) as [ver|] eqn:EV.
    2:{ rewrite contains_version_None by exact EV. apply finished_Done. }
    pose proof (normalizeConstraints_eq V V_zero E_NewVersion V_Compare sort_by strings_Map unicode_IsSpace
                  sort_by_length cs fuel F ltac:(lia) ltac:(lia)) as EN.
    destruct (normalize_go V V_zero E_NewVersion V_Compare sort_by strings_Map unicode_IsSpace cs) as [l|] eqn:NG.
    2:{ rewrite (contains_normalize_None _ _ _ _ _ _ _ _ _ _ _ cs version ver fuel EV EN). apply finished_Done. }
    pose proof (normalize_go_len V V_zero E_NewVersion V_Compare sort_by strings_Map unicode_IsSpace
                  sort_by_length cs l NG) as LL.
    assert (Fl : fits l) by (unfold fits in *; lia).
    destruct (toRanges_no_panic l fuel Fl ltac:(lia)) as ([ranges|] & ER & LR).
    2:{ rewrite (contains_toRanges_None _ _ _ _ _ _ _ _ _ _ _ cs l version ver fuel EV EN ER). apply finished_Done. }
    specialize (LR ranges eq_refl).
    destruct (parseConstraints_finished l fuel Fl ltac:(lia)) as ([vcs|] & EP).
    2:{ unfold C.contains. rewrite EV, EN. cbn [bind]. rewrite ER. cbn [bind]. rewrite EP. apply finished_Done. }
    pose proof (parseConstraints_len l fuel vcs Fl ltac:(lia) EP) as LV.
    rewrite (contains_eq V VR V_zero E_Name E_NewVersion E_NewVersionRange VR_Contains V_Compare sort_by
               strings_Map unicode_IsSpace cs l version ver vcs ranges fuel EV EN ER EP)
      by (unfold fits in *; lia).
    apply finished_Done.
  Qed.
End NoPanic.
Print Assumptions toRanges_no_panic.
Print Assumptions contains_no_panic.
