(* Tie/Vers/CoreContainsClosed.v -- [contains_tie] (CoreContains.v) without its hypothesis about
   groupConstraintsIntoIntervals: [group_tie_hyp] is exactly what
   CoreGroupTie.groupConstraintsIntoIntervals_tie proves (for EVERY list of model constraints).

   [group_tie_hyp_holds]   fits cs -> length cs < fuel -> group_tie_hyp S cs fuel   (any S)
   [contains_tie_closed]   under the agreement of the bundle with the layer record S ([Hstrip], [Hvok],
                           [Hcmp], [Hrange]), [sort_spec], a total preorder on accepted texts and
                           pairwise non-equivalent constraint versions:
                             contains fuel cs version =
                             Done (res_of_vres (contains_generic S (lookup E_Name style_table) cs version))
                           for fits cs, length cs + 6 < fuel. *)
From Coq Require Import ZArith List Ascii Bool Lia Permutation Sorted.
From Verif.Base Require Import Bytes GoNum GoOps Imp ImpFacts ImpErr ImpCore BytesFacts Ord.
From Verif.Vers Require Model FactsC16.
From Verif.Gen Require VersDispatch.
From Verif.Gen.Parse Require SpecVersCore.
From Verif.Tie Require Import Tactics.
From Verif.Tie.Loops Require Import Common.
From Verif.Tie.Parse Require Import Common.
From Verif.Tie.Vers Require Import Common Constraints CoreNormalize CoreContains.
From Verif.Tie.Vers Require CoreGroupTie.
Import ListNotations.
Local Open Scope Z_scope.

Module C := Verif.Gen.Parse.SpecVersCore.
Module M := Verif.Vers.Model.
Module D := Verif.Gen.VersDispatch.

Lemma group_tie_hyp_holds (S : M.scheme_ops) (cs : list bytes) (fuel : nat) :
  fits cs -> (length cs < fuel)%nat -> group_tie_hyp S cs fuel.
Proof.
  intros F L ncs NM _.
  pose proof (normalize_len S cs ncs NM) as LN.
  apply CoreGroupTie.groupConstraintsIntoIntervals_tie; unfold fits in *; lia.
Qed.
Print Assumptions group_tie_hyp_holds.

Section ContainsTieClosed.
  Variable V VR : Type.
  Variable V_zero : V.
  Variable E_Name : bytes.
  Variable E_NewVersion : bytes -> option V.
  Variable E_NewVersionRange : bytes -> option VR.
  Variable VR_Contains : VR -> V -> bool.
  Variable V_Compare : V -> V -> Z.
  Variable sort_by : forall A : Type, (A -> A -> Z) -> list A -> list A.
  Variable strings_Map : (Z -> Z) -> bytes -> bytes.
  Variable unicode_IsSpace : Z -> bool.
  Variable S : M.scheme_ops.

  Notation contains :=
    (C.contains V VR V_zero E_Name E_NewVersion E_NewVersionRange VR_Contains V_Compare sort_by
                strings_Map unicode_IsSpace).

  Hypothesis Hstrip : forall c, despace strings_Map unicode_IsSpace c = strip_spaces c.
  Hypothesis Hvok : forall s, E_NewVersion s = None <-> M.s_vok S s = false.
  Hypothesis Hcmp : forall a b va vb, E_NewVersion a = Some va -> E_NewVersion b = Some vb ->
    V_Compare va vb = Z_of_cmp (M.s_vcmp S a b).
  Hypothesis Hrange : forall t v ver, E_NewVersion v = Some ver ->
    M.s_rcontains S t v = option_map (fun r => VR_Contains r ver) (E_NewVersionRange t).
  Hypothesis Hsort : sort_spec sort_by.
  Hypothesis T : TotalPreorderOn (FactsC16.vok_text S) (M.s_vcmp S).

  Theorem contains_tie_closed (cs : list bytes) (version : bytes) (fuel : nat) :
    fits cs -> (length cs + 6 < fuel)%nat ->
    FactsC16.pairwise_nonequiv S cs ->
    contains fuel cs version =
    Done (res_of_vres (M.contains_generic S (lookup E_Name D.style_table) cs version)).
  Proof.
    intros F L PW.
    apply (contains_tie V VR V_zero E_Name E_NewVersion E_NewVersionRange VR_Contains V_Compare sort_by
             strings_Map unicode_IsSpace S Hstrip Hvok Hcmp Hrange Hsort T cs version fuel F L PW).
    apply group_tie_hyp_holds; [exact F | lia].
  Qed.
End ContainsTieClosed.
Print Assumptions contains_tie_closed.
