(* Tie/Vers/CoreContainsOn.v -- [contains_tie_closed] relative to a decidable domain [dom] of texts.

   The ties of a concrete ecosystem (Tie/E2E/<Eco>.v: [lib_ties_on]) hold on the texts whose length
   fits Go's int, not on all Coq lists; [contains_tie_closed] asks for agreement on ALL texts.  Here
   the agreement is asked on [dom] only ([Hvok_on], [Hcmp_on], [Hrange_on]), together with the
   conditions that every text the function hands to the ecosystem is in [dom]:
     the probe, the version part of every constraint ([HDcs]), and every native range text that the
     model prints for the normalized constraints ([HDtexts]).

   Method (as in Tie/E2E/Common.v for the CLI): the bundle whose two parsers are guarded by [dom]
   agrees with the layer record restricted to [dom] ([restrict_ops]) on all texts, so
   [contains_tie_closed] applies to that pair; on inputs inside the domain neither the guards
   ([contains_guard], on the Go side, through [normalize_go] / [ranges_go] / [final_go]) nor the
   restriction ([contains_generic_restrict], on the model side) is observable. *)
From Coq Require Import ZArith List Ascii Bool Lia Permutation Sorted.
From Verif.Base Require Import Bytes GoNum GoOps Imp ImpFacts ImpErr ImpCore BytesFacts Ord.
From Verif.Vers Require Model FactsStr FactsSort FactsC16 FactsC17.
From Verif.Gen Require VersDispatch.
From Verif.Gen.Code Require SpecVers.
From Verif.Gen.Parse Require SpecVers SpecVersCore.
From Verif.Tie Require Import Tactics.
From Verif.Tie.Loops Require Import Common.
From Verif.Tie.Parse Require Import Common.
From Verif.Tie.Vers Require Import Common Constraints Printers Texts CoreAlternating CoreGroup CoreGroupLen
     CoreNormalize CoreContains CoreContainsClosed.
From Verif.Tie.Vers Require CoreGroupTie.
Import ListNotations.
Local Open Scope Z_scope.

Module C := Verif.Gen.Parse.SpecVersCore.
Module G := Verif.Gen.Code.SpecVers.
Module P := Verif.Gen.Parse.SpecVers.
Module M := Verif.Vers.Model.
Module D := Verif.Gen.VersDispatch.

Section Guard.
  Variable dom : bytes -> bool.

  Definition guard {A} (f : bytes -> option A) (s : bytes) : option A := if dom s then f s else None.

  Definition restrict_ops (S : M.scheme_ops) : M.scheme_ops := {|
    M.s_vok := fun s => dom s && M.s_vok S s;
    M.s_vcmp := M.s_vcmp S;
    M.s_vshow := M.s_vshow S;
    M.s_rcontains := fun t v => if dom t then M.s_rcontains S t v else None |}.

  Lemma guard_in {A} (f : bytes -> option A) s : dom s = true -> guard f s = f s.
  Proof. unfold guard. intros ->. reflexivity. Qed.

  Lemma guard_Some {A} (f : bytes -> option A) s x : guard f s = Some x -> dom s = true /\ f s = Some x.
  Proof. unfold guard. destruct (dom s); [auto | discriminate]. Qed.
End Guard.

(* ---------- the Go side: the guards are not observable inside the domain ---------- *)

Section GoSide.
  Variable V VR : Type.
  Variable V_zero : V.
  Variable E_Name : bytes.
  Variable NV : bytes -> option V.
  Variable NVR : bytes -> option VR.
  Variable VR_Contains : VR -> V -> bool.
  Variable V_Compare : V -> V -> Z.
  Variable sort_by : forall A : Type, (A -> A -> Z) -> list A -> list A.
  Variable strings_Map : (Z -> Z) -> bytes -> bytes.
  Variable unicode_IsSpace : Z -> bool.
  Variable dom : bytes -> bool.

  Notation gNV := (guard dom NV).
  Notation gNVR := (guard dom NVR).
  Notation despace' := (despace strings_Map unicode_IsSpace).

  Lemma run_g_norm_guard cs :
    (forall c0, In c0 cs -> dom (snd (split_op (despace' c0))) = true) ->
    forall st, run (g_norm V V_zero gNV strings_Map unicode_IsSpace) cs st =
               run (g_norm V V_zero NV strings_Map unicode_IsSpace) cs st.
  Proof.
    induction cs as [|c0 r IH]; intros H st; [reflexivity|]. cbn [run].
    assert (E : g_norm V V_zero gNV strings_Map unicode_IsSpace c0 st =
                g_norm V V_zero NV strings_Map unicode_IsSpace c0 st).
    { destruct st as [[k vcs] seen]. unfold g_norm.
      rewrite (guard_in dom NV _ (H c0 (or_introl eq_refl))). reflexivity. }
    rewrite E. destruct (g_norm V V_zero NV strings_Map unicode_IsSpace c0 st) as [e|st']; [reflexivity|].
    apply IH. intros c Hc. apply H. right. exact Hc.
  Qed.

  Lemma normalize_go_guard cs :
    (forall c0, In c0 cs -> dom (snd (split_op (despace' c0))) = true) ->
    normalize_go V V_zero gNV V_Compare sort_by strings_Map unicode_IsSpace cs =
    normalize_go V V_zero NV V_Compare sort_by strings_Map unicode_IsSpace cs.
  Proof.
    intros H. unfold normalize_go, collect_go. rewrite (run_g_norm_guard cs H). reflexivity.
  Qed.

  Lemma run_g_inner_guard strs :
    (forall t, In t strs -> dom t = true) ->
    forall st, run (g_inner VR gNVR) strs st = run (g_inner VR NVR) strs st.
  Proof.
    induction strs as [|t r IH]; intros H st; [reflexivity|]. cbn [run].
    assert (E : g_inner VR gNVR t st = g_inner VR NVR t st).
    { destruct st as [k acc]. unfold g_inner. rewrite (guard_in dom NVR _ (H t (or_introl eq_refl))). reflexivity. }
    rewrite E. destruct (g_inner VR NVR t st) as [e|st']; [reflexivity|].
    apply IH. intros c Hc. apply H. right. exact Hc.
  Qed.

  Lemma run_g_outer_guard ivs :
    (forall pr iv t, lookup E_Name printers = Some pr -> In iv ivs -> In t (pr iv) -> dom t = true) ->
    forall st, run (g_outer VR E_Name gNVR) ivs st = run (g_outer VR E_Name NVR) ivs st.
  Proof.
    induction ivs as [|iv r IH]; intros H st; [reflexivity|]. cbn [run].
    assert (E : g_outer VR E_Name gNVR iv st = g_outer VR E_Name NVR iv st).
    { destruct st as [k acc]. unfold g_outer. destruct (lookup E_Name printers) as [pr|] eqn:LP; [|reflexivity].
      rewrite (run_g_inner_guard (pr iv)); [reflexivity|].
      intros t Ht. apply (H pr iv t eq_refl (or_introl eq_refl) Ht). }
    rewrite E. destruct (g_outer VR E_Name NVR iv st) as [e|st']; [reflexivity|].
    apply IH. intros pr iv' t LP Hi Ht. apply (H pr iv' t LP (or_intror Hi) Ht).
  Qed.

  Lemma ranges_go_guard ivs :
    (forall pr iv t, lookup E_Name printers = Some pr -> In iv ivs -> In t (pr iv) -> dom t = true) ->
    ranges_go VR E_Name gNVR ivs = ranges_go VR E_Name NVR ivs.
  Proof. intros H. unfold ranges_go. rewrite (run_g_outer_guard ivs H). reflexivity. Qed.

  Lemma run_g_ex_guard ver vcs :
    (forall c, In c vcs -> dom (G.constraint_version c) = true) ->
    forall k, run (g_ex V gNV V_Compare ver) vcs k = run (g_ex V NV V_Compare ver) vcs k.
  Proof.
    induction vcs as [|c r IH]; intros H k; [reflexivity|]. cbn [run].
    assert (E : g_ex V gNV V_Compare ver c k = g_ex V NV V_Compare ver c k).
    { unfold g_ex. rewrite (guard_in dom NV _ (H c (or_introl eq_refl))). reflexivity. }
    rewrite E. destruct (g_ex V NV V_Compare ver c k) as [e|k']; [reflexivity|].
    apply IH. intros c' Hc. apply H. right. exact Hc.
  Qed.

  Lemma final_go_guard ver vcs ranges :
    (forall c, In c vcs -> dom (G.constraint_version c) = true) ->
    final_go V VR gNV VR_Contains V_Compare ver vcs ranges =
    final_go V VR NV VR_Contains V_Compare ver vcs ranges.
  Proof. intros H. unfold final_go. rewrite (run_g_ex_guard ver vcs H). reflexivity. Qed.

  Notation contains_at nv nvr :=
    (C.contains V VR V_zero E_Name nv nvr VR_Contains V_Compare sort_by strings_Map unicode_IsSpace).
  Notation normalizeConstraints_at nv :=
    (C.normalizeConstraints V V_zero nv V_Compare sort_by strings_Map unicode_IsSpace).
  Notation normalize_go_at nv :=
    (normalize_go V V_zero nv V_Compare sort_by strings_Map unicode_IsSpace).

  Hypothesis sort_by_length : forall A (c : A -> A -> Z) l, length (sort_by A c l) = length l.

  (* [contains] at the guarded bundle is [contains] at the bundle itself, when the probe, the version
     parts of the constraints, the versions of the parsed constraints and the printed range texts are
     in the domain *)
  Theorem contains_guard (cs : list bytes) (version : bytes) (fuel : nat) :
    fits cs -> (length cs + 6 < fuel)%nat ->
    dom version = true ->
    (forall c0, In c0 cs -> dom (snd (split_op (despace' c0))) = true) ->
    (forall l vcs ivs,
        normalize_go_at NV cs = Some l ->
        P.parseConstraints fuel l = Done (Some vcs) ->
        C.groupConstraintsIntoIntervals fuel vcs = Done (Some ivs) ->
        (forall c, In c vcs -> dom (G.constraint_version c) = true) /\
        (forall pr iv t, lookup E_Name printers = Some pr -> In iv ivs -> In t (pr iv) -> dom t = true)) ->
    contains_at gNV gNVR fuel cs version = contains_at NV NVR fuel cs version.
  Proof.
    intros F L Dv HG1 HG2.
    pose proof (guard_in dom NV version Dv) as GV.
    destruct (NV version) as [ver|] eqn:EV.
    2:{ rewrite (contains_version_None V VR V_zero E_Name gNV gNVR VR_Contains V_Compare sort_by strings_Map
                   unicode_IsSpace cs version fuel GV).
        rewrite (contains_version_None V VR V_zero E_Name NV NVR VR_Contains V_Compare sort_by strings_Map
                   unicode_IsSpace cs version fuel EV). reflexivity. }
    pose proof (normalizeConstraints_eq V V_zero NV V_Compare sort_by strings_Map unicode_IsSpace
                  sort_by_length cs fuel F ltac:(lia) ltac:(lia)) as EN.
    pose proof (normalizeConstraints_eq V V_zero gNV V_Compare sort_by strings_Map unicode_IsSpace
                  sort_by_length cs fuel F ltac:(lia) ltac:(lia)) as EN'.
    rewrite (normalize_go_guard cs HG1) in EN'.
    destruct (normalize_go_at NV cs) as [l|] eqn:NG.
    2:{ rewrite (contains_normalize_None _ _ _ _ _ _ _ _ _ _ _ cs version ver fuel GV EN').
        rewrite (contains_normalize_None _ _ _ _ _ _ _ _ _ _ _ cs version ver fuel EV EN). reflexivity. }
    pose proof (normalize_go_len V V_zero NV V_Compare sort_by strings_Map unicode_IsSpace
                  sort_by_length cs l NG) as LL.
    assert (Fl : fits l) by (unfold fits in *; lia).
    assert (BOTH_NONE : forall (ER : C.toRanges VR E_Name NVR fuel l = Done None)
                               (ER' : C.toRanges VR E_Name gNVR fuel l = Done None),
               contains_at gNV gNVR fuel cs version = contains_at NV NVR fuel cs version).
    { intros ER ER'.
      rewrite (contains_toRanges_None _ _ _ _ _ _ _ _ _ _ _ cs l version ver fuel GV EN' ER').
      rewrite (contains_toRanges_None _ _ _ _ _ _ _ _ _ _ _ cs l version ver fuel EV EN ER). reflexivity. }
    destruct (parseConstraints_finished l fuel Fl ltac:(lia)) as ([vcs|] & EP).
    2:{ apply BOTH_NONE; apply toRanges_parse_None; exact EP. }
    pose proof (parseConstraints_len l fuel vcs Fl ltac:(lia) EP) as LV.
    assert (Fv : fits vcs) by (unfold fits in *; lia).
    destruct (groupConstraintsIntoIntervals_len vcs fuel Fv ltac:(lia)) as ([ivs|] & EG & LI).
    2:{ apply BOTH_NONE; unfold C.toRanges; rewrite EP; cbn [bind]; rewrite EG; reflexivity. }
    specialize (LI ivs eq_refl).
    destruct (HG2 l vcs ivs eq_refl EP EG) as [HGa HGb].
    pose proof (toRanges_eq VR E_Name NVR l vcs ivs fuel EP EG) as ER.
    pose proof (toRanges_eq VR E_Name gNVR l vcs ivs fuel EP EG) as ER'.
    rewrite (ranges_go_guard ivs HGb) in ER'.
    assert (X1 : fits ivs) by (unfold fits in *; lia).
    assert (X2 : (length ivs < fuel)%nat) by lia.
    assert (X3 : (1 < fuel)%nat) by lia.
    specialize (ER X1 X2 X3). specialize (ER' X1 X2 X3).
    destruct (ranges_go VR E_Name NVR ivs) as [ranges|] eqn:RG.
    2:{ apply BOTH_NONE; assumption. }
    assert (LR : (length ranges <= length l)%nat).
    { destruct (toRanges_no_panic VR E_Name NVR l fuel Fl ltac:(lia)) as (a & Ea & Qa).
      rewrite ER in Ea. injection Ea as <-. apply Qa. reflexivity. }
    rewrite (contains_eq V VR V_zero E_Name gNV gNVR VR_Contains V_Compare sort_by strings_Map unicode_IsSpace
               cs l version ver vcs ranges fuel GV EN' ER' EP) by (unfold fits in *; lia).
    rewrite (contains_eq V VR V_zero E_Name NV NVR VR_Contains V_Compare sort_by strings_Map unicode_IsSpace
               cs l version ver vcs ranges fuel EV EN ER EP) by (unfold fits in *; lia).
    rewrite (final_go_guard ver vcs ranges HGa). reflexivity.
  Qed.
End GoSide.
Print Assumptions contains_guard.

(* ---------- the model side: the restriction is not observable inside the domain ---------- *)

Section ModelSide.
  Variable S : M.scheme_ops.
  Variable dom : bytes -> bool.

  Notation S' := (restrict_ops dom S).

  Lemma split_op_strip c o w : M.strip_vop M.vers_ops c = Some (o, w) -> snd (split_op c) = w.
  Proof. intros H. unfold split_op. rewrite H. reflexivity. Qed.

  Lemma nc_restrict cs :
    (forall c0, In c0 cs -> dom (snd (split_op (strip_spaces c0))) = true) ->
    forall seen, M.normalize_collect S' seen cs = M.normalize_collect S seen cs.
  Proof.
    induction cs as [|c0 r IH]; intros H seen; [reflexivity|].
    assert (Hr : forall c, In c r -> dom (snd (split_op (strip_spaces c))) = true)
      by (intros c Hc; apply H; right; exact Hc).
    destruct (FactsC16.blank_dec c0) as [E0|E0].
    - rewrite !(FactsC16.nc_cons_blank _ _ _ _ E0). apply IH. exact Hr.
    - rewrite !(FactsC16.nc_cons_nonblank _ _ _ _ E0). cbv zeta.
      destruct (beq (strip_spaces c0) $"*"); [reflexivity|].
      destruct (M.strip_vop M.vers_ops (strip_spaces c0)) as [[o w]|] eqn:SV; [|reflexivity].
      pose proof (H c0 (or_introl eq_refl)) as Dw. rewrite (split_op_strip _ o w SV) in Dw.
      destruct w as [|y w']; [reflexivity|].
      rewrite !(IH Hr).
      change (M.s_vok S' (y :: w')) with (dom (y :: w') && M.s_vok S (y :: w')).
      rewrite Dw. reflexivity.
  Qed.

  Lemma normalize_restrict cs :
    (forall c0, In c0 cs -> dom (snd (split_op (strip_spaces c0))) = true) ->
    M.normalize S' cs = M.normalize S cs.
  Proof. intros H. unfold M.normalize. rewrite (nc_restrict cs H []). reflexivity. Qed.

  Lemma any_range_restrict texts v :
    (forall t, In t texts -> dom t = true) -> M.any_range S' texts v = M.any_range S texts v.
  Proof.
    induction texts as [|t r IH]; intros H; [reflexivity|]. cbn [M.any_range].
    change (M.s_rcontains S' t v) with (if dom t then M.s_rcontains S t v else None).
    rewrite (H t (or_introl eq_refl)). rewrite IH by (intros t' Ht; apply H; right; exact Ht). reflexivity.
  Qed.

  Theorem contains_generic_restrict (st : option M.native_style) (cs : list bytes) (v : bytes) :
    dom v = true ->
    (forall c0, In c0 cs -> dom (snd (split_op (strip_spaces c0))) = true) ->
    (forall ncs st' t, M.normalize S cs = Some ncs -> st = Some st' ->
                       In t (M.filter_some (map (M.native_text st') (M.group ncs))) -> dom t = true) ->
    M.contains_generic S' st cs v = M.contains_generic S st cs v.
  Proof.
    intros Dv HDcs HDt. unfold M.contains_generic.
    change (M.s_vok S' v) with (dom v && M.s_vok S v). rewrite Dv. cbn [andb].
    rewrite (normalize_restrict cs HDcs).
    destruct (negb (M.s_vok S v)); [reflexivity|].
    destruct (M.normalize S cs) as [ncs|] eqn:NM; [|reflexivity].
    destruct ncs as [|c0 ncs']; [reflexivity|].
    cbv zeta.
    destruct st as [st'|].
    - rewrite (any_range_restrict _ v (fun t Ht => HDt _ st' t eq_refl eq_refl Ht)). reflexivity.
    - destruct (M.group (c0 :: ncs')); reflexivity.
  Qed.
End ModelSide.
Print Assumptions contains_generic_restrict.

(* ---------- the tie on a domain ---------- *)

Section ContainsTieOn.
  Variable V VR : Type.
  Variable V_zero : V.
  Variable E_Name : bytes.
  Variable NV : bytes -> option V.
  Variable NVR : bytes -> option VR.
  Variable VR_Contains : VR -> V -> bool.
  Variable V_Compare : V -> V -> Z.
  Variable sort_by : forall A : Type, (A -> A -> Z) -> list A -> list A.
  Variable strings_Map : (Z -> Z) -> bytes -> bytes.
  Variable unicode_IsSpace : Z -> bool.
  Variable S : M.scheme_ops.
  Variable dom : bytes -> bool.

  Notation gNV := (guard dom NV).
  Notation gNVR := (guard dom NVR).
  Notation S' := (restrict_ops dom S).
  Notation contains_at nv nvr :=
    (C.contains V VR V_zero E_Name nv nvr VR_Contains V_Compare sort_by strings_Map unicode_IsSpace).
  Notation normalize_go_at nv :=
    (normalize_go V V_zero nv V_Compare sort_by strings_Map unicode_IsSpace).

  Hypothesis Hstrip : forall c, despace strings_Map unicode_IsSpace c = strip_spaces c.
  Hypothesis Hvok_on : forall s, dom s = true -> (NV s = None <-> M.s_vok S s = false).
  Hypothesis Hcmp_on : forall a b va vb, dom a = true -> dom b = true -> NV a = Some va -> NV b = Some vb ->
    V_Compare va vb = Z_of_cmp (M.s_vcmp S a b).
  Hypothesis Hrange_on : forall t v ver, dom t = true -> dom v = true -> NV v = Some ver ->
    M.s_rcontains S t v = option_map (fun r => VR_Contains r ver) (NVR t).
  Hypothesis Hsort : sort_spec sort_by.
  Hypothesis T : TotalPreorderOn (FactsC16.vok_text S) (M.s_vcmp S).

  Lemma Hvok_guard s : gNV s = None <-> M.s_vok S' s = false.
  Proof.
    unfold guard. change (M.s_vok S' s) with (dom s && M.s_vok S s).
    destruct (dom s) eqn:Ds; cbn [andb]; [apply Hvok_on; exact Ds | split; reflexivity].
  Qed.

  Lemma Hcmp_guard a b va vb : gNV a = Some va -> gNV b = Some vb ->
    V_Compare va vb = Z_of_cmp (M.s_vcmp S' a b).
  Proof.
    intros Ha Hb. apply guard_Some in Ha as [Da Ha]. apply guard_Some in Hb as [Db Hb].
    exact (Hcmp_on a b va vb Da Db Ha Hb).
  Qed.

  Lemma Hrange_guard t v ver : gNV v = Some ver ->
    M.s_rcontains S' t v = option_map (fun r => VR_Contains r ver) (gNVR t).
  Proof.
    intros Hv. apply guard_Some in Hv as [Dv Hv].
    change (M.s_rcontains S' t v) with (if dom t then M.s_rcontains S t v else None).
    unfold guard. destruct (dom t) eqn:Dt; [|reflexivity]. exact (Hrange_on t v ver Dt Dv Hv).
  Qed.

  Lemma T_restrict : TotalPreorderOn (FactsC16.vok_text S') (M.s_vcmp S').
  Proof.
    assert (Sub : forall t, FactsC16.vok_text S' t -> FactsC16.vok_text S t).
    { intros t H. unfold FactsC16.vok_text in *. change (M.s_vok S' t) with (dom t && M.s_vok S t) in H.
      apply andb_prop in H. exact (proj2 H). }
    constructor.
    - intros a Pa. apply (tpo_refl T). apply Sub; exact Pa.
    - intros a b Pa Pb. apply (tpo_anti T); apply Sub; assumption.
    - intros a b c x Pa Pb Pc. apply (tpo_trans T); apply Sub; assumption.
    - intros a b c Pa Pb Pc. apply (tpo_eq_l T); apply Sub; assumption.
  Qed.

  Theorem contains_tie_on (cs : list bytes) (version : bytes) (fuel : nat) :
    fits cs -> (length cs + 6 < fuel)%nat ->
    FactsC16.pairwise_nonequiv S cs ->
    dom version = true ->
    (forall c0, In c0 cs -> dom (snd (split_op (strip_spaces c0))) = true) ->
    (forall ncs st t, M.normalize S cs = Some ncs -> lookup E_Name D.style_table = Some st ->
                      In t (M.filter_some (map (M.native_text st) (M.group ncs))) -> dom t = true) ->
    contains_at NV NVR fuel cs version =
    Done (res_of_vres (M.contains_generic S (lookup E_Name D.style_table) cs version)).
  Proof.
    intros F L PW Dv HDcs HDt.
    pose proof (sort_spec_length sort_by Hsort) as SL.
    assert (HG1 : forall c0, In c0 cs -> dom (snd (split_op (despace strings_Map unicode_IsSpace c0))) = true).
    { intros c0 Hc. rewrite Hstrip. apply HDcs. exact Hc. }
    assert (PW' : FactsC16.pairwise_nonequiv S' cs) by exact PW.
    rewrite <- (contains_guard V VR V_zero E_Name NV NVR VR_Contains V_Compare sort_by strings_Map unicode_IsSpace
                  dom SL cs version fuel F L Dv HG1).
    - rewrite (contains_tie_closed V VR V_zero E_Name gNV gNVR VR_Contains V_Compare sort_by strings_Map
                 unicode_IsSpace S' Hstrip Hvok_guard Hcmp_guard Hrange_guard Hsort T_restrict cs version fuel F L PW').
      rewrite (contains_generic_restrict S dom (lookup E_Name D.style_table) cs version Dv HDcs).
      + reflexivity.
      + intros ncs st' t NM E Ht. exact (HDt ncs st' t NM E Ht).
    - (* the texts the Go function hands to the ecosystem are those of the model *)
      intros l vcs ivs NG EP EG.
      pose proof (normalize_go_len V V_zero NV V_Compare sort_by strings_Map unicode_IsSpace SL cs l NG) as LL.
      assert (Fl : fits l) by (unfold fits in *; lia).
      destruct (existsb (fun c => beq (strip_spaces c) $"*") cs) eqn:ST.
      + (* a star: parseConstraints fails on l *)
        exfalso. apply existsb_exists in ST. destruct ST as (c & Hc & Bc). apply beq_eq in Bc.
        destruct (normalize_go_star V V_zero NV V_Compare sort_by strings_Map unicode_IsSpace
                    Hstrip (fun A c0 l0 => proj1 (Hsort A c0 l0)) cs c Hc Bc) as [E|(l' & E & IN)];
          rewrite E in NG; [discriminate|]. injection NG as ->.
        rewrite parseConstraints_tie in EP by (try exact Fl; lia).
        rewrite (pcm_star_None l IN) in EP. discriminate EP.
      + assert (NS : no_star cs).
        { intros c Hc E. assert (X : existsb (fun c => beq (strip_spaces c) $"*") cs = true).
          { apply existsb_exists. exists c. split; [exact Hc|]. rewrite E. reflexivity. }
          congruence. }
        rewrite <- (normalize_go_guard V V_zero NV V_Compare sort_by strings_Map unicode_IsSpace dom cs HG1) in NG.
        rewrite (normalize_go_tie V V_zero gNV V_Compare sort_by strings_Map unicode_IsSpace S'
                   Hstrip Hvok_guard Hcmp_guard Hsort T_restrict cs NS PW') in NG.
        destruct (M.normalize S' cs) as [ncs|] eqn:NM'; [|discriminate]. cbn [option_map] in NG. injection NG as <-.
        pose proof NM' as NM. rewrite (normalize_restrict S dom cs HDcs) in NM.
        pose proof (normalize_len S cs ncs NM) as LN.
        rewrite (parseConstraints_normalize S cs ncs fuel NM) in EP by (unfold fits in *; lia).
        destruct ncs as [|x0 ncs0] eqn:ENCS; [discriminate|]. rewrite <- ENCS in *.
        injection EP as <-.
        rewrite (CoreGroupTie.groupConstraintsIntoIntervals_tie ncs fuel) in EG by (unfold fits in *; lia).
        injection EG as <-.
        split.
        * intros c Hc. apply in_map_iff in Hc. destruct Hc as (x & <- & Hx).
          pose proof (normalize_ok S' cs ncs NM') as OK. rewrite Forall_forall in OK. specialize (OK x Hx).
          change (M.s_vok S' (snd x)) with (dom (snd x) && M.s_vok S (snd x)) in OK.
          apply andb_prop in OK. exact (proj1 OK).
        * intros pr iv t LP Hiv Ht.
          pose proof (lookup_printers_style E_Name) as LPS. rewrite LP in LPS.
          destruct (lookup E_Name D.style_table) as [st|] eqn:LS; [|contradiction].
          apply (HDt ncs st t NM eq_refl).
          rewrite <- (printers_texts_normalize S cs ncs E_Name pr st NM LPS LS).
          apply in_flat_map. exists iv. split; assumption.
  Qed.
End ContainsTieOn.
Print Assumptions contains_tie_on.
Print Assumptions guard_in.
Print Assumptions guard_Some.
Print Assumptions run_g_norm_guard.
Print Assumptions normalize_go_guard.
Print Assumptions run_g_inner_guard.
Print Assumptions run_g_outer_guard.
Print Assumptions ranges_go_guard.
Print Assumptions run_g_ex_guard.
Print Assumptions final_go_guard.
Print Assumptions split_op_strip.
Print Assumptions nc_restrict.
Print Assumptions normalize_restrict.
Print Assumptions any_range_restrict.
Print Assumptions Hvok_guard.
Print Assumptions Hcmp_guard.
Print Assumptions Hrange_guard.
Print Assumptions T_restrict.
