(* Tie/Vers/CoreContainsOn2.v -- [contains_tie_on] of CoreContainsOn.v with TWO domains: [domV] for the texts
   handed to NewVersion (the probe, the version part of every constraint), [domR] for the native range texts
   handed to NewVersionRange.

   Why: for maven the model's comparison is a total preorder on the [tame] version texts only (the recorded
   order cycle among unknown qualifiers), so the version domain has to exclude the accepted texts that are not
   tame -- but the native range texts the model prints (`[1.0,2.0)`) are themselves accepted, non-tame VERSION
   texts, so one domain for both cannot work.

   The total preorder is asked on the restricted version layer only ([T]: on the texts of [domV] that the
   layer accepts), not on all accepted texts.

   The per-parser lemmas of CoreContainsOn.v ([normalize_go_guard], [ranges_go_guard], [final_go_guard]) each
   speak about one parser, so they are used as they are, at [domV] resp. [domR]; what is redone here is what
   combines the two: [contains_guard2], [contains_generic_restrict2], [contains_tie_on2]. *)
From Coq Require Import ZArith List Ascii Bool Lia Permutation Sorted.
From Verif.Base Require Import Bytes GoNum GoOps Imp ImpFacts ImpErr ImpCore BytesFacts Ord.
From Verif.Vers Require Model FactsStr FactsSort FactsC16 FactsC17.
From Verif.Gen Require VersDispatch.
From Verif.Gen.Code Require SpecVers.
From Verif.Gen.Parse Require SpecVers SpecVersCore.
From Verif.Tie Require Import Tactics.
From Verif.Tie.Loops Require Import Common.
From Verif.Tie.Parse Require Import Common.
From Verif.Tie.Vers Require Import Common Constraints Printers Texts CoreAlternating CoreGroup CoreGroupLen
     CoreNormalize CoreContains CoreContainsClosed CoreContainsOn.
From Verif.Tie.Vers Require CoreGroupTie.
Import ListNotations.
Local Open Scope Z_scope.

Module C := Verif.Gen.Parse.SpecVersCore.
Module G := Verif.Gen.Code.SpecVers.
Module P := Verif.Gen.Parse.SpecVers.
Module M := Verif.Vers.Model.
Module D := Verif.Gen.VersDispatch.

Definition restrict_ops2 (domV domR : bytes -> bool) (S : M.scheme_ops) : M.scheme_ops := {|
  M.s_vok := fun s => domV s && M.s_vok S s;
  M.s_vcmp := M.s_vcmp S;
  M.s_vshow := M.s_vshow S;
  M.s_rcontains := fun t v => if domR t then M.s_rcontains S t v else None |}.

(* ---------- the Go side ---------- *)

Section GoSide2.
  Variable V VR : Type.
  Variable V_zero : V.
  Variable E_Name : bytes.
  Variable NV : bytes -> option V.
  Variable NVR : bytes -> option VR.
  Variable VR_Contains : VR -> V -> bool.
  Variable V_Compare : V -> V -> Z.
  Variable sort_by : forall A : Type, (A -> A -> Z) -> list A -> list A.
  Variable strings_Map : (Z -> Z) -> bytes -> bytes.
  Variable unicode_IsSpace : Z -> bool.
  Variable domV domR : bytes -> bool.

  Notation gNV := (guard domV NV).
  Notation gNVR := (guard domR NVR).
  Notation despace' := (despace strings_Map unicode_IsSpace).
  Notation contains_at nv nvr :=
    (C.contains V VR V_zero E_Name nv nvr VR_Contains V_Compare sort_by strings_Map unicode_IsSpace).
  Notation normalize_go_at nv :=
    (normalize_go V V_zero nv V_Compare sort_by strings_Map unicode_IsSpace).

  Hypothesis sort_by_length : forall A (c : A -> A -> Z) l, length (sort_by A c l) = length l.

  Theorem contains_guard2 (cs : list bytes) (version : bytes) (fuel : nat) :
    fits cs -> (length cs + 6 < fuel)%nat ->
    domV version = true ->
    (forall c0, In c0 cs -> domV (snd (split_op (despace' c0))) = true) ->
    (forall l vcs ivs,
        normalize_go_at NV cs = Some l ->
        P.parseConstraints fuel l = Done (Some vcs) ->
        C.groupConstraintsIntoIntervals fuel vcs = Done (Some ivs) ->
        (forall c, In c vcs -> domV (G.constraint_version c) = true) /\
        (forall pr iv t, lookup E_Name printers = Some pr -> In iv ivs -> In t (pr iv) -> domR t = true)) ->
    contains_at gNV gNVR fuel cs version = contains_at NV NVR fuel cs version.
  Proof.
    intros F L Dv HG1 HG2.
    pose proof (guard_in domV NV version Dv) as GV.
    destruct (NV version) as [ver|] eqn:EV.
    2:{ rewrite (contains_version_None V VR V_zero E_Name gNV gNVR VR_Contains V_Compare sort_by strings_Map
                   unicode_IsSpace cs version fuel GV).
        rewrite (contains_version_None V VR V_zero E_Name NV NVR VR_Contains V_Compare sort_by strings_Map
                   unicode_IsSpace cs version fuel EV). reflexivity. }
    pose proof (normalizeConstraints_eq V V_zero NV V_Compare sort_by strings_Map unicode_IsSpace
                  sort_by_length cs fuel F ltac:(lia) ltac:(lia)) as EN.
    pose proof (normalizeConstraints_eq V V_zero gNV V_Compare sort_by strings_Map unicode_IsSpace
                  sort_by_length cs fuel F ltac:(lia) ltac:(lia)) as EN'.
    rewrite (normalize_go_guard V V_zero NV V_Compare sort_by strings_Map unicode_IsSpace domV cs HG1) in EN'.
    destruct (normalize_go_at NV cs) as [l|] eqn:NG.
    2:{ rewrite (contains_normalize_None _ _ _ _ _ _ _ _ _ _ _ cs version ver fuel GV EN').
        rewrite (contains_normalize_None _ _ _ _ _ _ _ _ _ _ _ cs version ver fuel EV EN). reflexivity. }
    pose proof (normalize_go_len V V_zero NV V_Compare sort_by strings_Map unicode_IsSpace
                  sort_by_length cs l NG) as LL.
    assert (Fl : fits l) by (unfold fits in *; lia).
    assert (BOTH_NONE : forall (ER : C.toRanges VR E_Name NVR fuel l = Done None)
                               (ER' : C.toRanges VR E_Name gNVR fuel l = Done None),
               contains_at gNV gNVR fuel cs version = contains_at NV NVR fuel cs version).
    { intros ER ER'.
      rewrite (contains_toRanges_None _ _ _ _ _ _ _ _ _ _ _ cs l version ver fuel GV EN' ER').
      rewrite (contains_toRanges_None _ _ _ _ _ _ _ _ _ _ _ cs l version ver fuel EV EN ER). reflexivity. }
    destruct (parseConstraints_finished l fuel Fl ltac:(lia)) as ([vcs|] & EP).
    2:{ apply BOTH_NONE; apply toRanges_parse_None; exact EP. }
    pose proof (parseConstraints_len l fuel vcs Fl ltac:(lia) EP) as LV.
    assert (Fv : fits vcs) by (unfold fits in *; lia).
    destruct (groupConstraintsIntoIntervals_len vcs fuel Fv ltac:(lia)) as ([ivs|] & EG & LI).
    2:{ apply BOTH_NONE; unfold C.toRanges; rewrite EP; cbn [bind]; rewrite EG; reflexivity. }
    specialize (LI ivs eq_refl).
    destruct (HG2 l vcs ivs eq_refl EP EG) as [HGa HGb].
    pose proof (toRanges_eq VR E_Name NVR l vcs ivs fuel EP EG) as ER.
    pose proof (toRanges_eq VR E_Name gNVR l vcs ivs fuel EP EG) as ER'.
    rewrite (ranges_go_guard VR E_Name NVR domR ivs HGb) in ER'.
    assert (X1 : fits ivs) by (unfold fits in *; lia).
    assert (X2 : (length ivs < fuel)%nat) by lia.
    assert (X3 : (1 < fuel)%nat) by lia.
    specialize (ER X1 X2 X3). specialize (ER' X1 X2 X3).
    destruct (ranges_go VR E_Name NVR ivs) as [ranges|] eqn:RG.
    2:{ apply BOTH_NONE; assumption. }
    assert (LR : (length ranges <= length l)%nat).
    { destruct (toRanges_no_panic VR E_Name NVR l fuel Fl ltac:(lia)) as (a & Ea & Qa).
      rewrite ER in Ea. injection Ea as <-. apply Qa. reflexivity. }
    rewrite (contains_eq V VR V_zero E_Name gNV gNVR VR_Contains V_Compare sort_by strings_Map unicode_IsSpace
               cs l version ver vcs ranges fuel GV EN' ER' EP) by (unfold fits in *; lia).
    rewrite (contains_eq V VR V_zero E_Name NV NVR VR_Contains V_Compare sort_by strings_Map unicode_IsSpace
               cs l version ver vcs ranges fuel EV EN ER EP) by (unfold fits in *; lia).
    rewrite (final_go_guard V VR NV VR_Contains V_Compare domV ver vcs ranges HGa). reflexivity.
  Qed.
End GoSide2.
Print Assumptions contains_guard2.

(* ---------- the model side ---------- *)

Section ModelSide2.
  Variable S : M.scheme_ops.
  Variable domV domR : bytes -> bool.

  Notation S' := (restrict_ops2 domV domR S).

  Lemma nc_restrict2 cs :
    (forall c0, In c0 cs -> domV (snd (split_op (strip_spaces c0))) = true) ->
    forall seen, M.normalize_collect S' seen cs = M.normalize_collect S seen cs.
  Proof.
    induction cs as [|c0 r IH]; intros H seen; [reflexivity|].
    assert (Hr : forall c, In c r -> domV (snd (split_op (strip_spaces c))) = true)
      by (intros c Hc; apply H; right; exact Hc).
    destruct (FactsC16.blank_dec c0) as [E0|E0].
    - rewrite !(FactsC16.nc_cons_blank _ _ _ _ E0). apply IH. exact Hr.
    - rewrite !(FactsC16.nc_cons_nonblank _ _ _ _ E0). cbv zeta.
      destruct (beq (strip_spaces c0) $"*"); [reflexivity|].
      destruct (M.strip_vop M.vers_ops (strip_spaces c0)) as [[o w]|] eqn:SV; [|reflexivity].
      pose proof (H c0 (or_introl eq_refl)) as Dw. rewrite (split_op_strip _ o w SV) in Dw.
      destruct w as [|y w']; [reflexivity|].
      rewrite !(IH Hr).
      change (M.s_vok S' (y :: w')) with (domV (y :: w') && M.s_vok S (y :: w')).
      rewrite Dw. reflexivity.
  Qed.

  Lemma normalize_restrict2 cs :
    (forall c0, In c0 cs -> domV (snd (split_op (strip_spaces c0))) = true) ->
    M.normalize S' cs = M.normalize S cs.
  Proof. intros H. unfold M.normalize. rewrite (nc_restrict2 cs H []). reflexivity. Qed.

  Lemma any_range_restrict2 texts v :
    (forall t, In t texts -> domR t = true) -> M.any_range S' texts v = M.any_range S texts v.
  Proof.
    induction texts as [|t r IH]; intros H; [reflexivity|]. cbn [M.any_range].
    change (M.s_rcontains S' t v) with (if domR t then M.s_rcontains S t v else None).
    rewrite (H t (or_introl eq_refl)). rewrite IH by (intros t' Ht; apply H; right; exact Ht). reflexivity.
  Qed.

  Theorem contains_generic_restrict2 (st : option M.native_style) (cs : list bytes) (v : bytes) :
    domV v = true ->
    (forall c0, In c0 cs -> domV (snd (split_op (strip_spaces c0))) = true) ->
    (forall ncs st' t, M.normalize S cs = Some ncs -> st = Some st' ->
                       In t (M.filter_some (map (M.native_text st') (M.group ncs))) -> domR t = true) ->
    M.contains_generic S' st cs v = M.contains_generic S st cs v.
  Proof.
    intros Dv HDcs HDt. unfold M.contains_generic.
    change (M.s_vok S' v) with (domV v && M.s_vok S v). rewrite Dv. cbn [andb].
    rewrite (normalize_restrict2 cs HDcs).
    destruct (negb (M.s_vok S v)); [reflexivity|].
    destruct (M.normalize S cs) as [ncs|] eqn:NM; [|reflexivity].
    destruct ncs as [|c0 ncs']; [reflexivity|].
    cbv zeta.
    destruct st as [st'|].
    - rewrite (any_range_restrict2 _ v (fun t Ht => HDt _ st' t eq_refl eq_refl Ht)). reflexivity.
    - destruct (M.group (c0 :: ncs')); reflexivity.
  Qed.
End ModelSide2.
Print Assumptions contains_generic_restrict2.

(* ---------- the tie on two domains ---------- *)

Section ContainsTieOn2.
  Variable V VR : Type.
  Variable V_zero : V.
  Variable E_Name : bytes.
  Variable NV : bytes -> option V.
  Variable NVR : bytes -> option VR.
  Variable VR_Contains : VR -> V -> bool.
  Variable V_Compare : V -> V -> Z.
  Variable sort_by : forall A : Type, (A -> A -> Z) -> list A -> list A.
  Variable strings_Map : (Z -> Z) -> bytes -> bytes.
  Variable unicode_IsSpace : Z -> bool.
  Variable S : M.scheme_ops.
  Variable domV domR : bytes -> bool.

  Notation gNV := (guard domV NV).
  Notation gNVR := (guard domR NVR).
  Notation S' := (restrict_ops2 domV domR S).
  Notation contains_at nv nvr :=
    (C.contains V VR V_zero E_Name nv nvr VR_Contains V_Compare sort_by strings_Map unicode_IsSpace).
  Notation normalize_go_at nv :=
    (normalize_go V V_zero nv V_Compare sort_by strings_Map unicode_IsSpace).

  Hypothesis Hstrip : forall c, despace strings_Map unicode_IsSpace c = strip_spaces c.
  Hypothesis Hvok_on : forall s, domV s = true -> (NV s = None <-> M.s_vok S s = false).
  Hypothesis Hcmp_on : forall a b va vb, domV a = true -> domV b = true -> NV a = Some va -> NV b = Some vb ->
    V_Compare va vb = Z_of_cmp (M.s_vcmp S a b).
  Hypothesis Hrange_on : forall t v ver, domR t = true -> domV v = true -> NV v = Some ver ->
    M.s_rcontains S t v = option_map (fun r => VR_Contains r ver) (NVR t).
  Hypothesis Hsort : sort_spec sort_by.
  (* the total preorder on the accepted texts of the version domain only *)
  Hypothesis T : TotalPreorderOn (FactsC16.vok_text S') (M.s_vcmp S').

  Lemma Hvok_guard2 s : gNV s = None <-> M.s_vok S' s = false.
  Proof.
    unfold guard. change (M.s_vok S' s) with (domV s && M.s_vok S s).
    destruct (domV s) eqn:Ds; cbn [andb]; [apply Hvok_on; exact Ds | split; reflexivity].
  Qed.

  Lemma Hcmp_guard2 a b va vb : gNV a = Some va -> gNV b = Some vb ->
    V_Compare va vb = Z_of_cmp (M.s_vcmp S' a b).
  Proof.
    intros Ha Hb. apply guard_Some in Ha as [Da Ha]. apply guard_Some in Hb as [Db Hb].
    exact (Hcmp_on a b va vb Da Db Ha Hb).
  Qed.

  Lemma Hrange_guard2 t v ver : gNV v = Some ver ->
    M.s_rcontains S' t v = option_map (fun r => VR_Contains r ver) (gNVR t).
  Proof.
    intros Hv. apply guard_Some in Hv as [Dv Hv].
    change (M.s_rcontains S' t v) with (if domR t then M.s_rcontains S t v else None).
    unfold guard. destruct (domR t) eqn:Dt; [|reflexivity]. exact (Hrange_on t v ver Dt Dv Hv).
  Qed.

  Theorem contains_tie_on2 (cs : list bytes) (version : bytes) (fuel : nat) :
    fits cs -> (length cs + 6 < fuel)%nat ->
    FactsC16.pairwise_nonequiv S cs ->
    domV version = true ->
    (forall c0, In c0 cs -> domV (snd (split_op (strip_spaces c0))) = true) ->
    (forall ncs st t, M.normalize S cs = Some ncs -> lookup E_Name D.style_table = Some st ->
                      In t (M.filter_some (map (M.native_text st) (M.group ncs))) -> domR t = true) ->
    contains_at NV NVR fuel cs version =
    Done (res_of_vres (M.contains_generic S (lookup E_Name D.style_table) cs version)).
  Proof.
    intros F L PW Dv HDcs HDt.
    pose proof (sort_spec_length sort_by Hsort) as SL.
    assert (HG1 : forall c0, In c0 cs -> domV (snd (split_op (despace strings_Map unicode_IsSpace c0))) = true).
    { intros c0 Hc. rewrite Hstrip. apply HDcs. exact Hc. }
    assert (PW' : FactsC16.pairwise_nonequiv S' cs) by exact PW.
    rewrite <- (contains_guard2 V VR V_zero E_Name NV NVR VR_Contains V_Compare sort_by strings_Map unicode_IsSpace
                  domV domR SL cs version fuel F L Dv HG1).
    - rewrite (contains_tie_closed V VR V_zero E_Name gNV gNVR VR_Contains V_Compare sort_by strings_Map
                 unicode_IsSpace S' Hstrip Hvok_guard2 Hcmp_guard2 Hrange_guard2 Hsort T cs version fuel F L PW').
      rewrite (contains_generic_restrict2 S domV domR (lookup E_Name D.style_table) cs version Dv HDcs).
      + reflexivity.
      + intros ncs st' t NM E Ht. exact (HDt ncs st' t NM E Ht).
    - intros l vcs ivs NG EP EG.
      pose proof (normalize_go_len V V_zero NV V_Compare sort_by strings_Map unicode_IsSpace SL cs l NG) as LL.
      assert (Fl : fits l) by (unfold fits in *; lia).
      destruct (existsb (fun c => beq (strip_spaces c) $"*") cs) eqn:ST.
      + exfalso. apply existsb_exists in ST. destruct ST as (c & Hc & Bc). apply beq_eq in Bc.
        destruct (normalize_go_star V V_zero NV V_Compare sort_by strings_Map unicode_IsSpace
                    Hstrip (fun A c0 l0 => proj1 (Hsort A c0 l0)) cs c Hc Bc) as [E|(l' & E & IN)];
          rewrite E in NG; [discriminate|]. injection NG as ->.
        rewrite parseConstraints_tie in EP by (try exact Fl; lia).
        rewrite (pcm_star_None l IN) in EP. discriminate EP.
      + assert (NS : no_star cs).
        { intros c Hc E. assert (X : existsb (fun c => beq (strip_spaces c) $"*") cs = true).
          { apply existsb_exists. exists c. split; [exact Hc|]. rewrite E. reflexivity. }
          congruence. }
        rewrite <- (normalize_go_guard V V_zero NV V_Compare sort_by strings_Map unicode_IsSpace domV cs HG1) in NG.
        rewrite (normalize_go_tie V V_zero gNV V_Compare sort_by strings_Map unicode_IsSpace S'
                   Hstrip Hvok_guard2 Hcmp_guard2 Hsort T cs NS PW') in NG.
        destruct (M.normalize S' cs) as [ncs|] eqn:NM'; [|discriminate]. cbn [option_map] in NG. injection NG as <-.
        pose proof NM' as NM. rewrite (normalize_restrict2 S domV domR cs HDcs) in NM.
        pose proof (normalize_len S cs ncs NM) as LN.
        rewrite (parseConstraints_normalize S cs ncs fuel NM) in EP by (unfold fits in *; lia).
        destruct ncs as [|x0 ncs0] eqn:ENCS; [discriminate|]. rewrite <- ENCS in *.
        injection EP as <-.
        rewrite (CoreGroupTie.groupConstraintsIntoIntervals_tie ncs fuel) in EG by (unfold fits in *; lia).
        injection EG as <-.
        split.
        * intros c Hc. apply in_map_iff in Hc. destruct Hc as (x & <- & Hx).
          pose proof (normalize_ok S' cs ncs NM') as OK. rewrite Forall_forall in OK. specialize (OK x Hx).
          change (M.s_vok S' (snd x)) with (domV (snd x) && M.s_vok S (snd x)) in OK.
          apply andb_prop in OK. exact (proj1 OK).
        * intros pr iv t LP Hiv Ht.
          pose proof (lookup_printers_style E_Name) as LPS. rewrite LP in LPS.
          destruct (lookup E_Name D.style_table) as [st|] eqn:LS; [|contradiction].
          apply (HDt ncs st t NM eq_refl).
          rewrite <- (printers_texts_normalize S cs ncs E_Name pr st NM LPS LS).
          apply in_flat_map. exists iv. split; assumption.
  Qed.
End ContainsTieOn2.
Print Assumptions contains_tie_on2.
Print Assumptions nc_restrict2.
Print Assumptions normalize_restrict2.
Print Assumptions any_range_restrict2.
Print Assumptions Hvok_guard2.
Print Assumptions Hcmp_guard2.
Print Assumptions Hrange_guard2.
