(* Tie/Vers/CoreDispatch.v — the dispatch of pkg/spec/vers (Gen/Parse/SpecVersCore.v, Section
   Instances): the eleven `<scheme>Contains` wrappers and `Contains`.

   The Section below declares the variables of the generated `Section Instances` again, in the same
   order (the generated definitions are applied to them explicitly).
   [<eco>Contains_is_contains]  each of the ten plain wrappers IS the generic [contains] at the bundle of
                           its ecosystem (pointwise equal: no panic / termination / the tie of a wrapper
                           are those of [contains] at that bundle);
   [pypiContains_tie]      the pypi wrapper: NewVersion, the PEP 440 gate of the model ([pypi_is_prerelease]
                           of String(), the pre-release markers of the constraint texts) around [contains]
                           at the pypi bundle; [pypiContains_model]: it is the model's [contains_pypi] when
                           [contains] at the pypi bundle is the model's [contains_generic];
   [Contains_routing]      THE ROUTING THEOREM: for fits s, length s < fuel,
                             Contains fuel s v = match valid s with
                               | None => error
                               | Some (name, cl) => if <only a star> then true
                                   else match dispatch name with None => error | Some f => f fuel cl v end
                           where [dispatch] is the association list  scheme name -> [contains] at the bundle
                           of that scheme's ecosystem (alpine, cargo, deb -> debian, gem, maven, npm, nuget,
                           pypi -> the pypi wrapper, rpm, generic -> semver, golang); any other name is an
                           error ([dispatch_other]); [dispatch_matches_scheme_table]: the association is the
                           model's generated [scheme_table] (name -> ecosystem);
   [Contains_tie]          hence Contains = the model's [vers_contains scheme_table style_table], given the
                           tie of the ONE selected function on the constraint texts at hand;
   [Contains_no_panic]     no panic / termination of Contains given that of the selected function. *)
From Coq Require Import ZArith NArith List Ascii Bool Lia.
From Verif.Base Require Import Bytes GoNum GoOps Imp ImpFacts ImpErr ImpCore BytesFacts.
From Verif.Vers Require Model FactsStr FactsC17.
From Verif.Gen Require VersDispatch.
From Verif.Gen.Code Require SpecVers.
From Verif.Gen.Parse Require SpecVers SpecVersCore.
From Verif.Tie.Loops Require Import Common.
From Verif.Tie.Parse Require Import Common.
From Verif.Tie.Vers Require Import Common.
From Verif.Tie.Vers Require Valid Pypi.
Import ListNotations.
Local Open Scope Z_scope.

Module P := Verif.Gen.Parse.SpecVers.
Module C := Verif.Gen.Parse.SpecVersCore.
Module M := Verif.Vers.Model.
Module D := Verif.Gen.VersDispatch.

Local Opaque wrap64.

(* a function value of the dispatch table *)
Definition fn : Type := nat -> list bytes -> bytes -> res (option bool).

(* Go's (bool, error) of the model's three-valued result *)
Definition conc_vres (r : M.vres) : option bool :=
  match r with M.VTrue => Some true | M.VFalse => Some false | M.VErr => None end.

Lemma bind_Done_r {A} (r : res A) : bind r (fun x => Done x) = r.
Proof. destruct r; reflexivity. Qed.

(* strings.Split(s, c)[0] is the text before the first c *)
Lemma split_c_hd c (s : bytes) : exists rest, split_c c s = fst (split2_c c s) :: rest.
Proof.
  unfold split2_c. induction s as [|x s [rest IH]]; cbn [split_c cut has_prefix].
  - exists []. reflexivity.
  - destruct (ceqb c x) eqn:E; cbn [andb].
    + eexists. reflexivity.
    + rewrite IH. exists rest. destruct (cut [c] s) as [[a b]|]; reflexivity.
Qed.

Lemma split2_fst_length c (s : bytes) : (length (fst (split2_c c s)) <= length s)%nat.
Proof.
  destruct (split2_c c s) as [a [b|]] eqn:E; cbn [fst].
  - apply FactsStr.split2_some in E. destruct E as [-> _]. rewrite app_length. lia.
  - unfold split2_c in E. destruct (cut [c] s) as [[a' b']|]; [discriminate|]. injection E as <-. lia.
Qed.

(* the loop of Contains over the constraint texts: (cursor, hasStar, hasNonEmptyNonStar) *)
Definition g_flags (c : bytes) (st : Z * bool * bool) : option bool + (Z * bool * bool) :=
  let '(k, hs, ho) := st in
  let '(hs', ho') :=
    if beq (trim_space c) $"*" then (true, ho)
    else if negb (beq (trim_space c) []) then (hs, true)
    else (hs, ho) in
  inr (wrap64 (k + 1), hs', ho').

Lemma run_flags l : forall k hs ho, exists k',
  run g_flags l (k, hs, ho) = inr (k', hs || existsb M.is_star l, ho || existsb Valid.others l).
Proof.
  induction l as [|c l IH]; intros k hs ho; cbn [run existsb].
  - exists k. rewrite !orb_false_r. reflexivity.
  - unfold g_flags at 1. unfold Valid.others at 1.
    change (M.is_star c) with (beq (trim_space c) $"*").
    change (M.is_blank c) with (match trim_space c with [] => true | _ => false end).
    destruct (beq (trim_space c) $"*") eqn:E.
    + destruct (IH (wrap64 (k + 1)) true ho) as [k' Hk]. exists k'. rewrite Hk.
      cbn [negb andb orb]. rewrite orb_true_r. reflexivity.
    + destruct (trim_space c) as [|x t] eqn:T; cbn [beq negb andb orb].
      * destruct (IH (wrap64 (k + 1)) hs ho) as [k' Hk]. exists k'. rewrite Hk. reflexivity.
      * destruct (IH (wrap64 (k + 1)) hs true) as [k' Hk]. exists k'. rewrite Hk.
        cbn [orb]. rewrite orb_true_r. reflexivity.
Qed.

Section Instances.

  Variable alpine_Version : Type.
  Variable cargo_Version : Type.
  Variable debian_Version : Type.
  Variable gem_Version : Type.
  Variable golang_Version : Type.
  Variable maven_Version : Type.
  Variable npm_Version : Type.
  Variable nuget_Version : Type.
  Variable rpm_Version : Type.
  Variable semver_Version : Type.
  Variable alpine_VersionRange : Type.
  Variable cargo_VersionRange : Type.
  Variable debian_VersionRange : Type.
  Variable gem_VersionRange : Type.
  Variable golang_VersionRange : Type.
  Variable maven_VersionRange : Type.
  Variable npm_VersionRange : Type.
  Variable nuget_VersionRange : Type.
  Variable pypi_VersionRange : Type.
  Variable rpm_VersionRange : Type.
  Variable semver_VersionRange : Type.
  Variable pypi_Version : Type.
  Variable alpine_Version_zero : alpine_Version.
  Variable cargo_Version_zero : cargo_Version.
  Variable debian_Version_zero : debian_Version.
  Variable gem_Version_zero : gem_Version.
  Variable golang_Version_zero : golang_Version.
  Variable maven_Version_zero : maven_Version.
  Variable npm_Version_zero : npm_Version.
  Variable nuget_Version_zero : nuget_Version.
  Variable pypi_Version_zero : pypi_Version.
  Variable rpm_Version_zero : rpm_Version.
  Variable semver_Version_zero : semver_Version.
  Variable alpine_Ecosystem_Name : bytes.
  Variable alpine_Ecosystem_NewVersion : bytes -> option alpine_Version.
  Variable alpine_Ecosystem_NewVersionRange : bytes -> option alpine_VersionRange.
  Variable alpine_VersionRange_Contains : alpine_VersionRange -> alpine_Version -> bool.
  Variable alpine_Version_Compare : alpine_Version -> alpine_Version -> Z.
  Variable cargo_Ecosystem_Name : bytes.
  Variable cargo_Ecosystem_NewVersion : bytes -> option cargo_Version.
  Variable cargo_Ecosystem_NewVersionRange : bytes -> option cargo_VersionRange.
  Variable cargo_VersionRange_Contains : cargo_VersionRange -> cargo_Version -> bool.
  Variable cargo_Version_Compare : cargo_Version -> cargo_Version -> Z.
  Variable debian_Ecosystem_Name : bytes.
  Variable debian_Ecosystem_NewVersion : bytes -> option debian_Version.
  Variable debian_Ecosystem_NewVersionRange : bytes -> option debian_VersionRange.
  Variable debian_VersionRange_Contains : debian_VersionRange -> debian_Version -> bool.
  Variable debian_Version_Compare : debian_Version -> debian_Version -> Z.
  Variable gem_Ecosystem_Name : bytes.
  Variable gem_Ecosystem_NewVersion : bytes -> option gem_Version.
  Variable gem_Ecosystem_NewVersionRange : bytes -> option gem_VersionRange.
  Variable gem_VersionRange_Contains : gem_VersionRange -> gem_Version -> bool.
  Variable gem_Version_Compare : gem_Version -> gem_Version -> Z.
  Variable golang_Ecosystem_Name : bytes.
  Variable golang_Ecosystem_NewVersion : bytes -> option golang_Version.
  Variable golang_Ecosystem_NewVersionRange : bytes -> option golang_VersionRange.
  Variable golang_VersionRange_Contains : golang_VersionRange -> golang_Version -> bool.
  Variable golang_Version_Compare : golang_Version -> golang_Version -> Z.
  Variable maven_Ecosystem_Name : bytes.
  Variable maven_Ecosystem_NewVersion : bytes -> option maven_Version.
  Variable maven_Ecosystem_NewVersionRange : bytes -> option maven_VersionRange.
  Variable maven_VersionRange_Contains : maven_VersionRange -> maven_Version -> bool.
  Variable maven_Version_Compare : maven_Version -> maven_Version -> Z.
  Variable npm_Ecosystem_Name : bytes.
  Variable npm_Ecosystem_NewVersion : bytes -> option npm_Version.
  Variable npm_Ecosystem_NewVersionRange : bytes -> option npm_VersionRange.
  Variable npm_VersionRange_Contains : npm_VersionRange -> npm_Version -> bool.
  Variable npm_Version_Compare : npm_Version -> npm_Version -> Z.
  Variable nuget_Ecosystem_Name : bytes.
  Variable nuget_Ecosystem_NewVersion : bytes -> option nuget_Version.
  Variable nuget_Ecosystem_NewVersionRange : bytes -> option nuget_VersionRange.
  Variable nuget_VersionRange_Contains : nuget_VersionRange -> nuget_Version -> bool.
  Variable nuget_Version_Compare : nuget_Version -> nuget_Version -> Z.
  Variable pypi_Ecosystem_Name : bytes.
  Variable pypi_Ecosystem_NewVersionRange : bytes -> option pypi_VersionRange.
  Variable pypi_VersionRange_Contains : pypi_VersionRange -> pypi_Version -> bool.
  Variable pypi_Version_Compare : pypi_Version -> pypi_Version -> Z.
  Variable rpm_Ecosystem_Name : bytes.
  Variable rpm_Ecosystem_NewVersion : bytes -> option rpm_Version.
  Variable rpm_Ecosystem_NewVersionRange : bytes -> option rpm_VersionRange.
  Variable rpm_VersionRange_Contains : rpm_VersionRange -> rpm_Version -> bool.
  Variable rpm_Version_Compare : rpm_Version -> rpm_Version -> Z.
  Variable semver_Ecosystem_Name : bytes.
  Variable semver_Ecosystem_NewVersion : bytes -> option semver_Version.
  Variable semver_Ecosystem_NewVersionRange : bytes -> option semver_VersionRange.
  Variable semver_VersionRange_Contains : semver_VersionRange -> semver_Version -> bool.
  Variable semver_Version_Compare : semver_Version -> semver_Version -> Z.
  Variable pypi_Ecosystem_NewVersion : bytes -> option pypi_Version.
  Variable pypi_Version_String : pypi_Version -> bytes.
  Variable sort_by : forall A : Type, (A -> A -> Z) -> list A -> list A.
  Variable strings_Map : (Z -> Z) -> bytes -> bytes.
  Variable strings_ReplaceAll : bytes -> bytes -> bytes -> bytes.
  Variable unicode_IsSpace : Z -> bool.

  (* the generic [contains] at the bundle of one ecosystem *)
  Definition contains_alpine : fn :=
    C.contains alpine_Version alpine_VersionRange alpine_Version_zero alpine_Ecosystem_Name alpine_Ecosystem_NewVersion alpine_Ecosystem_NewVersionRange alpine_VersionRange_Contains alpine_Version_Compare sort_by strings_Map unicode_IsSpace.
  Definition contains_cargo : fn :=
    C.contains cargo_Version cargo_VersionRange cargo_Version_zero cargo_Ecosystem_Name cargo_Ecosystem_NewVersion cargo_Ecosystem_NewVersionRange cargo_VersionRange_Contains cargo_Version_Compare sort_by strings_Map unicode_IsSpace.
  Definition contains_debian : fn :=
    C.contains debian_Version debian_VersionRange debian_Version_zero debian_Ecosystem_Name debian_Ecosystem_NewVersion debian_Ecosystem_NewVersionRange debian_VersionRange_Contains debian_Version_Compare sort_by strings_Map unicode_IsSpace.
  Definition contains_gem : fn :=
    C.contains gem_Version gem_VersionRange gem_Version_zero gem_Ecosystem_Name gem_Ecosystem_NewVersion gem_Ecosystem_NewVersionRange gem_VersionRange_Contains gem_Version_Compare sort_by strings_Map unicode_IsSpace.
  Definition contains_golang : fn :=
    C.contains golang_Version golang_VersionRange golang_Version_zero golang_Ecosystem_Name golang_Ecosystem_NewVersion golang_Ecosystem_NewVersionRange golang_VersionRange_Contains golang_Version_Compare sort_by strings_Map unicode_IsSpace.
  Definition contains_maven : fn :=
    C.contains maven_Version maven_VersionRange maven_Version_zero maven_Ecosystem_Name maven_Ecosystem_NewVersion maven_Ecosystem_NewVersionRange maven_VersionRange_Contains maven_Version_Compare sort_by strings_Map unicode_IsSpace.
  Definition contains_npm : fn :=
    C.contains npm_Version npm_VersionRange npm_Version_zero npm_Ecosystem_Name npm_Ecosystem_NewVersion npm_Ecosystem_NewVersionRange npm_VersionRange_Contains npm_Version_Compare sort_by strings_Map unicode_IsSpace.
  Definition contains_nuget : fn :=
    C.contains nuget_Version nuget_VersionRange nuget_Version_zero nuget_Ecosystem_Name nuget_Ecosystem_NewVersion nuget_Ecosystem_NewVersionRange nuget_VersionRange_Contains nuget_Version_Compare sort_by strings_Map unicode_IsSpace.
  Definition contains_rpm : fn :=
    C.contains rpm_Version rpm_VersionRange rpm_Version_zero rpm_Ecosystem_Name rpm_Ecosystem_NewVersion rpm_Ecosystem_NewVersionRange rpm_VersionRange_Contains rpm_Version_Compare sort_by strings_Map unicode_IsSpace.
  Definition contains_semver : fn :=
    C.contains semver_Version semver_VersionRange semver_Version_zero semver_Ecosystem_Name semver_Ecosystem_NewVersion semver_Ecosystem_NewVersionRange semver_VersionRange_Contains semver_Version_Compare sort_by strings_Map unicode_IsSpace.
  Definition contains_pypi : fn :=
    C.contains pypi_Version pypi_VersionRange pypi_Version_zero pypi_Ecosystem_Name pypi_Ecosystem_NewVersion pypi_Ecosystem_NewVersionRange pypi_VersionRange_Contains pypi_Version_Compare sort_by strings_Map unicode_IsSpace.

  (* the generated wrappers and Contains at these variables *)
  Definition w_alpine : fn :=
    C.alpineContains alpine_Version alpine_VersionRange alpine_Version_zero alpine_Ecosystem_Name alpine_Ecosystem_NewVersion alpine_Ecosystem_NewVersionRange alpine_VersionRange_Contains alpine_Version_Compare sort_by strings_Map unicode_IsSpace.
  Definition w_cargo : fn :=
    C.cargoContains cargo_Version cargo_VersionRange cargo_Version_zero cargo_Ecosystem_Name cargo_Ecosystem_NewVersion cargo_Ecosystem_NewVersionRange cargo_VersionRange_Contains cargo_Version_Compare sort_by strings_Map unicode_IsSpace.
  Definition w_debian : fn :=
    C.debianContains debian_Version debian_VersionRange debian_Version_zero debian_Ecosystem_Name debian_Ecosystem_NewVersion debian_Ecosystem_NewVersionRange debian_VersionRange_Contains debian_Version_Compare sort_by strings_Map unicode_IsSpace.
  Definition w_gem : fn :=
    C.gemContains gem_Version gem_VersionRange gem_Version_zero gem_Ecosystem_Name gem_Ecosystem_NewVersion gem_Ecosystem_NewVersionRange gem_VersionRange_Contains gem_Version_Compare sort_by strings_Map unicode_IsSpace.
  Definition w_golang : fn :=
    C.golangContains golang_Version golang_VersionRange golang_Version_zero golang_Ecosystem_Name golang_Ecosystem_NewVersion golang_Ecosystem_NewVersionRange golang_VersionRange_Contains golang_Version_Compare sort_by strings_Map unicode_IsSpace.
  Definition w_maven : fn :=
    C.mavenContains maven_Version maven_VersionRange maven_Version_zero maven_Ecosystem_Name maven_Ecosystem_NewVersion maven_Ecosystem_NewVersionRange maven_VersionRange_Contains maven_Version_Compare sort_by strings_Map unicode_IsSpace.
  Definition w_npm : fn :=
    C.npmContains npm_Version npm_VersionRange npm_Version_zero npm_Ecosystem_Name npm_Ecosystem_NewVersion npm_Ecosystem_NewVersionRange npm_VersionRange_Contains npm_Version_Compare sort_by strings_Map unicode_IsSpace.
  Definition w_nuget : fn :=
    C.nugetContains nuget_Version nuget_VersionRange nuget_Version_zero nuget_Ecosystem_Name nuget_Ecosystem_NewVersion nuget_Ecosystem_NewVersionRange nuget_VersionRange_Contains nuget_Version_Compare sort_by strings_Map unicode_IsSpace.
  Definition w_rpm : fn :=
    C.rpmContains rpm_Version rpm_VersionRange rpm_Version_zero rpm_Ecosystem_Name rpm_Ecosystem_NewVersion rpm_Ecosystem_NewVersionRange rpm_VersionRange_Contains rpm_Version_Compare sort_by strings_Map unicode_IsSpace.
  Definition w_semver : fn :=
    C.semverContains semver_Version semver_VersionRange semver_Version_zero semver_Ecosystem_Name semver_Ecosystem_NewVersion semver_Ecosystem_NewVersionRange semver_VersionRange_Contains semver_Version_Compare sort_by strings_Map unicode_IsSpace.
  Definition w_pypi : fn :=
    C.pypiContains pypi_VersionRange pypi_Version pypi_Version_zero pypi_Ecosystem_Name pypi_Ecosystem_NewVersionRange pypi_VersionRange_Contains pypi_Version_Compare pypi_Ecosystem_NewVersion pypi_Version_String sort_by strings_Map strings_ReplaceAll unicode_IsSpace.
  Definition Contains_g : nat -> bytes -> bytes -> res (option bool) :=
    C.Contains alpine_Version cargo_Version debian_Version gem_Version golang_Version maven_Version npm_Version nuget_Version rpm_Version semver_Version alpine_VersionRange cargo_VersionRange debian_VersionRange gem_VersionRange golang_VersionRange maven_VersionRange npm_VersionRange nuget_VersionRange pypi_VersionRange rpm_VersionRange semver_VersionRange pypi_Version alpine_Version_zero cargo_Version_zero debian_Version_zero gem_Version_zero golang_Version_zero maven_Version_zero npm_Version_zero nuget_Version_zero pypi_Version_zero rpm_Version_zero semver_Version_zero alpine_Ecosystem_Name alpine_Ecosystem_NewVersion alpine_Ecosystem_NewVersionRange alpine_VersionRange_Contains alpine_Version_Compare cargo_Ecosystem_Name cargo_Ecosystem_NewVersion cargo_Ecosystem_NewVersionRange cargo_VersionRange_Contains cargo_Version_Compare debian_Ecosystem_Name debian_Ecosystem_NewVersion debian_Ecosystem_NewVersionRange debian_VersionRange_Contains debian_Version_Compare gem_Ecosystem_Name gem_Ecosystem_NewVersion gem_Ecosystem_NewVersionRange gem_VersionRange_Contains gem_Version_Compare golang_Ecosystem_Name golang_Ecosystem_NewVersion golang_Ecosystem_NewVersionRange golang_VersionRange_Contains golang_Version_Compare maven_Ecosystem_Name maven_Ecosystem_NewVersion maven_Ecosystem_NewVersionRange maven_VersionRange_Contains maven_Version_Compare npm_Ecosystem_Name npm_Ecosystem_NewVersion npm_Ecosystem_NewVersionRange npm_VersionRange_Contains npm_Version_Compare nuget_Ecosystem_Name nuget_Ecosystem_NewVersion nuget_Ecosystem_NewVersionRange nuget_VersionRange_Contains nuget_Version_Compare pypi_Ecosystem_Name pypi_Ecosystem_NewVersionRange pypi_VersionRange_Contains pypi_Version_Compare rpm_Ecosystem_Name rpm_Ecosystem_NewVersion rpm_Ecosystem_NewVersionRange rpm_VersionRange_Contains rpm_Version_Compare semver_Ecosystem_Name semver_Ecosystem_NewVersion semver_Ecosystem_NewVersionRange semver_VersionRange_Contains semver_Version_Compare pypi_Ecosystem_NewVersion pypi_Version_String sort_by strings_Map strings_ReplaceAll unicode_IsSpace.

  (* ---------- the ten plain wrappers ---------- *)

  Theorem alpineContains_is_contains fuel cs v : w_alpine fuel cs v = contains_alpine fuel cs v.
  Proof. apply bind_Done_r. Qed.
  Theorem cargoContains_is_contains fuel cs v : w_cargo fuel cs v = contains_cargo fuel cs v.
  Proof. apply bind_Done_r. Qed.
  Theorem debianContains_is_contains fuel cs v : w_debian fuel cs v = contains_debian fuel cs v.
  Proof. apply bind_Done_r. Qed.
  Theorem gemContains_is_contains fuel cs v : w_gem fuel cs v = contains_gem fuel cs v.
  Proof. apply bind_Done_r. Qed.
  Theorem golangContains_is_contains fuel cs v : w_golang fuel cs v = contains_golang fuel cs v.
  Proof. apply bind_Done_r. Qed.
  Theorem mavenContains_is_contains fuel cs v : w_maven fuel cs v = contains_maven fuel cs v.
  Proof. apply bind_Done_r. Qed.
  Theorem npmContains_is_contains fuel cs v : w_npm fuel cs v = contains_npm fuel cs v.
  Proof. apply bind_Done_r. Qed.
  Theorem nugetContains_is_contains fuel cs v : w_nuget fuel cs v = contains_nuget fuel cs v.
  Proof. apply bind_Done_r. Qed.
  Theorem rpmContains_is_contains fuel cs v : w_rpm fuel cs v = contains_rpm fuel cs v.
  Proof. apply bind_Done_r. Qed.
  Theorem semverContains_is_contains fuel cs v : w_semver fuel cs v = contains_semver fuel cs v.
  Proof. apply bind_Done_r. Qed.

  (* ---------- the pypi wrapper ---------- *)

  (* the model's gate on the constraint texts *)
  Definition names_pre (cs : list bytes) : bool :=
    existsb (fun c => M.contains_pre_markers (filter (fun x => negb (ceqb x " "%char)) c)) cs.

  Definition pypi_gate (shown : bytes) (cs : list bytes) (r1 : option bool) : option bool :=
    match r1 with
    | None => None
    | Some res => if M.pypi_is_prerelease shown && negb (names_pre cs) then Some false else Some res
    end.

  Section PypiWrapper.
    (* String() returns a Go string; strings.ReplaceAll(c, " ", "") drops the spaces *)
    Hypothesis string_fits : forall pv, fits (pypi_Version_String pv).
    Hypothesis replace_fits : forall c a b, fits c -> fits (strings_ReplaceAll c a b).
    Hypothesis replace_spec : forall c,
      strings_ReplaceAll c ($" ") [] = filter (fun x => negb (ceqb x " "%char)) c.

    Theorem isPyPIPrerelease_tie (pv : pypi_Version) (fuel : nat) :
      (7 < fuel)%nat ->
      C.isPyPIPrerelease pypi_Version pypi_Version_String fuel pv =
      Done (M.pypi_is_prerelease (pypi_Version_String pv)).
    Proof.
      intros Hf. unfold C.isPyPIPrerelease, M.pypi_is_prerelease. cbv zeta.
      change (chr 43) with "+"%char.
      destruct (split_c_hd "+"%char (pypi_Version_String pv)) as [rest E]. rewrite E.
      erewrite idx_known by reflexivity. cbn [bind].
      rewrite Pypi.containsPrereleaseMarkers_tie; [reflexivity | | exact Hf].
      pose proof (string_fits pv) as F. pose proof (split2_fst_length "+"%char (pypi_Version_String pv)) as L.
      unfold fits in *. unfold bytes in *. lia.
    Qed.

    Theorem pypiContains_tie (cs : list bytes) (v : bytes) (fuel : nat) :
      fits cs -> Forall fits cs -> (length cs + 7 < fuel)%nat ->
      w_pypi fuel cs v =
      match pypi_Ecosystem_NewVersion v with
      | None => Done None
      | Some pv => bind (contains_pypi fuel cs v)
                     (fun r1 => Done (pypi_gate (pypi_Version_String pv) cs r1))
      end.
    Proof.
      intros Hfit Hall Hf. unfold w_pypi, C.pypiContains.
      destruct (pypi_Ecosystem_NewVersion v) as [pv|]; [|reflexivity].
      rewrite isPyPIPrerelease_tie by lia. cbn [bind].
      fold contains_pypi. destruct (contains_pypi fuel cs v) as [r1| |]; cbn [bind]; try reflexivity.
      destruct r1 as [res|]; [|reflexivity]. cbn [pypi_gate].
      destruct (M.pypi_is_prerelease (pypi_Version_String pv)); cbn [andb bind].
      - rewrite (Pypi.constraintsIncludePrerelease_tie strings_ReplaceAll replace_fits replace_spec cs fuel Hfit Hall Hf).
        cbn [bind]. fold (names_pre cs). destruct (names_pre cs); reflexivity.
      - reflexivity.
    Qed.

    (* when [contains] at the pypi bundle is the model's contains_generic, the wrapper is contains_pypi *)
    Theorem pypiContains_model (S : M.scheme_ops) (st : option M.native_style)
            (cs : list bytes) (v : bytes) (fuel : nat) :
      fits cs -> Forall fits cs -> (length cs + 7 < fuel)%nat ->
      (pypi_Ecosystem_NewVersion v = None <-> M.s_vok S v = false) ->
      (forall pv, pypi_Ecosystem_NewVersion v = Some pv -> pypi_Version_String pv = M.s_vshow S v) ->
      contains_pypi fuel cs v = Done (conc_vres (M.contains_generic S st cs v)) ->
      w_pypi fuel cs v = Done (conc_vres (M.contains_pypi S st cs v)).
    Proof.
      intros Hfit Hall Hf Hok Hshow Hgen. rewrite (pypiContains_tie cs v fuel Hfit Hall Hf).
      unfold M.contains_pypi.
      destruct (pypi_Ecosystem_NewVersion v) as [pv|] eqn:NV.
      - destruct (M.s_vok S v) eqn:OK; [|destruct Hok as [_ Hok]; specialize (Hok eq_refl); discriminate].
        cbn [negb]. rewrite Hgen. cbn [bind]. rewrite (Hshow pv eq_refl).
        fold (names_pre cs).
        destruct (M.contains_generic S st cs v); cbn [conc_vres pypi_gate];
          try reflexivity; destruct (M.pypi_is_prerelease _ && negb (names_pre cs)); reflexivity.
      - destruct Hok as [Hok _]. rewrite (Hok eq_refl). reflexivity.
    Qed.
  End PypiWrapper.

  (* ---------- Contains: the routing ---------- *)

  (* scheme name -> the function Contains calls: [contains] at the bundle of that scheme's ecosystem *)
  Definition dispatch_table : list (bytes * fn) := [
    ($"alpine", contains_alpine);
    ($"cargo", contains_cargo);
    ($"deb", contains_debian);
    ($"gem", contains_gem);
    ($"maven", contains_maven);
    ($"npm", contains_npm);
    ($"nuget", contains_nuget);
    ($"pypi", w_pypi);              (* the pypi wrapper: contains_pypi behind the PEP 440 gate *)
    ($"rpm", contains_rpm);
    ($"generic", contains_semver);
    ($"golang", contains_golang)
  ].
  Definition dispatch (name : bytes) : option fn := lookup name dispatch_table.

  (* the same functions by ECOSYSTEM name (e.Name() of the value the wrapper constructs) *)
  Definition eco_table : list (bytes * fn) := [
    ($"alpine", contains_alpine);
    ($"cargo", contains_cargo);
    ($"debian", contains_debian);
    ($"gem", contains_gem);
    ($"maven", contains_maven);
    ($"npm", contains_npm);
    ($"nuget", contains_nuget);
    ($"pypi", w_pypi);
    ($"rpm", contains_rpm);
    ($"semver", contains_semver);
    ($"golang", contains_golang)
  ].

  Ltac by_name name :=
    repeat match goal with
    | |- context [if beq name ?k then _ else _] =>
        let B := fresh "B" in destruct (beq name k) eqn:B; [apply beq_eq in B; subst name|]
    end.

  (* the routing matches the model's generated scheme table: scheme name -> ecosystem -> its bundle *)
  Theorem dispatch_matches_scheme_table (name : bytes) :
    dispatch name = match M.find_scheme name D.scheme_table with
                    | Some sc => lookup (M.sc_eco sc) eco_table
                    | None => None
                    end.
  Proof.
    unfold dispatch, dispatch_table, D.scheme_table. cbn [lookup M.find_scheme M.sc_name M.sc_eco].
    by_name name; reflexivity.
  Qed.

  Theorem dispatch_known :
    dispatch $"alpine" = Some contains_alpine /\ dispatch $"cargo" = Some contains_cargo /\
    dispatch $"deb" = Some contains_debian /\ dispatch $"gem" = Some contains_gem /\
    dispatch $"maven" = Some contains_maven /\ dispatch $"npm" = Some contains_npm /\
    dispatch $"nuget" = Some contains_nuget /\ dispatch $"pypi" = Some w_pypi /\
    dispatch $"rpm" = Some contains_rpm /\ dispatch $"generic" = Some contains_semver /\
    dispatch $"golang" = Some contains_golang.
  Proof. repeat split; reflexivity. Qed.

  (* any other name: no function *)
  Theorem dispatch_other (name : bytes) :
    ~ In name [$"alpine"; $"cargo"; $"deb"; $"gem"; $"maven"; $"npm"; $"nuget"; $"pypi"; $"rpm";
               $"generic"; $"golang"] -> dispatch name = None.
  Proof.
    intros H. unfold dispatch, dispatch_table. cbn [lookup].
    by_name name; try reflexivity; exfalso; apply H; cbn [In]; tauto.
  Qed.

  (* `containsForEcosystem, ok := schemeToContains[s]; if !ok {error}; return containsForEcosystem(..)` *)
  Lemma table_call (name : bytes) (fuel : nat) (cl : list bytes) (v : bytes) :
    (let '(f, ok) := map_get2 (nil_func2 (R := option bool))
                       (lookup name [($"alpine", w_alpine); ($"cargo", w_cargo); ($"deb", w_debian);
                                     ($"gem", w_gem); ($"maven", w_maven); ($"npm", w_npm);
                                     ($"nuget", w_nuget); ($"pypi", w_pypi); ($"rpm", w_rpm);
                                     ($"generic", w_semver); ($"golang", w_golang)]) in
     if negb ok then Done None else bind (f fuel cl v) (fun r3 => Done r3)) =
    match dispatch name with None => Done None | Some f => f fuel cl v end.
  Proof.
    unfold dispatch, dispatch_table. cbn [lookup].
    by_name name; cbn [map_get2 negb]; rewrite ?bind_Done_r; try reflexivity; apply bind_Done_r.
  Qed.

  Definition only_star (cl : list bytes) : bool :=
    existsb M.is_star cl && negb (existsb Valid.others cl).

  Theorem Contains_routing (s v : bytes) (fuel : nat) :
    fits s -> (length s < fuel)%nat ->
    Contains_g fuel s v =
    match M.valid s with
    | None => Done None
    | Some (name, cl) =>
        if only_star cl then Done (Some true)
        else match dispatch name with
             | None => Done None
             | Some f => f fuel cl v
             end
    end.
  Proof.
    intros Hfit Hf. unfold Contains_g, C.Contains.
    rewrite (Valid.valid_tie s fuel Hfit Hf). cbn [bind].
    rewrite (Valid.scheme_tie s fuel Hfit Hf).
    destruct (M.valid s) as [[name cl]|] eqn:V; cbn [Valid.abs_valid option_map fst bind]; [|reflexivity].
    unfold M.valid in V.
    destruct (has_prefix $"vers:" s) eqn:HP; cbn [negb] in V; [|discriminate].
    pose proof (has_prefix_len _ _ HP) as L5. cbn [length list_ascii_of_string] in L5.
    rewrite slice_from_Done by (unfold bytes in *; lia). cbn [bind].
    change (Z.to_nat 5) with 5%nat. change (chr 47) with "/"%char. change (chr 124) with "|"%char.
    destruct (negb (forallb M.printable s)); [discriminate|].
    unfold splitn2_c.
    destruct (split2_c "/"%char (skipn 5 s)) as [e [ctext|]] eqn:SP; [|discriminate].
    erewrite idx_known by reflexivity. cbn [bind].
    destruct e as [|e0 e']; [discriminate|].
    destruct (negb (forallb M.scheme_char (e0 :: e'))); [discriminate|].
    destruct ctext as [|c0 ct]; [discriminate|].
    cbv zeta in V.
    destruct (Nat.ltb _ _); [discriminate|].
    destruct (andb _ _); [discriminate|].
    assert (E1 : name = e0 :: e') by congruence.
    assert (E2 : cl = split_c "|"%char (c0 :: ct)) by congruence.
    clear V. subst name. subst cl.
    set (ctext := c0 :: ct) in *. set (cl := split_c "|"%char ctext).
    assert (LS : (length (e0 :: e') + 1 + length ctext + 5 = length s)%nat).
    { unfold split2_c in SP. destruct (cut ["/"%char] (skipn 5 s)) as [[a b]|] eqn:Cu; [|discriminate].
      injection SP as <- <-. apply cut1_length in Cu. rewrite skipn_length in Cu.
      unfold bytes in *. lia. }
    assert (LC : (length cl <= S (length ctext))%nat) by apply split_c_len_le.
    assert (LC1 : (1 <= length cl)%nat).
    { unfold cl, ctext. cbn [split_c]. destruct (ceqb "|"%char c0); cbn [length]; [lia|].
      destruct (split_c "|"%char ct); cbn [length]; lia. }
    cbn [length] in LS. clearbody cl. cbv zeta.
    match goal with |- context [while fuel ?b ?s0] =>
      rewrite (fold_loop cl b (fun st => fst (fst st)) g_flags) end.
    2:{ intros [[k hs] ho] c B N. cbn [fst] in B, N.
        destruct (Z.ltb_spec k (Z.of_nat (length cl))) as [_|X]; [|lia].
        rewrite (idx_nth_error _ _ _ B N). cbn [bind]. unfold g_flags.
        destruct (beq (trim_space c) _); [reflexivity|].
        destruct (negb _); reflexivity. }
    2:{ intros [[k hs] ho] K. cbn [fst] in K. rewrite K, Z.ltb_irrefl. reflexivity. }
    2:{ intros c [[k hs] ho] [[k' hs'] ho'] B G. cbn [fst] in *. unfold g_flags in G.
        destruct (if beq (trim_space c) _ then _ else _) as [a b]. injection G as <- _ _.
        apply (wrap64_succ k (Z.of_nat (length cl))); [lia|].
        unfold fits in Hfit. unfold bytes in *. lia. }
    2:{ reflexivity. }
    2:{ unfold bytes in *. lia. }
    destruct (run_flags cl 0 false false) as [k' R]. rewrite R. cbn [bind orb].
    fold (only_star cl). destruct (only_star cl); [reflexivity|].
    replace (Z.of_nat (length cl) =? 0) with false by (symmetry; apply Z.eqb_neq; lia).
    exact (table_call (e0 :: e') fuel cl v).
  Qed.

  (* ---------- Contains against the model ---------- *)

  Definition model_of (ops : bytes -> M.scheme_ops) (sc : M.scheme) (cl : list bytes) (v : bytes) : M.vres :=
    let S := ops (M.sc_eco sc) in
    let st := lookup (M.sc_eco sc) D.style_table in
    if M.sc_pypi_gate sc then M.contains_pypi S st cl v else M.contains_generic S st cl v.

  Lemma dispatch_find (name : bytes) :
    match dispatch name, M.find_scheme name D.scheme_table with
    | Some _, Some _ => True
    | None, None => True
    | _, _ => False
    end.
  Proof.
    unfold dispatch, dispatch_table, D.scheme_table. cbn [lookup M.find_scheme M.sc_name].
    by_name name; exact I.
  Qed.

  Theorem Contains_tie (ops : bytes -> M.scheme_ops) (s v : bytes) (fuel : nat) :
    fits s -> (length s < fuel)%nat ->
    (forall name cl sc f,
        M.valid s = Some (name, cl) -> only_star cl = false ->
        M.find_scheme name D.scheme_table = Some sc -> dispatch name = Some f ->
        f fuel cl v = Done (conc_vres (model_of ops sc cl v))) ->
    Contains_g fuel s v = Done (conc_vres (M.vers_contains D.scheme_table D.style_table ops s v)).
  Proof.
    intros Hfit Hf H. rewrite (Contains_routing s v fuel Hfit Hf). unfold M.vers_contains.
    destruct (M.valid s) as [[name cl]|]; [|reflexivity].
    change (existsb M.is_star cl && negb (existsb (fun c => negb (M.is_star c) && negb (M.is_blank c)) cl))
      with (only_star cl).
    destruct (only_star cl) eqn:OS; [reflexivity|].
    pose proof (dispatch_find name) as DF.
    destruct (dispatch name) as [f|] eqn:Dn, (M.find_scheme name D.scheme_table) as [sc|] eqn:Fs;
      try contradiction; [|reflexivity].
    exact (H name cl sc f eq_refl OS Fs Dn).
  Qed.

  (* the same with one hypothesis per ecosystem: [contains] at its bundle is the model's
     contains_generic of the ecosystem the scheme table names (for pypi: the wrapper is contains_pypi) *)
  Definition tied (f : fn) (m : M.scheme_ops -> option M.native_style -> list bytes -> bytes -> M.vres)
             (eco : bytes) (ops : bytes -> M.scheme_ops) (s v : bytes) (fuel : nat) : Prop :=
    forall name cl, M.valid s = Some (name, cl) -> only_star cl = false ->
      f fuel cl v = Done (conc_vres (m (ops eco) (lookup eco D.style_table) cl v)).

  Theorem Contains_tie_bundles (ops : bytes -> M.scheme_ops) (s v : bytes) (fuel : nat) :
    fits s -> (length s < fuel)%nat ->
    tied contains_alpine M.contains_generic $"alpine" ops s v fuel ->
    tied contains_cargo M.contains_generic $"cargo" ops s v fuel ->
    tied contains_debian M.contains_generic $"debian" ops s v fuel ->
    tied contains_gem M.contains_generic $"gem" ops s v fuel ->
    tied contains_maven M.contains_generic $"maven" ops s v fuel ->
    tied contains_npm M.contains_generic $"npm" ops s v fuel ->
    tied contains_nuget M.contains_generic $"nuget" ops s v fuel ->
    tied w_pypi M.contains_pypi $"pypi" ops s v fuel ->
    tied contains_rpm M.contains_generic $"rpm" ops s v fuel ->
    tied contains_semver M.contains_generic $"semver" ops s v fuel ->
    tied contains_golang M.contains_generic $"golang" ops s v fuel ->
    Contains_g fuel s v = Done (conc_vres (M.vers_contains D.scheme_table D.style_table ops s v)).
  Proof.
    intros Hfit Hf H1 H2 H3 H4 H5 H6 H7 H8 H9 H10 H11. apply (Contains_tie ops s v fuel Hfit Hf).
    intros name cl sc f V OS Fs Dn. unfold dispatch, dispatch_table in Dn. cbn [lookup] in Dn.
    repeat match type of Dn with
    | context [if beq name ?k then _ else _] =>
        let B := fresh "B" in destruct (beq name k) eqn:B;
        [apply beq_eq in B; subst name; injection Dn as <-; vm_compute in Fs; injection Fs as <-;
         first [exact (H1 _ _ V OS) | exact (H2 _ _ V OS) | exact (H3 _ _ V OS) | exact (H4 _ _ V OS)
               | exact (H5 _ _ V OS) | exact (H6 _ _ V OS) | exact (H7 _ _ V OS) | exact (H8 _ _ V OS)
               | exact (H9 _ _ V OS) | exact (H10 _ _ V OS) | exact (H11 _ _ V OS)]|]
    end.
    discriminate.
  Qed.

  Theorem Contains_no_panic (s v : bytes) (fuel : nat) :
    fits s -> (length s < fuel)%nat ->
    (forall name cl f, M.valid s = Some (name, cl) -> only_star cl = false ->
                       dispatch name = Some f -> finished (f fuel cl v)) ->
    finished (Contains_g fuel s v).
  Proof.
    intros Hfit Hf H. rewrite (Contains_routing s v fuel Hfit Hf).
    destruct (M.valid s) as [[name cl]|]; [|apply finished_Done].
    destruct (only_star cl) eqn:OS; [apply finished_Done|].
    destruct (dispatch name) as [f|] eqn:Dn; [|apply finished_Done].
    exact (H name cl f eq_refl OS Dn).
  Qed.

End Instances.

Print Assumptions alpineContains_is_contains.
Print Assumptions cargoContains_is_contains.
Print Assumptions debianContains_is_contains.
Print Assumptions gemContains_is_contains.
Print Assumptions golangContains_is_contains.
Print Assumptions mavenContains_is_contains.
Print Assumptions npmContains_is_contains.
Print Assumptions nugetContains_is_contains.
Print Assumptions rpmContains_is_contains.
Print Assumptions semverContains_is_contains.
Print Assumptions isPyPIPrerelease_tie.
Print Assumptions pypiContains_tie.
Print Assumptions pypiContains_model.
Print Assumptions dispatch_matches_scheme_table.
Print Assumptions dispatch_known.
Print Assumptions dispatch_other.
Print Assumptions Contains_routing.
Print Assumptions Contains_tie.
Print Assumptions Contains_tie_bundles.
Print Assumptions Contains_no_panic.
