(* Tie/Vers/CoreGroup.v — pilot for the fourth translation pass (Gen/Parse/SpecVersCore.v):
   vers.groupConstraintsIntoIntervals never panics and terminates with linear fuel.

   The function has six loops (over the constraints, the exact matches, the paired bounds, the lower
   and the upper bounds), calls alternatingIntervals, indexes `lowerBounds[len(lowerBounds)-1]`,
   `upperBounds[0]`, `upperBounds[i]` for i < len(lowerBounds), and dereferences the nil-able pointers
   mostRestrictiveLower / mostRestrictiveUpper.  [groupConstraintsIntoIntervals_no_panic]: with
   [fits cs] and fuel above [length cs] the result is [Done _]: no index is out of range (the paired
   loop is guarded by the equality of the two lengths), no nil pointer is dereferenced (every [deref]
   is under a test of the same pointer), and ONE fuel above the number of constraints serves all six
   loops, because the four sublists are no longer than the input. *)
From Coq Require Import ZArith List Bool Lia.
From Verif.Base Require Import Bytes GoNum Imp ImpFacts ImpErr ImpCore.
From Verif.Gen.Code Require Import SpecVers.
From Verif.Gen.Parse Require SpecVersCore.
From Verif.Tie.Loops Require Import Common.
From Verif.Tie.Parse Require Import Common.
From Verif.Tie.Vers Require Import CoreAlternating.
Import ListNotations.
Local Open Scope Z_scope.

(* the loop rule with the facts about the exit state handed to the continuation *)
Lemma finished_while_bind_Q {St R B : Type} (fuel : nat) (body : St -> res (step St R)) (s : St)
      (k : exit St R -> res B) (Inv : St -> Prop) (m : St -> nat) (Qb : St -> Prop) (Qr : R -> Prop) :
  (forall s, Inv s -> step_ok body Inv m Qb Qr s) ->
  Inv s -> (m s < fuel)%nat ->
  (forall x, match x with Fell s' => Qb s' | Returned r => Qr r end -> finished (k x)) ->
  finished (bind (while fuel body s) k).
Proof.
  intros Hb Hi Hf Hk.
  destruct (while_rule_ex body Inv m Qb Qr Hb fuel s Hi Hf) as (x & E & Q).
  rewrite E. cbn [bind]. apply Hk. exact Q.
Qed.

(* `for _, x := range xs { acc = append(acc, f x) }`: the loop state is (cursor, accumulator) *)
Ltac range_loop xs :=
  match goal with
  | |- finished (bind (while ?f ?b ?s) ?k) =>
      apply (finished_while_bind f b s k
               (fun st => let '(i, _) := st in 0 <= i <= Z.of_nat (length xs))
               (fun st => let '(i, _) := st in Z.to_nat (Z.of_nat (length xs) - i)))
  end.

Ltac range_step xs :=
  let i := fresh "i" in let acc := fresh "acc" in let Hi := fresh "Hi" in
  let Lt := fresh "Lt" in let x := fresh "x" in let E := fresh "E" in
  intros [i acc] Hi; unfold step_ok;
  destruct (Z.ltb_spec i (Z.of_nat (length xs))) as [Lt|Ge]; [|exact I];
  destruct (idx_lt_Done xs i) as (x & E & _); [lia|]; rewrite ?E; cbn [bind];
  split; rewrite (wrap64_succ_lt i (Z.of_nat (length xs))) by lia; lia.

Theorem groupConstraintsIntoIntervals_no_panic (cs : list constraint) (fuel : nat) :
  fits cs -> (length cs < fuel)%nat -> finished (G.groupConstraintsIntoIntervals fuel cs).
Proof.
  intros F L. pose proof F as F'. unfold fits in F. unfold G.groupConstraintsIntoIntervals.
  (* loop 1: the four sublists are no longer than the part of the input already read *)
  match goal with
  | |- finished (bind (while ?f ?b ?s) ?k) =>
      apply (finished_while_bind_Q f b s k
               (fun st => let '(i, em, ex, lo, up) := st in
                          0 <= i <= Z.of_nat (length cs) /\
                          Z.of_nat (length em) <= i /\ Z.of_nat (length lo) <= i /\ Z.of_nat (length up) <= i)
               (fun st => let '(i, _, _, _, _) := st in Z.to_nat (Z.of_nat (length cs) - i))
               (fun st => let '(_, em, _, lo, up) := st in
                          (length em <= length cs)%nat /\ (length lo <= length cs)%nat /\ (length up <= length cs)%nat)
               (fun _ => True))
  end.
  - intros [[[[i em] ex] lo] up] (Hi & Hem & Hlo & Hup). unfold step_ok.
    destruct (Z.ltb_spec i (Z.of_nat (length cs))) as [Lt|Ge]; [|lia].
    destruct (idx_lt_Done cs i) as (x & E & _); [lia|]. rewrite E. cbn [bind]. cbv zeta.
    repeat core_split; rewrite ?app_length; cbn [length];
      rewrite (wrap64_succ_lt i (Z.of_nat (length cs))) by lia; lia.
  - cbn [length]. lia.
  - lia.
  - intros [[[[[i em] ex] lo] up]|r] Q; [|apply finished_Done].
    destruct Q as (Qem & Qlo & Qup).
    (* loop 2: the exact matches *)
    cbv zeta. range_loop em; [range_step em | lia | lia |].
    intros [[k2 ivs]|r]; [|apply finished_Done].
    destruct (alternatingIntervals_no_panic cs fuel F' L) as (r2 & E2). rewrite E2. cbn [bind].
    destruct r2 as [alt ok]. destruct ok; [apply finished_Done|].
    apply finished_bind; [|intros; apply finished_Done].
    destruct (_ || _) eqn:Any; [|apply finished_Done].
    apply finished_bind; [|intros; apply finished_Done].
    destruct (shouldMergeConstraints lo up).
    + (* merge: the most restrictive bounds; every deref is under a test of the same pointer *)
      destruct (Z.ltb_spec 0 (Z.of_nat (length lo))) as [Llo|Llo].
      * rewrite (wrap64_small (Z.of_nat (length lo) - 1)) by lia.
        destruct (idx_lt_Done lo (Z.of_nat (length lo) - 1)) as (a & Ea & _); [lia|]. rewrite Ea. cbn [bind].
        destruct (Z.ltb_spec 0 (Z.of_nat (length up))) as [Lup|Lup].
        -- destruct (idx_lt_Done up 0) as (b & Eb & _); [lia|]. rewrite Eb.
           cbn [bind is_some deref andb]. apply finished_Done.
        -- cbn [bind is_some deref andb]. apply finished_Done.
      * cbn [bind].
        destruct (Z.ltb_spec 0 (Z.of_nat (length up))) as [Lup|Lup].
        -- destruct (idx_lt_Done up 0) as (b & Eb & _); [lia|]. rewrite Eb.
           cbn [bind is_some deref andb]. apply finished_Done.
        -- cbn [bind is_some deref andb]. apply finished_Done.
    + apply finished_bind; [|intros; apply finished_Done].
      destruct (_ && _) eqn:Pair.
      * (* paired bounds: upperBounds[i] is in range because the lengths are equal *)
        apply andb_prop in Pair. destruct Pair as [Eq _]. apply Z.eqb_eq in Eq.
        match goal with
        | |- finished (bind (while ?f ?b ?s) ?k) =>
            apply (finished_while_bind f b s k
                     (fun st => let '(i, _) := st in 0 <= i <= Z.of_nat (length lo))
                     (fun st => let '(i, _) := st in Z.to_nat (Z.of_nat (length lo) - i)))
        end.
        -- intros [j acc] Hj. unfold step_ok.
           destruct (Z.ltb_spec j (Z.of_nat (length lo))) as [Lt|Ge]; [|exact I].
           destruct (idx_lt_Done lo j) as (a & Ea & _); [lia|].
           destruct (idx_lt_Done up j) as (b & Eb & _); [lia|].
           rewrite Ea, Eb. cbn [bind].
           split; rewrite (wrap64_succ_lt j (Z.of_nat (length lo))) by lia; lia.
        -- lia.
        -- lia.
        -- intros x. destruct (fell x (0, ivs)). apply finished_Done.
      * (* one interval per bound *)
        cbv zeta. range_loop lo; [range_step lo | lia | lia |].
        intros x. destruct (fell x (0, ivs)) as [k3 ivs3].
        range_loop up; [range_step up | lia | lia |].
        intros y. destruct (fell y (0, ivs3)). apply finished_Done.
Qed.

Corollary groupConstraintsIntoIntervals_total (cs : list constraint) :
  fits cs -> exists r, G.groupConstraintsIntoIntervals (S (length cs)) cs = Done r.
Proof. intros F. apply groupConstraintsIntoIntervals_no_panic; [exact F | lia]. Qed.

Print Assumptions groupConstraintsIntoIntervals_no_panic.
