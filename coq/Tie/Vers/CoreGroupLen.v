(* Tie/Vers/CoreGroupLen.v -- the number of intervals that vers.alternatingIntervals and
   vers.groupConstraintsIntoIntervals return is bounded by the number of constraints (needed for the
   fuel of the loop of toRanges over the intervals, hence for "contains never panics").  The proofs
   follow CoreAlternating.v / CoreGroup.v with a postcondition carried through the binds. *)
From Coq Require Import ZArith List Bool Lia.
From Verif.Base Require Import Bytes GoNum Imp ImpFacts ImpErr ImpCore BytesFacts.
From Verif.Gen.Code Require Import SpecVers.
From Verif.Gen.Parse Require SpecVersCore.
From Verif.Tie.Loops Require Import Common.
From Verif.Tie.Parse Require Import Common.
From Verif.Tie.Vers Require Import CoreAlternating CoreGroup.
Import ListNotations.
Local Open Scope Z_scope.

(* the computation finishes with a value that satisfies Q *)
Definition ensures {A : Type} (Q : A -> Prop) (r : res A) : Prop := exists a, r = Done a /\ Q a.

Lemma ensures_Done {A} (Q : A -> Prop) a : Q a -> ensures Q (Done a).
Proof. intros H. exists a. split; [reflexivity|exact H]. Qed.

Lemma ensures_bind {A B} (Q1 : A -> Prop) (Q2 : B -> Prop) (r : res A) (k : A -> res B) :
  ensures Q1 r -> (forall a, Q1 a -> ensures Q2 (k a)) -> ensures Q2 (bind r k).
Proof. intros (a & -> & H1) H. cbn [bind]. apply H. exact H1. Qed.

Lemma ensures_finished {A} (Q : A -> Prop) r : ensures Q r -> finished r.
Proof. intros (a & E & _). exists a. exact E. Qed.

Lemma ensures_weaken {A} (Q1 Q2 : A -> Prop) r : (forall a, Q1 a -> Q2 a) -> ensures Q1 r -> ensures Q2 r.
Proof. intros H (a & E & H1). exists a. split; [exact E|apply H; exact H1]. Qed.

Lemma ensures_while_bind {St R B : Type} (Q : B -> Prop) (fuel : nat) (body : St -> res (step St R)) (s : St)
      (k : exit St R -> res B) (Inv : St -> Prop) (m : St -> nat) (Qb : St -> Prop) (Qr : R -> Prop) :
  (forall s, Inv s -> step_ok body Inv m Qb Qr s) ->
  Inv s -> (m s < fuel)%nat ->
  (forall x, match x with Fell s' => Qb s' | Returned r => Qr r end -> ensures Q (k x)) ->
  ensures Q (bind (while fuel body s) k).
Proof.
  intros Hb Hi Hf Hk.
  destruct (while_rule_ex body Inv m Qb Qr Hb fuel s Hi Hf) as (x & E & Qx).
  rewrite E. cbn [bind]. apply Hk. exact Qx.
Qed.

Definition opt1 {A} (p : option A) : Z := match p with Some _ => 1 | None => 0 end.

(* the constraints that are bounds / exact matches: what the two functions count *)
Definition cb (c : constraint) : bool :=
  orb (orb (beq (constraint_operator c) $">=") (beq (constraint_operator c) $">"))
      (orb (beq (constraint_operator c) $"<=") (beq (constraint_operator c) $"<")).
Definition ce (c : constraint) : bool := beq (constraint_operator c) $"=".

Definition b2z (b : bool) : Z := if b then 1 else 0.
Definition cnt (f : constraint -> bool) (l : list constraint) : Z := Z.of_nat (length (filter f l)).

Lemma cnt_snoc f l x : cnt f (l ++ [x]) = cnt f l + b2z (f x).
Proof. unfold cnt. rewrite filter_app, app_length. cbn [filter]. destruct (f x); cbn [length b2z]; lia. Qed.

Lemma firstn_snoc {A} (l : list A) n x : nth_error l n = Some x -> firstn (S n) l = firstn n l ++ [x].
Proof.
  revert l. induction n as [|n IH]; intros [|y l] H; cbn in H; try discriminate.
  - injection H as ->. reflexivity.
  - change (firstn (S (S n)) (y :: l)) with (y :: firstn (S n) l). rewrite (IH l H). reflexivity.
Qed.

Lemma cnt_disjoint l : cnt ce l + cnt cb l <= Z.of_nat (length l).
Proof.
  unfold cnt. induction l as [|x l IH]; cbn [filter length]; [lia|].
  destruct (ce x) eqn:E.
  - unfold ce in E. apply beq_eq in E.
    replace (cb x) with false by (unfold cb; rewrite E; reflexivity). cbn [length]. lia.
  - destruct (cb x); cbn [length]; lia.
Qed.

Lemma cnt_step f (cs : list constraint) i x :
  0 <= i -> nth_error cs (Z.to_nat i) = Some x ->
  cnt f (firstn (Z.to_nat (i + 1)) cs) = cnt f (firstn (Z.to_nat i) cs) + b2z (f x).
Proof.
  intros Hi N. replace (Z.to_nat (i + 1)) with (S (Z.to_nat i)) by lia.
  rewrite (firstn_snoc cs _ x N). apply cnt_snoc.
Qed.

Ltac split_ops x :=
  repeat match goal with
  | |- context [beq (constraint_operator x) ?t] => destruct (beq (constraint_operator x) t)
  end.

Theorem alternatingIntervals_len (cs : list constraint) (fuel : nat) :
  fits cs -> (length cs < fuel)%nat ->
  ensures (fun r => Z.of_nat (length (fst r)) <= cnt cb cs) (G.alternatingIntervals fuel cs).
Proof.
  intros F L. unfold fits in F. unfold G.alternatingIntervals.
  match goal with
  | |- ensures ?Q (bind (while ?f ?b ?s) ?k) =>
      apply (ensures_while_bind Q f b s k
               (fun st => let '(i, _, _, pl, ivs) := st in
                          0 <= i <= Z.of_nat (length cs) /\ Z.of_nat (length ivs) + opt1 pl <= cnt cb (firstn (Z.to_nat i) cs))
               (fun st => let '(i, _, _, _, _) := st in Z.to_nat (Z.of_nat (length cs) - i))
               (fun st => let '(_, _, _, pl, ivs) := st in Z.of_nat (length ivs) + opt1 pl <= cnt cb cs)
               (fun r => Z.of_nat (length (fst r)) <= cnt cb cs))
  end.
  - intros [[[[i sb] pwl] pl] ivs] [Hi Hl]. unfold step_ok.
    destruct (Z.ltb_spec i (Z.of_nat (length cs))) as [Lt|Ge].
    2:{ replace (firstn (Z.to_nat i) cs) with cs in Hl by (symmetry; apply firstn_all2; lia). exact Hl. }
    destruct (idx_lt_Done cs i) as (x & E & N); [lia|]. rewrite E. cbn [bind].
    assert (W : wrap64 (i + 1) = i + 1) by (apply (wrap64_succ_lt i (Z.of_nat (length cs))); lia).
    pose proof (cnt_step cb cs i x ltac:(lia) N) as CS. unfold cb at 3 in CS.
    assert (NN : 0 <= cnt cb cs) by (unfold cnt; lia).
    assert (NP : 0 <= opt1 pl) by (destruct pl; cbn [opt1]; lia).
    revert CS.
    split_ops x; cbn [orb andb negb Bool.eqb b2z]; intros CS;
      repeat core_split; cbn [bind deref is_some is_none step_ok fst length]; rewrite ?W, ?CS, ?app_length;
      cbn [length opt1] in *; try lia.
  - cbn [length opt1 firstn Z.to_nat]. unfold cnt. cbn. lia.
  - lia.
  - intros [[[[[i sb] pwl] pl] ivs]|r] Hq; [|apply ensures_Done; exact Hq].
    destruct pl; cbn [bind deref is_some opt1] in *; apply ensures_Done; cbn [fst]; rewrite ?app_length; cbn [length]; lia.
Qed.
Print Assumptions alternatingIntervals_len.

(* `for _, x := range xs { acc = append(acc, f x) }` from an accumulator of length <= b: the
   accumulator ends no longer than b + len(xs) *)
Ltac range_loop_len Q xs b :=
  match goal with
  | |- ensures _ (bind (while ?f ?bd ?s) ?k) =>
      apply (ensures_while_bind Q f bd s k
               (fun st => let '(i, acc) := st in 0 <= i <= Z.of_nat (length xs) /\ Z.of_nat (length acc) <= b + i)
               (fun st => let '(i, _) := st in Z.to_nat (Z.of_nat (length xs) - i))
               (fun st => let '(_, acc) := st in Z.of_nat (length acc) <= b + Z.of_nat (length xs))
               (fun _ => False))
  end.

Ltac range_step_len xs :=
  let i := fresh "i" in let acc := fresh "acc" in let Hi := fresh "Hi" in let Ha := fresh "Ha" in
  let Lt := fresh "Lt" in let x := fresh "x" in let E := fresh "E" in
  intros [i acc] [Hi Ha]; unfold step_ok;
  destruct (Z.ltb_spec i (Z.of_nat (length xs))) as [Lt|Ge]; [|lia];
  destruct (idx_lt_Done xs i) as (x & E & _); [lia|]; rewrite ?E; cbn [bind];
  rewrite (wrap64_succ_lt i (Z.of_nat (length xs))) by lia; rewrite app_length; cbn [length]; lia.

Theorem groupConstraintsIntoIntervals_len (cs : list constraint) (fuel : nat) :
  fits cs -> (length cs < fuel)%nat ->
  ensures (fun r => forall l, r = Some l -> (length l <= length cs)%nat)
          (G.groupConstraintsIntoIntervals fuel cs).
Proof.
  intros F L. pose proof F as F'. unfold fits in F. unfold G.groupConstraintsIntoIntervals.
  set (Q := fun r : option (list interval) => forall l, r = Some l -> (length l <= length cs)%nat).
  match goal with
  | |- ensures _ (bind (while ?f ?b ?s) ?k) =>
      apply (ensures_while_bind Q f b s k
               (fun st => let '(i, em, ex, lo, up) := st in
                          0 <= i <= Z.of_nat (length cs) /\
                          Z.of_nat (length em) <= cnt ce (firstn (Z.to_nat i) cs) /\
                          Z.of_nat (length lo) + Z.of_nat (length up) <= cnt cb (firstn (Z.to_nat i) cs))
               (fun st => let '(i, _, _, _, _) := st in Z.to_nat (Z.of_nat (length cs) - i))
               (fun st => let '(_, em, _, lo, up) := st in
                          Z.of_nat (length em) <= cnt ce cs /\
                          Z.of_nat (length lo) + Z.of_nat (length up) <= cnt cb cs)
               (fun _ => False))
  end.
  - intros [[[[i em] ex] lo] up] (Hi & He & Hb). unfold step_ok.
    destruct (Z.ltb_spec i (Z.of_nat (length cs))) as [Lt|Ge].
    2:{ replace (firstn (Z.to_nat i) cs) with cs in He, Hb by (symmetry; apply firstn_all2; lia). split; assumption. }
    destruct (idx_lt_Done cs i) as (x & E & N); [lia|]. rewrite E. cbn [bind]. cbv zeta.
    pose proof (cnt_step cb cs i x ltac:(lia) N) as CB. unfold cb at 3 in CB.
    pose proof (cnt_step ce cs i x ltac:(lia) N) as CE. unfold ce at 3 in CE.
    revert CB CE.
    split_ops x; cbn [orb andb negb b2z]; intros CB CE; cbv iota;
      rewrite (wrap64_succ_lt i (Z.of_nat (length cs))) by lia; rewrite CB, CE, ?app_length; cbn [length]; lia.
  - cbn [length firstn Z.to_nat]. unfold cnt. cbn. lia.
  - lia.
  - intros [[[[[i em] ex] lo] up]|r] Hq; [|contradiction].
    destruct Hq as [He Hb]. pose proof (cnt_disjoint cs) as CD.
    (* loop 2: the exact matches *)
    cbv zeta. range_loop_len Q em 0; [range_step_len em | cbn [length]; lia | lia |].
    intros [[k2 ivs]|r] Hivs; [|contradiction].
    apply (ensures_bind (fun r => Z.of_nat (length (fst r)) <= cnt cb cs)); [exact (alternatingIntervals_len cs fuel F' L)|].
    intros [alt ok] Halt. cbn [fst] in Halt.
    destruct ok.
    { apply ensures_Done. intros l E. injection E as <-. rewrite app_length. lia. }
    set (Q1 := fun ivs' : list interval => (length ivs' <= length cs)%nat).
    apply (ensures_bind Q1); [|intros a Ha; apply ensures_Done; intros l E; injection E as <-; unfold Q1 in Ha; lia].
    destruct (_ || _) eqn:Any; [|apply ensures_Done; unfold Q1; lia].
    assert (Any' : (1 <= length lo + length up)%nat).
    { apply orb_prop in Any. destruct Any as [A|A]; apply Z.ltb_lt in A; lia. }
    apply (ensures_bind Q1); [|intros a Ha; apply ensures_Done; exact Ha].
    destruct (shouldMergeConstraints lo up).
    + (* merge: one interval *)
      apply (ensures_bind (fun _ : option constraint => True)).
      { destruct (Z.ltb_spec 0 (Z.of_nat (length lo))) as [Llo|Llo]; [|apply ensures_Done; exact I].
        rewrite (wrap64_small (Z.of_nat (length lo) - 1)) by lia.
        destruct (idx_lt_Done lo (Z.of_nat (length lo) - 1)) as (a & Ea & _); [lia|]. rewrite Ea. cbn [bind].
        apply ensures_Done. exact I. }
      intros mrl _.
      apply (ensures_bind (fun _ : option constraint => True)).
      { destruct (Z.ltb_spec 0 (Z.of_nat (length up))) as [Lup|Lup]; [|apply ensures_Done; exact I].
        destruct (idx_lt_Done up 0) as (b & Eb & _); [lia|]. rewrite Eb. cbn [bind].
        apply ensures_Done. exact I. }
      intros mru _.
      apply (ensures_bind Q1); [|intros a Ha; apply ensures_Done; exact Ha].
      destruct mrl, mru; cbn [bind is_some deref andb]; apply ensures_Done; unfold Q1; rewrite ?app_length; cbn [length]; lia.
    + apply (ensures_bind Q1); [|intros a Ha; apply ensures_Done; exact Ha].
      destruct (_ && _) eqn:Pair.
      * (* paired bounds *)
        apply andb_prop in Pair. destruct Pair as [Eq _]. apply Z.eqb_eq in Eq.
        match goal with
        | |- ensures _ (bind (while ?f ?bd ?s) ?k) =>
            apply (ensures_while_bind Q1 f bd s k
                     (fun st => let '(j, acc) := st in 0 <= j <= Z.of_nat (length lo) /\ Z.of_nat (length acc) <= Z.of_nat (length em) + j)
                     (fun st => let '(j, _) := st in Z.to_nat (Z.of_nat (length lo) - j))
                     (fun st => let '(_, acc) := st in Z.of_nat (length acc) <= Z.of_nat (length em) + Z.of_nat (length lo))
                     (fun _ => False))
        end.
        -- intros [j acc] [Hj Ha]. unfold step_ok.
           destruct (Z.ltb_spec j (Z.of_nat (length lo))) as [Lt|Ge]; [|lia].
           destruct (idx_lt_Done lo j) as (a & Ea & _); [lia|].
           destruct (idx_lt_Done up j) as (b & Eb & _); [lia|].
           rewrite Ea, Eb. cbn [bind].
           rewrite (wrap64_succ_lt j (Z.of_nat (length lo))) by lia. rewrite app_length. cbn [length]. lia.
        -- lia.
        -- lia.
        -- intros [[j acc]|r] Hx; [|contradiction]. cbn [fell]. apply ensures_Done. unfold Q1. lia.
      * (* one interval per bound *)
        cbv zeta. range_loop_len Q1 lo (Z.of_nat (length em)); [range_step_len lo | lia | lia |].
        intros [[k3 ivs3]|r] H3; [|contradiction]. cbn [fell].
        range_loop_len Q1 up (Z.of_nat (length em) + Z.of_nat (length lo)); [range_step_len up | lia | lia |].
        intros [[k4 ivs4]|r] H4; [|contradiction]. cbn [fell]. apply ensures_Done. unfold Q1. lia.
Qed.
Print Assumptions groupConstraintsIntoIntervals_len.
