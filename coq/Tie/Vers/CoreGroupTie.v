(* Tie/Vers/CoreGroupTie.v — the TIE of the generated [alternatingIntervals] and
   [groupConstraintsIntoIntervals] (Gen/Parse/SpecVersCore.v, fourth pass) to the model's
   [alternating] / [heuristic] / [group] (Vers/Model.v).  No panic and termination are in
   CoreAlternating.v / CoreGroup.v; the equations below give them again as corollaries.

   Representation (as in Constraints.v / Printers.v): a Go `constraint{operator, version}` is
   [conc_cons] of the model's pair (vop, text); a Go `interval` is [conc_iv] of the model's interval
   ("" = absent, `exclude` unset).  The Go functions are applied to [map conc_cons cs]: that is what
   the generated parseConstraints returns ([parseConstraints_tie]).

   [alternatingIntervals_tie]:  fits cs -> length cs < fuel ->
      alternatingIntervals fuel (map conc_cons cs) = Done (alt_result cs)
   where [alt_result] is the model's [alternating None None] on the bounds, paired with Go's
   `sawBound` (= some constraint is a bound); ([], false) when the bounds do not alternate.
   [groupConstraintsIntoIntervals_tie]:  fits cs -> length cs < fuel ->
      groupConstraintsIntoIntervals fuel (map conc_cons cs) = Done (Some (map conc_iv (group cs)))
   for EVERY list of model constraints (no sortedness or distinctness is needed: the function does
   not compare versions).  In particular the function never returns an error. *)
From Coq Require Import ZArith List Ascii Bool Lia.
From Verif.Base Require Import Bytes GoNum GoOps Imp ImpFacts ImpErr ImpCore BytesFacts.
From Verif.Vers Require Model FactsC04.
From Verif.Gen.Code Require SpecVers.
From Verif.Gen.Parse Require SpecVers SpecVersCore.
From Verif.Tie.Loops Require Import Common.
From Verif.Tie.Parse Require Import Common.
From Verif.Tie.Vers Require Import Common.
From Verif.Tie.Vers Require Code Constraints Printers Pypi CoreAlternating CoreGroup.
Import ListNotations.
Local Open Scope Z_scope.

Module GC := Verif.Gen.Code.SpecVers.
Module C := Verif.Gen.Parse.SpecVersCore.
Module M := Verif.Vers.Model.
Module F4 := Verif.Vers.FactsC04.

Notation conc_cons := Constraints.conc_cons.
Notation conc_iv := Printers.conc_iv.
Notation is_bound_c := F4.is_bound_c.
Notation is_exact_c := F4.is_exact_c.
Notation is_ne_c := F4.is_ne_c.

Definition is_lower_c (c : M.vcons) : bool := M.is_lower_op (fst c).
Definition is_upper_c (c : M.vcons) : bool := M.is_upper_op (fst c).

Local Opaque wrap64.

(* ---------- generic loops ---------- *)

(* `for _, x := range xs { acc = append(acc, f x) }` *)
Lemma map_loop {A B R : Type} (xs : list A) (f : A -> B)
      (body : Z * list B -> res (step (Z * list B) R)) (fuel : nat) (acc : list B) :
  (forall k acc, body (k, acc) =
     if Z.ltb k (Z.of_nat (length xs))
     then bind (idx xs k) (fun x => Done (Next (wrap64 (k + 1), acc ++ [f x])))
     else Done (Break (k, acc))) ->
  fits xs -> (length xs < fuel)%nat ->
  exists k', while fuel body (0, acc) = Done (Fell (k', acc ++ map f xs)).
Proof.
  intros Hb Hfit Hf.
  rewrite (fold_loop xs body (fun st => fst st)
             (fun x st => inr (wrap64 (fst st + 1), snd st ++ [f x]))).
  - assert (RR : forall l k acc0, exists k',
               run (fun (x : A) (st : Z * list B) => @inr R _ (wrap64 (fst st + 1), snd st ++ [f x])) l (k, acc0)
               = inr (k', acc0 ++ map f l)).
    { induction l as [|x l IH]; intros k acc0; cbn [run map fst snd].
      - exists k. rewrite app_nil_r. reflexivity.
      - destruct (IH (wrap64 (k + 1)) (acc0 ++ [f x])) as [k' E]. exists k'. rewrite E.
        rewrite <- app_assoc. reflexivity. }
    destruct (RR xs 0 acc) as [k' E]. exists k'. rewrite E. reflexivity.
  - intros [k a] x B0 N. cbn [fst snd] in *. rewrite Hb.
    destruct (Z.ltb_spec k (Z.of_nat (length xs))) as [_|X]; [|lia].
    rewrite (idx_nth_error _ _ _ B0 N). reflexivity.
  - intros [k a] K. cbn [fst] in K. rewrite Hb, K, Z.ltb_irrefl. reflexivity.
  - intros x [k a] [k' a'] B0 G. cbn [fst snd] in *. injection G as <- _.
    apply (wrap64_succ k (Z.of_nat (length xs))); [lia | exact Hfit].
  - reflexivity.
  - exact Hf.
Qed.

Lemma nth_error_combine {A B} (l1 : list A) (l2 : list B) n a b :
  nth_error (combine l1 l2) n = Some (a, b) -> nth_error l1 n = Some a /\ nth_error l2 n = Some b.
Proof.
  revert l2 n. induction l1 as [|x l1 IH]; intros [|y l2] [|n] H; cbn in *; try discriminate.
  - injection H as <- <-. split; reflexivity.
  - apply IH. exact H.
Qed.

(* `for i := 0; i < len(ls); i++ { acc = append(acc, f ls[i] ls[i] us[i] us[i]) }` with len ls = len us *)
Lemma zip_loop {A B R : Type} (ls us : list A) (f : A -> A -> A -> A -> B)
      (body : Z * list B -> res (step (Z * list B) R)) (fuel : nat) (acc : list B) :
  (forall k acc, body (k, acc) =
     if Z.ltb k (Z.of_nat (length ls))
     then bind (idx ls k) (fun a => bind (idx ls k) (fun a' => bind (idx us k) (fun b => bind (idx us k) (fun b' =>
            Done (Next (wrap64 (k + 1), acc ++ [f a a' b b']))))))
     else Done (Break (k, acc))) ->
  length ls = length us -> fits ls -> (length ls < fuel)%nat ->
  exists k', while fuel body (0, acc) =
             Done (Fell (k', acc ++ map (fun p => f (fst p) (fst p) (snd p) (snd p)) (combine ls us))).
Proof.
  intros Hb Hlen Hfit Hf.
  assert (LC : length (combine ls us) = length ls) by (rewrite combine_length; lia).
  rewrite (fold_loop (combine ls us) body (fun st => fst st)
             (fun p st => inr (wrap64 (fst st + 1), snd st ++ [f (fst p) (fst p) (snd p) (snd p)]))).
  - assert (RR : forall l k acc0, exists k',
               run (fun (p : A * A) (st : Z * list B) =>
                      @inr R _ (wrap64 (fst st + 1), snd st ++ [f (fst p) (fst p) (snd p) (snd p)])) l (k, acc0)
               = inr (k', acc0 ++ map (fun p => f (fst p) (fst p) (snd p) (snd p)) l)).
    { induction l as [|x l IH]; intros k acc0; cbn [run map fst snd].
      - exists k. rewrite app_nil_r. reflexivity.
      - destruct (IH (wrap64 (k + 1)) (acc0 ++ [f (fst x) (fst x) (snd x) (snd x)])) as [k' E].
        exists k'. rewrite E. rewrite <- app_assoc. reflexivity. }
    destruct (RR (combine ls us) 0 acc) as [k' E]. exists k'. rewrite E. reflexivity.
  - intros [k a] [x y] B0 N. cbn [fst snd] in *. rewrite Hb. rewrite LC in B0.
    destruct (Z.ltb_spec k (Z.of_nat (length ls))) as [_|X]; [|lia].
    apply nth_error_combine in N. destruct N as [N1 N2].
    rewrite (idx_nth_error ls _ _ B0 N1).
    rewrite (idx_nth_error us k y) by (try exact N2; lia). reflexivity.
  - intros [k a] K. cbn [fst] in K. rewrite Hb, K, LC, Z.ltb_irrefl. reflexivity.
  - intros x [k a] [k' a'] B0 G. cbn [fst snd] in *. injection G as <- _.
    apply (wrap64_succ k (Z.of_nat (length ls))); [lia | exact Hfit].
  - reflexivity.
  - lia.
Qed.

(* ---------- the operators of a concrete constraint ---------- *)

Lemma lower_incl x : is_lower_c x = true -> beq (GC.constraint_operator (conc_cons x)) $">=" = M.incl (fst x).
Proof. destruct x as [[] v]; cbn; intros H; try discriminate; reflexivity. Qed.

Lemma upper_incl x : is_upper_c x = true -> beq (GC.constraint_operator (conc_cons x)) $"<=" = M.incl (fst x).
Proof. destruct x as [[] v]; cbn; intros H; try discriminate; reflexivity. Qed.

(* ---------- alternatingIntervals ---------- *)

Definition alt_state := (Z * bool * bool * option GC.constraint * list GC.interval)%type.

Definition go_lo (c : GC.constraint) : bool :=
  orb (beq (GC.constraint_operator c) $">=") (beq (GC.constraint_operator c) $">").
Definition go_up (c : GC.constraint) : bool :=
  orb (beq (GC.constraint_operator c) $"<=") (beq (GC.constraint_operator c) $"<").

(* the interval appended for an upper bound *)
Definition alt_cur (pl : option GC.constraint) (c : GC.constraint) : GC.interval :=
  match pl with
  | Some p => GC.mk_interval (GC.constraint_version p) (beq (GC.constraint_operator p) $">=")
                (GC.constraint_version c) (beq (GC.constraint_operator c) $"<=") [] []
  | None => GC.mk_interval [] false (GC.constraint_version c) (beq (GC.constraint_operator c) $"<=") [] []
  end.

Definition g_alt (c : GC.constraint) (st : alt_state) : (list GC.interval * bool) + alt_state :=
  let '(i, sb, pwl, pl, ivs) := st in
  if andb (negb (go_lo c)) (negb (go_up c)) then inr (wrap64 (i + 1), sb, pwl, pl, ivs)
  else if andb sb (Bool.eqb (go_lo c) pwl) then inl ([], false)
  else if go_lo c then inr (wrap64 (i + 1), true, true, Some c, ivs)
  else inr (wrap64 (i + 1), true, false, None, ivs ++ [alt_cur pl c]).

(* the interval of a lower bound that is still pending after the loop *)
Definition pend_iv (pl : option GC.constraint) : list GC.interval :=
  match pl with
  | Some p => [GC.mk_interval (GC.constraint_version p) (beq (GC.constraint_operator p) $">=") [] false [] []]
  | None => []
  end.

Lemma g_alt_conc x k sb pwl pl ivs :
  g_alt (conc_cons x) (k, sb, pwl, pl, ivs) =
  if negb (is_bound_c x) then inr (wrap64 (k + 1), sb, pwl, pl, ivs)
  else if andb sb (Bool.eqb (is_lower_c x) pwl) then inl ([], false)
  else if is_lower_c x then inr (wrap64 (k + 1), true, true, Some (conc_cons x), ivs)
  else inr (wrap64 (k + 1), true, false, None, ivs ++ [alt_cur pl (conc_cons x)]).
Proof. destruct x as [[] v]; reflexivity. Qed.

Definition lower_pending (pm : option M.vcons) : Prop := forall p, pm = Some p -> is_lower_c p = true.

Lemma run_alt : forall l k sb pwl pm ivs,
  (sb = false -> pm = None) -> lower_pending pm ->
  match run g_alt (map conc_cons l) (k, sb, pwl, option_map conc_cons pm, ivs) with
  | inl r => r = ([], false) /\
             M.alternating pm (if sb then Some pwl else None) (filter is_bound_c l) = None
  | inr (_, sb', _, pl', ivs') =>
      exists r, M.alternating pm (if sb then Some pwl else None) (filter is_bound_c l) = Some r /\
                ivs' ++ pend_iv pl' = ivs ++ map conc_iv r /\ sb' = orb sb (existsb is_bound_c l)
  end.
Proof.
  induction l as [|x l IH]; intros k sb pwl pm ivs Hsb Hpm; cbn [map run filter existsb].
  - exists (match pm with Some p => [M.iv_lower p] | None => [] end). split; [reflexivity|].
    split; [|rewrite orb_false_r; reflexivity]. f_equal.
    destruct pm as [p|]; [|reflexivity]. cbn [option_map pend_iv map].
    rewrite (lower_incl p (Hpm p eq_refl)). reflexivity.
  - rewrite g_alt_conc. destruct (is_bound_c x) eqn:Bx; cbn [negb orb].
    + cbn [M.alternating]. cbv zeta. fold (is_lower_c x).
      assert (UPx : is_lower_c x = false -> is_upper_c x = true).
      { intros L. unfold F4.is_bound_c in Bx. fold (is_lower_c x) in Bx. rewrite L in Bx. exact Bx. }
      assert (CUR : is_lower_c x = false ->
                    alt_cur (option_map conc_cons pm) (conc_cons x) =
                    conc_iv (match pm with Some lo => M.iv_both lo x | None => M.iv_upper x end)).
      { intros L. destruct pm as [p|]; cbn [option_map alt_cur].
        - rewrite (lower_incl p (Hpm p eq_refl)), (upper_incl x (UPx L)). reflexivity.
        - rewrite (upper_incl x (UPx L)). reflexivity. }
      destruct sb.
      * cbn [andb]. replace (Bool.eqb (is_lower_c x) pwl) with (Bool.eqb pwl (is_lower_c x))
          by (destruct pwl, (is_lower_c x); reflexivity).
        destruct (Bool.eqb pwl (is_lower_c x)); [split; reflexivity|].
        destruct (is_lower_c x) eqn:Lx.
        -- specialize (IH (wrap64 (k + 1)) true true (Some x) ivs).
           cbn [option_map] in IH.
           destruct (run g_alt (map conc_cons l) (wrap64 (k + 1), true, true, Some (conc_cons x), ivs))
             as [r|[[[[k' sb'] pwl'] pl'] ivs']].
           ++ apply IH; [discriminate | intros p E; injection E as <-; exact Lx].
           ++ destruct IH as (r & A & E & S); [discriminate | intros p E; injection E as <-; exact Lx |].
              exists r. split; [exact A|]. split; [exact E | exact S].
        -- specialize (IH (wrap64 (k + 1)) true false None (ivs ++ [alt_cur (option_map conc_cons pm) (conc_cons x)])).
           cbn [option_map] in IH.
           destruct (run g_alt (map conc_cons l) _) as [r|[[[[k' sb'] pwl'] pl'] ivs']].
           ++ destruct IH as [-> A]; [discriminate | intros p E; discriminate |]. rewrite A. split; reflexivity.
           ++ destruct IH as (r & A & E & S); [discriminate | intros p E; discriminate |].
              rewrite A. eexists. split; [reflexivity|]. split; [|exact S].
              rewrite E, <- app_assoc. cbn [map app]. rewrite (CUR eq_refl). reflexivity.
      * cbn [andb]. rewrite (Hsb eq_refl) in *. cbn [option_map] in *.
        destruct (is_lower_c x) eqn:Lx.
        -- specialize (IH (wrap64 (k + 1)) true true (Some x) ivs).
           cbn [option_map] in IH.
           destruct (run g_alt (map conc_cons l) (wrap64 (k + 1), true, true, Some (conc_cons x), ivs))
             as [r|[[[[k' sb'] pwl'] pl'] ivs']].
           ++ apply IH; [discriminate | intros p E; injection E as <-; exact Lx].
           ++ destruct IH as (r & A & E & S); [discriminate | intros p E; injection E as <-; exact Lx |].
              exists r. split; [exact A|]. split; [exact E | exact S].
        -- specialize (IH (wrap64 (k + 1)) true false None (ivs ++ [alt_cur None (conc_cons x)])).
           cbn [option_map] in IH.
           destruct (run g_alt (map conc_cons l) _) as [r|[[[[k' sb'] pwl'] pl'] ivs']].
           ++ destruct IH as [-> A]; [discriminate | intros p E; discriminate |]. rewrite A. split; reflexivity.
           ++ destruct IH as (r & A & E & S); [discriminate | intros p E; discriminate |].
              rewrite A. eexists. split; [reflexivity|]. split; [|exact S].
              rewrite E, <- app_assoc. cbn [map app]. rewrite (CUR eq_refl). reflexivity.
    + apply IH; assumption.
Qed.

(* Go's pair (intervals, sawBound) *)
Definition alt_result (cs : list M.vcons) : list GC.interval * bool :=
  match M.alternating None None (filter is_bound_c cs) with
  | Some r => (map conc_iv r, existsb is_bound_c cs)
  | None => ([], false)
  end.

Theorem alternatingIntervals_tie (cs : list M.vcons) (fuel : nat) :
  fits cs -> (length cs < fuel)%nat ->
  C.alternatingIntervals fuel (map conc_cons cs) = Done (alt_result cs).
Proof.
  intros Hfit Hf. unfold C.alternatingIntervals. cbv zeta.
  assert (Lm : length (map conc_cons cs) = length cs) by apply map_length.
  match goal with |- context [while fuel ?b ?s0] =>
    rewrite (fold_loop (map conc_cons cs) b (fun st : alt_state => let '(i, _, _, _, _) := st in i) g_alt) end.
  2:{ intros [[[[i sb] pwl] pl] ivs] x B N.
      destruct (Z.ltb_spec i (Z.of_nat (length (map conc_cons cs)))) as [_|X]; [|lia].
      rewrite (idx_nth_error _ _ _ B N). cbn [bind]. unfold g_alt.
      fold (go_lo x). fold (go_up x).
      destruct (andb (negb (go_lo x)) (negb (go_up x))); [reflexivity|].
      destruct (andb sb (Bool.eqb (go_lo x) pwl)); [reflexivity|].
      destruct (go_lo x); [reflexivity|].
      destruct pl; reflexivity. }
  2:{ intros [[[[i sb] pwl] pl] ivs] K. rewrite K, Z.ltb_irrefl. reflexivity. }
  2:{ intros x [[[[i sb] pwl] pl] ivs] [[[[i' sb'] pwl'] pl'] ivs'] B G. unfold g_alt in G.
      assert (W : wrap64 (i + 1) = i + 1).
      { apply (wrap64_succ i (Z.of_nat (length (map conc_cons cs)))); [lia|]. rewrite Lm. exact Hfit. }
      destruct (andb (negb (go_lo x)) (negb (go_up x))); [injection G as <- _ _ _ _; exact W|].
      destruct (andb sb (Bool.eqb (go_lo x) pwl)); [discriminate|].
      destruct (go_lo x); injection G as <- _ _ _ _; exact W. }
  2:{ reflexivity. }
  2:{ rewrite Lm. exact Hf. }
  pose proof (run_alt cs 0 false false None []) as R. cbn [option_map] in R.
  unfold alt_result.
  match goal with |- context [match ?X with inl _ => _ | inr _ => _ end] => set (RUN := X) end.
  change (run g_alt (map conc_cons cs) (0, false, false, None, [])) with RUN in R.
  destruct RUN as [r|[[[[k' sb'] pwl'] pl'] ivs']]; cbn [bind].
  - destruct R as [-> A]; [reflexivity | intros p E; discriminate |]. rewrite A. reflexivity.
  - destruct R as (r & A & E & S); [reflexivity | intros p E; discriminate |].
    rewrite A. cbn [app orb] in E, S. subst sb'. rewrite <- E.
    destruct pl'; cbn [is_some deref bind pend_iv]; [reflexivity | rewrite app_nil_r; reflexivity].
Qed.
Print Assumptions alternatingIntervals_tie.

Corollary alternatingIntervals_tie_finished (cs : list M.vcons) (fuel : nat) :
  fits cs -> (length cs < fuel)%nat -> finished (C.alternatingIntervals fuel (map conc_cons cs)).
Proof. intros Hfit Hf. rewrite (alternatingIntervals_tie cs fuel Hfit Hf). apply finished_Done. Qed.

(* ---------- groupConstraintsIntoIntervals ---------- *)

(* the model's view of Go's pair: the intervals of the alternating bounds and `ok` *)
Definition alt_m (cs : list M.vcons) : list M.interval * bool :=
  match M.alternating None None (filter is_bound_c cs) with
  | Some r => (r, existsb is_bound_c cs)
  | None => ([], false)
  end.

Lemma alt_result_m cs : alt_result cs = (map conc_iv (fst (alt_m cs)), snd (alt_m cs)).
Proof. unfold alt_result, alt_m. destruct (M.alternating None None _); reflexivity. Qed.

Lemma filter_nil_existsb {A} (f : A -> bool) l : filter f l = [] <-> existsb f l = false.
Proof.
  induction l as [|x l IH]; cbn [filter existsb]; [tauto|].
  destruct (f x); cbn [orb]; [split; discriminate | exact IH].
Qed.

Lemma filter_nil_sub {A} (f g : A -> bool) l :
  (forall x, f x = true -> g x = true) -> filter g l = [] -> filter f l = [].
Proof.
  intros H. induction l as [|x l IH]; cbn [filter]; [reflexivity|].
  destruct (g x) eqn:G; [discriminate|]. intros E.
  destruct (f x) eqn:Fx; [rewrite (H x Fx) in G; discriminate | exact (IH E)].
Qed.

Lemma heuristic_nil : M.heuristic [] [] = [].
Proof. reflexivity. Qed.

Lemma group_alt_m cs :
  M.group cs = map M.iv_exact (filter is_exact_c cs) ++
               (if snd (alt_m cs) then fst (alt_m cs)
                else M.heuristic (filter is_lower_c cs) (filter is_upper_c cs)).
Proof.
  rewrite F4.group_eq. f_equal. unfold alt_m.
  change (fun c : M.vcons => M.is_lower_op (fst c)) with is_lower_c.
  change (fun c : M.vcons => M.is_upper_op (fst c)) with is_upper_c.
  destruct (filter is_bound_c cs) as [|b bs] eqn:FB.
  - cbn [M.alternating fst snd].
    rewrite (proj1 (filter_nil_existsb is_bound_c cs) FB).
    rewrite (filter_nil_sub is_lower_c is_bound_c cs) by (try exact FB; intros x H; unfold F4.is_bound_c; fold (is_lower_c x); rewrite H; reflexivity).
    rewrite (filter_nil_sub is_upper_c is_bound_c cs) by (try exact FB; intros x H; unfold F4.is_bound_c; fold (is_upper_c x); rewrite H; apply orb_true_r).
    reflexivity.
  - destruct (M.alternating None None (b :: bs)) as [r|]; cbn [fst snd]; [|reflexivity].
    destruct (existsb is_bound_c cs) eqn:EB; [reflexivity|].
    apply filter_nil_existsb in EB. rewrite EB in FB. discriminate.
Qed.

Definition part_state : Type :=
  (Z * list GC.constraint * list GC.constraint * list GC.constraint * list GC.constraint)%type.

Definition g_part (c : GC.constraint) (st : part_state) : option (list GC.interval) + part_state :=
  let '(k, em, ex, lo, up) := st in
  let tag := GC.constraint_operator c in
  let '(em', ex', lo', up') :=
    if beq tag $"=" then (em ++ [c], ex, lo, up)
    else if beq tag $"!=" then (em, ex ++ [c], lo, up)
    else if orb (beq tag $">=") (beq tag $">") then (em, ex, lo ++ [c], up)
    else if orb (beq tag $"<=") (beq tag $"<") then (em, ex, lo, up ++ [c])
    else (em, ex, lo, up) in
  inr (wrap64 (k + 1), em', ex', lo', up').

Definition sel (b : bool) (c : GC.constraint) : list GC.constraint := if b then [c] else [].

Lemma g_part_conc x k em ex lo up :
  g_part (conc_cons x) (k, em, ex, lo, up) =
  inr (wrap64 (k + 1), em ++ sel (is_exact_c x) (conc_cons x), ex ++ sel (is_ne_c x) (conc_cons x),
       lo ++ sel (is_lower_c x) (conc_cons x), up ++ sel (is_upper_c x) (conc_cons x)).
Proof. destruct x as [[] v]; cbn; rewrite ?app_nil_r; reflexivity. Qed.

Lemma sel_filter (f : M.vcons -> bool) x l acc :
  (acc ++ sel (f x) (conc_cons x)) ++ map conc_cons (filter f l) = acc ++ map conc_cons (filter f (x :: l)).
Proof. cbn [filter]. destruct (f x); cbn [sel map]; rewrite <- app_assoc; reflexivity. Qed.

Lemma run_part : forall l k em ex lo up, exists k',
  run g_part (map conc_cons l) (k, em, ex, lo, up) =
  inr (k', em ++ map conc_cons (filter is_exact_c l), ex ++ map conc_cons (filter is_ne_c l),
       lo ++ map conc_cons (filter is_lower_c l), up ++ map conc_cons (filter is_upper_c l)).
Proof.
  induction l as [|x l IH]; intros k em ex lo up.
  - exists k. cbn [map run filter]. rewrite !app_nil_r. reflexivity.
  - cbn [map run]. rewrite g_part_conc.
    destruct (IH (wrap64 (k + 1)) (em ++ sel (is_exact_c x) (conc_cons x)) (ex ++ sel (is_ne_c x) (conc_cons x))
                (lo ++ sel (is_lower_c x) (conc_cons x)) (up ++ sel (is_upper_c x) (conc_cons x))) as [k' E].
    exists k'. rewrite E, !sel_filter. reflexivity.
Qed.

Lemma filter_length_le' {A} (f : A -> bool) l : (length (filter f l) <= length l)%nat.
Proof. induction l as [|x l IH]; cbn [filter length]; [lia|]. destruct (f x); cbn [length]; lia. Qed.

Lemma Forall_filter_true {A} (f : A -> bool) l : Forall (fun x => f x = true) (filter f l).
Proof.
  induction l as [|x l IH]; cbn [filter]; [constructor|].
  destruct (f x) eqn:E; [constructor; assumption | assumption].
Qed.

(* the intervals the Go code builds, on concrete constraints *)
Definition go_exact (e : GC.constraint) : GC.interval :=
  GC.mk_interval [] false [] false (GC.constraint_version e) [].
Definition go_lower (p : GC.constraint) : GC.interval :=
  GC.mk_interval (GC.constraint_version p) (beq (GC.constraint_operator p) $">=") [] false [] [].
Definition go_upper (p : GC.constraint) : GC.interval :=
  GC.mk_interval [] false (GC.constraint_version p) (beq (GC.constraint_operator p) $"<=") [] [].
Definition go_both (p p1 q q1 : GC.constraint) : GC.interval :=
  GC.mk_interval (GC.constraint_version p) (beq (GC.constraint_operator p1) $">=")
                 (GC.constraint_version q) (beq (GC.constraint_operator q1) $"<=") [] [].

Lemma go_exact_m x : go_exact (conc_cons x) = conc_iv (M.iv_exact x).
Proof. reflexivity. Qed.
Lemma go_lower_m x : is_lower_c x = true -> go_lower (conc_cons x) = conc_iv (M.iv_lower x).
Proof. intros H. unfold go_lower. rewrite (lower_incl x H). reflexivity. Qed.
Lemma go_upper_m x : is_upper_c x = true -> go_upper (conc_cons x) = conc_iv (M.iv_upper x).
Proof. intros H. unfold go_upper. rewrite (upper_incl x H). reflexivity. Qed.
Lemma go_both_m x y : is_lower_c x = true -> is_upper_c y = true ->
  go_both (conc_cons x) (conc_cons x) (conc_cons y) (conc_cons y) = conc_iv (M.iv_both x y).
Proof. intros H1 H2. unfold go_both. rewrite (lower_incl x H1), (upper_incl y H2). reflexivity. Qed.

Lemma map_go_lower ls : Forall (fun x => is_lower_c x = true) ls ->
  map go_lower (map conc_cons ls) = map conc_iv (map M.iv_lower ls).
Proof. induction 1 as [|x l Hx Hl IH]; cbn [map]; [reflexivity|]. rewrite (go_lower_m x Hx), IH. reflexivity. Qed.

Lemma map_go_upper us : Forall (fun x => is_upper_c x = true) us ->
  map go_upper (map conc_cons us) = map conc_iv (map M.iv_upper us).
Proof. induction 1 as [|x l Hx Hl IH]; cbn [map]; [reflexivity|]. rewrite (go_upper_m x Hx), IH. reflexivity. Qed.

Lemma map_go_both : forall ls us,
  Forall (fun x => is_lower_c x = true) ls -> Forall (fun x => is_upper_c x = true) us ->
  map (fun p => go_both (fst p) (fst p) (snd p) (snd p)) (combine (map conc_cons ls) (map conc_cons us))
  = map conc_iv (M.zip_both ls us).
Proof.
  induction ls as [|x ls IH]; intros [|y us] Hl Hu; cbn [map combine M.zip_both]; try reflexivity.
  inversion Hl; inversion Hu; subst. cbn [fst snd]. rewrite go_both_m, IH by assumption. reflexivity.
Qed.

Lemma last_opt_snoc {A} (l : list A) x : M.last_opt (l ++ [x]) = Some x.
Proof. unfold M.last_opt. rewrite rev_app_distr. reflexivity. Qed.

Theorem groupConstraintsIntoIntervals_tie (cs : list M.vcons) (fuel : nat) :
  fits cs -> (length cs < fuel)%nat ->
  C.groupConstraintsIntoIntervals fuel (map conc_cons cs) = Done (Some (map conc_iv (M.group cs))).
Proof.
  intros Hfit Hf. unfold C.groupConstraintsIntoIntervals. cbv zeta.
  assert (Lm : length (map conc_cons cs) = length cs) by apply map_length.
  (* loop 1: the four sublists *)
  match goal with |- context [while fuel ?b ?s0] =>
    rewrite (fold_loop (map conc_cons cs) b (fun st : part_state => let '(i, _, _, _, _) := st in i) g_part) end.
  2:{ intros [[[[i em] ex] lo] up] x B N.
      destruct (Z.ltb_spec i (Z.of_nat (length (map conc_cons cs)))) as [_|X]; [|lia].
      rewrite (idx_nth_error _ _ _ B N). cbn [bind]. unfold g_part. cbv zeta.
      match goal with |- context [if ?c then _ else _] => destruct c end; [reflexivity|].
      match goal with |- context [if ?c then _ else _] => destruct c end; [reflexivity|].
      match goal with |- context [if ?c then _ else _] => destruct c end; [reflexivity|].
      match goal with |- context [if ?c then _ else _] => destruct c end; reflexivity. }
  2:{ intros [[[[i em] ex] lo] up] K. rewrite K, Z.ltb_irrefl. reflexivity. }
  2:{ intros x [[[[i em] ex] lo] up] [[[[i' em'] ex'] lo'] up'] B G. unfold g_part in G. cbv zeta in G.
      repeat match type of G with context [if ?c then _ else _] => destruct c end;
      injection G as <- _ _ _ _;
      apply (wrap64_succ i (Z.of_nat (length (map conc_cons cs)))); try lia; rewrite Lm; exact Hfit. }
  2:{ reflexivity. }
  2:{ rewrite Lm. exact Hf. }
  destruct (run_part cs 0 [] [] [] []) as [k1 R1].
  match goal with |- context [match ?X with inl _ => _ | inr _ => _ end] => set (RUN := X) end.
  change (run g_part (map conc_cons cs) (0, [], [], [], [])) with RUN in R1.
  rewrite R1. clear RUN R1. cbn [bind app].
  set (E := filter is_exact_c cs). set (ls := filter is_lower_c cs). set (us := filter is_upper_c cs).
  assert (LE : (length E <= length cs)%nat) by apply filter_length_le'.
  assert (LL : (length ls <= length cs)%nat) by apply filter_length_le'.
  assert (LU : (length us <= length cs)%nat) by apply filter_length_le'.
  assert (Hls : Forall (fun x => is_lower_c x = true) ls) by apply Forall_filter_true.
  assert (Hus : Forall (fun x => is_upper_c x = true) us) by apply Forall_filter_true.
  unfold fits in Hfit.
  (* loop 2: the exact matches *)
  match goal with |- context [while fuel ?b (0, [])] =>
    destruct (map_loop (R := option (list GC.interval)) (map conc_cons E) go_exact b fuel []) as [k2 E2] end.
  { intros k acc. reflexivity. }
  { unfold fits. rewrite map_length. lia. }
  { rewrite map_length. lia. }
  rewrite E2. clear E2. cbn [bind app].
  rewrite (alternatingIntervals_tie cs fuel) by (try exact Hf; exact Hfit). cbn [bind].
  rewrite alt_result_m, group_alt_m. fold E ls us.
  destruct (alt_m cs) as [altm ok]. cbn [fst snd].
  assert (EX : map go_exact (map conc_cons E) = map conc_iv (map M.iv_exact E)).
  { rewrite !map_map. apply map_ext. intros x. reflexivity. }
  rewrite EX. clear EX. set (ivs := map conc_iv (map M.iv_exact E)).
  destruct ok.
  { rewrite map_app. reflexivity. }
  rewrite map_app. fold ivs.
  rewrite (Code.heuristic_uses_shouldMerge conc_cons ls us).
  rewrite !map_length.
  destruct (orb (0 <? Z.of_nat (length ls)) (0 <? Z.of_nat (length us))) eqn:Any.
  2:{ apply orb_false_elim in Any. destruct Any as [A1 A2].
      apply Z.ltb_ge in A1. apply Z.ltb_ge in A2.
      destruct ls; [|cbn [length] in A1; lia]. destruct us; [|cbn [length] in A2; lia].
      cbn. rewrite app_nil_r. reflexivity. }
  cbn [bind].
  destruct (GC.shouldMergeConstraints (map conc_cons ls) (map conc_cons us)) eqn:SM.
  - (* the most restrictive bounds *)
    destruct (Pypi.last_case ls) as [Els|(ls' & xl & Els)]; destruct us as [|u us'].
    + rewrite Els in SM. discriminate SM.
    + rewrite Els. cbn [map length Z.of_nat Z.ltb Z.compare bind].
      replace (0 <? Z.of_nat (length (u :: us'))) with true by (symmetry; apply Z.ltb_lt; cbn [length]; lia).
      erewrite idx_known by reflexivity.
      cbn [bind is_some deref andb M.last_opt rev hd_error map app].
      inversion Hus; subst. fold (go_upper (conc_cons u)). rewrite go_upper_m by assumption. reflexivity.
    + assert (Lx : is_lower_c xl = true).
      { rewrite Els in Hls. apply Forall_app in Hls. destruct Hls as [_ Hx]. inversion Hx; assumption. }
      rewrite Els, last_opt_snoc. rewrite map_app. cbn [map].
      replace (0 <? Z.of_nat (length (ls' ++ [xl]))) with true
        by (symmetry; apply Z.ltb_lt; rewrite app_length; cbn [length]; lia).
      rewrite wrap64_small by (rewrite app_length in *; cbn [length] in *; rewrite Els, app_length in LL; cbn [length] in LL; lia).
      rewrite (Pypi.idx_app_at (map conc_cons ls') [] (conc_cons xl))
        by (rewrite app_length, map_length; cbn [length]; lia).
      cbn [length Z.of_nat Z.ltb Z.compare bind is_some deref andb hd_error map app].
      fold (go_lower (conc_cons xl)). rewrite go_lower_m by assumption. reflexivity.
    + assert (Lx : is_lower_c xl = true).
      { rewrite Els in Hls. apply Forall_app in Hls. destruct Hls as [_ Hx]. inversion Hx; assumption. }
      rewrite Els, last_opt_snoc. rewrite map_app. cbn [map].
      replace (0 <? Z.of_nat (length (ls' ++ [xl]))) with true
        by (symmetry; apply Z.ltb_lt; rewrite app_length; cbn [length]; lia).
      replace (0 <? Z.of_nat (length (u :: us'))) with true by (symmetry; apply Z.ltb_lt; cbn [length]; lia).
      rewrite wrap64_small by (rewrite app_length in *; cbn [length] in *; rewrite Els, app_length in LL; cbn [length] in LL; lia).
      rewrite (Pypi.idx_app_at (map conc_cons ls') [] (conc_cons xl))
        by (rewrite app_length, map_length; cbn [length]; lia).
      cbn [bind]. erewrite idx_known by reflexivity.
      cbn [bind is_some deref andb hd_error map app].
      inversion Hus; subst.
      fold (go_both (conc_cons xl) (conc_cons xl) (conc_cons u) (conc_cons u)).
      rewrite go_both_m by assumption. reflexivity.
  - destruct (andb (Z.of_nat (length ls) =? Z.of_nat (length us)) (1 <? Z.of_nat (length ls))) eqn:Pair.
    + (* paired bounds *)
      apply andb_prop in Pair. destruct Pair as [P1 P2]. apply Z.eqb_eq in P1. apply Z.ltb_lt in P2.
      replace ((length ls =? length us)%nat && (1 <? length ls)%nat) with true
        by (symmetry; apply andb_true_intro; split; [apply Nat.eqb_eq | apply Nat.ltb_lt]; lia).
      match goal with |- context [while fuel ?b (0, ivs)] =>
        destruct (zip_loop (R := option (list GC.interval)) (map conc_cons ls) (map conc_cons us) go_both b fuel ivs)
          as [k3 E3] end.
      { intros k acc. rewrite map_length. reflexivity. }
      { rewrite !map_length. lia. }
      { unfold fits. rewrite map_length. lia. }
      { rewrite map_length. lia. }
      rewrite E3. clear E3. cbn [bind fell]. rewrite map_go_both by assumption. reflexivity.
    + (* one interval per bound *)
      replace ((length ls =? length us)%nat && (1 <? length ls)%nat) with false.
      2:{ symmetry. apply andb_false_iff. apply andb_false_iff in Pair. destruct Pair as [P|P].
          - left. apply Z.eqb_neq in P. apply Nat.eqb_neq. lia.
          - right. apply Z.ltb_ge in P. apply Nat.ltb_ge. lia. }
      match goal with |- context [while fuel ?b (0, ivs)] =>
        destruct (map_loop (R := option (list GC.interval)) (map conc_cons ls) go_lower b fuel ivs) as [k3 E3] end.
      { intros k acc. rewrite map_length. reflexivity. }
      { unfold fits. rewrite map_length. lia. }
      { rewrite map_length. lia. }
      rewrite E3. clear E3. cbn [bind fell].
      match goal with |- context [while fuel ?b (0, ?a)] =>
        destruct (map_loop (R := option (list GC.interval)) (map conc_cons us) go_upper b fuel a) as [k4 E4] end.
      { intros k acc. rewrite map_length. reflexivity. }
      { unfold fits. rewrite map_length. lia. }
      { rewrite map_length. lia. }
      rewrite E4. clear E4. cbn [bind fell].
      rewrite map_go_lower, map_go_upper by assumption. rewrite map_app, app_assoc. reflexivity.
Qed.
Print Assumptions groupConstraintsIntoIntervals_tie.

Corollary groupConstraintsIntoIntervals_tie_finished (cs : list M.vcons) (fuel : nat) :
  fits cs -> (length cs < fuel)%nat -> finished (C.groupConstraintsIntoIntervals fuel (map conc_cons cs)).
Proof. intros Hfit Hf. rewrite (groupConstraintsIntoIntervals_tie cs fuel Hfit Hf). apply finished_Done. Qed.
Print Assumptions alternatingIntervals_tie_finished.
Print Assumptions groupConstraintsIntoIntervals_tie_finished.

(* ---------- the number of intervals is at most the number of constraints ---------- *)

Lemma alternating_length : forall bs pending prev r,
  M.alternating pending prev bs = Some r ->
  (length r <= length bs + match pending with Some _ => 1 | None => 0 end)%nat.
Proof.
  induction bs as [|c bs IH]; intros pending prev r H; cbn [M.alternating] in H.
  - injection H as <-. destruct pending; cbn [length]; lia.
  - cbv zeta in H. cbn [length].
    assert (UP : forall f, match M.alternating None (Some (M.is_lower_op (fst c))) bs with
                           | Some l => Some (f :: l) | None => None end = Some r ->
                           (length r <= S (length bs))%nat).
    { intros f H0. destruct (M.alternating None _ bs) as [l|] eqn:A; [|discriminate].
      injection H0 as <-. apply IH in A. cbn [length]. lia. }
    destruct prev as [p|].
    + destruct (Bool.eqb p _); [discriminate|]. destruct (M.is_lower_op (fst c)).
      * apply IH in H. destruct pending; lia.
      * apply UP in H. destruct pending; lia.
    + destruct (M.is_lower_op (fst c)).
      * apply IH in H. destruct pending; lia.
      * apply UP in H. destruct pending; lia.
Qed.

Lemma zip_both_length ls us : (length (M.zip_both ls us) <= length ls)%nat.
Proof.
  revert us. induction ls as [|l ls IH]; intros [|u us]; cbn [M.zip_both length]; try lia.
  specialize (IH us). lia.
Qed.

Lemma heuristic_length ls us : (length (M.heuristic ls us) <= length ls + length us)%nat.
Proof.
  unfold M.heuristic. cbv zeta.
  destruct (_ || _ || _)%bool eqn:Mg.
  - assert (1 <= length ls + length us)%nat.
    { destruct ls; [|cbn [length]; lia]. cbn in Mg. discriminate. }
    destruct (M.last_opt ls), (hd_error us); cbn [length]; lia.
  - destruct ((length ls =? length us)%nat && (1 <? length ls)%nat)%bool.
    + pose proof (zip_both_length ls us). lia.
    + rewrite app_length, !map_length. lia.
Qed.

Lemma filter_split3 (l : list M.vcons) :
  (length (filter is_exact_c l) + length (filter is_lower_c l) + length (filter is_upper_c l) <= length l)%nat
  /\ length (filter is_bound_c l) = (length (filter is_lower_c l) + length (filter is_upper_c l))%nat.
Proof.
  induction l as [|x l [IH1 IH2]]; cbn [filter length]; [split; reflexivity|].
  destruct x as [[] v]; cbn [F4.is_exact_c F4.is_bound_c is_lower_c is_upper_c M.is_lower_op M.is_upper_op fst orb length];
    split; lia.
Qed.

Theorem group_length_le (cs : list M.vcons) : (length (M.group cs) <= length cs)%nat.
Proof.
  rewrite F4.group_eq, app_length, map_length.
  change (fun c : M.vcons => M.is_lower_op (fst c)) with is_lower_c.
  change (fun c : M.vcons => M.is_upper_op (fst c)) with is_upper_c.
  destruct (filter_split3 cs) as [S1 S2].
  destruct (filter is_bound_c cs) as [|b bs] eqn:FB; [cbn [length]; lia|].
  destruct (M.alternating None None (b :: bs)) as [r|] eqn:A.
  - apply alternating_length in A. lia.
  - pose proof (heuristic_length (filter is_lower_c cs) (filter is_upper_c cs)).
    change (M.heuristic _ _) with (M.heuristic (filter is_lower_c cs) (filter is_upper_c cs)). lia.
Qed.
Print Assumptions group_length_le.
