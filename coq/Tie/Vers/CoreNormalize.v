(* Tie/Vers/CoreNormalize.v -- the generic vers.normalizeConstraints (Gen/Parse/SpecVersCore.v,
   Section Core) against Vers/Model.normalize.

   [normalizeConstraints_eq] / [normalizeConstraints_no_panic]: with [fits cs], fuel above
   [length cs] and above 6 (the loop over the six operators) and a length-preserving [sort_by], the
   function returns [Done (normalize_go cs)] -- a pure function of the bundle ([g_norm]: one
   iteration; [collect_go]; [cmp_vc]: the comparison handed to slices.SortFunc).  No hypothesis
   about the ecosystem's methods or about strings.Map / unicode.IsSpace is needed for this.

   [sort_spec]: what is assumed about slices.SortFunc -- a permutation, sorted w.r.t. cmp WHEN cmp is
   a weak order on the members ([weak_order_on]; an unconditional sortedness assumption would be
   inconsistent, see [sort_spec_satisfiable]).

   [normalizeConstraints_tie]: under the agreement of the bundle with the layer record S ([Hstrip]:
   the strings.Map call is the model's strip_spaces; [Hvok]; [Hcmp]), [sort_spec], the scheme's
   comparison a total preorder on accepted texts, for constraints none of which is the star
   ([no_star]) and whose versions are pairwise non-equivalent ([FactsC16.pairwise_nonequiv]: Go's sort
   is unstable, the model's insertion sort is stable), the result is
   [option_map (map cons_text) (normalize S cs)].
   [normalize_go_star]: with a star among the constraints the Go function does NOT fail as the
   model does; it returns an error or a list that still contains "*" (contains then fails in
   parseConstraints, which is what the model's comment says). *)
From Coq Require Import ZArith List Ascii Bool Lia Permutation Sorted.
From Verif.Base Require Import Bytes GoNum GoOps Imp ImpFacts ImpErr ImpCore BytesFacts Ord.
From Verif.Vers Require Model FactsStr FactsSort FactsC16.
From Verif.Gen.Code Require SpecVers.
From Verif.Gen.Parse Require SpecVersCore.
From Verif.Tie Require Import Tactics.
From Verif.Tie.Loops Require Import Common.
From Verif.Tie.Parse Require Import Common.
From Verif.Tie.Vers Require Import Common Constraints.
Import ListNotations.
Local Open Scope Z_scope.

Module C := Verif.Gen.Parse.SpecVersCore.
Module M := Verif.Vers.Model.

(* ---------- the loop over the six operators ---------- *)

Definition ops6 : list bytes := [$">="; $"<="; $"!="; $">"; $"<"; $"="].

(* operator text and version text of a constraint without white space; ("", "") when no operator
   is a prefix *)
Definition split_op (c : bytes) : bytes * bytes :=
  match M.strip_vop M.vers_ops c with
  | Some (o, v) => (M.op_text o, v)
  | None => ([], [])
  end.

Local Open Scope imp_scope.
Definition inner_body (c : bytes)
  : Z * bytes * bytes -> res (step (Z * bytes * bytes) (option (list bytes))) :=
  fun '(k_, operator, versionStr) =>
    if Z.ltb k_ (Z.of_nat (length ops6)) then
      op <- idx ops6 k_ ;;
      if has_prefix op c then
        let operator := op in
        versionStr <- slice_from c (Z.of_nat (length op)) ;;
        Done (Break (k_, operator, versionStr))
      else
        let k_ := wrap64 (k_ + 1) in
        Done (Next (k_, operator, versionStr))
    else
      Done (Break (k_, operator, versionStr)).
Local Close Scope imp_scope.

Lemma inner_ops (c : bytes) (fuel : nat) : (6 < fuel)%nat ->
  exists k, while fuel (inner_body c) (0, [], []) = Done (Fell (k, fst (split_op c), snd (split_op c))).
Proof.
  intros H. do 7 (destruct fuel as [|fuel]; [lia|]). clear H.
  unfold split_op, M.vers_ops. cbn [M.strip_vop].
  Local Opaque has_prefix.
  assert (SF : forall p, has_prefix p c = true -> slice_from c (Z.of_nat (length p)) = Done (skipn (length p) c)).
  { intros p Hp. rewrite slice_from_Done by (apply has_prefix_len in Hp; lia). rewrite Nat2Z.id. reflexivity. }
  unfold inner_body, ops6.
  Ltac inner_step c SF p :=
    rewrite while_S; cbv beta iota;
    match goal with |- context [idx ?l ?i] => let v := eval vm_compute in (idx l i) in change (idx l i) with v end;
    cbn -[while has_prefix slice_from wrap64 skipn];
    let E := fresh "E" in let p' := eval cbn in p in destruct (has_prefix p' c) eqn:E;
      [ let X := fresh "X" in pose proof (SF _ E) as X; cbn -[skipn slice_from has_prefix] in X; rewrite X;
        cbn [bind fst snd M.op_text]; eexists; reflexivity | ];
    match goal with |- context [wrap64 ?z] => let v := eval vm_compute in (wrap64 z) in change (wrap64 z) with v end.
  inner_step c SF ($">="). inner_step c SF ($"<="). inner_step c SF ($"!=").
  inner_step c SF ($">"). inner_step c SF ($"<"). inner_step c SF ($"=").
  rewrite while_S. cbn -[while]. eexists; reflexivity.
Qed.

(* ---------- the function as a fold ---------- *)

Section Normalize.
  Variable V : Type.
  Variable V_zero : V.
  Variable E_NewVersion : bytes -> option V.
  Variable V_Compare : V -> V -> Z.
  Variable sort_by : forall A : Type, (A -> A -> Z) -> list A -> list A.
  Variable strings_Map : (Z -> Z) -> bytes -> bytes.
  Variable unicode_IsSpace : Z -> bool.

  Notation vcT := (C.versionConstraint V).
  Notation mk := (C.mk_versionConstraint V).
  Notation vc_text := (C.versionConstraint_constraint V).
  Notation vc_ver := (C.versionConstraint_version V).
  Notation normalizeConstraints :=
    (C.normalizeConstraints V V_zero E_NewVersion V_Compare sort_by strings_Map unicode_IsSpace).

  (* `strings.Map(func(r rune) rune { if unicode.IsSpace(r) { return -1 }; return r }, c)` *)
  Definition despace (c : bytes) : bytes :=
    strings_Map (fun r : Z => if unicode_IsSpace r then (-1) else r) c.

  Definition seen_has (c : bytes) (seen : list (bytes * bool)) : bool := map_get false (lookup c seen).

  Notation nstate := (Z * list vcT * list (bytes * bool))%type.

  (* one iteration of `for _, c := range constraints` *)
  Definition g_norm (c0 : bytes) (st : nstate) : option (list bytes) + nstate :=
    let '(k, vcs, seen) := st in
    let c := despace c0 in
    if beq c [] then inr (wrap64 (k + 1), vcs, seen)
    else if beq c $"*" then
      if negb (seen_has c seen)
      then inr (wrap64 (k + 1), vcs ++ [mk c V_zero], map_set c true seen)
      else inr (wrap64 (k + 1), vcs, seen)
    else
      if beq (fst (split_op c)) [] then inl None
      else if beq (snd (split_op c)) [] then inl None
      else if seen_has c seen then inr (wrap64 (k + 1), vcs, seen)
      else match E_NewVersion (snd (split_op c)) with
           | None => inl None
           | Some v => inr (wrap64 (k + 1), vcs ++ [mk c v], map_set c true seen)
           end.

  (* the comparison function handed to slices.SortFunc *)
  Definition cmp_vc (a b : vcT) : Z :=
    if beq (vc_text a) $"*" then (if beq (vc_text b) $"*" then 0 else (-1))
    else if beq (vc_text b) $"*" then 1
    else V_Compare (vc_ver a) (vc_ver b).

  (* the versionConstraint values collected by the first loop (or the error) *)
  Definition collect_go (cs : list bytes) : option (list vcT) :=
    match run g_norm cs (0, [], []) with
    | inl _ => None
    | inr (_, vcs, _) => Some vcs
    end.

  (* normalizeConstraints as a pure function of the bundle *)
  Definition normalize_go (cs : list bytes) : option (list bytes) :=
    match collect_go cs with
    | None => None
    | Some [] => Some []
    | Some vcs => Some (map vc_text (sort_by _ cmp_vc vcs))
    end.

  Lemma run_g_norm_None l : forall st r, run g_norm l st = inl r -> r = None.
  Proof.
    induction l as [|c l IH]; intros st r H; cbn [run] in H; [discriminate|].
    destruct (g_norm c st) as [r'|st'] eqn:G; [|exact (IH _ _ H)].
    injection H as <-. destruct st as [[k vcs] seen]. unfold g_norm in G.
    repeat match type of G with
    | (if ?b then _ else _) = _ => destruct b
    | match ?o with Some _ => _ | None => _ end = _ => destruct o
    end; congruence.
  Qed.

  Lemma g_norm_len c st st' : g_norm c st = inr st' ->
    (length (snd (fst st')) <= S (length (snd (fst st))))%nat.
  Proof.
    destruct st as [[k vcs] seen]. unfold g_norm.
    repeat match goal with
    | |- (if ?b then _ else _) = _ -> _ => destruct b
    | |- match ?o with Some _ => _ | None => _ end = _ -> _ => destruct o
    end; intros H; try discriminate; injection H as <-; cbn [fst snd]; rewrite ?app_length; cbn [length]; lia.
  Qed.

  Lemma run_g_norm_len l : forall st st', run g_norm l st = inr st' ->
    (length (snd (fst st')) <= length (snd (fst st)) + length l)%nat.
  Proof.
    induction l as [|c l IH]; intros st st' H; cbn [run] in H.
    - injection H as <-. lia.
    - destruct (g_norm c st) as [r|st1] eqn:G; [discriminate|].
      apply g_norm_len in G. apply IH in H. cbn [length]. lia.
  Qed.

  Lemma collect_go_len cs vcs : collect_go cs = Some vcs -> (length vcs <= length cs)%nat.
  Proof.
    unfold collect_go. destruct (run g_norm cs (0, [], [])) as [r|[[k v] s]] eqn:R; [discriminate|].
    intros H. injection H as <-. apply run_g_norm_len in R. cbn [fst snd length] in R. lia.
  Qed.

  (* `for _, vc := range vcs { sorted = append(sorted, vc.constraint) }` *)
  Definition g_out (x : vcT) (st : Z * list bytes) : option (list bytes) + (Z * list bytes) :=
    inr (wrap64 (fst st + 1), snd st ++ [vc_text x]).

  Lemma run_g_out l : forall k acc, exists k', run g_out l (k, acc) = inr (k', acc ++ map vc_text l).
  Proof.
    induction l as [|x l IH]; intros k acc; cbn [run map].
    - exists k. rewrite app_nil_r. reflexivity.
    - unfold g_out at 1. cbn [fst snd]. destruct (IH (wrap64 (k + 1)) (acc ++ [vc_text x])) as (k' & E).
      exists k'. rewrite E, <- app_assoc. reflexivity.
  Qed.

  Hypothesis sort_by_length : forall A (c : A -> A -> Z) l, length (sort_by A c l) = length l.

  Theorem normalizeConstraints_eq (cs : list bytes) (fuel : nat) :
    fits cs -> (length cs < fuel)%nat -> (6 < fuel)%nat ->
    normalizeConstraints fuel cs = Done (normalize_go cs).
  Proof.
    intros F L L6. unfold C.normalizeConstraints. cbv zeta.
    match goal with |- context [while fuel ?b ?s0] =>
      rewrite (fold_loop cs b (fun st : nstate => fst (fst st)) g_norm) end.
    2:{ intros [[k vcs] seen] c B N. cbn [fst] in B, N.
        destruct (Z.ltb_spec k (Z.of_nat (length cs))) as [_|X]; [|lia].
        rewrite (idx_nth_error _ _ _ B N). cbn [bind]. unfold g_norm. fold (despace c).
        destruct (beq (despace c) []); [reflexivity|].
        destruct (beq (despace c) $"*").
        { unfold seen_has. destruct (negb _); reflexivity. }
        destruct (inner_ops (despace c) fuel L6) as (k_ & E).
        match goal with |- context [while fuel ?b ?s0] =>
          change (while fuel b s0) with (while fuel (inner_body (despace c)) (0, [], [])) end.
        rewrite E. cbn [bind].
        destruct (beq (fst (split_op (despace c))) []); [reflexivity|].
        destruct (beq (snd (split_op (despace c))) []); [reflexivity|].
        unfold seen_has. destruct (map_get false _); [reflexivity|].
        destruct (E_NewVersion _); reflexivity. }
    2:{ intros [[k vcs] seen] K. cbn [fst] in K. rewrite K, Z.ltb_irrefl. reflexivity. }
    2:{ intros c [[k vcs] seen] [[k' vcs'] seen'] B G. cbn [fst] in *.
        assert (W : wrap64 (k + 1) = k + 1) by (apply (wrap64_succ k (Z.of_nat (length cs))); [lia | exact F]).
        unfold g_norm in G.
        repeat match type of G with
        | (if ?b then _ else _) = _ => destruct b
        | match ?o with Some _ => _ | None => _ end = _ => destruct o
        end; try discriminate; injection G as <- _ _; exact W. }
    2:{ reflexivity. }
    2:{ exact L. }
    unfold normalize_go, collect_go.
    destruct (run g_norm cs (0, [], [])) as [r|[[k vcs] seen]] eqn:R; cbn [bind].
    - apply run_g_norm_None in R. subst r. reflexivity.
    - destruct vcs as [|v0 vcs]; [reflexivity|].
      assert (LV : (length (v0 :: vcs) <= length cs)%nat).
      { apply run_g_norm_len in R. cbn [fst snd length] in R |- *. lia. }
      match goal with |- context [Z.eqb ?a 0] => replace (Z.eqb a 0) with false
        by (symmetry; apply Z.eqb_neq; cbn [length]; lia) end.
      set (sorted := sort_by _ _ (v0 :: vcs)).
      assert (LS : length sorted = length (v0 :: vcs)) by apply sort_by_length.
      match goal with |- context [while fuel ?b ?s0] =>
        rewrite (fold_loop sorted b (fun st : Z * list bytes => fst st) g_out) end.
      2:{ intros [j acc] x B N. cbn [fst] in B, N.
          destruct (Z.ltb_spec j (Z.of_nat (length sorted))) as [_|X]; [|lia].
          rewrite (idx_nth_error _ _ _ B N). reflexivity. }
      2:{ intros [j acc] K. cbn [fst] in K. rewrite K, Z.ltb_irrefl. reflexivity. }
      2:{ intros x [j acc] [j' acc'] B G. cbn [fst] in *. unfold g_out in G. injection G as <- _. cbn [fst].
          apply (wrap64_succ j (Z.of_nat (length sorted))); [lia|]. unfold fits in F. lia. }
      2:{ reflexivity. }
      2:{ lia. }
      destruct (run_g_out sorted 0 []) as (k' & E). rewrite E. cbn [bind app]. reflexivity.
  Qed.

  Lemma normalize_go_len cs l : normalize_go cs = Some l -> (length l <= length cs)%nat.
  Proof.
    unfold normalize_go. destruct (collect_go cs) as [vcs|] eqn:CG; [|discriminate].
    apply collect_go_len in CG. destruct vcs as [|v0 vcs]; intros H; injection H as <-.
    - cbn [length]. lia.
    - rewrite map_length, sort_by_length. exact CG.
  Qed.

  Corollary normalizeConstraints_no_panic (cs : list bytes) (fuel : nat) :
    fits cs -> (length cs < fuel)%nat -> (6 < fuel)%nat -> finished (normalizeConstraints fuel cs).
  Proof. intros F L L6. rewrite (normalizeConstraints_eq cs fuel F L L6). apply finished_Done. Qed.
End Normalize.
Print Assumptions normalizeConstraints_eq.
Print Assumptions normalizeConstraints_no_panic.

(* ---------- what the theorems assume about slices.SortFunc ---------- *)

(* "SortFunc requires that cmp is a strict weak ordering": here, on the members of the slice *)
Definition weak_order_on {A} (c : A -> A -> Z) (l : list A) : Prop :=
  (forall a b, In a l -> In b l -> c a b <= 0 \/ c b a <= 0) /\
  (forall a b d, In a l -> In b l -> In d l -> c a b <= 0 -> c b d <= 0 -> c a d <= 0).

(* the result is a permutation of the argument; it is sorted when cmp is a weak order on the
   members (for an inconsistent cmp no sorted permutation need exist: nothing is assumed then) *)
Definition sort_spec (sort_by : forall A : Type, (A -> A -> Z) -> list A -> list A) : Prop :=
  forall A (c : A -> A -> Z) (l : list A),
    Permutation (sort_by A c l) l /\
    (weak_order_on c l -> StronglySorted (fun a b => c a b <= 0) (sort_by A c l)).

Lemma sort_spec_length sort_by : sort_spec sort_by ->
  forall A (c : A -> A -> Z) l, length (sort_by A c l) = length l.
Proof. intros H A c l. apply Permutation_length. apply (H A c l). Qed.

(* ---------- generic list facts ---------- *)

Lemma Forall2_sorted {A B} (R : A -> B -> Prop) (P1 : A -> A -> Prop) (P2 : B -> B -> Prop) :
  (forall a b x y, R a x -> R b y -> P1 a b -> P2 x y) ->
  forall l1 l2, Forall2 R l1 l2 -> StronglySorted P1 l1 -> StronglySorted P2 l2.
Proof.
  intros H. induction 1 as [|a x l1 l2 Hax Hl IH]; intros Hs; [constructor|].
  apply StronglySorted_inv in Hs. destruct Hs as [Hs Ha]. constructor; [apply IH; exact Hs|].
  clear IH Hs. induction Hl as [|b y l1 l2 Hby Hl IH]; [constructor|].
  inversion Ha; subst. constructor; [eapply H; eassumption | apply IH; assumption].
Qed.

Lemma sorted_strengthen {A} (P1 P2 : A -> A -> Prop) (l : list A) :
  NoDup l -> (forall x y, In x l -> In y l -> x <> y -> P1 x y -> P2 x y) ->
  StronglySorted P1 l -> StronglySorted P2 l.
Proof.
  induction l as [|a l IH]; intros Nd H Hs; [constructor|].
  apply StronglySorted_inv in Hs. destruct Hs as [Hs Ha]. inversion Nd as [|? ? Na Nd']; subst.
  constructor.
  - apply IH; [exact Nd' | | exact Hs]. intros x y Hx Hy. apply H; right; assumption.
  - rewrite Forall_forall in *. intros y Hy. apply H; [left; reflexivity | right; exact Hy | | apply Ha; exact Hy].
    intros E. subst y. contradiction.
Qed.

Lemma Forall2_map_eq {A B C} (R : A -> B -> Prop) (f : A -> C) (g : B -> C) l1 l2 :
  (forall a x, R a x -> f a = g x) -> Forall2 R l1 l2 -> map f l1 = map g l2.
Proof. intros H. induction 1; cbn [map]; [reflexivity|]. f_equal; auto. Qed.

(* ---------- the tie to Vers/Model.normalize ---------- *)

Section Tie.
  Variable V : Type.
  Variable V_zero : V.
  Variable E_NewVersion : bytes -> option V.
  Variable V_Compare : V -> V -> Z.
  Variable sort_by : forall A : Type, (A -> A -> Z) -> list A -> list A.
  Variable strings_Map : (Z -> Z) -> bytes -> bytes.
  Variable unicode_IsSpace : Z -> bool.
  Variable S : M.scheme_ops.

  Notation vcT := (C.versionConstraint V).
  Notation mk := (C.mk_versionConstraint V).
  Notation vc_text := (C.versionConstraint_constraint V).
  Notation vc_ver := (C.versionConstraint_version V).
  Notation normalizeConstraints :=
    (C.normalizeConstraints V V_zero E_NewVersion V_Compare sort_by strings_Map unicode_IsSpace).
  Notation despace' := (despace strings_Map unicode_IsSpace).
  Notation g_norm' := (g_norm V V_zero E_NewVersion strings_Map unicode_IsSpace).
  Notation collect_go' := (collect_go V V_zero E_NewVersion strings_Map unicode_IsSpace).
  Notation normalize_go' := (normalize_go V V_zero E_NewVersion V_Compare sort_by strings_Map unicode_IsSpace).
  Notation cmp_vc' := (cmp_vc V V_Compare).

  (* the bundle agrees with the model's layer record *)
  Hypothesis Hstrip : forall c, despace' c = strip_spaces c.
  Hypothesis Hvok : forall s, E_NewVersion s = None <-> M.s_vok S s = false.
  Hypothesis Hcmp : forall a b va vb, E_NewVersion a = Some va -> E_NewVersion b = Some vb ->
    V_Compare va vb = Z_of_cmp (M.s_vcmp S a b).

  Definition no_star (cs : list bytes) : Prop := forall c, In c cs -> strip_spaces c <> $"*".

  (* a collected Go value and the model's constraint *)
  Definition Rvc (a : vcT) (x : M.vcons) : Prop :=
    vc_text a = cons_text x /\ E_NewVersion (snd x) = Some (vc_ver a) /\ snd x <> [].

  Definition seen_ok (seen : list (bytes * bool)) (seen_m : list bytes) : Prop :=
    forall c, seen_has c seen = mem c seen_m.

  Lemma seen_ok_set c seen seen_m : seen_ok seen seen_m -> seen_ok (map_set c true seen) (c :: seen_m).
  Proof.
    intros H c'. unfold seen_has, map_set, mem. cbn [lookup existsb].
    destruct (beq c' c); [reflexivity|]. apply H.
  Qed.

  Lemma split_op_spec c :
    match M.strip_vop M.vers_ops c with
    | Some (o, v) => split_op c = (M.op_text o, v) /\ beq (M.op_text o) [] = false
    | None => split_op c = ([], [])
    end.
  Proof.
    unfold split_op. destruct (M.strip_vop M.vers_ops c) as [[o v]|]; [|reflexivity].
    split; [reflexivity|destruct o; reflexivity].
  Qed.

  Lemma run_collect : forall cs k vcs seen seen_m,
    no_star cs -> seen_ok seen seen_m ->
    match run g_norm' cs (k, vcs, seen), M.normalize_collect S seen_m cs with
    | inl _, None => True
    | inr (_, vcs', _), Some l => exists add, vcs' = vcs ++ add /\ Forall2 Rvc add l
    | _, _ => False
    end.
  Proof.
    induction cs as [|c0 r IH]; intros k vcs seen seen_m NS SO.
    - cbn [run M.normalize_collect]. exists []. split; [rewrite app_nil_r; reflexivity|constructor].
    - assert (NSr : no_star r) by (intros c Hc; apply NS; right; exact Hc).
      assert (NS0 : strip_spaces c0 <> $"*") by (apply NS; left; reflexivity).
      cbn [run]. unfold g_norm at 1. rewrite Hstrip.
      destruct (FactsC16.blank_dec c0) as [Et|Et].
      { rewrite (FactsC16.nc_cons_blank _ _ _ _ Et), Et. cbn [beq]. apply IH; assumption. }
      rewrite (FactsC16.nc_cons_nonblank _ _ _ _ Et). cbv zeta.
      set (c := strip_spaces c0) in *.
      replace (beq c []) with false by (symmetry; apply beq_false_iff; exact Et).
      replace (beq c $"*") with false by (symmetry; apply beq_false_iff; exact NS0).
      pose proof (split_op_spec c) as SP.
      destruct (M.strip_vop M.vers_ops c) as [[o v]|] eqn:SV.
      2:{ rewrite SP. cbn [fst beq]. exact I. }
      destruct SP as [SP OP]. rewrite SP. cbn [fst snd]. rewrite OP.
      destruct v as [|y v']; [cbn [beq]; exact I|].
      change (beq (y :: v') []) with false. cbv iota.
      rewrite (SO c).
      destruct (mem c seen_m) eqn:Mm; [apply IH; assumption|].
      destruct (E_NewVersion (y :: v')) as [ver|] eqn:EV.
      + assert (OK : M.s_vok S (y :: v') = true).
        { destruct (M.s_vok S (y :: v')) eqn:OK; [reflexivity|]. apply Hvok in OK. congruence. }
        rewrite OK.
        specialize (IH (wrap64 (k + 1)) (vcs ++ [mk c ver]) (map_set c true seen)
                       (c :: seen_m) NSr (seen_ok_set _ _ _ SO)).
        destruct (run g_norm' r _) as [e|[[k' vcs'] seen']];
          destruct (M.normalize_collect S (c :: seen_m) r) as [l|]; try exact IH.
        destruct IH as (add & -> & F2). exists (mk c ver :: add). split.
        * rewrite <- app_assoc. reflexivity.
        * constructor; [|exact F2]. unfold Rvc. cbn [fst snd C.versionConstraint_constraint C.versionConstraint_version].
          split; [|split; [exact EV|discriminate]].
          unfold cons_text. cbn [fst snd]. apply strip_vop_text. exact SV.
      + apply Hvok in EV. rewrite EV. exact I.
  Qed.

  Lemma collect_tie cs : no_star cs ->
    match collect_go' cs, M.normalize_collect S [] cs with
    | None, None => True
    | Some vcs, Some l => Forall2 Rvc vcs l
    | _, _ => False
    end.
  Proof.
    intros NS. unfold collect_go.
    pose proof (run_collect cs 0 [] [] [] NS (fun c => eq_refl)) as H.
    destruct (run g_norm' cs (0, [], [])) as [e|[[k vcs] seen]];
      destruct (M.normalize_collect S [] cs) as [l|]; try exact H.
    destruct H as (add & -> & F2). exact F2.
  Qed.

  Hypothesis Hsort : sort_spec sort_by.
  Hypothesis T : TotalPreorderOn (FactsC16.vok_text S) (M.s_vcmp S).

  Lemma Rvc_ok a x : Rvc a x -> M.s_vok S (snd x) = true.
  Proof.
    intros (_ & E & _). destruct (M.s_vok S (snd x)) eqn:OK; [reflexivity|]. apply Hvok in OK. congruence.
  Qed.

  Lemma Rvc_not_star a x : Rvc a x -> beq (vc_text a) $"*" = false.
  Proof.
    intros (E & _ & N). rewrite E. unfold cons_text. destruct x as [o v]. cbn [fst snd] in *.
    destruct v as [|y v]; [congruence|]. destruct o; reflexivity.
  Qed.

  Lemma cmp_vc_model a b x y : Rvc a x -> Rvc b y ->
    cmp_vc' a b = Z_of_cmp (FactsC16.ccmp S x y).
  Proof.
    intros Ha Hb. unfold cmp_vc. rewrite (Rvc_not_star a x Ha), (Rvc_not_star b y Hb).
    destruct Ha as (_ & Ea & _), Hb as (_ & Eb & _). apply Hcmp; assumption.
  Qed.

  Lemma le0_cmp c : Z_of_cmp c <= 0 <-> c <> Gt.
  Proof. destruct c; cbv; split; intros H; try congruence; try (intros X; discriminate X); exfalso; apply H; reflexivity. Qed.

  Lemma ccmp_le_total x y : FactsC16.cok S x -> FactsC16.cok S y ->
    FactsC16.ccmp S x y <> Gt \/ FactsC16.ccmp S y x <> Gt.
  Proof.
    intros Px Py. pose proof (tpo_anti (FactsC16.TPO_ccmp S T) x y Px Py) as A.
    destruct (FactsC16.ccmp S x y); [left|left|right]; try discriminate. rewrite A. discriminate.
  Qed.

  Lemma ccmp_le_trans x y z : FactsC16.cok S x -> FactsC16.cok S y -> FactsC16.cok S z ->
    FactsC16.ccmp S x y <> Gt -> FactsC16.ccmp S y z <> Gt -> FactsC16.ccmp S x z <> Gt.
  Proof.
    intros Px Py Pz H1 H2. pose proof (FactsC16.TPO_ccmp S T) as TC.
    destruct (FactsC16.ccmp S x y) eqn:E1; [| |congruence].
    - rewrite (tpo_eq_l TC x y z Px Py Pz E1). exact H2.
    - destruct (FactsC16.ccmp S y z) eqn:E2; [| |congruence].
      + assert (E3 : FactsC16.ccmp S z y = Eq) by (rewrite (tpo_anti TC y z Py Pz), E2; reflexivity).
        pose proof (tpo_eq_l TC z y x Pz Py Px E3) as E4.
        rewrite (tpo_anti TC x y Px Py), E1 in E4. cbn [CompOpp] in E4.
        rewrite (tpo_anti TC z x Pz Px), E4. discriminate.
      + rewrite (tpo_trans TC x y z Px Py Pz E1 E2). discriminate.
  Qed.

  Lemma weak_order_vcs vcs l : Forall2 Rvc vcs l -> weak_order_on cmp_vc' vcs.
  Proof.
    intros F2.
    assert (W : forall a, In a vcs -> exists x, Rvc a x).
    { clear -F2. induction F2 as [|a x vcs l Hax _ IH]; intros b []; [subst; eauto | apply IH; assumption]. }
    split.
    - intros a b Ha Hb. destruct (W a Ha) as (x & Rx), (W b Hb) as (y & Ry).
      rewrite (cmp_vc_model a b x y Rx Ry), (cmp_vc_model b a y x Ry Rx), !le0_cmp.
      apply ccmp_le_total; [exact (Rvc_ok a x Rx) | exact (Rvc_ok b y Ry)].
    - intros a b d Ha Hb Hd. destruct (W a Ha) as (x & Rx), (W b Hb) as (y & Ry), (W d Hd) as (z & Rz).
      rewrite (cmp_vc_model a b x y Rx Ry), (cmp_vc_model b d y z Ry Rz), (cmp_vc_model a d x z Rx Rz), !le0_cmp.
      apply ccmp_le_trans; [exact (Rvc_ok a x Rx) | exact (Rvc_ok b y Ry) | exact (Rvc_ok d z Rz)].
  Qed.

  (* the tie: on constraints whose versions are pairwise non-equivalent and none of which is the
     star, normalizeConstraints returns the texts of the model's normalized constraints *)
  Theorem normalize_go_tie (cs : list bytes) :
    no_star cs -> FactsC16.pairwise_nonequiv S cs ->
    normalize_go' cs = option_map (map cons_text) (M.normalize S cs).
  Proof.
    intros NS PW. unfold normalize_go, M.normalize.
    pose proof (collect_tie cs NS) as CT.
    destruct (collect_go' cs) as [vcs|]; destruct (M.normalize_collect S [] cs) as [l|] eqn:NC; try contradiction;
      [|reflexivity].
    cbn [option_map]. destruct vcs as [|v0 vcs].
    { inversion CT; subst. reflexivity. }
    f_equal. set (vs := v0 :: vcs) in *. clearbody vs.
    destruct (Hsort _ cmp_vc' vs) as [HP HS]. specialize (HS (weak_order_vcs vs l CT)).
    destruct (Permutation_Forall2 (Permutation_sym HP) CT) as (l' & PL & F2).
    destruct (FactsC16.nc_some_spec S cs [] l NC) as (_ & Nd & Fok).
    pose proof (FactsC16.pairwise_inj_on S cs l NC PW) as Inj.
    assert (Fok' : Forall (FactsC16.cok S) l') by (apply (FactsSort.Forall_perm _ _ l); assumption).
    assert (Nd' : NoDup l') by (apply (Permutation_NoDup PL); exact Nd).
    assert (Inj' : FactsSort.inj_on (FactsC16.ccmp S) l') by (apply (FactsSort.inj_on_perm _ _ l); assumption).
    assert (S1 : StronglySorted (fun x y => FactsC16.ccmp S x y <> Gt) l').
    { apply (Forall2_sorted Rvc (fun a b => cmp_vc' a b <= 0) (fun x y => FactsC16.ccmp S x y <> Gt))
        with (l1 := sort_by _ cmp_vc' vs); [|exact F2|exact HS].
      intros a b x y Ra Rb H. rewrite (cmp_vc_model a b x y Ra Rb) in H. apply le0_cmp. exact H. }
    assert (S2 : StronglySorted (FactsSort.ltc (FactsC16.ccmp S)) l').
    { apply (sorted_strengthen _ (FactsSort.ltc (FactsC16.ccmp S)) l' Nd') in S1; [exact S1|].
      intros x y Hx Hy Ne H. unfold FactsSort.ltc.
      destruct (FactsC16.ccmp S x y) eqn:E; [|reflexivity|congruence].
      exfalso. apply Ne. apply Inj'; assumption. }
    assert (EQ : M.isort (FactsC16.ccmp S) l = l').
    { apply (FactsSort.sorted_unique _ _ _ (FactsC16.TPO_ccmp S T)).
      - apply FactsSort.isort_sorted with (P := FactsC16.cok S); [apply FactsC16.TPO_ccmp; exact T|exact Fok|exact Nd|exact Inj].
      - exact S2.
      - etransitivity; [apply FactsSort.isort_perm|exact PL].
      - apply (FactsSort.Forall_perm _ _ l); [symmetry; apply FactsSort.isort_perm|exact Fok]. }
    transitivity (map cons_text l').
    - apply (Forall2_map_eq Rvc); [|exact F2]. intros a x (E & _). exact E.
    - f_equal. symmetry. exact EQ.
  Qed.

  Theorem normalizeConstraints_tie (cs : list bytes) (fuel : nat) :
    fits cs -> (length cs < fuel)%nat -> (6 < fuel)%nat ->
    no_star cs -> FactsC16.pairwise_nonequiv S cs ->
    normalizeConstraints fuel cs = Done (option_map (map cons_text) (M.normalize S cs)).
  Proof.
    intros F L L6 NS PW.
    rewrite (normalizeConstraints_eq V V_zero E_NewVersion V_Compare sort_by strings_Map unicode_IsSpace
               (sort_spec_length sort_by Hsort) cs fuel F L L6).
    rewrite (normalize_go_tie cs NS PW). reflexivity.
  Qed.
End Tie.
Print Assumptions normalizeConstraints_tie.

(* ---------- the star ---------- *)

(* The model's normalize_collect fails on a constraint "*" (it is "unreachable through Contains;
   fails later in parseConstraint"); the Go function keeps it (once) and sorts it first.  So with a
   star among the constraints the two differ as functions, but every star of the input is still in
   the output, where parseConstraints rejects it: see CoreContains.v. *)
Section Star.
  Variable V : Type.
  Variable V_zero : V.
  Variable E_NewVersion : bytes -> option V.
  Variable V_Compare : V -> V -> Z.
  Variable sort_by : forall A : Type, (A -> A -> Z) -> list A -> list A.
  Variable strings_Map : (Z -> Z) -> bytes -> bytes.
  Variable unicode_IsSpace : Z -> bool.

  Notation vcT := (C.versionConstraint V).
  Notation vc_text := (C.versionConstraint_constraint V).
  Notation despace' := (despace strings_Map unicode_IsSpace).
  Notation g_norm' := (g_norm V V_zero E_NewVersion strings_Map unicode_IsSpace).
  Notation collect_go' := (collect_go V V_zero E_NewVersion strings_Map unicode_IsSpace).
  Notation normalize_go' := (normalize_go V V_zero E_NewVersion V_Compare sort_by strings_Map unicode_IsSpace).

  Hypothesis Hstrip : forall c, despace' c = strip_spaces c.
  Hypothesis Hperm : forall A (c : A -> A -> Z) l, Permutation (sort_by A c l) l.

  Definition seen_inv (st : Z * list vcT * list (bytes * bool)) : Prop :=
    forall c, seen_has c (snd st) = true -> In c (map vc_text (snd (fst st))).

  Lemma seen_has_set c' c seen :
    seen_has c' (map_set c true seen) = true -> c' = c \/ seen_has c' seen = true.
  Proof.
    unfold seen_has, map_set. cbn [lookup]. destruct (beq c' c) eqn:B; [left; apply beq_eq; exact B | right; assumption].
  Qed.

  Lemma g_norm_star c st st' : g_norm' c st = inr st' -> seen_inv st ->
    seen_inv st' /\
    (forall t, In t (map vc_text (snd (fst st))) -> In t (map vc_text (snd (fst st')))) /\
    (despace' c = $"*" -> In ($"*") (map vc_text (snd (fst st')))).
  Proof.
    destruct st as [[k vcs] seen]. unfold g_norm, seen_inv. cbn [fst snd]. intros G I.
    assert (ADD : forall x, (forall c', seen_has c' (map_set (despace' c) true seen) = true ->
                              In c' (map vc_text (vcs ++ [C.mk_versionConstraint V (despace' c) x])))
                            /\ (forall t, In t (map vc_text vcs) -> In t (map vc_text (vcs ++ [C.mk_versionConstraint V (despace' c) x])))
                            /\ In (despace' c) (map vc_text (vcs ++ [C.mk_versionConstraint V (despace' c) x]))).
    { intros x. rewrite map_app. cbn [map C.versionConstraint_constraint]. repeat split.
      - intros c' H. apply in_or_app. apply seen_has_set in H. destruct H as [->|H]; [right; left; reflexivity|left; apply I; exact H].
      - intros t H. apply in_or_app. left. exact H.
      - apply in_or_app. right. left. reflexivity. }
    destruct (beq (despace' c) []) eqn:B0.
    { injection G as <-. cbn [fst snd]. split; [exact I|]. split; [auto|].
      intros E. rewrite E in B0. discriminate. }
    destruct (beq (despace' c) $"*") eqn:B1.
    - destruct (seen_has (despace' c) seen) eqn:SH; cbn [negb] in G; injection G as <-; cbn [fst snd].
      + split; [exact I|]. split; [auto|]. intros E. rewrite <- E. apply I. exact SH.
      + destruct (ADD V_zero) as (A1 & A2 & A3). split; [exact A1|]. split; [exact A2|].
        intros E. rewrite <- E. exact A3.
    - destruct (beq (fst (split_op (despace' c))) []); [discriminate|].
      destruct (beq (snd (split_op (despace' c))) []); [discriminate|].
      destruct (seen_has (despace' c) seen) eqn:SH.
      + injection G as <-. cbn [fst snd]. split; [exact I|]. split; [auto|].
        intros E. rewrite E in B1. discriminate.
      + destruct (E_NewVersion _) as [v|]; [|discriminate]. injection G as <-. cbn [fst snd].
        destruct (ADD v) as (A1 & A2 & A3). split; [exact A1|]. split; [exact A2|].
        intros E. rewrite E in B1. discriminate.
  Qed.

  Lemma run_star l : forall st st', run g_norm' l st = inr st' -> seen_inv st ->
    seen_inv st' /\
    (forall t, In t (map vc_text (snd (fst st))) -> In t (map vc_text (snd (fst st')))) /\
    (forall c, In c l -> despace' c = $"*" -> In ($"*") (map vc_text (snd (fst st')))).
  Proof.
    induction l as [|c l IH]; intros st st' R I; cbn [run] in R.
    - injection R as <-. split; [exact I|]. split; [auto|]. intros c [].
    - destruct (g_norm' c st) as [r|st1] eqn:G; [discriminate|].
      destruct (g_norm_star c st st1 G I) as (I1 & M1 & S1).
      destruct (IH st1 st' R I1) as (I2 & M2 & S2).
      split; [exact I2|]. split; [auto|].
      intros c' [<-|Hc] E; [apply M2, S1; exact E | apply (S2 c' Hc E)].
  Qed.

  Theorem normalize_go_star (cs : list bytes) (c : bytes) :
    In c cs -> strip_spaces c = $"*" ->
    normalize_go' cs = None \/ exists l, normalize_go' cs = Some l /\ In ($"*") l.
  Proof.
    intros Hc E. unfold normalize_go, collect_go.
    destruct (run g_norm' cs (0, [], [])) as [r|[[k vcs] seen]] eqn:R; [left; reflexivity|].
    right.
    assert (I0 : seen_inv (0, ([] : list vcT), ([] : list (bytes * bool)))) by (intros c' H; discriminate H).
    destruct (run_star cs _ _ R I0) as (_ & _ & St). cbn [fst snd] in St.
    assert (IN : In ($"*") (map vc_text vcs)) by (apply (St c Hc); rewrite Hstrip; exact E).
    destruct vcs as [|v0 vcs]; [destruct IN|].
    eexists. split; [reflexivity|].
    apply (Permutation_in _ (Permutation_map vc_text (Permutation_sym (Hperm _ _ (v0 :: vcs))))). exact IN.
  Qed.
End Star.
Print Assumptions normalize_go_star.

(* ---------- sort_spec is satisfiable ---------- *)

(* An insertion sort by the sign of cmp meets [sort_spec]: the hypothesis about slices.SortFunc that
   the ties use is consistent (an unconditional "the result is sorted for every cmp" would not be:
   for cmp = fun _ _ => 1 no list of two elements is sorted). *)
Fixpoint ins_z {A} (c : A -> A -> Z) (x : A) (l : list A) : list A :=
  match l with
  | [] => [x]
  | y :: r => if Z.leb (c x y) 0 then x :: l else y :: ins_z c x r
  end.
Definition isort_z (A : Type) (c : A -> A -> Z) (l : list A) : list A := fold_right (ins_z c) [] l.

Lemma ins_z_perm {A} (c : A -> A -> Z) x l : Permutation (ins_z c x l) (x :: l).
Proof.
  induction l as [|y r IH]; cbn [ins_z]; [reflexivity|].
  destruct (Z.leb (c x y) 0); [reflexivity|].
  etransitivity; [apply perm_skip; exact IH | apply perm_swap].
Qed.

Lemma isort_z_perm {A} (c : A -> A -> Z) l : Permutation (isort_z A c l) l.
Proof.
  induction l as [|x l IH]; cbn [isort_z fold_right]; [reflexivity|].
  etransitivity; [apply ins_z_perm|]. apply perm_skip. exact IH.
Qed.

Lemma ins_z_sorted {A} (c : A -> A -> Z) x l :
  weak_order_on c (x :: l) -> StronglySorted (fun a b => c a b <= 0) l ->
  StronglySorted (fun a b => c a b <= 0) (ins_z c x l).
Proof.
  intros [Tot Tr]. induction l as [|y r IH]; intros Hs; cbn [ins_z].
  - constructor; constructor.
  - apply StronglySorted_inv in Hs. destruct Hs as [Hs Hy].
    destruct (Z.leb_spec (c x y) 0) as [Le|Gt].
    + constructor; [constructor; assumption|].
      constructor; [exact Le|]. rewrite Forall_forall in *. intros z Hz.
      apply (Tr x y z); [left; reflexivity | right; left; reflexivity | right; right; exact Hz | exact Le | apply Hy; exact Hz].
    + assert (Lyx : c y x <= 0).
      { destruct (Tot x y) as [H|H]; [left; reflexivity | right; left; reflexivity | lia | exact H]. }
      constructor.
      * apply IH; [| |exact Hs].
        -- intros a b Ha Hb. apply Tot; (destruct Ha as [->|Ha]; [left; reflexivity | right; right; exact Ha])
             || (destruct Hb as [->|Hb]; [left; reflexivity | right; right; exact Hb]).
        -- intros a b d Ha Hb Hd. apply Tr.
           ++ destruct Ha as [->|Ha]; [left; reflexivity | right; right; exact Ha].
           ++ destruct Hb as [->|Hb]; [left; reflexivity | right; right; exact Hb].
           ++ destruct Hd as [->|Hd]; [left; reflexivity | right; right; exact Hd].
      * rewrite Forall_forall in *. intros z Hz.
        apply (Permutation_in _ (ins_z_perm c x r)) in Hz. destruct Hz as [<-|Hz]; [exact Lyx | apply Hy; exact Hz].
Qed.

Theorem sort_spec_satisfiable : sort_spec isort_z.
Proof.
  intros A c l. split; [apply isort_z_perm|].
  induction l as [|x l IH]; intros W; cbn [isort_z fold_right]; [constructor|].
  assert (Wl : weak_order_on c l).
  { destruct W as [Tot Tr]. split.
    - intros a b Ha Hb. apply Tot; right; assumption.
    - intros a b d Ha Hb Hd. apply Tr; right; assumption. }
  apply ins_z_sorted; [|apply IH; exact Wl].
  destruct W as [Tot Tr]. pose proof (isort_z_perm c l) as P.
  assert (Sub : forall a, In a (x :: fold_right (ins_z c) [] l) -> In a (x :: l)).
  { intros a [->|Ha]; [left; reflexivity | right; apply (Permutation_in _ P); exact Ha]. }
  split.
  - intros a b Ha Hb. apply Tot; apply Sub; assumption.
  - intros a b d Ha Hb Hd. apply Tr; apply Sub; assumption.
Qed.
Print Assumptions sort_spec_satisfiable.

(* the hypotheses of the tie are jointly satisfiable, for every layer record: the bundle read off
   the model (versions are their texts) *)
Corollary normalizeConstraints_tie_model_bundle (S : M.scheme_ops) (cs : list bytes) (fuel : nat) :
  TotalPreorderOn (FactsC16.vok_text S) (M.s_vcmp S) ->
  fits cs -> (length cs < fuel)%nat -> (6 < fuel)%nat ->
  no_star cs -> FactsC16.pairwise_nonequiv S cs ->
  C.normalizeConstraints bytes []
    (fun s => if M.s_vok S s then Some s else None)
    (fun a b => Z_of_cmp (M.s_vcmp S a b))
    isort_z (fun _ c => strip_spaces c) (fun _ => false) fuel cs
  = Done (option_map (map cons_text) (M.normalize S cs)).
Proof.
  intros T F L L6 NS PW.
  apply (normalizeConstraints_tie bytes [] _ _ isort_z _ _ S); try assumption.
  - intros c. reflexivity.
  - intros s. destruct (M.s_vok S s); split; intros H; congruence.
  - intros a b va vb Ha Hb. destruct (M.s_vok S a); [|discriminate]. destruct (M.s_vok S b); [|discriminate].
    injection Ha as <-. injection Hb as <-. reflexivity.
  - exact sort_spec_satisfiable.
Qed.
Print Assumptions normalizeConstraints_tie_model_bundle.
