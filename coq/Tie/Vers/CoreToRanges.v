(* Tie/Vers/CoreToRanges.v — the generated generic function [toRanges] (Gen/Parse/SpecVersCore.v,
   Section Core; bundle variables VR, E_Name, E_NewVersionRange) never panics, terminates with fuel
   above the number of constraint texts, and computes: parseConstraints, then
   groupConstraintsIntoIntervals (= the model's [group], CoreGroupTie.v), then for every interval
   the text of the printer that the switch on e.Name() selects ([Printers.printers]: the same
   association as the generated style table), every non-empty text through e.NewVersionRange; an
   error when a text is rejected, or when the name is not one of the eleven and there is at least
   one interval.

   [toRanges_tie]          for EVERY list of texts (no hypothesis on the bundle):
                           fits cs -> length cs < fuel -> toRanges fuel cs = Done (to_ranges_m cs)
   [toRanges_no_panic]     the corollary [finished (toRanges fuel cs)]
   [toRanges_normalize]    on the texts of a list that the model's [normalize] returned, the ranges are
                           those of the model's texts  filter_some (map (native_text st) (group ncs))
                           ([contains_generic]'s [texts]) for the style the generated style table gives
                           e.Name()
   [any_range_parse_all]   the model's [any_range] over texts = "all texts parse, some range contains",
                           under the agreement of E_NewVersionRange / VR_Contains with [s_rcontains]. *)
From Coq Require Import ZArith List Ascii Bool Lia.
From Verif.Base Require Import Bytes GoNum GoOps Imp ImpFacts ImpErr ImpCore BytesFacts.
From Verif.Vers Require Model FactsC04.
From Verif.Gen Require VersDispatch.
From Verif.Gen.Code Require SpecVers.
From Verif.Gen.Parse Require SpecVers SpecVersCore.
From Verif.Tie.Loops Require Import Common.
From Verif.Tie.Parse Require Import Common.
From Verif.Tie.Vers Require Import Common.
From Verif.Tie.Vers Require Code Constraints Printers Texts CoreGroupTie.
Import ListNotations.
Local Open Scope Z_scope.

Module GC := Verif.Gen.Code.SpecVers.
Module P := Verif.Gen.Parse.SpecVers.
Module C := Verif.Gen.Parse.SpecVersCore.
Module M := Verif.Vers.Model.
Module D := Verif.Gen.VersDispatch.

Notation conc_cons := Constraints.conc_cons.
Notation conc_iv := Printers.conc_iv.
Notation printers := Printers.printers.

Local Opaque wrap64.

Lemma parse_constraints_m_length cs l :
  Constraints.parse_constraints_m cs = Some l -> (length l <= length cs)%nat.
Proof.
  revert l. induction cs as [|c cs IH]; intros l H; cbn [Constraints.parse_constraints_m] in H.
  - injection H as <-. cbn [length]. lia.
  - cbn [length]. destruct (trim_space c) as [|t0 t]; [specialize (IH l H); lia|].
    destruct (Constraints.parse_constraint_m (t0 :: t)); [|discriminate].
    destruct (Constraints.parse_constraints_m cs) as [l'|]; [|discriminate].
    injection H as <-. specialize (IH l' eq_refl). cbn [length]. lia.
Qed.

(* every printer returns at most one text (on an interval without `exclude`) *)
Lemma printer_length eco pr i :
  In (eco, pr) printers -> GC.interval_exclude i = [] -> (length (pr i) <= 1)%nat.
Proof.
  intros Hin Hex. destruct (Printers.printers_match_style_table eco pr Hin) as (st & _ & T).
  rewrite (T i Hex). destruct (M.native_text st (Printers.abs_iv i)); cbn [Printers.as_list length]; lia.
Qed.

Lemma conc_iv_exclude i : GC.interval_exclude (conc_iv i) = [].
Proof. reflexivity. Qed.

(* the switch on e.Name(): the hand-written association list of Printers.v is the if-chain *)
Lemma lookup_printers (e : bytes) :
  match lookup e printers with
  | Some pr => In (e, pr) printers /\ exists st, lookup e D.style_table = Some st
  | None => lookup e D.style_table = None
  end.
Proof.
  unfold printers, D.style_table. cbn [lookup].
  repeat match goal with
  | |- context [if beq e ?k then _ else _] =>
      let B := fresh "B" in destruct (beq e k) eqn:B;
      [apply beq_eq in B; subst e; split; [cbn [In]; tauto | eexists; reflexivity]|]
  end.
  reflexivity.
Qed.

Section ToRanges.
  Variable VR : Type.
  Variable E_Name : bytes.
  Variable E_NewVersionRange : bytes -> option VR.

  (* every text through e.NewVersionRange; an error when one is rejected *)
  Fixpoint parse_all (ts : list bytes) : option (list VR) :=
    match ts with
    | [] => Some []
    | t :: r => match E_NewVersionRange t with
                | None => None
                | Some x => option_map (cons x) (parse_all r)
                end
    end.

  Definition nonempty (t : bytes) : bool := negb (beq t []).

  Definition to_ranges_ivs (ivs : list GC.interval) : option (list VR) :=
    match lookup E_Name printers with
    | None => match ivs with [] => Some [] | _ => None end   (* "ecosystem not yet supported for VERS" *)
    | Some pr => parse_all (filter nonempty (flat_map pr ivs))
    end.

  Definition to_ranges_m (cs : list bytes) : option (list VR) :=
    match Constraints.parse_constraints_m cs with
    | Some (x :: l) => to_ranges_ivs (map conc_iv (M.group (x :: l)))
    | _ => None
    end.

  Lemma parse_all_app a b :
    parse_all (a ++ b) = match parse_all a, parse_all b with
                         | Some x, Some y => Some (x ++ y)
                         | _, _ => None
                         end.
  Proof.
    induction a as [|t a IH]; cbn [app parse_all].
    - destruct (parse_all b); reflexivity.
    - destruct (E_NewVersionRange t); [|reflexivity]. rewrite IH.
      destruct (parse_all a), (parse_all b); reflexivity.
  Qed.

  (* as many ranges as texts (contains tests `len(ranges) == 0`; the model tests its texts) *)
  Lemma parse_all_length ts rs : parse_all ts = Some rs -> length rs = length ts.
  Proof.
    revert rs. induction ts as [|t ts IH]; intros rs H; cbn [parse_all] in H.
    - injection H as <-. reflexivity.
    - destruct (E_NewVersionRange t); [|discriminate].
      destruct (parse_all ts) as [l|]; [|discriminate]. injection H as <-.
      cbn [length]. rewrite (IH l eq_refl). reflexivity.
  Qed.

  (* the inner loop: `for _, rangeStr := range rangeStrs` *)
  Definition g_inner (t : bytes) (st : Z * list VR) : option (list VR) + (Z * list VR) :=
    let '(k, ranges) := st in
    if beq t [] then inr (wrap64 (k + 1), ranges)
    else match E_NewVersionRange t with
         | None => inl None
         | Some r => inr (wrap64 (k + 1), ranges ++ [r])
         end.

  Lemma run_inner : forall ts k ranges,
    match run g_inner ts (k, ranges) with
    | inl r => r = None /\ parse_all (filter nonempty ts) = None
    | inr (_, ranges') => exists rs, parse_all (filter nonempty ts) = Some rs /\ ranges' = ranges ++ rs
    end.
  Proof.
    induction ts as [|t ts IH]; intros k ranges; cbn [run filter].
    - exists []. split; [reflexivity | rewrite app_nil_r; reflexivity].
    - unfold g_inner at 1. change (nonempty t) with (negb (beq t [])). destruct (beq t []); cbn [negb].
      + apply IH.
      + cbn [parse_all]. destruct (E_NewVersionRange t) as [r|]; [|split; reflexivity].
        specialize (IH (wrap64 (k + 1)) (ranges ++ [r])).
        destruct (run g_inner ts (wrap64 (k + 1), ranges ++ [r])) as [x|[k' ranges']].
        * destruct IH as [-> ->]. split; reflexivity.
        * destruct IH as (rs & -> & ->). exists (r :: rs). split; [reflexivity|].
          rewrite <- app_assoc. reflexivity.
  Qed.

  (* the outer loop: `for _, interval := range intervals` *)
  Definition g_outer (i : GC.interval) (st : Z * list VR) : option (list VR) + (Z * list VR) :=
    let '(k, ranges) := st in
    match lookup E_Name printers with
    | None => inl None
    | Some pr => match run g_inner (pr i) (0, ranges) with
                 | inl r => inl r
                 | inr (_, ranges') => inr (wrap64 (k + 1), ranges')
                 end
    end.

  Lemma run_outer : forall ivs k ranges,
    match run g_outer ivs (k, ranges) with
    | inl r => r = None /\ to_ranges_ivs ivs = None
    | inr (_, ranges') => exists rs, to_ranges_ivs ivs = Some rs /\ ranges' = ranges ++ rs
    end.
  Proof.
    unfold to_ranges_ivs.
    induction ivs as [|i ivs IH]; intros k ranges; cbn [run flat_map].
    - exists []. split; [destruct (lookup E_Name printers); reflexivity | rewrite app_nil_r; reflexivity].
    - unfold g_outer at 1. destruct (lookup E_Name printers) as [pr|] eqn:L; [|split; reflexivity].
      pose proof (run_inner (pr i) 0 ranges) as RI.
      rewrite filter_app, parse_all_app.
      destruct (run g_inner (pr i) (0, ranges)) as [x|[k' ranges']].
      + destruct RI as [-> ->]. split; reflexivity.
      + destruct RI as (rs & -> & ->).
        specialize (IH (wrap64 (k + 1)) (ranges ++ rs)). try rewrite L in IH.
        destruct (run g_outer ivs (wrap64 (k + 1), ranges ++ rs)) as [x|[k'' ranges'']].
        * destruct IH as [-> ->]. split; reflexivity.
        * destruct IH as (rs' & -> & ->). exists (rs ++ rs'). split; [reflexivity|].
          rewrite app_assoc. reflexivity.
  Qed.

  Theorem toRanges_tie (cs : list bytes) (fuel : nat) :
    fits cs -> (length cs < fuel)%nat ->
    C.toRanges VR E_Name E_NewVersionRange fuel cs = Done (to_ranges_m cs).
  Proof.
    intros Hfit Hf. unfold C.toRanges, to_ranges_m.
    rewrite (Constraints.parseConstraints_tie cs fuel Hfit Hf). cbn [bind].
    destruct (Constraints.parse_constraints_m cs) as [[|x l]|] eqn:PC; cbn [Constraints.nonempty_result];
      [reflexivity | | reflexivity].
    pose proof (parse_constraints_m_length cs _ PC) as LP.
    assert (Hfit' : fits (x :: l)) by (unfold fits in *; lia).
    rewrite (CoreGroupTie.groupConstraintsIntoIntervals_tie (x :: l) fuel Hfit') by lia. cbn [bind].
    pose proof (CoreGroupTie.group_length_le (x :: l)) as LG.
    set (ivs := map conc_iv (M.group (x :: l))).
    assert (Li : (length ivs <= length cs)%nat) by (unfold ivs; rewrite map_length; lia).
    assert (Hex : forall i, In i ivs -> GC.interval_exclude i = []).
    { intros i Hi. unfold ivs in Hi. apply in_map_iff in Hi. destruct Hi as (j & <- & _). reflexivity. }
    clearbody ivs. cbv zeta.
    match goal with |- context [while fuel ?b ?s0] =>
      rewrite (fold_loop ivs b (fun st => fst st) g_outer) end.
    2:{ intros [k ranges] i B N. cbn [fst] in B, N.
        destruct (Z.ltb_spec k (Z.of_nat (length ivs))) as [_|X]; [|lia].
        rewrite (idx_nth_error _ _ _ B N). cbn [bind].
        pose proof (Hex i (nth_error_In _ _ N)) as Hi.
        (* the inner loop, for any list of at most one text *)
        assert (J : forall ts, (length ts <= 1)%nat ->
          bind (while (R := option (list VR)) fuel (fun '(k_, ranges0) =>
                  if Z.ltb k_ (Z.of_nat (length ts)) then
                    bind (idx ts k_) (fun rangeStr =>
                    if beq rangeStr [] then Done (Next (wrap64 (k_ + 1), ranges0))
                    else match E_NewVersionRange rangeStr with
                         | None => Done (Ret None)
                         | Some r_ => Done (Next (wrap64 (k_ + 1), ranges0 ++ [r_]))
                         end)
                  else Done (Break (k_, ranges0))) (0, ranges))
               (fun lp => match lp with
                          | Fell (k_, ranges0) => Done (Next (wrap64 (k + 1), ranges0))
                          | Returned r2 => Done (Ret r2)
                          end) =
          match (match run g_inner ts (0, ranges) with
                 | inl r => inl r
                 | inr (_, ranges') => inr (wrap64 (k + 1), ranges')
                 end : option (list VR) + (Z * list VR)) with
          | inl r => Done (Ret r)
          | inr st' => Done (Next st')
          end).
        { intros ts Lts.
          match goal with |- context [while fuel ?b ?s0] =>
            rewrite (fold_loop ts b (fun st => fst st) g_inner) end.
          - destruct (run g_inner ts (0, ranges)) as [r|[k' ranges']]; reflexivity.
          - intros [k_ r0] t B0 N0. cbn [fst] in B0, N0.
            destruct (Z.ltb_spec k_ (Z.of_nat (length ts))) as [_|X]; [|lia].
            rewrite (idx_nth_error _ _ _ B0 N0). cbn [bind]. unfold g_inner.
            destruct (beq t []); [reflexivity|]. destruct (E_NewVersionRange t); reflexivity.
          - intros [k_ r0] K. cbn [fst] in K. rewrite K, Z.ltb_irrefl. reflexivity.
          - intros t [k_ r0] [k_' r0'] B0 G. cbn [fst] in *. unfold g_inner in G.
            assert (W : wrap64 (k_ + 1) = k_ + 1) by (apply (wrap64_succ k_ (Z.of_nat (length ts))); lia).
            destruct (beq t []); [injection G as <- _; exact W|].
            destruct (E_NewVersionRange t); [|discriminate]. injection G as <- _. exact W.
          - reflexivity.
          - lia. }
        unfold g_outer.
        pose proof (lookup_printers E_Name) as LK.
        unfold printers at 1 in LK. unfold printers at 1. cbn [lookup] in LK |- *.
        repeat match goal with
        | |- context [if beq E_Name ?key then _ else _] =>
            destruct (beq E_Name key);
            [destruct LK as [LK _]; apply J; exact (printer_length _ _ _ LK Hi)|]
        end.
        reflexivity. }
    2:{ intros [k ranges] K. cbn [fst] in K. rewrite K, Z.ltb_irrefl. reflexivity. }
    2:{ intros i [k ranges] [k' ranges'] B G. cbn [fst] in *. unfold g_outer in G.
        destruct (lookup E_Name printers); [|discriminate].
        destruct (run g_inner _ _) as [r|[k'' r'']]; [discriminate|]. injection G as <- _.
        apply (wrap64_succ k (Z.of_nat (length ivs))); [lia|]. unfold fits in Hfit. lia. }
    2:{ reflexivity. }
    2:{ lia. }
    pose proof (run_outer ivs 0 []) as RO.
    destruct (run g_outer ivs (0, [])) as [r|[k' ranges']]; cbn [bind].
    - destruct RO as [-> ->]. reflexivity.
    - destruct RO as (rs & -> & ->). reflexivity.
  Qed.

  Corollary toRanges_no_panic (cs : list bytes) (fuel : nat) :
    fits cs -> (length cs < fuel)%nat -> finished (C.toRanges VR E_Name E_NewVersionRange fuel cs).
  Proof. intros Hfit Hf. rewrite (toRanges_tie cs fuel Hfit Hf). apply finished_Done. Qed.
End ToRanges.
Print Assumptions toRanges_tie.
Print Assumptions toRanges_no_panic.
Print Assumptions parse_all_length.

(* ---------- on the model's normalized constraints: the model's texts ---------- *)

Lemma native_text_nonempty st i t : M.native_text st i = Some t -> t <> [].
Proof.
  intros H. unfold M.native_text in H.
  destruct i as [[[a ia]|] [[b ib]|] [e|]]; cbn [M.i_exact M.i_lower M.i_upper] in H;
    destruct st; try destruct ia; try destruct ib; try discriminate;
    injection H as <-; cbn [M.lo_op M.up_op app list_ascii_of_string]; discriminate.
Qed.

Lemma filter_nonempty_texts st ivs :
  filter nonempty (M.filter_some (map (M.native_text st) ivs)) = M.filter_some (map (M.native_text st) ivs).
Proof.
  induction ivs as [|i ivs IH]; cbn [map M.filter_some filter]; [reflexivity|].
  destruct (M.native_text st i) as [t|] eqn:T; [|exact IH].
  cbn [filter]. pose proof (native_text_nonempty st i t T) as NE.
  unfold nonempty at 1. destruct t; [congruence|]. cbn [beq negb]. rewrite IH. reflexivity.
Qed.

Section OnModel.
  Variable VR : Type.
  Variable E_Name : bytes.
  Variable E_NewVersionRange : bytes -> option VR.

  (* what the model's contains_generic calls [texts], through e.NewVersionRange *)
  Definition model_ranges (ncs : list M.vcons) : option (list VR) :=
    match lookup E_Name D.style_table with
    | None => match M.group ncs with [] => Some [] | _ => None end
    | Some st => parse_all VR E_NewVersionRange (M.filter_some (map (M.native_text st) (M.group ncs)))
    end.

  Theorem toRanges_normalize (S : M.scheme_ops) (cs : list bytes) (ncs : list M.vcons) (fuel : nat) :
    M.normalize S cs = Some ncs -> fits ncs -> (length ncs < fuel)%nat ->
    C.toRanges VR E_Name E_NewVersionRange fuel (map Constraints.cons_text ncs) =
    Done (match ncs with [] => None | _ => model_ranges ncs end).
  Proof.
    intros N Hfit Hf.
    rewrite toRanges_tie by (unfold fits in *; rewrite map_length; assumption).
    unfold to_ranges_m.
    rewrite (Constraints.parse_constraints_m_wf ncs (Constraints.normalize_wf S cs ncs N)).
    destruct ncs as [|x l]; [reflexivity|]. f_equal.
    unfold to_ranges_ivs, model_ranges.
    pose proof (lookup_printers E_Name) as LK.
    destruct (lookup E_Name printers) as [pr|].
    - destruct LK as [Hin (st & Lst)]. rewrite Lst.
      rewrite (Texts.printers_texts_normalize S cs (x :: l) E_Name pr st N Hin Lst).
      rewrite filter_nonempty_texts. reflexivity.
    - rewrite LK. destruct (M.group (x :: l)); reflexivity.
  Qed.
End OnModel.
Print Assumptions toRanges_normalize.

(* ---------- the model's any_range is "all texts parse, some range contains" ---------- *)

Section AnyRange.
  Variable V VR : Type.
  Variable E_NewVersionRange : bytes -> option VR.
  Variable VR_Contains : VR -> V -> bool.
  Variable S : M.scheme_ops.
  Variable v : bytes.
  Variable pv : V.   (* e.NewVersion v *)
  Hypothesis rcontains_agrees : forall t,
    M.s_rcontains S t v = match E_NewVersionRange t with
                          | None => None
                          | Some r => Some (VR_Contains r pv)
                          end.

  Theorem any_range_parse_all (texts : list bytes) :
    M.any_range S texts v =
    match parse_all VR E_NewVersionRange texts with
    | None => M.VErr
    | Some rs => if existsb (fun r => VR_Contains r pv) rs then M.VTrue else M.VFalse
    end.
  Proof.
    induction texts as [|t r IH]; cbn [M.any_range parse_all]; [reflexivity|].
    rewrite rcontains_agrees. destruct (E_NewVersionRange t) as [x|]; [|reflexivity].
    rewrite IH. destruct (parse_all VR E_NewVersionRange r) as [rs|]; cbn [option_map existsb].
    - destruct (VR_Contains x pv); cbn [orb]; [|reflexivity].
      destruct (existsb _ rs); reflexivity.
    - destruct (VR_Contains x pv); reflexivity.
  Qed.
End AnyRange.
Print Assumptions any_range_parse_all.
