(* Tie/Vers/Printers.v — the eleven generated printers [intervalTo<Scheme>Ranges] of pkg/spec/vers
   (Gen/Parse/SpecVers.v; loop-free, no checked primitive: total functions, nothing can panic)
   print what the model's [native_text] (Vers/Model.v) prints for the style that the generated
   [style_table] (Gen/VersDispatch.v) gives the ecosystem.

   Representation.  A Go `interval` is a record of six fields in which the zero value "" stands
   for "absent"; the model's interval has [option] bounds.  [abs_iv] is the abstraction: a bound /
   exact text is [None] iff the Go field is "", and the inclusive flags are carried along.  The Go
   printers return a slice of at most one text: [as_list] of the model's [option].
   The field `exclude` has no counterpart in the model: groupConstraintsIntoIntervals never sets
   it ("Excludes are handled separately in the contains function").  The theorems are stated for
   [interval_exclude i = []]; [exclude_prints_nothing] says what the code does otherwise (no text,
   unless `exact` is set), and [alpine_ignores_exclude] that the alpine printer — alone — has no
   such test (it prints the bounds even when `exclude` is set; unreachable from Contains). *)
From Coq Require Import ZArith List Ascii Bool Lia.
From Verif.Base Require Import Bytes GoNum GoOps Imp ImpErr BytesFacts.
From Verif.Vers Require Model.
From Verif.Gen Require VersDispatch.
From Verif.Gen.Code Require SpecVers.
From Verif.Gen.Parse Require SpecVers.
From Verif.Tie.Vers Require Code.
Import ListNotations.
Local Open Scope Z_scope.

Module G := Verif.Gen.Code.SpecVers.
Module P := Verif.Gen.Parse.SpecVers.
Module M := Verif.Vers.Model.
Module D := Verif.Gen.VersDispatch.

(* "" is absent *)
Definition abs_bound (t : bytes) (inc : bool) : option (bytes * bool) :=
  match t with [] => None | _ => Some (t, inc) end.
Definition abs_text (t : bytes) : option bytes :=
  match t with [] => None | _ => Some t end.

Definition abs_iv (i : G.interval) : M.interval :=
  {| M.i_lower := abs_bound (G.interval_lower i) (G.interval_lowerInclusive i);
     M.i_upper := abs_bound (G.interval_upper i) (G.interval_upperInclusive i);
     M.i_exact := abs_text (G.interval_exact i) |}.

(* the Go value of a model interval (exclude unset) *)
Definition conc_iv (i : M.interval) : G.interval :=
  G.mk_interval
    (match M.i_lower i with Some (a, _) => a | None => [] end)
    (match M.i_lower i with Some (_, b) => b | None => false end)
    (match M.i_upper i with Some (a, _) => a | None => [] end)
    (match M.i_upper i with Some (_, b) => b | None => false end)
    (match M.i_exact i with Some a => a | None => [] end)
    [].

Definition as_list (o : option bytes) : list bytes :=
  match o with Some t => [t] | None => [] end.

Ltac printer_tac f :=
  let lo := fresh "lo" in let li := fresh "li" in let up := fresh "up" in
  let ui := fresh "ui" in let ex := fresh "ex" in let exc := fresh "exc" in
  intros [lo li up ui ex exc] E; cbn [G.interval_exclude] in E; subst exc;
  unfold f, abs_iv, M.native_text;
  cbn [G.interval_lower G.interval_lowerInclusive G.interval_upper G.interval_upperInclusive
       G.interval_exact G.interval_exclude M.i_lower M.i_upper M.i_exact abs_bound abs_text];
  rewrite ?Code.ensureVPrefix_tie; unfold M.ensure_v;
  destruct ex as [|? ?]; [|reflexivity];
  destruct lo as [|? ?], up as [|? ?], li, ui; try reflexivity;
  repeat match goal with
  | |- context [has_prefix ?p ?s] => destruct (has_prefix p s)
  end; reflexivity.

Theorem alpine_printer_tie : forall i, G.interval_exclude i = [] ->
  P.intervalToAlpineRanges i = as_list (M.native_text M.NSpace (abs_iv i)).
Proof. printer_tac P.intervalToAlpineRanges. Qed.
Print Assumptions alpine_printer_tie.

Theorem cargo_printer_tie : forall i, G.interval_exclude i = [] ->
  P.intervalToCargoRanges i = as_list (M.native_text M.NComma (abs_iv i)).
Proof. printer_tac P.intervalToCargoRanges. Qed.
Print Assumptions cargo_printer_tie.

Theorem debian_printer_tie : forall i, G.interval_exclude i = [] ->
  P.intervalToDebianRanges i = as_list (M.native_text M.NComma (abs_iv i)).
Proof. printer_tac P.intervalToDebianRanges. Qed.
Print Assumptions debian_printer_tie.

Theorem gem_printer_tie : forall i, G.interval_exclude i = [] ->
  P.intervalToGemRanges i = as_list (M.native_text M.NComma (abs_iv i)).
Proof. printer_tac P.intervalToGemRanges. Qed.
Print Assumptions gem_printer_tie.

Theorem golang_printer_tie : forall i, G.interval_exclude i = [] ->
  P.intervalToGolangRanges i = as_list (M.native_text M.NGolang (abs_iv i)).
Proof. printer_tac P.intervalToGolangRanges. Qed.
Print Assumptions golang_printer_tie.

Theorem maven_printer_tie : forall i, G.interval_exclude i = [] ->
  P.intervalToMavenRanges i = as_list (M.native_text M.NMaven (abs_iv i)).
Proof. printer_tac P.intervalToMavenRanges. Qed.
Print Assumptions maven_printer_tie.

Theorem npm_printer_tie : forall i, G.interval_exclude i = [] ->
  P.intervalToNpmRanges i = as_list (M.native_text M.NSpace (abs_iv i)).
Proof. printer_tac P.intervalToNpmRanges. Qed.
Print Assumptions npm_printer_tie.

Theorem nuget_printer_tie : forall i, G.interval_exclude i = [] ->
  P.intervalToNugetRanges i = as_list (M.native_text M.NNuget (abs_iv i)).
Proof. printer_tac P.intervalToNugetRanges. Qed.
Print Assumptions nuget_printer_tie.

Theorem pypi_printer_tie : forall i, G.interval_exclude i = [] ->
  P.intervalToPypiRanges i = as_list (M.native_text M.NPypi (abs_iv i)).
Proof. printer_tac P.intervalToPypiRanges. Qed.
Print Assumptions pypi_printer_tie.

Theorem rpm_printer_tie : forall i, G.interval_exclude i = [] ->
  P.intervalToRpmRanges i = as_list (M.native_text M.NComma (abs_iv i)).
Proof. printer_tac P.intervalToRpmRanges. Qed.
Print Assumptions rpm_printer_tie.

Theorem semver_printer_tie : forall i, G.interval_exclude i = [] ->
  P.intervalToSemverRanges i = as_list (M.native_text M.NSpace (abs_iv i)).
Proof. printer_tac P.intervalToSemverRanges. Qed.
Print Assumptions semver_printer_tie.

(* ---------- the switch on e.Name() in toRanges ---------- *)

(* toRanges itself is a generic function (outside the translated fragment); this is its switch,
   written by hand: ecosystem name -> the printer it calls.  [printers_match_style_table]: the
   names are exactly the keys of the GENERATED style table, in the same order, and every printer
   prints the model's text for the style the table gives. *)
Definition printers : list (bytes * (G.interval -> list bytes)) := [
  ($"alpine", P.intervalToAlpineRanges);
  ($"cargo", P.intervalToCargoRanges);
  ($"debian", P.intervalToDebianRanges);
  ($"gem", P.intervalToGemRanges);
  ($"maven", P.intervalToMavenRanges);
  ($"npm", P.intervalToNpmRanges);
  ($"nuget", P.intervalToNugetRanges);
  ($"pypi", P.intervalToPypiRanges);
  ($"rpm", P.intervalToRpmRanges);
  ($"semver", P.intervalToSemverRanges);
  ($"golang", P.intervalToGolangRanges)
].

Theorem printers_keys : map fst printers = map fst D.style_table.
Proof. reflexivity. Qed.
Print Assumptions printers_keys.

Theorem printers_match_style_table : forall eco pr,
  In (eco, pr) printers ->
  exists st, lookup eco D.style_table = Some st /\
    forall i, G.interval_exclude i = [] -> pr i = as_list (M.native_text st (abs_iv i)).
Proof.
  intros eco pr H. cbn [printers In] in H.
  repeat (destruct H as [H|H]; [injection H as <- <-; eexists; split; [reflexivity|] | ]);
    try contradiction.
  - exact alpine_printer_tie.
  - exact cargo_printer_tie.
  - exact debian_printer_tie.
  - exact gem_printer_tie.
  - exact maven_printer_tie.
  - exact npm_printer_tie.
  - exact nuget_printer_tie.
  - exact pypi_printer_tie.
  - exact rpm_printer_tie.
  - exact semver_printer_tie.
  - exact golang_printer_tie.
Qed.
Print Assumptions printers_match_style_table.

(* on the Go value of a model interval: the form in which the model's contains_generic uses it
   (texts := filter_some (map (native_text st) ivs)) *)
Lemma abs_conc_iv (i : M.interval) :
  (forall a b, M.i_lower i = Some (a, b) -> a <> []) ->
  (forall a b, M.i_upper i = Some (a, b) -> a <> []) ->
  (forall a, M.i_exact i = Some a -> a <> []) ->
  abs_iv (conc_iv i) = i.
Proof.
  destruct i as [[[a ia]|] [[b ib]|] [e|]]; cbn [M.i_lower M.i_upper M.i_exact]; intros Hl Hu He;
    unfold abs_iv, conc_iv;
    cbn [G.interval_lower G.interval_lowerInclusive G.interval_upper G.interval_upperInclusive
         G.interval_exact M.i_lower M.i_upper M.i_exact];
    try (specialize (Hl a ia eq_refl)); try (specialize (Hu b ib eq_refl));
    try (specialize (He e eq_refl));
    repeat match goal with
    | H : ?x <> [] |- _ => destruct x; [congruence|]; clear H
    end; reflexivity.
Qed.

Theorem printers_on_model_interval : forall eco pr st i,
  In (eco, pr) printers -> lookup eco D.style_table = Some st ->
  (forall a b, M.i_lower i = Some (a, b) -> a <> []) ->
  (forall a b, M.i_upper i = Some (a, b) -> a <> []) ->
  (forall a, M.i_exact i = Some a -> a <> []) ->
  pr (conc_iv i) = as_list (M.native_text st i).
Proof.
  intros eco pr st i H L Hl Hu He.
  destruct (printers_match_style_table eco pr H) as (st' & L' & T).
  rewrite L in L'. injection L' as <-.
  rewrite (T (conc_iv i) eq_refl), (abs_conc_iv i Hl Hu He). reflexivity.
Qed.
Print Assumptions printers_on_model_interval.

(* ---------- the exclude field ---------- *)

Theorem exclude_prints_nothing : forall eco pr i,
  In (eco, pr) printers -> eco <> $"alpine" ->
  G.interval_exact i = [] -> G.interval_exclude i <> [] -> pr i = [].
Proof.
  intros eco pr [lo li up ui ex exc] H NA E X.
  cbn [G.interval_exact G.interval_exclude] in E, X. subst ex.
  destruct exc as [|x0 exc]; [congruence|].
  cbn [printers In] in H.
  repeat (destruct H as [H|H]; [injection H as <- <-; try reflexivity; try (exfalso; apply NA; reflexivity) | ]).
  contradiction.
Qed.
Print Assumptions exclude_prints_nothing.

(* the alpine printer has no `if interval.exclude != ""` test: the exclude field is ignored *)
Theorem alpine_ignores_exclude : forall lo li up ui ex exc,
  P.intervalToAlpineRanges (G.mk_interval lo li up ui ex exc) =
  P.intervalToAlpineRanges (G.mk_interval lo li up ui ex []).
Proof. reflexivity. Qed.
Print Assumptions alpine_ignores_exclude.
