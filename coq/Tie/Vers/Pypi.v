(* Tie/Vers/Pypi.v — the PEP 440 gate of pkg/spec/vers/pypi.go: the generated
   [containsPrereleaseMarkers] and [constraintsIncludePrerelease] (Gen/Parse/SpecVers.v) never
   panic, terminate, and compute the model's [contains_pre_markers] (Vers/Model.v) and the test
   the model's [contains_pypi] applies to the constraint texts.

   The indices versionStr[idx-1] and versionStr[afterMarker] are inside their bounds because
   strings.Index returned idx: the text is  before ++ marker ++ after  ([cut_app]).
   strings.ReplaceAll(constraint, " ", "") is an oracle of the generated file (a Section variable);
   the model writes  filter (fun x => negb (ceqb x " ")) : the tie assumes that the oracle is this
   function ([replace_spec], an explicit hypothesis). *)
From Coq Require Import ZArith NArith List Ascii Bool Lia.
From Verif.Base Require Import Bytes GoNum GoOps Imp ImpFacts ImpErr BytesFacts.
From Verif.Vers Require Model FactsStr.
From Verif.Gen.Code Require SpecVers.
From Verif.Gen.Parse Require SpecVers.
From Verif.Tie.Loops Require Import Common.
From Verif.Tie.Parse Require Import Common.
From Verif.Tie.Vers Require Import Common.
Import ListNotations.
Local Open Scope Z_scope.
Local Open Scope imp_scope.

Module P := Verif.Gen.Parse.SpecVers.
Module M := Verif.Vers.Model.

Lemma cut_app (sep s a b : bytes) : cut sep s = Some (a, b) -> s = a ++ sep ++ b.
Proof.
  revert a b. induction s as [|c s IH]; intros a b H.
  - cbn [cut] in H. destruct (has_prefix sep []) eqn:E; [|discriminate].
    injection H as <- <-. exact (FactsStr.has_prefix_true _ _ E).
  - cbn [cut] in H. destruct (has_prefix sep (c :: s)) eqn:E.
    + injection H as <- <-. exact (FactsStr.has_prefix_true _ _ E).
    + destruct (cut sep s) as [[a' b']|]; [|discriminate].
      injection H as <- <-. rewrite (IH a' b' eq_refl) at 1. reflexivity.
Qed.

Lemma idx_app_at {A} (pre suf : list A) x i :
  i = Z.of_nat (length pre) -> idx (pre ++ x :: suf) i = Done x.
Proof.
  intros ->. apply idx_Done. split.
  - unfold len. rewrite app_length. cbn [length]. lia.
  - rewrite Nat2Z.id. rewrite nth_error_app2 by lia. rewrite Nat.sub_diag. reflexivity.
Qed.

Lemma last_case {A} (l : list A) : l = [] \/ exists l' x, l = l' ++ [x].
Proof.
  destruct l as [|y l]; [left; reflexivity|right].
  destruct (@exists_last A (y :: l)) as (l' & x & E); [discriminate|]. exists l', x. exact E.
Qed.

Definition g_marker (s : bytes) (marker : bytes) (k : Z) : bool + Z :=
  if M.marker_hit s marker then inl true else inr (wrap64 (k + 1)).

Lemma run_marker s l : forall k,
  match run (g_marker s) l k with
  | inl r => r = true /\ existsb (M.marker_hit s) l = true
  | inr _ => existsb (M.marker_hit s) l = false
  end.
Proof.
  induction l as [|m l IH]; intros k; cbn [run existsb]; [reflexivity|].
  unfold g_marker at 1. destruct (M.marker_hit s m); cbn [orb]; [split; reflexivity | apply IH].
Qed.

Local Opaque to_lower.

Theorem containsPrereleaseMarkers_tie (v : bytes) (fuel : nat) :
  fits v -> (7 < fuel)%nat ->
  P.containsPrereleaseMarkers fuel v = Done (M.contains_pre_markers v).
Proof.
  intros Hfit Hf. unfold P.containsPrereleaseMarkers, M.contains_pre_markers. cbv zeta.
  assert (Hfs : fits (to_lower v)).
  { unfold fits in *. Local Transparent to_lower. unfold to_lower. Local Opaque to_lower.
    rewrite map_length. exact Hfit. }
  set (s := to_lower v) in *. clearbody s.
  match goal with |- context [while fuel ?b ?s0] =>
    rewrite (fold_loop M.pre_markers b (fun k => k) (g_marker s)) end.
  2:{ intros k m B N. cbv beta.
      change (Z.of_nat (length [$"alpha"; $"beta"; $"dev"; $"rc"; $"a"; $"b"; $"c"])) with 7.
      change (Z.of_nat (length M.pre_markers)) with 7 in B.
      destruct (Z.ltb_spec k 7) as [_|X]; [|lia].
      change [$"alpha"; $"beta"; $"dev"; $"rc"; $"a"; $"b"; $"c"] with M.pre_markers.
      match goal with |- context [@idx ?T ?l k] =>
        let I := fresh "I" in
        assert (I : @idx T l k = Done m) by (apply idx_nth_error; assumption); rewrite I; clear I end.
      cbn [bind]. unfold g_marker, M.marker_hit, go_index, index_sub.
      destruct (cut m s) as [[a b]|] eqn:C.
      2:{ reflexivity. }
      apply cut_app in C.
      assert (La : Z.leb 0 (Z.of_nat (length a)) = true) by (apply Z.leb_le; lia).
      rewrite La.
      assert (Ls : length s = (length a + length m + length b)%nat)
        by (rewrite C, !app_length; lia).
      unfold fits in Hfs.
      change (chr 48) with "0"%char. change (chr 57) with "9"%char.
      change (chr 46) with "."%char. change (chr 43) with "+"%char.
      change (code "0"%char) with 48%N. change (code "9"%char) with 57%N.
      unfold is_digit, in_range. cbv zeta.
      destruct (last_case a) as [->|(a' & p & ->)]; [reflexivity|].
      rewrite app_length in Ls. cbn [length] in Ls.
      assert (W1 : wrap64 (Z.of_nat (length (a' ++ [p])) - 1) = Z.of_nat (length a')).
      { rewrite app_length. cbn [length]. rewrite wrap64_small; lia. }
      assert (I1 : idx s (Z.of_nat (length a')) = Done p).
      { rewrite C, <- app_assoc. apply idx_app_at. reflexivity. }
      assert (W2 : wrap64 (Z.of_nat (length (a' ++ [p])) + Z.of_nat (length m)) =
                   Z.of_nat (length ((a' ++ [p]) ++ m))).
      { rewrite !app_length. cbn [length]. rewrite wrap64_small; lia. }
      assert (L0 : Z.ltb 0 (Z.of_nat (length (a' ++ [p]))) = true).
      { apply Z.ltb_lt. rewrite app_length. cbn [length]. lia. }
      rewrite L0, W1, W2, !I1. cbn [bind].
      unfold last_c. rewrite rev_app_distr. cbn [rev app hd_c].
      assert (AFTER :
        (if Z.of_nat (length s) <=? Z.of_nat (length ((a' ++ [p]) ++ m))
         then Done (Ret true)
         else next <- idx s (Z.of_nat (length ((a' ++ [p]) ++ m))) ;;
              (if (48 <=? code next)%N && (code next <=? 57)%N || ceqb next "+"%char || ceqb next "."%char
               then Done (Ret true) else Done (Next (wrap64 (k + 1))))) =
        (if match b with [] => true | n :: _ => (48 <=? code n)%N && (code n <=? 57)%N || ceqb n "+"%char || ceqb n "."%char end
         then Done (Ret true) else Done (Next (wrap64 (k + 1)))) :> res (step Z bool)).
      { destruct b as [|n b'].
        - replace (Z.of_nat (length s) <=? Z.of_nat (length ((a' ++ [p]) ++ m))) with true; [reflexivity|].
          symmetry. apply Z.leb_le. rewrite !app_length. cbn [length] in *. lia.
        - replace (Z.of_nat (length s) <=? Z.of_nat (length ((a' ++ [p]) ++ m))) with false.
          2:{ symmetry. apply Z.leb_gt. rewrite !app_length. cbn [length] in *. lia. }
          assert (I2 : idx s (Z.of_nat (length ((a' ++ [p]) ++ m))) = Done n).
          { rewrite C. rewrite (app_assoc (a' ++ [p]) m (n :: b')). apply idx_app_at. reflexivity. }
          rewrite I2. cbn [bind]. reflexivity. }
      destruct (48 <=? code p)%N; cbn [bind andb orb].
      + destruct (code p <=? 57)%N; cbn [bind andb orb].
        * rewrite AFTER. destruct (match b with [] => true | _ => _ end); reflexivity.
        * destruct (ceqb p "."%char); cbn [bind]; [|reflexivity].
          rewrite AFTER. destruct (match b with [] => true | _ => _ end); reflexivity.
      + destruct (ceqb p "."%char); cbn [bind]; [|reflexivity].
        rewrite AFTER. destruct (match b with [] => true | _ => _ end); reflexivity. }
  2:{ intros k K. cbv beta. rewrite K. reflexivity. }
  2:{ intros m k k' B G. unfold g_marker in G. destruct (M.marker_hit s m); [discriminate|].
      injection G as <-. change (Z.of_nat (length M.pre_markers)) with 7 in B.
      apply wrap64_small. lia. }
  2:{ reflexivity. }
  2:{ exact Hf. }
  pose proof (run_marker s M.pre_markers 0) as R.
  destruct (run (g_marker s) M.pre_markers 0) as [r|k']; cbn [bind].
  - destruct R as [-> ->]. reflexivity.
  - rewrite R. reflexivity.
Qed.
Print Assumptions containsPrereleaseMarkers_tie.

Corollary containsPrereleaseMarkers_finished (v : bytes) (fuel : nat) :
  fits v -> (7 < fuel)%nat -> finished (P.containsPrereleaseMarkers fuel v).
Proof. intros Hfit Hf. rewrite (containsPrereleaseMarkers_tie v fuel Hfit Hf). apply finished_Done. Qed.
Print Assumptions containsPrereleaseMarkers_finished.


(* ---------- constraintsIncludePrerelease ---------- *)

Section Includes.
  (* strings.ReplaceAll: an oracle of the generated file *)
  Variable replace_all : bytes -> bytes -> bytes -> bytes.
  (* on a Go string (a text whose length is an int) it returns a Go string *)
  Hypothesis replace_fits : forall c a b, fits c -> fits (replace_all c a b).

  Definition g_includes (c : bytes) (k : Z) : bool + Z :=
    if M.contains_pre_markers (replace_all c ($" ") []) then inl true else inr (wrap64 (k + 1)).

  Lemma run_includes l : forall k,
    match run g_includes l k with
    | inl r => r = true /\
               existsb (fun c => M.contains_pre_markers (replace_all c ($" ") [])) l = true
    | inr _ => existsb (fun c => M.contains_pre_markers (replace_all c ($" ") [])) l = false
    end.
  Proof.
    induction l as [|c l IH]; intros k; cbn [run existsb]; [reflexivity|].
    unfold g_includes at 1. destruct (M.contains_pre_markers _); cbn [orb]; [split; reflexivity | apply IH].
  Qed.

  (* fuel: the same fuel runs the loop over the constraints and, inside it, the loop over the
     seven markers *)
  Theorem constraintsIncludePrerelease_oracle (cs : list bytes) (fuel : nat) :
    fits cs -> Forall fits cs -> (length cs + 7 < fuel)%nat ->
    P.constraintsIncludePrerelease replace_all fuel cs =
    Done (existsb (fun c => M.contains_pre_markers (replace_all c ($" ") [])) cs).
  Proof.
    intros Hfit Hall Hf. unfold P.constraintsIncludePrerelease. cbv zeta.
    match goal with |- context [while fuel ?b ?s0] =>
      rewrite (fold_loop cs b (fun k => k) g_includes) end.
    2:{ intros k c B N. cbv beta. destruct (Z.ltb_spec k (Z.of_nat (length cs))) as [_|X]; [|lia].
        rewrite (idx_nth_error _ _ _ B N). cbn [bind].
        assert (Fc : fits c).
        { rewrite Forall_forall in Hall. apply Hall. exact (nth_error_In _ _ N). }
        rewrite containsPrereleaseMarkers_tie by (try (apply replace_fits; exact Fc); lia). cbn [bind].
        unfold g_includes. destruct (M.contains_pre_markers _); reflexivity. }
    2:{ intros k K. cbv beta. rewrite K, Z.ltb_irrefl. reflexivity. }
    2:{ intros c k k' B G. unfold g_includes in G. destruct (M.contains_pre_markers _); [discriminate|].
        injection G as <-. apply (wrap64_succ k (Z.of_nat (length cs))); [lia | exact Hfit]. }
    2:{ reflexivity. }
    2:{ lia. }
    pose proof (run_includes cs 0) as R.
    destruct (run g_includes cs 0) as [r|k']; cbn [bind].
    - destruct R as [-> ->]. reflexivity.
    - rewrite R. reflexivity.
  Qed.

  Corollary constraintsIncludePrerelease_finished (cs : list bytes) (fuel : nat) :
    fits cs -> Forall fits cs -> (length cs + 7 < fuel)%nat ->
    finished (P.constraintsIncludePrerelease replace_all fuel cs).
  Proof.
    intros Hfit Hall Hf. rewrite (constraintsIncludePrerelease_oracle cs fuel Hfit Hall Hf). apply finished_Done.
  Qed.

  (* ORACLE MEANING: strings.ReplaceAll(c, " ", "") drops the spaces — the model's filter *)
  Hypothesis replace_spec : forall c,
    replace_all c ($" ") [] = filter (fun x => negb (ceqb x " "%char)) c.

  (* the second conjunct of the model's gate in [contains_pypi] *)
  Theorem constraintsIncludePrerelease_tie (cs : list bytes) (fuel : nat) :
    fits cs -> Forall fits cs -> (length cs + 7 < fuel)%nat ->
    P.constraintsIncludePrerelease replace_all fuel cs =
    Done (existsb (fun c => M.contains_pre_markers (filter (fun x => negb (ceqb x " "%char)) c)) cs).
  Proof.
    intros Hfit Hall Hf. rewrite (constraintsIncludePrerelease_oracle cs fuel Hfit Hall Hf). f_equal.
    clear Hfit Hall Hf. induction cs as [|c l IH]; cbn [existsb]; [reflexivity|].
    rewrite replace_spec, IH. reflexivity.
  Qed.
End Includes.
Print Assumptions constraintsIncludePrerelease_oracle.
Print Assumptions constraintsIncludePrerelease_finished.
Print Assumptions constraintsIncludePrerelease_tie.

(* the two hypotheses are satisfiable together: the model's filter is such an oracle *)
Definition drop_spaces (c a b : bytes) : bytes := filter (fun x => negb (ceqb x " "%char)) c.

Lemma drop_spaces_fits c a b : fits c -> fits (drop_spaces c a b).
Proof.
  unfold fits, drop_spaces. intros H.
  assert (L : (length (filter (fun x => negb (ceqb x " "%char)) c) <= length c)%nat).
  { clear. induction c as [|x c IH]; cbn [filter length]; [lia|].
    destruct (negb (ceqb x " "%char)); cbn [length]; lia. }
  unfold bytes in *. lia.
Qed.

Corollary constraintsIncludePrerelease_tie_filter (cs : list bytes) (fuel : nat) :
  fits cs -> Forall fits cs -> (length cs + 7 < fuel)%nat ->
  P.constraintsIncludePrerelease drop_spaces fuel cs =
  Done (existsb (fun c => M.contains_pre_markers (filter (fun x => negb (ceqb x " "%char)) c)) cs).
Proof.
  apply (constraintsIncludePrerelease_tie drop_spaces drop_spaces_fits). intros c. reflexivity.
Qed.
Print Assumptions constraintsIncludePrerelease_tie_filter.
