(* Tie/Vers/Texts.v — the printers on the intervals of the model: for the constraints that the
   model's [normalize] returns, every interval of the model's [group] has non-empty bound texts,
   so Go's "" = absent encoding is exact on it ([abs_conc_iv]) and the texts that toRanges collects
   from the generated printers are the model's  filter_some (map (native_text st) ivs)
   (the [texts] of contains_generic).  The loop of toRanges itself is a generic function and is
   not translated: [flat_map pr] stands for `for _, interval := range intervals { rangeStrs = .. }`. *)
From Coq Require Import ZArith List Ascii Bool Lia.
From Verif.Base Require Import Bytes GoNum GoOps BytesFacts.
From Verif.Vers Require Model.
From Verif.Gen Require VersDispatch.
From Verif.Gen.Code Require SpecVers.
From Verif.Gen.Parse Require SpecVers.
From Verif.Tie.Vers Require Import Constraints Printers.
Import ListNotations.

Module M := Verif.Vers.Model.
Module D := Verif.Gen.VersDispatch.

Definition ne (c : M.vcons) : Prop := snd c <> [].

Definition iv_ok (i : M.interval) : Prop :=
  (forall a b, M.i_lower i = Some (a, b) -> a <> []) /\
  (forall a b, M.i_upper i = Some (a, b) -> a <> []) /\
  (forall a, M.i_exact i = Some a -> a <> []).

Lemma iv_lower_ok c : ne c -> iv_ok (M.iv_lower c).
Proof. intros H. repeat split; cbn; intros; try discriminate. congruence. Qed.
Lemma iv_upper_ok c : ne c -> iv_ok (M.iv_upper c).
Proof. intros H. repeat split; cbn; intros; try discriminate. congruence. Qed.
Lemma iv_both_ok l u : ne l -> ne u -> iv_ok (M.iv_both l u).
Proof. intros H1 H2. repeat split; cbn; intros; try discriminate; congruence. Qed.
Lemma iv_exact_ok c : ne c -> iv_ok (M.iv_exact c).
Proof. intros H. repeat split; cbn; intros; try discriminate. congruence. Qed.

Lemma alternating_ok : forall bs pending prev l,
  Forall ne bs -> (forall p, pending = Some p -> ne p) ->
  M.alternating pending prev bs = Some l -> Forall iv_ok l.
Proof.
  induction bs as [|c r IH]; intros pending prev l Hb Hp H; cbn [M.alternating] in H.
  - injection H as <-. destruct pending as [p|]; [|constructor].
    constructor; [apply iv_lower_ok; apply Hp; reflexivity | constructor].
  - inversion Hb as [|? ? Hc Hr]; subst. cbv zeta in H.
    assert (LOW : forall l, M.alternating (Some c) (Some (M.is_lower_op (fst c))) r = Some l -> Forall iv_ok l).
    { intros l0 H0. apply (IH _ _ _ Hr) in H0; [exact H0|]. intros p E. injection E as <-. exact Hc. }
    assert (UP : forall l0 (f : M.interval),
              iv_ok f ->
              match M.alternating None (Some (M.is_lower_op (fst c))) r with
              | Some l1 => Some (f :: l1) | None => None end = Some l0 -> Forall iv_ok l0).
    { intros l0 f Hf H0.
      destruct (M.alternating None (Some (M.is_lower_op (fst c))) r) as [l1|] eqn:A; [|discriminate].
      injection H0 as <-. constructor; [exact Hf|].
      apply (IH _ _ _ Hr) in A; [exact A|]. intros p E. discriminate. }
    destruct prev as [p|].
    + destruct (Bool.eqb p (M.is_lower_op (fst c))); [discriminate|].
      destruct (M.is_lower_op (fst c)) eqn:LO.
      * exact (LOW l H).
      * apply (UP l _) in H; [exact H|].
        destruct pending as [lo|]; [apply iv_both_ok; [apply Hp; reflexivity | exact Hc] | apply iv_upper_ok; exact Hc].
    + destruct (M.is_lower_op (fst c)) eqn:LO.
      * exact (LOW l H).
      * apply (UP l _) in H; [exact H | apply iv_upper_ok; exact Hc].
Qed.

Lemma Forall_filter {A} (P : A -> Prop) f (l : list A) : Forall P l -> Forall P (filter f l).
Proof.
  induction 1 as [|x l Hx Hl IH]; cbn [filter]; [constructor|].
  destruct (f x); [constructor; assumption | assumption].
Qed.

Lemma Forall_map_ok {A} (P : A -> Prop) (Q : M.interval -> Prop) (f : A -> M.interval) l :
  (forall x, P x -> Q (f x)) -> Forall P l -> Forall Q (map f l).
Proof. intros H. induction 1; cbn [map]; constructor; auto. Qed.

Lemma zip_both_ok : forall ls us, Forall ne ls -> Forall ne us -> Forall iv_ok (M.zip_both ls us).
Proof.
  induction ls as [|l ls IH]; intros [|u us] Hl Hu; cbn [M.zip_both]; try constructor.
  - inversion Hl; inversion Hu; subst. apply iv_both_ok; assumption.
  - inversion Hl; inversion Hu; subst. apply IH; assumption.
Qed.

Lemma last_opt_In {A} (l : list A) x : M.last_opt l = Some x -> In x l.
Proof.
  unfold M.last_opt. destruct (rev l) as [|y t] eqn:E; [discriminate|].
  intros H. injection H as <-. apply in_rev. rewrite E. left. reflexivity.
Qed.

Lemma hd_error_In {A} (l : list A) x : hd_error l = Some x -> In x l.
Proof. destruct l; [discriminate|]. cbn. intros H. injection H as <-. left. reflexivity. Qed.

Lemma heuristic_ok ls us : Forall ne ls -> Forall ne us -> Forall iv_ok (M.heuristic ls us).
Proof.
  intros Hl Hu. unfold M.heuristic. cbv zeta.
  destruct (_ || _ || _)%bool.
  - assert (HL : forall l, M.last_opt ls = Some l -> ne l).
    { intros l L. rewrite Forall_forall in Hl. apply Hl. apply last_opt_In. exact L. }
    assert (HU : forall u, hd_error us = Some u -> ne u).
    { intros u U. rewrite Forall_forall in Hu. apply Hu. apply hd_error_In. exact U. }
    destruct (M.last_opt ls) as [l|], (hd_error us) as [u|].
    + apply Forall_cons; [apply iv_both_ok; [apply HL | apply HU]; reflexivity | apply Forall_nil].
    + apply Forall_cons; [apply iv_lower_ok; apply HL; reflexivity | apply Forall_nil].
    + apply Forall_cons; [apply iv_upper_ok; apply HU; reflexivity | apply Forall_nil].
    + apply Forall_nil.
  - destruct (_ && _)%bool.
    + apply zip_both_ok; assumption.
    + apply Forall_app. split.
      * apply (Forall_map_ok ne); [exact iv_lower_ok | exact Hl].
      * apply (Forall_map_ok ne); [exact iv_upper_ok | exact Hu].
Qed.

Lemma group_ok cs : Forall ne cs -> Forall iv_ok (M.group cs).
Proof.
  intros H. unfold M.group. cbv zeta. apply Forall_app. split.
  - apply (Forall_map_ok ne); [exact iv_exact_ok | apply Forall_filter; exact H].
  - match goal with |- Forall _ (match ?f with [] => _ | _ :: _ => _ end) => set (bounds := f) end.
    assert (HB : Forall ne bounds) by (apply Forall_filter; exact H).
    clearbody bounds.
    destruct bounds as [|b bs]; [constructor|].
    destruct (M.alternating None None (b :: bs)) as [l|] eqn:A.
    + apply (alternating_ok _ None None l HB); [intros p E; discriminate | exact A].
    + apply heuristic_ok; apply Forall_filter; exact H.
Qed.

(* toRanges on the model's intervals: the generated printers give the model's texts *)
Theorem printers_texts eco pr st (ivs : list M.interval) :
  In (eco, pr) printers -> lookup eco D.style_table = Some st ->
  Forall iv_ok ivs ->
  flat_map pr (map conc_iv ivs) = M.filter_some (map (M.native_text st) ivs).
Proof.
  intros Hin L. induction 1 as [|i ivs (Hl & Hu & He) Hr IH]; cbn [map flat_map M.filter_some]; [reflexivity|].
  rewrite (printers_on_model_interval eco pr st i Hin L Hl Hu He), IH.
  destruct (M.native_text st i); reflexivity.
Qed.
Print Assumptions printers_texts.

(* .. in particular on the intervals of the constraints that normalize returns *)
Theorem printers_texts_normalize S cs ncs eco pr st :
  M.normalize S cs = Some ncs ->
  In (eco, pr) printers -> lookup eco D.style_table = Some st ->
  flat_map pr (map conc_iv (M.group ncs)) = M.filter_some (map (M.native_text st) (M.group ncs)).
Proof.
  intros N Hin L. apply (printers_texts eco pr st _ Hin L). apply group_ok.
  pose proof (normalize_wf S cs ncs N) as W.
  rewrite Forall_forall in *. intros x Hx. exact (proj1 (W x Hx)).
Qed.
Print Assumptions printers_texts_normalize.
