(* Tie/Vers/Valid.v — the generated [valid] and [scheme] of pkg/spec/vers (Gen/Parse/SpecVers.v)
   never panic, terminate with fuel above the length of the text, and compute what the model
   (Vers/Model.v, [valid]) computes.

   Representation: Go's `error` result is [option unit] ([None]: some error; error texts are not
   modelled); the model's [valid] returns the scheme and the constraint texts on success.  The
   abstraction [abs_valid] forgets them; [scheme] returns the first component. *)
From Coq Require Import ZArith NArith List Ascii Bool Lia.
From Verif.Base Require Import Bytes GoNum GoOps Imp ImpFacts ImpErr BytesFacts.
From Verif.Vers Require Model FactsStr.
From Verif.Gen.Code Require SpecVers.
From Verif.Gen.Parse Require SpecVers.
From Verif.Tie.Loops Require Import Common.
From Verif.Tie.Parse Require Import Common.
From Verif.Tie.Vers Require Import Common.
Import ListNotations.
Local Open Scope Z_scope.

Module P := Verif.Gen.Parse.SpecVers.
Module M := Verif.Vers.Model.

Definition abs_valid (o : option (bytes * list bytes)) : option unit :=
  match o with Some _ => Some tt | None => None end.

(* ---------- the three loops as folds ---------- *)

(* for _, r := range versString { if r < 32 || r > 126 { return err } } *)
Definition g_printable (c : ascii) (k : Z) : option unit + Z :=
  if orb (Z.ltb (byte_z c) 32) (Z.ltb 126 (byte_z c)) then inl None else inr (wrap64 (k + 1)).

Lemma run_printable l : forall k,
  match run g_printable l k with
  | inl r => r = None /\ forallb M.printable l = false
  | inr _ => forallb M.printable l = true
  end.
Proof.
  induction l as [|c l IH]; intros k; cbn [run forallb]; [reflexivity|].
  unfold g_printable at 1.
  assert (E : orb (Z.ltb (byte_z c) 32) (Z.ltb 126 (byte_z c)) = negb (M.printable c)).
  { unfold M.printable, byte_z.
    destruct (Z.ltb_spec (Z.of_N (code c)) 32), (Z.ltb_spec 126 (Z.of_N (code c))),
      (N.leb_spec 32 (code c)), (N.leb_spec (code c) 126); cbn; try reflexivity; lia. }
  rewrite E. destruct (M.printable c); cbn [negb andb].
  - apply IH.
  - split; reflexivity.
Qed.

(* for _, r := range ecosystem { if !(lower || digit) { return err } } *)
Definition g_scheme (c : ascii) (k : Z) : option unit + Z :=
  if negb (orb (andb (Z.leb 97 (byte_z c)) (Z.leb (byte_z c) 122))
               (andb (Z.leb 48 (byte_z c)) (Z.leb (byte_z c) 57)))
  then inl None else inr (wrap64 (k + 1)).

Lemma run_scheme l : forall k,
  match run g_scheme l k with
  | inl r => r = None /\ forallb M.scheme_char l = false
  | inr _ => forallb M.scheme_char l = true
  end.
Proof.
  induction l as [|c l IH]; intros k; cbn [run forallb]; [reflexivity|].
  unfold g_scheme at 1.
  assert (E : orb (andb (Z.leb 97 (byte_z c)) (Z.leb (byte_z c) 122))
                  (andb (Z.leb 48 (byte_z c)) (Z.leb (byte_z c) 57)) = M.scheme_char c).
  { unfold M.scheme_char, is_lower, is_digit, in_range, byte_z. cbv zeta.
    destruct (Z.leb_spec 97 (Z.of_N (code c))), (Z.leb_spec (Z.of_N (code c)) 122),
      (Z.leb_spec 48 (Z.of_N (code c))), (Z.leb_spec (Z.of_N (code c)) 57),
      (N.leb_spec 97 (code c)), (N.leb_spec (code c) 122),
      (N.leb_spec 48 (code c)), (N.leb_spec (code c) 57); cbn; try reflexivity; lia. }
  rewrite E. destruct (M.scheme_char c); cbn [negb andb].
  - apply IH.
  - split; reflexivity.
Qed.

(* the star count: state (cursor, starCount, hasOtherConstraints) *)
Definition g_star (c : bytes) (st : Z * Z * bool) : option unit + (Z * Z * bool) :=
  let '(k, sc, h) := st in
  let '(sc', h') :=
    if beq (trim_space c) $"*" then (wrap64 (sc + 1), h)
    else if negb (beq (trim_space c) []) then (sc, true)
    else (sc, h) in
  inr (wrap64 (k + 1), sc', h').

Definition others (c : bytes) : bool := negb (M.is_star c) && negb (M.is_blank c).

Lemma run_star l : forall k sc h,
  0 <= sc -> sc + Z.of_nat (length l) < 2 ^ 63 ->
  exists k', run g_star l (k, sc, h) =
             inr (k', sc + Z.of_nat (length (filter M.is_star l)), h || existsb others l).
Proof.
  unfold bytes in *.
  induction l as [|c l IH]; intros k sc h H0 H1; cbn [run filter existsb length].
  - exists k. rewrite Z.add_0_r, orb_false_r. reflexivity.
  - cbn [length] in H1. unfold g_star at 1. unfold others at 1.
    change (M.is_star c) with (beq (trim_space c) $"*").
    change (M.is_blank c) with (match trim_space c with [] => true | _ => false end).
    destruct (beq (trim_space c) $"*") eqn:E.
    + rewrite (wrap64_small (sc + 1)) by lia.
      destruct (IH (wrap64 (k + 1)) (sc + 1) h) as [k' Hk]; [lia|lia|].
      exists k'. rewrite Hk. cbn [negb andb orb length]. f_equal. f_equal. f_equal. lia.
    + destruct (trim_space c) as [|x t] eqn:T; cbn [beq negb andb].
      * destruct (IH (wrap64 (k + 1)) sc h) as [k' Hk]; [lia|lia|].
        exists k'. rewrite Hk. reflexivity.
      * destruct (IH (wrap64 (k + 1)) sc true) as [k' Hk]; [lia|lia|].
        exists k'. rewrite Hk. cbn [orb]. rewrite orb_true_r. reflexivity.
Qed.

(* ---------- valid ---------- *)

Theorem valid_tie (s : bytes) (fuel : nat) :
  fits s -> (length s < fuel)%nat -> P.valid fuel s = Done (abs_valid (M.valid s)).
Proof.
  intros Hfit Hf. unfold P.valid, M.valid.
  destruct (has_prefix $"vers:" s) eqn:HP; cbn [negb]; [|reflexivity].
  cbv zeta. change (chr 47) with "/"%char. change (chr 124) with "|"%char.
  pose proof (has_prefix_len _ _ HP) as L5. cbn [length list_ascii_of_string] in L5.
  (* loop 1: printable ASCII *)
  match goal with |- context [while fuel ?b ?s0] =>
    rewrite (fold_loop s b (fun k => k) g_printable) end.
  2:{ intros k c B N. cbv beta. destruct (Z.ltb_spec k (Z.of_nat (length s))) as [_|X]; [|lia].
      rewrite (idx_nth_error _ _ _ B N). cbn [bind]. unfold g_printable.
      destruct (orb _ _); reflexivity. }
  2:{ intros k K. cbv beta. rewrite K, Z.ltb_irrefl. reflexivity. }
  2:{ intros c k k' B G. unfold g_printable in G. destruct (orb _ _); [discriminate|].
      injection G as <-. apply (wrap64_succ k (Z.of_nat (length s))); [lia | exact Hfit]. }
  2:{ reflexivity. }
  2:{ exact Hf. }
  pose proof (run_printable s 0) as R1.
  destruct (run g_printable s 0) as [r|k1]; cbn [bind].
  { destruct R1 as [-> ->]. reflexivity. }
  rewrite R1. cbn [negb].
  rewrite slice_from_Done by (unfold bytes in *; lia). cbn [bind].
  change (Z.to_nat 5) with 5%nat.
  unfold splitn2_c. destruct (split2_c "/"%char (skipn 5 s)) as [eco [ctext|]] eqn:SP;
    [|reflexivity].
  cbn [length Z.of_nat Z.eqb Pos.eqb negb Pos.of_succ_nat Pos.succ].
  do 2 (erewrite idx_known by reflexivity; cbn [bind]).
  destruct eco as [|e0 eco']; [reflexivity|].
  set (eco := e0 :: eco') in *. cbn [beq].
  (* lengths for the fuel of the inner loops *)
  assert (LS : (length eco + 1 + length ctext + 5 = length s)%nat).
  { unfold split2_c in SP. destruct (cut ["/"%char] (skipn 5 s)) as [[a b]|] eqn:C; [|discriminate].
    injection SP as <- <-. apply cut1_length in C. rewrite skipn_length in C.
    unfold bytes in *. lia. }
  (* loop 2: the scheme name *)
  match goal with |- context [while fuel ?b ?s0] =>
    rewrite (fold_loop eco b (fun k => k) g_scheme) end.
  2:{ intros k c B N. cbv beta. destruct (Z.ltb_spec k (Z.of_nat (length eco))) as [_|X]; [|lia].
      rewrite (idx_nth_error _ _ _ B N). cbn [bind]. unfold g_scheme.
      destruct (negb _); reflexivity. }
  2:{ intros k K. cbv beta. rewrite K, Z.ltb_irrefl. reflexivity. }
  2:{ intros c k k' B G. unfold g_scheme in G. destruct (negb _); [discriminate|].
      injection G as <-. apply (wrap64_succ k (Z.of_nat (length eco))); [lia|].
      unfold fits in Hfit. unfold bytes in *. lia. }
  2:{ reflexivity. }
  2:{ unfold bytes in *. lia. }
  pose proof (run_scheme eco 0) as R2.
  destruct (run g_scheme eco 0) as [r|k2]; cbn [bind].
  { destruct R2 as [-> ->]. reflexivity. }
  rewrite R2. cbn [negb].
  destruct ctext as [|c0 ctext']; [reflexivity|].
  set (ctext := c0 :: ctext') in *. cbn [beq].
  (* loop 3: the stars *)
  set (cl := split_c "|"%char ctext).
  assert (LC : (length cl <= S (length ctext))%nat) by apply split_c_len_le.
  match goal with |- context [while fuel ?b ?s0] =>
    rewrite (fold_loop cl b (fun st => fst (fst st)) g_star) end.
  2:{ intros [[k sc] h] c B N. cbn [fst] in B, N.
      destruct (Z.ltb_spec k (Z.of_nat (length cl))) as [_|X]; [|lia].
      rewrite (idx_nth_error _ _ _ B N). cbn [bind]. unfold g_star.
      destruct (beq (trim_space c) _); [reflexivity|].
      destruct (negb _); reflexivity. }
  2:{ intros [[k sc] h] K. cbn [fst] in K. rewrite K, Z.ltb_irrefl. reflexivity. }
  2:{ intros c [[k sc] h] [[k' sc'] h'] B G. cbn [fst] in *. unfold g_star in G.
      destruct (if beq (trim_space c) _ then _ else _) as [a b]. injection G as <- _ _.
      apply (wrap64_succ k (Z.of_nat (length cl))); [lia|].
      unfold fits in Hfit. unfold bytes in *. lia. }
  2:{ reflexivity. }
  2:{ unfold bytes in *. lia. }
  destruct (run_star cl 0 0 false) as [k3 R3]; [lia | unfold fits in Hfit; unfold bytes in *; lia |].
  rewrite R3. cbn [bind orb]. rewrite Z.add_0_l.
  change (fun c : bytes => negb (M.is_star c) && negb (M.is_blank c)) with others.
  set (n := length (filter M.is_star cl)).
  destruct (Z.ltb_spec 1 (Z.of_nat n)), (Nat.ltb_spec 1 n); try lia; [reflexivity|].
  destruct (Z.eqb_spec (Z.of_nat n) 1), (Nat.eqb_spec n 1); try lia; cbn [andb]; [|reflexivity].
  destruct (existsb others cl); reflexivity.
Qed.
Print Assumptions valid_tie.

(* C06 for valid: no panic, and termination with fuel above the length of the text *)
Corollary valid_finished (s : bytes) (fuel : nat) :
  fits s -> (length s < fuel)%nat -> finished (P.valid fuel s).
Proof. intros Hfit Hf. rewrite (valid_tie s fuel Hfit Hf). apply finished_Done. Qed.
Print Assumptions valid_finished.

(* ---------- scheme ---------- *)

Theorem scheme_tie (s : bytes) (fuel : nat) :
  fits s -> (length s < fuel)%nat -> P.scheme fuel s = Done (option_map fst (M.valid s)).
Proof.
  intros Hfit Hf. unfold P.scheme. rewrite (valid_tie s fuel Hfit Hf). cbn [bind].
  destruct (M.valid s) as [[eco cl]|] eqn:V; cbn [abs_valid option_map fst]; [|reflexivity].
  unfold M.valid in V.
  destruct (has_prefix $"vers:" s) eqn:HP; cbn [negb] in V; [|discriminate].
  pose proof (has_prefix_len _ _ HP) as L5. cbn [length list_ascii_of_string] in L5.
  rewrite slice_from_Done by (unfold bytes in *; lia). cbn [bind].
  change (Z.to_nat 5) with 5%nat. change (chr 47) with "/"%char.
  destruct (negb (forallb M.printable s)); [discriminate|].
  unfold splitn2_c.
  destruct (split2_c "/"%char (skipn 5 s)) as [e [ctext|]]; [|discriminate].
  erewrite idx_known by reflexivity. cbn [bind].
  destruct e as [|e0 e']; [discriminate|].
  destruct (negb (forallb M.scheme_char (e0 :: e'))); [discriminate|].
  destruct ctext as [|c0 ct]; [discriminate|].
  destruct (Nat.ltb _ _); [discriminate|].
  destruct (andb _ _); [discriminate|].
  injection V as <- _. reflexivity.
Qed.
Print Assumptions scheme_tie.

Corollary scheme_finished (s : bytes) (fuel : nat) :
  fits s -> (length s < fuel)%nat -> finished (P.scheme fuel s).
Proof. intros Hfit Hf. rewrite (scheme_tie s fuel Hfit Hf). apply finished_Done. Qed.
Print Assumptions scheme_finished.
