(* Top.v — the whole library model assembled: ecosystems (Eco/All.v) under the VERS model
   and the CLI model, end to end; and the oracle-parametric entry points the driver uses. *)
From Verif.Base Require Import Bytes GoNum.
From Verif.Eco Require Import Iface All.
From Verif.Vers Require Import Model.
From Verif.Cli Require Import Model.
From Verif.Gen Require Import VersDispatch Registry.

(* end to end: every lower layer is the model itself *)
Definition eco_or_none (name : bytes) : option eco := find_eco name ecosystems.

Definition model_scheme_ops (name : bytes) : scheme_ops :=
  match eco_or_none name with
  | Some e => {|
      s_vok := self_vok e;
      s_vcmp := self_vcmp e;
      s_vshow := fun s => match v_show (e_v e) s with Some t => t | None => [] end;
      s_rcontains := fun r v => r_contains (e_r e) (self_vok e) (self_vcmp e) r v |}
  | None => {| s_vok := fun _ => false; s_vcmp := fun _ _ => Eq; s_vshow := fun s => s;
               s_rcontains := fun _ _ => None |}
  end.

Definition model_vers (range version : bytes) : vres :=
  vers_contains scheme_table style_table model_scheme_ops range version.

Definition model_lib (name : bytes) : lib_ops :=
  match eco_or_none name with
  | Some e => {|
      l_name := name;
      l_vok := self_vok e;
      l_vshow := fun s => match v_show (e_v e) s with Some t => t | None => [] end;
      l_vcmp := self_vcmp e;
      l_rok := fun r => match r_show (e_r e) (self_vok e) r with Some _ => true | None => false end;
      l_rcontains := fun r v => match r_contains (e_r e) (self_vok e) (self_vcmp e) r v with
                                | Some b => b | None => false end |}
  | None => {| l_name := name; l_vok := fun _ => false; l_vshow := fun s => s; l_vcmp := fun _ _ => Eq;
               l_rok := fun _ => false; l_rcontains := fun _ _ => false |}
  end.

Definition model_cli (args : list bytes) : outcome :=
  run cli_specs cli_registry model_lib model_vers args.

(* oracle-parametric: the driver supplies the lower layers *)
Definition oracle_vers (ops : bytes -> scheme_ops) (range version : bytes) : vres :=
  vers_contains scheme_table style_table ops range version.

Definition oracle_cli (lib : bytes -> lib_ops) (vers : bytes -> bytes -> vres) (args : list bytes) : outcome :=
  run cli_specs cli_registry lib vers args.
