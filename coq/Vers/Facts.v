(* Vers/Facts.v — facts about the VERS model (Vers/Model.v): index of the split files.

     FactsStr.v      byte-string lemmas (cut/split2 on one byte, trim_space vs strip_spaces)
     FactsSort.v     the model's insertion sort under a total preorder on a subset
     FactsC17.v      C17: malformed input is rejected; the generated dispatch tables
     FactsC16.v      C16: order / white space / duplicates / blanks do not matter
     FactsC04.v      C04: containment is the union-of-intervals reading of Spec/VersIntervals.v
     FactsExample.v  a scheme for which every semantic hypothesis of C04/C16 is proved
     NativeCommon.v, Native<Eco>.v   [native_ok] proved for the eleven real schemes over the model's
                     own ecosystem layers, and the end-to-end corollaries C04_<scheme>_end_to_end
                     (not re-exported here: they depend on Top.v)

   The main statements are re-checked here. *)
From Verif.Base Require Import Bytes.
From Verif.Vers Require Export Model FactsStr FactsSort FactsC17 FactsC16 FactsC04 FactsExample.
From Verif.Spec Require VersIntervals.

(* C17 *)
Check err_no_vers_prefix.
Check err_nonprintable_char.
Check err_no_slash.
Check err_empty_scheme.
Check err_bad_scheme_char.
Check err_unknown_scheme.
Check err_no_constraint.
Check err_two_stars.
Check err_star_with_other.
Check err_no_comparator.
Check err_no_version.
Check err_bad_bound.
Check err_bad_probe.
Check dispatch_all.
Check dispatch_styles.
Check dispatch_only_known.

(* C16 *)
Check isort_perm_eq.
Check normalize_same_texts.
Check normalize_perm.
Check normalize_spaces.
Check normalize_dup.
Check normalize_blank.
Check contains_generic_same_texts.
Check contains_pypi_same_texts.
Check C16_vers_contains.
Check C16_vers_contains_join.

(* C04 *)
Check alternating_in_bounds.
Check C04_contains_generic.
Check C04_contains_generic_tp.
Check C04_contains_pypi.
Check C04_single.
Check C04_star.
Check C04_vers_contains.
Check alternating_spec.
Check sorted_alternating_spec.
Check digit_native_ok.
Check digit_C04.

Print Assumptions C16_vers_contains.
Print Assumptions C04_vers_contains.
Print Assumptions err_bad_bound.
