(* Vers/FactsC04.v — property C04: on a sorted constraint list whose bounds alternate, the VERS
   evaluator of Vers/Model.v computes the union-of-intervals reading of Spec/VersIntervals.v,
   provided the scheme's native ranges mean what their interval says ([native_ok]). *)
From Coq Require Import List Permutation Sorted Lia.
From Verif.Base Require Import Bytes BytesFacts.
From Verif.Vers Require Import Model FactsStr FactsC17 FactsSort FactsC16.
From Verif.Spec Require VersIntervals.
Import ListNotations.
Local Open Scope N_scope.

Module VS := VersIntervals.

(* ---------- the bridge between the model's constraint list and the specification's ---------- *)

Definition conv (o : vop) : VS.vop' :=
  match o with
  | OGe => VS.SGe | OLe => VS.SLe | ONe => VS.SNe | OGt => VS.SGt | OLt => VS.SLt | OEq => VS.SEq
  end.

Definition spec_list (ncs : list vcons) : list (VS.vop' * bytes) :=
  map (fun c => (conv (fst c), snd c)) ncs.

Definition b2v (b : bool) : vres := if b then VTrue else VFalse.

(* ---------- what an interval means ---------- *)

Definition in_interval (cmp : bytes -> bytes -> comparison) (i : interval) (v : bytes) : bool :=
  match i_exact i with
  | Some e => match cmp v e with Eq => true | _ => false end
  | None =>
      match i_lower i with
      | None => true
      | Some (a, inc) => match cmp v a with Gt => true | Eq => inc | Lt => false end
      end &&
      match i_upper i with
      | None => true
      | Some (b, inc) => match cmp v b with Lt => true | Eq => inc | Gt => false end
      end
  end.

Definition bound_ok (S : scheme_ops) (a : bytes) : Prop := s_vok S a = true /\ a <> [].

(* the intervals [group] builds from accepted, sorted, distinct bounds: a point, a lower bound, an
   upper bound, or a lower bound strictly below an upper bound *)
Definition iv_wf (S : scheme_ops) (i : interval) : Prop :=
  match i_exact i, i_lower i, i_upper i with
  | Some e, None, None => bound_ok S e
  | None, Some (a, _), None => bound_ok S a
  | None, None, Some (b, _) => bound_ok S b
  | None, Some (a, _), Some (b, _) => bound_ok S a /\ bound_ok S b /\ s_vcmp S a b = Lt
  | _, _, _ => False
  end.

(* hypothesis (ii): the ecosystem's range parser gives the native text of such an interval the
   meaning of the interval, for accepted probes *)
Definition native_ok (S : scheme_ops) (st : native_style) : Prop :=
  forall i t v, iv_wf S i -> native_text st i = Some t -> s_vok S v = true ->
                s_rcontains S t v = Some (in_interval (s_vcmp S) i v).

(* the same, for bounds that moreover satisfy a scope clause [Q] (the ecosystems' range parsers
   are characterised on bound texts without separator / operator characters) *)
Definition bound_ok_q (Q : bytes -> Prop) (S : scheme_ops) (a : bytes) : Prop := bound_ok S a /\ Q a.

Definition iv_wf_q (Q : bytes -> Prop) (S : scheme_ops) (i : interval) : Prop :=
  match i_exact i, i_lower i, i_upper i with
  | Some e, None, None => bound_ok_q Q S e
  | None, Some (a, _), None => bound_ok_q Q S a
  | None, None, Some (b, _) => bound_ok_q Q S b
  | None, Some (a, _), Some (b, _) => bound_ok_q Q S a /\ bound_ok_q Q S b /\ s_vcmp S a b = Lt
  | _, _, _ => False
  end.

Definition native_ok_q (Q : bytes -> Prop) (S : scheme_ops) (st : native_style) : Prop :=
  forall i t v, iv_wf_q Q S i -> native_text st i = Some t -> s_vok S v = true ->
                s_rcontains S t v = Some (in_interval (s_vcmp S) i v).

Lemma iv_wf_q_wf Q S i : iv_wf_q Q S i -> iv_wf S i.
Proof.
  destruct i as [[[a ia]|] [[b ib]|] [e|]]; unfold iv_wf_q, iv_wf, bound_ok_q;
    cbn [i_exact i_lower i_upper]; tauto.
Qed.

Lemma iv_wf_q_True S i : iv_wf S i -> iv_wf_q (fun _ => True) S i.
Proof.
  destruct i as [[[a ia]|] [[b ib]|] [e|]]; unfold iv_wf_q, iv_wf, bound_ok_q;
    cbn [i_exact i_lower i_upper]; tauto.
Qed.

Lemma native_ok_q_of Q S st : native_ok S st -> native_ok_q Q S st.
Proof. intros H i t v W. apply H. apply (iv_wf_q_wf Q S i W). Qed.

Lemma native_ok_of_q S st : native_ok_q (fun _ => True) S st -> native_ok S st.
Proof. intros H i t v W. apply H. apply iv_wf_q_True. exact W. Qed.

(* ---------- classification of the constraints ---------- *)

Definition is_exact_c (c : vcons) : bool := match fst c with OEq => true | _ => false end.
Definition is_bound_c (c : vcons) : bool := is_lower_op (fst c) || is_upper_op (fst c).
Definition is_ne_c (c : vcons) : bool := match fst c with ONe => true | _ => false end.

Lemma group_eq ncs :
  group ncs =
    map iv_exact (filter is_exact_c ncs) ++
    match filter is_bound_c ncs with
    | [] => []
    | _ => match alternating None None (filter is_bound_c ncs) with
           | Some l => l
           | None => heuristic (filter (fun c => is_lower_op (fst c)) ncs)
                               (filter (fun c => is_upper_op (fst c)) ncs)
           end
    end.
Proof. reflexivity. Qed.

Lemma group_alt ncs alt :
  alternating None None (filter is_bound_c ncs) = Some alt ->
  group ncs = map iv_exact (filter is_exact_c ncs) ++ alt.
Proof.
  intros H. rewrite group_eq. f_equal.
  destruct (filter is_bound_c ncs) as [|b bs] eqn:E.
  - simpl in H. injection H as <-. reflexivity.
  - rewrite H. reflexivity.
Qed.

(* ---------- alternating: shape, well-formedness, meaning ---------- *)

Lemma alternating_nil pending prev bs :
  alternating pending prev bs = Some [] -> bs = [] /\ pending = None.
Proof.
  revert pending prev. induction bs as [|c r IH]; intros pending prev H.
  - simpl in H. destruct pending; [discriminate|]. split; reflexivity.
  - exfalso. cbn [alternating] in H.
    destruct prev as [p|].
    + destruct (Bool.eqb p (is_lower_op (fst c))); [discriminate|].
      destruct (is_lower_op (fst c)).
      * apply IH in H. destruct H as [_ H]. discriminate.
      * destruct (alternating None (Some false) r); discriminate.
    + destruct (is_lower_op (fst c)).
      * apply IH in H. destruct H as [_ H]. discriminate.
      * destruct (alternating None (Some false) r); discriminate.
Qed.

Section WF.
  Variable Q : bytes -> Prop.
  Variable S : scheme_ops.
  Let lt (a b : vcons) : Prop := ltc (ccmp S) a b.
  Let cok' (c : vcons) : Prop := bound_ok_q Q S (snd c).

  Lemma alternating_wf bs : forall pending prev ivs,
    Forall cok' bs -> StronglySorted lt bs ->
    match pending with Some p => cok' p /\ Forall (lt p) bs | None => True end ->
    alternating pending prev bs = Some ivs -> Forall (iv_wf_q Q S) ivs.
  Proof.
    induction bs as [|c r IH]; intros pending prev ivs Hok Hs Hp H.
    - simpl in H. injection H as <-. destruct pending as [p|]; [|constructor].
      constructor; [|constructor]. unfold iv_wf_q, iv_lower. simpl. apply Hp.
    - inversion Hok as [|? ? Hc Hr]; subst.
      apply StronglySorted_inv in Hs. destruct Hs as [Hs Hcr].
      cbn [alternating] in H.
      assert (Low : forall pv, alternating (Some c) pv r = Some ivs -> Forall (iv_wf_q Q S) ivs).
      { intros pv Ha. apply (IH (Some c) pv ivs Hr Hs); [|exact Ha]. split; assumption. }
      assert (Up : forall rest, alternating None (Some false) r = Some rest ->
                     Forall (iv_wf_q Q S) rest).
      { intros rest Ha. apply (IH None (Some false) rest Hr Hs I Ha). }
      destruct prev as [p|].
      + destruct (Bool.eqb p (is_lower_op (fst c))); [discriminate|].
        destruct (is_lower_op (fst c)); [apply (Low _ H)|].
        destruct (alternating None (Some false) r) as [rest|] eqn:Ha; [|discriminate].
        injection H as <-. constructor; [|apply Up; reflexivity].
        destruct pending as [lo|].
        * destruct Hp as [Hlo Hlt]. inversion Hlt as [|? ? Hlc _]; subst.
          unfold iv_wf_q, iv_both. simpl. split; [exact Hlo|]. split; [exact Hc|exact Hlc].
        * unfold iv_wf_q, iv_upper. simpl. exact Hc.
      + destruct (is_lower_op (fst c)); [apply (Low _ H)|].
        destruct (alternating None (Some false) r) as [rest|] eqn:Ha; [|discriminate].
        injection H as <-. constructor; [|apply Up; reflexivity].
        unfold iv_wf_q, iv_upper. simpl. exact Hc.
  Qed.
End WF.

Section Meaning.
  Variable cmp : bytes -> bytes -> comparison.
  Variable v : bytes.
  Notation inI := (fun i => in_interval cmp i v).

  Lemma sat_lower c : is_lower_op (fst c) = true ->
    VS.sat (conv (fst c)) (cmp v (snd c)) =
    match cmp v (snd c) with Gt => true | Eq => incl (fst c) | Lt => false end.
  Proof. destruct c as [[] a]; simpl; try discriminate; intros _; destruct (cmp v a); reflexivity. Qed.

  Lemma sat_upper c : is_upper_op (fst c) = true ->
    VS.sat (conv (fst c)) (cmp v (snd c)) =
    match cmp v (snd c) with Lt => true | Eq => incl (fst c) | Gt => false end.
  Proof. destruct c as [[] a]; simpl; try discriminate; intros _; destruct (cmp v a); reflexivity. Qed.

  Lemma in_iv_lower c : is_lower_op (fst c) = true ->
    in_interval cmp (iv_lower c) v = VS.sat (conv (fst c)) (cmp v (snd c)).
  Proof. intros H. rewrite (sat_lower c H). unfold in_interval, iv_lower. simpl. apply andb_true_r. Qed.

  Lemma in_iv_upper c : is_upper_op (fst c) = true ->
    in_interval cmp (iv_upper c) v = VS.sat (conv (fst c)) (cmp v (snd c)).
  Proof. intros H. rewrite (sat_upper c H). unfold in_interval, iv_upper. reflexivity. Qed.

  Lemma in_iv_both l u : is_lower_op (fst l) = true -> is_upper_op (fst u) = true ->
    in_interval cmp (iv_both l u) v =
    VS.sat (conv (fst l)) (cmp v (snd l)) && VS.sat (conv (fst u)) (cmp v (snd u)).
  Proof. intros H1 H2. rewrite (sat_lower l H1), (sat_upper u H2). reflexivity. Qed.

  Lemma bound_not_lower c : is_bound_c c = true -> is_lower_op (fst c) = false -> is_upper_op (fst c) = true.
  Proof. unfold is_bound_c. intros H1 H2. rewrite H2 in H1. exact H1. Qed.

  Lemma lower_not_upper o : is_lower_op o = true -> VS.is_upper (conv o) = false.
  Proof. destruct o; simpl; congruence. Qed.

  Lemma upper_conv o : is_upper_op o = VS.is_upper (conv o).
  Proof. destruct o; reflexivity. Qed.

  Lemma lower_conv o : is_lower_op o = VS.is_lower (conv o).
  Proof. destruct o; reflexivity. Qed.

  (* after an upper bound (or at the start of the pairs) / with a pending lower bound *)
  Lemma alternating_pairs bs :
    Forall (fun c => is_bound_c c = true) bs ->
    (forall ivs, alternating None (Some false) bs = Some ivs ->
                 existsb inI ivs = VS.in_pairs cmp (spec_list bs) v) /\
    (forall c ivs, is_lower_op (fst c) = true ->
                 alternating (Some c) (Some true) bs = Some ivs ->
                 existsb inI ivs = VS.in_pairs cmp (spec_list (c :: bs)) v).
  Proof.
    induction 1 as [|d r Hd Hr IH].
    - split.
      + intros ivs H. simpl in H. injection H as <-. reflexivity.
      + intros c ivs Hc H. simpl in H. injection H as <-.
        cbn [existsb]. rewrite (in_iv_lower c Hc), orb_false_r. reflexivity.
    - destruct IH as [IH1 IH2]. split.
      + intros ivs H. cbn [alternating] in H.
        destruct (is_lower_op (fst d)) eqn:Ld; cbn [Bool.eqb] in H; [|discriminate].
        apply (IH2 d ivs Ld H).
      + intros c ivs Hc H. cbn [alternating] in H.
        destruct (is_lower_op (fst d)) eqn:Ld; cbn [Bool.eqb] in H; [discriminate|].
        destruct (alternating None (Some false) r) as [rest|] eqn:Ha; [|discriminate].
        injection H as <-. cbn [existsb].
        rewrite (IH1 rest eq_refl).
        rewrite (in_iv_both c d Hc (bound_not_lower d Hd Ld)).
        unfold spec_list. cbn [map VS.in_pairs fst snd]. reflexivity.
  Qed.

  (* the alternating-bounds interval list denotes the specification's union of intervals *)
  Lemma alternating_in_bounds bs ivs :
    Forall (fun c => is_bound_c c = true) bs ->
    alternating None None bs = Some ivs ->
    existsb inI ivs = VS.in_bounds cmp (spec_list bs) v.
  Proof.
    intros Hb H. destruct bs as [|c r].
    - simpl in H. injection H as <-. reflexivity.
    - inversion Hb as [|? ? Hc Hr]; subst.
      destruct (alternating_pairs r Hr) as [P1 P2].
      cbn [alternating] in H.
      destruct (is_lower_op (fst c)) eqn:Lc.
      + rewrite (P2 c ivs Lc H).
        unfold spec_list. cbn [map VS.in_bounds fst snd].
        rewrite (lower_not_upper _ Lc). reflexivity.
      + destruct (alternating None (Some false) r) as [rest|] eqn:Ha; [|discriminate].
        injection H as <-. cbn [existsb].
        pose proof (bound_not_lower c Hc Lc) as Uc.
        rewrite (in_iv_upper c Uc), (P1 rest eq_refl).
        unfold spec_list. cbn [map VS.in_bounds fst snd].
        rewrite <- (upper_conv (fst c)), Uc. reflexivity.
  Qed.

  Lemma exacts_meaning ncs :
    existsb inI (map iv_exact (filter is_exact_c ncs)) =
    existsb (fun c => VS.is_eqop (fst c) && VS.is_eq (cmp v (snd c))) (spec_list ncs).
  Proof.
    induction ncs as [|c r IH]; [reflexivity|].
    destruct c as [o a]. unfold spec_list in *. cbn [filter map existsb fst snd].
    unfold is_exact_c at 1. cbn [fst].
    destruct o; cbn [conv VS.is_eqop andb orb map existsb]; try exact IH.
    rewrite IH. f_equal.
  Qed.

  Lemma excluded_meaning ncs :
    existsb (fun c => match fst c with
                      | ONe => match cmp v (snd c) with Eq => true | _ => false end
                      | _ => false end) ncs =
    existsb (fun c => VS.is_ne (fst c) && VS.is_eq (cmp v (snd c))) (spec_list ncs).
  Proof.
    induction ncs as [|c r IH]; [reflexivity|].
    destruct c as [o a]. unfold spec_list in *. cbn [map existsb fst snd].
    rewrite IH. f_equal. destruct o; reflexivity.
  Qed.

  Lemma bounds_spec_list ncs : VS.bounds (spec_list ncs) = spec_list (filter is_bound_c ncs).
  Proof.
    induction ncs as [|c r IH]; [reflexivity|].
    destruct c as [o a]. unfold spec_list, VS.bounds in *. cbn [map filter fst].
    rewrite IH. unfold is_bound_c, VS.is_bound. cbn [fst].
    rewrite (lower_conv o), (upper_conv o).
    destruct (VS.is_lower (conv o) || VS.is_upper (conv o)); reflexivity.
  Qed.

  Lemma only_ne_meaning ncs :
    forallb (fun c => VS.is_ne (fst c)) (spec_list ncs) = true <->
    (filter is_exact_c ncs = [] /\ filter is_bound_c ncs = []).
  Proof.
    induction ncs as [|c r IH]; [simpl; tauto|].
    destruct c as [o a]. unfold spec_list in *. cbn [map forallb filter fst].
    unfold is_exact_c at 1, is_bound_c at 1. cbn [fst].
    destruct o; cbn [conv VS.is_ne is_lower_op is_upper_op orb andb];
      try (split; [discriminate|intros [? ?]; discriminate]).
    exact IH.
  Qed.
End Meaning.

(* ---------- the native range texts ---------- *)

Lemma native_text_wf S st i : iv_wf S i -> exists t, native_text st i = Some t.
Proof.
  destruct i as [[[a ia]|] [[b ib]|] [e|]]; unfold iv_wf; cbn [i_exact i_lower i_upper];
    intros H; try contradiction; unfold native_text; cbn [i_exact i_lower i_upper];
    destruct st; eexists; reflexivity.
Qed.

Lemma any_range_native Q S st ivs v :
  native_ok_q Q S st -> s_vok S v = true -> Forall (iv_wf_q Q S) ivs ->
  let texts := filter_some (map (native_text st) ivs) in
  any_range S texts v = b2v (existsb (fun i => in_interval (s_vcmp S) i v) ivs) /\
  (texts = [] <-> ivs = []).
Proof.
  intros Hn Hv Hw. cbv zeta. induction Hw as [|i r Hi Hr IH].
  - split; [reflexivity|]. simpl. tauto.
  - destruct IH as [IH _].
    destruct (native_text_wf S st i (iv_wf_q_wf Q S i Hi)) as [t Ht].
    cbn [map filter_some]. rewrite Ht. split; [|split; discriminate].
    cbn [any_range existsb]. rewrite (Hn i t v Hi Ht Hv), IH.
    destruct (in_interval (s_vcmp S) i v); cbn [orb b2v].
    + destruct (existsb _ r); reflexivity.
    + reflexivity.
Qed.

(* ---------- the members of a normalized list ---------- *)

Lemma normalize_members_ok S cs ncs :
  normalize S cs = Some ncs -> Forall (fun c => bound_ok S (snd c)) ncs.
Proof.
  unfold normalize. destruct (normalize_collect S [] cs) as [l|] eqn:N; [|discriminate].
  intros H. injection H as <-.
  destruct (nc_some_spec S cs [] l N) as (_ & _ & F).
  apply (Forall_perm _ _ l); [symmetry; apply isort_perm|].
  rewrite Forall_forall in *. intros ov Hov. split; [apply F; exact Hov|].
  apply (nc_members S cs l N) in Hov. destruct Hov as (c & _ & Pt).
  unfold parse_text in Pt. destruct (beq (strip_spaces c) $"*"); [discriminate|].
  destruct (strip_vop vers_ops (strip_spaces c)) as [[o a]|]; [|discriminate].
  destruct a; [discriminate|]. injection Pt as <-. discriminate.
Qed.

Lemma contains_generic_some S st cs v ncs :
  s_vok S v = true -> normalize S cs = Some ncs -> ncs <> [] ->
  contains_generic S (Some st) cs v =
    let texts := filter_some (map (native_text st) (group ncs)) in
    match any_range S texts v with
    | VErr => VErr
    | in_any =>
        if existsb (fun c => match fst c with
                             | ONe => match s_vcmp S v (snd c) with Eq => true | _ => false end
                             | _ => false end) ncs
        then VFalse
        else match texts with [] => VTrue | _ => in_any end
    end.
Proof.
  intros Hv Hn Hne. unfold contains_generic. rewrite Hv, Hn. cbn [negb].
  destruct ncs; [congruence|reflexivity].
Qed.

(* ---------- C04 ---------- *)

(* hypothesis (iii) on the normalized list: sorted by version with pairwise distinct versions, and
   the bounds alternate *)
Definition sorted_alternating (S : scheme_ops) (ncs : list vcons) : Prop :=
  StronglySorted (ltc (ccmp S)) ncs /\ alternating None None (filter is_bound_c ncs) <> None.

Theorem C04_contains_generic_q Q S st cs ncs v :
  native_ok_q Q S st ->
  Forall (fun c => Q (snd c)) ncs ->
  s_vok S v = true ->
  normalize S cs = Some ncs -> ncs <> [] ->
  sorted_alternating S ncs ->
  contains_generic S (Some st) cs v = b2v (VS.spec_contains (s_vcmp S) (spec_list ncs) v).
Proof.
  intros Hnat HQ Hv Hn Hne [Hs Ha].
  rewrite (contains_generic_some S st cs v ncs Hv Hn Hne). cbv zeta.
  destruct (alternating None None (filter is_bound_c ncs)) as [alt|] eqn:A; [|congruence].
  rewrite (group_alt ncs alt A).
  assert (Hok : Forall (fun c => bound_ok_q Q S (snd c)) ncs).
  { pose proof (normalize_members_ok S cs ncs Hn) as Hok0. rewrite Forall_forall in *.
    intros c Hc. split; [apply Hok0|apply HQ]; exact Hc. }
  assert (Hbok : Forall (fun c => bound_ok_q Q S (snd c)) (filter is_bound_c ncs)).
  { rewrite Forall_forall in *. intros c Hc. apply Hok. apply filter_In in Hc. apply Hc. }
  assert (Hbs : StronglySorted (ltc (ccmp S)) (filter is_bound_c ncs)).
  { clear -Hs. induction Hs as [|c r Hr IH Hc]; simpl; [constructor|].
    destruct (is_bound_c c); [|exact IH]. constructor; [exact IH|].
    rewrite Forall_forall in *. intros x Hx. apply Hc. apply filter_In in Hx. apply Hx. }
  assert (Walt : Forall (iv_wf_q Q S) alt).
  { apply (alternating_wf Q S (filter is_bound_c ncs) None None alt Hbok Hbs I A). }
  assert (Wex : Forall (iv_wf_q Q S) (map iv_exact (filter is_exact_c ncs))).
  { rewrite Forall_forall in *. intros i Hi. apply in_map_iff in Hi.
    destruct Hi as (c & <- & Hc). apply filter_In in Hc. destruct Hc as [Hc _].
    unfold iv_wf_q, iv_exact. simpl. apply Hok. exact Hc. }
  assert (W : Forall (iv_wf_q Q S) (map iv_exact (filter is_exact_c ncs) ++ alt)).
  { apply Forall_app. split; assumption. }
  destruct (any_range_native Q S st _ v Hnat Hv W) as [AR TE]. cbv zeta in AR, TE.
  rewrite AR. rewrite existsb_app.
  rewrite (exacts_meaning (s_vcmp S) v ncs).
  assert (Bd : Forall (fun c => is_bound_c c = true) (filter is_bound_c ncs)).
  { rewrite Forall_forall. intros c Hc. apply filter_In in Hc. apply Hc. }
  rewrite (alternating_in_bounds (s_vcmp S) v _ alt Bd A).
  rewrite (excluded_meaning (s_vcmp S) v ncs).
  rewrite <- (bounds_spec_list ncs).
  unfold VS.spec_contains.
  set (excl := existsb (fun c => VS.is_ne (fst c) && VS.is_eq (s_vcmp S v (snd c))) (spec_list ncs)).
  set (hit := existsb (fun c => VS.is_eqop (fst c) && VS.is_eq (s_vcmp S v (snd c))) (spec_list ncs)).
  set (inb := VS.in_bounds (s_vcmp S) (VS.bounds (spec_list ncs)) v).
  assert (R : match b2v (hit || inb) with
              | VErr => VErr
              | r => if excl then VFalse
                     else match filter_some (map (native_text st)
                                   (map iv_exact (filter is_exact_c ncs) ++ alt)) with
                          | [] => VTrue
                          | _ => r
                          end
              end =
              b2v (if excl then false
                   else if forallb (fun c => VS.is_ne (fst c)) (spec_list ncs) then true
                   else if hit then true else inb)).
  { destruct excl; [destruct (hit || inb); reflexivity|].
    destruct (forallb (fun c => VS.is_ne (fst c)) (spec_list ncs)) eqn:ON.
    - apply (only_ne_meaning (s_vcmp S) v) in ON. destruct ON as [E1 E2].
      assert (alt = []).
      { rewrite E2 in A. simpl in A. congruence. }
      subst alt. rewrite E1. simpl. destruct (hit || inb); reflexivity.
    - destruct (filter_some (map (native_text st) (map iv_exact (filter is_exact_c ncs) ++ alt)))
        as [|t ts] eqn:TX.
      + exfalso. pose proof (proj1 TE eq_refl) as TX'. apply app_eq_nil in TX'. destruct TX' as [X1 X2].
        subst alt. apply alternating_nil in A. destruct A as [A _].
        apply map_eq_nil in X1.
        assert (ON' : forallb (fun c => VS.is_ne (fst c)) (spec_list ncs) = true).
        { apply (only_ne_meaning (s_vcmp S) v). split; assumption. }
        congruence.
      + destruct hit; destruct inb; reflexivity. }
  exact R.
Qed.

Theorem C04_contains_generic S st cs ncs v :
  native_ok S st ->
  s_vok S v = true ->
  normalize S cs = Some ncs -> ncs <> [] ->
  sorted_alternating S ncs ->
  contains_generic S (Some st) cs v = b2v (VS.spec_contains (s_vcmp S) (spec_list ncs) v).
Proof.
  intros Hnat Hv Hn Hne Hsa.
  apply (C04_contains_generic_q (fun _ => True) S st cs ncs v); try assumption.
  - apply native_ok_q_of. exact Hnat.
  - rewrite Forall_forall. intros; exact I.
Qed.

(* the pypi evaluator: the same, behind the model's pre-release gate *)
Theorem C04_contains_pypi S st cs ncs v :
  native_ok S st ->
  s_vok S v = true ->
  normalize S cs = Some ncs -> ncs <> [] ->
  sorted_alternating S ncs ->
  contains_pypi S (Some st) cs v =
    if pypi_is_prerelease (s_vshow S v) && negb (pypi_names_pre cs) then VFalse
    else b2v (VS.spec_contains (s_vcmp S) (spec_list ncs) v).
Proof.
  intros Hnat Hv Hn Hne Hsa. rewrite contains_pypi_eq, Hv. cbn [negb].
  rewrite (C04_contains_generic S st cs ncs v Hnat Hv Hn Hne Hsa).
  destruct (VS.spec_contains (s_vcmp S) (spec_list ncs) v); reflexivity.
Qed.

(* hypothesis (iii), sortedness part, follows from (i) and the VERS uniqueness rule *)
Lemma normalize_sorted S cs ncs :
  TotalPreorderOn (vok_text S) (s_vcmp S) -> pairwise_nonequiv S cs ->
  normalize S cs = Some ncs -> StronglySorted (ltc (ccmp S)) ncs.
Proof.
  intros T Hp. unfold normalize.
  destruct (normalize_collect S [] cs) as [l|] eqn:N; [|discriminate].
  intros H. injection H as <-.
  destruct (nc_some_spec S cs [] l N) as (_ & Nd & F).
  apply (isort_sorted _ _ _ (TPO_ccmp S T)); [exact F|exact Nd|].
  apply (pairwise_inj_on S cs l N Hp).
Qed.

Corollary C04_contains_generic_tp S st cs ncs v :
  TotalPreorderOn (vok_text S) (s_vcmp S) ->
  native_ok S st ->
  pairwise_nonequiv S cs ->
  s_vok S v = true ->
  normalize S cs = Some ncs -> ncs <> [] ->
  alternating None None (filter is_bound_c ncs) <> None ->
  contains_generic S (Some st) cs v = b2v (VS.spec_contains (s_vcmp S) (spec_list ncs) v).
Proof.
  intros T Hnat Hp Hv Hn Hne Ha.
  apply C04_contains_generic; try assumption.
  split; [apply (normalize_sorted S cs ncs T Hp Hn)|exact Ha].
Qed.

(* the model's alternation test is the specification's *)
Lemma alternating_spec bs :
  Forall (fun c => is_bound_c c = true) bs ->
  (alternating None None bs <> None <-> VS.bounds_alternate (spec_list bs) = true).
Proof.
  intros Hb.
  assert (G : forall r pending p, Forall (fun c => is_bound_c c = true) r ->
             (alternating pending (Some p) r <> None <-> VS.alternate_from p (spec_list r) = true)).
  { induction r as [|d r IH]; intros pending p Hr.
    - simpl. split; [reflexivity|discriminate].
    - inversion Hr as [|? ? Hd Hr']; subst.
      unfold spec_list. cbn [alternating map VS.alternate_from fst]. fold (spec_list r).
      rewrite <- (lower_conv (fst d)).
      assert (Bs : forall a b, Bool.eqb a b = Bool.eqb b a) by (intros [] []; reflexivity).
      rewrite (Bs p (is_lower_op (fst d))).
      destruct (Bool.eqb (is_lower_op (fst d)) p) eqn:E.
      + split; [congruence|discriminate].
      + destruct (is_lower_op (fst d)) eqn:Ld.
        * apply IH. exact Hr'.
        * rewrite <- (IH None false Hr').
          destruct (alternating None (Some false) r); split; congruence. }
  destruct bs as [|c r]; [simpl; split; [reflexivity|discriminate]|].
  inversion Hb as [|? ? Hc Hr]; subst.
  unfold spec_list. cbn [alternating map VS.bounds_alternate fst]. fold (spec_list r).
  rewrite <- (lower_conv (fst c)).
  destruct (is_lower_op (fst c)) eqn:Lc.
  - apply G. exact Hr.
  - rewrite <- (G r None false Hr).
    destruct (alternating None (Some false) r); split; congruence.
Qed.

(* hypothesis (iii) is exactly the specification's well-formedness of the list *)
Lemma strictly_sorted_spec S ncs :
  StronglySorted (ltc (ccmp S)) ncs <-> VS.strictly_sorted (s_vcmp S) (spec_list ncs) = true.
Proof.
  induction ncs as [|c r IH].
  - simpl. split; [reflexivity|constructor].
  - destruct c as [o a]. unfold spec_list in *. cbn [map VS.strictly_sorted fst snd].
    rewrite andb_true_iff, <- IH, forallb_forall. split.
    + intros H. apply StronglySorted_inv in H. destruct H as [H1 H2]. split; [|exact H1].
      intros x Hx. apply in_map_iff in Hx. destruct Hx as (y & <- & Hy). cbn [snd].
      rewrite Forall_forall in H2. specialize (H2 y Hy). unfold ltc, ccmp in H2. cbn [snd] in H2.
      rewrite H2. reflexivity.
    + intros [H1 H2]. constructor; [exact H2|]. rewrite Forall_forall. intros y Hy.
      unfold ltc, ccmp. cbn [snd].
      specialize (H1 (conv (fst y), snd y) (in_map _ _ _ Hy)). cbn [snd] in H1.
      destruct (s_vcmp S a (snd y)); try discriminate. reflexivity.
Qed.

Lemma sorted_alternating_spec S ncs :
  sorted_alternating S ncs <-> VS.well_formed (s_vcmp S) (spec_list ncs) = true.
Proof.
  unfold sorted_alternating, VS.well_formed. rewrite andb_true_iff, <- strictly_sorted_spec.
  rewrite (bounds_spec_list ncs), <- alternating_spec; [reflexivity|].
  rewrite Forall_forall. intros c Hc. apply filter_In in Hc. apply Hc.
Qed.

(* ---------- single constraint ---------- *)

Lemma normalize_single S c o a :
  parse_text (strip_spaces c) = Some (o, a) -> s_vok S a = true ->
  normalize S [c] = Some [(o, a)].
Proof.
  intros Pt Hok. unfold normalize.
  assert (Hne : strip_spaces c <> []) by (eapply parse_text_nonempty; exact Pt).
  rewrite (nc_cons_nonblank S [] c [] Hne). cbv zeta.
  unfold parse_text in Pt.
  destruct (beq (strip_spaces c) $"*"); [discriminate|].
  destruct (strip_vop vers_ops (strip_spaces c)) as [[o' a']|]; [|discriminate].
  destruct a' as [|y a']; [discriminate|]. injection Pt as <- <-.
  cbn [mem existsb]. rewrite Hok. reflexivity.
Qed.

(* a single-constraint range behaves as that one comparator *)
Corollary C04_single S st c o a v :
  native_ok S st -> s_vok S v = true ->
  parse_text (strip_spaces c) = Some (o, a) -> s_vok S a = true ->
  contains_generic S (Some st) [c] v = b2v (VS.sat (conv o) (s_vcmp S v a)).
Proof.
  intros Hnat Hv Pt Hok.
  pose proof (normalize_single S c o a Pt Hok) as Hn.
  rewrite (C04_contains_generic S st [c] [(o, a)] v Hnat Hv Hn).
  - unfold VS.spec_contains, spec_list. cbn [map fst snd].
    destruct o; cbn; destruct (s_vcmp S v a); reflexivity.
  - discriminate.
  - split.
    + constructor; constructor.
    + destruct o; cbn; discriminate.
Qed.

(* ---------- 'vers:<scheme>/*' contains every version ---------- *)

Lemma scheme_char_printable c : scheme_char c = true -> printable c = true.
Proof.
  destruct c as [b0 b1 b2 b3 b4 b5 b6 b7].
  destruct b0, b1, b2, b3, b4, b5, b6, b7; vm_compute; intros H; try reflexivity; discriminate.
Qed.

Corollary C04_star table styles ops eco version :
  eco <> [] -> forallb scheme_char eco = true ->
  vers_contains table styles ops (vers_text eco $"*") version = VTrue.
Proof.
  intros Hne Hsc.
  assert (Hs : contains_c "/"%char eco = false).
  { apply (contains_c_forallb "/"%char scheme_char eco); [reflexivity|exact Hsc]. }
  apply lone_star_true; [exact Hs| |reflexivity].
  rewrite (valid_text eco $"*" Hs).
  assert (P : forallb printable (vers_text eco $"*") = true).
  { unfold vers_text. rewrite !forallb_app. cbn [forallb]. simpl.
    rewrite andb_true_r. rewrite forallb_forall in *. intros c Hc.
    apply scheme_char_printable. apply Hsc. exact Hc. }
  rewrite P, Hsc. cbn [negb]. destruct eco; [congruence|]. discriminate.
Qed.

(* ---------- on range texts ---------- *)

Theorem C04_vers_contains table styles ops eco ctext version sc st ncs :
  contains_c "/"%char eco = false ->
  valid (vers_text eco ctext) <> None ->
  existsb is_star (split_c "|"%char ctext) = false ->
  find_scheme eco table = Some sc ->
  lookup (sc_eco sc) styles = Some st ->
  let S := ops (sc_eco sc) in
  let cl := split_c "|"%char ctext in
  native_ok S st ->
  s_vok S version = true ->
  normalize S cl = Some ncs -> ncs <> [] ->
  sorted_alternating S ncs ->
  vers_contains table styles ops (vers_text eco ctext) version =
    if sc_pypi_gate sc && pypi_is_prerelease (s_vshow S version) && negb (pypi_names_pre cl)
    then VFalse
    else b2v (VS.spec_contains (s_vcmp S) (spec_list ncs) version).
Proof.
  intros Hs Hv Hst Hf Hl S cl Hnat Hok Hn Hne Hsa.
  unfold vers_contains.
  destruct (valid (vers_text eco ctext)) as [[name cl0]|] eqn:V; [|congruence].
  destruct (valid_text_some _ _ _ _ Hs V) as [-> ->].
  rewrite Hst. cbn [andb]. rewrite Hf, Hl. fold S. fold cl.
  destruct (sc_pypi_gate sc); cbn [andb].
  - apply C04_contains_pypi; assumption.
  - apply C04_contains_generic; assumption.
Qed.

(* ---------- the scoped forms: [native_ok] only asked for bounds satisfying [Q] ---------- *)

Theorem C04_contains_pypi_q Q S st cs ncs v :
  native_ok_q Q S st ->
  Forall (fun c => Q (snd c)) ncs ->
  s_vok S v = true ->
  normalize S cs = Some ncs -> ncs <> [] ->
  sorted_alternating S ncs ->
  contains_pypi S (Some st) cs v =
    if pypi_is_prerelease (s_vshow S v) && negb (pypi_names_pre cs) then VFalse
    else b2v (VS.spec_contains (s_vcmp S) (spec_list ncs) v).
Proof.
  intros Hnat HQ Hv Hn Hne Hsa. rewrite contains_pypi_eq, Hv. cbn [negb].
  rewrite (C04_contains_generic_q Q S st cs ncs v Hnat HQ Hv Hn Hne Hsa).
  destruct (VS.spec_contains (s_vcmp S) (spec_list ncs) v); reflexivity.
Qed.

Theorem C04_vers_contains_q Q table styles ops eco ctext version sc st ncs :
  contains_c "/"%char eco = false ->
  valid (vers_text eco ctext) <> None ->
  existsb is_star (split_c "|"%char ctext) = false ->
  find_scheme eco table = Some sc ->
  lookup (sc_eco sc) styles = Some st ->
  let S := ops (sc_eco sc) in
  let cl := split_c "|"%char ctext in
  native_ok_q Q S st ->
  Forall (fun c => Q (snd c)) ncs ->
  s_vok S version = true ->
  normalize S cl = Some ncs -> ncs <> [] ->
  sorted_alternating S ncs ->
  vers_contains table styles ops (vers_text eco ctext) version =
    if sc_pypi_gate sc && pypi_is_prerelease (s_vshow S version) && negb (pypi_names_pre cl)
    then VFalse
    else b2v (VS.spec_contains (s_vcmp S) (spec_list ncs) version).
Proof.
  intros Hs Hv Hst Hf Hl S cl Hnat HQ Hok Hn Hne Hsa.
  unfold vers_contains.
  destruct (valid (vers_text eco ctext)) as [[name cl0]|] eqn:V; [|congruence].
  destruct (valid_text_some _ _ _ _ Hs V) as [-> ->].
  rewrite Hst. cbn [andb]. rewrite Hf, Hl. fold S. fold cl.
  destruct (sc_pypi_gate sc); cbn [andb].
  - apply (C04_contains_pypi_q Q); assumption.
  - apply (C04_contains_generic_q Q); assumption.
Qed.

Print Assumptions C04_contains_generic_q.
Print Assumptions C04_vers_contains_q.
Print Assumptions alternating_in_bounds.
Print Assumptions C04_contains_generic.
Print Assumptions C04_contains_pypi.
Print Assumptions C04_contains_generic_tp.
Print Assumptions C04_single.
Print Assumptions C04_star.
Print Assumptions C04_vers_contains.
Print Assumptions sorted_alternating_spec.
