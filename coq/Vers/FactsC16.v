(* Vers/FactsC16.v — property C16: the result of the VERS evaluators does not depend on the order
   of the constraints, on spaces inside or around them, on repeated constraints, or on blank
   constraints, provided the constraint versions are pairwise non-equivalent under the scheme's
   comparison (a total preorder on accepted texts). *)
From Coq Require Import List Permutation Sorted Lia.
From Verif.Base Require Import Bytes BytesFacts.
From Verif.Vers Require Import Model FactsStr FactsC17 FactsSort.
Import ListNotations.
Local Open Scope N_scope.

(* ---------- what one stripped constraint text denotes ---------- *)

Definition parse_text (t : bytes) : option vcons :=
  if beq t $"*" then None
  else match strip_vop vers_ops t with
       | Some (o, v) => match v with [] => None | _ => Some (o, v) end
       | None => None
       end.

Lemma strip_vop_sound t o v : strip_vop vers_ops t = Some (o, v) -> t = op_text o ++ v.
Proof.
  unfold vers_ops. cbn [strip_vop].
  repeat match goal with
  | |- (if has_prefix ?p t then _ else _) = _ -> _ =>
      let E := fresh "E" in
      destruct (has_prefix p t) eqn:E;
      [ intros H; injection H as <- <-; apply (has_prefix_true _ _ E) | ]
  end.
  discriminate.
Qed.

Lemma parse_text_sound t ov : parse_text t = Some ov -> t = op_text (fst ov) ++ snd ov.
Proof.
  unfold parse_text. destruct (beq t $"*"); [discriminate|].
  destruct (strip_vop vers_ops t) as [[o v]|] eqn:E; [|discriminate].
  destruct v; [discriminate|]. intros H. injection H as <-. apply strip_vop_sound. exact E.
Qed.

Lemma parse_text_inj t t' ov : parse_text t = Some ov -> parse_text t' = Some ov -> t = t'.
Proof.
  intros H1 H2. apply parse_text_sound in H1, H2. congruence.
Qed.

Lemma parse_text_nil : parse_text [] = None.
Proof. reflexivity. Qed.

Lemma parse_text_nonempty t ov : parse_text t = Some ov -> t <> [].
Proof. intros H E. subst t. discriminate. Qed.

(* ---------- normalize_collect, one step ---------- *)

Lemma nc_cons_blank S seen c0 r :
  strip_spaces c0 = [] -> normalize_collect S seen (c0 :: r) = normalize_collect S seen r.
Proof. intros H. rewrite nc_cons. cbv zeta. rewrite H. reflexivity. Qed.

Lemma nc_cons_nonblank S seen c0 r :
  strip_spaces c0 <> [] ->
  normalize_collect S seen (c0 :: r) =
    let c := strip_spaces c0 in
    if beq c $"*" then None
    else match strip_vop vers_ops c with
         | None => None
         | Some (o, v) =>
             match v with
             | [] => None
             | _ => if mem c seen then normalize_collect S seen r
                    else if s_vok S v
                         then match normalize_collect S (c :: seen) r with
                              | Some l => Some ((o, v) :: l)
                              | None => None
                              end
                         else None
             end
         end.
Proof. intros H. rewrite nc_cons. cbv zeta. destruct (strip_spaces c0); [congruence|reflexivity]. Qed.

Lemma blank_dec (c : bytes) : strip_spaces c = [] \/ strip_spaces c <> [].
Proof. destruct (strip_spaces c); [left; reflexivity|right; discriminate]. Qed.

(* failure: exactly when some constraint fails its step *)
Lemma nc_none_inv S cs : forall seen,
  normalize_collect S seen cs = None ->
  exists c, In c cs /\ step_fails S (strip_spaces c) = true.
Proof.
  induction cs as [|c0 r IH]; intros seen H; [discriminate|].
  assert (R : forall sn, normalize_collect S sn r = None ->
                         exists c, In c (c0 :: r) /\ step_fails S (strip_spaces c) = true).
  { intros sn Hn. destruct (IH sn Hn) as (c & Hc & Hf). exists c. split; [right; exact Hc|exact Hf]. }
  destruct (blank_dec c0) as [E0|E0].
  - rewrite (nc_cons_blank _ _ _ _ E0) in H. eapply R. exact H.
  - rewrite (nc_cons_nonblank _ _ _ _ E0) in H. cbv zeta in H.
    destruct (strip_spaces c0) as [|x0 t0] eqn:Et; [congruence|].
    destruct (beq (x0 :: t0) $"*") eqn:B.
    { exists c0. split; [left; reflexivity|]. rewrite Et. unfold step_fails. rewrite B. reflexivity. }
    destruct (strip_vop vers_ops (x0 :: t0)) as [[o v]|] eqn:SV.
    2:{ exists c0. split; [left; reflexivity|]. rewrite Et. unfold step_fails. rewrite B, SV. reflexivity. }
    destruct v as [|y v'].
    { exists c0. split; [left; reflexivity|]. rewrite Et. unfold step_fails. rewrite B, SV. reflexivity. }
    destruct (mem (x0 :: t0) seen); [eapply R; exact H|].
    destruct (s_vok S (y :: v')) eqn:OK.
    + match type of H with
      | context [normalize_collect ?a ?b ?c] => destruct (normalize_collect a b c) eqn:N
      end; [discriminate H|].
      eapply R. exact N.
    + exists c0. split; [left; reflexivity|]. rewrite Et. unfold step_fails. rewrite B, SV, OK. reflexivity.
Qed.

Lemma nc_none_iff S cs :
  normalize_collect S [] cs = None <->
  exists c, In c cs /\ step_fails S (strip_spaces c) = true.
Proof.
  split; [apply nc_none_inv|].
  intros (c & Hc & Hf). apply (nc_fail S c cs Hc Hf). reflexivity.
Qed.

(* success: the members are the denotations of the (unseen) texts, without repetition, accepted *)
Lemma nc_some_spec S cs : forall seen l,
  normalize_collect S seen cs = Some l ->
  (forall ov, In ov l <->
     exists c, In c cs /\ mem (strip_spaces c) seen = false /\
               parse_text (strip_spaces c) = Some ov)
  /\ NoDup l /\ Forall (fun c => s_vok S (snd c) = true) l.
Proof.
  induction cs as [|c0 r IH]; intros seen l H.
  - simpl in H. injection H as <-. split; [|split; constructor].
    intros ov. split; [intros []|intros (c & [] & _)].
  - destruct (blank_dec c0) as [E0|E0].
    + rewrite (nc_cons_blank _ _ _ _ E0) in H.
      destruct (IH seen l H) as (I & N & F). split; [|split; assumption].
      intros ov. rewrite I. split.
      * intros (c & Hc & M & Pt). exists c. split; [right; exact Hc|split; assumption].
      * intros (c & [<-|Hc] & M & Pt).
        { rewrite E0 in Pt. discriminate. }
        exists c. split; [exact Hc|split; assumption].
    + rewrite (nc_cons_nonblank _ _ _ _ E0) in H. cbv zeta in H.
      remember (strip_spaces c0) as t eqn:Et.
      destruct (beq t $"*") eqn:B; [discriminate|].
      destruct (strip_vop vers_ops t) as [[o v]|] eqn:SV; [|discriminate].
      destruct v as [|y v']; [discriminate|].
      assert (PT : parse_text t = Some (o, y :: v')).
      { unfold parse_text. rewrite B, SV. reflexivity. }
      destruct (mem t seen) eqn:M.
      * destruct (IH seen l H) as (I & N & F). split; [|split; assumption].
        intros ov. rewrite I. split.
        -- intros (c & Hc & Mc & Pt). exists c. split; [right; exact Hc|split; assumption].
        -- intros (c & [<-|Hc] & Mc & Pt).
           { rewrite <- Et in Mc. congruence. }
           exists c. split; [exact Hc|split; assumption].
      * destruct (s_vok S (y :: v')) eqn:OK; [|discriminate].
        destruct (normalize_collect S (t :: seen) r) as [l2|] eqn:R; [|discriminate H].
        injection H as <-.
        destruct (IH (t :: seen) l2 R) as (I & N & F).
        assert (MC : forall u, mem u (t :: seen) = beq u t || mem u seen) by reflexivity.
        split; [|split].
        -- intros ov. split.
           ++ intros [<-|Hin].
              { exists c0. split; [left; reflexivity|]. rewrite <- Et. split; assumption. }
              apply I in Hin. destruct Hin as (c & Hc & Mc & Pt).
              exists c. split; [right; exact Hc|]. split; [|exact Pt].
              rewrite MC in Mc. apply orb_false_iff in Mc. apply Mc.
           ++ intros (c & [<-|Hc] & Mc & Pt).
              { left. rewrite <- Et in Pt.
                assert (X : Some (o, y :: v') = Some ov) by (rewrite <- PT; exact Pt).
                injection X as <-. reflexivity. }
              destruct (beq (strip_spaces c) t) eqn:Bt.
              { apply beq_eq in Bt. rewrite Bt in Pt. left.
                assert (X : Some (o, y :: v') = Some ov) by (rewrite <- PT; exact Pt).
                injection X as <-. reflexivity. }
              right. apply I. exists c. split; [exact Hc|]. split; [|exact Pt].
              rewrite MC, Bt, Mc. reflexivity.
        -- constructor; [|exact N]. intros Hin. apply I in Hin.
           destruct Hin as (c & Hc & Mc & Pt).
           rewrite MC in Mc. apply orb_false_iff in Mc. destruct Mc as [Bt _].
           assert (Q : strip_spaces c = t) by (eapply parse_text_inj; eassumption).
           rewrite Q, beq_refl in Bt. discriminate.
        -- constructor; [exact OK|exact F].
Qed.

Lemma nc_members S cs l :
  normalize_collect S [] cs = Some l ->
  forall ov, In ov l <-> exists c, In c cs /\ parse_text (strip_spaces c) = Some ov.
Proof.
  intros H ov. destruct (nc_some_spec S cs [] l H) as (I & _ & _). rewrite I. split.
  - intros (c & Hc & _ & Pt). exists c. split; assumption.
  - intros (c & Hc & Pt). exists c. split; [exact Hc|]. split; [reflexivity|exact Pt].
Qed.

(* ---------- the invariance theorem for normalize ---------- *)

(* the two constraint lists have the same non-empty texts after whitespace removal *)
Definition same_texts (cs cs' : list bytes) : Prop :=
  forall t, t <> [] -> (In t (map strip_spaces cs) <-> In t (map strip_spaces cs')).

(* VERS uniqueness rule: constraints whose versions are equivalent under the scheme's comparison
   are the same constraint *)
Definition pairwise_nonequiv (S : scheme_ops) (cs : list bytes) : Prop :=
  forall c1 c2 ov1 ov2, In c1 cs -> In c2 cs ->
    parse_text (strip_spaces c1) = Some ov1 -> parse_text (strip_spaces c2) = Some ov2 ->
    s_vcmp S (snd ov1) (snd ov2) = Eq -> ov1 = ov2.

Definition vok_text (S : scheme_ops) (t : bytes) : Prop := s_vok S t = true.
Definition ccmp (S : scheme_ops) (a b : vcons) : comparison := s_vcmp S (snd a) (snd b).
Definition cok (S : scheme_ops) (c : vcons) : Prop := s_vok S (snd c) = true.

Lemma TPO_ccmp S : TotalPreorderOn (vok_text S) (s_vcmp S) -> TotalPreorderOn (cok S) (ccmp S).
Proof.
  intros T. unfold ccmp, cok. constructor.
  - intros a Pa. apply (tpo_refl T). exact Pa.
  - intros a b Pa Pb. apply (tpo_anti T); assumption.
  - intros a b c x Pa Pb Pc. apply (tpo_trans T); assumption.
  - intros a b c Pa Pb Pc. apply (tpo_eq_l T); assumption.
Qed.

Lemma same_texts_sym cs cs' : same_texts cs cs' -> same_texts cs' cs.
Proof. intros H t Ht. symmetry. apply H. exact Ht. Qed.

Lemma same_texts_refl cs : same_texts cs cs.
Proof. intros t Ht. reflexivity. Qed.

Lemma same_texts_trans a b c : same_texts a b -> same_texts b c -> same_texts a c.
Proof. intros H1 H2 t Ht. rewrite (H1 t Ht). apply H2. exact Ht. Qed.

Lemma same_texts_witness cs cs' c :
  same_texts cs cs' -> In c cs -> strip_spaces c <> [] ->
  exists c', In c' cs' /\ strip_spaces c' = strip_spaces c.
Proof.
  intros H Hc Hne.
  assert (I : In (strip_spaces c) (map strip_spaces cs')).
  { apply (H _ Hne). apply in_map. exact Hc. }
  apply in_map_iff in I. destruct I as (c' & E & Hc'). exists c'. split; assumption.
Qed.

Lemma step_fails_nonempty S t : step_fails S t = true -> t <> [].
Proof. intros H E. subst t. discriminate. Qed.

Lemma pairwise_inj_on S cs l :
  normalize_collect S [] cs = Some l -> pairwise_nonequiv S cs -> inj_on (ccmp S) l.
Proof.
  intros H Hp a b Ha Hb E.
  apply (nc_members S cs l H) in Ha, Hb.
  destruct Ha as (c1 & I1 & P1). destruct Hb as (c2 & I2 & P2).
  apply (Hp c1 c2 a b I1 I2 P1 P2). exact E.
Qed.

Theorem normalize_same_texts S cs cs' :
  TotalPreorderOn (vok_text S) (s_vcmp S) ->
  pairwise_nonequiv S cs ->
  same_texts cs cs' ->
  normalize S cs = normalize S cs'.
Proof.
  intros T Hp Hs. unfold normalize.
  destruct (normalize_collect S [] cs) as [l|] eqn:N; destruct (normalize_collect S [] cs') as [l'|] eqn:N'.
  - f_equal.
    destruct (nc_some_spec S cs [] l N) as (_ & Nd & F).
    destruct (nc_some_spec S cs' [] l' N') as (_ & Nd' & _).
    apply (isort_perm_eq _ _ _ (TPO_ccmp S T)).
    + exact F.
    + exact Nd.
    + apply (pairwise_inj_on S cs l N Hp).
    + apply NoDup_Permutation; try assumption.
      intros ov. rewrite (nc_members S cs l N), (nc_members S cs' l' N'). split.
      * intros (c & Hc & Pt).
        destruct (same_texts_witness cs cs' c Hs Hc (parse_text_nonempty _ _ Pt)) as (c' & Hc' & E).
        exists c'. split; [exact Hc'|]. rewrite E. exact Pt.
      * intros (c & Hc & Pt).
        destruct (same_texts_witness cs' cs c (same_texts_sym _ _ Hs) Hc (parse_text_nonempty _ _ Pt))
          as (c' & Hc' & E).
        exists c'. split; [exact Hc'|]. rewrite E. exact Pt.
  - exfalso. apply nc_none_iff in N'. destruct N' as (c & Hc & Hf).
    destruct (same_texts_witness cs' cs c (same_texts_sym _ _ Hs) Hc (step_fails_nonempty _ _ Hf))
      as (c' & Hc' & E).
    assert (X : normalize_collect S [] cs = None).
    { apply nc_none_iff. exists c'. split; [exact Hc'|]. rewrite E. exact Hf. }
    congruence.
  - exfalso. apply nc_none_iff in N. destruct N as (c & Hc & Hf).
    destruct (same_texts_witness cs cs' c Hs Hc (step_fails_nonempty _ _ Hf)) as (c' & Hc' & E).
    assert (X : normalize_collect S [] cs' = None).
    { apply nc_none_iff. exists c'. split; [exact Hc'|]. rewrite E. exact Hf. }
    congruence.
  - reflexivity.
Qed.

(* ---------- the four transformations are instances of [same_texts] ---------- *)

(* reordering *)
Lemma same_texts_perm cs cs' : Permutation cs cs' -> same_texts cs cs'.
Proof.
  intros Hp t _. split; apply Permutation_in; [|symmetry]; apply Permutation_map; exact Hp.
Qed.

(* spaces inserted anywhere: texts equal after whitespace removal, position by position *)
Lemma same_texts_spaces cs cs' :
  Forall2 (fun c c' => strip_spaces c = strip_spaces c') cs cs' -> same_texts cs cs'.
Proof.
  intros H. assert (E : map strip_spaces cs = map strip_spaces cs').
  { induction H as [|c c' r r' Hc Hr IH]; simpl; [reflexivity|]. rewrite Hc, IH. reflexivity. }
  intros t _. rewrite E. reflexivity.
Qed.

Lemma strip_spaces_insert a b w :
  forallb is_space w = true -> strip_spaces (a ++ w ++ b) = strip_spaces (a ++ b).
Proof.
  intros H. rewrite !strip_spaces_app, (strip_spaces_all_space w H). reflexivity.
Qed.

(* repeating a constraint anywhere *)
Lemma same_texts_dup a b c : In c (a ++ b) -> same_texts (a ++ b) (a ++ c :: b).
Proof.
  intros Hc t _. rewrite !map_app. cbn [map]. rewrite !in_app_iff. cbn [In].
  assert (I : In (strip_spaces c) (map strip_spaces a) \/ In (strip_spaces c) (map strip_spaces b)).
  { apply in_app_iff. rewrite <- map_app. apply in_map. exact Hc. }
  split; [tauto|]. intros [H|[<-|H]]; tauto.
Qed.

(* adding an empty / blank constraint anywhere *)
Lemma same_texts_blank a b c : strip_spaces c = [] -> same_texts (a ++ b) (a ++ c :: b).
Proof.
  intros Hc t Ht. rewrite !map_app. cbn [map]. rewrite !in_app_iff. cbn [In]. rewrite Hc.
  split; [tauto|]. intros [H|[E|H]]; try tauto. congruence.
Qed.

(* ---------- consequences for the evaluators ---------- *)

Theorem contains_generic_same_texts S st cs cs' v :
  TotalPreorderOn (vok_text S) (s_vcmp S) ->
  pairwise_nonequiv S cs -> same_texts cs cs' ->
  contains_generic S st cs v = contains_generic S st cs' v.
Proof.
  intros T Hp Hs. unfold contains_generic.
  rewrite (normalize_same_texts S cs cs' T Hp Hs). reflexivity.
Qed.

(* the pypi gate looks at the raw constraint texts with ' ' removed *)
Definition pypi_names_pre (cs : list bytes) : bool :=
  existsb (fun c => contains_pre_markers (filter (fun x => negb (ceqb x " "%char)) c)) cs.

Lemma contains_pypi_eq S st cs v :
  contains_pypi S st cs v =
    if negb (s_vok S v) then VErr
    else match contains_generic S st cs v with
         | VErr => VErr
         | res => if pypi_is_prerelease (s_vshow S v) && negb (pypi_names_pre cs)
                  then VFalse else res
         end.
Proof. reflexivity. Qed.

Lemma existsb_perm {A} (f : A -> bool) l l' : Permutation l l' -> existsb f l = existsb f l'.
Proof.
  intros Hp. apply Bool.eq_iff_eq_true. rewrite !existsb_exists.
  split; intros (x & Hx & Hf); exists x; split; try assumption;
    eapply Permutation_in; try eassumption. symmetry. exact Hp.
Qed.

Theorem contains_pypi_perm S st cs cs' v :
  TotalPreorderOn (vok_text S) (s_vcmp S) ->
  pairwise_nonequiv S cs -> Permutation cs cs' ->
  contains_pypi S st cs v = contains_pypi S st cs' v.
Proof.
  intros T Hp Hperm. rewrite !contains_pypi_eq.
  rewrite (contains_generic_same_texts S st cs cs' v T Hp (same_texts_perm _ _ Hperm)).
  unfold pypi_names_pre. rewrite (existsb_perm _ cs cs' Hperm). reflexivity.
Qed.

(* on printable text the only white space is ' ', so the gate's view of a constraint is its
   stripped text *)
Lemma printable_space c : printable c = true -> is_space c = ceqb c " "%char.
Proof.
  destruct c as [b0 b1 b2 b3 b4 b5 b6 b7].
  destruct b0, b1, b2, b3, b4, b5, b6, b7; vm_compute; intros H; try reflexivity; discriminate.
Qed.

Lemma despace_strip c :
  forallb printable c = true -> filter (fun x => negb (ceqb x " "%char)) c = strip_spaces c.
Proof.
  unfold strip_spaces. induction c as [|x c IH]; simpl; intros H; [reflexivity|].
  apply andb_true_iff in H. destruct H as [H1 H2].
  rewrite (printable_space x H1), (IH H2). reflexivity.
Qed.

Lemma contains_pre_markers_nil : contains_pre_markers [] = false.
Proof. reflexivity. Qed.

Lemma pypi_names_pre_texts cs :
  Forall (fun c => forallb printable c = true) cs ->
  pypi_names_pre cs = existsb contains_pre_markers (map strip_spaces cs).
Proof.
  unfold pypi_names_pre. induction 1 as [|c r Hc Hr IH]; simpl; [reflexivity|].
  rewrite (despace_strip c Hc), IH. reflexivity.
Qed.

Lemma pypi_names_pre_same cs cs' :
  Forall (fun c => forallb printable c = true) cs ->
  Forall (fun c => forallb printable c = true) cs' ->
  same_texts cs cs' -> pypi_names_pre cs = pypi_names_pre cs'.
Proof.
  intros P P' Hs. rewrite (pypi_names_pre_texts cs P), (pypi_names_pre_texts cs' P').
  apply Bool.eq_iff_eq_true. rewrite !existsb_exists.
  split; intros (t & Ht & Hm); exists t; (split; [|exact Hm]);
    (assert (Hne : t <> []) by (intros ->; rewrite contains_pre_markers_nil in Hm; discriminate));
    apply (Hs t Hne); exact Ht.
Qed.

Theorem contains_pypi_same_texts S st cs cs' v :
  TotalPreorderOn (vok_text S) (s_vcmp S) ->
  pairwise_nonequiv S cs -> same_texts cs cs' ->
  Forall (fun c => forallb printable c = true) cs ->
  Forall (fun c => forallb printable c = true) cs' ->
  contains_pypi S st cs v = contains_pypi S st cs' v.
Proof.
  intros T Hp Hs P P'. rewrite !contains_pypi_eq.
  rewrite (contains_generic_same_texts S st cs cs' v T Hp Hs).
  rewrite (pypi_names_pre_same cs cs' P P' Hs). reflexivity.
Qed.

(* ---------- the range text: split and join ---------- *)

Lemma split_c_nosep sep a : contains_c sep a = false -> split_c sep a = [a].
Proof.
  unfold contains_c. induction a as [|y a IH]; simpl; intros H; [reflexivity|].
  apply orb_false_iff in H. destruct H as [H1 H2]. rewrite H1, (IH H2). reflexivity.
Qed.

Lemma split_c_app sep a b :
  contains_c sep a = false -> split_c sep (a ++ sep :: b) = a :: split_c sep b.
Proof.
  unfold contains_c. induction a as [|y a IH]; intros H.
  - simpl. rewrite ceqb_refl. reflexivity.
  - simpl in H. apply orb_false_iff in H. destruct H as [H1 H2].
    change ((y :: a) ++ sep :: b) with (y :: (a ++ sep :: b)).
    cbn [split_c]. rewrite H1, (IH H2). reflexivity.
Qed.

Lemma split_join cl :
  cl <> [] -> Forall (fun c => contains_c "|"%char c = false) cl ->
  split_c "|"%char (join $"|" cl) = cl.
Proof.
  intros Hne H. induction H as [|c r Hc Hr IH]; [congruence|].
  destruct r as [|c1 r].
  - simpl. apply split_c_nosep. exact Hc.
  - change (join $"|" (c :: c1 :: r)) with (c ++ "|"%char :: join $"|" (c1 :: r)).
    rewrite (split_c_app _ _ _ Hc). f_equal. apply IH. discriminate.
Qed.

Lemma split_c_forall (p : ascii -> bool) sep s :
  forallb p s = true -> Forall (fun c => forallb p c = true) (split_c sep s).
Proof.
  induction s as [|y s IH]; simpl; intros H.
  - constructor; [reflexivity|constructor].
  - apply andb_true_iff in H. destruct H as [H1 H2]. specialize (IH H2).
    destruct (ceqb sep y).
    + constructor; [reflexivity|exact IH].
    + destruct (split_c sep s) as [|f fs].
      * constructor; [simpl; rewrite H1; reflexivity|constructor].
      * inversion IH as [|? ? Hf Hfs]; subst. constructor; [simpl; rewrite H1, Hf; reflexivity|exact Hfs].
Qed.

(* ---------- the top-level statement, on range texts ---------- *)

Lemma nc_all_blank S cs seen :
  (forall c, In c cs -> strip_spaces c = []) -> normalize_collect S seen cs = Some [].
Proof.
  induction cs as [|c0 r IH]; intros H; [reflexivity|].
  rewrite nc_cons_blank by (apply H; left; reflexivity).
  apply IH. intros c Hc. apply H. right. exact Hc.
Qed.

Lemma contains_generic_all_blank S st cs v :
  (forall c, In c cs -> strip_spaces c = []) -> contains_generic S st cs v = VErr.
Proof.
  intros H. unfold contains_generic, normalize. rewrite (nc_all_blank S cs [] H).
  destruct (negb (s_vok S v)); reflexivity.
Qed.

Lemma no_star_transfer cs cs' :
  same_texts cs cs' -> existsb is_star cs = false -> existsb is_star cs' = false.
Proof.
  intros Hs H. destruct (existsb is_star cs') eqn:E; [|reflexivity].
  apply existsb_exists in E. destruct E as (c' & Hc' & St).
  rewrite is_star_strip in St. apply beq_eq in St.
  assert (Hne : strip_spaces c' <> []) by (rewrite St; discriminate).
  destruct (same_texts_witness cs' cs c' (same_texts_sym _ _ Hs) Hc' Hne) as (c & Hc & Ec).
  assert (X : existsb is_star cs = true).
  { apply existsb_exists. exists c. split; [exact Hc|]. rewrite is_star_strip, Ec, St. reflexivity. }
  congruence.
Qed.

Lemma all_blank_transfer cs cs' :
  same_texts cs cs' -> (forall c, In c cs -> strip_spaces c = []) ->
  forall c', In c' cs' -> strip_spaces c' = [].
Proof.
  intros Hs H c' Hc'. destruct (blank_dec c') as [E|E]; [exact E|].
  destruct (same_texts_witness cs' cs c' (same_texts_sym _ _ Hs) Hc' E) as (c & Hc & Ec).
  rewrite <- Ec. apply H. exact Hc.
Qed.

Section TopLevel.
  Variable table : list scheme.
  Variable styles : list (bytes * native_style).
  Variable ops : bytes -> scheme_ops.
  Notation VC := (vers_contains table styles ops).

  (* vers_contains on a star-free range *)
  Lemma VC_no_star eco ctext version :
    contains_c "/"%char eco = false ->
    existsb is_star (split_c "|"%char ctext) = false ->
    VC (vers_text eco ctext) version =
      if negb (forallb printable (vers_text eco ctext)) then VErr
      else match eco with
           | [] => VErr
           | _ => if negb (forallb scheme_char eco) then VErr
                  else match ctext with
                       | [] => VErr
                       | _ => match find_scheme eco table with
                              | None => VErr
                              | Some sc =>
                                  let S := ops (sc_eco sc) in
                                  let st := lookup (sc_eco sc) styles in
                                  let cl := split_c "|"%char ctext in
                                  if sc_pypi_gate sc then contains_pypi S st cl version
                                  else contains_generic S st cl version
                              end
                       end
           end.
  Proof.
    intros Hs Hst. unfold vers_contains. rewrite (valid_text eco ctext Hs).
    destruct (negb (forallb printable (vers_text eco ctext))); [reflexivity|].
    destruct eco as [|e0 eco']; [reflexivity|].
    destruct (negb (forallb scheme_char (e0 :: eco'))); [reflexivity|].
    destruct ctext as [|c0 ctext']; [reflexivity|]. cbv zeta.
    assert (F : filter is_star (split_c "|"%char (c0 :: ctext')) = []).
    { destruct (filter is_star (split_c "|"%char (c0 :: ctext'))) as [|x l] eqn:E; [reflexivity|].
      assert (I : In x (filter is_star (split_c "|"%char (c0 :: ctext')))) by (rewrite E; left; reflexivity).
      apply filter_In in I. destruct I as [I1 I2].
      assert (X : existsb is_star (split_c "|"%char (c0 :: ctext')) = true)
        by (apply existsb_exists; exists x; split; assumption).
      congruence. }
    rewrite F. cbn [length Nat.ltb Nat.leb Nat.eqb andb]. rewrite Hst. cbn [andb].
    reflexivity.
  Qed.

  Lemma printable_vers_text eco ctext :
    forallb printable (vers_text eco ctext) = forallb printable eco && forallb printable ctext.
  Proof.
    unfold vers_text. rewrite !forallb_app. cbn [forallb]. reflexivity.
  Qed.

  (* C16, top level: two range texts of the same scheme whose '|'-separated constraint lists have
     the same non-blank texts up to white space (any reordering, space insertion, repetition,
     blank constraints) evaluate alike — result and error alike.  Star-free ranges only: the text
     "*|*" is an error while "*" is true (see the report). *)
  Theorem C16_vers_contains eco ctext ctext' version :
    contains_c "/"%char eco = false ->
    forallb printable ctext = true -> forallb printable ctext' = true ->
    existsb is_star (split_c "|"%char ctext) = false ->
    same_texts (split_c "|"%char ctext) (split_c "|"%char ctext') ->
    (forall sc, find_scheme eco table = Some sc ->
       TotalPreorderOn (vok_text (ops (sc_eco sc))) (s_vcmp (ops (sc_eco sc))) /\
       pairwise_nonequiv (ops (sc_eco sc)) (split_c "|"%char ctext)) ->
    VC (vers_text eco ctext) version = VC (vers_text eco ctext') version.
  Proof.
    intros Hs P P' Hst Hsame Hsc.
    pose proof (no_star_transfer _ _ Hsame Hst) as Hst'.
    rewrite (VC_no_star eco ctext version Hs Hst), (VC_no_star eco ctext' version Hs Hst').
    rewrite !printable_vers_text, P, P'.
    destruct (negb (forallb printable eco && true)); [reflexivity|].
    destruct eco as [|e0 eco']; [reflexivity|].
    destruct (negb (forallb scheme_char (e0 :: eco'))); [reflexivity|].
    destruct (find_scheme (e0 :: eco') table) as [sc|] eqn:F.
    2:{ destruct ctext, ctext'; reflexivity. }
    destruct (Hsc sc eq_refl) as [T Hp]. cbv zeta.
    set (S := ops (sc_eco sc)) in *. set (st := lookup (sc_eco sc) styles).
    assert (Blank : forall ct ct', ct = [] -> same_texts (split_c "|"%char ct) (split_c "|"%char ct') ->
              contains_generic S st (split_c "|"%char ct') version = VErr).
    { intros ct ct' -> Hx. apply contains_generic_all_blank.
      apply (all_blank_transfer _ _ Hx). intros c [<-|[]]. reflexivity. }
    assert (Main : (if sc_pypi_gate sc then contains_pypi S st (split_c "|"%char ctext) version
                    else contains_generic S st (split_c "|"%char ctext) version) =
                   (if sc_pypi_gate sc then contains_pypi S st (split_c "|"%char ctext') version
                    else contains_generic S st (split_c "|"%char ctext') version)).
    { destruct (sc_pypi_gate sc).
      - apply contains_pypi_same_texts; try assumption; apply split_c_forall; assumption.
      - apply contains_generic_same_texts; assumption. }
    destruct ctext as [|c0 ct]; destruct ctext' as [|c0' ct'].
    - reflexivity.
    - pose proof (Blank [] (c0' :: ct') eq_refl Hsame) as B.
      rewrite (contains_pypi_of_generic_err _ _ _ _ B), B. destruct (sc_pypi_gate sc); reflexivity.
    - pose proof (Blank [] (c0 :: ct) eq_refl (same_texts_sym _ _ Hsame)) as B.
      rewrite (contains_pypi_of_generic_err _ _ _ _ B), B. destruct (sc_pypi_gate sc); reflexivity.
    - exact Main.
  Qed.

  (* the same, for ranges written as joined constraint lists *)
  Corollary C16_vers_contains_join eco cl cl' version :
    contains_c "/"%char eco = false ->
    cl <> [] -> cl' <> [] ->
    Forall (fun c => contains_c "|"%char c = false) cl ->
    Forall (fun c => contains_c "|"%char c = false) cl' ->
    forallb printable (join $"|" cl) = true -> forallb printable (join $"|" cl') = true ->
    existsb is_star cl = false ->
    same_texts cl cl' ->
    (forall sc, find_scheme eco table = Some sc ->
       TotalPreorderOn (vok_text (ops (sc_eco sc))) (s_vcmp (ops (sc_eco sc))) /\
       pairwise_nonequiv (ops (sc_eco sc)) cl) ->
    VC (vers_text eco (join $"|" cl)) version = VC (vers_text eco (join $"|" cl')) version.
  Proof.
    intros Hs N N' B B' P P' Hst Hsame Hsc.
    apply C16_vers_contains; try assumption; rewrite ?(split_join cl N B), ?(split_join cl' N' B');
      assumption.
  Qed.
End TopLevel.

(* the lone star (with blanks around it) is true whatever the scheme and the probe *)
Lemma lone_star_true table styles ops eco ctext version :
  contains_c "/"%char eco = false ->
  valid (vers_text eco ctext) <> None ->
  existsb is_star (split_c "|"%char ctext) = true ->
  vers_contains table styles ops (vers_text eco ctext) version = VTrue.
Proof.
  intros Hs Hv Hst. unfold vers_contains.
  destruct (valid (vers_text eco ctext)) as [[name cl]|] eqn:V; [|congruence].
  destruct (valid_text_some _ _ _ _ Hs V) as [-> ->].
  apply valid_inv in V. destruct V as (ct & _ & _ & _ & _ & _ & _ & _ & _ & L).
  rewrite Hst, (L Hst). reflexivity.
Qed.

(* ---------- the four transformations, named ---------- *)

(* normalize_collect reads the constraint texts only through strip_spaces *)
Lemma nc_ext S cs : forall cs' seen,
  map strip_spaces cs = map strip_spaces cs' ->
  normalize_collect S seen cs = normalize_collect S seen cs'.
Proof.
  induction cs as [|c r IH]; intros [|c' r'] seen H; try discriminate; [reflexivity|].
  simpl in H. injection H as Hc Hr.
  rewrite !nc_cons. cbv zeta. rewrite <- Hc.
  rewrite (IH r' seen Hr), (IH r' (strip_spaces c :: seen) Hr). reflexivity.
Qed.

(* reordering (needs the uniqueness rule: the sort is by version only) *)
Corollary normalize_perm S cs cs' :
  TotalPreorderOn (vok_text S) (s_vcmp S) -> pairwise_nonequiv S cs ->
  Permutation cs cs' -> normalize S cs = normalize S cs'.
Proof. intros T Hp H. apply normalize_same_texts; try assumption. apply same_texts_perm. exact H. Qed.

(* white space inserted anywhere inside or around constraints: no hypothesis needed *)
Corollary normalize_spaces S cs cs' :
  Forall2 (fun c c' => strip_spaces c = strip_spaces c') cs cs' -> normalize S cs = normalize S cs'.
Proof.
  intros H. unfold normalize. rewrite (nc_ext S cs cs' []); [reflexivity|].
  induction H as [|c c' r r' Hc Hr IH]; simpl; [reflexivity|]. rewrite Hc, IH. reflexivity.
Qed.

(* an empty / blank constraint added anywhere: no hypothesis needed *)
Corollary normalize_blank S a b c :
  strip_spaces c = [] -> normalize S (a ++ c :: b) = normalize S (a ++ b).
Proof.
  intros Hc. unfold normalize.
  assert (E : forall seen, normalize_collect S seen (a ++ c :: b) = normalize_collect S seen (a ++ b)).
  { induction a as [|x a IH]; intros seen.
    - simpl app. apply nc_cons_blank. exact Hc.
    - change ((x :: a) ++ c :: b) with (x :: (a ++ c :: b)).
      change ((x :: a) ++ b) with (x :: (a ++ b)).
      rewrite !nc_cons. cbv zeta. rewrite !IH. reflexivity. }
  rewrite E. reflexivity.
Qed.

(* a constraint repeated anywhere *)
Corollary normalize_dup S a b c :
  TotalPreorderOn (vok_text S) (s_vcmp S) -> pairwise_nonequiv S (a ++ b) ->
  In c (a ++ b) -> normalize S (a ++ c :: b) = normalize S (a ++ b).
Proof.
  intros T Hp H. symmetry. apply normalize_same_texts; try assumption. apply same_texts_dup. exact H.
Qed.

Print Assumptions normalize_same_texts.
Print Assumptions contains_generic_same_texts.
Print Assumptions contains_pypi_same_texts.
Print Assumptions C16_vers_contains.
Print Assumptions C16_vers_contains_join.
Print Assumptions normalize_perm.
Print Assumptions normalize_spaces.
Print Assumptions normalize_blank.
Print Assumptions normalize_dup.
