(* Vers/FactsC17.v — property C17: vers_contains rejects malformed input, and the generated
   dispatch tables route every scheme name to its ecosystem.
   All lemmas hold for ARBITRARY [table styles ops version]. *)
From Coq Require Import Lia.
From Verif.Base Require Import Bytes BytesFacts.
From Verif.Vers Require Import Model FactsStr.
From Verif.Gen Require Import VersDispatch.
Local Open Scope N_scope.

(* the range text with scheme [eco] and constraint text [ctext] *)
Definition vers_text (eco ctext : bytes) : bytes := $"vers:" ++ eco ++ "/"%char :: ctext.

(* the "lone star" case answered before scheme and version are looked at *)
Definition lone_star (cl : list bytes) : bool :=
  existsb is_star cl && negb (existsb (fun c => negb (is_star c) && negb (is_blank c)) cl).

(* ---------- the shape of [valid] ---------- *)

Lemma valid_text eco ctext :
  contains_c "/"%char eco = false ->
  valid (vers_text eco ctext) =
    if negb (forallb printable (vers_text eco ctext)) then None
    else match eco with
         | [] => None
         | _ => if negb (forallb scheme_char eco) then None
                else match ctext with
                     | [] => None
                     | _ => let cl := split_c "|"%char ctext in
                            let stars := length (filter is_star cl) in
                            let others := existsb (fun c => negb (is_star c) && negb (is_blank c)) cl in
                            if (1 <? stars)%nat then None
                            else if (stars =? 1)%nat && others then None
                            else Some (eco, cl)
                     end
         end.
Proof.
  intros Hs. unfold valid.
  assert (P : has_prefix $"vers:" (vers_text eco ctext) = true) by apply has_prefix_app.
  rewrite P. cbn [negb].
  assert (K : skipn 5 (vers_text eco ctext) = eco ++ "/"%char :: ctext) by reflexivity.
  rewrite K, (split2_app "/"%char eco ctext Hs). reflexivity.
Qed.

Lemma valid_inv range name cl :
  valid range = Some (name, cl) ->
  exists ctext, range = vers_text name ctext /\ contains_c "/"%char name = false /\
                cl = split_c "|"%char ctext /\ name <> [] /\ ctext <> [] /\
                forallb scheme_char name = true /\ forallb printable range = true /\
                (length (filter is_star cl) <= 1)%nat /\
                (existsb is_star cl = true ->
                 existsb (fun c => negb (is_star c) && negb (is_blank c)) cl = false).
Proof.
  unfold valid. intros H.
  destruct (has_prefix $"vers:" range) eqn:P; [|discriminate]. cbn [negb] in H.
  destruct (forallb printable range) eqn:Q; [|discriminate]. cbn [negb] in H.
  destruct (split2_c "/"%char (skipn 5 range)) as [eco [ctext|]] eqn:Sp; [|discriminate].
  destruct eco as [|e0 eco]; [discriminate|].
  destruct (forallb scheme_char (e0 :: eco)) eqn:Sc; [|discriminate]. cbn [negb] in H.
  destruct ctext as [|c0 ctext]; [discriminate|].
  cbv zeta in H.
  set (cl0 := split_c "|"%char (c0 :: ctext)) in *.
  destruct (1 <? length (filter is_star cl0))%nat eqn:L1; [discriminate|].
  destruct ((length (filter is_star cl0) =? 1)%nat &&
            existsb (fun c => negb (is_star c) && negb (is_blank c)) cl0) eqn:L2; [discriminate|].
  injection H as <- <-.
  apply split2_some in Sp. destruct Sp as [E Hn].
  exists (c0 :: ctext). repeat split; try assumption; try discriminate.
  - apply has_prefix_true in P. rewrite P at 1. unfold vers_text.
    change (length $"vers:") with 5%nat. rewrite E. reflexivity.
  - apply Nat.ltb_ge in L1. exact L1.
  - intros Hst.
    assert (G : (length (filter is_star cl0) =? 1)%nat = true).
    { apply Nat.eqb_eq. apply Nat.ltb_ge in L1.
      assert (length (filter is_star cl0) <> 0)%nat; [|lia].
      intros Z. apply length_zero_iff_nil in Z.
      apply existsb_exists in Hst. destruct Hst as (x & Hx & Hx').
      assert (I : In x (filter is_star cl0)) by (apply filter_In; split; assumption).
      rewrite Z in I. exact I. }
    rewrite G in L2. cbn [andb] in L2. exact L2.
Qed.

(* a valid range is never a lone star together with other constraints, so [lone_star] is
   simply "there is a star" on valid input *)
Lemma lone_star_no_star cl : existsb is_star cl = false -> lone_star cl = false.
Proof. intros H. unfold lone_star. rewrite H. reflexivity. Qed.

Lemma lone_star_other cl d :
  In d cl -> is_star d = false -> is_blank d = false -> lone_star cl = false.
Proof.
  intros Hd H1 H2. unfold lone_star.
  assert (E : existsb (fun c => negb (is_star c) && negb (is_blank c)) cl = true).
  { apply existsb_exists. exists d. split; [assumption|]. rewrite H1, H2. reflexivity. }
  rewrite E. apply andb_false_r.
Qed.

(* ---------- errors of the generic and pypi evaluators ---------- *)

Lemma contains_generic_bad_probe S st cs v : s_vok S v = false -> contains_generic S st cs v = VErr.
Proof. intros H. unfold contains_generic. rewrite H. reflexivity. Qed.

Lemma contains_pypi_bad_probe S st cs v : s_vok S v = false -> contains_pypi S st cs v = VErr.
Proof. intros H. unfold contains_pypi. rewrite H. reflexivity. Qed.

Lemma contains_generic_norm_err S st cs v : normalize S cs = None -> contains_generic S st cs v = VErr.
Proof. intros H. unfold contains_generic. rewrite H. destruct (negb (s_vok S v)); reflexivity. Qed.

Lemma contains_pypi_norm_err S st cs v : normalize S cs = None -> contains_pypi S st cs v = VErr.
Proof.
  intros H. unfold contains_pypi. rewrite (contains_generic_norm_err S st cs v H).
  destruct (negb (s_vok S v)); reflexivity.
Qed.

Lemma contains_pypi_of_generic_err S st cs v :
  contains_generic S st cs v = VErr -> contains_pypi S st cs v = VErr.
Proof. intros H. unfold contains_pypi. rewrite H. destruct (negb (s_vok S v)); reflexivity. Qed.

(* ---------- one failing constraint makes normalize fail ---------- *)

Lemma nc_cons S seen c0 r :
  normalize_collect S seen (c0 :: r) =
    let c := strip_spaces c0 in
    match c with
    | [] => normalize_collect S seen r
    | _ => if beq c $"*" then None
           else match strip_vop vers_ops c with
                | None => None
                | Some (o, v) =>
                    match v with
                    | [] => None
                    | _ => if mem c seen then normalize_collect S seen r
                           else if s_vok S v
                                then match normalize_collect S (c :: seen) r with
                                     | Some l => Some ((o, v) :: l)
                                     | None => None
                                     end
                                else None
                    end
                end
    end.
Proof. reflexivity. Qed.

(* [t] is a stripped constraint text on which the normalisation step reports an error *)
Definition step_fails (S : scheme_ops) (t : bytes) : bool :=
  match t with
  | [] => false
  | _ => beq t $"*" ||
         match strip_vop vers_ops t with
         | None => true
         | Some (_, []) => true
         | Some (_, v) => negb (s_vok S v)
         end
  end.

Lemma nc_fail S c cs :
  In c cs -> step_fails S (strip_spaces c) = true ->
  forall seen, mem (strip_spaces c) seen = false -> normalize_collect S seen cs = None.
Proof.
  intros Hin Hf. set (t := strip_spaces c) in *.
  induction cs as [|c0 r IH]; intros seen Hm; [destruct Hin|].
  rewrite nc_cons. cbv zeta.
  destruct (beq t (strip_spaces c0)) eqn:B.
  - apply beq_eq in B. rewrite <- B.
    unfold step_fails in Hf.
    destruct t as [|x t']; [discriminate|].
    destruct (beq (x :: t') $"*"); [reflexivity|]. cbn [orb] in Hf.
    destruct (strip_vop vers_ops (x :: t')) as [[o v]|]; [|reflexivity].
    destruct v as [|y v']; [reflexivity|].
    rewrite Hm. apply negb_true_iff in Hf. rewrite Hf. reflexivity.
  - assert (Hin' : In c r).
    { destruct Hin as [->|Hin]; [|assumption]. unfold t in B. rewrite beq_refl in B. discriminate. }
    specialize (IH Hin').
    destruct (strip_spaces c0) as [|x0 t0] eqn:E0; [apply IH; assumption|].
    destruct (beq (x0 :: t0) $"*"); [reflexivity|].
    destruct (strip_vop vers_ops (x0 :: t0)) as [[o v]|]; [|reflexivity].
    destruct v as [|y v']; [reflexivity|].
    destruct (mem (x0 :: t0) seen); [apply IH; assumption|].
    destruct (s_vok S (y :: v')); [|reflexivity].
    rewrite IH; [reflexivity|].
    unfold mem in *. cbn [existsb]. rewrite B, Hm. reflexivity.
Qed.

Lemma normalize_fail S c cs :
  In c cs -> step_fails S (strip_spaces c) = true -> normalize S cs = None.
Proof.
  intros Hin Hf. unfold normalize. rewrite (nc_fail S c cs Hin Hf []); reflexivity.
Qed.

Lemma strip_vop_some_nonempty t o a : strip_vop vers_ops t = Some (o, a) -> t <> [].
Proof. intros H E. subst t. discriminate. Qed.

Lemma strip_vop_star : strip_vop vers_ops $"*" = None.
Proof. reflexivity. Qed.

Lemma strip_vop_op_text o : strip_vop vers_ops (op_text o) = Some (o, []).
Proof. destruct o; reflexivity. Qed.

(* ---------- the malformations, on the range text ---------- *)

Section Malformed.
  Variable table : list scheme.
  Variable styles : list (bytes * native_style).
  Variable ops : bytes -> scheme_ops.
  Notation VC := (vers_contains table styles ops).

  (* 1. the range does not start with "vers:" *)
  Lemma err_no_vers_prefix range version :
    has_prefix $"vers:" range = false -> VC range version = VErr.
  Proof. intros H. unfold vers_contains, valid. rewrite H. reflexivity. Qed.

  (* 7. a character outside printable ASCII (32..126) anywhere in the range *)
  Lemma err_not_printable range version :
    forallb printable range = false -> VC range version = VErr.
  Proof.
    intros H. unfold vers_contains, valid. rewrite H.
    destruct (has_prefix $"vers:" range); reflexivity.
  Qed.

  Lemma err_nonprintable_char range version c :
    In c range -> printable c = false -> VC range version = VErr.
  Proof.
    intros Hin Hc. apply err_not_printable.
    destruct (forallb printable range) eqn:E; [|reflexivity].
    rewrite forallb_forall in E. rewrite (E c Hin) in Hc. discriminate.
  Qed.

  (* 2. no '/' after the scheme *)
  Lemma err_no_slash rest version :
    contains_c "/"%char rest = false -> VC ($"vers:" ++ rest) version = VErr.
  Proof.
    intros H. unfold vers_contains, valid.
    rewrite has_prefix_app. cbn [negb].
    destruct (negb (forallb printable ($"vers:" ++ rest))); [reflexivity|].
    assert (K : skipn 5 ($"vers:" ++ rest) = rest) by reflexivity.
    rewrite K, (split2_none _ _ H). reflexivity.
  Qed.

  (* 3. empty scheme *)
  Lemma err_empty_scheme ctext version : VC (vers_text [] ctext) version = VErr.
  Proof.
    unfold vers_contains. rewrite valid_text by reflexivity.
    destruct (negb (forallb printable (vers_text [] ctext))); reflexivity.
  Qed.

  (* 4. a scheme character that is not [a-z0-9] *)
  Lemma err_bad_scheme eco ctext version :
    contains_c "/"%char eco = false -> forallb scheme_char eco = false ->
    VC (vers_text eco ctext) version = VErr.
  Proof.
    intros Hs Hb. unfold vers_contains. rewrite (valid_text eco ctext Hs), Hb.
    destruct (negb (forallb printable (vers_text eco ctext))); [reflexivity|].
    destruct eco; reflexivity.
  Qed.

  Lemma err_bad_scheme_char eco ctext version c :
    contains_c "/"%char eco = false -> In c eco -> scheme_char c = false ->
    VC (vers_text eco ctext) version = VErr.
  Proof.
    intros Hs Hin Hc. apply err_bad_scheme; [assumption|].
    destruct (forallb scheme_char eco) eqn:E; [|reflexivity].
    rewrite forallb_forall in E. rewrite (E c Hin) in Hc. discriminate.
  Qed.

  (* 6. no constraint: nothing after '/' *)
  Lemma err_no_constraint eco version :
    contains_c "/"%char eco = false -> VC (vers_text eco []) version = VErr.
  Proof.
    intros Hs. unfold vers_contains. rewrite (valid_text eco [] Hs).
    destruct (negb (forallb printable (vers_text eco []))); [reflexivity|].
    destruct eco; [reflexivity|]. destruct (negb (forallb scheme_char (a :: eco))); reflexivity.
  Qed.

  (* the common core: whenever the range is syntactically valid, it is not the lone-star case
     and both evaluators report an error for the scheme found *)
  Lemma VC_err_core range version :
    (forall name cl, valid range = Some (name, cl) -> lone_star cl = false) ->
    (forall name cl sc, valid range = Some (name, cl) -> find_scheme name table = Some sc ->
        forall st, contains_generic (ops (sc_eco sc)) st cl version = VErr) ->
    VC range version = VErr.
  Proof.
    intros H1 H2. unfold vers_contains.
    destruct (valid range) as [[name cl]|] eqn:V; [|reflexivity].
    specialize (H1 name cl eq_refl). unfold lone_star in H1. rewrite H1.
    destruct (find_scheme name table) as [sc|] eqn:F; [|reflexivity].
    specialize (H2 name cl sc eq_refl F (lookup (sc_eco sc) styles)).
    rewrite (contains_pypi_of_generic_err _ _ _ _ H2), H2.
    destruct (sc_pypi_gate sc); reflexivity.
  Qed.

  Lemma valid_text_some eco ctext name cl :
    contains_c "/"%char eco = false ->
    valid (vers_text eco ctext) = Some (name, cl) -> name = eco /\ cl = split_c "|"%char ctext.
  Proof.
    intros Hs. rewrite (valid_text eco ctext Hs).
    destruct (negb (forallb printable (vers_text eco ctext))); [discriminate|].
    destruct eco as [|e0 eco]; [discriminate|].
    destruct (negb (forallb scheme_char (e0 :: eco))); [discriminate|].
    destruct ctext as [|c0 ctext]; [discriminate|]. cbv zeta.
    destruct (1 <? _)%nat; [discriminate|].
    destruct (_ && _); [discriminate|].
    intros H. injection H as <- <-. split; reflexivity.
  Qed.

  (* 5. the scheme is not in the table (and the range is not the lone star) *)
  Lemma err_unknown_scheme eco ctext version :
    contains_c "/"%char eco = false -> find_scheme eco table = None ->
    lone_star (split_c "|"%char ctext) = false ->
    VC (vers_text eco ctext) version = VErr.
  Proof.
    intros Hs Hf Hl. unfold vers_contains.
    destruct (valid (vers_text eco ctext)) as [[name cl]|] eqn:V; [|reflexivity].
    destruct (valid_text_some _ _ _ _ Hs V) as [-> ->].
    unfold lone_star in Hl. rewrite Hl, Hf. reflexivity.
  Qed.

  (* 8a. more than one '*' constraint *)
  Lemma err_two_stars eco ctext version :
    contains_c "/"%char eco = false ->
    (1 < length (filter is_star (split_c "|"%char ctext)))%nat ->
    VC (vers_text eco ctext) version = VErr.
  Proof.
    intros Hs Hn. unfold vers_contains.
    destruct (valid (vers_text eco ctext)) as [[name cl]|] eqn:V; [|reflexivity].
    destruct (valid_text_some _ _ _ _ Hs V) as [-> ->].
    apply valid_inv in V. destruct V as (ct & _ & _ & _ & _ & _ & _ & _ & L & _). lia.
  Qed.

  (* 8b. a '*' together with another non-blank constraint *)
  Lemma err_star_with_other eco ctext version c d :
    contains_c "/"%char eco = false ->
    In c (split_c "|"%char ctext) -> is_star c = true ->
    In d (split_c "|"%char ctext) -> is_star d = false -> is_blank d = false ->
    VC (vers_text eco ctext) version = VErr.
  Proof.
    intros Hs Hc Hc' Hd Hd1 Hd2. unfold vers_contains.
    destruct (valid (vers_text eco ctext)) as [[name cl]|] eqn:V; [|reflexivity].
    destruct (valid_text_some _ _ _ _ Hs V) as [-> ->].
    apply valid_inv in V. destruct V as (ct & _ & _ & _ & _ & _ & _ & _ & _ & L).
    assert (E1 : existsb is_star (split_c "|"%char ctext) = true).
    { apply existsb_exists. exists c. split; assumption. }
    specialize (L E1).
    assert (E2 : existsb (fun c => negb (is_star c) && negb (is_blank c)) (split_c "|"%char ctext) = true).
    { apply existsb_exists. exists d. split; [assumption|]. rewrite Hd1, Hd2. reflexivity. }
    congruence.
  Qed.

  (* a constraint on which the normalisation step fails, for the scheme's version acceptance *)
  Lemma err_failing_constraint eco ctext version c :
    contains_c "/"%char eco = false ->
    In c (split_c "|"%char ctext) -> is_star c = false ->
    (forall sc, find_scheme eco table = Some sc ->
                step_fails (ops (sc_eco sc)) (strip_spaces c) = true) ->
    (strip_spaces c <> []) ->
    VC (vers_text eco ctext) version = VErr.
  Proof.
    intros Hs Hin Hst Hf Hne. apply VC_err_core.
    - intros name cl V. destruct (valid_text_some _ _ _ _ Hs V) as [-> ->].
      apply (lone_star_other _ c Hin Hst). apply is_blank_false_strip. exact Hne.
    - intros name cl sc V F st. destruct (valid_text_some _ _ _ _ Hs V) as [-> ->].
      apply contains_generic_norm_err. apply (normalize_fail _ c _ Hin). apply Hf. exact F.
  Qed.

  (* 9. a constraint without comparator *)
  Lemma err_no_comparator eco ctext version c :
    contains_c "/"%char eco = false ->
    In c (split_c "|"%char ctext) -> is_star c = false -> strip_spaces c <> [] ->
    strip_vop vers_ops (strip_spaces c) = None ->
    VC (vers_text eco ctext) version = VErr.
  Proof.
    intros Hs Hin Hst Hne Hv. apply (err_failing_constraint eco ctext version c); try assumption.
    intros sc _. unfold step_fails. rewrite Hv.
    destruct (strip_spaces c); [congruence|]. apply orb_true_r.
  Qed.

  (* 10. a comparator without version *)
  Lemma err_no_version eco ctext version c o :
    contains_c "/"%char eco = false ->
    In c (split_c "|"%char ctext) -> strip_spaces c = op_text o ->
    VC (vers_text eco ctext) version = VErr.
  Proof.
    intros Hs Hin Ho. apply (err_failing_constraint eco ctext version c); try assumption.
    - rewrite is_star_strip, Ho. destruct o; reflexivity.
    - intros sc _. rewrite Ho. destruct o; reflexivity.
    - rewrite Ho. destruct o; discriminate.
  Qed.

  (* 11. a bound the scheme's s_vok rejects *)
  Lemma err_bad_bound eco ctext version c o a :
    contains_c "/"%char eco = false ->
    In c (split_c "|"%char ctext) -> strip_vop vers_ops (strip_spaces c) = Some (o, a) ->
    (forall sc, find_scheme eco table = Some sc -> s_vok (ops (sc_eco sc)) a = false) ->
    VC (vers_text eco ctext) version = VErr.
  Proof.
    intros Hs Hin Hv Hok.
    assert (Hne : strip_spaces c <> []) by (eapply strip_vop_some_nonempty; eassumption).
    apply (err_failing_constraint eco ctext version c); try assumption.
    - rewrite is_star_strip. destruct (beq (strip_spaces c) $"*") eqn:B; [|reflexivity].
      apply beq_eq in B. rewrite B in Hv. discriminate.
    - intros sc F. unfold step_fails. rewrite Hv, (Hok sc F).
      destruct (strip_spaces c); [congruence|]. destruct a; apply orb_true_r.
  Qed.

  (* 12. a probe version s_vok rejects (the lone-star range is answered before the probe is read) *)
  Lemma err_bad_probe eco ctext version :
    contains_c "/"%char eco = false ->
    lone_star (split_c "|"%char ctext) = false ->
    (forall sc, find_scheme eco table = Some sc -> s_vok (ops (sc_eco sc)) version = false) ->
    VC (vers_text eco ctext) version = VErr.
  Proof.
    intros Hs Hl Hok. apply VC_err_core.
    - intros name cl V. destruct (valid_text_some _ _ _ _ Hs V) as [-> ->]. exact Hl.
    - intros name cl sc V F st. destruct (valid_text_some _ _ _ _ Hs V) as [-> ->].
      apply contains_generic_bad_probe. apply Hok. exact F.
  Qed.

  (* the same statements for an arbitrary range, through [valid] *)
  Lemma err_valid_none range version : valid range = None -> VC range version = VErr.
  Proof. intros H. unfold vers_contains. rewrite H. reflexivity. Qed.

  Lemma err_bad_probe_valid range version name cl :
    valid range = Some (name, cl) -> lone_star cl = false ->
    (forall sc, find_scheme name table = Some sc -> s_vok (ops (sc_eco sc)) version = false) ->
    VC range version = VErr.
  Proof.
    intros V Hl Hok. apply VC_err_core.
    - intros n c V'. rewrite V in V'. injection V' as <- <-. exact Hl.
    - intros n c sc V' F st. rewrite V in V'. injection V' as <- <-.
      apply contains_generic_bad_probe. apply Hok. exact F.
  Qed.

  (* every decomposition "vers:" ++ eco ++ "/" ++ ctext with a '/'-free eco is THE decomposition *)
  Lemma valid_some_text range name cl :
    valid range = Some (name, cl) ->
    exists ctext, range = vers_text name ctext /\ cl = split_c "|"%char ctext.
  Proof.
    intros V. apply valid_inv in V. destruct V as (ct & E & _ & C & _). exists ct. split; assumption.
  Qed.
End Malformed.

Print Assumptions err_no_vers_prefix.
Print Assumptions err_nonprintable_char.
Print Assumptions err_no_slash.
Print Assumptions err_empty_scheme.
Print Assumptions err_bad_scheme_char.
Print Assumptions err_unknown_scheme.
Print Assumptions err_no_constraint.
Print Assumptions err_two_stars.
Print Assumptions err_star_with_other.
Print Assumptions err_no_comparator.
Print Assumptions err_no_version.
Print Assumptions err_bad_bound.
Print Assumptions err_bad_probe.

(* ---------- dispatch: the generated tables ---------- *)

Definition eco_of (name : bytes) : option bytes :=
  match find_scheme name scheme_table with Some sc => Some (sc_eco sc) | None => None end.

Definition expected_dispatch : list (bytes * bytes) := [
  ($"alpine", $"alpine"); ($"cargo", $"cargo"); ($"deb", $"debian"); ($"gem", $"gem");
  ($"generic", $"semver"); ($"golang", $"golang"); ($"maven", $"maven"); ($"npm", $"npm");
  ($"nuget", $"nuget"); ($"pypi", $"pypi"); ($"rpm", $"rpm") ].

Lemma dispatch_alpine : eco_of $"alpine" = Some $"alpine". Proof. vm_compute. reflexivity. Qed.
Lemma dispatch_cargo : eco_of $"cargo" = Some $"cargo". Proof. vm_compute. reflexivity. Qed.
Lemma dispatch_deb : eco_of $"deb" = Some $"debian". Proof. vm_compute. reflexivity. Qed.
Lemma dispatch_gem : eco_of $"gem" = Some $"gem". Proof. vm_compute. reflexivity. Qed.
Lemma dispatch_generic : eco_of $"generic" = Some $"semver". Proof. vm_compute. reflexivity. Qed.
Lemma dispatch_golang : eco_of $"golang" = Some $"golang". Proof. vm_compute. reflexivity. Qed.
Lemma dispatch_maven : eco_of $"maven" = Some $"maven". Proof. vm_compute. reflexivity. Qed.
Lemma dispatch_npm : eco_of $"npm" = Some $"npm". Proof. vm_compute. reflexivity. Qed.
Lemma dispatch_nuget : eco_of $"nuget" = Some $"nuget". Proof. vm_compute. reflexivity. Qed.
Lemma dispatch_pypi : eco_of $"pypi" = Some $"pypi". Proof. vm_compute. reflexivity. Qed.
Lemma dispatch_rpm : eco_of $"rpm" = Some $"rpm". Proof. vm_compute. reflexivity. Qed.

(* all eleven at once *)
Lemma dispatch_all :
  forallb (fun p => match eco_of (fst p) with Some e => beq e (snd p) | None => false end)
          expected_dispatch = true.
Proof. vm_compute. reflexivity. Qed.

(* each of those ecosystem names has a native-syntax entry in style_table *)
Lemma dispatch_styles :
  forallb (fun p => match lookup (snd p) style_table with Some _ => true | None => false end)
          expected_dispatch = true.
Proof. vm_compute. reflexivity. Qed.

Lemma dispatch_style_values :
  map (fun p => lookup (snd p) style_table) expected_dispatch =
  [ Some NSpace; Some NComma; Some NComma; Some NComma; Some NSpace; Some NGolang;
    Some NMaven; Some NSpace; Some NNuget; Some NPypi; Some NComma ].
Proof. vm_compute. reflexivity. Qed.

(* the table has exactly the eleven scheme names (in any order, so that reordering the Go map
   literal re-proves), and only pypi applies the pre-release gate *)
Lemma dispatch_names_exact :
  forallb (fun n => mem n (map fst expected_dispatch)) (map sc_name scheme_table) = true /\
  forallb (fun n => mem n (map sc_name scheme_table)) (map fst expected_dispatch) = true /\
  length scheme_table = 11%nat.
Proof. vm_compute. repeat split; reflexivity. Qed.

Lemma find_scheme_in name l sc : find_scheme name l = Some sc -> In sc l /\ sc_name sc = name.
Proof.
  induction l as [|s r IH]; simpl; [discriminate|].
  destruct (beq name (sc_name s)) eqn:B.
  - intros H. injection H as <-. apply beq_eq in B. split; [left; reflexivity|congruence].
  - intros H. destruct (IH H) as [I E]. split; [right; exact I|exact E].
Qed.

Lemma mem_In_bytes k l : mem k l = true -> In k l.
Proof.
  unfold mem. intros H. apply existsb_exists in H. destruct H as (x & Hx & E).
  apply beq_eq in E. subst. exact Hx.
Qed.

Lemma dispatch_only_known name sc :
  find_scheme name scheme_table = Some sc -> In name (map fst expected_dispatch).
Proof.
  intros H. apply find_scheme_in in H. destruct H as [I E]. subst name.
  apply (in_map sc_name) in I.
  destruct dispatch_names_exact as (F & _ & _).
  rewrite forallb_forall in F. apply mem_In_bytes. apply F. exact I.
Qed.

Lemma dispatch_gate :
  forallb (fun s => Bool.eqb (sc_pypi_gate s) (beq (sc_name s) $"pypi")) scheme_table = true.
Proof. vm_compute. reflexivity. Qed.

Print Assumptions dispatch_all.
Print Assumptions dispatch_styles.
Print Assumptions dispatch_only_known.
