(* Vers/FactsExample.v — a non-vacuity witness for the hypotheses of C04 and C16: a small scheme
   (versions are single decimal digits, byte order, native ranges in the "space" syntax) for which
   the total-preorder hypothesis and [native_ok] are PROVED, so that the theorems of FactsC04.v and
   FactsC16.v apply to it without any remaining semantic assumption. *)
From Coq Require Import List Permutation Sorted Lia.
From Verif.Base Require Import Bytes BytesFacts.
From Verif.Vers Require Import Model FactsStr FactsC17 FactsSort FactsC16 FactsC04.
From Verif.Spec Require VersIntervals.
Import ListNotations.
Local Open Scope N_scope.

Definition d_vok (t : bytes) : bool := match t with [c] => is_digit c | _ => false end.

Definition d_one (o : vop) (a : ascii) (v : bytes) : bool := VS.sat (conv o) (bytes_cmp v [a]).

(* ranges: "<op><d>" or "<op><d> <op><d>" *)
Definition d_rcontains (t v : bytes) : option bool :=
  match strip_vop vers_ops t with
  | Some (o, a :: r') =>
      match r' with
      | [] => Some (d_one o a v)
      | sp :: t2 =>
          if ceqb sp " "%char then
            match strip_vop vers_ops t2 with
            | Some (o2, [b]) => Some (d_one o a v && d_one o2 b v)
            | _ => None
            end
          else None
      end
  | _ => None
  end.

Definition digit_scheme : scheme_ops :=
  {| s_vok := d_vok; s_vcmp := bytes_cmp; s_vshow := fun s => s; s_rcontains := d_rcontains |}.

Lemma digit_tpo : TotalPreorderOn (vok_text digit_scheme) (s_vcmp digit_scheme).
Proof. apply TPO_of_TP. exact TP_bytes_cmp. Qed.

Lemma d_vok_inv t : d_vok t = true -> exists x, t = [x] /\ is_digit x = true.
Proof.
  destruct t as [|x [|y t]]; simpl; try discriminate. intros H. exists x. split; [reflexivity|exact H].
Qed.

Lemma sv_lo x r ia : is_digit x = true ->
  strip_vop vers_ops (lo_op ia ++ x :: r) = Some (if ia then OGe else OGt, x :: r).
Proof.
  intros H. destruct ia; [reflexivity|]. revert H.
  destruct x as [b0 b1 b2 b3 b4 b5 b6 b7].
  destruct b0, b1, b2, b3, b4, b5, b6, b7; vm_compute; intros H; try discriminate H; reflexivity.
Qed.

Lemma sv_up x r ib : is_digit x = true ->
  strip_vop vers_ops (up_op ib ++ x :: r) = Some (if ib then OLe else OLt, x :: r).
Proof.
  intros H. destruct ib; [reflexivity|]. revert H.
  destruct x as [b0 b1 b2 b3 b4 b5 b6 b7].
  destruct b0, b1, b2, b3, b4, b5, b6, b7; vm_compute; intros H; try discriminate H; reflexivity.
Qed.

Lemma sv_eq r : strip_vop vers_ops ("="%char :: r) = Some (OEq, r).
Proof. reflexivity. Qed.

Lemma digit_native_ok : native_ok digit_scheme NSpace.
Proof.
  intros i t v W Ht Hv.
  destruct i as [[[a ia]|] [[b ib]|] [e|]]; unfold iv_wf in W; cbn [i_exact i_lower i_upper] in W;
    try contradiction; unfold native_text in Ht; cbn [i_exact i_lower i_upper] in Ht;
    injection Ht as <-; unfold in_interval; cbn [i_exact i_lower i_upper];
    cbn [s_rcontains s_vcmp digit_scheme]; unfold d_rcontains.
  - (* lower and upper *)
    destruct W as ((Ha & _) & (Hb & _) & _).
    apply d_vok_inv in Ha, Hb. destruct Ha as (x & -> & Dx). destruct Hb as (y & -> & Dy).
    cbn [app].
    rewrite (sv_lo x _ ia Dx). rewrite ceqb_refl. rewrite (sv_up y [] ib Dy).
    unfold d_one. destruct ia, ib; cbn [conv VS.sat];
      destruct (bytes_cmp v [x]); destruct (bytes_cmp v [y]); reflexivity.
  - (* lower only *)
    destruct W as (Ha & _). apply d_vok_inv in Ha. destruct Ha as (x & -> & Dx).
    rewrite (sv_lo x [] ia Dx). unfold d_one.
    destruct ia; cbn [conv VS.sat]; destruct (bytes_cmp v [x]); reflexivity.
  - (* upper only *)
    destruct W as (Hb & _). apply d_vok_inv in Hb. destruct Hb as (y & -> & Dy).
    rewrite (sv_up y [] ib Dy). unfold d_one.
    destruct ib; cbn [conv VS.sat]; destruct (bytes_cmp v [y]); reflexivity.
  - (* exact *)
    destruct W as (He & _). apply d_vok_inv in He. destruct He as (x & -> & Dx).
    cbn [app list_ascii_of_string]. rewrite (sv_eq [x]). unfold d_one. cbn [conv VS.sat].
    destruct (bytes_cmp v [x]); reflexivity.
Qed.

(* C04 for this scheme, no semantic hypothesis left *)
Theorem digit_C04 cs ncs v :
  pairwise_nonequiv digit_scheme cs ->
  d_vok v = true ->
  normalize digit_scheme cs = Some ncs -> ncs <> [] ->
  alternating None None (filter is_bound_c ncs) <> None ->
  contains_generic digit_scheme (Some NSpace) cs v =
    b2v (VS.spec_contains bytes_cmp (spec_list ncs) v).
Proof.
  intros Hp Hv Hn Hne Ha.
  apply (C04_contains_generic_tp digit_scheme NSpace cs ncs v digit_tpo digit_native_ok Hp Hv Hn Hne Ha).
Qed.

(* C16 for this scheme *)
Theorem digit_C16 st cs cs' v :
  pairwise_nonequiv digit_scheme cs -> same_texts cs cs' ->
  contains_generic digit_scheme st cs v = contains_generic digit_scheme st cs' v.
Proof. apply contains_generic_same_texts. exact digit_tpo. Qed.

(* a concrete range with a leading upper bound, a pair, an exclusion, a point and a trailing lower
   bound: every structural hypothesis of C04 holds by computation *)
Definition ex_cs : list bytes := [ $" >= 8"; $"<2"; $"!=5"; $">=4"; $"< 6"; $"=7"; $"<2"; $"" ].
Definition ex_ncs : list vcons :=
  [ (OLt, $"2"); (OGe, $"4"); (ONe, $"5"); (OLt, $"6"); (OEq, $"7"); (OGe, $"8") ].

Lemma ex_normalize : normalize digit_scheme ex_cs = Some ex_ncs.
Proof. vm_compute. reflexivity. Qed.

Lemma ex_sorted_alternating : sorted_alternating digit_scheme ex_ncs.
Proof.
  split.
  - repeat (constructor; [|repeat (constructor; try reflexivity)]). constructor.
  - vm_compute. discriminate.
Qed.

Example ex_C04 v : d_vok v = true ->
  contains_generic digit_scheme (Some NSpace) ex_cs v =
    b2v (VS.spec_contains bytes_cmp (spec_list ex_ncs) v).
Proof.
  intros Hv. apply C04_contains_generic.
  - exact digit_native_ok.
  - exact Hv.
  - exact ex_normalize.
  - discriminate.
  - exact ex_sorted_alternating.
Qed.

(* and the values: contained are 0 1 | 4 | 7 | 8 9 *)
Example ex_values :
  map (fun v => VS.spec_contains bytes_cmp (spec_list ex_ncs) v)
      [ $"0"; $"1"; $"2"; $"3"; $"4"; $"5"; $"6"; $"7"; $"8"; $"9" ] =
  [ true; true; false; false; true; false; false; true; true; true ].
Proof. vm_compute. reflexivity. Qed.

Print Assumptions digit_native_ok.
Print Assumptions digit_C04.
Print Assumptions ex_C04.
