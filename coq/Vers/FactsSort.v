(* Vers/FactsSort.v — the insertion sort of Vers/Model.v ([insert_by], [isort]) under a total
   preorder on a subset: on lists of pairwise non-equivalent elements the result is strictly
   sorted, is a permutation of the input, and depends only on the multiset of the input. *)
From Coq Require Import List Permutation Sorted Lia.
From Verif.Base Require Import Bytes Ord.
From Verif.Vers Require Import Model.
Import ListNotations.

Section Isort.
  Variable A : Type.
  Variable cmp : A -> A -> comparison.
  Variable P : A -> Prop.
  Hypothesis T : TotalPreorderOn P cmp.

  Definition ltc (a b : A) : Prop := cmp a b = Lt.

  (* pairwise non-equivalence, in a permutation-invariant form: equivalent members are equal
     (used together with NoDup) *)
  Definition inj_on (l : list A) : Prop :=
    forall a b, In a l -> In b l -> cmp a b = Eq -> a = b.

  Definition isortR (l : list A) : list A := fold_right (insert_by cmp) [] l.

  Lemma isort_isortR l : isort cmp l = isortR (rev l).
  Proof. unfold isort, isortR. rewrite fold_left_rev_right. reflexivity. Qed.

  Lemma insert_perm x l : Permutation (insert_by cmp x l) (x :: l).
  Proof.
    induction l as [|a l IH]; simpl; [reflexivity|].
    destruct (cmp x a); try reflexivity;
      (etransitivity; [apply perm_skip; exact IH | apply perm_swap]).
  Qed.

  Lemma isortR_perm l : Permutation (isortR l) l.
  Proof.
    induction l as [|x l IH]; simpl; [reflexivity|].
    etransitivity; [apply insert_perm|]. apply perm_skip. exact IH.
  Qed.

  Lemma isort_perm l : Permutation (isort cmp l) l.
  Proof.
    rewrite isort_isortR. etransitivity; [apply isortR_perm|]. symmetry. apply Permutation_rev.
  Qed.

  Lemma Forall_perm (Q : A -> Prop) l l' : Permutation l l' -> Forall Q l -> Forall Q l'.
  Proof.
    intros Hp H. rewrite Forall_forall in *. intros x Hx. apply H.
    apply (Permutation_in x (Permutation_sym Hp) Hx).
  Qed.

  Lemma insert_sorted x l :
    P x -> Forall P l -> (forall y, In y l -> cmp x y <> Eq) ->
    StronglySorted ltc l -> StronglySorted ltc (insert_by cmp x l).
  Proof.
    intros Px. induction l as [|a l IH]; intros Pl Hne Hs; simpl.
    - constructor; constructor.
    - apply StronglySorted_inv in Hs. destruct Hs as [Hs Ha].
      inversion Pl as [|? ? Pa Pl']; subst.
      destruct (cmp x a) eqn:E.
      + exfalso. apply (Hne a); [left; reflexivity|exact E].
      + constructor; [constructor; assumption|].
        constructor; [exact E|].
        rewrite Forall_forall in *. intros z Hz. unfold ltc.
        apply (tpo_trans T x a z Px Pa (Pl' z Hz) E). apply Ha. exact Hz.
      + constructor.
        * apply IH; try assumption. intros y Hy. apply Hne. right. exact Hy.
        * apply (Forall_perm _ (x :: l)); [symmetry; apply insert_perm|].
          constructor; [|exact Ha].
          unfold ltc. rewrite (tpo_anti T x a Px Pa), E. reflexivity.
  Qed.

  Lemma inj_on_tail x l : inj_on (x :: l) -> inj_on l.
  Proof. intros H a b Ha Hb. apply H; right; assumption. Qed.

  Lemma isortR_sorted l :
    Forall P l -> NoDup l -> inj_on l -> StronglySorted ltc (isortR l).
  Proof.
    induction l as [|x l IH]; intros Pl Nd Hi; simpl; [constructor|].
    inversion Pl as [|? ? Px Pl']; subst. inversion Nd as [|? ? Nx Nd']; subst.
    apply insert_sorted.
    - exact Px.
    - apply (Forall_perm _ l); [symmetry; apply isortR_perm|exact Pl'].
    - intros y Hy E.
      assert (Hy' : In y l) by (apply (Permutation_in y (isortR_perm l)); exact Hy).
      assert (x = y) by (apply Hi; [left; reflexivity|right; exact Hy'|exact E]).
      subst y. contradiction.
    - apply IH; [exact Pl'|exact Nd'|eapply inj_on_tail; exact Hi].
  Qed.

  Lemma inj_on_perm l l' : Permutation l l' -> inj_on l -> inj_on l'.
  Proof.
    intros Hp H a b Ha Hb. apply H; eapply Permutation_in; try eassumption; symmetry; exact Hp.
  Qed.

  Lemma isort_sorted l :
    Forall P l -> NoDup l -> inj_on l -> StronglySorted ltc (isort cmp l).
  Proof.
    intros Pl Nd Hi. rewrite isort_isortR. apply isortR_sorted.
    - apply (Forall_perm _ l); [apply Permutation_rev|exact Pl].
    - apply (Permutation_NoDup (Permutation_rev l)). exact Nd.
    - apply (inj_on_perm l); [apply Permutation_rev|exact Hi].
  Qed.

  (* two strictly sorted lists with the same members are equal *)
  Lemma sorted_unique l : forall l',
    StronglySorted ltc l -> StronglySorted ltc l' -> Permutation l l' -> Forall P l -> l = l'.
  Proof.
    induction l as [|a l IH]; intros l' Hs Hs' Hp Pl.
    - apply Permutation_nil in Hp. congruence.
    - destruct l' as [|b l'].
      + apply Permutation_sym, Permutation_nil in Hp. discriminate.
      + apply StronglySorted_inv in Hs. destruct Hs as [Hs Ha].
        apply StronglySorted_inv in Hs'. destruct Hs' as [Hs' Hb].
        inversion Pl as [|? ? Pa Pl']; subst.
        assert (Eab : a = b).
        { assert (Ia : In a (b :: l')) by (apply (Permutation_in a Hp); left; reflexivity).
          assert (Ib : In b (a :: l))
            by (apply (Permutation_in b (Permutation_sym Hp)); left; reflexivity).
          destruct Ia as [Ia|Ia]; [congruence|].
          destruct Ib as [Ib|Ib]; [congruence|].
          rewrite Forall_forall in Ha, Hb, Pl'.
          pose proof (Ha b Ib) as H1. pose proof (Hb a Ia) as H2. unfold ltc in H1, H2.
          rewrite (tpo_anti T a b Pa (Pl' b Ib)), H1 in H2. discriminate. }
        subst b. f_equal. apply IH; try assumption.
        apply (Permutation_cons_inv Hp).
  Qed.

  (* the key lemma of C16 *)
  Theorem isort_perm_eq l l' :
    Forall P l -> NoDup l -> inj_on l -> Permutation l l' -> isort cmp l = isort cmp l'.
  Proof.
    intros Pl Nd Hi Hp.
    assert (Pl' : Forall P l') by (apply (Forall_perm _ l); assumption).
    apply sorted_unique.
    - apply isort_sorted; assumption.
    - apply isort_sorted; [exact Pl'|apply (Permutation_NoDup Hp); exact Nd|
                            apply (inj_on_perm l); assumption].
    - etransitivity; [apply isort_perm|]. etransitivity; [exact Hp|]. symmetry. apply isort_perm.
    - apply (Forall_perm _ l); [symmetry; apply isort_perm|exact Pl].
  Qed.

  (* a strictly sorted list has pairwise non-equivalent members *)
  Lemma sorted_inj_on l : Forall P l -> StronglySorted ltc l -> inj_on l /\ NoDup l.
  Proof.
    induction l as [|x l IH]; intros Pl Hs.
    - split; [intros a b []|constructor].
    - apply StronglySorted_inv in Hs. destruct Hs as [Hs Hx].
      inversion Pl as [|? ? Px Pl']; subst.
      destruct (IH Pl' Hs) as [Hi Nd]. rewrite Forall_forall in Hx, Pl'.
      split.
      + intros a b [->|Ha] [->|Hb] E; try reflexivity.
        * pose proof (Hx b Hb) as H. unfold ltc in H. congruence.
        * pose proof (Hx a Ha) as H. unfold ltc in H.
          rewrite (tpo_anti T b a Px (Pl' a Ha)), H in E. discriminate.
        * apply Hi; assumption.
      + constructor; [|exact Nd]. intros Hin. pose proof (Hx x Hin) as H. unfold ltc in H.
        rewrite (tpo_refl T x Px) in H. discriminate.
  Qed.
End Isort.

Arguments ltc {A} cmp a b.
Arguments inj_on {A} cmp l.

Print Assumptions isort_perm_eq.
