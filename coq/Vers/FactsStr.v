(* Vers/FactsStr.v — byte-string lemmas needed by the facts about Vers/Model.v:
   cut / split2_c on a single separator byte, has_prefix, and the relation between
   trim_space (used by [valid]) and strip_spaces (used by [normalize_collect]). *)
From Coq Require Import Lia.
From Verif.Base Require Import Bytes BytesFacts.
From Verif.Vers Require Import Model.
Local Open Scope N_scope.

(* ---------- has_prefix / skipn ---------- *)

Lemma has_prefix_app p s : has_prefix p (p ++ s) = true.
Proof.
  induction p as [|x p IH]; simpl; [reflexivity|].
  rewrite ceqb_refl. exact IH.
Qed.

Lemma has_prefix_true p s : has_prefix p s = true -> s = p ++ skipn (length p) s.
Proof.
  revert s. induction p as [|x p IH]; intros s H; simpl in *.
  - reflexivity.
  - destruct s as [|y s]; [discriminate|].
    apply andb_true_iff in H. destruct H as [H1 H2].
    apply ceqb_eq in H1. subst y. simpl. f_equal. apply IH. exact H2.
Qed.

Lemma skipn_length_app {A} (p s : list A) : skipn (length p) (p ++ s) = s.
Proof. induction p as [|x p IH]; simpl; [reflexivity|exact IH]. Qed.

(* ---------- cut on a single byte ---------- *)

Lemma cut1_none c s : contains_c c s = false -> cut [c] s = None.
Proof.
  unfold contains_c. induction s as [|y s IH]; simpl; intros H.
  - reflexivity.
  - apply orb_false_iff in H. destruct H as [H1 H2].
    rewrite H1. simpl. rewrite (IH H2). reflexivity.
Qed.

Lemma cut1_app c a b : contains_c c a = false -> cut [c] (a ++ c :: b) = Some (a, b).
Proof.
  unfold contains_c. induction a as [|y a IH]; intros H.
  - simpl. rewrite ceqb_refl. reflexivity.
  - simpl in H. apply orb_false_iff in H. destruct H as [H1 H2].
    change ((y :: a) ++ c :: b) with (y :: (a ++ c :: b)).
    cbn [cut has_prefix]. rewrite H1. cbn [andb]. rewrite (IH H2). reflexivity.
Qed.

Lemma cut1_some c s a b : cut [c] s = Some (a, b) -> s = a ++ c :: b /\ contains_c c a = false.
Proof.
  unfold contains_c. revert a b. induction s as [|y s IH]; intros a b H.
  - simpl in H. discriminate.
  - cbn [cut has_prefix] in H. destruct (ceqb c y) eqn:E; cbn [andb] in H.
    + injection H as <- <-. apply ceqb_eq in E. subst y. split; reflexivity.
    + destruct (cut [c] s) as [[a' b']|] eqn:C; [|discriminate].
      injection H as <- <-. destruct (IH a' b' eq_refl) as [-> Hn].
      split; [reflexivity|]. simpl. rewrite E, Hn. reflexivity.
Qed.

Lemma split2_none c s : contains_c c s = false -> split2_c c s = (s, None).
Proof. intros H. unfold split2_c. rewrite (cut1_none c s H). reflexivity. Qed.

Lemma split2_app c a b : contains_c c a = false -> split2_c c (a ++ c :: b) = (a, Some b).
Proof. intros H. unfold split2_c. rewrite (cut1_app c a b H). reflexivity. Qed.

Lemma split2_some c s a b :
  split2_c c s = (a, Some b) -> s = a ++ c :: b /\ contains_c c a = false.
Proof.
  unfold split2_c. destruct (cut [c] s) as [[a' b']|] eqn:C; intros H; [|discriminate].
  injection H as <- <-. apply cut1_some. exact C.
Qed.

Lemma contains_c_forallb c p s :
  p c = false -> forallb p s = true -> contains_c c s = false.
Proof.
  intros Hc. unfold contains_c. induction s as [|y s IH]; simpl; intros H; [reflexivity|].
  apply andb_true_iff in H. destruct H as [H1 H2]. rewrite (IH H2), orb_false_r.
  apply ceqb_neq. intros ->. congruence.
Qed.

(* ---------- take_while / drop_while ---------- *)

Lemma take_drop_while p (s : bytes) : s = take_while p s ++ drop_while p s.
Proof.
  induction s as [|c s IH]; simpl; [reflexivity|].
  destruct (p c); simpl; [f_equal; exact IH|reflexivity].
Qed.

Lemma take_while_all p (s : bytes) : forallb p (take_while p s) = true.
Proof.
  induction s as [|c s IH]; simpl; [reflexivity|].
  destruct (p c) eqn:E; simpl; [rewrite E; exact IH|reflexivity].
Qed.

(* ---------- trim_space vs strip_spaces ---------- *)

Lemma trim_left_decomp s : exists p, forallb is_space p = true /\ s = p ++ trim_left s.
Proof.
  exists (take_while is_space s). split; [apply take_while_all|apply take_drop_while].
Qed.

Lemma trim_right_decomp s : exists q, forallb is_space q = true /\ s = trim_right s ++ q.
Proof.
  exists (rev (take_while is_space (rev s))). split.
  - rewrite forallb_rev. apply take_while_all.
  - unfold trim_right. rewrite <- rev_app_distr, <- take_drop_while, rev_involutive. reflexivity.
Qed.

Lemma trim_space_decomp s :
  exists p q, forallb is_space p = true /\ forallb is_space q = true /\
              s = p ++ trim_space s ++ q.
Proof.
  destruct (trim_left_decomp s) as (p & Hp & E1).
  destruct (trim_right_decomp (trim_left s)) as (q & Hq & E2).
  exists p, q. repeat split; try assumption.
  unfold trim_space. rewrite <- E2. exact E1.
Qed.

Lemma strip_spaces_all_space s : forallb is_space s = true -> strip_spaces s = [].
Proof.
  unfold strip_spaces. induction s as [|c s IH]; simpl; intros H; [reflexivity|].
  apply andb_true_iff in H. destruct H as [H1 H2]. rewrite H1. simpl. apply IH. exact H2.
Qed.

Lemma strip_spaces_nil_all_space s : strip_spaces s = [] -> forallb is_space s = true.
Proof.
  unfold strip_spaces. induction s as [|c s IH]; simpl; intros H; [reflexivity|].
  destruct (is_space c); simpl in *; [apply IH; exact H|discriminate].
Qed.

Lemma strip_spaces_app a b : strip_spaces (a ++ b) = strip_spaces a ++ strip_spaces b.
Proof. unfold strip_spaces. apply filter_app. Qed.

Lemma strip_spaces_trim s : strip_spaces (trim_space s) = strip_spaces s.
Proof.
  destruct (trim_space_decomp s) as (p & q & Hp & Hq & E).
  rewrite E at 2. rewrite !strip_spaces_app.
  rewrite (strip_spaces_all_space p Hp), (strip_spaces_all_space q Hq), app_nil_r.
  reflexivity.
Qed.

Lemma strip_spaces_idem s : strip_spaces (strip_spaces s) = strip_spaces s.
Proof.
  unfold strip_spaces. induction s as [|c s IH]; simpl; [reflexivity|].
  destruct (is_space c) eqn:E; simpl; [exact IH|]. rewrite E. simpl. f_equal. exact IH.
Qed.

Lemma trim_space_nil_iff s : trim_space s = [] <-> forallb is_space s = true.
Proof.
  split; intros H.
  - destruct (trim_space_decomp s) as (p & q & Hp & Hq & E).
    rewrite H in E. rewrite E. simpl. rewrite forallb_app, Hp, Hq. reflexivity.
  - unfold trim_space. unfold trim_left.
    apply drop_while_nil_iff in H. rewrite H. reflexivity.
Qed.

(* is_blank (valid's view) coincides with "nothing left after stripping" (normalize's view) *)
Lemma is_blank_strip c : is_blank c = true <-> strip_spaces c = [].
Proof.
  unfold is_blank. split; intros H.
  - destruct (trim_space c) eqn:E; [|discriminate].
    apply strip_spaces_all_space. apply trim_space_nil_iff. exact E.
  - apply strip_spaces_nil_all_space in H. apply trim_space_nil_iff in H. rewrite H. reflexivity.
Qed.

Lemma is_blank_false_strip c : is_blank c = false <-> strip_spaces c <> [].
Proof.
  split; intros H.
  - intros E. apply is_blank_strip in E. congruence.
  - destruct (is_blank c) eqn:B; [|reflexivity]. apply is_blank_strip in B. contradiction.
Qed.

Lemma trim_right_all_space_nil s : forallb is_space (trim_right s) = true -> trim_right s = [].
Proof. intros H. rewrite <- trim_right_idem. apply trim_right_all_space. exact H. Qed.

(* is_star (valid's view) coincides with "the stripped text is *" *)
Lemma is_star_strip c : is_star c = beq (strip_spaces c) $"*".
Proof.
  unfold is_star. rewrite <- (strip_spaces_trim c).
  unfold trim_space.
  destruct (trim_left c) as [|x t] eqn:E.
  - reflexivity.
  - pose proof (trim_left_nonspace_hd _ _ _ E) as Hx.
    rewrite (trim_right_cons_nonspace x t Hx).
    unfold strip_spaces at 1. cbn [filter]. rewrite Hx. cbn [negb].
    fold (strip_spaces (trim_right t)).
    cbn [beq list_ascii_of_string]. destruct (ceqb x "*"%char); [|reflexivity]. cbn [andb].
    destruct (trim_right t) as [|y t'] eqn:R.
    + reflexivity.
    + destruct (strip_spaces (y :: t')) as [|z u] eqn:F.
      * apply strip_spaces_nil_all_space in F. rewrite <- R in F.
        apply trim_right_all_space_nil in F. congruence.
      * reflexivity.
Qed.
