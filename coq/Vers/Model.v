(* Vers/Model.v — model of pkg/spec/vers (vers.go and the per-scheme adapters).
   Definitions only.  The model is parametric in the string-level operations of the scheme's
   ecosystem ([scheme_ops]); in the correspondence run they are answered by the implementation,
   end to end by the ecosystem models. *)
From Verif.Base Require Import Bytes GoNum.
Local Open Scope N_scope.

Record scheme_ops := {
  s_vok : bytes -> bool;                        (* NewVersion accepts *)
  s_vcmp : bytes -> bytes -> comparison;        (* Compare of two accepted texts *)
  s_vshow : bytes -> bytes;                     (* String() of an accepted text *)
  s_rcontains : bytes -> bytes -> option bool   (* NewVersionRange(r).Contains(NewVersion(v)); None: range rejected *)
}.

(* which native range syntax toRanges prints for e.Name() *)
Inductive native_style :=
| NSpace      (* =v | >=a <b         alpine npm semver *)
| NComma      (* =v | >=a,<b         cargo debian gem rpm *)
| NPypi       (* ==v | >=a, <b *)
| NGolang     (* v-prefixed, space *)
| NMaven      (* brackets *)
| NNuget.

Inductive vres := VTrue | VFalse | VErr.

(* ---------- valid ---------- *)

Definition printable (c : ascii) : bool := (32 <=? code c) && (code c <=? 126).
Definition scheme_char (c : ascii) : bool := is_lower c || is_digit c.

Definition is_star (c : bytes) : bool := beq (trim_space c) $"*".
Definition is_blank (c : bytes) : bool := match trim_space c with [] => true | _ => false end.

(* returns (scheme, constraint texts) *)
Definition valid (s : bytes) : option (bytes * list bytes) :=
  if negb (has_prefix $"vers:" s) then None
  else if negb (forallb printable s) then None
  else
    match split2_c "/"%char (skipn 5 s) with
    | (_, None) => None
    | (eco, Some ctext) =>
        match eco with
        | [] => None
        | _ =>
            if negb (forallb scheme_char eco) then None
            else match ctext with
                 | [] => None
                 | _ =>
                     let cl := split_c "|"%char ctext in
                     let stars := length (filter is_star cl) in
                     let others := existsb (fun c => negb (is_star c) && negb (is_blank c)) cl in
                     if (1 <? stars)%nat then None
                     else if (stars =? 1)%nat && others then None
                     else Some (eco, cl)
                 end
        end
    end.

(* ---------- constraints ---------- *)

Inductive vop := OGe | OLe | ONe | OGt | OLt | OEq.
Definition vcons := (vop * bytes)%type.

Definition vers_ops : list (bytes * vop) :=
  [ ($">=", OGe); ($"<=", OLe); ($"!=", ONe); ($">", OGt); ($"<", OLt); ($"=", OEq) ].

Fixpoint strip_vop (ops : list (bytes * vop)) (c : bytes) : option (vop * bytes) :=
  match ops with
  | [] => None
  | (t, o) :: r => if has_prefix t c then Some (o, skipn (length t) c) else strip_vop r c
  end.

Definition op_text (o : vop) : bytes :=
  match o with
  | OGe => $">=" | OLe => $"<=" | ONe => $"!=" | OGt => $">" | OLt => $"<" | OEq => $"="
  end.

(* normalizeConstraints: strip whitespace, drop empties and textual duplicates, validate *)
Fixpoint normalize_collect (S : scheme_ops) (seen : list bytes) (cs : list bytes)
  : option (list vcons) :=
  match cs with
  | [] => Some []
  | c0 :: r =>
      let c := strip_spaces c0 in
      match c with
      | [] => normalize_collect S seen r
      | _ =>
          if beq c $"*" then None   (* unreachable through Contains; fails later in parseConstraint *)
          else
          match strip_vop vers_ops c with
          | None => None
          | Some (o, v) =>
              match v with
              | [] => None
              | _ =>
                  if mem c seen then normalize_collect S seen r
                  else if s_vok S v
                       then match normalize_collect S (c :: seen) r with
                            | Some l => Some ((o, v) :: l)
                            | None => None
                            end
                       else None
              end
          end
      end
  end.

(* slices.SortFunc on at most 12 elements is a stable insertion sort *)
Fixpoint insert_by {A} (cmp : A -> A -> comparison) (x : A) (l : list A) : list A :=
  match l with
  | [] => [x]
  | y :: r => match cmp x y with
              | Lt => x :: l
              | _ => y :: insert_by cmp x r
              end
  end.
Definition isort {A} (cmp : A -> A -> comparison) (l : list A) : list A :=
  fold_left (fun acc x => insert_by cmp x acc) l [].

Definition normalize (S : scheme_ops) (cs : list bytes) : option (list vcons) :=
  match normalize_collect S [] cs with
  | Some l => Some (isort (fun a b => s_vcmp S (snd a) (snd b)) l)
  | None => None
  end.

(* ---------- intervals ---------- *)

Record interval := {
  i_lower : option (bytes * bool);   (* version, inclusive *)
  i_upper : option (bytes * bool);
  i_exact : option bytes
}.

Definition is_lower_op (o : vop) : bool := match o with OGe | OGt => true | _ => false end.
Definition is_upper_op (o : vop) : bool := match o with OLe | OLt => true | _ => false end.
Definition incl (o : vop) : bool := match o with OGe | OLe => true | _ => false end.

Definition iv_lower (c : vcons) : interval :=
  {| i_lower := Some (snd c, incl (fst c)); i_upper := None; i_exact := None |}.
Definition iv_upper (c : vcons) : interval :=
  {| i_lower := None; i_upper := Some (snd c, incl (fst c)); i_exact := None |}.
Definition iv_both (l u : vcons) : interval :=
  {| i_lower := Some (snd l, incl (fst l)); i_upper := Some (snd u, incl (fst u)); i_exact := None |}.
Definition iv_exact (c : vcons) : interval :=
  {| i_lower := None; i_upper := None; i_exact := Some (snd c) |}.

(* alternatingIntervals: the bounds (in version order) strictly alternate *)
Fixpoint alternating (pending : option vcons) (prev : option bool) (bs : list vcons)
  : option (list interval) :=
  match bs with
  | [] => Some (match pending with Some l => [iv_lower l] | None => [] end)
  | c :: r =>
      let low := is_lower_op (fst c) in
      match prev with
      | Some p => if Bool.eqb p low then None else
          if low then alternating (Some c) (Some low) r
          else match alternating None (Some low) r with
               | Some l => Some (match pending with Some lo => iv_both lo c | None => iv_upper c end :: l)
               | None => None
               end
      | None =>
          if low then alternating (Some c) (Some low) r
          else match alternating None (Some low) r with
               | Some l => Some (iv_upper c :: l)
               | None => None
               end
      end
  end.

Definition last_opt {A} (l : list A) : option A :=
  match rev l with x :: _ => Some x | [] => None end.

Fixpoint zip_both (ls us : list vcons) : list interval :=
  match ls, us with
  | l :: ls', u :: us' => iv_both l u :: zip_both ls' us'
  | _, _ => []
  end.

(* the count heuristic kept for input whose bounds do not alternate *)
Definition heuristic (lowers uppers : list vcons) : list interval :=
  let nl := length lowers in
  let nu := length uppers in
  let merge :=
    ((nl =? 1) && (nu =? 1))%nat
    || ((1 <? nl) && (nu =? 1))%nat || ((nl =? 1) && (1 <? nu))%nat in
  if merge then
    match last_opt lowers, hd_error uppers with
    | Some l, Some u => [iv_both l u]
    | Some l, None => [iv_lower l]
    | None, Some u => [iv_upper u]
    | None, None => []
    end
  else if ((nl =? nu) && (1 <? nl))%nat then zip_both lowers uppers
  else map iv_lower lowers ++ map iv_upper uppers.

Definition group (cs : list vcons) : list interval :=
  let exacts := filter (fun c => match fst c with OEq => true | _ => false end) cs in
  let bounds := filter (fun c => is_lower_op (fst c) || is_upper_op (fst c)) cs in
  let lowers := filter (fun c => is_lower_op (fst c)) cs in
  let uppers := filter (fun c => is_upper_op (fst c)) cs in
  map iv_exact exacts ++
  match bounds with
  | [] => []
  | _ => match alternating None None bounds with
         | Some l => l
         | None => heuristic lowers uppers
         end
  end.

(* ---------- native range text of an interval ---------- *)

Definition lo_op (inc : bool) : bytes := if inc then $">=" else $">".
Definition up_op (inc : bool) : bytes := if inc then $"<=" else $"<".

Definition ensure_v (v : bytes) : bytes :=
  match v with
  | [] => v
  | _ => if has_prefix $"v" v then v else "v"%char :: v
  end.

(* Go's zero value "" stands for "absent" in the interval struct: an empty bound text cannot
   occur (normalize rejects empty versions), so option is exact. *)
Definition native_text (st : native_style) (i : interval) : option bytes :=
  match i_exact i with
  | Some v =>
      Some (match st with
            | NSpace | NComma => $"=" ++ v
            | NPypi => $"==" ++ v
            | NGolang => $"=" ++ ensure_v v
            | NMaven | NNuget => $"[" ++ v ++ $"]"
            end)
  | None =>
      match st with
      | NSpace | NComma | NPypi | NGolang =>
          let f := match st with NGolang => ensure_v | _ => fun v => v end in
          let sep := match st with NComma => $"," | NPypi => $", " | _ => $" " end in
          match i_lower i, i_upper i with
          | Some (a, ia), Some (b, ib) => Some (lo_op ia ++ f a ++ sep ++ up_op ib ++ f b)
          | Some (a, ia), None => Some (lo_op ia ++ f a)
          | None, Some (b, ib) => Some (up_op ib ++ f b)
          | None, None => None
          end
      | NMaven =>
          let lb := fun (inc : bool) => if inc then $"[" else $"(" in
          let ub := fun (inc : bool) => if inc then $"]" else $")" in
          match i_lower i, i_upper i with
          | Some (a, ia), Some (b, ib) => Some (lb ia ++ a ++ $"," ++ b ++ ub ib)
          | Some (a, ia), None => Some (lb ia ++ a ++ $",)")
          | None, Some (b, ib) => Some ($"(," ++ b ++ ub ib)
          | None, None => None
          end
      | NNuget =>
          match i_lower i, i_upper i with
          | Some (a, ia), None => Some (if ia then $"[" ++ a ++ $",)" else $">" ++ a ++ $",")
          | None, Some (b, ib) => Some (if ib then $"(," ++ b ++ $"]" else $"<" ++ b ++ $",")
          | Some (a, ia), Some (b, ib) => Some (lo_op ia ++ a ++ $"," ++ up_op ib ++ b)
          | None, None => None
          end
      end
  end.

(* ---------- contains ---------- *)

Fixpoint any_range (S : scheme_ops) (texts : list bytes) (v : bytes) : vres :=
  match texts with
  | [] => VFalse
  | t :: r =>
      match s_rcontains S t v with
      | None => VErr
      | Some true => match any_range S r v with VErr => VErr | _ => VTrue end
      | Some false => any_range S r v
      end
  end.

Fixpoint filter_some {A} (l : list (option A)) : list A :=
  match l with
  | [] => []
  | Some x :: r => x :: filter_some r
  | None :: r => filter_some r
  end.

(* contains[V,VR](e, constraints, version) *)
Definition contains_generic (S : scheme_ops) (st : option native_style) (cs : list bytes) (v : bytes) : vres :=
  if negb (s_vok S v) then VErr
  else match normalize S cs with
       | None => VErr
       | Some ncs =>
           match ncs with
           | [] => VErr   (* parseConstraints: no valid constraints found *)
           | _ =>
               let ivs := group ncs in
               match st, ivs with
               | None, _ :: _ => VErr   (* toRanges: ecosystem not yet supported for VERS *)
               | _, _ =>
               let texts := match st with
                            | Some st' => filter_some (map (native_text st') ivs)
                            | None => []
                            end in
               (* every native range text must parse, whatever the probe *)
               match any_range S texts v with
               | VErr => VErr
               | in_any =>
                   if existsb (fun c => match fst c with
                                        | ONe => match s_vcmp S v (snd c) with Eq => true | _ => false end
                                        | _ => false end) ncs
                   then VFalse
                   else match texts with
                        | [] => VTrue
                        | _ => in_any
                        end
               end
               end
           end
       end.

(* pypi's PEP 440 gate (pkg/spec/vers/pypi.go) *)
Definition pre_markers : list bytes := [ $"alpha"; $"beta"; $"dev"; $"rc"; $"a"; $"b"; $"c" ].

Definition marker_hit (s marker : bytes) : bool :=
  match cut marker s with
  | None => false
  | Some (before, after) =>
      match last_c before with
      | None => false
      | Some p =>
          if is_digit p || ceqb p "."%char then
            match after with
            | [] => true
            | n :: _ => is_digit n || ceqb n "+"%char || ceqb n "."%char
            end
          else false
      end
  end.

Definition contains_pre_markers (s : bytes) : bool :=
  let l := to_lower s in existsb (marker_hit l) pre_markers.

Definition pypi_is_prerelease (shown : bytes) : bool :=
  contains_pre_markers (fst (split2_c "+"%char shown)).

Definition contains_pypi (S : scheme_ops) (st : option native_style) (cs : list bytes) (v : bytes) : vres :=
  if negb (s_vok S v) then VErr
  else match contains_generic S st cs v with
       | VErr => VErr
       | res =>
           if pypi_is_prerelease (s_vshow S v)
              && negb (existsb (fun c => contains_pre_markers (filter (fun x => negb (ceqb x " "%char)) c)) cs)
           then VFalse else res
       end.

(* ---------- dispatch ---------- *)

Record scheme := {
  sc_name : bytes;          (* VERS scheme name: key of schemeToContains *)
  sc_eco : bytes;           (* e.Name() of the ecosystem its <x>Contains function uses *)
  sc_pypi_gate : bool       (* the function applies the PEP 440 pre-release gate *)
}.

Fixpoint find_scheme (name : bytes) (l : list scheme) : option scheme :=
  match l with
  | [] => None
  | s :: r => if beq name (sc_name s) then Some s else find_scheme name r
  end.

(* Contains(versRange, version) — [ops eco] supplies the ecosystem named [eco] *)
Definition vers_contains (table : list scheme) (styles : list (bytes * native_style))
  (ops : bytes -> scheme_ops) (range version : bytes) : vres :=
  match valid range with
  | None => VErr
  | Some (name, cl) =>
      if existsb is_star cl && negb (existsb (fun c => negb (is_star c) && negb (is_blank c)) cl)
      then VTrue
      else match find_scheme name table with
           | None => VErr
           | Some sc =>
               let S := ops (sc_eco sc) in
               let st := lookup (sc_eco sc) styles in   (* the switch on e.Name() in toRanges *)
               if sc_pypi_gate sc then contains_pypi S st cl version
               else contains_generic S st cl version
           end
  end.
