(* Vers/NativeAlpine.v — C04 end to end for the VERS scheme "alpine": the hypothesis [native_ok]
   is discharged with the model's own alpine range and version layers (Top.model_scheme_ops). *)
From Coq Require Import List Sorted Lia.
From Verif.Base Require Import Bytes BytesFacts GoNum Ord.
From Verif.Eco Require Import RangeCore RangeCoreFacts Iface VLayer VLayerFacts.
From Verif.Eco.Alpine Require Version VersionFacts Range RangeFacts Entry.
From Verif.Vers Require Import Model FactsStr FactsC17 FactsSort FactsC16 FactsC04 NativeCommon.
From Verif.Gen Require Import VersDispatch.
From Verif Require Import Top.
Import ListNotations.
Local Open Scope N_scope.

(* the C02 scope clause for alpine bounds: non-empty, no white space, does not start with an
   operator character *)
Definition alpine_scope (a : bytes) : bool :=
  match a with [] => false | c :: _ => negb (opchar c) end && no_space a.

Lemma alpine_scope_bound a : alpine_scope a = true -> bound_in_scope a.
Proof.
  unfold alpine_scope, bound_in_scope. destruct a as [|c a]; [discriminate|].
  rewrite andb_true_iff. intros [H1 H2]. apply negb_true_iff in H1.
  repeat split; auto. discriminate.
Qed.

Lemma alpine_scope_parts a : alpine_scope a = true -> a <> [] /\ no_space a = true.
Proof.
  intros H. destruct (alpine_scope_bound a H) as (H1 & H2 & _). split; assumption.
Qed.

Definition alpine_S : scheme_ops := model_scheme_ops $"alpine".

Lemma alpine_eco : eco_or_none $"alpine" = Some Alpine.Entry.entry.
Proof. reflexivity. Qed.

Lemma alpine_S_vok : s_vok alpine_S = self_vok Alpine.Entry.entry.
Proof. reflexivity. Qed.
Lemma alpine_S_vcmp : s_vcmp alpine_S = self_vcmp Alpine.Entry.entry.
Proof. reflexivity. Qed.
Lemma alpine_S_rc t v :
  s_rcontains alpine_S t v =
  r_contains (mk_simple_rops Alpine.Range.cfg) (self_vok Alpine.Entry.entry) (self_vcmp Alpine.Entry.entry) t v.
Proof. reflexivity. Qed.

Lemma alpine_op_nospace o a :
  In o (rc_ops Alpine.Range.cfg) -> alpine_scope a = true ->
  no_space (o ++ a) = true /\ o ++ a <> [].
Proof.
  intros Hin Hsc. destruct (alpine_scope_parts a Hsc) as [Hne Hns].
  assert (Hop : forallb opchar o = true).
  { pose proof (ops_ok_opchars _ Alpine.RangeFacts.alpine_ops_ok) as Hoc.
    rewrite forallb_forall in Hoc. auto. }
  split.
  - rewrite no_space_app, (opchars_no_space o Hop), Hns. reflexivity.
  - destruct o; destruct a; simpl; try discriminate; try contradiction.
Qed.

Theorem alpine_native_ok : native_ok_q (fun a => alpine_scope a = true) alpine_S NSpace.
Proof.
  apply (simple_native_ok Alpine.Range.cfg NSpace alpine_scope (or_introl eq_refl)
           Alpine.RangeFacts.alpine_ops_ok) with
    (vok := self_vok Alpine.Entry.entry) (vcmp := self_vcmp Alpine.Entry.entry);
    try reflexivity.
  - intros o H. simpl in H. simpl. intuition (subst; auto).
  - exact alpine_scope_bound.
  - intros o a Hin Hsc. destruct (alpine_op_nospace o a Hin Hsc) as [Hns Hne].
    apply fields_one; assumption.
  - intros o1 a o2 b H1 H2 Sa Sb.
    destruct (alpine_op_nospace o1 a H1 Sa) as [N1 E1].
    destruct (alpine_op_nospace o2 b H2 Sb) as [N2 E2].
    cbn [sep_of].
    replace (o1 ++ a ++ $" " ++ o2 ++ b) with ((o1 ++ a) ++ $" " ++ (o2 ++ b))
      by (rewrite <- !app_assoc; reflexivity).
    split.
    + apply trim_space_two; assumption.
    + apply (fields_two (o1 ++ a) (o2 ++ b)); assumption.
  - intros a Hs Hv. cbn [fb]. split; [exact Hs|split; [exact Hv|reflexivity]].
Qed.

(* the order hypothesis: alpine's Compare is a total preorder on parsed versions *)
Theorem alpine_tpo : TotalPreorderOn (vok_text alpine_S) (s_vcmp alpine_S).
Proof.
  apply (self_tpo _ Alpine.Version.parse_core Alpine.Version.cmp_core Alpine.Version.raw_orig
           Alpine.VersionFacts.wf_ver Alpine.VersionFacts.cmp_tp Alpine.VersionFacts.parse_wf
           Alpine.Entry.entry eq_refl).
Qed.

(* C04 for "vers:alpine/...", end to end: no hypothesis about the ecosystem layers is left *)
Theorem C04_alpine_end_to_end ctext version ncs :
  let S := model_scheme_ops $"alpine" in
  let cl := split_c "|"%char ctext in
  valid (vers_text $"alpine" ctext) <> None ->
  existsb is_star cl = false ->
  s_vok S version = true ->
  normalize S cl = Some ncs -> ncs <> [] ->
  Forall (fun c => alpine_scope (snd c) = true) ncs ->
  pairwise_nonequiv S cl ->
  alternating None None (filter is_bound_c ncs) <> None ->
  model_vers (vers_text $"alpine" ctext) version =
    b2v (VS.spec_contains (s_vcmp S) (spec_list ncs) version).
Proof.
  intros S cl Hv Hst Hok Hn Hne Hsc Hp Ha.
  unfold model_vers.
  rewrite (C04_vers_contains_q (fun a => alpine_scope a = true) scheme_table style_table
             model_scheme_ops $"alpine" ctext version
             {| sc_name := $"alpine"; sc_eco := $"alpine"; sc_pypi_gate := false |} NSpace ncs
             eq_refl Hv Hst eq_refl eq_refl alpine_native_ok Hsc Hok Hn Hne).
  - reflexivity.
  - split; [|exact Ha]. apply (normalize_sorted _ cl ncs alpine_tpo Hp Hn).
Qed.

Print Assumptions alpine_native_ok.
Print Assumptions alpine_tpo.
Print Assumptions C04_alpine_end_to_end.
