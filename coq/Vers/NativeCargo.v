(* Vers/NativeCargo.v — C04 end to end for the VERS scheme "cargo" (ecosystem cargo, native
   syntax "<op><a>,<op><b>"): [native_ok] is discharged with the model's own cargo range and
   version layers. *)
From Coq Require Import List Sorted Lia.
From Verif.Base Require Import Bytes BytesFacts GoNum Ord.
From Verif.Eco Require Import RangeCore RangeCoreFacts Iface VLayer VLayerFacts.
From Verif.Eco.Cargo Require Version NumFacts VersionFacts Range RangeFacts Entry.
From Verif.Vers Require Import Model FactsStr FactsC17 FactsSort FactsC16 FactsC04 NativeCommon.
From Verif.Gen Require Import VersDispatch.
From Verif Require Import Top.
Import ListNotations.
Local Open Scope N_scope.

Definition cargo_S : scheme_ops := model_scheme_ops $"cargo".

Lemma cargo_eco : eco_or_none $"cargo" = Some Cargo.Entry.entry.
Proof. reflexivity. Qed.

(* the scope clause is the ecosystem's own: Cargo.RangeFacts.bound_ok (non-empty, no leading
   operator character, no white space, no comma) *)
Notation cargo_scope := Cargo.RangeFacts.bound_ok.

Section Oracle.
  Variable vok : bytes -> bool.
  Variable vcmp : bytes -> bytes -> comparison.
  Notation rc := (r_contains Cargo.Entry.r vok vcmp).

  Lemma in_lo ia : In (lo_op ia) Cargo.Range.cargo_ops.
  Proof. destruct ia; simpl; tauto. Qed.
  Lemma in_up ib : In (up_op ib) Cargo.Range.cargo_ops.
  Proof. destruct ib; simpl; tauto. Qed.
  Lemma in_eq : In $"=" Cargo.Range.cargo_ops.
  Proof. simpl; tauto. Qed.

  Lemma cargo_lo ia a v : cargo_scope a = true -> vok a = true -> vok v = true ->
    rc (lo_op ia ++ a) v = Some (lo_val ia (vcmp v a)).
  Proof.
    intros Sa Ha Hv. cbn [r_contains Cargo.Entry.r].
    rewrite (Cargo.RangeFacts.C02_comparator vok vcmp _ a v (in_lo ia) Ha Sa Hv).
    destruct ia; cbn; destruct (vcmp v a); reflexivity.
  Qed.

  Lemma cargo_up ib b v : cargo_scope b = true -> vok b = true -> vok v = true ->
    rc (up_op ib ++ b) v = Some (up_val ib (vcmp v b)).
  Proof.
    intros Sb Hb Hv. cbn [r_contains Cargo.Entry.r].
    rewrite (Cargo.RangeFacts.C02_comparator vok vcmp _ b v (in_up ib) Hb Sb Hv).
    destruct ib; cbn; destruct (vcmp v b); reflexivity.
  Qed.

  Lemma cargo_eq e v : cargo_scope e = true -> vok e = true -> vok v = true ->
    rc ($"=" ++ e) v = Some (eq_val (vcmp v e)).
  Proof.
    intros Se He Hv. cbn [r_contains Cargo.Entry.r].
    rewrite (Cargo.RangeFacts.C02_comparator vok vcmp _ e v in_eq He Se Hv).
    cbn; destruct (vcmp v e); reflexivity.
  Qed.

  (* from the interface-level equation back to the parsed range *)
  Lemma rc_inv t v b : vok v = true -> rc t v = Some b ->
    exists r, Cargo.Range.parse_range vok t = Some r /\ Cargo.Range.contains vcmp r v = b.
  Proof.
    intros Hv. cbn [r_contains Cargo.Entry.r]. unfold Cargo.Range.r_contains.
    destruct (Cargo.Range.parse_range vok t) as [r|]; [|discriminate].
    rewrite Hv. intros H. injection H as <-. exists r. split; reflexivity.
  Qed.

  Lemma op_trimmed op a : In op Cargo.Range.cargo_ops -> cargo_scope a = true ->
    Cargo.NumFacts.trimmed_b (op ++ a) = true.
  Proof.
    intros Hop Sa. destruct (Cargo.RangeFacts.bound_ok_inv a Sa) as (c & a' & E & Hc & Hp).
    apply Cargo.RangeFacts.trimmed_app_op; try assumption.
    - cbn in Hop. intuition (subst; discriminate).
    - cbn in Hop. intuition (subst; reflexivity).
    - subst a. discriminate.
  Qed.

  Lemma cargo_two ia a ib b v :
    cargo_scope a = true -> cargo_scope b = true -> vok a = true -> vok b = true -> vok v = true ->
    rc (lo_op ia ++ a ++ $"," ++ up_op ib ++ b) v =
      Some (lo_val ia (vcmp v a) && up_val ib (vcmp v b)).
  Proof.
    intros Sa Sb Ha Hb Hv.
    destruct (rc_inv _ v _ Hv (cargo_lo ia a v Sa Ha Hv)) as (r1 & R1 & C1).
    destruct (rc_inv _ v _ Hv (cargo_up ib b v Sb Hb Hv)) as (r2 & R2 & C2).
    destruct (Cargo.RangeFacts.C02_and vok vcmp (lo_op ia ++ a) (up_op ib ++ b) r1 r2
                (op_trimmed _ a (in_lo ia) Sa) (op_trimmed _ b (in_up ib) Sb) R1 R2) as (r & Hr & Hc).
    replace (lo_op ia ++ a ++ $"," ++ up_op ib ++ b)
      with ((lo_op ia ++ a) ++ $"," ++ up_op ib ++ b) by (rewrite <- !app_assoc; reflexivity).
    cbn [r_contains Cargo.Entry.r]. unfold Cargo.Range.r_contains. rewrite Hr, Hv, Hc, C1, C2. reflexivity.
  Qed.
End Oracle.

Theorem cargo_native_ok : native_ok_q (fun a => cargo_scope a = true) cargo_S NComma.
Proof.
  apply (text_native_ok NComma cargo_scope (or_intror (or_introl eq_refl))
           (self_vok Cargo.Entry.entry) (self_vcmp Cargo.Entry.entry)
           (r_contains Cargo.Entry.r (self_vok Cargo.Entry.entry) (self_vcmp Cargo.Entry.entry)));
    try reflexivity.
  - apply cargo_lo.
  - apply cargo_up.
  - apply cargo_eq.
  - apply cargo_two.
  - intros a Hs Hv. cbn [fb]. split; [exact Hs|split; [exact Hv|reflexivity]].
Qed.

Theorem cargo_tpo : TotalPreorderOn (vok_text cargo_S) (s_vcmp cargo_S).
Proof.
  apply (self_tpo _ Cargo.Version.parse_core Cargo.Version.cmp_core Cargo.Version.raw_orig
           (fun _ => True) (TPO_of_TP _ _ _ Cargo.VersionFacts.cmp_tp) (fun _ _ _ => I)
           Cargo.Entry.entry eq_refl).
Qed.

(* C04 for "vers:generic/...", end to end *)
Theorem C04_cargo_end_to_end ctext version ncs :
  let S := model_scheme_ops $"cargo" in
  let cl := split_c "|"%char ctext in
  valid (vers_text $"cargo" ctext) <> None ->
  existsb is_star cl = false ->
  s_vok S version = true ->
  normalize S cl = Some ncs -> ncs <> [] ->
  Forall (fun c => cargo_scope (snd c) = true) ncs ->
  pairwise_nonequiv S cl ->
  alternating None None (filter is_bound_c ncs) <> None ->
  model_vers (vers_text $"cargo" ctext) version =
    b2v (VS.spec_contains (s_vcmp S) (spec_list ncs) version).
Proof.
  intros S cl Hv Hst Hok Hn Hne Hsc Hp Ha.
  unfold model_vers.
  rewrite (C04_vers_contains_q (fun a => cargo_scope a = true) scheme_table style_table
             model_scheme_ops $"cargo" ctext version
             {| sc_name := $"cargo"; sc_eco := $"cargo"; sc_pypi_gate := false |} NComma ncs
             eq_refl Hv Hst eq_refl eq_refl cargo_native_ok Hsc Hok Hn Hne).
  - reflexivity.
  - split; [|exact Ha]. apply (normalize_sorted _ cl ncs cargo_tpo Hp Hn).
Qed.

Print Assumptions cargo_native_ok.
Print Assumptions cargo_tpo.
Print Assumptions C04_cargo_end_to_end.
