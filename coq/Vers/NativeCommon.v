(* Vers/NativeCommon.v — discharging the hypothesis [native_ok] of C04 for schemes whose ecosystem
   range parser is an instance of Eco/RangeCore.v ([mk_simple_rops cfg]) and whose native syntax
   is "<op><a>" / "<op><a><sep><op><b>" (NSpace, NComma); and the total-preorder hypothesis on
   accepted texts from the ecosystem's own theorem on parsed values. *)
From Coq Require Import List Lia.
From Verif.Base Require Import Bytes BytesFacts GoNum Ord.
From Verif.Eco Require Import RangeCore RangeCoreFacts Iface VLayer VLayerFacts.
From Verif.Vers Require Import Model FactsStr FactsC17 FactsSort FactsC16 FactsC04.
Import ListNotations.
Local Open Scope N_scope.

(* ---------- the order on accepted texts ---------- *)

Section SelfOrder.
  Variable C : Type.
  Variable parse_core : bytes -> option C.
  Variable cmp_core : C -> C -> comparison.
  Variable raw_orig : bool.
  Variable P : VLayer.ver C -> Prop.
  Hypothesis T : TotalPreorderOn P (VLayer.cmp cmp_core).
  Hypothesis parse_P : forall t x, VLayer.parse parse_core raw_orig t = Some x -> P x.

  Variable e : eco.
  Hypothesis e_is : e_v e = mk_vops parse_core cmp_core raw_orig.

  Lemma self_vok_parse t :
    self_vok e t = true -> exists x, VLayer.parse parse_core raw_orig t = Some x.
  Proof.
    unfold self_vok. rewrite e_is. cbn [v_show mk_vops].
    destruct (VLayer.parse parse_core raw_orig t) as [x|]; [eauto|discriminate].
  Qed.

  Lemma self_vcmp_parse a b x y :
    VLayer.parse parse_core raw_orig a = Some x -> VLayer.parse parse_core raw_orig b = Some y ->
    self_vcmp e a b = VLayer.cmp cmp_core x y.
  Proof.
    intros Ha Hb. unfold self_vcmp. rewrite e_is. cbn [v_cmp mk_vops]. rewrite Ha, Hb. reflexivity.
  Qed.

  (* two texts with the same core are interchangeable for the version oracles *)
  Lemma self_same_core x y :
    option_map v_core (VLayer.parse parse_core raw_orig x) =
    option_map v_core (VLayer.parse parse_core raw_orig y) ->
    self_vok e x = self_vok e y /\ forall v, self_vcmp e v x = self_vcmp e v y.
  Proof.
    intros H. unfold self_vok, self_vcmp. rewrite e_is. cbn [v_show v_cmp mk_vops].
    destruct (VLayer.parse parse_core raw_orig x) as [px|];
      destruct (VLayer.parse parse_core raw_orig y) as [py|]; try discriminate; cbn in H.
    - injection H as H. split; [reflexivity|]. intros v.
      destruct (VLayer.parse parse_core raw_orig v); [|reflexivity].
      unfold VLayer.cmp. rewrite H. reflexivity.
    - split; [reflexivity|]. intros v. destruct (VLayer.parse parse_core raw_orig v); reflexivity.
  Qed.

  Lemma self_tpo : TotalPreorderOn (fun t => self_vok e t = true) (self_vcmp e).
  Proof.
    constructor.
    - intros a Ha. destruct (self_vok_parse a Ha) as [x Hx].
      rewrite (self_vcmp_parse a a x x Hx Hx). apply (tpo_refl T). eapply parse_P; eassumption.
    - intros a b Ha Hb. destruct (self_vok_parse a Ha) as [x Hx]. destruct (self_vok_parse b Hb) as [y Hy].
      rewrite (self_vcmp_parse b a y x Hy Hx), (self_vcmp_parse a b x y Hx Hy).
      apply (tpo_anti T); eapply parse_P; eassumption.
    - intros a b c r Ha Hb Hc.
      destruct (self_vok_parse a Ha) as [x Hx]. destruct (self_vok_parse b Hb) as [y Hy].
      destruct (self_vok_parse c Hc) as [z Hz].
      rewrite (self_vcmp_parse a b x y Hx Hy), (self_vcmp_parse b c y z Hy Hz),
              (self_vcmp_parse a c x z Hx Hz).
      apply (tpo_trans T); eapply parse_P; eassumption.
    - intros a b c Ha Hb Hc.
      destruct (self_vok_parse a Ha) as [x Hx]. destruct (self_vok_parse b Hb) as [y Hy].
      destruct (self_vok_parse c Hc) as [z Hz].
      rewrite (self_vcmp_parse a b x y Hx Hy), (self_vcmp_parse b c y z Hy Hz),
              (self_vcmp_parse a c x z Hx Hz).
      apply (tpo_eq_l T); eapply parse_P; eassumption.
  Qed.
End SelfOrder.

(* ---------- simple range parsers: one and two comparators ---------- *)

Definition sep_of (st : native_style) : bytes :=
  match st with NComma => $"," | _ => $" " end.

(* the golang adapter writes every bound with a leading "v" *)
Definition fb (st : native_style) (a : bytes) : bytes :=
  match st with NGolang => ensure_v a | _ => a end.

(* ---------- native syntaxes "<op><a>" / "<op><a><sep><op><b>", any range parser ---------- *)

Definition lo_val (inc : bool) (c : comparison) : bool :=
  match c with Gt => true | Eq => inc | Lt => false end.
Definition up_val (inc : bool) (c : comparison) : bool :=
  match c with Lt => true | Eq => inc | Gt => false end.
Definition eq_val (c : comparison) : bool := match c with Eq => true | _ => false end.

Section TextNative.
  Variable st : native_style.
  Variable scope : bytes -> bool.
  Hypothesis st_is : st = NSpace \/ st = NComma \/ st = NGolang.

  Variable vok : bytes -> bool.
  Variable vcmp : bytes -> bytes -> comparison.
  Variable rc : bytes -> bytes -> option bool.

  Hypothesis rc_lo : forall ia a v, scope a = true -> vok a = true -> vok v = true ->
    rc (lo_op ia ++ a) v = Some (lo_val ia (vcmp v a)).
  Hypothesis rc_up : forall ib b v, scope b = true -> vok b = true -> vok v = true ->
    rc (up_op ib ++ b) v = Some (up_val ib (vcmp v b)).
  Hypothesis rc_eq : forall e v, scope e = true -> vok e = true -> vok v = true ->
    rc ($"=" ++ e) v = Some (eq_val (vcmp v e)).
  Hypothesis rc_two : forall ia a ib b v,
    scope a = true -> scope b = true -> vok a = true -> vok b = true -> vok v = true ->
    rc (lo_op ia ++ a ++ sep_of st ++ up_op ib ++ b) v =
      Some (lo_val ia (vcmp v a) && up_val ib (vcmp v b)).
  Hypothesis fb_ok : forall a, scope a = true -> vok a = true ->
    scope (fb st a) = true /\ vok (fb st a) = true /\ forall v, vcmp v (fb st a) = vcmp v a.

  Variable S : scheme_ops.
  Hypothesis S_vok : s_vok S = vok.
  Hypothesis S_vcmp : s_vcmp S = vcmp.
  Hypothesis S_rc : forall t v, s_rcontains S t v = rc t v.

  Theorem text_native_ok : native_ok_q (fun a => scope a = true) S st.
  Proof.
    intros i t v W Ht Hv. rewrite S_rc. rewrite S_vok in Hv.
    destruct i as [[[a ia]|] [[b ib]|] [e|]]; unfold iv_wf_q, bound_ok_q, bound_ok in W;
      cbn [i_exact i_lower i_upper] in W; try contradiction;
      rewrite ?S_vok, ?S_vcmp in W;
      unfold native_text in Ht; cbn [i_exact i_lower i_upper] in Ht;
      unfold in_interval; cbn [i_exact i_lower i_upper]; rewrite S_vcmp.
    - destruct W as (((Ha & _) & Sa) & ((Hb & _) & Sb) & _).
      destruct (fb_ok a Sa Ha) as (Sa' & Ha' & Ca). destruct (fb_ok b Sb Hb) as (Sb' & Hb' & Cb).
      assert (E : t = lo_op ia ++ fb st a ++ sep_of st ++ up_op ib ++ fb st b).
      { destruct st_is as [-> | [-> | ->]]; injection Ht as <-; reflexivity. }
      rewrite E, (rc_two ia _ ib _ v Sa' Sb' Ha' Hb' Hv), Ca, Cb. reflexivity.
    - destruct W as ((Ha & _) & Sa). destruct (fb_ok a Sa Ha) as (Sa' & Ha' & Ca).
      assert (E : t = lo_op ia ++ fb st a).
      { destruct st_is as [-> | [-> | ->]]; injection Ht as <-; reflexivity. }
      rewrite E, (rc_lo ia _ v Sa' Ha' Hv), Ca, andb_true_r. reflexivity.
    - destruct W as ((Hb & _) & Sb). destruct (fb_ok b Sb Hb) as (Sb' & Hb' & Cb).
      assert (E : t = up_op ib ++ fb st b).
      { destruct st_is as [-> | [-> | ->]]; injection Ht as <-; reflexivity. }
      rewrite E, (rc_up ib _ v Sb' Hb' Hv), Cb. reflexivity.
    - destruct W as ((He & _) & Se). destruct (fb_ok e Se He) as (Se' & He' & Ce).
      assert (E : t = $"=" ++ fb st e).
      { destruct st_is as [-> | [-> | ->]]; injection Ht as <-; reflexivity. }
      rewrite E, (rc_eq _ v Se' He' Hv), Ce. reflexivity.
  Qed.
End TextNative.

Section SimpleNative.
  Variable cfg : range_cfg.
  Variable st : native_style.
  Variable scope : bytes -> bool.

  Hypothesis st_is : st = NSpace \/ st = NComma \/ st = NGolang.
  Hypothesis ops_good : ops_ok (rc_ops cfg) = true.
  Hypothesis ops_in : forall o, In o [ $">="; $">"; $"<="; $"<"; $"=" ] -> In o (rc_ops cfg).
  Hypothesis sem_ge : rc_sem cfg $">=" = CGe.
  Hypothesis sem_gt : rc_sem cfg $">" = CGt.
  Hypothesis sem_le : rc_sem cfg $"<=" = CLe.
  Hypothesis sem_lt : rc_sem cfg $"<" = CLt.
  Hypothesis sem_eq : rc_sem cfg $"=" = CEq.
  Hypothesis scope_bound : forall a, scope a = true -> bound_in_scope a.
  Hypothesis split1 : forall o a, In o (rc_ops cfg) -> scope a = true ->
    rc_split cfg (o ++ a) = [o ++ a].
  Hypothesis split2 : forall o1 a o2 b, In o1 (rc_ops cfg) -> In o2 (rc_ops cfg) ->
    scope a = true -> scope b = true ->
    trim_space (o1 ++ a ++ sep_of st ++ o2 ++ b) = o1 ++ a ++ sep_of st ++ o2 ++ b /\
    rc_split cfg (o1 ++ a ++ sep_of st ++ o2 ++ b) = [o1 ++ a; o2 ++ b].

  Variable vok : bytes -> bool.
  Variable vcmp : bytes -> bytes -> comparison.
  Notation rcontains := (r_contains (mk_simple_rops cfg) vok vcmp).

  Lemma simple_one op a v :
    In op (rc_ops cfg) -> scope a = true -> vok a = true -> vok v = true ->
    rcontains (op ++ a) v = Some (sat (rc_sem cfg op) (vcmp v a)).
  Proof.
    intros Hin Hsc Ha Hv.
    destruct (simple_range_c02_single bytes (oracle_parse vok) vcmp cfg op a a
                ops_good Hin (scope_bound a Hsc)) as (r & Hr & Hc).
    - unfold oracle_parse. rewrite Ha. reflexivity.
    - apply split1; assumption.
    - unfold mk_simple_rops. cbn [r_contains]. rewrite Hr, Hv, Hc. reflexivity.
  Qed.

  Lemma simple_two o1 a o2 b v :
    In o1 (rc_ops cfg) -> In o2 (rc_ops cfg) -> scope a = true -> scope b = true ->
    vok a = true -> vok b = true -> vok v = true ->
    rcontains (o1 ++ a ++ sep_of st ++ o2 ++ b) v =
      Some (sat (rc_sem cfg o1) (vcmp v a) && sat (rc_sem cfg o2) (vcmp v b)).
  Proof.
    intros H1 H2 Sa Sb Ha Hb Hv.
    destruct (split2 o1 a o2 b H1 H2 Sa Sb) as [Ht Hs].
    destruct (simple_range_c02 bytes (oracle_parse vok) vcmp cfg
                (o1 ++ a ++ sep_of st ++ o2 ++ b) [(o1, a); (o2, b)] ops_good) as (r & Hr & Hc).
    - discriminate.
    - constructor; [|constructor; [|constructor]]; (split; [assumption|split; [apply scope_bound; assumption|]]);
        unfold oracle_parse; cbn [snd]; [rewrite Ha|rewrite Hb]; eauto.
    - rewrite Ht. pose proof (scope_bound a Sa) as (Hne & _).
      destruct o1; destruct a; simpl; try discriminate. contradiction.
    - rewrite Ht, Hs. reflexivity.
    - unfold mk_simple_rops. cbn [r_contains]. rewrite Hr, Hv, Hc.
      cbn [forallb fst snd]. unfold oracle_parse. rewrite Ha, Hb, andb_true_r. reflexivity.
  Qed.

  (* the bound as the adapter writes it is in scope, accepted, and compares like the bound *)
  Hypothesis fb_ok : forall a, scope a = true -> vok a = true ->
    scope (fb st a) = true /\ vok (fb st a) = true /\ forall v, vcmp v (fb st a) = vcmp v a.

  (* the scheme: its range layer is this parser over its own version layer *)
  Variable S : scheme_ops.
  Hypothesis S_vok : s_vok S = vok.
  Hypothesis S_vcmp : s_vcmp S = vcmp.
  Hypothesis S_rc : forall t v, s_rcontains S t v = rcontains t v.

  Lemma lo_in ia : In (lo_op ia) (rc_ops cfg).
  Proof. apply ops_in. destruct ia; simpl; tauto. Qed.
  Lemma up_in ib : In (up_op ib) (rc_ops cfg).
  Proof. apply ops_in. destruct ib; simpl; tauto. Qed.
  Lemma eq_in : In $"=" (rc_ops cfg).
  Proof. apply ops_in. simpl; tauto. Qed.

  Lemma sat_lo ia c : sat (rc_sem cfg (lo_op ia)) c = match c with Gt => true | Eq => ia | Lt => false end.
  Proof. destruct ia; cbn [lo_op]; rewrite ?sem_ge, ?sem_gt; destruct c; reflexivity. Qed.
  Lemma sat_up ib c : sat (rc_sem cfg (up_op ib)) c = match c with Lt => true | Eq => ib | Gt => false end.
  Proof. destruct ib; cbn [up_op]; rewrite ?sem_le, ?sem_lt; destruct c; reflexivity. Qed.

  Theorem simple_native_ok : native_ok_q (fun a => scope a = true) S st.
  Proof.
    apply (text_native_ok st scope st_is vok vcmp rcontains); try assumption.
    - intros ia a v Sa Ha Hv. rewrite (simple_one _ a v (lo_in ia) Sa Ha Hv), sat_lo. reflexivity.
    - intros ib b v Sb Hb Hv. rewrite (simple_one _ b v (up_in ib) Sb Hb Hv), sat_up. reflexivity.
    - intros e v Se He Hv. rewrite (simple_one _ e v eq_in Se He Hv), sem_eq.
      destruct (vcmp v e); reflexivity.
    - intros ia a ib b v Sa Sb Ha Hb Hv.
      rewrite (simple_two _ a _ b v (lo_in ia) (up_in ib) Sa Sb Ha Hb Hv), sat_lo, sat_up. reflexivity.
  Qed.
End SimpleNative.

(* ---------- strings.Fields on two blank-free words ---------- *)

Lemma fields_aux_word cur s r :
  no_space s = true -> (cur <> [] \/ s <> []) ->
  fields_aux cur (s ++ " "%char :: r) = (rev cur ++ s) :: fields_aux [] r.
Proof.
  revert cur. induction s as [|c s IH]; intros cur Hs Hne.
  - simpl. destruct cur as [|x cur]; [destruct Hne; contradiction|]. rewrite app_nil_r. reflexivity.
  - simpl in Hs. apply andb_true_iff in Hs. destruct Hs as [Hc Hs]. apply negb_true_iff in Hc.
    simpl. rewrite Hc. rewrite (IH (c :: cur) Hs); [|left; discriminate].
    simpl. rewrite <- app_assoc. reflexivity.
Qed.

Lemma fields_aux_one cur s :
  no_space s = true -> (cur <> [] \/ s <> []) -> fields_aux cur s = [rev cur ++ s].
Proof.
  revert cur. induction s as [|c s IH]; intros cur Hs Hne.
  - simpl. destruct cur; [destruct Hne; contradiction|]. rewrite app_nil_r. reflexivity.
  - simpl in Hs. apply andb_true_iff in Hs. destruct Hs as [Hc Hs]. apply negb_true_iff in Hc.
    simpl. rewrite Hc. rewrite (IH (c :: cur) Hs); [|left; discriminate].
    simpl. rewrite <- app_assoc. reflexivity.
Qed.

Lemma fields_one s : no_space s = true -> s <> [] -> fields s = [s].
Proof. intros Hs Hne. unfold fields. rewrite (fields_aux_one [] s Hs); auto. Qed.

Lemma fields_two s1 s2 :
  no_space s1 = true -> s1 <> [] -> no_space s2 = true -> s2 <> [] ->
  fields (s1 ++ " "%char :: s2) = [s1; s2].
Proof.
  intros H1 N1 H2 N2. unfold fields.
  rewrite (fields_aux_word [] s1 s2 H1); [|right; exact N1].
  rewrite (fields_aux_one [] s2 H2); [|right; exact N2]. reflexivity.
Qed.

(* a text beginning and ending with a non-blank is its own trim *)
Lemma trim_space_ends x m y :
  is_space x = false -> is_space y = false -> trim_space (x :: m ++ [y]) = x :: m ++ [y].
Proof.
  intros Hx Hy. unfold trim_space. rewrite (trim_left_of_nonspace x _ Hx).
  unfold trim_right. change (x :: m ++ [y]) with ((x :: m) ++ [y]).
  rewrite rev_app_distr. change (rev [y] ++ rev (x :: m)) with (y :: rev (x :: m)).
  cbn [drop_while]. rewrite Hy.
  change (rev (y :: rev (x :: m))) with (rev (rev (x :: m)) ++ [y]).
  rewrite rev_involutive. reflexivity.
Qed.

Lemma no_space_last s : no_space s = true -> s <> [] ->
  exists m y, s = m ++ [y] /\ is_space y = false.
Proof.
  intros Hs Hne. destruct (exists_last Hne) as (m & y & E). exists m, y. split; [exact E|].
  subst s. unfold no_space in Hs. rewrite forallb_app in Hs. apply andb_true_iff in Hs.
  destruct Hs as [_ Hy]. simpl in Hy. rewrite andb_true_r in Hy. apply negb_true_iff in Hy. exact Hy.
Qed.

Lemma no_space_first s : no_space s = true -> s <> [] ->
  exists x r, s = x :: r /\ is_space x = false.
Proof.
  intros Hs Hne. destruct s as [|x r]; [contradiction|]. exists x, r. split; [reflexivity|].
  simpl in Hs. apply andb_true_iff in Hs. destruct Hs as [Hx _]. apply negb_true_iff in Hx. exact Hx.
Qed.

(* two blank-free non-empty words joined by any separator text: trimming changes nothing *)
Lemma trim_space_two s1 sep s2 :
  no_space s1 = true -> s1 <> [] -> no_space s2 = true -> s2 <> [] ->
  trim_space (s1 ++ sep ++ s2) = s1 ++ sep ++ s2.
Proof.
  intros H1 N1 H2 N2.
  destruct (no_space_first s1 H1 N1) as (x & r & -> & Hx).
  destruct (no_space_last s2 H2 N2) as (m & y & -> & Hy).
  replace ((x :: r) ++ sep ++ m ++ [y]) with (x :: (r ++ sep ++ m) ++ [y]).
  - apply trim_space_ends; assumption.
  - simpl. rewrite <- !app_assoc. reflexivity.
Qed.

(* ---------- comma-separated syntaxes (debian, rpm, ...) ---------- *)

Definition nocomma (s : bytes) : bool := negb (contains_c ","%char s).

(* the scope clause: non-empty, does not start with an operator character, no white space,
   no comma *)
Definition scope_c (a : bytes) : bool :=
  match a with [] => false | c :: _ => negb (opchar c) end && no_space a && nocomma a.

Lemma scope_c_bound a : scope_c a = true -> bound_in_scope a.
Proof.
  unfold scope_c, bound_in_scope. destruct a as [|c a]; [discriminate|].
  rewrite !andb_true_iff. intros [[H1 H2] _]. apply negb_true_iff in H1.
  repeat split; auto. discriminate.
Qed.

Lemma nocomma_app a b : nocomma (a ++ b) = nocomma a && nocomma b.
Proof. unfold nocomma, contains_c. rewrite existsb_app, negb_orb. reflexivity. Qed.

Lemma opchars_nocomma op : forallb opchar op = true -> nocomma op = true.
Proof.
  unfold nocomma, contains_c. induction op as [|c op IH]; simpl; [reflexivity|].
  intros H. apply andb_true_iff in H. destruct H as [Hc H].
  specialize (IH H). apply negb_true_iff in IH. rewrite IH, orb_false_r.
  apply negb_true_iff. apply ceqb_neq. intros <-. discriminate.
Qed.

(* "<op><a>" for an operator spelling and an in-scope bound is a comma-free word *)
Lemma op_word_c ops o a :
  ops_ok ops = true -> In o ops -> scope_c a = true ->
  no_space (o ++ a) = true /\ nocomma (o ++ a) = true /\ o ++ a <> [].
Proof.
  intros Hok Hin Hsc.
  assert (Hop : forallb opchar o = true).
  { pose proof (ops_ok_opchars _ Hok) as Hoc. rewrite forallb_forall in Hoc. auto. }
  unfold scope_c in Hsc. rewrite !andb_true_iff in Hsc. destruct Hsc as [[Hh Hns] Hnc].
  repeat split.
  - rewrite no_space_app, (opchars_no_space o Hop), Hns. reflexivity.
  - rewrite nocomma_app, (opchars_nocomma o Hop), Hnc. reflexivity.
  - destruct o; destruct a; simpl; try discriminate.
Qed.

Lemma split_c_one sep s : contains_c sep s = false -> split_c sep s = [s].
Proof.
  unfold contains_c. induction s as [|c s IH]; simpl; [reflexivity|].
  intros H. apply orb_false_iff in H. destruct H as [Hc Hs]. rewrite Hc, (IH Hs). reflexivity.
Qed.

Lemma split_c_two sep a b :
  contains_c sep a = false -> contains_c sep b = false -> split_c sep (a ++ sep :: b) = [a; b].
Proof. intros Ha Hb. rewrite (split_c_app sep a b Ha), (split_c_one sep b Hb). reflexivity. Qed.

Lemma split_comma_trim_one s :
  s <> [] -> no_space s = true -> nocomma s = true -> split_comma_trim s = [s].
Proof.
  intros Hne Hns Hnc. unfold split_comma_trim, nocomma in *.
  apply negb_true_iff in Hnc. rewrite (split_c_one _ _ Hnc). simpl.
  rewrite (trim_space_no_space s Hns). destruct s; [contradiction|reflexivity].
Qed.

Lemma split_comma_trim_two s1 s2 :
  s1 <> [] -> no_space s1 = true -> nocomma s1 = true ->
  s2 <> [] -> no_space s2 = true -> nocomma s2 = true ->
  split_comma_trim (s1 ++ ","%char :: s2) = [s1; s2].
Proof.
  intros N1 S1 C1 N2 S2 C2. unfold split_comma_trim, nocomma in *.
  apply negb_true_iff in C1, C2. rewrite (split_c_two _ _ _ C1 C2). simpl.
  rewrite (trim_space_no_space s1 S1), (trim_space_no_space s2 S2).
  destruct s1; [contradiction|]. destruct s2; [contradiction|]. reflexivity.
Qed.

Lemma replace_nocomma s : nocomma s = true -> replace_c ","%char " "%char s = s.
Proof.
  unfold nocomma, contains_c, replace_c. induction s as [|c s IH]; simpl; [reflexivity|].
  intros H. apply negb_true_iff in H. apply orb_false_iff in H. destruct H as [Hc Hs].
  rewrite Hc. f_equal. apply IH. apply negb_true_iff. exact Hs.
Qed.

Lemma replace_comma_two s1 s2 :
  nocomma s1 = true -> nocomma s2 = true ->
  replace_c ","%char " "%char (s1 ++ ","%char :: s2) = s1 ++ " "%char :: s2.
Proof.
  intros C1 C2. unfold replace_c. rewrite map_app. cbn [map].
  fold (replace_c ","%char " "%char s1). fold (replace_c ","%char " "%char s2).
  rewrite (replace_nocomma s1 C1), (replace_nocomma s2 C2), ceqb_refl. reflexivity.
Qed.

(* ---------- space-separated syntaxes: the scope clause ---------- *)

Definition scope_s (a : bytes) : bool :=
  match a with [] => false | c :: _ => negb (opchar c) end && no_space a.

Lemma scope_s_bound a : scope_s a = true -> bound_in_scope a.
Proof.
  unfold scope_s, bound_in_scope. destruct a as [|c a]; [discriminate|].
  rewrite andb_true_iff. intros [H1 H2]. apply negb_true_iff in H1.
  repeat split; auto. discriminate.
Qed.

Lemma op_word_s ops o a :
  ops_ok ops = true -> In o ops -> scope_s a = true ->
  no_space (o ++ a) = true /\ o ++ a <> [].
Proof.
  intros Hok Hin Hsc.
  assert (Hop : forallb opchar o = true).
  { pose proof (ops_ok_opchars _ Hok) as Hoc. rewrite forallb_forall in Hoc. auto. }
  unfold scope_s in Hsc. rewrite !andb_true_iff in Hsc. destruct Hsc as [Hh Hns].
  split.
  - rewrite no_space_app, (opchars_no_space o Hop), Hns. reflexivity.
  - destruct o; destruct a; simpl; try discriminate.
Qed.

(* ---------- any native syntax: [native_ok_q] by the four interval shapes ---------- *)

Lemma native_ok_q_cases (Q : bytes -> Prop) S st :
  (forall a ia b ib t v,
     bound_ok S a -> Q a -> bound_ok S b -> Q b -> s_vcmp S a b = Lt -> s_vok S v = true ->
     native_text st {| i_lower := Some (a, ia); i_upper := Some (b, ib); i_exact := None |} = Some t ->
     s_rcontains S t v = Some (lo_val ia (s_vcmp S v a) && up_val ib (s_vcmp S v b))) ->
  (forall a ia t v,
     bound_ok S a -> Q a -> s_vok S v = true ->
     native_text st {| i_lower := Some (a, ia); i_upper := None; i_exact := None |} = Some t ->
     s_rcontains S t v = Some (lo_val ia (s_vcmp S v a))) ->
  (forall b ib t v,
     bound_ok S b -> Q b -> s_vok S v = true ->
     native_text st {| i_lower := None; i_upper := Some (b, ib); i_exact := None |} = Some t ->
     s_rcontains S t v = Some (up_val ib (s_vcmp S v b))) ->
  (forall e t v,
     bound_ok S e -> Q e -> s_vok S v = true ->
     native_text st {| i_lower := None; i_upper := None; i_exact := Some e |} = Some t ->
     s_rcontains S t v = Some (eq_val (s_vcmp S v e))) ->
  native_ok_q Q S st.
Proof.
  intros H2 Hl Hu He i t v W Ht Hv.
  destruct i as [[[a ia]|] [[b ib]|] [e|]]; unfold iv_wf_q, bound_ok_q in W;
    cbn [i_exact i_lower i_upper] in W; try contradiction;
    unfold in_interval; cbn [i_exact i_lower i_upper].
  - destruct W as ((Ba & Qa) & (Bb & Qb) & L). apply (H2 a ia b ib t v); assumption.
  - destruct W as (Ba & Qa). rewrite (Hl a ia t v Ba Qa Hv Ht), andb_true_r. reflexivity.
  - destruct W as (Bb & Qb). rewrite (Hu b ib t v Bb Qb Hv Ht). reflexivity.
  - destruct W as (Be & Qe). rewrite (He e t v Be Qe Hv Ht). reflexivity.
Qed.
