(* Vers/NativeGem.v — C04 end to end for the VERS scheme "gem" (ecosystem gem, native
   syntax "<op><a>,<op><b>"): [native_ok] is discharged with the model's own gem range and
   version layers. *)
From Coq Require Import List Sorted Lia.
From Verif.Base Require Import Bytes BytesFacts GoNum Ord.
From Verif.Eco Require Import RangeCore RangeCoreFacts Iface VLayer VLayerFacts.
From Verif.Eco.Gem Require Version VersionFacts Range RangeFacts Entry.
From Verif.Vers Require Import Model FactsStr FactsC17 FactsSort FactsC16 FactsC04 NativeCommon.
From Verif.Gen Require Import VersDispatch.
From Verif Require Import Top.
Import ListNotations.
Local Open Scope N_scope.

Definition gem_S : scheme_ops := model_scheme_ops $"gem".

Lemma gem_eco : eco_or_none $"gem" = Some Gem.Entry.entry.
Proof. reflexivity. Qed.

(* the scope clause is the ecosystem's own: Gem.RangeFacts.bound_scope (non-empty, no leading
   operator character, no white space, no comma) *)
Notation gem_scope := Gem.RangeFacts.bound_scope.

Lemma gem_scope_parts a : gem_scope a = true ->
  a <> [] /\ no_space a = true /\ nocomma a = true /\ bound_in_scope a.
Proof.
  intros H. pose proof (Gem.RangeFacts.bound_scope_in_scope a H) as B.
  unfold Gem.RangeFacts.bound_scope in H.
  rewrite !andb_true_iff in H. destruct H as [[[H1 H2] H3] H4].
  split; [destruct a; discriminate|]. split; [exact H2|]. split; [exact H3|exact B].
Qed.

Section Oracle.
  Variable vok : bytes -> bool.
  Variable vcmp : bytes -> bytes -> comparison.
  Notation rc := (r_contains Gem.Entry.r vok vcmp).

  Lemma in_lo ia : In (lo_op ia) Gem.Range.gem_ops.
  Proof. destruct ia; simpl; tauto. Qed.
  Lemma in_up ib : In (up_op ib) Gem.Range.gem_ops.
  Proof. destruct ib; simpl; tauto. Qed.
  Lemma in_eq : In $"=" Gem.Range.gem_ops.
  Proof. simpl; tauto. Qed.

  Lemma gem_lo ia a v : gem_scope a = true -> vok a = true -> vok v = true ->
    rc (lo_op ia ++ a) v = Some (lo_val ia (vcmp v a)).
  Proof.
    intros Sa Ha Hv. cbn [r_contains Gem.Entry.r].
    rewrite (Gem.RangeFacts.gem_c02 vok vcmp _ a v (in_lo ia) Sa Ha Hv).
    destruct ia; cbn; destruct (vcmp v a); reflexivity.
  Qed.

  Lemma gem_up ib b v : gem_scope b = true -> vok b = true -> vok v = true ->
    rc (up_op ib ++ b) v = Some (up_val ib (vcmp v b)).
  Proof.
    intros Sb Hb Hv. cbn [r_contains Gem.Entry.r].
    rewrite (Gem.RangeFacts.gem_c02 vok vcmp _ b v (in_up ib) Sb Hb Hv).
    destruct ib; cbn; destruct (vcmp v b); reflexivity.
  Qed.

  Lemma gem_eq e v : gem_scope e = true -> vok e = true -> vok v = true ->
    rc ($"=" ++ e) v = Some (eq_val (vcmp v e)).
  Proof.
    intros Se He Hv. cbn [r_contains Gem.Entry.r].
    rewrite (Gem.RangeFacts.gem_c02 vok vcmp _ e v in_eq Se He Hv).
    cbn; destruct (vcmp v e); reflexivity.
  Qed.

  Lemma gem_word op a : In op Gem.Range.gem_ops -> gem_scope a = true ->
    op ++ a <> [] /\ no_space (op ++ a) = true /\ nocomma (op ++ a) = true.
  Proof.
    intros Hin Sa. destruct (gem_scope_parts a Sa) as (Hne & Hns & Hnc & _).
    destruct (Gem.RangeFacts.op_props op (or_intror Hin)) as (Hone & Hoc & _).
    repeat split.
    - destruct op; [contradiction|discriminate].
    - rewrite no_space_app, (opchars_no_space op Hoc), Hns. reflexivity.
    - rewrite nocomma_app, (opchars_nocomma op Hoc), Hnc. reflexivity.
  Qed.

  Lemma gem_two ia a ib b v :
    gem_scope a = true -> gem_scope b = true -> vok a = true -> vok b = true -> vok v = true ->
    rc (lo_op ia ++ a ++ $"," ++ up_op ib ++ b) v =
      Some (lo_val ia (vcmp v a) && up_val ib (vcmp v b)).
  Proof.
    intros Sa Sb Ha Hb Hv.
    destruct (gem_word _ a (in_lo ia) Sa) as (N1 & S1 & C1).
    destruct (gem_word _ b (in_up ib) Sb) as (N2 & S2 & C2).
    destruct (gem_scope_parts a Sa) as (_ & _ & _ & Ba).
    destruct (gem_scope_parts b Sb) as (_ & _ & _ & Bb).
    replace (lo_op ia ++ a ++ $"," ++ up_op ib ++ b)
      with ((lo_op ia ++ a) ++ $"," ++ (up_op ib ++ b)) by (rewrite <- !app_assoc; reflexivity).
    set (t := (lo_op ia ++ a) ++ $"," ++ (up_op ib ++ b)).
    assert (Tt : trim_space t = t) by (apply trim_space_two; assumption).
    assert (Nt : t <> []) by (unfold t; destruct (lo_op ia ++ a); [contradiction|discriminate]).
    assert (Sp : split_comma_trim t = [lo_op ia ++ a; up_op ib ++ b]).
    { apply (split_comma_trim_two (lo_op ia ++ a) (up_op ib ++ b)); assumption. }
    assert (PC : parse_constraints bytes (oracle_parse vok) Gem.Range.cfg [lo_op ia ++ a; up_op ib ++ b]
                 = Some [(lo_op ia, a); (up_op ib, b)]).
    { apply (parse_constraints_ok bytes (oracle_parse vok) Gem.Range.cfg [(lo_op ia, a); (up_op ib, b)]
               Gem.RangeFacts.ops_ok_gem).
      constructor; [|constructor; [|constructor]]; (split; [|split]); cbn [fst snd].
      - right. apply in_lo.
      - exact Ba.
      - exists a. unfold oracle_parse. rewrite Ha. reflexivity.
      - right. apply in_up.
      - exact Bb.
      - exists b. unfold oracle_parse. rewrite Hb. reflexivity. }
    cbn [r_contains Gem.Entry.r]. unfold Gem.Range.r_contains, Gem.Range.parse_range, RangeCore.parse_range.
    rewrite Tt, (match_nonempty _ _ Nt). cbn [rc_split Gem.Range.cfg]. rewrite Sp, PC, Hv.
    unfold Gem.Range.contains, Gem.Range.sat_constraint. cbn [r_cs forallb fst snd]. rewrite Ha, Hb.
    assert (P1 : beq (lo_op ia) Gem.Range.pess = false) by (destruct ia; reflexivity).
    assert (P2 : beq (up_op ib) Gem.Range.pess = false) by (destruct ib; reflexivity).
    rewrite P1, P2, andb_true_r.
    destruct ia, ib; cbn; destruct (vcmp v a); destruct (vcmp v b); reflexivity.
  Qed.
End Oracle.

Theorem gem_native_ok : native_ok_q (fun a => gem_scope a = true) gem_S NComma.
Proof.
  apply (text_native_ok NComma gem_scope (or_intror (or_introl eq_refl))
           (self_vok Gem.Entry.entry) (self_vcmp Gem.Entry.entry)
           (r_contains Gem.Entry.r (self_vok Gem.Entry.entry) (self_vcmp Gem.Entry.entry)));
    try reflexivity.
  - apply gem_lo.
  - apply gem_up.
  - apply gem_eq.
  - apply gem_two.
  - intros a Hs Hv. cbn [fb]. split; [exact Hs|split; [exact Hv|reflexivity]].
Qed.

Theorem gem_tpo : TotalPreorderOn (vok_text gem_S) (s_vcmp gem_S).
Proof.
  apply (self_tpo _ Gem.Version.parse_core Gem.Version.cmp_core Gem.Version.raw_orig
           (fun _ => True) (TPO_of_TP _ _ _ Gem.VersionFacts.cmp_tp) (fun _ _ _ => I)
           Gem.Entry.entry eq_refl).
Qed.

(* C04 for "vers:generic/...", end to end *)
Theorem C04_gem_end_to_end ctext version ncs :
  let S := model_scheme_ops $"gem" in
  let cl := split_c "|"%char ctext in
  valid (vers_text $"gem" ctext) <> None ->
  existsb is_star cl = false ->
  s_vok S version = true ->
  normalize S cl = Some ncs -> ncs <> [] ->
  Forall (fun c => gem_scope (snd c) = true) ncs ->
  pairwise_nonequiv S cl ->
  alternating None None (filter is_bound_c ncs) <> None ->
  model_vers (vers_text $"gem" ctext) version =
    b2v (VS.spec_contains (s_vcmp S) (spec_list ncs) version).
Proof.
  intros S cl Hv Hst Hok Hn Hne Hsc Hp Ha.
  unfold model_vers.
  rewrite (C04_vers_contains_q (fun a => gem_scope a = true) scheme_table style_table
             model_scheme_ops $"gem" ctext version
             {| sc_name := $"gem"; sc_eco := $"gem"; sc_pypi_gate := false |} NComma ncs
             eq_refl Hv Hst eq_refl eq_refl gem_native_ok Hsc Hok Hn Hne).
  - reflexivity.
  - split; [|exact Ha]. apply (normalize_sorted _ cl ncs gem_tpo Hp Hn).
Qed.

Print Assumptions gem_native_ok.
Print Assumptions gem_tpo.
Print Assumptions C04_gem_end_to_end.
