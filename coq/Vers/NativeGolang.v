(* Vers/NativeGolang.v — C04 end to end for the VERS scheme "golang" (native syntax: every bound
   written with a leading "v", comparators separated by a space): [native_ok] is discharged with the
   model's own golang range and version layers. *)
From Coq Require Import List Sorted Lia.
From Verif.Base Require Import Bytes BytesFacts GoNum Ord.
From Verif.Eco Require Import RangeCore RangeCoreFacts Iface VLayer VLayerFacts.
From Verif.Eco.Golang Require Version VersionFacts Range RangeFacts Entry.
From Verif.Vers Require Import Model FactsStr FactsC17 FactsSort FactsC16 FactsC04 NativeCommon.
From Verif.Gen Require Import VersDispatch.
From Verif Require Import Top.
Import ListNotations.
Local Open Scope N_scope.

Definition golang_S : scheme_ops := model_scheme_ops $"golang".

Lemma golang_eco : eco_or_none $"golang" = Some Golang.Entry.entry.
Proof. reflexivity. Qed.

(* NewVersion strips one leading "v": "v" ++ a and a have the same parsed core *)
Lemma ceqb_sym a b : ceqb a b = ceqb b a.
Proof. unfold ceqb. apply N.eqb_sym. Qed.

Lemma golang_parse_v a :
  a <> [] -> no_space a = true -> has_prefix $"v" a = false ->
  option_map v_core (Golang.Version.parse ("v"%char :: a)) =
  option_map v_core (Golang.Version.parse a).
Proof.
  intros Hne Hns Hp.
  assert (Hns' : no_space ("v"%char :: a) = true) by (simpl; exact Hns).
  unfold Golang.Version.parse, VLayer.parse.
  rewrite (trim_space_no_space _ Hns'), (trim_space_no_space _ Hns).
  destruct a as [|c r]; [contradiction|].
  cbn [has_prefix list_ascii_of_string] in Hp. rewrite andb_true_r in Hp.
  unfold Golang.Version.parse_core. rewrite ceqb_refl, (ceqb_sym c "v"%char), Hp.
  destruct (Golang.Version.parse_body (c :: r)); reflexivity.
Qed.

Lemma scope_s_ensure_v a : scope_s a = true -> scope_s (ensure_v a) = true.
Proof.
  intros H. unfold ensure_v. destruct a as [|c r]; [exact H|].
  destruct (has_prefix $"v" (c :: r)); [exact H|].
  unfold scope_s in *. rewrite andb_true_iff in *. destruct H as [_ H]. split; [reflexivity|].
  simpl. exact H.
Qed.

Theorem golang_native_ok : native_ok_q (fun a => scope_s a = true) golang_S NGolang.
Proof.
  apply (simple_native_ok Golang.Range.cfg NGolang scope_s (or_intror (or_intror eq_refl))
           Golang.RangeFacts.golang_ops_ok) with
    (vok := self_vok Golang.Entry.entry) (vcmp := self_vcmp Golang.Entry.entry);
    try reflexivity.
  - intros o H. simpl in H. simpl. intuition (subst; auto).
  - exact scope_s_bound.
  - intros o a Hin Hsc.
    destruct (op_word_s _ o a Golang.RangeFacts.golang_ops_ok Hin Hsc) as (Hns & Hne).
    apply Golang.RangeFacts.split_golang_word. exact Hns.
  - intros o1 a o2 b H1 H2 Sa Sb.
    destruct (op_word_s _ o1 a Golang.RangeFacts.golang_ops_ok H1 Sa) as (S1 & N1).
    destruct (op_word_s _ o2 b Golang.RangeFacts.golang_ops_ok H2 Sb) as (S2 & N2).
    cbn [sep_of].
    replace (o1 ++ a ++ $" " ++ o2 ++ b) with ((o1 ++ a) ++ $" " ++ (o2 ++ b))
      by (rewrite <- !app_assoc; reflexivity).
    split.
    + apply trim_space_two; assumption.
    + change ((o1 ++ a) ++ $" " ++ (o2 ++ b)) with ((o1 ++ a) ++ " "%char :: (o2 ++ b)).
      cbn [rc_split Golang.Range.cfg]. unfold split_golang.
      assert (C : contains_c " "%char ((o1 ++ a) ++ " "%char :: (o2 ++ b)) = true).
      { unfold contains_c. rewrite existsb_app. cbn [existsb]. rewrite ceqb_refl.
        rewrite orb_true_r. reflexivity. }
      rewrite C. apply (fields_two (o1 ++ a) (o2 ++ b)); assumption.
  - intros a Hs Hv. cbn [fb].
    split; [apply scope_s_ensure_v; exact Hs|].
    unfold ensure_v. destruct a as [|c r] eqn:Ea; [split; [exact Hv|reflexivity]|].
    destruct (has_prefix $"v" (c :: r)) eqn:Hp; [split; [exact Hv|reflexivity]|].
    rewrite <- Ea in *.
    assert (Hne : a <> []) by (rewrite Ea; discriminate).
    assert (Hns : no_space a = true).
    { unfold scope_s in Hs. rewrite Ea in Hs. rewrite andb_true_iff in Hs. rewrite Ea. apply Hs. }
    destruct (self_same_core _ Golang.Version.parse_core Golang.Version.cmp_core
                Golang.Version.raw_orig Golang.Entry.entry eq_refl ("v"%char :: a) a
                (golang_parse_v a Hne Hns Hp)) as [E1 E2].
    split; [rewrite E1; exact Hv|exact E2].
Qed.

Theorem golang_tpo : TotalPreorderOn (vok_text golang_S) (s_vcmp golang_S).
Proof.
  apply (self_tpo _ Golang.Version.parse_core Golang.Version.cmp_core Golang.Version.raw_orig
           (fun _ => True) (TPO_of_TP _ _ _ Golang.VersionFacts.cmp_tp) (fun _ _ _ => I)
           Golang.Entry.entry eq_refl).
Qed.

(* C04 for "vers:golang/...", end to end *)
Theorem C04_golang_end_to_end ctext version ncs :
  let S := model_scheme_ops $"golang" in
  let cl := split_c "|"%char ctext in
  valid (vers_text $"golang" ctext) <> None ->
  existsb is_star cl = false ->
  s_vok S version = true ->
  normalize S cl = Some ncs -> ncs <> [] ->
  Forall (fun c => scope_s (snd c) = true) ncs ->
  pairwise_nonequiv S cl ->
  alternating None None (filter is_bound_c ncs) <> None ->
  model_vers (vers_text $"golang" ctext) version =
    b2v (VS.spec_contains (s_vcmp S) (spec_list ncs) version).
Proof.
  intros S cl Hv Hst Hok Hn Hne Hsc Hp Ha.
  unfold model_vers.
  rewrite (C04_vers_contains_q (fun a => scope_s a = true) scheme_table style_table
             model_scheme_ops $"golang" ctext version
             {| sc_name := $"golang"; sc_eco := $"golang"; sc_pypi_gate := false |} NGolang ncs
             eq_refl Hv Hst eq_refl eq_refl golang_native_ok Hsc Hok Hn Hne).
  - reflexivity.
  - split; [|exact Ha]. apply (normalize_sorted _ cl ncs golang_tpo Hp Hn).
Qed.

Print Assumptions golang_native_ok.
Print Assumptions golang_tpo.
Print Assumptions C04_golang_end_to_end.
