(* Vers/NativeMaven.v — C04 end to end for the VERS scheme "maven" (native syntax: bracket
   intervals "[a,b]" "(a,b)" "[a,)" "(,b]" ... and "[v]"): [native_ok] is discharged with the model's
   own maven range and version layers.  Maven's Compare is not a total preorder on all parsed
   versions (finding F-maven-order-cycle), so the end-to-end statement keeps the sortedness of the
   normalized list as a hypothesis instead of deriving it from the uniqueness rule. *)
From Coq Require Import List Sorted Lia.
From Verif.Base Require Import Bytes BytesFacts GoNum Ord.
From Verif.Eco Require Import RangeCore RangeCoreFacts Iface VLayer VLayerFacts.
From Verif.Eco.Maven Require Version VersionFacts Range RangeFacts Entry.
From Verif.Vers Require Import Model FactsStr FactsC17 FactsSort FactsC16 FactsC04 NativeCommon.
From Verif.Gen Require Import VersDispatch.
From Verif Require Import Top.
Import ListNotations.
Local Open Scope N_scope.

Definition maven_S : scheme_ops := model_scheme_ops $"maven".

Lemma maven_eco : eco_or_none $"maven" = Some Maven.Entry.entry.
Proof. reflexivity. Qed.

(* the scope clause is the ecosystem's own: Maven.RangeFacts.bound_scope (non-empty, no comma,
   no closing bracket, no white space) *)
Notation maven_scope := Maven.RangeFacts.bound_scope.

Section Oracle.
  Variable vok : bytes -> bool.
  Variable vcmp : bytes -> bytes -> comparison.
  Notation rc := (r_contains Maven.Entry.r vok vcmp).

  Definition lbr (inc : bool) : bytes := if inc then $"[" else $"(".
  Definition rbr (inc : bool) : bytes := if inc then $"]" else $")".

  Lemma maven_two ia a ib b v :
    maven_scope a = true -> maven_scope b = true -> vok a = true -> vok b = true -> vok v = true ->
    rc (lbr ia ++ a ++ $"," ++ b ++ rbr ib) v =
      Some (lo_val ia (vcmp v a) && up_val ib (vcmp v b)).
  Proof.
    intros Sa Sb Ha Hb Hv. destruct ia, ib; cbn [lbr rbr].
    - rewrite (Maven.RangeFacts.c05_closed vok vcmp a b v Sa Sb Ha Hb Hv).
      destruct (vcmp v a); destruct (vcmp v b); reflexivity.
    - rewrite (Maven.RangeFacts.c05_closed_open vok vcmp a b v Sa Sb Ha Hb Hv).
      destruct (vcmp v a); destruct (vcmp v b); reflexivity.
    - rewrite (Maven.RangeFacts.c05_open_closed vok vcmp a b v Sa Sb Ha Hb Hv).
      destruct (vcmp v a); destruct (vcmp v b); reflexivity.
    - rewrite (Maven.RangeFacts.c05_open vok vcmp a b v Sa Sb Ha Hb Hv).
      destruct (vcmp v a); destruct (vcmp v b); reflexivity.
  Qed.

  Lemma maven_lower ia a v : maven_scope a = true -> vok a = true -> vok v = true ->
    rc (lbr ia ++ a ++ $",)") v = Some (lo_val ia (vcmp v a)).
  Proof.
    intros Sa Ha Hv. destruct ia; cbn [lbr].
    - rewrite (Maven.RangeFacts.c05_at_least vok vcmp a v Sa Ha Hv). destruct (vcmp v a); reflexivity.
    - pose proof (Maven.RangeFacts.c05_lower_only vok vcmp "("%char ")"%char [] a [] [] v
                    eq_refl eq_refl eq_refl eq_refl eq_refl Sa Ha Hv) as H.
      cbn [app] in H. rewrite app_nil_r in H.
      replace ($"(" ++ a ++ $",)") with ("("%char :: a ++ [","%char; ")"%char]) by reflexivity.
      rewrite H. cbn. destruct (vcmp v a); reflexivity.
  Qed.

  Lemma maven_upper ib b v : maven_scope b = true -> vok b = true -> vok v = true ->
    rc ($"(," ++ b ++ rbr ib) v = Some (up_val ib (vcmp v b)).
  Proof.
    intros Sb Hb Hv. destruct ib; cbn [rbr].
    - rewrite (Maven.RangeFacts.c05_at_most vok vcmp b v Sb Hb Hv). destruct (vcmp v b); reflexivity.
    - pose proof (Maven.RangeFacts.c05_upper_only vok vcmp "("%char ")"%char [] [] b [] v
                    eq_refl eq_refl eq_refl eq_refl eq_refl Sb Hb Hv) as H.
      cbn [app] in H. rewrite app_nil_r in H.
      replace ($"(," ++ b ++ $")") with ("("%char :: ","%char :: b ++ [")"%char]) by reflexivity.
      rewrite H. cbn. destruct (vcmp v b); reflexivity.
  Qed.

  Lemma maven_exact e v : maven_scope e = true -> vok e = true -> vok v = true ->
    rc ($"[" ++ e ++ $"]") v = Some (eq_val (vcmp v e)).
  Proof.
    intros Se He Hv. rewrite (Maven.RangeFacts.c05_pinned vok vcmp e v Se He Hv).
    destruct (vcmp v e); reflexivity.
  Qed.
End Oracle.

Theorem maven_native_ok : native_ok_q (fun a => maven_scope a = true) maven_S NMaven.
Proof.
  apply native_ok_q_cases.
  - intros a ia b ib t v (Ha & _) Sa (Hb & _) Sb _ Hv Ht.
    unfold native_text in Ht. cbn [i_exact i_lower i_upper] in Ht. injection Ht as <-.
    apply (maven_two (self_vok Maven.Entry.entry) (self_vcmp Maven.Entry.entry)); assumption.
  - intros a ia t v (Ha & _) Sa Hv Ht.
    unfold native_text in Ht. cbn [i_exact i_lower i_upper] in Ht. injection Ht as <-.
    apply (maven_lower (self_vok Maven.Entry.entry) (self_vcmp Maven.Entry.entry)); assumption.
  - intros b ib t v (Hb & _) Sb Hv Ht.
    unfold native_text in Ht. cbn [i_exact i_lower i_upper] in Ht. injection Ht as <-.
    apply (maven_upper (self_vok Maven.Entry.entry) (self_vcmp Maven.Entry.entry)); assumption.
  - intros e t v (He & _) Se Hv Ht.
    unfold native_text in Ht. cbn [i_exact i_lower i_upper] in Ht. injection Ht as <-.
    apply (maven_exact (self_vok Maven.Entry.entry) (self_vcmp Maven.Entry.entry)); assumption.
Qed.

(* C04 for "vers:maven/...", end to end (sortedness of the normalized list kept as a hypothesis) *)
Theorem C04_maven_end_to_end ctext version ncs :
  let S := model_scheme_ops $"maven" in
  let cl := split_c "|"%char ctext in
  valid (vers_text $"maven" ctext) <> None ->
  existsb is_star cl = false ->
  s_vok S version = true ->
  normalize S cl = Some ncs -> ncs <> [] ->
  Forall (fun c => maven_scope (snd c) = true) ncs ->
  sorted_alternating S ncs ->
  model_vers (vers_text $"maven" ctext) version =
    b2v (VS.spec_contains (s_vcmp S) (spec_list ncs) version).
Proof.
  intros S cl Hv Hst Hok Hn Hne Hsc Hsa.
  unfold model_vers.
  rewrite (C04_vers_contains_q (fun a => maven_scope a = true) scheme_table style_table
             model_scheme_ops $"maven" ctext version
             {| sc_name := $"maven"; sc_eco := $"maven"; sc_pypi_gate := false |} NMaven ncs
             eq_refl Hv Hst eq_refl eq_refl maven_native_ok Hsc Hok Hn Hne Hsa).
  reflexivity.
Qed.

Print Assumptions maven_native_ok.
Print Assumptions C04_maven_end_to_end.
