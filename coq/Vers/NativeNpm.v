(* Vers/NativeNpm.v — C04 end to end for the VERS scheme "npm" (ecosystem npm, native
   syntax "<op><a> <op><b>"): [native_ok] is discharged with the model's own npm range and
   version layers. *)
From Coq Require Import List Sorted Lia.
From Verif.Base Require Import Bytes BytesFacts GoNum Ord.
From Verif.Eco Require Import RangeCore RangeCoreFacts Iface VLayer VLayerFacts.
From Verif.Eco.Npm Require Version VersionFacts Range RangeFacts Entry.
From Verif.Vers Require Import Model FactsStr FactsC17 FactsSort FactsC16 FactsC04 NativeCommon.
From Verif.Gen Require Import VersDispatch.
From Verif Require Import Top.
Import ListNotations.
Local Open Scope N_scope.

Definition npm_S : scheme_ops := model_scheme_ops $"npm".

Lemma npm_eco : eco_or_none $"npm" = Some Npm.Entry.entry.
Proof. reflexivity. Qed.

(* the scope clause is the ecosystem's own: Npm.RangeFacts.bound_scope (plain text — no white
   space, none of @#$%&!()| —, no leading operator character, no x/X component, not "*") *)
Notation npm_scope := Npm.RangeFacts.bound_scope.

Section Oracle.
  Variable vok : bytes -> bool.
  Variable vcmp : bytes -> bytes -> comparison.
  Notation rc := (r_contains Npm.Entry.r vok vcmp).

  Lemma in_lo ia : In (lo_op ia) Npm.RangeFacts.ops5.
  Proof. destruct ia; simpl; tauto. Qed.
  Lemma in_up ib : In (up_op ib) Npm.RangeFacts.ops5.
  Proof. destruct ib; simpl; tauto. Qed.
  Lemma in_eq : In $"=" Npm.RangeFacts.ops5.
  Proof. simpl; tauto. Qed.

  Lemma npm_lo ia a v : npm_scope a = true -> vok a = true -> vok v = true ->
    rc (lo_op ia ++ a) v = Some (lo_val ia (vcmp v a)).
  Proof.
    intros Sa Ha Hv. rewrite (Npm.RangeFacts.npm_c02 vok vcmp _ a v (in_lo ia) Sa Ha Hv).
    destruct ia; cbn; destruct (vcmp v a); reflexivity.
  Qed.

  Lemma npm_up ib b v : npm_scope b = true -> vok b = true -> vok v = true ->
    rc (up_op ib ++ b) v = Some (up_val ib (vcmp v b)).
  Proof.
    intros Sb Hb Hv. rewrite (Npm.RangeFacts.npm_c02 vok vcmp _ b v (in_up ib) Sb Hb Hv).
    destruct ib; cbn; destruct (vcmp v b); reflexivity.
  Qed.

  Lemma npm_eq e v : npm_scope e = true -> vok e = true -> vok v = true ->
    rc ($"=" ++ e) v = Some (eq_val (vcmp v e)).
  Proof.
    intros Se He Hv. rewrite (Npm.RangeFacts.npm_c02 vok vcmp _ e v in_eq Se He Hv).
    cbn; destruct (vcmp v e); reflexivity.
  Qed.

  (* from the interface-level equation back to the parsed range *)
  Lemma rc_inv t v b : vok v = true -> rc t v = Some b ->
    exists r, Npm.Range.parse_range vok t = Some r /\ Npm.Range.contains vok vcmp r v = b.
  Proof.
    intros Hv. cbn [r_contains Npm.Entry.r].
    destruct (Npm.Range.parse_range vok t) as [r|]; [|discriminate].
    rewrite Hv. intros H. injection H as <-. exists r. split; reflexivity.
  Qed.

  Lemma npm_two ia a ib b v :
    npm_scope a = true -> npm_scope b = true -> vok a = true -> vok b = true -> vok v = true ->
    rc (lo_op ia ++ a ++ $" " ++ up_op ib ++ b) v =
      Some (lo_val ia (vcmp v a) && up_val ib (vcmp v b)).
  Proof.
    intros Sa Sb Ha Hb Hv.
    destruct (rc_inv _ v _ Hv (npm_lo ia a v Sa Ha Hv)) as (r1 & R1 & C1).
    destruct (rc_inv _ v _ Hv (npm_up ib b v Sb Hb Hv)) as (r2 & R2 & C2).
    pose proof (Npm.RangeFacts.bound_scope_facts a Sa) as (Pa & _).
    pose proof (Npm.RangeFacts.bound_scope_facts b Sb) as (Pb & _).
    destruct (Npm.RangeFacts.and_inter vok vcmp (lo_op ia ++ a) (up_op ib ++ b) r1 r2) as (r & Hr & Hc).
    - rewrite Npm.RangeFacts.plain_app, (Npm.RangeFacts.ops5_plain _ (in_lo ia)), Pa. reflexivity.
    - rewrite Npm.RangeFacts.plain_app, (Npm.RangeFacts.ops5_plain _ (in_up ib)), Pb. reflexivity.
    - destruct ia; reflexivity.
    - destruct ib; reflexivity.
    - exact R1.
    - exact R2.
    - replace (lo_op ia ++ a ++ $" " ++ up_op ib ++ b)
        with (Npm.RangeFacts.sp (lo_op ia ++ a) (up_op ib ++ b))
        by (unfold Npm.RangeFacts.sp; rewrite <- !app_assoc; reflexivity).
      cbn [r_contains Npm.Entry.r]. rewrite Hr, Hv, Hc, C1, C2. reflexivity.
  Qed.
End Oracle.

Theorem npm_native_ok : native_ok_q (fun a => npm_scope a = true) npm_S NSpace.
Proof.
  apply (text_native_ok NSpace npm_scope (or_introl eq_refl)
           (self_vok Npm.Entry.entry) (self_vcmp Npm.Entry.entry)
           (r_contains Npm.Entry.r (self_vok Npm.Entry.entry) (self_vcmp Npm.Entry.entry)));
    try reflexivity.
  - apply npm_lo.
  - apply npm_up.
  - apply npm_eq.
  - apply npm_two.
  - intros a Hs Hv. cbn [fb]. split; [exact Hs|split; [exact Hv|reflexivity]].
Qed.

Theorem npm_tpo : TotalPreorderOn (vok_text npm_S) (s_vcmp npm_S).
Proof.
  apply (self_tpo _ Npm.Version.parse_core Npm.Version.cmp_core Npm.Version.raw_orig
           (fun _ => True) (TPO_of_TP _ _ _ Npm.VersionFacts.cmp_tp) (fun _ _ _ => I)
           Npm.Entry.entry eq_refl).
Qed.

(* C04 for "vers:generic/...", end to end *)
Theorem C04_npm_end_to_end ctext version ncs :
  let S := model_scheme_ops $"npm" in
  let cl := split_c "|"%char ctext in
  valid (vers_text $"npm" ctext) <> None ->
  existsb is_star cl = false ->
  s_vok S version = true ->
  normalize S cl = Some ncs -> ncs <> [] ->
  Forall (fun c => npm_scope (snd c) = true) ncs ->
  pairwise_nonequiv S cl ->
  alternating None None (filter is_bound_c ncs) <> None ->
  model_vers (vers_text $"npm" ctext) version =
    b2v (VS.spec_contains (s_vcmp S) (spec_list ncs) version).
Proof.
  intros S cl Hv Hst Hok Hn Hne Hsc Hp Ha.
  unfold model_vers.
  rewrite (C04_vers_contains_q (fun a => npm_scope a = true) scheme_table style_table
             model_scheme_ops $"npm" ctext version
             {| sc_name := $"npm"; sc_eco := $"npm"; sc_pypi_gate := false |} NSpace ncs
             eq_refl Hv Hst eq_refl eq_refl npm_native_ok Hsc Hok Hn Hne).
  - reflexivity.
  - split; [|exact Ha]. apply (normalize_sorted _ cl ncs npm_tpo Hp Hn).
Qed.

Print Assumptions npm_native_ok.
Print Assumptions npm_tpo.
Print Assumptions C04_npm_end_to_end.
