(* Vers/NativeNuget.v — C04 end to end for the VERS scheme "nuget" (native syntax: "[v]", "[a,)",
   ">a,", "(,b]", "<b,", "<op>a,<op>b"): [native_ok] is discharged with the model's own nuget range
   and version layers. *)
From Coq Require Import List Sorted Lia.
From Verif.Base Require Import Bytes BytesFacts GoNum Ord.
From Verif.Eco Require Import RangeCore RangeCoreFacts Iface VLayer VLayerFacts.
From Verif.Eco.Nuget Require Version VersionFacts Range RangeFacts Entry.
From Verif.Vers Require Import Model FactsStr FactsC17 FactsSort FactsC16 FactsC04 NativeCommon.
From Verif.Gen Require Import VersDispatch.
From Verif Require Import Top.
Import ListNotations.
Local Open Scope N_scope.

Definition nuget_S : scheme_ops := model_scheme_ops $"nuget".

Lemma nuget_eco : eco_or_none $"nuget" = Some Nuget.Entry.entry.
Proof. reflexivity. Qed.

(* the scope clause is the ecosystem's own: Nuget.RangeFacts.bound_scope (non-empty, no white
   space, comma or bracket, no leading operator character) *)
Notation nuget_scope := Nuget.RangeFacts.bound_scope.

Section Oracle.
  Variable vok : bytes -> bool.
  Variable vcmp : bytes -> bytes -> comparison.
  Notation rc := (r_contains Nuget.Entry.r vok vcmp).

  Lemma in_lo ia : In (lo_op ia) Nuget.Range.nuget_ops.
  Proof. destruct ia; simpl; tauto. Qed.
  Lemma in_up ib : In (up_op ib) Nuget.Range.nuget_ops.
  Proof. destruct ib; simpl; tauto. Qed.

  (* ">a,"  and  "[a,)" *)
  Lemma nuget_lower (ia : bool) a v : nuget_scope a = true -> vok a = true -> vok v = true ->
    rc (if ia then $"[" ++ a ++ $",)" else $">" ++ a ++ $",") v = Some (lo_val ia (vcmp v a)).
  Proof.
    intros Sa Ha Hv. destruct ia.
    - pose proof (Nuget.RangeFacts.nuget_c05_lower_only vok vcmp true false a v eq_refl Sa Ha Hv) as H.
      unfold Nuget.RangeFacts.brk in H. cbn [Nuget.RangeFacts.lo_c Nuget.RangeFacts.hi_c] in H.
      replace ($"[" ++ a ++ $",)") with ("["%char :: (a ++ $",") ++ [")"%char])
        by (cbn [app list_ascii_of_string]; rewrite <- app_assoc; reflexivity).
      rewrite H. cbn. destruct (vcmp v a); reflexivity.
    - rewrite (Nuget.RangeFacts.nuget_c02 vok vcmp $">" a v (in_lo false) Sa Ha Hv).
      cbn. destruct (vcmp v a); reflexivity.
  Qed.

  (* "<b,"  and  "(,b]" *)
  Lemma nuget_upper (ib : bool) b v : nuget_scope b = true -> vok b = true -> vok v = true ->
    rc (if ib then $"(," ++ b ++ $"]" else $"<" ++ b ++ $",") v = Some (up_val ib (vcmp v b)).
  Proof.
    intros Sb Hb Hv. destruct ib.
    - pose proof (Nuget.RangeFacts.nuget_c05_upper_only vok vcmp false true b v eq_refl Sb Hb Hv) as H.
      unfold Nuget.RangeFacts.brk in H. cbn [Nuget.RangeFacts.lo_c Nuget.RangeFacts.hi_c] in H.
      change ($"(," ++ b ++ $"]") with ("("%char :: (","%char :: b) ++ ["]"%char]).
      rewrite H. cbn. destruct (vcmp v b); reflexivity.
    - rewrite (Nuget.RangeFacts.nuget_c02 vok vcmp $"<" b v (in_up false) Sb Hb Hv).
      cbn. destruct (vcmp v b); reflexivity.
  Qed.

  (* "[v]" *)
  Lemma nuget_exact e v : nuget_scope e = true -> vok e = true -> vok v = true ->
    rc ($"[" ++ e ++ $"]") v = Some (eq_val (vcmp v e)).
  Proof.
    intros Se He Hv.
    pose proof (Nuget.RangeFacts.nuget_c05_exact vok vcmp e v Se He Hv) as H.
    unfold Nuget.RangeFacts.brk in H.
    change ($"[" ++ e ++ $"]") with ("["%char :: e ++ ["]"%char]).
    rewrite H. cbn. destruct (vcmp v e); reflexivity.
  Qed.

  (* "<op>a,<op>b" *)
  Lemma nuget_two ia a ib b v :
    nuget_scope a = true -> nuget_scope b = true -> vok a = true -> vok b = true -> vok v = true ->
    rc (lo_op ia ++ a ++ $"," ++ up_op ib ++ b) v =
      Some (lo_val ia (vcmp v a) && up_val ib (vcmp v b)).
  Proof.
    intros Sa Sb Ha Hb Hv.
    pose proof (Nuget.RangeFacts.nuget_c02_and vok vcmp
                  [Some (lo_op ia, a); Some (up_op ib, b)] v) as H.
    cbn [map Nuget.RangeFacts.itext join flat_map Nuget.RangeFacts.inorm app] in H.
    replace (lo_op ia ++ a ++ $"," ++ up_op ib ++ b)
      with ((lo_op ia ++ a) ++ $"," ++ up_op ib ++ b) by (rewrite <- !app_assoc; reflexivity).
    rewrite H; clear H.
    - destruct ia, ib; cbn; destruct (vcmp v a); destruct (vcmp v b); reflexivity.
    - simpl. lia.
    - constructor; [|constructor; [|constructor]]; simpl.
      + split; [right; apply in_lo|split; assumption].
      + split; [right; apply in_up|split; assumption].
    - destruct ia; discriminate.
    - exact Hv.
  Qed.
End Oracle.

Theorem nuget_native_ok : native_ok_q (fun a => nuget_scope a = true) nuget_S NNuget.
Proof.
  apply native_ok_q_cases.
  - intros a ia b ib t v (Ha & _) Sa (Hb & _) Sb _ Hv Ht.
    unfold native_text in Ht. cbn [i_exact i_lower i_upper] in Ht. injection Ht as <-.
    apply (nuget_two (self_vok Nuget.Entry.entry) (self_vcmp Nuget.Entry.entry)); assumption.
  - intros a ia t v (Ha & _) Sa Hv Ht.
    unfold native_text in Ht. cbn [i_exact i_lower i_upper] in Ht. injection Ht as <-.
    apply (nuget_lower (self_vok Nuget.Entry.entry) (self_vcmp Nuget.Entry.entry)); assumption.
  - intros b ib t v (Hb & _) Sb Hv Ht.
    unfold native_text in Ht. cbn [i_exact i_lower i_upper] in Ht. injection Ht as <-.
    apply (nuget_upper (self_vok Nuget.Entry.entry) (self_vcmp Nuget.Entry.entry)); assumption.
  - intros e t v (He & _) Se Hv Ht.
    unfold native_text in Ht. cbn [i_exact i_lower i_upper] in Ht. injection Ht as <-.
    apply (nuget_exact (self_vok Nuget.Entry.entry) (self_vcmp Nuget.Entry.entry)); assumption.
Qed.

Theorem nuget_tpo : TotalPreorderOn (vok_text nuget_S) (s_vcmp nuget_S).
Proof.
  apply (self_tpo _ Nuget.Version.parse_core Nuget.Version.cmp_core Nuget.Version.raw_orig
           (fun _ => True) (TPO_of_TP _ _ _ Nuget.VersionFacts.cmp_tp) (fun _ _ _ => I)
           Nuget.Entry.entry eq_refl).
Qed.

(* C04 for "vers:nuget/...", end to end *)
Theorem C04_nuget_end_to_end ctext version ncs :
  let S := model_scheme_ops $"nuget" in
  let cl := split_c "|"%char ctext in
  valid (vers_text $"nuget" ctext) <> None ->
  existsb is_star cl = false ->
  s_vok S version = true ->
  normalize S cl = Some ncs -> ncs <> [] ->
  Forall (fun c => nuget_scope (snd c) = true) ncs ->
  pairwise_nonequiv S cl ->
  alternating None None (filter is_bound_c ncs) <> None ->
  model_vers (vers_text $"nuget" ctext) version =
    b2v (VS.spec_contains (s_vcmp S) (spec_list ncs) version).
Proof.
  intros S cl Hv Hst Hok Hn Hne Hsc Hp Ha.
  unfold model_vers.
  rewrite (C04_vers_contains_q (fun a => nuget_scope a = true) scheme_table style_table
             model_scheme_ops $"nuget" ctext version
             {| sc_name := $"nuget"; sc_eco := $"nuget"; sc_pypi_gate := false |} NNuget ncs
             eq_refl Hv Hst eq_refl eq_refl nuget_native_ok Hsc Hok Hn Hne).
  - reflexivity.
  - split; [|exact Ha]. apply (normalize_sorted _ cl ncs nuget_tpo Hp Hn).
Qed.

Print Assumptions nuget_native_ok.
Print Assumptions nuget_tpo.
Print Assumptions C04_nuget_end_to_end.
