(* Vers/NativePypi.v — C04 end to end for the VERS scheme "pypi" (native syntax "==v",
   "<op>a", "<op>a, <op>b"; evaluated behind the PEP 440 pre-release gate): [native_ok] is discharged
   with the model's own pypi range and version layers. *)
From Coq Require Import List Sorted Lia.
From Verif.Base Require Import Bytes BytesFacts GoNum Ord.
From Verif.Eco Require Import RangeCore RangeCoreFacts Iface VLayer VLayerFacts.
From Verif.Eco.Pypi Require Version VersionFacts Range RangeFacts Entry.
From Verif.Vers Require Import Model FactsStr FactsC17 FactsSort FactsC16 FactsC04 NativeCommon.
From Verif.Gen Require Import VersDispatch.
From Verif Require Import Top.
Import ListNotations.
Local Open Scope N_scope.

Definition pypi_S : scheme_ops := model_scheme_ops $"pypi".

Lemma pypi_eco : eco_or_none $"pypi" = Some Pypi.Entry.entry.
Proof. reflexivity. Qed.

(* the scope clause: the ecosystem's own Pypi.RangeFacts.in_scope (non-empty, no white space, no
   comma, no leading operator character) and not a ".*" wildcard *)
Definition pypi_scope (a : bytes) : bool :=
  Pypi.RangeFacts.in_scope a && negb (has_suffix $".*" a).

Lemma pypi_scope_parts a : pypi_scope a = true ->
  Pypi.RangeFacts.in_scope a = true /\ has_suffix $".*" a = false.
Proof.
  unfold pypi_scope. rewrite andb_true_iff, negb_true_iff. tauto.
Qed.

Section Oracle.
  Variable vok : bytes -> bool.
  Variable vcmp : bytes -> bytes -> comparison.
  Notation rc := (r_contains Pypi.Entry.r vok vcmp).

  Lemma in_lo ia : In (lo_op ia) Pypi.RangeFacts.cmp_ops.
  Proof. destruct ia; simpl; tauto. Qed.
  Lemma in_up ib : In (up_op ib) Pypi.RangeFacts.cmp_ops.
  Proof. destruct ib; simpl; tauto. Qed.
  Lemma in_eq : In $"==" Pypi.RangeFacts.cmp_ops.
  Proof. simpl; tauto. Qed.
  Lemma cmp_ops_pypi op : In op Pypi.RangeFacts.cmp_ops -> In op Pypi.Range.pypi_ops.
  Proof. intros H. simpl in H. simpl. tauto. Qed.

  Lemma pypi_lo ia a v : pypi_scope a = true -> vok a = true -> vok v = true ->
    rc (lo_op ia ++ a) v = Some (lo_val ia (vcmp v a)).
  Proof.
    intros Sa Ha Hv. destruct (pypi_scope_parts a Sa) as [S1 S2].
    rewrite (Pypi.RangeFacts.c02_comparator vok vcmp _ a v (in_lo ia) S1 S2 Ha Hv).
    destruct ia; cbn; destruct (vcmp v a); reflexivity.
  Qed.

  Lemma pypi_up ib b v : pypi_scope b = true -> vok b = true -> vok v = true ->
    rc (up_op ib ++ b) v = Some (up_val ib (vcmp v b)).
  Proof.
    intros Sb Hb Hv. destruct (pypi_scope_parts b Sb) as [S1 S2].
    rewrite (Pypi.RangeFacts.c02_comparator vok vcmp _ b v (in_up ib) S1 S2 Hb Hv).
    destruct ib; cbn; destruct (vcmp v b); reflexivity.
  Qed.

  Lemma pypi_exact e v : pypi_scope e = true -> vok e = true -> vok v = true ->
    rc ($"==" ++ e) v = Some (eq_val (vcmp v e)).
  Proof.
    intros Se He Hv. destruct (pypi_scope_parts e Se) as [S1 S2].
    rewrite (Pypi.RangeFacts.c02_comparator vok vcmp _ e v in_eq S1 S2 He Hv).
    cbn; destruct (vcmp v e); reflexivity.
  Qed.

  (* parseSingleConstraint trims its argument *)
  Lemma parse_single_sp s :
    Pypi.Range.parse_single vok (" "%char :: s) = Pypi.Range.parse_single vok s.
  Proof.
    assert (E : trim_space (" "%char :: s) = trim_space s) by reflexivity.
    unfold Pypi.Range.parse_single. rewrite E. reflexivity.
  Qed.

  Lemma parse_single_plain op a :
    In op [ $">="; $">"; $"<="; $"<" ] -> Pypi.RangeFacts.in_scope a = true ->
    Pypi.Range.parse_single vok (op ++ a) = Some [Pypi.Range.plain op a].
  Proof.
    intros Hin Hs.
    assert (Hin' : In op Pypi.Range.pypi_ops) by (simpl in Hin; simpl; tauto).
    rewrite (Pypi.RangeFacts.parse_single_op vok op a Hin' Hs).
    simpl in Hin. repeat (destruct Hin as [<-|Hin]; [reflexivity|]). contradiction.
  Qed.

  Lemma pypi_two ia a ib b v :
    pypi_scope a = true -> pypi_scope b = true -> vok a = true -> vok b = true -> vok v = true ->
    rc (lo_op ia ++ a ++ $", " ++ up_op ib ++ b) v =
      Some (lo_val ia (vcmp v a) && up_val ib (vcmp v b)).
  Proof.
    intros Sa Sb Ha Hb Hv.
    destruct (pypi_scope_parts a Sa) as [Ia _]. destruct (pypi_scope_parts b Sb) as [Ib _].
    destruct (Pypi.RangeFacts.op_text_facts _ a (cmp_ops_pypi _ (in_lo ia)) Ia) as (N1 & S1 & C1).
    destruct (Pypi.RangeFacts.op_text_facts _ b (cmp_ops_pypi _ (in_up ib)) Ib) as (N2 & S2 & C2).
    replace (lo_op ia ++ a ++ $", " ++ up_op ib ++ b)
      with ((lo_op ia ++ a) ++ $", " ++ (up_op ib ++ b)) by (rewrite <- !app_assoc; reflexivity).
    set (t := (lo_op ia ++ a) ++ $", " ++ (up_op ib ++ b)).
    assert (Tt : trim_space t = t) by (apply trim_space_two; assumption).
    assert (Nt : t <> []) by (unfold t; destruct (lo_op ia ++ a); [contradiction|discriminate]).
    assert (Sp : split_c ","%char t = [lo_op ia ++ a; " "%char :: (up_op ib ++ b)]).
    { unfold t. change ($", " ++ (up_op ib ++ b)) with (","%char :: " "%char :: (up_op ib ++ b)).
      apply split_c_two; [exact C1|].
      unfold contains_c in *. cbn [existsb]. rewrite C2. reflexivity. }
    assert (PR : Pypi.Range.parse_range vok t =
                 Some {| Pypi.Range.r_cs := [Pypi.Range.plain (lo_op ia) a; Pypi.Range.plain (up_op ib) b];
                         Pypi.Range.r_orig := t |}).
    { unfold Pypi.Range.parse_range. rewrite Tt. destruct t as [|x t'] eqn:Et; [congruence|].
      rewrite <- Et in *. unfold Pypi.Range.parse_specifier. rewrite Sp.
      cbn [Pypi.Range.parse_parts]. rewrite parse_single_sp.
      rewrite (parse_single_plain (lo_op ia) a) by (destruct ia; simpl; tauto || exact Ia).
      rewrite (parse_single_plain (up_op ib) b) by (destruct ib; simpl; tauto || exact Ib).
      reflexivity. }
    rewrite (Pypi.RangeFacts.rcontains_of vok vcmp _ _ v PR Hv).
    unfold Pypi.Range.contains, Pypi.Range.matches. cbn [Pypi.Range.r_cs forallb].
    unfold Pypi.Range.plain. cbn [Pypi.Range.c_op Pypi.Range.c_ver]. rewrite Ha, Hb, andb_true_r.
    destruct ia, ib; cbn; destruct (vcmp v a); destruct (vcmp v b); reflexivity.
  Qed.
End Oracle.

Theorem pypi_native_ok : native_ok_q (fun a => pypi_scope a = true) pypi_S NPypi.
Proof.
  apply native_ok_q_cases.
  - intros a ia b ib t v (Ha & _) Sa (Hb & _) Sb _ Hv Ht.
    unfold native_text in Ht. cbn [i_exact i_lower i_upper] in Ht. injection Ht as <-.
    apply (pypi_two (self_vok Pypi.Entry.entry) (self_vcmp Pypi.Entry.entry)); assumption.
  - intros a ia t v (Ha & _) Sa Hv Ht.
    unfold native_text in Ht. cbn [i_exact i_lower i_upper] in Ht. injection Ht as <-.
    apply (pypi_lo (self_vok Pypi.Entry.entry) (self_vcmp Pypi.Entry.entry)); assumption.
  - intros b ib t v (Hb & _) Sb Hv Ht.
    unfold native_text in Ht. cbn [i_exact i_lower i_upper] in Ht. injection Ht as <-.
    apply (pypi_up (self_vok Pypi.Entry.entry) (self_vcmp Pypi.Entry.entry)); assumption.
  - intros e t v (He & _) Se Hv Ht.
    unfold native_text in Ht. cbn [i_exact i_lower i_upper] in Ht. injection Ht as <-.
    apply (pypi_exact (self_vok Pypi.Entry.entry) (self_vcmp Pypi.Entry.entry)); assumption.
Qed.

Theorem pypi_tpo : TotalPreorderOn (vok_text pypi_S) (s_vcmp pypi_S).
Proof.
  apply (self_tpo _ Pypi.Version.parse_core Pypi.Version.cmp_core Pypi.Version.raw_orig
           (fun _ => True) (TPO_of_TP _ _ _ Pypi.VersionFacts.cmp_tp) (fun _ _ _ => I)
           Pypi.Entry.entry eq_refl).
Qed.

(* C04 for "vers:pypi/...", end to end, behind the pre-release gate *)
Theorem C04_pypi_end_to_end ctext version ncs :
  let S := model_scheme_ops $"pypi" in
  let cl := split_c "|"%char ctext in
  valid (vers_text $"pypi" ctext) <> None ->
  existsb is_star cl = false ->
  s_vok S version = true ->
  normalize S cl = Some ncs -> ncs <> [] ->
  Forall (fun c => pypi_scope (snd c) = true) ncs ->
  pairwise_nonequiv S cl ->
  alternating None None (filter is_bound_c ncs) <> None ->
  model_vers (vers_text $"pypi" ctext) version =
    if pypi_is_prerelease (s_vshow S version) && negb (pypi_names_pre cl) then VFalse
    else b2v (VS.spec_contains (s_vcmp S) (spec_list ncs) version).
Proof.
  intros S cl Hv Hst Hok Hn Hne Hsc Hp Ha.
  unfold model_vers.
  rewrite (C04_vers_contains_q (fun a => pypi_scope a = true) scheme_table style_table
             model_scheme_ops $"pypi" ctext version
             {| sc_name := $"pypi"; sc_eco := $"pypi"; sc_pypi_gate := true |} NPypi ncs
             eq_refl Hv Hst eq_refl eq_refl pypi_native_ok Hsc Hok Hn Hne).
  - reflexivity.
  - split; [|exact Ha]. apply (normalize_sorted _ cl ncs pypi_tpo Hp Hn).
Qed.

Print Assumptions pypi_native_ok.
Print Assumptions pypi_tpo.
Print Assumptions C04_pypi_end_to_end.
