(* Vers/NativeRpm.v — C04 end to end for the VERS scheme "rpm" (ecosystem rpm, native
   syntax "<op><a>,<op><b>"): the hypothesis [native_ok] is discharged with the model's own
   rpm range and version layers (Top.model_scheme_ops). *)
From Coq Require Import List Sorted Lia.
From Verif.Base Require Import Bytes BytesFacts GoNum Ord.
From Verif.Eco Require Import RangeCore RangeCoreFacts Iface VLayer VLayerFacts.
From Verif.Eco.Rpm Require Version VersionFacts Range RangeFacts Entry.
From Verif.Vers Require Import Model FactsStr FactsC17 FactsSort FactsC16 FactsC04 NativeCommon.
From Verif.Gen Require Import VersDispatch.
From Verif Require Import Top.
Import ListNotations.
Local Open Scope N_scope.

Definition rpm_S : scheme_ops := model_scheme_ops $"rpm".

Lemma rpm_eco : eco_or_none $"rpm" = Some Rpm.Entry.entry.
Proof. reflexivity. Qed.

(* scope of the bounds: [scope_c] — non-empty, no leading operator character, no white space,
   no comma *)
Theorem rpm_native_ok : native_ok_q (fun a => scope_c a = true) rpm_S NComma.
Proof.
  apply (simple_native_ok Rpm.Range.cfg NComma scope_c (or_intror (or_introl eq_refl)) Rpm.RangeFacts.rpm_ops_ok) with
    (vok := self_vok Rpm.Entry.entry) (vcmp := self_vcmp Rpm.Entry.entry);
    try reflexivity.
  - intros o H. simpl in H. simpl. intuition (subst; auto).
  - exact scope_c_bound.
  - intros o a Hin Hsc.
    destruct (op_word_c _ o a Rpm.RangeFacts.rpm_ops_ok Hin Hsc) as (Hns & Hnc & Hne).
    change (rc_split Rpm.Range.cfg (o ++ a)) with (fields (replace_c ","%char " "%char (o ++ a))).
    rewrite (replace_nocomma _ Hnc). apply fields_one; assumption.
  - intros o1 a o2 b H1 H2 Sa Sb.
    destruct (op_word_c _ o1 a Rpm.RangeFacts.rpm_ops_ok H1 Sa) as (S1 & C1 & N1).
    destruct (op_word_c _ o2 b Rpm.RangeFacts.rpm_ops_ok H2 Sb) as (S2 & C2 & N2).
    cbn [sep_of].
    replace (o1 ++ a ++ $"," ++ o2 ++ b) with ((o1 ++ a) ++ $"," ++ (o2 ++ b))
      by (rewrite <- !app_assoc; reflexivity).
    split.
    + apply trim_space_two; assumption.
    + change ((o1 ++ a) ++ $"," ++ (o2 ++ b)) with ((o1 ++ a) ++ ","%char :: (o2 ++ b)).
      change (rc_split Rpm.Range.cfg ((o1 ++ a) ++ ","%char :: (o2 ++ b)))
        with (fields (replace_c ","%char " "%char ((o1 ++ a) ++ ","%char :: (o2 ++ b)))).
      rewrite (replace_comma_two _ _ C1 C2). apply (fields_two (o1 ++ a) (o2 ++ b)); assumption.
  - intros a Hs Hv. cbn [fb]. split; [exact Hs|split; [exact Hv|reflexivity]].
Qed.

(* the order hypothesis: rpm's Compare is a total preorder *)
Theorem rpm_tpo : TotalPreorderOn (vok_text rpm_S) (s_vcmp rpm_S).
Proof.
  apply (self_tpo _ Rpm.Version.parse_core Rpm.Version.cmp_core Rpm.Version.raw_orig
           (fun _ => True) (TPO_of_TP _ _ _ Rpm.VersionFacts.cmp_tp) (fun _ _ _ => I)
           Rpm.Entry.entry eq_refl).
Qed.

(* C04 for "vers:rpm/...", end to end: no hypothesis about the ecosystem layers is left *)
Theorem C04_rpm_end_to_end ctext version ncs :
  let S := model_scheme_ops $"rpm" in
  let cl := split_c "|"%char ctext in
  valid (vers_text $"rpm" ctext) <> None ->
  existsb is_star cl = false ->
  s_vok S version = true ->
  normalize S cl = Some ncs -> ncs <> [] ->
  Forall (fun c => scope_c (snd c) = true) ncs ->
  pairwise_nonequiv S cl ->
  alternating None None (filter is_bound_c ncs) <> None ->
  model_vers (vers_text $"rpm" ctext) version =
    b2v (VS.spec_contains (s_vcmp S) (spec_list ncs) version).
Proof.
  intros S cl Hv Hst Hok Hn Hne Hsc Hp Ha.
  unfold model_vers.
  rewrite (C04_vers_contains_q (fun a => scope_c a = true) scheme_table style_table
             model_scheme_ops $"rpm" ctext version
             {| sc_name := $"rpm"; sc_eco := $"rpm"; sc_pypi_gate := false |} NComma ncs
             eq_refl Hv Hst eq_refl eq_refl rpm_native_ok Hsc Hok Hn Hne).
  - reflexivity.
  - split; [|exact Ha]. apply (normalize_sorted _ cl ncs rpm_tpo Hp Hn).
Qed.

Print Assumptions rpm_native_ok.
Print Assumptions rpm_tpo.
Print Assumptions C04_rpm_end_to_end.
