(* Vers/NativeSemver.v — C04 end to end for the VERS scheme "generic" (ecosystem semver, native
   syntax "<op><a> <op><b>"): [native_ok] is discharged with the model's own semver range and
   version layers. *)
From Coq Require Import List Sorted Lia.
From Verif.Base Require Import Bytes BytesFacts GoNum Ord.
From Verif.Eco Require Import RangeCore RangeCoreFacts Iface VLayer VLayerFacts.
From Verif.Eco.Semver Require Version VersionFacts Range RangeFacts Entry.
From Verif.Vers Require Import Model FactsStr FactsC17 FactsSort FactsC16 FactsC04 NativeCommon.
From Verif.Gen Require Import VersDispatch.
From Verif Require Import Top.
Import ListNotations.
Local Open Scope N_scope.

Definition semver_S : scheme_ops := model_scheme_ops $"semver".

Lemma semver_eco : eco_or_none $"semver" = Some Semver.Entry.entry.
Proof. reflexivity. Qed.

(* the scope clause is the ecosystem's own: Semver.RangeFacts.bound_scope (non-empty, no white
   space, no comma, no leading operator character, not "*") *)
Notation semver_scope := Semver.RangeFacts.bound_scope.

Section Oracle.
  Variable vok : bytes -> bool.
  Variable vcmp : bytes -> bytes -> comparison.
  Notation rc := (r_contains Semver.Entry.r vok vcmp).

  Lemma sp_lo ia : Semver.RangeFacts.spelling (lo_op ia).
  Proof. left. destruct ia; simpl; tauto. Qed.
  Lemma sp_up ib : Semver.RangeFacts.spelling (up_op ib).
  Proof. left. destruct ib; simpl; tauto. Qed.
  Lemma sp_eq : Semver.RangeFacts.spelling $"=".
  Proof. left. simpl; tauto. Qed.

  Lemma semver_lo ia a v : semver_scope a = true -> vok a = true -> vok v = true ->
    rc (lo_op ia ++ a) v = Some (lo_val ia (vcmp v a)).
  Proof.
    intros Sa Ha Hv. rewrite (Semver.RangeFacts.c02_single vok vcmp _ a v (sp_lo ia) Sa Ha Hv).
    destruct ia; cbn; destruct (vcmp v a); reflexivity.
  Qed.

  Lemma semver_up ib b v : semver_scope b = true -> vok b = true -> vok v = true ->
    rc (up_op ib ++ b) v = Some (up_val ib (vcmp v b)).
  Proof.
    intros Sb Hb Hv. rewrite (Semver.RangeFacts.c02_single vok vcmp _ b v (sp_up ib) Sb Hb Hv).
    destruct ib; cbn; destruct (vcmp v b); reflexivity.
  Qed.

  Lemma semver_eq e v : semver_scope e = true -> vok e = true -> vok v = true ->
    rc ($"=" ++ e) v = Some (eq_val (vcmp v e)).
  Proof.
    intros Se He Hv. rewrite (Semver.RangeFacts.c02_single vok vcmp _ e v sp_eq Se He Hv).
    cbn; destruct (vcmp v e); reflexivity.
  Qed.

  Lemma semver_two ia a ib b v :
    semver_scope a = true -> semver_scope b = true -> vok a = true -> vok b = true -> vok v = true ->
    rc (lo_op ia ++ a ++ $" " ++ up_op ib ++ b) v =
      Some (lo_val ia (vcmp v a) && up_val ib (vcmp v b)).
  Proof.
    intros Sa Sb Ha Hb Hv.
    destruct (Semver.RangeFacts.c02_list vok vcmp " "%char [(lo_op ia, a); (up_op ib, b)] v)
      as (r & Hr & _ & Hc).
    - right; reflexivity.
    - discriminate.
    - constructor; [|constructor; [|constructor]]; (split; [|split]); cbn [fst snd];
        try assumption; [apply sp_lo|apply sp_up].
    - cbn [map join] in Hr. unfold Semver.RangeFacts.ctext in Hr. cbn [fst snd] in Hr.
      replace (lo_op ia ++ a ++ $" " ++ up_op ib ++ b)
        with ((lo_op ia ++ a) ++ [" "%char] ++ up_op ib ++ b) by (rewrite <- !app_assoc; reflexivity).
      unfold Semver.Entry.r. cbn [r_contains]. rewrite Hr, Hv, Hc.
      cbn [forallb fst snd]. rewrite andb_true_r.
      destruct ia, ib; cbn; destruct (vcmp v a); destruct (vcmp v b); reflexivity.
  Qed.
End Oracle.

Theorem semver_native_ok : native_ok_q (fun a => semver_scope a = true) semver_S NSpace.
Proof.
  apply (text_native_ok NSpace semver_scope (or_introl eq_refl)
           (self_vok Semver.Entry.entry) (self_vcmp Semver.Entry.entry)
           (r_contains Semver.Entry.r (self_vok Semver.Entry.entry) (self_vcmp Semver.Entry.entry)));
    try reflexivity.
  - apply semver_lo.
  - apply semver_up.
  - apply semver_eq.
  - apply semver_two.
  - intros a Hs Hv. cbn [fb]. split; [exact Hs|split; [exact Hv|reflexivity]].
Qed.

Theorem semver_tpo : TotalPreorderOn (vok_text semver_S) (s_vcmp semver_S).
Proof.
  apply (self_tpo _ Semver.Version.parse_core Semver.Version.cmp_core Semver.Version.raw_orig
           (fun _ => True) (TPO_of_TP _ _ _ Semver.VersionFacts.cmp_tp) (fun _ _ _ => I)
           Semver.Entry.entry eq_refl).
Qed.

(* C04 for "vers:generic/...", end to end *)
Theorem C04_generic_end_to_end ctext version ncs :
  let S := model_scheme_ops $"semver" in
  let cl := split_c "|"%char ctext in
  valid (vers_text $"generic" ctext) <> None ->
  existsb is_star cl = false ->
  s_vok S version = true ->
  normalize S cl = Some ncs -> ncs <> [] ->
  Forall (fun c => semver_scope (snd c) = true) ncs ->
  pairwise_nonequiv S cl ->
  alternating None None (filter is_bound_c ncs) <> None ->
  model_vers (vers_text $"generic" ctext) version =
    b2v (VS.spec_contains (s_vcmp S) (spec_list ncs) version).
Proof.
  intros S cl Hv Hst Hok Hn Hne Hsc Hp Ha.
  unfold model_vers.
  rewrite (C04_vers_contains_q (fun a => semver_scope a = true) scheme_table style_table
             model_scheme_ops $"generic" ctext version
             {| sc_name := $"generic"; sc_eco := $"semver"; sc_pypi_gate := false |} NSpace ncs
             eq_refl Hv Hst eq_refl eq_refl semver_native_ok Hsc Hok Hn Hne).
  - reflexivity.
  - split; [|exact Ha]. apply (normalize_sorted _ cl ncs semver_tpo Hp Hn).
Qed.

Print Assumptions semver_native_ok.
Print Assumptions semver_tpo.
Print Assumptions C04_generic_end_to_end.
