package main

import (
	"math/big"
	"strings"
)

// Boundary clusters: machine-word and decimal-width boundaries at which hand-written fast paths
// (packed keys, ParseUint with a digit-count guard, 32-bit fields, saturating conversions) go
// wrong.  A cluster is a handful of DIFFERENT numbers on both sides of one boundary, several
// of the same decimal width; boundaryVariants puts members of one cluster at the SAME position
// of one version text, so that the pool contains versions that differ only there.

var pow2s = []uint{7, 8, 15, 16, 20, 21, 22, 24, 31, 32, 53, 62, 63, 64}
var pow10s = []int{9, 10, 15, 18, 19, 20}

func clusterAround(b *big.Int) []string {
	var out []string
	for d := int64(-2); d <= 2; d++ {
		x := new(big.Int).Add(b, big.NewInt(d))
		if x.Sign() >= 0 {
			out = append(out, x.String())
		}
	}
	return out
}

// sameWidth: k different numbers of exactly w digits; for w = 20 biased above 2^64.
func sameWidth(r *RNG, w, k int) []string {
	var out []string
	for i := 0; i < k; i++ {
		var b strings.Builder
		first := byte('1' + r.Intn(9))
		if w == 20 && r.Chance(70) {
			first = byte('2' + r.Intn(8))
		}
		b.WriteByte(first)
		rep := r.Chance(40)
		for j := 1; j < w; j++ {
			if rep {
				b.WriteByte(first)
			} else {
				b.WriteByte(byte('0' + r.Intn(10)))
			}
		}
		out = append(out, b.String())
	}
	return out
}

// nClusters: 14 powers of two, 6 powers of ten, 6 same-width families, octal-looking spellings,
// runs of zeros.
const nClusters = 28

var octalCluster = []string{"010", "10", "8", "9", "0100", "100", "64", "012", "017", "08", "0x10", "0o10", "0b1", "1e3", "1_0"}
var zerosCluster = []string{"0", "00", "00000000000000000000", "000000000000000000000000", "", "1", "000000000000000000001"}


// boundaryClusterAt: cluster number i (mod nClusters); BuildPool walks through them in order
// from a seed-dependent start so that every pool covers many boundaries and successive seeds
// cover all of them.
func boundaryClusterAt(r *RNG, i int) []string {
	var c []string
	i = ((i % nClusters) + nClusters) % nClusters
	switch {
	case i < len(pow2s):
		c = clusterAround(new(big.Int).Lsh(big.NewInt(1), pow2s[i]))
	case i < len(pow2s)+len(pow10s):
		c = clusterAround(new(big.Int).Exp(big.NewInt(10), big.NewInt(int64(pow10s[i-len(pow2s)])), nil))
	case i == nClusters-2:
		return octalCluster
	case i == nClusters-1:
		return zerosCluster
	default:
		w := []int{10, 19, 20, 20, 20, 21}[i-len(pow2s)-len(pow10s)]
		c = sameWidth(r, w, 4)
		if w == 20 {
			c = append(c, "18446744073709551615", "99999999999999999999")
		}
	}
	return c
}

// digitRuns: [start,end) of every maximal run of ASCII digits.
func digitRuns(s string) [][2]int {
	var out [][2]int
	for i := 0; i < len(s); {
		if s[i] >= '0' && s[i] <= '9' {
			j := i
			for j < len(s) && s[j] >= '0' && s[j] <= '9' {
				j++
			}
			out = append(out, [2]int{i, j})
			i = j
		} else {
			i++
		}
	}
	return out
}

// boundaryVariants: up to k texts equal to s except that one digit run is replaced by
// different members of one boundary cluster.
func boundaryVariants(r *RNG, s string, k int, cluster int) []string {
	runs := digitRuns(s)
	if len(runs) == 0 {
		return nil
	}
	run := runs[r.Intn(len(runs))]
	c := boundaryClusterAt(r, cluster)
	var out []string
	order := r.Perm(len(c))
	if len(c) >= 5 && cluster%nClusters < len(pow2s)+len(pow10s) {
		// the boundary itself (middle of clusterAround) always takes part
		order = append([]int{2}, order...)
	}
	used := map[int]bool{}
	for _, i := range order {
		if len(out) >= k {
			break
		}
		if used[i] {
			continue
		}
		used[i] = true
		out = append(out, s[:run[0]]+c[i]+s[run[1]:])
	}
	// a second spelling (leading zeros) of one of the members just used: the same number, another
	// text length — fast paths guarded by a digit count treat the two differently
	if len(out) > 0 && cluster%nClusters < nClusters-2 && r.Chance(60) {
		for _, i := range order {
			if used[i] {
				out = append(out, s[:run[0]]+strings.Repeat("0", 1+r.Intn(2))+c[i]+s[run[1]:])
				break
			}
		}
	}
	return out
}
