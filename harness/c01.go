package main

import (
	"fmt"
	"reflect"
)

func init() { props["C01"] = checkC01 }

// pairMatrix computes the raw Compare results of the pool.
func pairMatrix(p *Pool) ([][]int, string) {
	n := len(p.Strs)
	m := make([][]int, n)
	for i := range m {
		m[i] = make([]int, n)
		for j := 0; j < n; j++ {
			c, pan := p.Eco.Compare(p.Vals[i], p.Vals[j])
			if pan != "" {
				return nil, fmt.Sprintf("Compare(%q,%q) panicked: %s", p.Strs[i], p.Strs[j], pan)
			}
			m[i][j] = c
		}
	}
	return m, ""
}

func boolField(v any, name string) (bool, bool) {
	rv := reflect.ValueOf(v)
	if rv.Kind() == reflect.Ptr {
		rv = rv.Elem()
	}
	if rv.Kind() != reflect.Struct {
		return false, false
	}
	f := rv.FieldByName(name)
	if !f.IsValid() || f.Kind() != reflect.Bool {
		return false, false
	}
	return f.Bool(), true
}

// lawSearch evaluates the preorder laws on all pairs and triples of the pool.
func lawSearch(ctx *Ctx, p *Pool, m [][]int) (nontrivial int) {
	res := ctx.Res
	e := p.Eco
	n := len(p.Strs)
	// alpm: the property excludes triples mixing versions with and without a pkgrel
	grp := make([]int, n)
	if e.Name == "alpm" {
		for i := range grp {
			if b, ok := boolField(p.Vals[i], "hasPkgrel"); ok && b {
				grp[i] = 1
			}
		}
	}
	for i := 0; i < n; i++ {
		if m[i][i] != 0 {
			res.violate(Violation{Eco: e.Name, Kind: "reflexivity", Input: []string{p.Strs[i]}, Expected: "0", Actual: fmt.Sprint(m[i][i])})
		}
		for j := 0; j < n; j++ {
			c := m[i][j]
			if c != -1 && c != 0 && c != 1 {
				res.violate(Violation{Eco: e.Name, Kind: "codomain", Input: []string{p.Strs[i], p.Strs[j]}, Expected: "-1|0|1", Actual: fmt.Sprint(c)})
			}
			if grp[i] == grp[j] && sign(m[j][i]) != -sign(c) {
				res.violate(Violation{Eco: e.Name, Kind: "antisymmetry", Input: []string{p.Strs[i], p.Strs[j]}, Expected: fmt.Sprint(-sign(c)), Actual: fmt.Sprint(m[j][i])})
			}
			if i < j && c != 0 {
				nontrivial++
			}
		}
	}
	for i := 0; i < n; i++ {
		for j := 0; j < n; j++ {
			if m[i][j] > 0 || grp[i] != grp[j] {
				continue
			}
			for k := 0; k < n; k++ {
				if m[j][k] > 0 || grp[j] != grp[k] {
					continue
				}
				strict := m[i][j] < 0 || m[j][k] < 0
				if m[i][k] > 0 || (strict && m[i][k] == 0) {
					exp := "<=0"
					if strict {
						exp = "<0"
					}
					v := Violation{Eco: e.Name, Kind: "transitivity", Input: []string{p.Strs[i], p.Strs[j], p.Strs[k]},
						Expected: fmt.Sprintf("cmp(a,b)=%d cmp(b,c)=%d so cmp(a,c)%s", m[i][j], m[j][k], exp), Actual: fmt.Sprint(m[i][k])}
					if e.Name == "maven" && mavenMix([]any{p.Vals[i], p.Vals[j], p.Vals[k]}) {
						v.Finding = "F-maven-order-cycle"
					}
					res.violate(v)
				}
			}
		}
	}
	return
}

// corrVersions compares acceptance and String() of every candidate, and the sign of Compare
// on every pool pair, between the implementation and the model's V-layer of that ecosystem.
func corrVersions(ctx *Ctx, e *Eco, cands []string, p *Pool, m [][]int) {
	if ctx.Pool == nil || !ctx.MEcos[e.Name] {
		return
	}
	res := ctx.Res
	var reqs []string
	var idx []int
	for i, s := range cands {
		if !vInDomain(e.Name, s) {
			continue
		}
		reqs = append(reqs, "VS "+e.Name+" "+hx(s))
		idx = append(idx, i)
	}
	ans, err := ctx.Pool.Map(reqs)
	if err != nil {
		res.Notes = append(res.Notes, "model error: "+err.Error())
		return
	}
	st := res.stream("V.accept/" + e.Name)
	for k, a := range ans {
		s := cands[idx[k]]
		pr := e.Parse(s)
		impl := "0"
		if pr.OK {
			str, _ := e.Str(pr.Val)
			impl = "1 " + hx(str)
		}
		st.Cases++
		if impl != a {
			res.disagree(Disagreement{Stream: "V.accept/" + e.Name, Eco: e.Name, Request: reqs[k], Input: s, Impl: impl, Model: a})
		}
	}
	reqs = reqs[:0]
	type ij struct{ i, j int }
	var pairs []ij
	for i := range p.Strs {
		if !isASCII(p.Strs[i]) {
			continue
		}
		for j := range p.Strs {
			if !isASCII(p.Strs[j]) {
				continue
			}
			reqs = append(reqs, "VC "+e.Name+" "+hx(p.Strs[i])+" "+hx(p.Strs[j]))
			pairs = append(pairs, ij{i, j})
		}
	}
	ans, err = ctx.Pool.Map(reqs)
	if err != nil {
		res.Notes = append(res.Notes, "model error: "+err.Error())
		return
	}
	st = res.stream("V.cmp/" + e.Name)
	for k, a := range ans {
		pq := pairs[k]
		impl := fmt.Sprint(sign(m[pq.i][pq.j]))
		st.Cases++
		if impl != a {
			res.disagree(Disagreement{Stream: "V.cmp/" + e.Name, Eco: e.Name, Request: reqs[k], Input: []string{p.Strs[pq.i], p.Strs[pq.j]}, Impl: impl, Model: a})
		}
	}
}

func checkC01(ctx *Ctx) {
	res := ctx.Res
	n := 230
	if !ctx.Quick {
		n = 420
	}
	res.Rule = "per ecosystem: pool of distinct accepted versions from the grammar-directed generator (8% mutated) plus corpus; laws on all pairs and all triples of the pool on the implementation; V-layer correspondence (accept, String, sign of Compare) on all ASCII candidates and all pool pairs. non-trivial = unordered pool pairs that compare unequal"
	dist := map[string]any{}
	for _, e := range allEcos {
		r := NewRNG(ctx.Seed, "C01/"+e.Name)
		p, cands := BuildPool(e, r, n, corpusVersions(e.Name))
		m, pan := pairMatrix(p)
		if pan != "" {
			res.violate(Violation{Eco: e.Name, Kind: "panic", Input: pan, Expected: "no panic", Actual: "panic"})
			continue
		}
		nt := lawSearch(ctx, p, m)
		res.Evaluations += len(p.Strs) * len(p.Strs) * len(p.Strs)
		res.DistinctNontrivial += nt
		dist[e.Name] = map[string]int{"candidates": len(cands), "pool": len(p.Strs), "unequal_pairs": nt}
		if len(p.Strs) >= 3 {
			res.sample(map[string]any{"eco": e.Name, "triple": p.Strs[:3], "cmp_ab": m[0][1], "cmp_bc": m[1][2], "cmp_ac": m[0][2]})
		}
		corrVersions(ctx, e, cands, p, m)
	}
	res.Distribution["per_ecosystem"] = dist
}
